#!/usr/bin/env python3
"""Regenerates /verif/MANIFEST.json from props.json (claimed properties) and properties.jsonl."""
import json, os, subprocess
ROOT = os.path.dirname(os.path.dirname(os.path.abspath(__file__)))
props = json.load(open(os.path.join(ROOT, "props.json")))
allp = [json.loads(l) for l in open(os.path.join(ROOT, "properties.jsonl"))]
hooks_commits = []
try:
    log = subprocess.run(["git", "-C", "/repo", "log", "--format=%h %s"], stdout=subprocess.PIPE).stdout.decode()
    hooks_commits = [l.split(" ")[0] for l in log.split("\n") if l.split(" ", 1)[-1].startswith("hook:")]
except Exception:
    pass
checks = []
for p in allp:
    pid = p["id"]
    if pid not in props or props[pid].get("claimed") is False:
        continue
    c = props[pid]
    checks.append({
        "property_id": pid,
        "quick_cmd": f"./check {pid} --tier quick",
        "thorough_cmd": f"./check {pid} --tier thorough",
        "evidence_file": f"/verif/evidence/{pid}.json",
        "replay_cmd_template": f"./check {pid} --replay {{path}}",
        "engine": "lean4-proof+correspondence",
        "level_claimed": {
            "category": "proof",
            "text": c.get("level_text", "Lean 4 theorems about a hand-written executable model of the code, for all inputs/states/histories; the model is tied to /repo on every run by a differential correspondence check (real code vs compiled Lean model on the same operation lines) plus implementation-level oracles"),
            "design_ref": c.get("design_ref", f"DESIGN.md §6 {pid}"),
        },
        "level_note": c.get("level_note", "Trusted: Lean kernel, axioms propext/Classical.choice/Quot.sound, the correspondence check (generator quality bounds what it sees), Rust harness, Lean compiler for the driver. " + " ".join(c.get("assumptions", []))),
        "technique": c.get("technique", "machine-checked proof in Lean 4 (invariant + refinement) tied to the code by a correspondence check"),
    })
na = []
for p in allp:
    if p["id"] not in props or props[p["id"]].get("claimed") is False:
        na.append({"property_id": p["id"], "reason": json.load(open(os.path.join(ROOT, "not_claimed.json"))).get(p["id"], "check not built yet")})
man = {
    "version": 1,
    "setup_cmd": "./tools/setup.sh",
    "hooks": {
        "guard": "constriction_verif",
        "enable": "RUSTFLAGS=--cfg constriction_verif via /verif/harness/.cargo/config.toml (cargo build --profile verif in /verif/harness, path dependency on /repo)",
        "baseline_off_cmd": "cd /repo && cargo test --workspace --no-fail-fast --offline",
        "source_commits": hooks_commits,
        "add_only": True,
    },
    "engines": [{
        "name": "lean4-proof+correspondence",
        "path": "/verif/check",
        "serves_properties": [c["property_id"] for c in checks],
        "kind_free_text": "Lean 4 library CV (Impl models, specs, proofs, property theorems), native Lean driver, Rust correspondence/oracle harness, python orchestrator",
    }],
    "checks": checks,
    "notes": "See DESIGN.md. Every check rebuilds the harness from /repo's working tree and re-checks the theorems (lake build + #print axioms audit).",
    "not_applicable": na,
}
json.dump(man, open(os.path.join(ROOT, "MANIFEST.json"), "w"), indent=1)
print("claimed:", [c["property_id"] for c in checks])
