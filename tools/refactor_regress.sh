#!/bin/sh
# refactor_regress.sh <worktree>...: run every property's quick check against behaviour-preserving
# refactorings (scratch worktrees of /repo with the change applied); every line must say OK.
# Development aid; not a registered command.
cd /verif
for wt in "$@"; do
  for p in C01 C02 C03 C04 C05 C06 C07 C08 C09 C10 C11 C12 C13 C14 C15 C16 C17 C18 C19 C20; do
    out=$(VERIF_REPO=$wt ./check $p 2>&1)
    echo "$(basename $wt) $(echo "$out" | grep -v '^KNOWN' | tail -1 | cut -c1-110) [violations=$(echo "$out" | grep -c '^VIOLATION')]"
    echo "$out" | grep '^VIOLATION' | head -3
  done
done
