#!/usr/bin/env python3
"""Regenerate the theorem list of DESIGN.md §13.4 from the property files (same extraction as ./check)."""
import glob, os, re, importlib.machinery, importlib.util
here = os.path.dirname(os.path.abspath(__file__)); root = os.path.dirname(here)
loader = importlib.machinery.SourceFileLoader('chk', os.path.join(root, 'check'))
spec = importlib.util.spec_from_loader('chk', loader); chk = importlib.util.module_from_spec(spec); loader.exec_module(chk)
per = {}
for f in sorted(glob.glob(os.path.join(root, 'lean/CV/Properties/*.lean'))):
    pid, comp = os.path.basename(f)[:-5].split('_', 1)
    per.setdefault(pid, []).append((comp, chk.theorem_names(open(f).read())))
total = sum(len(n) for v in per.values() for _, n in v)
lines = [f"Theorems per property file (all audited with `#print axioms` on every run and pinned by name in",
         f"`tools/theorems.lock.json`; {total} at the time of writing; regenerate with `tools/theorem_list.py`):", ""]
for pid in sorted(per):
    parts = []
    for comp, names in per[pid]:
        parts.append(f"`{comp}`: " + ", ".join(f"`{n.split('.')[-1]}`" for n in names))
    lines.append(f"* **{pid}** — " + "; ".join(parts))
block = "\n".join(lines) + "\n"
p = os.path.join(root, 'DESIGN.md'); s = open(p).read()
a = s.index("Theorems per property file (all audited"); b = s.index("### 13.5 Trusted base as built")
s = s[:a] + block + "\n" + s[b:]
open(p, 'w').write(s); print(total)
