#!/usr/bin/env python3
"""Semantic compile-fail probes for the crate's static guards (DESIGN.md §4b).

tools/static_guards.py compares the `generic_static_asserts!` blocks of /repo *textually* with a
committed expectation.  This tool decides *by compiling* whether each guard is still enforced at
each guarded entry point: harness/guardprobes/src/bin/<component>__<fn>[-<site>]__<LABEL>__bad.rs
instantiates one entry point with a type combination that violates exactly that label and must
NOT compile, <component>__control__ok.rs instantiates the same entry points at boundary-valid
combinations and MUST compile.

    guard_probes.py [--json] <component>...     (ans range chain cat quant; bits huff backend have no guards)

    PROBE-COVERS  <name> <file>::<fn>::<LABEL>      mapping to the keys of static_guards_expected.json
    PROBE-OK      <name>
    PROBE-PROBLEM <name>: compiled although it violates <label> (<file>::<fn>) [witness: ...]
    PROBE-PROBLEM <name>: no longer rejected by <label> ...     (only other guards still reject it)
    PROBE-PROBLEM <name>: control no longer compiles: <first error line>
    PROBE-STALE   <name>: <first error line>                    (the probe cannot decide)
    PROBE-NOTE    ...                                           (keys of the expectation without probe)
    guard probes: <n> built, <k> problems, <s> stale, <t> s

Exit 0 iff there is no PROBLEM.  VERIF_REPO=<dir> probes a scratch copy of the repository exactly
like `check` does for the harness.
"""
import hashlib, json, os, re, shutil, subprocess, sys, time

HERE = os.path.dirname(os.path.abspath(__file__))
ROOT = os.path.dirname(HERE)
WORK = os.path.join(ROOT, ".work")
CRATE = os.path.join(ROOT, "harness", "guardprobes")
COMPONENTS = ["ans", "range", "chain", "cat", "quant", "bits", "huff", "backend"]
WITNESS_TIMEOUT = 20


def scrubbed_env():
    env = {}
    for k, v in os.environ.items():
        if (k.startswith("CARGO_") and k not in ("CARGO_HOME", "CARGO_NET_OFFLINE")) or k.startswith("RUSTFLAGS") \
                or k in ("RUSTC_WRAPPER", "RUSTC_WORKSPACE_WRAPPER", "RUSTC", "RUSTDOCFLAGS", "GUARD_WITNESS",
                         "GUARD_PROBE_ENTER_UNREACHABLE"):
            continue
        env[k] = v
    env["CARGO_NET_OFFLINE"] = "true"
    return env


def prepare_crate():
    """returns (crate dir, target dir); honours VERIF_REPO like check:build_harness"""
    alt = os.environ.get("VERIF_REPO")
    if not alt:
        return CRATE, os.path.join(WORK, "target-guards")
    tag = hashlib.md5(alt.encode()).hexdigest()[:8]
    hdir = os.path.join(WORK, "guardprobes-alt-" + tag)
    tdir = os.path.join(WORK, "target-guards-alt-" + tag)
    if os.path.exists(hdir):
        shutil.rmtree(hdir)
    shutil.copytree(CRATE, hdir)
    p = os.path.join(hdir, "Cargo.toml")
    ct = open(p).read()
    assert 'path = "/repo"' in ct
    open(p, "w").write(ct.replace('path = "/repo"', 'path = "%s"' % alt))
    p = os.path.join(hdir, ".cargo", "config.toml")
    cf = open(p).read()
    assert 'target-dir = "../../.work/target-guards"' in cf
    open(p, "w").write(cf.replace('target-dir = "../../.work/target-guards"', 'target-dir = "%s"' % tdir))
    return hdir, tdir


def load_probes(comps):
    probes = {}
    bindir = os.path.join(CRATE, "src", "bin")
    for fn in sorted(os.listdir(bindir)):
        if not fn.endswith(".rs"):
            continue
        name = fn[:-3]
        comp = name.split("__", 1)[0]
        if comp not in comps:
            continue
        hdr = {}
        for line in open(os.path.join(bindir, fn)):
            m = re.match(r"//!\s*([a-z-]+):\s*(.*\S)\s*$", line)
            if m:
                hdr[m.group(1)] = m.group(2)
            elif not line.startswith("//!"):
                break
        p = {"name": name, "component": comp, "header": hdr}
        if name.endswith("__bad"):
            p["kind"] = "bad"
            key = hdr.get("covers", "")
            parts = key.split("::")
            if len(parts) != 3:
                raise SystemExit(f"guard_probes: {fn}: missing or malformed `//! covers: <file>::<fn>::<LABEL>` header")
            p["covers"], p["file"], p["fn"], p["label"] = key, parts[0], parts[1], parts[2]
            if not name.startswith(f"{comp}__{parts[1]}") or f"__{parts[2]}__bad" not in name:
                raise SystemExit(f"guard_probes: {fn}: file name does not match its covers header {key}")
            p["implied_by"] = set(re.findall(r"\b[A-Z][A-Z0-9_]{3,}\b", hdr.get("implied-by", "").split("(")[0]))
            p["also"] = set(re.findall(r"\b[A-Z][A-Z0-9_]{3,}\b", hdr.get("also-violates", "")))
        elif name.endswith("__ok"):
            p["kind"] = "control"
        else:
            raise SystemExit(f"guard_probes: {fn}: probe names end in __bad or __ok")
        probes[name] = p
    return probes


def cargo_build(hdir, names, env, features=()):
    """-> (per-bin diagnostics, set of bins that produced an executable {name: path}, diagnostics of
    non-bin targets, raw stderr tail)"""
    cmd = ["cargo", "build", "--keep-going", "--message-format=json"]
    if features:
        cmd += ["--features", ",".join(features)]
    for n in names:
        cmd += ["--bin", n]
    p = subprocess.run(cmd, cwd=hdir, env=env, stdout=subprocess.PIPE, stderr=subprocess.PIPE, timeout=3600)
    diags, exes, dep_errors = {}, {}, []
    for line in p.stdout.decode("utf-8", "replace").split("\n"):
        if not line.startswith("{"):
            continue
        try:
            d = json.loads(line)
        except ValueError:
            continue
        tgt = d.get("target", {})
        is_bin = tgt.get("kind") == ["bin"]
        if d.get("reason") == "compiler-artifact" and is_bin and d.get("executable"):
            exes[tgt["name"]] = d["executable"]
        elif d.get("reason") == "compiler-message":
            m = d["message"]
            if is_bin:
                diags.setdefault(tgt["name"], []).append(m)
            elif m.get("level") == "error":
                dep_errors.append(m)
    return diags, exes, dep_errors, p.stderr.decode("utf-8", "replace")[-2000:]


LABEL_RE = re.compile(r"::([A-Za-z_][A-Za-z0-9_]*)`\s+failed")


def first_line(m):
    txt = (m.get("rendered") or m.get("message") or "").strip().split("\n")
    head = txt[0] if txt else "?"
    loc = ""
    for s in m.get("spans", []):
        if s.get("is_primary"):
            loc = f" [{s.get('file_name')}:{s.get('line_start')}]"
            break
    return head + loc


def guard_site(m):
    """where the fired assertion was written: the outermost macro call site (file:line)"""
    for s in m.get("spans", []):
        if not s.get("is_primary"):
            continue
        e, site = s, None
        while e is not None:
            site = (e.get("file_name"), e.get("line_start"))
            exp = e.get("expansion")
            e = exp.get("span") if exp else None
        return "%s:%s" % site if site else None
    return None


def analyse(msgs, own_label):
    """splits the error diagnostics of one bin into fired guards {label: [site...]} and others"""
    fired, others = {}, []
    for m in msgs:
        if m.get("level") != "error":
            continue
        msg = m.get("message", "")
        if msg.startswith("aborting due to") or msg.startswith("could not compile"):
            continue
        code = (m.get("code") or {}).get("code")
        rendered = m.get("rendered") or ""
        is_const_eval = code == "E0080" or "evaluation of" in rendered or "evaluation panicked" in rendered
        if is_const_eval:
            labels = set()
            for s in m.get("spans", []):
                labels.update(LABEL_RE.findall(s.get("label") or ""))
            labels.update(LABEL_RE.findall(rendered))
            if not labels and own_label and re.search(r"\b%s\b" % re.escape(own_label), rendered):
                # a rewritten macro that reports the label in its panic message or call site only
                labels.add(own_label)
            if labels:
                for lab in labels:
                    fired.setdefault(lab, []).append(guard_site(m))
                continue
        others.append(m)
    return fired, others


def run_witnesses(hdir, names, env):
    """build the given (unexpectedly compiling) bad probes with their runtime witness and run them"""
    out = {}
    if not names:
        return out
    try:
        diags, exes, dep_errors, _ = cargo_build(hdir, names, env, features=("witness",))
    except subprocess.TimeoutExpired:
        return {n: "witness build timed out" for n in names}
    for n in names:
        if n not in exes:
            fired, others = analyse(diags.get(n, []), None)
            if fired:
                out[n] = "not available: the round trip needs other entry points that still reject this combination (%s)" % ", ".join(sorted(fired))
            elif others:
                out[n] = "not available: witness does not build: " + first_line(others[0])
            else:
                out[n] = "not available: witness was not built"
            continue
        wenv = dict(env)
        wenv["GUARD_WITNESS"] = "1"
        try:
            p = subprocess.run([exes[n]], env=wenv, stdout=subprocess.PIPE, stderr=subprocess.PIPE, timeout=WITNESS_TIMEOUT)
            so = p.stdout.decode("utf-8", "replace").strip().split("\n")
            se = [l for l in p.stderr.decode("utf-8", "replace").strip().split("\n") if l and not l.startswith("note:")]
            text = so[-1] if so and so[-1] else (se[0] if se else "")
            if p.returncode < 0:
                text = (text + " " if text else "") + f"(killed by signal {-p.returncode}" + (": " + se[0] if se and se[0] not in text else "") + ")"
            elif p.returncode == 0 and not text:
                text = "exited 0 without output (no witness implemented for this entry point)"
            out[n] = f"exit {p.returncode}: {text}" if p.returncode >= 0 else text
        except subprocess.TimeoutExpired:
            out[n] = f"still running after {WITNESS_TIMEOUT} s (killed)"
    return out


def expected_keys(comps):
    try:
        exp = json.load(open(os.path.join(HERE, "static_guards_expected.json")))
    except (OSError, ValueError):
        return None
    keys = []
    for c in comps:
        for f, e in exp.get(c, {}).items():
            keys += [f"{f}::{k}" for k in e.get("guards", {})]
    return keys


def static_files(comp):
    try:
        import static_guards
        return static_guards.FILES.get(comp, [])
    except Exception:
        return []


def source_keys(comps):
    """the guards that are in the sources right now (textual extraction of static_guards.py), plus
    files that invoke the macro without belonging to any component"""
    repo = os.environ.get("VERIF_REPO", "/repo")
    try:
        sys.dont_write_bytecode = True
        sys.path.insert(0, HERE)
        import static_guards
    except Exception:
        return None, []
    keys = []
    for c in comps:
        for f in static_guards.FILES.get(c, []):
            try:
                g, _ = static_guards.extract(os.path.join(repo, f))
            except OSError:
                continue
            keys += [f"{f}::{fn}::{lab}" for (fn, lab) in sorted(g)]
    known = {f for fs in static_guards.FILES.values() for f in fs}
    stray = []
    for d, _, files in sorted(os.walk(os.path.join(repo, "src"))):
        for fn in sorted(files):
            rel = os.path.relpath(os.path.join(d, fn), repo)
            if fn.endswith(".rs") and rel not in known and rel != "src/lib.rs":
                try:
                    if re.search(r"generic_static_asserts!\s*\(", open(os.path.join(d, fn)).read()):
                        stray.append(rel)
                except OSError:
                    pass
    return keys, stray


def main():
    args = [a for a in sys.argv[1:] if not a.startswith("--")]
    flags = [a for a in sys.argv[1:] if a.startswith("--")]
    want_json = "--json" in flags
    bad_args = [a for a in args if a not in COMPONENTS] + [f for f in flags if f not in ("--json",)]
    if not args or bad_args:
        sys.stderr.write(__doc__)
        if bad_args:
            sys.stderr.write("\nunknown argument(s): %s\n" % " ".join(bad_args))
        return 2
    comps = [c for c in COMPONENTS if c in args]
    t0 = time.time()
    probes = load_probes(comps)
    lines, results = [], []
    env = scrubbed_env()
    names = sorted(probes)
    diags, exes, dep_errors, stderr_tail = {}, {}, [], ""
    hdir = None
    if names:
        hdir, tdir = prepare_crate()
        diags, exes, dep_errors, stderr_tail = cargo_build(hdir, names, env)

    verdict = {}
    for n in names:
        p = probes[n]
        msgs = diags.get(n, [])
        fired, others = analyse(msgs, p.get("label"))
        r = {"name": n, "component": p["component"], "kind": p["kind"], "fired": {k: sorted(set(filter(None, v))) for k, v in sorted(fired.items())}}
        if p["kind"] == "bad":
            r.update(covers=p["covers"], site=p["header"].get("site"), violates=p["header"].get("violates"))
        attempted = n in exes or any(m.get("level") == "error" for m in msgs)
        if not attempted:
            # cargo never got to this bin: a dependency (the crate itself or the helper library) failed
            why = first_line(dep_errors[0]) if dep_errors else (stderr_tail.strip().split("\n")[-1] if stderr_tail.strip() else "not built")
            if p["kind"] == "control":
                r.update(status="PROBLEM", detail=f"control no longer compiles: {why}")
            else:
                r.update(status="STALE", detail=f"not built, a dependency does not compile: {why}")
        elif p["kind"] == "control":
            if n in exes:
                r.update(status="OK", detail="")
            else:
                errs = [m for m in msgs if m.get("level") == "error" and not m.get("message", "").startswith("aborting due to")]
                r.update(status="PROBLEM", detail="control no longer compiles: " + (first_line(errs[0]) if errs else "?"))
        else:
            lab = p["label"]
            where = f"{p['file']}::{p['fn']}"
            if n in exes:
                r.update(status="PROBLEM", detail=f"compiled although it violates {lab} ({where})", compiled=True)
            elif lab in fired:
                extra = sorted(set(fired) - {lab} - p["also"])
                r.update(status="OK", detail="", isolation_lost=extra)
            elif others:
                r.update(status="STALE", detail=first_line(others[0]))
            elif fired and set(fired) <= p["implied_by"]:
                r.update(status="IMPLIED", detail="")   # decided below, once the verdicts on the implying guards are known
            elif fired and not p["also"] and not p["implied_by"]:
                # the probe violates this one condition only (header `violates:`/`holds:`), so whatever assertion
                # refused it enforces that condition here; the label was renamed or the block restructured
                r.update(status="OK", detail=f"(refused by {', '.join(sorted(fired))}; the label {lab} is not reported any more - renamed?)", isolation_lost=[])
            elif fired and (set(fired) - p["also"] - p["implied_by"]):
                r.update(status="STALE", detail=f"refused by {', '.join(sorted(fired))}, which this probe does not know; cannot tell whether {lab} is still enforced")
            elif fired:
                r.update(status="PROBLEM", detail=f"no longer rejected by {lab} ({where}); the build only fails because this combination "
                                                  f"also trips {', '.join(sorted(fired))}")
            else:
                r.update(status="STALE", detail="failed to compile without an error diagnostic")
        verdict[n] = r

    for n in names:
        r, p = verdict[n], probes[n]
        if r["status"] != "IMPLIED":
            continue
        # the label cannot be violated alone at this entry point: the other guards listed under
        # `implied-by` entail it.  Not asserting it is harmless iff each of those is still enforced
        # at the same entry point (their own probes say so).
        lab, where = p["label"], f"{p['file']}::{p['fn']}"
        missing = []
        for other in sorted(p["implied_by"]):
            ok = any(q["kind"] == "bad" and q["file"] == p["file"] and q["fn"] == p["fn"] and q["label"] == other
                     and verdict[m]["status"] == "OK" and other in verdict[m]["fired"] for m, q in probes.items())
            if not ok:
                missing.append(other)
        if missing:
            r.update(status="PROBLEM", detail=f"no longer rejected by {lab} ({where}), and {', '.join(missing)}, which used to imply it "
                                              f"together with the other guards, {'is' if len(missing) == 1 else 'are'} not enforced there either")
        else:
            r.update(status="OK", detail=f"({lab} itself is not asserted in {where} any more; harmless, because "
                                         f"{', '.join(sorted(p['implied_by']))} are all still enforced there and together imply it)")

    compiled_bad = [n for n in names if verdict[n].get("compiled")]
    if compiled_bad:
        w = run_witnesses(hdir, compiled_bad, env)
        for n in compiled_bad:
            verdict[n]["witness"] = w.get(n, "not available")
            verdict[n]["detail"] += f"; witness: {verdict[n]['witness']}"

    covered = set()
    for n in names:
        if probes[n]["kind"] == "bad":
            covered.add(probes[n]["covers"])
            lines.append(f"PROBE-COVERS {n} {probes[n]['covers']}")
    notes = []
    keys = expected_keys(comps)
    if keys is not None:
        for k in keys:
            if k not in covered:
                notes.append(f"no probe covers {k}")
        for k in sorted(covered - set(keys)):
            notes.append(f"probes cover {k}, which tools/static_guards_expected.json does not list")
    skeys, stray = source_keys(comps)
    if skeys is not None:
        # by (file, label) only: in which function of the file an assertion is written is irrelevant
        # (shared helpers), a label that no probe of that file knows is news
        cov_fl = {(k.split("::")[0], k.split("::")[2]) for k in covered}
        for k in skeys:
            f_, _, lab_ = k.split("::")
            if (f_, lab_) not in cov_fl:
                notes.append(f"no probe covers {k} (found in the sources)")
    for f in stray:
        notes.append(f"{f} uses generic_static_asserts! but belongs to no component")
    for n in names:
        r = verdict[n]
        results.append(r)
        if r["status"] == "OK":
            lines.append(f"PROBE-OK {n}" + (" " + r["detail"] if r["detail"] else ""))
        else:
            lines.append(f"PROBE-{r['status']} {n}: {r['detail']}")
        if r.get("isolation_lost"):
            notes.append(f"{n}: besides its own label also {', '.join(r['isolation_lost'])} fired (the probe no longer violates one guard only)")
    for x in notes:
        lines.append("PROBE-NOTE " + x)
    for c in comps:
        if not any(p["component"] == c for p in probes.values()):
            has = skeys is not None and any(k.split("::")[0] in static_files(c) for k in skeys)
            lines.append(f"PROBE-NOTE component {c} has no probes" + ("" if has or skeys is None else " and no static guards in its files"))
    k = sum(1 for r in results if r["status"] == "PROBLEM")
    s = sum(1 for r in results if r["status"] == "STALE")
    dt = time.time() - t0
    summary = f"guard probes: {len(results)} built, {k} problems, {s} stale, {dt:.1f} s"
    if want_json:
        print(json.dumps({"components": comps, "repo": os.environ.get("VERIF_REPO", "/repo"), "probes": results, "notes": notes,
                          "built": len(results), "problems": k, "stale": s, "seconds": round(dt, 1)}, indent=1, sort_keys=True))
    else:
        for l in lines:
            print(l)
        print(summary)
    return 1 if k else 0


if __name__ == "__main__":
    sys.exit(main())
