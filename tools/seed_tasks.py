#!/usr/bin/env python3
"""seed_tasks.py <round>: creates one scratch worktree of /repo per property under /tmp/seed<round>-Cxx and writes the task
file TASK.md for a fresh sub-agent into it (the property text, the offline cargo recipe, what to deliver, and the names and
summaries of the changes already tried for that property, from seeded/*/meta.json).  The agent prompt is then just:
'Read /tmp/seed<round>-Cxx/TASK.md and carry it out; work only in that directory.'  Development aid."""
import json, os, glob, subprocess, sys
ROUND = sys.argv[1] if len(sys.argv) > 1 else '9'
props = [json.loads(l) for l in open('/verif/properties.jsonl')]
prior = {}
for d in sorted(glob.glob('/verif/seeded/*/')):
    m = json.load(open(d + 'meta.json'))
    name = os.path.basename(d.rstrip('/'))
    prior.setdefault(m['property'], []).append((name, m.get('summary', '')[:330].replace('\n', ' ')))
for p in props:
    pid = p['id']
    wt = f'/tmp/seed{ROUND}-{pid}'
    if not os.path.exists(wt):
        subprocess.run(['git', '-C', '/repo', 'worktree', 'add', '-q', '--detach', wt, 'HEAD'], check=True)
    pr = '\n'.join(f'* `{n}`: {s}…' for n, s in prior.get(pid, []))
    task = f"""# Task: seed one realistic defect into the Rust crate `constriction` (property {pid})

You are working in your own scratch git worktree of the crate: `{wt}` (a checkout of the pinned commit).
Work ONLY inside `{wt}` (and `/tmp/seed{ROUND}-{pid}-target` for build output). Never touch or read `/repo` or `/verif`.
The sandbox has no network: always run cargo as
`CARGO_NET_OFFLINE=true CARGO_TARGET_DIR=/tmp/seed{ROUND}-{pid}-target cargo <cmd> --offline`.

`constriction` is a Rust library (with Python bindings under `src/pybindings`) of entropy coders: rANS stack coder
(`src/stream/stack.rs`), range coder (`src/stream/queue.rs`), experimental chain coder (`src/stream/chain.rs`),
entropy models (`src/stream/model*`), bit-level symbol codes (`src/symbol/*`), word sources/sinks (`src/backends.rs`),
shared traits (`src/stream/mod.rs`, `src/lib.rs`).

## The property (this is everything you are told about what is being protected)

```json
{json.dumps(p, indent=1)}
```

## What to produce

ONE change to the crate's source (`src/**`, not tests, not docs) that

1. **breaks the property above** (for some input / state / history / type combination),
2. still **compiles** and passes the **whole existing test suite unedited**: `cargo test --offline` (unit tests,
   integration tests in `tests/`, and the ~55 doc tests; takes 2-3 minutes) — all groups must say `test result: ok`,
3. is **realistic**: the kind of thing a maintainer could plausibly commit (a refactoring slip, a "performance
   optimisation", a "simplification", an off-by-one at an edge, a fast path, a changed default, a helper reused in a
   context where its precondition does not hold, two sites that each look fine alone but disagree), not sabotage that
   ordinary use exposes at once,
4. **needs something specific to manifest**: a particular multi-step sequence of operations, an unusual but legal
   input, a type combination off the defaults (`u8`/`u16` words, `State` = 4 or 8 words, `PRECISION == Word::BITS` or
   `== Probability::BITS`, `u64`/`u128`, signed or narrow symbol types, `usize` symbols above 2^32), a non-`Vec`
   backend (`Cursor`, `Reverse<Cursor>`, `SmallVec`, iterator / callback adapters), a particular fill level or state
   exactly on a threshold, an error part-way through a batch, a particular memory layout on the Python side, …

Directions that earlier rounds have used little and that are welcome now (pick what fits the property; do not force it):
trait impls and provided trait methods nobody calls in the tests (`Iterator::size_hint` / `nth` / `ExactSizeIterator::len`
of the crate's iterators, `Default`, `From`/`Into` conversions, `Clone` of guards and views, `Extend`-like batch
methods); behaviour that differs between build profiles (`debug_assert!`, `cfg(debug_assertions)`, wrapping vs checked
arithmetic) — if your change only shows in release builds, make the demo's `Cargo.toml` select that profile;
two types that must agree (an encoder over one backend and a decoder over another; a model and its view; `&M`
blanket impls); user-defined implementations of the crate's traits (a custom `WriteWords`/`ReadWords` sink or source that
fails or is slow to report exhaustion, a custom `EntropyModel`, a custom `BitArray`-sized word); the state an object is
left in after an error; operations in an unusual *order* (seek before the first read, export twice, convert back and
forth, reuse after `clear`); the Python bindings under `src/pybindings` (build them only if you need to run them:
`cargo build --release --features pybindings --offline` with `PYO3_PYTHON=/opt/veriftools/pyvenv/bin/python`).

Changes that were already tried for this property in earlier rounds — pick a **different code site and a different
mechanism** (reading these also shows the expected flavour):

{pr}

## Deliverables (all inside `{wt}`)

* The change applied to the working tree (leave it applied), plus `patch.diff` = `git diff -- src > patch.diff`.
* `demo/`: a tiny standalone cargo binary crate demonstrating the breakage: `demo/Cargo.toml` with an empty
  `[workspace]` table, `constriction = {{ path = ".." }}` (add `probability = "0.20"` only if needed; copy `../Cargo.lock`
  into `demo/` first so it resolves offline) and `demo/src/main.rs` that **exits 0 when the property holds and
  non-zero (panic or `std::process::exit(1)`) when it is violated**. It must fail WITH your change and pass WITHOUT it
  (verify both: `git apply -R patch.diff`, run, `git apply patch.diff`). Run it with
  `cd demo && CARGO_NET_OFFLINE=true CARGO_TARGET_DIR=/tmp/seed{ROUND}-{pid}-target/demo cargo run --offline`.
  The demo should check the property through public API only, deterministic, a few seconds at most.
* `meta.json`: `{{"property": "{pid}", "summary": "<what the change does and why it looks plausible>", "needs": "<what exactly
  is needed for it to manifest; include the concrete failing input>", "tests_pass": true, "demo_fails_with_patch": true,
  "demo_passes_without_patch": true, "commands": ["<the commands you ran>"]}}`

If while reading you find that the UNCHANGED code already violates the property for some input, say so in your final
report (with the input) — that is valuable — but still deliver a seeded change.

Final report (short): the site, the mechanism, the failing input, and confirmation of the three runs (tests with patch,
demo with patch = fails, demo without patch = passes).
"""
    open(f'{wt}/TASK.md', 'w').write(task)
    print(pid, len(prior.get(pid, [])), 'prior')
