#!/usr/bin/env python3
"""Regenerate the table of DESIGN.md §15 from seeded/*/meta.json."""
import glob, json, os, re
root = os.path.dirname(os.path.dirname(os.path.abspath(__file__)))
def clip(t, n):
    t = re.sub(r"\s+", " ", str(t)).replace("|", "\\|")
    return t if len(t) <= n else t[:n - 1] + "…"
rows = ["| seeded change | what it does | what it needs | caught by |", "|---|---|---|---|"]
for d in sorted(glob.glob(os.path.join(root, "seeded", "*"))):
    m = json.load(open(os.path.join(d, "meta.json")))
    rows.append("| `%s` | %s | %s | %s |" % (os.path.basename(d), clip(m.get("summary", ""), 280), clip(m.get("needs", ""), 220), clip("; ".join(m.get("caught_by", [])), 400)))
p = os.path.join(root, "DESIGN.md"); s = open(p).read()
a = s.index("| seeded change | what it does | what it needs | caught by |")
b = s.index("\n\n", a)
s = s[:a] + "\n".join(rows) + s[b:]
open(p, "w").write(s); print(len(rows) - 2, "rows")
