#!/bin/sh
# try_seed.sh <seed-dir> <prop> [more props…]: confirm a seeded change and run the check(s) against it
d=$1; shift
name=$(basename $d)
# verify FIRST and to completion: it reverts and re-applies the patch, so running it beside the check
# would let the harness be built from the unpatched source (this produced bogus "not reported" results)
/verif/tools/verify_seed.sh $d > /tmp/verify-$name.log 2>&1
for p in "$@"; do
  out=$(cd /verif && VERIF_REPO=$d ./check $p 2>&1)
  nv=$(echo "$out" | grep -c "^VIOLATION")
  nf=$(echo "$out" | grep "^VIOLATION" | grep -vc "no-failing-input-found")
  echo "== $name vs $p: $nv violation lines, $nf with a concrete failing input"
  first=$(echo "$out" | grep "^VIOLATION" | grep -v "no-failing-input-found" | head -1 | sed 's/.*replay=//; s/ .*//')
  [ -z "$first" ] && first=$(echo "$out" | grep "^VIOLATION" | head -1 | sed 's/.*replay=//; s/ .*//')
  [ -n "$first" ] && head -4 "$first" | cut -c1-420
  echo "$out" | grep -v "^VIOLATION\|^KNOWN" | tail -1 | cut -c1-200
done
grep -v "file changed" /tmp/verify-$name.log | tr '\n' ' '; echo
