#!/usr/bin/env python3
"""Static-guard extraction (DESIGN.md §4b).

The theorems quantify over "all W S P B the crate admits" (`Cfg.Valid` etc.).  What the crate
admits is decided at compile time by `generic_static_asserts!` blocks and trait bounds, which no
running code can reveal.  This tool parses them out of /repo's *current* sources and compares
them with the committed expectation (tools/static_guards_expected.json), which records for each
guard the premise of the Lean theorems it justifies.

    static_guards.py <component>...      exit 0 = every expected guard is still present
    static_guards.py --dump              print what is found now (to refresh the expectation)
"""
import json, os, re, sys

REPO = os.environ.get("VERIF_REPO", "/repo")
HERE = os.path.dirname(os.path.abspath(__file__))
FILES = {
    "ans": ["src/stream/stack.rs"],
    "range": ["src/stream/queue.rs"],
    "chain": ["src/stream/chain.rs"],
    "cat": ["src/stream/model/categorical/contiguous.rs", "src/stream/model/categorical/non_contiguous.rs",
            "src/stream/model/categorical/lookup_contiguous.rs", "src/stream/model/categorical/lookup_noncontiguous.rs",
            "src/stream/model/categorical.rs", "src/stream/model/uniform.rs"],
    "quant": ["src/stream/model/quantize.rs", "src/stream/model/categorical/lazy_contiguous.rs"],
    "bits": ["src/symbol/mod.rs", "src/symbol/exp_golomb.rs"],
    "huff": ["src/symbol/huffman.rs"],
    "backend": ["src/backends.rs"],
}


def norm(s):
    return re.sub(r"\s+", "", s)


def extract(path):
    """returns {(fn_name, label): expr} for every generic_static_asserts! block, plus bound counts"""
    src = open(path).read()
    # strip // comments (incl. doc comments)
    src_nc = re.sub(r"/\*.*?\*/", "", src, flags=re.S)
    src_nc = re.sub(r"//[^\n]*", "", src_nc)
    guards = {}
    for m in re.finditer(r"generic_static_asserts!\s*\(", src_nc):
        i = m.end()
        depth, j = 1, i
        while depth and j < len(src_nc):
            if src_nc[j] == "(":
                depth += 1
            elif src_nc[j] == ")":
                depth -= 1
            j += 1
        body = src_nc[i:j - 1]
        # enclosing fn
        fns = list(re.finditer(r"\bfn\s+(\w+)", src_nc[:m.start()]))
        fn = fns[-1].group(1) if fns else "?"
        # drop the parameter list "( … );"
        k = body.find(");")
        rest = body[k + 2:] if k >= 0 else body
        for part in rest.split(";"):
            if ":" in part:
                label, expr = part.split(":", 1)
                guards[(fn, norm(label))] = norm(expr)
    bounds = {
        "Probability: Into<Word>": len(re.findall(r"M::Probability\s*:\s*Into<\s*(?:Self::)?Word\s*>", src_nc)),
        "Word: Into<State>": len(re.findall(r"Word\s*:\s*BitArray\s*\+\s*Into<\s*State\s*>", src_nc)),
    }
    return guards, bounds


def main():
    args = sys.argv[1:]
    exp_path = os.path.join(HERE, "static_guards_expected.json")
    if args and args[0] == "--dump":
        out = {}
        for comp, files in FILES.items():
            out[comp] = {}
            for f in files:
                g, b = extract(os.path.join(REPO, f))
                out[comp][f] = {"guards": {f"{fn}::{lab}": e for (fn, lab), e in sorted(g.items())}, "bounds": b}
        print(json.dumps(out, indent=1))
        return 0
    expected = json.load(open(exp_path))
    problems, notes, n = [], [], 0
    from collections import Counter
    if True:
        # Compared as a multiset of (label, expression) over all files of the components named on
        # the command line, independent of the enclosing function and file: moving an assertion
        # into a (shared) helper is a harmless rewrite, removing or weakening one is not.
        comp = "+".join(args)
        now, want = Counter(), Counter()
        seen = set()
        for f, exp in [(f, e) for c in args for f, e in expected.get(c, {}).items()]:
            if f in seen:
                continue
            seen.add(f)
            g_, b = extract(os.path.join(REPO, f))
            now.update((lab, e) for (fn, lab), e in g_.items())
            want.update((key.split("::", 1)[1], e) for key, e in exp["guards"].items())
            for key, cnt in exp["bounds"].items():
                n += 1
                if b.get(key, 0) < cnt:
                    problems.append(f"{f}: trait bound `{key}` occurs {b.get(key, 0)} times, expected at least {cnt}")
        for (lab, e), cnt in want.items():
            n += 1
            have = now.get((lab, e), 0)
            others = [x for (l2, x) in now if l2 == lab and x != e]
            if others:
                problems.append(f"components {comp}: static assertion {lab} changed: expected `{e}`, found `{others[0]}`")
            elif have == 0:
                problems.append(f"components {comp}: static assertion {lab} ({e}) has disappeared (expected {cnt} occurrences)")
            elif have < cnt:
                # dropped from one of several call sites (or de-duplicated into a shared helper, which
                # cannot be told apart without a call graph): the premises of the theorems are no
                # longer known to cover every entry point
                problems.append(f"components {comp}: static assertion {lab} ({e}) occurs {have} times, expected {cnt}")
    for p in problems:
        print("GUARD-PROBLEM", p)
    for p in notes:
        print("GUARD-NOTE", p)
    print(f"static guards: {n} checked, {len(problems)} problems")
    return 1 if problems else 0


if __name__ == "__main__":
    sys.exit(main())
