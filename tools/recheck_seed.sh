#!/bin/sh
# recheck_seed.sh <worktree> <prop> [more props…]: run ./check against a scratch worktree that has a seeded change applied
# (no confirmation run; see try_seed.sh for that) and print the violation count and the heads of the replays.
d=$1; shift
for q in "$@"; do
  out=$(cd /verif && VERIF_REPO=$d ./check $q 2>&1)
  nv=$(echo "$out" | grep -c "^VIOLATION")
  nf=$(echo "$out" | grep "^VIOLATION" | grep -vc "no-failing-input-found")
  echo "== $(basename $d) vs $q: $nv violation lines, $nf concrete"
  echo "$out" | grep "detail:" | head -3 | cut -c1-500
  echo "$out" | grep -v "^VIOLATION\|^KNOWN\|detail:" | tail -1 | cut -c1-200
done
