#!/usr/bin/env python3
"""Per-function fingerprints of the crate's Rust sources, and what changed since the baseline.

    source_fingerprint.py write            recompute tools/source_fingerprint.json from $VERIF_REPO (default /repo)
    source_fingerprint.py diff             print a JSON object {"changed": [...], "components": [...], "functions": N}

The Lean models are hand-written transcriptions of specific Rust functions.  The correspondence
check ties them to the code by running both; this tool adds the cheap textual half of that tie: a
fingerprint (comments and white space removed) of every `fn` item of `src/**/*.rs`, recorded when
the models were last validated against that text (complete single-step sweeps, the thorough
campaigns, the seeded-change experiments).  On every run `check` recomputes the fingerprints:

* nothing changed  -> the code under check is textually the code the models were validated
  against, function by function (recorded in the evidence);
* something changed -> never an alarm by itself (a rewrite may be harmless); the affected components
  are *escalated*: their correspondence and oracle campaigns are repeated with additional seeds,
  because a changed function is where a sampled tie is most likely to have a blind cell.

It is deliberately not a parser: items are found by the `fn` keyword and brace matching on text with
comments and string literals blanked, which is exact for this crate's sources.
"""
import hashlib, json, os, re, sys

HERE = os.path.dirname(os.path.abspath(__file__))
BASELINE = os.path.join(HERE, "source_fingerprint.json")

# which harness components exercise a source file
COMPONENTS = {
    "src/stream/stack.rs": ["ans"],
    "src/stream/queue.rs": ["range"],
    "src/stream/chain.rs": ["chain"],
    "src/stream/mod.rs": ["ans", "range", "chain"],
    "src/stream/model.rs": ["cat", "quant"],
    "src/stream/model/": ["cat", "quant"],
    "src/symbol/huffman.rs": ["huff"],
    "src/symbol/": ["bits", "huff"],
    "src/backends.rs": ["backend", "ans", "range", "chain", "bits"],
    "src/lib.rs": ["ans", "range", "chain", "cat", "quant", "bits", "huff", "backend"],
    "src/pybindings/": ["py"],
}


def repo():
    return os.path.realpath(os.environ.get("VERIF_REPO", "/repo"))


def blank(src):
    """comments and string / char literals replaced by spaces (same length), so that braces and the
    keyword `fn` inside them do not count"""
    out = list(src)
    i, n = 0, len(src)
    while i < n:
        c = src[i]
        if src.startswith("//", i):
            j = src.find("\n", i)
            j = n if j < 0 else j
            for k in range(i, j):
                out[k] = " "
            i = j
        elif src.startswith("/*", i):
            depth, j = 1, i + 2
            while j < n and depth:
                if src.startswith("/*", j):
                    depth += 1; j += 2
                elif src.startswith("*/", j):
                    depth -= 1; j += 2
                else:
                    j += 1
            for k in range(i, j):
                if out[k] != "\n":
                    out[k] = " "
            i = j
        elif c == '"':
            j = i + 1
            while j < n and src[j] != '"':
                j += 2 if src[j] == "\\" else 1
            for k in range(i + 1, min(j, n)):
                if out[k] != "\n":
                    out[k] = " "
            i = j + 1
        elif c == "'" and i + 2 < n and (src[i + 2] == "'" or (src[i + 1] == "\\" and src.find("'", i + 2) - i <= 6)):
            j = src.find("'", i + 2 if src[i + 1] == "\\" else i + 1)
            j = i + 2 if j < 0 else j
            for k in range(i + 1, j):
                out[k] = " "
            i = j + 1
        else:
            i += 1
    return "".join(out)


def functions(path):
    src = open(path, encoding="utf-8", errors="replace").read()
    b = blank(src)
    res, seen = {}, {}
    for m in re.finditer(r"\bfn\s+([A-Za-z_][A-Za-z0-9_]*)", b):
        name = m.group(1)
        # the item ends at the matching brace of its body, or at `;` (trait method without body)
        j, depth_paren = m.end(), 0
        while j < len(b):
            ch = b[j]
            if ch in "([":
                depth_paren += 1
            elif ch in ")]":
                depth_paren -= 1
            elif ch == ";" and depth_paren == 0:
                break
            elif ch == "{" and depth_paren == 0:
                break
            j += 1
        if j >= len(b):
            continue
        end = j + 1
        if b[j] == "{":
            depth, k = 1, j + 1
            while k < len(b) and depth:
                if b[k] == "{":
                    depth += 1
                elif b[k] == "}":
                    depth -= 1
                k += 1
            end = k
        text = re.sub(r"\s+", "", b[m.start():end])
        # qualify by the enclosing `impl`/`trait` header, found by scanning back to the nearest one at depth 0
        head = ""
        for h in re.finditer(r"^(?:pub(?:\([a-z]+\))?\s+)?(?:unsafe\s+)?(impl\b[^{;]*|trait\s+\w+[^{;]*)\{", b[:m.start()], re.M):
            # still open at m.start()?
            seg = b[h.end():m.start()]
            if seg.count("{") - seg.count("}") >= 0 and seg.count("{") >= seg.count("}"):
                head = re.sub(r"\s+", " ", h.group(1)).strip()
        key = (head + " :: " if head else "") + name
        seen[key] = seen.get(key, 0) + 1
        if seen[key] > 1:
            key += "#%d" % seen[key]
        res[key] = hashlib.sha1(text.encode()).hexdigest()[:16]
    return res


def current():
    root = repo()
    out = {}
    for d, _, fs in os.walk(os.path.join(root, "src")):
        for f in sorted(fs):
            if f.endswith(".rs"):
                p = os.path.join(d, f)
                out[os.path.relpath(p, root)] = functions(p)
    return out


def components_of(path):
    comps = set()
    for prefix, cs in COMPONENTS.items():
        if path == prefix or (prefix.endswith("/") and path.startswith(prefix)):
            comps.update(cs)
    return comps


def diff():
    cur = current()
    base = json.load(open(BASELINE)) if os.path.exists(BASELINE) else {}
    changed, comps = [], set()
    for f in sorted(set(cur) | set(base)):
        a, b = base.get(f, {}), cur.get(f, {})
        for k in sorted(set(a) | set(b)):
            if a.get(k) != b.get(k):
                what = "changed" if k in a and k in b else ("added" if k in b else "removed")
                changed.append("%s: %s (%s)" % (f, k, what))
                comps |= components_of(f)
    return {"changed": changed, "components": sorted(comps),
            "functions": sum(len(v) for v in cur.values()), "files": len(cur)}


if __name__ == "__main__":
    cmd = sys.argv[1] if len(sys.argv) > 1 else "diff"
    if cmd == "write":
        json.dump(current(), open(BASELINE, "w"), indent=0, sort_keys=True)
        print("wrote", BASELINE)
    else:
        print(json.dumps(diff()))
