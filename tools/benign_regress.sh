#!/bin/sh
# benign_regress.sh [set…]: applies each kept behaviour-preserving refactoring set (benign/<set>/combined.diff)
# to a scratch worktree of /repo HEAD under /tmp and runs every property's quick check against it;
# every line must say OK with violations=0. Development aid; not a registered command.
cd /verif
sets=${*:-$(ls benign)}
for s in $sets; do
  wt=/tmp/bn-$s
  git -C /repo worktree add -q --detach $wt HEAD || continue
  if git -C $wt apply /verif/benign/$s/combined.diff; then /verif/tools/refactor_regress.sh $wt; else echo "$s: combined.diff does not apply"; fi
  git -C /repo worktree remove --force $wt
  rm -rf /verif/.work/*-alt-$(python3 -c "import hashlib;print(hashlib.md5('$wt'.encode()).hexdigest()[:8])")
done
