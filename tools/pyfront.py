#!/opt/veriftools/pyvenv/bin/python
"""Check of constriction's *Python front end* (pyo3 bindings, cargo feature `pybindings`).

    pyfront.py build                      build the extension from $VERIF_REPO (default /repo)
    pyfront.py oracle <seed> <tier>       build, then run three campaigns; prints oracle lines
    pyfront.py case <seed> <tier> <id>    re-run one differential case (replay of a FAIL C06/C05 line)
    pyfront.py ctor <seed> <tier> <idx>   re-run one constructor case (replay of a FAIL C19 line)

Oracle lines (same format as `cvharness oracle`):
    EVAL <prop> <n> / HIST <key> <n> / SAMPLE <prop> <text> / FAIL <prop> <single-line replay text>
plus `BUILD ok` / `BUILD failed: …` (a failed build is *not* reported as a FAIL line) and
`ERROR pyfront: …` for infrastructure problems (harness missing, worker could not import, …).

Campaigns
 (a) documented examples (C06): every `test_*` function of $VERIF_REPO/tests/python/test_*.py
     (byte-exact outputs printed in the project's documentation) is called once.
 (b) cross-front-end differential (C06; C05 lazy-vs-eager; C01/C02/C13 round trips): random
     cases through the Python API are written, with all inputs as bit patterns and the Python
     outputs, to .work/py-<hash>/cases.jsonl; `cvharness pyfront <file>` rebuilds every case with
     the Rust API and compares words and decoded symbols (harness/src/pyfront.rs).
     Every numpy array handed to the front end (per-symbol parameter arrays, probability matrices,
     symbol arrays, word arrays a decoder is built from) is passed in a memory layout drawn from
     LAYOUTS1 / LAYOUTS2 (reversed, strided, column of a matrix, offset, broadcast; F-ordered /
     transposed / sliced matrices); the case records the *logical* contents, from which the Rust
     side computes its reference.  `Gen.layout_sweep` adds every family x layout x coder once.
     `HIST C06.py.layout.<family>.<layout>`; for probability tables `…layout_accepted.cat.<layout>` /
     `…layout_refused.cat.<layout>` (+ `_total`): a clean TypeError for a non-contiguous table is
     legal, an accepted table must give the words of its logical contents (D28, fixed by a04f314:
     F-ordered matrices of a Categorical family were read in memory order; the reproducer is part
     of `documented_cases`).  Decoding uses the same views, C-contiguous copies, or another layout.
 (c) constructor error mapping (C19): invalid (and valid-but-extreme) constructor / parameter
     inputs.  Outcome classes: raise (regular `Exception`), panic (`pyo3_runtime.PanicException`,
     a `BaseException`; the interpreter survives), abort (the interpreter died), ok (a model came
     back and a short message round-trips through AnsCoder and RangeEncoder), broken (a model came
     back and does not round-trip).  abort and broken are always `FAIL C19`.  panic: C19's text
     accepts "an error value or a panic" as a clean failure, so by default a panic is reported
     as HIST/SAMPLE lines only; with PYFRONT_PANIC=fail it becomes `FAIL C19` (strict reading:
     the Python layer should map every constructor error to ValueError).
     `split_ctor_cases`: every parameterised family x every split of its parameters between
     constructor and encode/decode call x invalid values at the constructor and at the first /
     middle / last entry of a per-symbol array; the call must raise for every message, or every
     in-support symbol must round-trip (`split` in CTOR_PRELUDE); `HIST C19.py.split.<family>.<split>.<outcome>`.

Environment: VERIF_REPO (repository to check), PYFRONT_HARNESS (cvharness binary to use),
PYFRONT_PANIC=fail|note, PYFRONT_SKIP_BUILD=1 (reuse the existing .so).
Everything that might kill the interpreter runs in a worker subprocess of this same script.
"""
import hashlib
import json
import math
import os
import random
import struct
import subprocess
import sys
import time

HERE = os.path.dirname(os.path.abspath(__file__))
VERIF = os.path.dirname(HERE)
WORK = os.path.join(VERIF, ".work")
PY = "/opt/veriftools/pyvenv/bin/python"
if not os.path.exists(PY):
    PY = sys.executable
PANIC_IS_FAIL = os.environ.get("PYFRONT_PANIC", "note") == "fail"   # <- default of the panic policy


def repo_path():
    return os.path.realpath(os.environ.get("VERIF_REPO", "/repo"))


def repo_tag():
    return hashlib.sha1(repo_path().encode()).hexdigest()[:10]


def so_dir():
    return os.path.join(WORK, "py-" + repo_tag())


def target_dir():
    return os.path.join(WORK, "target-py-" + repo_tag())


def one_line(s, limit=600):
    s = " ".join(str(s).split())
    return s if len(s) <= limit else s[:limit] + "…"


# ------------------------------------------------------------------------------------------
# build

def build():
    """returns (ok, message)"""
    repo = repo_path()
    os.makedirs(so_dir(), exist_ok=True)
    dst = os.path.join(so_dir(), "constriction.so")
    if os.environ.get("PYFRONT_SKIP_BUILD") and os.path.exists(dst):
        return True, "reused " + dst
    if WORK.startswith(repo + os.sep):
        return False, "refusing to build inside the repository"
    env = dict(os.environ)
    env.update({"PYO3_PYTHON": PY, "CARGO_NET_OFFLINE": "true", "CARGO_TARGET_DIR": target_dir()})
    env.pop("RUSTFLAGS", None)
    try:
        p = subprocess.run(["cargo", "build", "--release", "--features", "pybindings", "--offline"],
                           cwd=repo, env=env, stdout=subprocess.PIPE, stderr=subprocess.PIPE,
                           text=True, timeout=3600)
    except Exception as e:  # cargo missing, timeout, …
        return False, one_line("%s: %s" % (type(e).__name__, e))
    if p.returncode != 0:
        errs = [l for l in p.stderr.splitlines() if l.startswith("error")]
        return False, one_line(" | ".join(errs[:6]) or p.stderr[-600:])
    src = os.path.join(target_dir(), "release", "libconstriction.so")
    if not os.path.exists(src):
        return False, "cargo succeeded but %s is missing" % src
    tmp = dst + ".tmp"
    with open(src, "rb") as f, open(tmp, "wb") as g:
        g.write(f.read())
    os.replace(tmp, dst)
    return True, dst


# ------------------------------------------------------------------------------------------
# report

class Report:
    def __init__(self):
        self.evals, self.hist, self.samples, self.fails, self.errors = {}, {}, {}, [], []

    def eval(self, prop, n=1):
        self.evals[prop] = self.evals.get(prop, 0) + n

    def count(self, key, n=1):
        self.hist[key] = self.hist.get(key, 0) + n

    def sample(self, prop, text, cap=3):
        v = self.samples.setdefault(prop, [])
        if len(v) < max(cap, int(os.environ.get("PYFRONT_SAMPLES", "0"))):
            v.append(one_line(text, 400))

    def fail(self, prop, text):
        if len(self.fails) < 200:
            self.fails.append((prop, " ".join(str(text).split())))

    def error(self, text):
        self.errors.append(one_line(text))

    def merge(self, other):
        for k, v in other.evals.items():
            self.eval(k, v)
        for k, v in other.hist.items():
            self.count(k, v)
        for k, v in other.samples.items():
            self.samples.setdefault(k, []).extend(v)
        self.fails.extend(other.fails)
        self.errors.extend(other.errors)

    def absorb(self, line):
        """an oracle line printed by a worker or by the harness"""
        parts = line.rstrip("\n").split(" ", 2)
        if len(parts) < 3:
            return
        kind, key, rest = parts
        if kind == "EVAL":
            self.eval(key, int(rest))
        elif kind == "HIST":
            self.count(key, int(rest))
        elif kind == "SAMPLE":
            self.sample(key, rest)
        elif kind == "FAIL":
            self.fail(key, rest)
        elif kind == "ERROR":
            self.error(key + " " + rest)

    def dump(self, out):
        for k in sorted(self.evals):
            out.write("EVAL %s %d\n" % (k, self.evals[k]))
        for k in sorted(self.hist):
            out.write("HIST %s %d\n" % (k, self.hist[k]))
        for k in sorted(self.samples, key=lambda k: ("." not in k, k)):      # sub-keyed samples first
            for t in self.samples[k]:
                out.write("SAMPLE %s %s\n" % (k.split(".")[0], t))   # "C19.1raise" -> C19 (ordering only)
        for e in self.errors:
            out.write("ERROR pyfront: %s\n" % e)
        for k, t in self.fails:
            out.write("FAIL %s %s\n" % (k, t))
        out.flush()


# ------------------------------------------------------------------------------------------
# worker plumbing: protocol lines go to the real stdout, everything the library or the repo's
# tests print goes to /dev/null

class Proto:
    def __init__(self):
        self.f = os.fdopen(os.dup(1), "w")
        devnull = os.open(os.devnull, os.O_WRONLY)
        os.dup2(devnull, 1)
        if not os.environ.get("PYFRONT_DEBUG"):
            os.dup2(devnull, 2)  # Rust panic messages
        sys.stdout = open(os.devnull, "w")

    def line(self, s):
        self.f.write(" ".join(s.split()) + "\n")
        self.f.flush()


def import_constriction(proto):
    sys.path.insert(0, so_dir())
    try:
        import constriction  # noqa
        import numpy  # noqa
    except BaseException as e:
        proto.line("ERROR pyfront: cannot import the built extension: %s: %s" % (type(e).__name__, e))
        sys.exit(0)
    got = os.path.realpath(constriction.__file__)
    want = os.path.realpath(os.path.join(so_dir(), "constriction.so"))
    if got != want:
        proto.line("ERROR pyfront: imported %s instead of %s" % (got, want))
        sys.exit(0)
    return constriction, numpy


CASE_TIMEOUT = float(os.environ.get("PYFRONT_CASE_TIMEOUT", "10"))
STARTUP_GRACE = float(os.environ.get("PYFRONT_STARTUP_GRACE", "180"))


def run_worker(args, rep, label, timeout=None, scale=1.0):
    """runs `pyfront.py <args>` and absorbs its oracle lines.  The worker prints a line before
    every case, so `timeout` (seconds without a new line; a `RUNNING … timeout=<s>` line sets its
    own) bounds the time of one case.  Returns (status, extra): status is "done" (the worker
    printed DONE), "hang" (killed by the watchdog), "abort" (died from a signal), "exit" (ended
    early without DONE); extra = the non-oracle lines (RUNNING/RESULT/GROUP/WRITTEN/DONE)."""
    import select
    env = dict(os.environ)
    env["RUST_BACKTRACE"] = "0"
    p = subprocess.Popen([PY, os.path.abspath(__file__)] + args, stdout=subprocess.PIPE,
                         stderr=subprocess.DEVNULL if not os.environ.get("PYFRONT_DEBUG") else None, env=env)
    fd = p.stdout.fileno()
    buf = b""
    extra = []
    # until the worker has printed its first line the limit is generous: interpreter start-up and the
    # imports of numpy / scipy / the extension take many seconds on a cold file cache or a loaded
    # machine, and must not be mistaken for a hanging case
    limit = max(timeout or CASE_TIMEOUT, STARTUP_GRACE)
    status = None
    while True:
        ready, _, _ = select.select([fd], [], [], limit)
        if not ready:
            p.kill()
            status = "hang"
            break
        chunk = os.read(fd, 1 << 16)
        if not chunk:
            break
        buf += chunk
        while b"\n" in buf:
            raw, buf = buf.split(b"\n", 1)
            line = raw.decode("utf-8", "replace")
            if not line:
                continue
            if line.split(" ", 1)[0] in ("EVAL", "HIST", "SAMPLE", "FAIL", "ERROR"):
                rep.absorb(line)
            else:
                extra.append(line)
                limit = timeout or CASE_TIMEOUT
                if line.startswith("RUNNING "):
                    for tok in line.split(" ", 4)[:4]:
                        if tok.startswith("timeout="):
                            limit = float(tok[8:]) * scale
    rc = p.wait()
    if status is None:
        status = "done" if "DONE" in extra else ("abort" if rc is not None and rc < 0 else "exit")
    if status == "abort":
        extra.append("SIGNAL %d" % -rc)
    return status, extra


# ------------------------------------------------------------------------------------------
# campaign (a): the documented examples

def worker_docs():
    proto = Proto()
    constriction, np = import_constriction(proto)
    import importlib.util
    import glob
    tdir = os.path.join(repo_path(), "tests", "python")
    files = sorted(glob.glob(os.path.join(tdir, "test_*.py")))
    if not files:
        proto.line("ERROR pyfront: no test files in %s" % tdir)
        return
    n_ok = 0
    for path in files:
        fname = os.path.basename(path)
        try:
            spec = importlib.util.spec_from_file_location("pyfront_" + fname[:-3], path)
            mod = importlib.util.module_from_spec(spec)
            spec.loader.exec_module(mod)
        except BaseException as e:
            proto.line("FAIL C06 python documented example %s: import failed: %s: %s" % (fname, type(e).__name__, e))
            continue
        names = [n for n in dir(mod) if n.startswith("test_") and callable(getattr(mod, n))]
        # definition order
        names.sort(key=lambda n: getattr(getattr(mod, n), "__code__", None).co_firstlineno
                   if hasattr(getattr(mod, n), "__code__") else 0)
        for name in names:
            proto.line("RUNNING %s::%s" % (fname, name))
            try:
                getattr(mod, name)()
                n_ok += 1
                proto.line("EVAL C06 1")
                proto.line("HIST C06.py.docs.%s 1" % fname)
            except BaseException as e:
                proto.line("EVAL C06 1")
                tb = e.__traceback__
                lineno = None
                while tb is not None:
                    if tb.tb_frame.f_code.co_filename == path:
                        lineno = tb.tb_lineno
                    tb = tb.tb_next
                src = ""
                if lineno:
                    try:
                        src = open(path).read().splitlines()[lineno - 1].strip()
                    except Exception:
                        pass
                proto.line("FAIL C06 python documented example %s::%s: %s: %s (line %s: %s)"
                           % (fname, name, type(e).__name__, one_line(e, 300), lineno, one_line(src, 200)))
    proto.line("SAMPLE C06 python documented examples: %d functions passed in %d files" % (n_ok, len(files)))
    proto.line("DONE")


def campaign_docs(rep):
    status, extra = run_worker(["_docs"], rep, "docs", timeout=max(CASE_TIMEOUT, 180))
    if status != "done":
        running = [l for l in extra if l.startswith("RUNNING ")]
        where = running[-1][8:] if running else "(before the first test)"
        if status == "abort":
            rep.eval("C06")
            rep.fail("C06", "python documented example %s: interpreter died (%s)" % (where, extra[-1]))
        elif status == "hang":
            rep.eval("C06")
            rep.fail("C06", "python documented example %s: no result after %d s (killed)" % (where, max(CASE_TIMEOUT, 180)))
        elif not rep.errors:
            rep.error("docs worker ended early at %s" % where)


# ------------------------------------------------------------------------------------------
# campaign (b): differential cases

def f64_bits(x):
    return struct.unpack("<Q", struct.pack("<d", float(x)))[0]


def bits_f64(b):
    return struct.unpack("<d", struct.pack("<Q", b))[0]


I32_MIN, I32_MAX = -2**31, 2**31 - 1


# memory layouts of rank-1 arrays (parameters, symbols) and of rank-2 probability matrices
LAYOUTS1 = ["c", "rev", "flip", "s2", "s-2", "col", "off", "bcast"]
LAYOUTS2 = ["c", "f", "t", "rrev", "crev", "rs2", "cs2", "sub"]


def same_bits(np, v, a):
    u = {4: np.uint32, 8: np.uint64}[a.dtype.itemsize]
    return v.shape == a.shape and v.dtype == a.dtype and \
        np.ascontiguousarray(v).view(u).tolist() == np.ascontiguousarray(a).view(u).tolist()


def view1(np, a, lay):
    """(array with the same logical contents as the contiguous rank-1 array `a`, layout actually
    used); the padding between / around the entries holds *other* valid entries of `a`, so reading
    the memory instead of the logical array gives a wrong but well-formed parameter"""
    n = len(a)
    g = np.roll(a, 1) if n > 1 else a.copy()
    if lay == "bcast" and not (n >= 1 and same_bits(np, a, np.repeat(a[:1], n))):
        lay = "off"
    if lay == "rev":                                   # stride -1
        v = a[::-1].copy()[::-1]
    elif lay == "flip":
        v = np.flip(np.ascontiguousarray(a[::-1]))
    elif lay == "s2":                                  # stride 2
        b = np.empty(2 * n, dtype=a.dtype)
        b[0::2], b[1::2] = a, g
        v = b[::2]
    elif lay == "s-2":                                 # stride -2
        b = np.empty(2 * n, dtype=a.dtype)
        b[1::2], b[0::2] = a[::-1], g
        v = b[::-2]
    elif lay == "col":                                 # a column of a C-ordered matrix
        b = np.empty((n, 3), dtype=a.dtype)
        b[:, 0], b[:, 1], b[:, 2] = g, a, g
        v = b[:, 1]
    elif lay == "off":                                 # contiguous, but not at the start of its buffer
        b = np.concatenate([g[:1]] * 3 + [a] + [g[:1]] * 2) if n else a.copy()
        v = b[3:3 + n]
    elif lay == "bcast":                               # stride 0
        v = np.broadcast_to(a[:1], (n,))
    else:
        lay, v = "c", np.ascontiguousarray(a)
    assert same_bits(np, v, a), lay
    return v, lay


def view2(np, a, lay):
    """same for a C-ordered matrix `a` (rows = symbols, columns = alphabet)"""
    n, m = a.shape
    g = np.roll(a, 1, axis=0) if n > 1 else np.roll(a, 1, axis=1)
    if lay == "f":
        v = np.asfortranarray(a)
    elif lay == "t":
        v = np.ascontiguousarray(a.T).T
    elif lay == "rrev":
        v = np.ascontiguousarray(a[::-1])[::-1]
    elif lay == "crev":
        v = np.ascontiguousarray(a[:, ::-1])[:, ::-1]
    elif lay == "rs2":
        b = np.empty((2 * n, m), dtype=a.dtype)
        b[0::2], b[1::2] = a, g
        v = b[::2]
    elif lay == "cs2":
        b = np.empty((n, 2 * m), dtype=a.dtype)
        b[:, 0::2], b[:, 1::2] = a, g
        v = b[:, ::2]
    elif lay == "sub":
        b = np.empty((n + 2, m + 3), dtype=a.dtype)
        b[:] = a[0, 0] if a.size else 0
        b[1:1 + n, 2:2 + m] = a
        v = b[1:1 + n, 2:2 + m]
    else:
        lay, v = "c", np.ascontiguousarray(a)
    assert same_bits(np, v, a), lay
    return v, lay


class Gen:
    """all randomness of a run derives from (seed, tier)"""

    def __init__(self, seed, tier, np):
        self.r = random.Random("pyfront/%d/%s" % (seed, tier))
        self.np = np
        self.tag = "seed=%d tier=%s" % (seed, tier)
        self.next_id = 0
        self.lr = random.Random("pyfront-layout/%d/%s" % (seed, tier))   # memory layouts: own stream
        self.force = {}            # `layout_sweep` pins some of the random choices below

    # ---- helpers
    def length(self):
        r = self.r
        if "n" in self.force:
            return self.force["n"]
        k = r.random()
        if k < 0.06:
            return 0
        if k < 0.14:
            return 1
        if k < 0.45:
            return r.randint(2, 9)
        if k < 0.80:
            return r.randint(10, 49)
        if k < 0.95:
            return r.randint(50, 149)
        return r.randint(150, 200)

    def fdtype(self):
        return self.force.get("fbits") or self.r.choice([32, 64])

    def farray(self, values, fbits):
        np = self.np
        return np.array(values, dtype=np.float32 if fbits == 32 else np.float64)

    def fbits_list(self, arr):
        np = self.np
        if arr.dtype == np.float32:
            return [int(x) for x in arr.view(np.uint32).ravel().tolist()]
        return [int(x) for x in arr.view(np.uint64).ravel().tolist()]

    def logu(self, lo, hi):
        return math.exp(self.r.uniform(math.log(lo), math.log(hi)))

    # ---- categorical tables
    def cat_table(self, ncols, fbits):
        r = self.r
        style = r.choice(["flat", "rand", "rand", "decay", "zeros", "dominant", "tiny", "counts", "huge"])
        if style == "flat":
            v = [1.0] * ncols
        elif style == "rand":
            v = [r.random() for _ in range(ncols)]
        elif style == "decay":
            q = r.uniform(0.3, 0.95)
            v = [q ** i for i in range(ncols)]
            r.shuffle(v)
        elif style == "zeros":
            v = [r.random() if r.random() < 0.5 else 0.0 for _ in range(ncols)]
            v[r.randrange(ncols)] = 1.0
        elif style == "dominant":
            v = [self.logu(1e-12, 1e-6) for _ in range(ncols)]
            v[r.randrange(ncols)] = 1.0
        elif style == "tiny":
            lo = 1e-30 if fbits == 32 else 1e-300
            v = [self.logu(lo, lo * 1e6) for _ in range(ncols)]
        elif style == "counts":
            v = [float(r.randint(0, 10 ** r.randint(1, 6))) for _ in range(ncols)]
            v[r.randrange(ncols)] += 1.0
        else:
            hi = 1e30 if fbits == 32 else 1e290
            v = [self.logu(hi * 1e-8, hi) for _ in range(ncols)]
        return style, v

    def cat_message(self, n, table_row_of, ncols):
        """symbols in 0..ncols-1: weighted draws, the extreme symbols and least likely symbols"""
        r = self.r
        out = []
        for j in range(n):
            row = table_row_of(j)
            k = r.random()
            if k < 0.15:
                out.append(0)
            elif k < 0.30:
                out.append(ncols - 1)
            elif k < 0.45:
                out.append(min(range(ncols), key=lambda i: row[i]))
            elif k < 0.85 and sum(row) > 0 and math.isfinite(sum(row)):
                out.append(r.choices(range(ncols), weights=row)[0])
            else:
                out.append(r.randrange(ncols))
        return out

    # ---- quantized models
    def support(self):
        r = self.r
        k = r.random()
        if k < 0.35:
            return (-100, 100)
        if k < 0.55:
            a = r.randint(-1000, 1000)
            return (a, a + r.randint(1, 2000))
        if k < 0.65:
            a = r.randint(-5, 5)
            return (a, a + 1)
        if k < 0.75:
            return (0, 255)
        if k < 0.82:
            return (-2**23, 2**23 - 1)          # exactly 2^24 symbols: no free weight left
        if k < 0.88:
            return (I32_MIN, I32_MIN + r.randint(1, 5000))
        if k < 0.94:
            return (I32_MAX - r.randint(1, 5000), I32_MAX)
        a = r.randint(-2**22, 2**22)
        return (a, a + r.randint(1, 2**23))

    def loc_scale(self, lo, hi, extreme):
        r = self.r
        k = r.random()
        span = hi - lo
        if k < 0.6:
            loc = r.uniform(lo, hi)
        elif k < 0.8:
            loc = r.uniform(lo - span, hi + span)
        elif k < 0.9:
            loc = float(r.choice([lo, hi]))
        else:
            loc = r.choice([-1.0, 1.0]) * self.logu(1.0, 1e6 if not extreme else 1e12)
        k = r.random()
        if k < 0.7:
            scale = self.logu(0.05, max(1.0, span))
        elif k < 0.9:
            scale = self.logu(1e-3, 1e4)
        else:
            scale = self.logu(1e-6, 1e8) if not extreme else self.logu(1e-12, 1e12)
        return loc, scale

    def quant_message(self, n, lo, hi, loc_of, scale_of):
        r = self.r
        out = []
        for j in range(n):
            k = r.random()
            if k < 0.12:
                s = lo
            elif k < 0.24:
                s = hi
            elif k < 0.80:
                g = r.gauss(loc_of(j), scale_of(j))
                s = int(round(g)) if math.isfinite(g) and abs(g) < 1e12 else lo
            elif k < 0.90:
                s = r.choice([lo + 1, hi - 1])
            else:
                s = r.randint(lo, hi)
            out.append(min(hi, max(lo, s)))
        return out

    # ---- one case = a dict with the inputs; `execute` adds the Python outputs
    def new_case(self, **kw):
        c = {"id": self.next_id, "tag": self.tag}
        self.next_id += 1
        c.update(kw)
        self.assign_layouts(c)
        return c

    def assign_layouts(self, c):
        """memory layout of every numpy array handed to the front end (see `view1` / `view2`); the
        case itself always records the *logical* contents, which is what the Rust side rebuilds"""
        lr = self.lr
        forced = self.force.get("lay")

        def pick(options, p_plain=0.4):
            if forced in options:
                return forced
            return "c" if lr.random() < p_plain else lr.choice(options)
        if "probe" in c or "expect_words" in c:
            return
        if c["model"] == "cat":
            # a non-contiguous constructor table is refused (TypeError); tried now and then
            c["lay_p0"] = pick(LAYOUTS2) if c["family"] else pick(LAYOUTS1, 0.85)
        else:
            for k in ("p0", "p1"):
                if c.get(k + "kind") == "a":
                    c["lay_" + k] = pick(LAYOUTS1)
        c["lay_s"] = self.force.get("lay_s") or pick(LAYOUTS1, 0.5)
        c["lay_d"] = lr.choice(["same", "c"])       # layout of the parameter arrays at decode time
        if c["model"] == "cat" and c["family"]:
            c["lay_d"] = lr.choice(["same", "c"] + [l for l in LAYOUTS2 if l != "c"])
        elif c["model"] != "cat" and lr.random() < 0.3:
            c["lay_d"] = lr.choice(LAYOUTS1[1:-1])
        c["lay_w"] = pick(LAYOUTS1, 0.5)            # layout of the word array a decoder is built from

    def coder(self):
        return self.force.get("coder") or self.r.choices(["ans", "range", "chain"], weights=[45, 40, 15])[0]

    def gen_cat_group(self):
        """categorical cases that share inputs: fast / lazy / (family) must give equal words (C05)"""
        r = self.r
        fbits = self.fdtype()
        variant = self.force.get("variant") or r.choices(["fast", "perfect"], weights=[70, 30])[0]
        k = r.random()
        if "ncols" in self.force:
            ncols = self.force["ncols"]
        elif k < 0.15:
            ncols = 2
        elif k < 0.7:
            ncols = r.randint(3, 20)
        elif k < 0.95:
            ncols = r.randint(21, 300)
        else:
            ncols = r.randint(301, 1500) if variant == "fast" else r.randint(100, 300)
        n = self.length()
        coder = self.coder()
        family = self.force.get("family", r.random() < 0.4)
        if family:
            n = min(n, max(1, 3000 // ncols))
            rows, styles = [], []
            for _ in range(n):
                st, v = self.cat_table(ncols, fbits)
                rows.append(v)
                styles.append(st)
            arr = self.farray(rows, fbits).reshape(n, ncols)
            rowvals = arr.astype(self.np.float64).tolist()
            msg = self.cat_message(n, lambda j: rowvals[j], ncols)
            base = dict(coder=coder, model="cat", fbits=fbits, n=n, family=1, ncols=ncols,
                        probs=self.fbits_list(arr), msg=msg, style="mixed")
            if coder == "chain":
                base["data"] = self.chain_data(n)
            return [self.new_case(variant=variant, **base)]
        st, v = self.cat_table(ncols, fbits)
        arr = self.farray(v, fbits)
        rowvals = arr.astype(self.np.float64).tolist()
        msg = self.cat_message(n, lambda j: rowvals, ncols)
        base = dict(coder=coder, model="cat", fbits=fbits, n=n, family=0, ncols=ncols,
                    probs=self.fbits_list(arr), msg=msg, style=st)
        if coder == "chain":
            base["data"] = self.chain_data(n)
        group = [self.new_case(variant=variant, **base)]
        if variant == "fast":
            group.append(self.new_case(variant="lazy", twin_of=group[0]["id"], **base))
            if n >= 1 and n * ncols <= 3000 and r.random() < 0.5:
                fam = dict(base)
                fam["family"] = 1
                fam["probs"] = base["probs"] * n
                group.append(self.new_case(variant="fast", twin_of=group[0]["id"], **fam))
        return group

    def chain_data(self, n):
        r = self.r
        words = max(3, (24 * n + 31) // 32 + 3 + r.randint(0, 4))
        data = [r.getrandbits(32) for _ in range(words)]
        if r.random() < 0.2:
            data[-1] = 0                      # allowed with seal=True
        if r.random() < 0.1:
            data = [r.choice([0, 0xFFFFFFFF]) for _ in range(words)]
        return data

    def gen_two_param(self, model):
        """gauss / laplace / cauchy: both parameters scalar, both arrays, or one of each"""
        r = self.r
        lo, hi = self.support()
        n = self.length()
        fbits = self.fdtype()
        kinds = self.force.get("kinds") or r.choice([("s", "s"), ("s", "s"), ("a", "a"), ("a", "a"), ("s", "a"), ("a", "s")])
        extreme = kinds == ("s", "s") and r.random() < 0.3
        locs, scales = [], []
        for _ in range(max(n, 1)):
            l, s = self.loc_scale(lo, hi, extreme)
            locs.append(l)
            scales.append(s)
        if self.force.get("const"):
            locs, scales = [locs[0]] * len(locs), [scales[0]] * len(scales)
        np = self.np
        c = dict(coder=self.coder(), model=model, variant="", fbits=fbits, n=n, lo=lo, hi=hi,
                 p0kind=kinds[0], p1kind=kinds[1])
        if kinds[0] == "s":
            c["p0"] = [f64_bits(locs[0])]
            loc_of = lambda j: locs[0]
        else:
            a = self.farray(locs[:n], fbits)
            c["p0"] = self.fbits_list(a)
            lv = a.astype(np.float64).tolist()
            loc_of = lambda j: lv[j]
        if kinds[1] == "s":
            c["p1"] = [f64_bits(scales[0])]
            scale_of = lambda j: scales[0]
        else:
            a = self.farray(scales[:n], fbits)
            c["p1"] = self.fbits_list(a)
            sv = a.astype(np.float64).tolist()
            scale_of = lambda j: sv[j]
        c["msg"] = self.quant_message(n, lo, hi, loc_of, scale_of)
        if c["coder"] == "chain":
            c["data"] = self.chain_data(n)
        group = [self.new_case(**c)]
        if kinds == ("s", "s") and n >= 1 and r.random() < 0.35:
            # the same model as a family with constant f64 parameter arrays: same words expected
            t = dict(c)
            t.update(p0kind="a", p1kind="a", p0=c["p0"] * n, p1=c["p1"] * n, fbits=64)
            group.append(self.new_case(twin_of=group[0]["id"], **t))
        return group

    def gen_uniform(self):
        r = self.r
        n = self.length()

        def size():
            k = r.random()
            if k < 0.3:
                return r.choice([2, 3, 4, 255, 256, 257, 2**24 - 1, 2**24, 2**23, 2**23 + 1])
            if k < 0.8:
                return r.randint(2, 1000)
            return r.randint(2, 2**24)
        kind = self.force.get("kind") or r.choice(["s", "a"])
        sizes = [size() for _ in range(max(n, 1))]
        if self.force.get("const"):
            sizes = [sizes[0]] * len(sizes)
        c = dict(coder=self.coder(), model="uniform", variant="", fbits=64, n=n, lo=0, hi=0,
                 p0kind=kind, p1kind="-", p1=[])
        c["p0"] = [sizes[0]] if kind == "s" else sizes[:n]
        sz = (lambda j: sizes[0]) if kind == "s" else (lambda j: sizes[j])
        c["msg"] = [r.choice([0, sz(j) - 1, r.randrange(sz(j)), r.randrange(sz(j))]) for j in range(n)]
        if c["coder"] == "chain":
            c["data"] = self.chain_data(n)
        return [self.new_case(**c)]

    def gen_bernoulli(self):
        r = self.r
        n = self.length()
        fbits = self.fdtype()
        kind = self.force.get("kind") or r.choice(["s", "a"])

        def p():
            k = r.random()
            if k < 0.2:
                return r.choice([0.0, 1.0, 0.5, 1e-12, 1.0 - 1e-12, 2.0**-24, 2.0**-25, 1.0 - 2.0**-24])
            return r.random()
        ps = [p() for _ in range(max(n, 1))]
        if self.force.get("const"):
            ps = [ps[0]] * len(ps)
        c = dict(coder=self.coder(), model="bernoulli", variant=r.choice(["fast", "perfect"]), fbits=fbits,
                 n=n, lo=0, hi=1, p0kind=kind, p1kind="-", p1=[])
        if kind == "s":
            c["p0"] = [f64_bits(ps[0])]
        else:
            c["p0"] = self.fbits_list(self.farray(ps[:n], fbits))
        c["msg"] = [r.randint(0, 1) for _ in range(n)]
        if c["coder"] == "chain":
            c["data"] = self.chain_data(n)
        return [self.new_case(**c)]

    @staticmethod
    def binomial_safe(nn, p):
        """outside the region where `probability` 0.20.3's `Binomial::inverse` (the quantile hint of
        the leaky quantizer) never returns: for n < 1000 it sums from p^n or q^n, which underflows
        to zero for n*ln(1/p) > 745; for n >= 1000 and npq <= 80 it runs an unguarded Newton
        iteration.  The region itself is covered by `hang_probes` (reported finding)."""
        q = 1.0 - p
        if not (0.0 < p < 1.0 and 0.0 < q < 1.0):
            return False
        if nn < 1000:
            return nn * max(-math.log(p), -math.log(q)) < 700.0
        return nn * p * q > 80.0

    def gen_binomial(self):
        r = self.r
        np = self.np
        n = self.length()
        fbits = self.fdtype()
        kinds = self.force.get("kinds") or r.choice([("s", "s"), ("a", "a"), ("s", "a"), ("a", "s")])
        as_f32 = fbits == 32 and kinds[1] == "a"

        def trials():
            return r.choice([1, 2, 3, 10, 100, 999, 1000]) if r.random() < 0.4 else r.randint(1, 2000)

        def prob():
            # the `probability` crate debug-asserts 0 < p < 1 (the harness build has debug assertions
            # on); p in {0.0, 1.0} is covered by campaign (c) as a round-trip-only case
            k = r.random()
            if k < 0.2:
                q = r.choice([0.5, 1e-9, 1.0 - 1e-9, 1e-3, 0.999])
            else:
                q = min(max(r.random(), 1e-12), 1.0 - 1e-12)
            if as_f32:
                q = float(np.float32(min(max(q, 1e-7), 0.99999)))
            return q
        count = max(n, 1)
        safe = self.binomial_safe

        def draw(fixed_n=None, fixed_p=None):
            for _ in range(300):
                nn = fixed_n if fixed_n is not None else trials()
                pp = fixed_p if fixed_p is not None else prob()
                if safe(nn, pp):
                    return nn, pp
            # p = 0.5 is safe for every n; n <= 20 is safe for every p generated here
            if fixed_n is not None:
                return fixed_n, 0.5
            return r.randint(1, 20), fixed_p
        if kinds == ("s", "s"):
            nn, pp = draw()
            ns, ps = [nn] * count, [pp] * count
        elif kinds[0] == "s":
            nn = trials()
            ns, ps = [nn] * count, [draw(fixed_n=nn)[1] for _ in range(count)]
        elif kinds[1] == "s":
            pp = prob()
            ns, ps = [draw(fixed_p=pp)[0] for _ in range(count)], [pp] * count
        else:
            pairs = [draw() for _ in range(count)]
            ns, ps = [a for a, _ in pairs], [b for _, b in pairs]
        if self.force.get("const"):
            ns, ps = [ns[0]] * count, [ps[0]] * count
        assert all(safe(a, b) for a, b in zip(ns, ps)), (ns, ps)
        c = dict(coder=self.coder(), model="binomial", variant="", fbits=fbits, n=n, lo=0, hi=0,
                 p0kind=kinds[0], p1kind=kinds[1])
        c["p0"] = [ns[0]] if kinds[0] == "s" else ns[:n]
        if kinds[1] == "s":
            c["p1"] = [f64_bits(ps[0])]
        else:
            c["p1"] = self.fbits_list(self.farray(ps[:n], fbits))
        msg = []
        for j in range(n):
            k = r.random()
            if k < 0.15:
                msg.append(0)
            elif k < 0.30:
                msg.append(ns[j])
            elif k < 0.85:
                m = ns[j] * ps[j]
                sd = math.sqrt(max(ns[j] * ps[j] * (1 - ps[j]), 1e-9))
                msg.append(min(ns[j], max(0, int(round(r.gauss(m, sd))))))
            else:
                msg.append(r.randint(0, ns[j]))
        c["msg"] = msg
        if c["coder"] == "chain":
            c["data"] = self.chain_data(n)
        return [self.new_case(**c)]

    def hang_probes(self):
        """valid Binomial models whose decoding did not return when this check was written
        (`probability::distribution::Binomial::inverse`, see `binomial_safe`); 3 s watchdog each"""
        out = []
        for nn, pp in ((920, 0.4399495634132061), (1303, 0.999999999)):
            out.append(self.new_case(coder="ans", model="binomial", variant="", fbits=64, n=1, lo=0, hi=0,
                                     p0kind="s", p1kind="s", p0=[nn], p1=[f64_bits(pp)], msg=[nn],
                                     probe=1, timeout=3))
        return out

    def layout_sweep(self):
        """every model family x every memory layout x every coder entry point, deterministically:
        all parameters per symbol (plus the mixed constructor/call splits for the reversed view)"""
        groups = []
        two = {"gauss": self.gen_two_param, "laplace": self.gen_two_param, "cauchy": self.gen_two_param}
        k = 0
        for coder in ("ans", "range", "chain"):
            for lay in LAYOUTS1:
                if lay == "c":
                    continue
                for model in ("gauss", "laplace", "cauchy", "binomial", "bernoulli", "uniform"):
                    splits = [("a", "a")] if model in two or model == "binomial" else ["a"]
                    if lay in ("rev", "s-2") and len(splits[0]) == 2:
                        splits += [("s", "a"), ("a", "s")]
                    for split in splits:
                        k += 1
                        self.force = dict(coder=coder, lay=lay, n=3 + k % 9, fbits=64 if k % 3 else 32,
                                          lay_s=LAYOUTS1[k % len(LAYOUTS1)], const=(lay == "bcast"))
                        if model in two:
                            self.force["kinds"] = split
                            groups.append(self.gen_two_param(model))
                        elif model == "binomial":
                            self.force["kinds"] = split
                            groups.append(self.gen_binomial())
                        elif model == "bernoulli":
                            self.force["kind"] = "a"
                            groups.append(self.gen_bernoulli())
                        else:
                            self.force["kind"] = "a"
                            groups.append(self.gen_uniform())
            for lay in LAYOUTS2:
                for variant in ("fast", "perfect"):
                    k += 1
                    self.force = dict(coder=coder, lay=lay, n=2 + k % 5, fbits=64 if k % 2 else 32, family=True,
                                      variant=variant, ncols=2 + k % 7, lay_s=LAYOUTS1[k % len(LAYOUTS1)])
                    groups.append(self.gen_cat_group())
        self.force = {}
        return groups

    def gen_group(self):
        kind = self.r.choices(["cat", "gauss", "laplace", "cauchy", "uniform", "bernoulli", "binomial"],
                              weights=[36, 18, 10, 10, 8, 8, 10])[0]
        if kind == "cat":
            return self.gen_cat_group()
        if kind in ("gauss", "laplace", "cauchy"):
            return self.gen_two_param(kind)
        if kind == "uniform":
            return self.gen_uniform()
        if kind == "bernoulli":
            return self.gen_bernoulli()
        return self.gen_binomial()

    def documented_cases(self):
        """a few documented vectors as differential cases (they also anchor the case format)"""
        out = []
        # src/pybindings/stream/model.rs: QuantizedGaussian(-100, 100, 12.6, 7.3) -> [745994372, 25704]
        out.append(self.new_case(coder="ans", model="gauss", variant="", fbits=64, n=6, lo=-100, hi=100,
                                 p0kind="s", p1kind="s", p0=[f64_bits(12.6)], p1=[f64_bits(7.3)],
                                 msg=[12, 15, 4, -2, 18, 5], expect_words=[745994372, 25704]))
        np = self.np
        means = np.array([13.2, 17.9, 7.3, -4.2, 25.1, 3.2], dtype=np.float32)
        stds = np.array([3.2, 4.7, 5.2, 3.1, 6.3, 2.9], dtype=np.float32)
        out.append(self.new_case(coder="ans", model="gauss", variant="", fbits=32, n=6, lo=-100, hi=100,
                                 p0kind="a", p1kind="a", p0=self.fbits_list(means), p1=self.fbits_list(stds),
                                 msg=[12, 15, 4, -2, 18, 5], expect_words=[2051912079, 1549]))
        probs = np.array([0.2, 0.4, 0.1, 0.3], dtype=np.float32)
        out.append(self.new_case(coder="ans", model="cat", variant="fast", fbits=32, n=8, family=0, ncols=4,
                                 probs=self.fbits_list(probs), msg=[0, 3, 2, 3, 2, 0, 2, 1], style="doc",
                                 expect_words=[2484720979, 175]))
        # D28 (fixed by a04f314): a Categorical family read an F-ordered probability matrix in memory
        # order.  Same logical matrix, every rank-2 layout, both `perfect` values, both float types.
        P = [[0.1, 0.2, 0.3, 0.4], [0.7, 0.1, 0.1, 0.1], [0.25, 0.25, 0.4, 0.1]]
        for fbits in (64, 32):
            bits = self.fbits_list(self.farray(P, fbits))
            for variant in ("fast", "perfect"):
                words = [28521270] if (fbits, variant) == (32, "fast") else [28521268]
                for k, lay in enumerate(LAYOUTS2):
                    c = self.new_case(coder="ans", model="cat", variant=variant, fbits=fbits, n=3, family=1, ncols=4,
                                      probs=bits, msg=[3, 0, 2], style="doc", expect_words=words)
                    c.update(lay_p0=lay, lay_s="c", lay_w="c", lay_d=LAYOUTS2[(k + 3) % len(LAYOUTS2)])
                    out.append(c)
        return out


def build_py_model(M, np, c, lays=None):
    """(model object, tuple of per-symbol parameter arrays, {slot: layout actually used});
    `lays` = {"p0": layout, "p1": layout} for the arrays (default: C-contiguous)"""
    lays = lays or {}
    used = {}
    f = np.float32 if c["fbits"] == 32 else np.float64
    u = np.uint32 if c["fbits"] == 32 else np.uint64

    def farr(bits, slot):
        v, used[slot] = view1(np, np.array(bits, dtype=u).view(f), lays.get(slot, "c"))
        return v
    m = c["model"]
    if m == "cat":
        kw = {"fast": dict(perfect=False), "lazy": dict(lazy=True), "perfect": dict(perfect=True)}[c["variant"]]
        if c["family"]:
            if c["variant"] == "lazy":
                kw = dict(perfect=False)
            mat = np.array(c["probs"], dtype=u).view(f).reshape(c["n"], c["ncols"])
            v, used["p0"] = view2(np, mat, lays.get("p0", "c"))
            return M.Categorical(**kw), (v,), used
        return M.Categorical(farr(c["probs"], "p0"), **kw), (), used

    def slot_f(kind, v, slot):
        if kind == "s":
            return bits_f64(v[0]), None
        if kind == "a":
            return None, farr(v, slot)
        return None, None

    def slot_i(kind, v, slot):
        if kind == "s":
            return int(v[0]), None
        if kind == "a":
            arr, used[slot] = view1(np, np.array(v, dtype=np.int32), lays.get(slot, "c"))
            return None, arr
        return None, None
    if m in ("gauss", "laplace", "cauchy"):
        s0, a0 = slot_f(c["p0kind"], c["p0"], "p0")
        s1, a1 = slot_f(c["p1kind"], c["p1"], "p1")
        cls = {"gauss": M.QuantizedGaussian, "laplace": M.QuantizedLaplace, "cauchy": M.QuantizedCauchy}[m]
        names = {"gauss": ("mean", "std"), "laplace": ("mean", "scale"), "cauchy": ("loc", "scale")}[m]
        kw = {}
        if s0 is not None:
            kw[names[0]] = s0
        if s1 is not None:
            kw[names[1]] = s1
        return cls(c["lo"], c["hi"], **kw), tuple(a for a in (a0, a1) if a is not None), used
    if m == "uniform":
        s0, a0 = slot_i(c["p0kind"], c["p0"], "p0")
        return (M.Uniform(s0), (), used) if s0 is not None else (M.Uniform(), (a0,), used)
    if m == "bernoulli":
        s0, a0 = slot_f(c["p0kind"], c["p0"], "p0")
        perfect = c["variant"] == "perfect"
        return (M.Bernoulli(s0, perfect=perfect), (), used) if s0 is not None else (M.Bernoulli(perfect=perfect), (a0,), used)
    if m == "binomial":
        s0, a0 = slot_i(c["p0kind"], c["p0"], "p0")
        s1, a1 = slot_f(c["p1kind"], c["p1"], "p1")
        kw = {}
        if s0 is not None:
            kw["n"] = s0
        if s1 is not None:
            kw["p"] = s1
        return M.Binomial(**kw), tuple(a for a in (a0, a1) if a is not None), used
    raise ValueError("unknown model " + m)


STAGE = ["enc"]          # which call of `run_python` is in progress (to attribute a refusal)


def run_python(constriction, np, c, lays, lay_s, lay_d, lay_w="c"):
    """one pass of the case through the Python API with the given memory layouts;
    returns (dict of py* results, decoder-empty flag or None, {slot: layout used})"""
    M = constriction.stream.model
    model, params, used = build_py_model(M, np, c, lays)
    if lay_d == "same":
        dparams = params
    elif lay_d == "c":
        dparams = build_py_model(M, np, c, {})[1]
    else:                                   # any other layout name: applied to every parameter array
        dparams = build_py_model(M, np, c, {"p0": lay_d, "p1": lay_d})[1]
    n = c["n"]
    concrete = len(params) == 0
    res = {}
    empty = None
    STAGE[0] = "enc"
    if c["coder"] in ("ans", "range"):
        msg, used["s"] = view1(np, np.array(c["msg"], dtype=np.int32), lay_s)
        scalar = concrete and n == 1 and c["id"] % 2 == 0     # the single-symbol entry points
        if c["coder"] == "ans":
            enc = constriction.stream.stack.AnsCoder()
            if scalar:
                enc.encode_reverse(int(msg[0]), model)
            else:
                enc.encode_reverse(msg, model, *params)
            words = enc.get_compressed()
            wview, used["w"] = view1(np, words, lay_w)
            dec = constriction.stream.stack.AnsCoder(wview)
        else:
            enc = constriction.stream.queue.RangeEncoder()
            if scalar:
                enc.encode(int(msg[0]), model)
            else:
                enc.encode(msg, model, *params)
            words = enc.get_compressed()
            wview, used["w"] = view1(np, words, lay_w)
            dec = constriction.stream.queue.RangeDecoder(wview)
        STAGE[0] = "dec"
        if scalar:
            decoded = np.array([dec.decode(model)], dtype=np.int32)
        elif concrete:
            decoded = dec.decode(model, n)
        else:
            decoded = dec.decode(model, *dparams)
        res["pywords"] = [int(w) for w in words.tolist()]
        res["pydecoded"] = [int(s) for s in np.asarray(decoded).tolist()]
        if c["coder"] == "ans":
            empty = bool(dec.is_empty())
    else:
        data, used["w"] = view1(np, np.array(c["data"], dtype=np.uint32), lay_w)
        coder = constriction.stream.chain.ChainCoder(data, False, True)
        STAGE[0] = "dec"
        if concrete:
            decoded = coder.decode(model, n)
        else:
            decoded = coder.decode(model, *dparams)
        decoded = np.asarray(decoded, dtype=np.int32)
        prefix, suffix = coder.get_remainders()
        again, used["s"] = view1(np, decoded, lay_s)
        STAGE[0] = "enc"
        coder.encode_reverse(again, model, *params)
        rp, rs = coder.get_data(unseal=True)
        res["pydecoded"] = [int(s) for s in decoded.tolist()]
        res["pyprefix"] = [int(w) for w in prefix.tolist()]
        res["pysuffix"] = [int(w) for w in suffix.tolist()]
        res["pyrecprefix"] = [int(w) for w in rp.tolist()]
        res["pyrecsuffix"] = [int(w) for w in rs.tolist()]
        res["pywords"] = res["pysuffix"]
    return res, empty, used


def execute_case(constriction, np, c):
    """runs the case through the Python API, adds py* fields;
    returns (list of (prop, ok, text), list of extra oracle lines)"""
    checks, lines = [], []
    lays = {k: c["lay_" + k] for k in ("p0", "p1") if ("lay_" + k) in c}
    lay_s, lay_d, lay_w = c.get("lay_s", "c"), c.get("lay_d", "same"), c.get("lay_w", "c")
    plain = all(v == "c" for v in lays.values()) and lay_d in ("same", "c")
    def refused(e):
        return isinstance(e, TypeError) and "not contiguous" in str(e)
    try:
        try:
            res, empty, used = run_python(constriction, np, c, lays, lay_s, lay_d, lay_w)
        except TypeError as e:
            # a clean refusal of a non-contiguous probability table is legal: first at decode time ...
            if not refused(e) or plain or lay_d in ("same", "c") or STAGE[0] != "dec":
                raise
            lines.append("HIST C06.py.layout_refused.%s.%s@decode 1" % (c["model"], lay_d))
            lines.append("HIST C06.py.layout_refused_total 1")
            lay_d = "c"
            res, empty, used = run_python(constriction, np, c, lays, lay_s, lay_d, lay_w)
    except TypeError as e:
        # ... then at encode time / in the constructor: go on with the contiguous table
        if not refused(e) or all(v == "c" for v in lays.values()):
            raise
        for k, v in lays.items():
            if v != "c":
                lines.append("HIST C06.py.layout_refused.%s.%s 1" % (c["model"], v))
                lines.append("HIST C06.py.layout_refused_total 1")
        lays = {k: "c" for k in lays}
        lay_d = "same"
        res, empty, used = run_python(constriction, np, c, lays, lay_s, lay_d, lay_w)
    except Exception as e:
        if plain:
            raise
        # the same case with contiguous arrays: if that works, the memory layout is to blame (C06: the
        # stream must depend on the logical contents of the arrays only)
        res, empty, used = run_python(constriction, np, c, {k: "c" for k in lays}, lay_s, "same", lay_w)
        checks.append(("C06", False, "coding raises %s: %s with parameter layouts %s (decode-time layout %s), but works with "
                       "C-contiguous copies of the same arrays" % (type(e).__name__, one_line(e, 120), lays, lay_d)))
        used.update(lays)
    for k, v in lays.items():
        if v != "c" and used.get(k) == v and c["model"] == "cat":
            lines.append("HIST C06.py.layout_accepted.cat.%s 1" % v)
            lines.append("HIST C06.py.layout_accepted_total 1")
    for k in ("p0", "p1"):
        c.pop("lay_" + k, None)
        if k in used:
            c["lay_" + k] = used[k]
            if c["model"] != "cat" or c["family"]:
                lines.append("HIST C06.py.layout.%s.%s 1" % (c["model"], used[k]))
    c["lay_s"], c["lay_w"], c["lay_d"] = used.get("s", "c"), used.get("w", "c"), lay_d
    lines.append("HIST C06.py.layout.symbols.%s 1" % c["lay_s"])
    lines.append("HIST C06.py.layout.words.%s 1" % c["lay_w"])
    c.update(res)
    if c["coder"] in ("ans", "range"):
        prop = "C01" if c["coder"] == "ans" else "C02"
        checks.append((prop, c["pydecoded"] == c["msg"], "decode(encode(msg)) != msg: decoded=%s" % c["pydecoded"]))
        if not plain or lay_d != "same":
            checks.append(("C06", c["pydecoded"] == c["msg"],
                           "symbols encoded with parameter layouts %s do not come back when decoding with layout `%s` of the "
                           "same arrays: decoded=%s" % (lays, lay_d, c["pydecoded"])))
        if c["coder"] == "ans":
            checks.append(("C01", bool(empty), "decoder not empty after decoding all symbols"))
        if "expect_words" in c:
            checks.append(("C06", c["pywords"] == c["expect_words"],
                           "documented words %s, python produced %s" % (c["expect_words"], c["pywords"])))
    else:
        c.pop("msg", None)
        checks.append(("C13", c["pyrecprefix"] == [] and c["pyrecsuffix"] == c["data"],
                       "decode then encode_reverse does not restore the data: got (%s, %s)" % (c["pyrecprefix"], c["pyrecsuffix"])))
    return checks, lines


def case_label(c):
    fam = c.get("family", 1 if "a" in (c.get("p0kind"), c.get("p1kind")) else 0)
    return "%s.%s%s.%s" % (c["coder"], c["model"], ("-" + c["variant"]) if c["variant"] else "",
                           "family" if fam else "concrete")


def case_json(c):
    return json.dumps(c, separators=(",", ":"), sort_keys=True)


def short_case(c):
    s = case_json(c)
    return s if len(s) <= 3000 else s[:3000] + "… (%d bytes; `pyfront.py case` regenerates it)" % len(s)


def n_groups(tier):
    return 260 if tier == "quick" else 5200


PROP_OF_CODER = {"ans": "C01", "range": "C02", "chain": "C13"}


def all_groups(g, tier):
    groups = [[c] for c in g.documented_cases()]
    for _ in range(n_groups(tier)):
        groups.append(g.gen_group())
    groups.extend(g.layout_sweep())
    groups.extend([c] for c in g.hang_probes())
    return groups


def worker_gen(seed, tier, out_path, start_group=0, only_id=None):
    proto = Proto()
    constriction, np = import_constriction(proto)
    g = Gen(seed, tier, np)
    groups = all_groups(g, tier)          # always generated completely: ids and inputs are reproducible
    written = 0
    with open(out_path, "a") as out:
        for gi in range(start_group, len(groups)):
            group = groups[gi]
            if only_id is not None and not any(c["id"] == only_id for c in group):
                continue
            proto.line("GROUP %d" % gi)
            done = []
            for c in group:
                proto.line("RUNNING %d timeout=%s %s %s" % (c["id"], c.get("timeout", CASE_TIMEOUT), case_label(c), short_case(c)))
                try:
                    checks, extra_lines = execute_case(constriction, np, c)
                except BaseException as e:
                    # valid inputs by construction: an exception here is a front-end problem
                    prop = PROP_OF_CODER[c["coder"]]
                    proto.line("EVAL %s 1" % prop)
                    proto.line("FAIL %s python front end raised on a valid case [%s case %d %s]: %s: %s case=%s"
                               % (prop, g.tag, c["id"], case_label(c), type(e).__name__, one_line(e, 300), short_case(c)))
                    continue
                if "probe" in c:
                    proto.line("EVAL C10 1")
                    proto.line("HIST C10.py.probe.returned 1")
                for prop, ok, text in checks:
                    proto.line("EVAL %s 1" % prop)
                    if not ok:
                        proto.line("FAIL %s python front end [%s case %d %s]: %s case=%s"
                                   % (prop, g.tag, c["id"], case_label(c), one_line(text, 500), short_case(c)))
                proto.line("HIST C06.py.coder.%s 1" % c["coder"])
                for l in extra_lines:
                    proto.line(l)
                if c["model"] == "cat":
                    proto.line("HIST C06.py.cat.table.%s 1" % c.get("style", "?"))
                done.append(c)
                out.write(case_json({k: v for k, v in c.items()
                                     if k not in ("style", "twin_of", "expect_words", "probe", "timeout")}) + "\n")
                out.flush()
                written += 1
            # twins: same inputs through another representation of the same model -> same words
            for c in done[1:]:
                first = done[0]
                if c.get("twin_of") != first["id"]:
                    continue
                is_c05 = c["model"] == "cat"
                prop = "C05" if is_c05 else "C06"
                proto.line("EVAL %s 1" % prop)
                proto.line("HIST %s.py.twin.%s 1" % (prop, "lazy-vs-eager" if c["variant"] == "lazy" else "family-vs-concrete"))
                same = all(first.get(k) == c.get(k) for k in ("pywords", "pydecoded", "pyprefix", "pysuffix"))
                if not same:
                    proto.line("FAIL %s python front end: %s and %s disagree on the same inputs [%s cases %d/%d]: words %s vs %s case=%s"
                               % (prop, case_label(first), case_label(c), g.tag, first["id"], c["id"],
                                  first.get("pywords"), c.get("pywords"), short_case(c)))
    proto.line("WRITTEN %d" % written)
    proto.line("DONE")


def harness_binary(rep):
    h = os.environ.get("PYFRONT_HARNESS")
    if h:
        return h if os.path.exists(h) else None
    alt = os.environ.get("VERIF_REPO")
    if alt:
        # the harness `check` builds for a scratch repository (same tag computation as in `check`)
        cand = os.path.join(WORK, "target-alt-" + hashlib.md5(alt.encode()).hexdigest()[:8], "verif", "cvharness")
        if os.path.exists(cand):
            return cand
    h = os.path.join(WORK, "target", "verif", "cvharness")
    if not os.path.exists(h):
        subprocess.run(["cargo", "build", "--profile", "verif"], cwd=os.path.join(VERIF, "harness"),
                       stdout=subprocess.DEVNULL, stderr=subprocess.DEVNULL)
    return h if os.path.exists(h) else None


def campaign_diff(rep, seed, tier, only_id=None):
    # one file per process: several `check` runs may drive this tool for the same repository at once
    cases = os.path.join(so_dir(), ("cases-%d-%s-%d.jsonl" % (seed, tier, os.getpid())) if only_id is None
                         else "case-%d.jsonl" % only_id)
    open(cases, "w").close()
    start, restarts, finished = 0, 0, False
    while restarts <= 25:
        args = ["_gen", str(seed), tier, cases, str(start), str(only_id) if only_id is not None else "-"]
        status, extra = run_worker(args, rep, "gen")
        if status == "done":
            finished = True
            break
        groups = [l for l in extra if l.startswith("GROUP ")]
        running = [l for l in extra if l.startswith("RUNNING ")]
        if status == "exit" or not groups or not running:
            if not rep.errors:
                rep.error("differential worker ended early (%s) after %s" % (status, (running or ["nothing"])[-1][:80]))
            break
        # the worker hung or died inside a case that is valid by construction
        _, cid, tmo, label, text = (running[-1].split(" ", 4) + [""])[:5]
        coder = label.split(".")[0]
        replay = "replay: tools/pyfront.py case %d %s %s" % (seed, tier, cid)
        if status == "hang" and only_id is None and not os.environ.get("PYFRONT_NO_CONFIRM"):
            # confirm before reporting: the same case alone, with a ten times longer limit
            sub2 = Report()
            st2, _ = run_worker(["_gen", str(seed), tier, cases + ".confirm", "0", cid], sub2, "gen", timeout=10 * CASE_TIMEOUT, scale=10.0)
            if st2 != "hang":
                rep.count("C10.py.slow_case_confirmed_not_hanging")
                status = "slow"
        if status == "slow":
            pass
        elif status == "hang":
            rep.eval("C10")
            rep.fail("C10", "python front end hangs: no result after %s s (killed) on a valid case [seed=%d tier=%s case %s %s; %s] case=%s"
                     % (tmo[8:], seed, tier, cid, label, replay, text))
        else:
            rep.eval("C20")
            rep.fail("C20", "python front end: interpreter died (%s) on a valid case [seed=%d tier=%s case %s %s; %s] case=%s"
                     % (extra[-1], seed, tier, cid, label, replay, text))
        rep.count("%s.py.%s" % ("C10" if status in ("hang", "slow") else "C20", status))
        start = int(groups[-1].split()[1]) + 1
        restarts += 1
        if only_id is not None:
            finished = True
            break
    if not finished:
        return cases
    with open(cases) as f:
        written = sum(1 for l in f if l.strip())
    if written == 0:
        return cases
    h = harness_binary(rep)
    if h is None:
        rep.error("cvharness binary not found (set PYFRONT_HARNESS or build /verif/harness)")
        return cases
    try:
        p = subprocess.run([h, "pyfront", cases], stdout=subprocess.PIPE, stderr=subprocess.PIPE, text=True, timeout=1800)
    except subprocess.TimeoutExpired:
        rep.error("%s pyfront %s did not finish within 1800 s" % (h, cases))
        return cases
    seen = 0
    for line in p.stdout.splitlines():
        rep.absorb(line)
        if line.startswith("EVAL C06 "):
            seen = int(line.split()[2])
    if p.returncode != 0:
        rep.error("%s pyfront exited with %s: %s" % (h, p.returncode, one_line(p.stderr[-300:])))
    elif seen != written:
        rep.error("%s evaluated %d of %d cases (stale binary without the pyfront subcommand?)" % (h, seen, written))
    if only_id is None and not rep.fails and not rep.errors and not os.environ.get("PYFRONT_KEEP"):
        os.remove(cases)          # (`pyfront.py case <seed> <tier> <id>` regenerates any case)
    return cases


# ------------------------------------------------------------------------------------------
# campaign (c): constructor error mapping

CTOR_PRELUDE = """
import numpy as np
f32, f64, i32 = np.float32, np.float64, np.int32
nan, inf = float('nan'), float('inf')
def arr(v, dt=f64): return np.array(v, dtype=dt)
def syms(v): return np.array(v, dtype=np.int32)
def ans(): return constriction.stream.stack.AnsCoder()
def rng(): return constriction.stream.queue.RangeEncoder()

class Broken(Exception):
    pass

def split(tag, make, params, lo, hi, n=5):
    '''`tag` = "Family|which parameter is given where|invalid value@position".  Builds the model
    (`make()`, may raise) and codes, for every in-support symbol s, the message [s]*n with the
    per-symbol parameter arrays `params` through AnsCoder and RangeEncoder/RangeDecoder.  Either
    every such call raises (the invalid value is rejected: the first exception is re-raised), or
    every message must round-trip; anything else means an invalid parameter was accepted and
    produced a broken model (`Broken`).'''
    model = make()
    first_exc, n_exc, n_ok, bad = None, 0, 0, None
    for coder in ("ans", "range"):
        for s in range(lo, hi + 1):
            msg = np.full(n, s, dtype=np.int32)
            try:
                if coder == "ans":
                    e = ans()
                    e.encode_reverse(msg, model, *params)
                    d = constriction.stream.stack.AnsCoder(e.get_compressed())
                else:
                    e = rng()
                    e.encode(msg, model, *params)
                    d = constriction.stream.queue.RangeDecoder(e.get_compressed())
                got = d.decode(model, *params) if params else d.decode(model, n)
                got = [int(x) for x in np.asarray(got).tolist()]
                if got == [s] * n:
                    n_ok += 1
                elif bad is None:
                    bad = "%s: [%d]*%d decodes to %s" % (coder, s, n, got)
            except BaseException as ex:
                n_exc += 1
                if first_exc is None:
                    first_exc = (coder, s, ex)
    total = 2 * (hi - lo + 1)
    if n_exc == total:
        raise first_exc[2]
    if n_ok == total:
        return "accepted; all %d in-support symbols round-trip through both coders" % (hi - lo + 1)
    if bad is None:
        bad = "%s: coding [%d]*%d raises %s: %s (but %d of %d other messages are coded)" % (
            first_exc[0], first_exc[1], n, type(first_exc[2]).__name__, " ".join(str(first_exc[2]).split())[:80], total - n_exc, total)
    raise Broken("%s accepted, model broken (%d of %d messages round-trip): %s" % (tag, n_ok, total, bad))
"""

# (expression, symbols that a returned model must be able to round-trip | None = the expression is
#  a complete encode call whose normal return (None) is fine)
FIXED_CTOR_CASES = [
    # --- Categorical: the documented ValueError mapping
    ("M.Categorical(arr([]), perfect=False)", [0]),
    ("M.Categorical(arr([]), perfect=True)", [0]),
    ("M.Categorical(arr([]), lazy=True)", [0]),
    ("M.Categorical(arr([], f32), perfect=False)", [0]),
    ("M.Categorical(arr([1.0]), perfect=False)", [0]),
    ("M.Categorical(arr([1.0]), perfect=True)", [0]),
    ("M.Categorical(arr([1.0]), lazy=True)", [0]),
    ("M.Categorical(arr([0.3], f32), lazy=True)", [0]),
    ("M.Categorical(arr([0.5, -0.1, 0.6]), perfect=False)", [0, 1, 2]),
    ("M.Categorical(arr([0.5, -0.1, 0.6]), perfect=True)", [0, 1, 2]),
    ("M.Categorical(arr([0.5, -0.1, 0.6]), lazy=True)", [0, 1, 2]),
    ("M.Categorical(arr([0.5, -0.1, 0.6], f32), perfect=False)", [0, 1, 2]),
    ("M.Categorical(arr([0.5, -1e-300, 0.6]), perfect=False)", [0, 1, 2]),
    ("M.Categorical(arr([0.5, -0.0, 0.6]), perfect=False)", [0, 1, 2]),
    ("M.Categorical(arr([0.5, nan, 0.6]), perfect=False)", [0, 1, 2]),
    ("M.Categorical(arr([0.5, nan, 0.6]), perfect=True)", [0, 1, 2]),
    ("M.Categorical(arr([0.5, nan, 0.6]), lazy=True)", [0, 1, 2]),
    ("M.Categorical(arr([nan, nan]), perfect=False)", [0, 1]),
    ("M.Categorical(arr([0.5, inf, 0.6]), perfect=False)", [0, 1, 2]),
    ("M.Categorical(arr([0.5, inf, 0.6]), perfect=True)", [0, 1, 2]),
    ("M.Categorical(arr([0.5, inf, 0.6]), lazy=True)", [0, 1, 2]),
    ("M.Categorical(arr([0.5, -inf, 0.6]), perfect=False)", [0, 1, 2]),
    ("M.Categorical(arr([1e308, 1e308, 1e308]), perfect=False)", [0, 1, 2]),
    ("M.Categorical(arr([3e38, 3e38], f32), perfect=False)", [0, 1]),
    ("M.Categorical(arr([3e38, 3e38], f32), lazy=True)", [0, 1]),
    ("M.Categorical(arr([3e38, 3e38], f32), perfect=True)", [0, 1]),
    ("M.Categorical(arr([0.0, 0.0, 0.0]), perfect=False)", [0, 1, 2]),
    ("M.Categorical(arr([0.0, 0.0, 0.0]), perfect=True)", [0, 1, 2]),
    ("M.Categorical(arr([0.0, 0.0, 0.0]), lazy=True)", [0, 1, 2]),
    ("M.Categorical(arr([0.0, 0.0], f32), lazy=True)", [0, 1]),
    ("M.Categorical(arr([0.5, 0.5]), lazy=True, perfect=True)", [0, 1]),
    ("M.Categorical(lazy=True, perfect=True)", None),
    ("M.Categorical(arr([1, 2, 3], np.int64), perfect=False)", [0, 1, 2]),
    ("M.Categorical(arr([1, 2, 3], np.float16), perfect=False)", [0, 1, 2]),
    ("M.Categorical([0.5, 0.5], perfect=False)", [0, 1]),
    ("M.Categorical(arr([[0.5, 0.5], [0.1, 0.9]]), perfect=False)", [0, 1]),
    ("M.Categorical('abc', perfect=False)", [0]),
    ("M.Categorical(arr([0.2, 0.8]), perfect='yes')", [0, 1]),
    # valid but extreme tables must give working models
    ("M.Categorical(arr([0.0, 1.0]), perfect=False)", [0, 1, 0]),
    ("M.Categorical(arr([0.0, 1.0]), perfect=True)", [0, 1, 0]),
    ("M.Categorical(arr([0.0, 1.0]), lazy=True)", [0, 1, 0]),
    ("M.Categorical(arr([5e-324, 5e-324]), perfect=False)", [0, 1]),
    ("M.Categorical(arr([5e-324, 1.0, 5e-324]), lazy=True)", [0, 1, 2]),
    ("M.Categorical(arr([1e-45, 1.0], f32), perfect=True)", [0, 1]),
    ("M.Categorical(arr([1e300, 1e-300, 1.0]), perfect=False)", [0, 1, 2]),
    ("M.Categorical(np.ones(70000), perfect=False)", [0, 69999, 5]),
    ("M.Categorical(np.ones(2**24), lazy=True)", [0, 2**24 - 1]),
    ("M.Categorical(np.ones(2**24 + 1), lazy=True)", [0, 2**24]),
    ("M.Categorical(np.ones(2**24 + 1, dtype=f32), perfect=False)", [0, 2**24]),
    # families: invalid rows at encode time
    ("ans().encode_reverse(syms([0, 1]), M.Categorical(perfect=False), arr([[0.5, 0.5], [-1.0, 2.0]]))", None),
    ("ans().encode_reverse(syms([0, 1]), M.Categorical(perfect=True), arr([[0.5, 0.5], [nan, 2.0]]))", None),
    ("ans().encode_reverse(syms([0, 1]), M.Categorical(perfect=False), arr([[0.0, 0.0], [0.0, 0.0]], f32))", None),
    ("ans().encode_reverse(syms([0, 0]), M.Categorical(perfect=False), arr([[1.0], [1.0]]))", None),
    ("ans().encode_reverse(syms([]), M.Categorical(perfect=False), arr([]).reshape(0, 0))", None),
    ("ans().encode_reverse(syms([0]), M.Categorical(perfect=False), arr([]).reshape(1, 0))", None),
    ("rng().encode(syms([0, 1]), M.Categorical(perfect=False), arr([0.5, 0.5]))", None),
    ("rng().encode(syms([0, 1, 1]), M.Categorical(perfect=False), arr([[0.5, 0.5], [0.1, 0.9]]))", None),
    ("rng().encode(syms([0, 1]), M.Categorical(arr([0.5, 0.5]), perfect=False), arr([[0.5, 0.5], [0.1, 0.9]]))", None),
    ("rng().encode(syms([0, 1]), M.Categorical(perfect=False))", None),
    ("rng().encode(arr([0.0, 1.0]), M.Categorical(arr([0.5, 0.5]), perfect=False))", None),
    ("rng().encode(np.array([0, 1], dtype=np.int64), M.Categorical(arr([0.5, 0.5]), perfect=False))", None),
    ("rng().encode(syms([0, 2]), M.Categorical(arr([0.5, 0.5]), perfect=False))", None),
    ("rng().encode(syms([0, -1]), M.Categorical(arr([0.5, 0.5]), perfect=False))", None),
    ("ans().encode_reverse(-1, M.Categorical(arr([0.5, 0.5]), lazy=True))", None),
    ("ans().encode_reverse(2, M.Categorical(arr([0.5, 0.5]), lazy=True))", None),
    # --- quantized continuous models
    ("M.QuantizedGaussian(-10, 10, 0.0, 0.0)", list(range(-10, 11))),
    ("M.QuantizedGaussian(-10, 10, 0.0, -1.0)", list(range(-10, 11))),
    ("M.QuantizedGaussian(-10, 10, 0.0, -0.0)", list(range(-10, 11))),
    ("M.QuantizedGaussian(-10, 10, 0.0, nan)", list(range(-10, 11))),
    ("M.QuantizedGaussian(-10, 10, 0.0, inf)", list(range(-10, 11))),
    ("M.QuantizedGaussian(-10, 10, nan, 1.0)", list(range(-10, 11))),
    ("M.QuantizedGaussian(-10, 10, inf, 1.0)", list(range(-10, 11))),
    ("M.QuantizedGaussian(-10, 10, -inf, 1.0)", list(range(-10, 11))),
    ("M.QuantizedGaussian(-10, 10, 1e300, 1e-300)", list(range(-10, 11))),
    ("M.QuantizedGaussian(-10, 10, -1e300, 1e300)", list(range(-10, 11))),
    ("M.QuantizedGaussian(-10, 10, 0.0, 5e-324)", [0, -10, 10, 1]),
    ("M.QuantizedGaussian(-10, 10, 0.0, 1e308)", list(range(-10, 11))),
    ("M.QuantizedGaussian(10, -10, 0.0, 1.0)", [0]),
    ("M.QuantizedGaussian(3, 3, 0.0, 1.0)", [3]),
    ("M.QuantizedGaussian(10, -10)", None),
    ("M.QuantizedGaussian(3, 3)", None),
    ("M.QuantizedGaussian(3, 3, mean=1.0)", None),
    ("M.QuantizedGaussian(-2**31, 2**31 - 1, 0.0, 1.0)", [0, -2**31, 2**31 - 1]),
    ("M.QuantizedGaussian(-2**23, 2**23, 0.0, 1.0)", [0, -2**23, 2**23]),
    ("M.QuantizedGaussian(-2**23, 2**23 - 1, 0.0, 1.0)", [0, -2**23, 2**23 - 1, 1]),
    ("M.QuantizedGaussian(0, 2**24, 0.0, 1.0)", [0, 2**24]),
    ("M.QuantizedGaussian(0, 2**24 - 1, 0.0, 1.0)", [0, 2**24 - 1, 1]),
    ("M.QuantizedGaussian(-2**31 - 1, 10, 0.0, 1.0)", [0]),
    ("M.QuantizedGaussian(0, 2**31, 0.0, 1.0)", [0]),
    ("M.QuantizedGaussian(0.5, 10, 0.0, 1.0)", [1]),
    ("M.QuantizedGaussian(-10, 10, 'a', 1.0)", [0]),
    ("M.QuantizedGaussian(-10, 10, 0.0)", None),          # a family with a free `std`: valid
    ("M.QuantizedGaussian()", None),
    ("M.QuantizedLaplace(-10, 10, 0.0, 0.0)", list(range(-10, 11))),
    ("M.QuantizedLaplace(-10, 10, 0.0, -2.5)", list(range(-10, 11))),
    ("M.QuantizedLaplace(-10, 10, 0.0, nan)", list(range(-10, 11))),
    ("M.QuantizedLaplace(-10, 10, 0.0, inf)", list(range(-10, 11))),
    ("M.QuantizedLaplace(-10, 10, nan, 1.0)", list(range(-10, 11))),
    ("M.QuantizedLaplace(-10, 10, inf, 1.0)", list(range(-10, 11))),
    ("M.QuantizedLaplace(-10, 10, 1e300, 1e-300)", list(range(-10, 11))),
    ("M.QuantizedLaplace(7, 7, 0.0, 1.0)", [7]),
    ("M.QuantizedLaplace(8, 7, 0.0, 1.0)", [7]),
    ("M.QuantizedCauchy(-10, 10, 0.0, 0.0)", list(range(-10, 11))),
    ("M.QuantizedCauchy(-10, 10, 0.0, -2.5)", list(range(-10, 11))),
    ("M.QuantizedCauchy(-10, 10, 0.0, nan)", list(range(-10, 11))),
    ("M.QuantizedCauchy(-10, 10, 0.0, inf)", list(range(-10, 11))),
    ("M.QuantizedCauchy(-10, 10, nan, 1.0)", list(range(-10, 11))),
    ("M.QuantizedCauchy(-10, 10, -inf, 1.0)", list(range(-10, 11))),
    ("M.QuantizedCauchy(-10, 10, 1e300, 1e-300)", list(range(-10, 11))),
    ("M.QuantizedCauchy(7, 7, 0.0, 1.0)", [7]),
    ("M.QuantizedCauchy(-2**23, 2**23, 0.0, 1.0)", [0]),
    # families: invalid parameters / shapes / dtypes at encode time
    ("ans().encode_reverse(syms([1, 2]), M.QuantizedGaussian(-10, 10), arr([0.0, 0.0]), arr([1.0, 0.0]))", None),
    ("ans().encode_reverse(syms([1, 2]), M.QuantizedGaussian(-10, 10), arr([0.0, 0.0]), arr([1.0, -3.0], f32))", None),
    ("ans().encode_reverse(syms([1, 2]), M.QuantizedGaussian(-10, 10), arr([0.0, 0.0]), arr([nan, 1.0]))", None),
    ("ans().encode_reverse(syms([1, 2]), M.QuantizedGaussian(-10, 10, std=0.0), arr([0.0, 0.0]))", None),
    ("ans().encode_reverse(syms([1, 2]), M.QuantizedGaussian(-10, 10, mean=0.0), arr([1.0, 0.0]))", None),
    ("rng().encode(syms([1, 2]), M.QuantizedLaplace(-10, 10), arr([0.0, 0.0]), arr([1.0, 0.0]))", None),
    ("rng().encode(syms([1, 2]), M.QuantizedCauchy(-10, 10), arr([0.0, 0.0]), arr([0.0, 1.0]))", None),
    ("ans().encode_reverse(syms([1, 2, 3]), M.QuantizedGaussian(-10, 10), arr([0.0, 0.0, 0.0]), arr([1.0, 1.0]))", None),
    ("ans().encode_reverse(syms([1, 2]), M.QuantizedGaussian(-10, 10), arr([0.0, 0.0, 0.0]), arr([1.0, 1.0, 1.0]))", None),
    ("ans().encode_reverse(syms([1, 2]), M.QuantizedGaussian(-10, 10), arr([0.0, 0.0]))", None),
    ("ans().encode_reverse(syms([1, 2]), M.QuantizedGaussian(-10, 10), arr([0.0, 0.0]), arr([1.0, 1.0]), arr([1.0, 1.0]))", None),
    ("ans().encode_reverse(syms([1, 2]), M.QuantizedGaussian(-10, 10), arr([0, 0], i32), arr([1.0, 1.0]))", None),
    ("ans().encode_reverse(syms([1, 2]), M.QuantizedGaussian(-10, 10), [0.0, 0.0], [1.0, 1.0])", None),
    ("ans().encode_reverse(syms([1, 2]), M.QuantizedGaussian(-10, 10), arr([[0.0, 0.0]]), arr([[1.0, 1.0]]))", None),
    ("ans().encode_reverse(syms([1, 2]), M.QuantizedGaussian(-10, 10, 0.0, 1.0), arr([0.0, 0.0]), arr([1.0, 1.0]))", None),
    ("ans().encode_reverse(3, M.QuantizedGaussian(-10, 10), arr([0.0]), arr([1.0]))", None),
    ("ans().encode_reverse(11, M.QuantizedGaussian(-10, 10, 0.0, 1.0))", None),
    ("ans().encode_reverse(syms([1, -11]), M.QuantizedGaussian(-10, 10, 0.0, 1.0))", None),
    ("ans().encode_reverse(syms([1, 2]), M.QuantizedGaussian(-10, 10))", None),
    ("ans().decode(M.QuantizedGaussian(-10, 10))", None),
    ("ans().decode(M.QuantizedGaussian(-10, 10), arr([0.0]), arr([0.0]))", None),
    ("ans().decode(M.QuantizedGaussian(-10, 10, 0.0, 1.0), -1)", None),
    ("ans().decode(M.QuantizedGaussian(-10, 10, 0.0, 1.0), 2.5)", None),
    # --- Uniform
    ("M.Uniform(0)", [0]),
    ("M.Uniform(1)", [0]),
    ("M.Uniform(-1)", [0]),
    ("M.Uniform(-2**31)", [0]),
    ("M.Uniform(2)", [0, 1, 1, 0]),
    ("M.Uniform(2**24)", [0, 2**24 - 1, 12345]),
    ("M.Uniform(2**24 - 1)", [0, 2**24 - 2, 12345]),
    ("M.Uniform(2**24 + 1)", [0, 2**24]),
    ("M.Uniform(2**31 - 1)", [0]),
    ("M.Uniform(2**31)", [0]),
    ("M.Uniform(2.5)", [0]),
    ("M.Uniform('3')", [0]),
    ("ans().encode_reverse(syms([0, 0]), M.Uniform(), syms([5, 1]))", None),
    ("ans().encode_reverse(syms([0, 0]), M.Uniform(), syms([5, 0]))", None),
    ("ans().encode_reverse(syms([0, 0]), M.Uniform(), syms([5, -7]))", None),
    ("ans().encode_reverse(syms([0, 0]), M.Uniform(), syms([5, 2**24 + 1]))", None),
    ("ans().encode_reverse(syms([0, 0]), M.Uniform(), arr([5.0, 3.0]))", None),
    ("ans().encode_reverse(syms([0, 5]), M.Uniform(), syms([5, 5]))", None),
    ("ans().encode_reverse(syms([0, 0, 0]), M.Uniform(), syms([5, 5]))", None),
    # --- Bernoulli
    ("M.Bernoulli(1.5, perfect=False)", [0, 1]),
    ("M.Bernoulli(1.5, perfect=True)", [0, 1]),
    ("M.Bernoulli(-0.1, perfect=False)", [0, 1]),
    ("M.Bernoulli(-0.1, perfect=True)", [0, 1]),
    ("M.Bernoulli(-1e-300, perfect=False)", [0, 1]),
    ("M.Bernoulli(1.0 + 2**-52, perfect=False)", [0, 1]),
    ("M.Bernoulli(nan, perfect=False)", [0, 1]),
    ("M.Bernoulli(nan, perfect=True)", [0, 1]),
    ("M.Bernoulli(inf, perfect=False)", [0, 1]),
    ("M.Bernoulli(-inf, perfect=True)", [0, 1]),
    ("M.Bernoulli(0.0, perfect=False)", [0, 1, 1, 0]),
    ("M.Bernoulli(0.0, perfect=True)", [0, 1, 1, 0]),
    ("M.Bernoulli(1.0, perfect=False)", [0, 1, 1, 0]),
    ("M.Bernoulli(1.0, perfect=True)", [0, 1, 1, 0]),
    ("M.Bernoulli(5e-324, perfect=False)", [0, 1]),
    ("M.Bernoulli(0.3)", [0, 1]),
    ("M.Bernoulli('p', perfect=False)", [0, 1]),
    ("ans().encode_reverse(syms([0, 1]), M.Bernoulli(perfect=False), arr([0.5, 1.5]))", None),
    ("ans().encode_reverse(syms([0, 1]), M.Bernoulli(perfect=True), arr([0.5, -0.5]))", None),
    ("ans().encode_reverse(syms([0, 1]), M.Bernoulli(perfect=False), arr([0.5, nan], f32))", None),
    ("ans().encode_reverse(syms([0, 1]), M.Bernoulli(perfect=False), arr([0.5, 0.5, 0.5]))", None),
    ("ans().encode_reverse(syms([0, 2]), M.Bernoulli(perfect=False), arr([0.5, 0.5]))", None),
    # --- Binomial
    ("M.Binomial(0, 0.5)", [0]),
    ("M.Binomial(-1, 0.5)", [0]),
    ("M.Binomial(-2**31, 0.5)", [0]),
    ("M.Binomial(1, 0.5)", [0, 1, 1]),
    ("M.Binomial(10, 0.0)", list(range(0, 11))),
    ("M.Binomial(10, 1.0)", list(range(0, 11))),
    ("M.Binomial(10, 2.0)", list(range(0, 11))),
    ("M.Binomial(10, -0.5)", list(range(0, 11))),
    ("M.Binomial(10, nan)", list(range(0, 11))),
    ("M.Binomial(10, inf)", list(range(0, 11))),
    ("M.Binomial(16777215, 1.5)", [0, 16777215, 8388607]),
    ("M.Binomial(999, 1.0)", [999, 0, 500]),               # documented: p = 0.0 and p = 1.0 are allowed
    ("M.Binomial(999, 0.0)", [0, 999, 500]),
    ("M.Binomial(1000, 0.0)", [0, 1000, 500]),
    ("M.Binomial(1000, 1.0)", [1000, 0, 500]),             # did not return when this check was written
    ("M.Binomial(1000, -0.5)", [0, 500, 1000]),
    ("M.Binomial(2**24, 0.5)", [0, 2**24, 2**23]),
    ("M.Binomial(2**24 - 1, 0.5)", [0, 2**24 - 1, 2**23]),
    ("M.Binomial(2**31 - 1, 0.5)", [0]),
    ("M.Binomial(10.5, 0.5)", [0]),
    ("M.Binomial(10)", None),                              # a family with a free `p`: valid
    ("ans().encode_reverse(syms([0, 1]), M.Binomial(), syms([5, 0]), arr([0.5, 0.5]))", None),
    ("ans().encode_reverse(syms([0, 1]), M.Binomial(), syms([5, -3]), arr([0.5, 0.5]))", None),
    ("ans().encode_reverse(syms([0, 1]), M.Binomial(), syms([5, 5]), arr([0.5, 1.5]))", None),
    ("ans().encode_reverse(syms([0, 1]), M.Binomial(), syms([5, 5]), arr([0.5, nan]))", None),
    ("ans().encode_reverse(syms([0, 1]), M.Binomial(), arr([0.5, 0.5]), syms([5, 5]))", None),
    ("ans().encode_reverse(syms([0, 1]), M.Binomial(n=5), arr([0.5, 0.5, 0.5]))", None),
    ("ans().encode_reverse(syms([0, 6]), M.Binomial(n=5), arr([0.5, 0.5]))", None),
    ("ans().encode_reverse(syms([0, 1]), M.Binomial(p=0.5), syms([0, 1]))", None),
    # --- custom / scipy models
    ("M.CustomModel(lambda x: 0.5, lambda q: 0.0, 10, -10)", [0]),
    ("M.CustomModel(lambda x: 0.5, lambda q: 0.0, 3, 3)", [3]),
    # (CustomModel callbacks that are decreasing or leave [0, 1] violate a documented precondition of
    #  CustomModel itself and cannot be checked by its constructor: not exercised here)
    ("M.CustomModel(lambda x: nan, lambda q: nan, -5, 5)", list(range(-5, 6))),
    ("M.CustomModel(lambda x: 'a', lambda q: 0.0, -5, 5)", list(range(-5, 6))),
    ("M.CustomModel(lambda x: 1 / 0, lambda q: 0.0, -5, 5)", list(range(-5, 6))),
    ("M.CustomModel(lambda x: 0.0 if x < 0 else 1.0, lambda q: 1 / 0, -5, 5)", list(range(-5, 6))),
    ("M.CustomModel(lambda x: min(1.0, max(0.0, (x + 5.5) / 11)), lambda q: 11 * q - 5.5, -5, 5)", [0, -5, 5, 3]),
    ("M.CustomModel(None, None, -5, 5)", [0]),
    ("M.ScipyModel(object(), -5, 5)", [0]),
    ("M.ScipyModel(__import__('scipy.stats').stats.norm(0.0, 0.0), -5, 5)", list(range(-5, 6))),
    ("M.ScipyModel(__import__('scipy.stats').stats.norm(0.0, 2.0), -5, 5)", [0, -5, 5, 1]),
    ("M.ScipyModel(__import__('scipy.stats').stats.norm(0.0, 2.0), 5, -5)", [0]),
    ("M.Model()", [0]),
    # --- coders' own constructors (the glue, for completeness)
    ("constriction.stream.stack.AnsCoder(np.array([1, 0], dtype=np.uint32))", None),
    ("constriction.stream.stack.AnsCoder(seal=True)", None),
    ("constriction.stream.stack.AnsCoder(np.array([1.0, 2.0]))", None),
    ("constriction.stream.stack.AnsCoder(np.array([1, 2], dtype=np.uint64))", None),
    ("constriction.stream.queue.RangeDecoder(np.array([], dtype=np.uint32)).decode(M.Uniform(5), 3)", None),
    ("constriction.stream.queue.RangeDecoder(np.array([1, 2], dtype=np.int32))", None),
    ("constriction.stream.queue.RangeDecoder(np.array([0xFFFFFFFF] * 3, dtype=np.uint32)).decode(M.Categorical(arr([0.5, 0.25, 0.25]), perfect=False), 40)", None),
    ("constriction.stream.chain.ChainCoder(np.array([], dtype=np.uint32))", None),
    ("constriction.stream.chain.ChainCoder(np.array([1], dtype=np.uint32), False, True)", None),
    ("constriction.stream.chain.ChainCoder(np.array([1, 2, 0], dtype=np.uint32))", None),
    ("constriction.stream.chain.ChainCoder(np.array([1, 2, 3], dtype=np.uint32), True, True)", None),
    ("constriction.stream.chain.ChainCoder(np.array([1, 2, 3], dtype=np.uint32), False, True).decode(M.Uniform(5), 50)", None),
]


def random_ctor_cases(seed, tier):
    r = random.Random("pyfront-ctor/%d/%s" % (seed, tier))
    n = 90 if tier == "quick" else 4500
    out = []

    def fl(x):
        return repr(x) if math.isfinite(x) else ("nan" if x != x else ("inf" if x > 0 else "-inf"))
    for _ in range(n):
        k = r.random()
        if k < 0.45:
            # a random table with exactly one poisoned entry (or none: must then work)
            ncols = r.choice([1, 2, 2, 3, 5, 17, 64, 300])
            dt = r.choice(["f32", "f64"])
            vals = [r.random() if r.random() < 0.8 else 0.0 for _ in range(ncols)]
            poison = r.choice(["nan", "inf", "-inf", "neg", "negtiny", "none", "allzero", "huge"])
            i = r.randrange(ncols)
            if poison == "neg":
                vals[i] = -r.random() - 1e-9
            elif poison == "negtiny":
                vals[i] = -1e-30 if dt == "f32" else -1e-300
            elif poison in ("nan", "inf", "-inf"):
                vals[i] = float(poison)
            elif poison == "allzero":
                vals = [0.0] * ncols
            elif poison == "huge":
                vals = [(3e38 if dt == "f32" else 1.7e308)] * max(ncols, 2)
                ncols = len(vals)
            elif poison == "none":
                vals[i] = max(vals[i], 0.25)
            kw = r.choice(["perfect=False", "perfect=True", "lazy=True", "lazy=False", "lazy=True, perfect=False"])
            expr = "M.Categorical(arr([%s], %s), %s)" % (", ".join(fl(v) for v in vals), dt, kw)
            msg = sorted({0, ncols - 1, i})
            if r.random() < 0.3 and ncols >= 1:
                # same table as a one-row family
                coder = r.choice(["ans().encode_reverse", "rng().encode"])
                fkw = "perfect=True" if "perfect=True" in kw else "perfect=False"
                expr = "%s(syms([%d]), M.Categorical(%s), arr([[%s]], %s))" % (coder, i, fkw, ", ".join(fl(v) for v in vals), dt)
                msg = None
            out.append((expr, msg))
        elif k < 0.75:
            cls = r.choice(["QuantizedGaussian", "QuantizedLaplace", "QuantizedCauchy"])
            lo = r.choice([-10, 0, -1000, -2**31, 5])
            hi = lo + r.choice([-3, 0, 0, 1, 20, 20, 20, 2**24 - 1, 2**24])
            if hi > 2**31 - 1:
                hi = 2**31 - 1
            loc = r.choice([0.0, 3.7, -1e6, 1e300, float("nan"), float("inf"), float("-inf"), r.uniform(-50, 50)])
            scale = r.choice([1.0, 0.0, -0.0, -1.0, float("nan"), float("inf"), float("-inf"), 5e-324, 1e-300, 1e300,
                              r.uniform(-1, 5)])
            expr = "M.%s(%d, %d, %s, %s)" % (cls, lo, hi, fl(loc), fl(scale))
            out.append((expr, list(range(lo, hi + 1)) if 0 < hi - lo <= 64 else sorted({lo, hi, min(hi, max(lo, 0))})))
        elif k < 0.85:
            size = r.choice([0, 1, 2, 3, -1, -5, 2**24, 2**24 + 1, 2**24 - 1, r.randint(-10, 100), r.randint(2, 2**25)])
            out.append(("M.Uniform(%d)" % size, [0, max(0, min(size, 2**31) - 1)]))
        elif k < 0.93:
            p = r.choice([0.0, 1.0, -0.0, 1.5, -0.5, float("nan"), float("inf"), 1e-320, 1 - 1e-16, r.uniform(-0.5, 1.5)])
            out.append(("M.Bernoulli(%s, perfect=%s)" % (fl(p), r.choice(["True", "False"])), [0, 1, 1, 0]))
        else:
            nn = r.choice([0, 1, 2, -1, 7, 1000, 2**24, 2**24 - 1, r.randint(-5, 50)])
            # only valid p here: out-of-range and non-finite p are in the fixed list (every such
            # case costs a watchdog timeout on the tree as checked: the model hangs, see report)
            p = r.choice([0.0, 1.0, 0.5, r.random(), r.random()])
            if p in (0.0, 1.0) and nn >= 1000:
                p = 0.5           # (n >= 1000, p = 1.0) is in the fixed list: it hangs
            if 0.0 < p < 1.0 and not Gen.binomial_safe(nn, p):
                p = 0.5           # stay out of the known non-termination region (see Gen.hang_probes)
            out.append(("M.Binomial(%d, %s)" % (nn, fl(p)),
                        list(range(0, nn + 1)) if 0 < nn <= 64 else sorted({0, max(0, nn), max(0, nn) // 2})))
    return out


def split_ctor_cases():
    """every parameterised family x every way of splitting its parameters between the constructor
    and the encode/decode call x invalid values, at the constructor and at the first / middle /
    last position of a per-symbol array (see `split` in CTOR_PRELUDE for the verdict)"""
    out = []
    nan, inf = float("nan"), float("inf")

    def fl(x):
        if isinstance(x, int):
            return str(x)
        return repr(x) if math.isfinite(x) else ("nan" if x != x else ("inf" if x > 0 else "-inf"))

    def farr(vals, dt="f64"):
        return "arr([%s], %s)" % (", ".join(fl(v) for v in vals), dt)

    def iarr(vals):
        return "syms([%s])" % ", ".join(str(v) for v in vals)

    def at(valid, bad, pos):
        v = [valid] * 5
        v[pos] = bad
        return v
    POS = (("first", 0), ("middle", 2), ("last", 4))

    def add(family, how, what, make, params, lo, hi):
        tag = "%s|%s|%s" % (family, how, what)
        out.append(('split("%s", lambda: %s, (%s), %d, %d)' % (tag, make, "".join(p + ", " for p in params), lo, hi), None))
    # location / scale families
    for cls, ln, sn in (("QuantizedGaussian", "mean", "std"), ("QuantizedLaplace", "mean", "scale"),
                        ("QuantizedCauchy", "loc", "scale")):
        for which, valid_other, bads in ((sn, 1.5, (-3.0, 0.0, -0.0, nan, inf, -inf)), (ln, 2.0, (nan, inf, -inf))):
            other = ln if which == sn else sn
            for bad in bads:
                kw = lambda **d: ", ".join("%s=%s" % (k, fl(v)) for k, v in d.items())
                both = {which: bad, other: valid_other}
                add(cls, "%s@ctor+%s@ctor" % (ln, sn), "%s=%s" % (which, fl(bad)),
                    "M.%s(-10, 10, %s)" % (cls, kw(**both)), [], -10, 10)
                add(cls, "%s@ctor+%s@call" % (which, other), "%s=%s" % (which, fl(bad)),
                    "M.%s(-10, 10, %s)" % (cls, kw(**{which: bad})), [farr([valid_other] * 5)], -10, 10)
                for pname, pos in (POS if which == sn else POS[1:2]):
                    for dt in (("f64", "f32") if pname == "middle" else ("f64",)):
                        arrs = {which: farr(at(2.0 if which == sn else 1.5, bad, pos), dt), other: farr([valid_other] * 5, dt)}
                        add(cls, "%s@call+%s@call" % (ln, sn), "%s=%s@%s/%s" % (which, fl(bad), pname, dt),
                            "M.%s(-10, 10)" % cls, [arrs[ln], arrs[sn]], -10, 10)
                        add(cls, "%s@ctor+%s@call" % (other, which), "%s=%s@%s/%s" % (which, fl(bad), pname, dt),
                            "M.%s(-10, 10, %s)" % (cls, kw(**{other: valid_other})), [arrs[which]], -10, 10)
    # Bernoulli
    for perfect in ("True", "False"):
        for bad in (-0.1, 1.5, nan, inf, -inf):
            add("Bernoulli", "p@ctor", "p=%s/perfect=%s" % (fl(bad), perfect), "M.Bernoulli(%s, perfect=%s)" % (fl(bad), perfect), [], 0, 1)
            for pname, pos in POS:
                add("Bernoulli", "p@call", "p=%s@%s/perfect=%s" % (fl(bad), pname, perfect),
                    "M.Bernoulli(perfect=%s)" % perfect, [farr(at(0.3, bad, pos))], 0, 1)
            add("Bernoulli", "p@call", "p=%s@middle/f32/perfect=%s" % (fl(bad), perfect),
                "M.Bernoulli(perfect=%s)" % perfect, [farr(at(0.3, bad, 2), "f32")], 0, 1)
    # Binomial
    for which, bads in (("p", (-0.5, 2.0, nan, inf, -inf)), ("n", (-1, 0))):
        for bad in bads:
            nn, pp = (5, bad) if which == "p" else (bad, 0.3)
            what = "%s=%s" % (which, fl(bad))
            add("Binomial", "n@ctor+p@ctor", what, "M.Binomial(%s, %s)" % (fl(nn), fl(pp)), [], 0, 5)
            if which == "p":
                add("Binomial", "p@ctor+n@call", what, "M.Binomial(p=%s)" % fl(bad), [iarr([5] * 5)], 0, 5)
            else:
                add("Binomial", "n@ctor+p@call", what, "M.Binomial(n=%d)" % bad, [farr([0.3] * 5)], 0, 5)
            for pname, pos in POS:
                ns = iarr(at(5, bad, pos)) if which == "n" else iarr([5] * 5)
                ps = farr(at(0.3, bad, pos)) if which == "p" else farr([0.3] * 5)
                add("Binomial", "n@call+p@call", what + "@" + pname, "M.Binomial()", [ns, ps], 0, 5)
                if which == "p":
                    add("Binomial", "n@ctor+p@call", what + "@" + pname, "M.Binomial(n=5)", [ps], 0, 5)
                else:
                    add("Binomial", "p@ctor+n@call", what + "@" + pname, "M.Binomial(p=0.3)", [ns], 0, 5)
    # Uniform
    for bad in (0, 1, -3, 2**24 + 1):
        add("Uniform", "size@ctor", "size=%d" % bad, "M.Uniform(%d)" % bad, [], 0, 6)
        for pname, pos in POS:
            add("Uniform", "size@call", "size=%d@%s" % (bad, pname), "M.Uniform()", [iarr(at(7, bad, pos))], 0, 6)
    # Categorical: rows of a family
    good = "[0.2, 0.5, 0.3]"
    for perfect in ("True", "False"):
        for name, row in (("negative", "[0.2, -0.5, 0.3]"), ("nan", "[0.2, nan, 0.3]"), ("inf", "[0.2, inf, 0.3]"),
                          ("zeros", "[0.0, 0.0, 0.0]")):
            add("Categorical", "probabilities@ctor", "row=%s/perfect=%s" % (name, perfect),
                "M.Categorical(arr(%s), perfect=%s)" % (row, perfect), [], 0, 2)
            for pname, pos in POS:
                rows = [good] * 5
                rows[pos] = row
                for dt in (("f64", "f32") if pname == "middle" else ("f64",)):
                    add("Categorical", "probabilities@call", "row=%s@%s/%s/perfect=%s" % (name, pname, dt, perfect),
                        "M.Categorical(perfect=%s)" % perfect, ["arr([%s], %s)" % (", ".join(rows), dt)], 0, 2)
    return out


def all_ctor_cases(seed, tier):
    out, seen = [], set()
    for expr, msg in list(FIXED_CTOR_CASES) + split_ctor_cases() + random_ctor_cases(seed, tier):
        if expr not in seen:
            seen.add(expr)
            out.append((expr, msg))
    return out


def worker_ctor(seed, tier, start, only=False):
    proto = Proto()
    constriction, np = import_constriction(proto)
    M = constriction.stream.model
    env = {"constriction": constriction, "M": M}
    exec(CTOR_PRELUDE, env)
    cases = all_ctor_cases(seed, tier)
    for idx in range(start, len(cases)):
        expr, msg = cases[idx]
        proto.line("RUNNING %d" % idx)
        outcome, detail = None, ""
        t_case = time.time()
        try:
            obj = eval(expr, env)
        except Exception as e:
            outcome, detail = "raise", "%s: %s" % (type(e).__name__, one_line(e, 160))
            if type(e).__name__ == "Broken":
                outcome, detail = "broken", one_line(e, 400)
            obj = None
        except BaseException as e:
            name = type(e).__name__
            outcome = "panic" if name == "PanicException" else "raise-base"
            detail = "%s.%s: %s" % (type(e).__module__, name, one_line(e, 160))
            obj = None
        if outcome is None:
            if isinstance(obj, str):
                outcome, detail = "ok", obj
            elif msg is None or not isinstance(obj, M.Model):
                outcome, detail = "ok", "returned %s" % type(obj).__name__
            else:
                outcome, detail = roundtrip(constriction, np, obj, msg)
        if os.environ.get("PYFRONT_TIMING"):
            detail += " (%.0f ms)" % (1000 * (time.time() - t_case))
        proto.line("RESULT %d %s %s" % (idx, outcome, detail))
        if only:
            break
    proto.line("DONE")


def roundtrip(constriction, np, model, msg):
    """a returned model must (1) encode and decode `msg` with both coders and (2) tile the
    quantile space: decoding one symbol from an arbitrary ANS state and encoding it again must
    restore the state (that is C04, which holds for every model whose quantile function and
    `left_cumulative_and_probability` agree).  ('ok'|'broken'|'panic-late', detail)"""
    symbols = np.array(msg, dtype=np.int32)
    A = constriction.stream.stack.AnsCoder
    try:
        for name in ("ans", "range"):
            if name == "ans":
                enc = A()
                enc.encode_reverse(symbols, model)
                dec = A(enc.get_compressed())
            else:
                enc = constriction.stream.queue.RangeEncoder()
                enc.encode(symbols, model)
                dec = constriction.stream.queue.RangeDecoder(enc.get_compressed())
            got = [int(s) for s in np.asarray(dec.decode(model, len(msg))).tolist()]
            if got != list(msg):
                return "broken", "model returned, but %s round trip of %s decoded %s" % (name, msg, got)
        name = "tiling probe"
        r = random.Random(len(msg))
        quantiles = [0, 1, 2, 2**24 - 1, 2**24 - 2, 2**23] + [r.getrandbits(24) for _ in range(250)]
        for q in quantiles:
            words = [(r.getrandbits(8) << 24) | q, r.getrandbits(31) | 1]
            c = A(np.array(words, dtype=np.uint32))
            s = int(c.decode(model))
            c.encode_reverse(s, model)
            back = [int(w) for w in c.get_compressed().tolist()]
            if back != words:
                return "broken", ("model returned, but it does not tile the quantile space: AnsCoder(%s).decode(model) = %d, "
                                  "encode_reverse(%d) then gives %s" % (words, s, s, back))
    except Exception as e:
        return "broken", "model returned, but %s of %s raised %s: %s" % (name, msg, type(e).__name__, one_line(e, 120))
    except BaseException as e:
        kind = "panic-late" if type(e).__name__ == "PanicException" else "broken"
        return kind, "model returned, but %s of %s raised %s.%s: %s" % (
            name, msg, type(e).__module__, type(e).__name__, one_line(e, 120))
    return "ok", "model returned; %s round-trips through AnsCoder and RangeEncoder, 256 quantiles decode/re-encode exactly" % (msg,)


CTOR_TIMEOUT = float(os.environ.get("PYFRONT_CTOR_TIMEOUT", "4"))


def campaign_ctor(rep, seed, tier, only_idx=None):
    cases = all_ctor_cases(seed, tier)
    start = 0 if only_idx is None else only_idx
    restarts = 0
    results = {}
    while start < len(cases):
        args = ["_ctor", str(seed), tier, str(start)] + (["only"] if only_idx is not None else [])
        sub = Report()
        status, extra = run_worker(args, sub, "ctor", timeout=CTOR_TIMEOUT)
        for e in sub.errors:
            rep.error(e)
        running = None
        for l in extra:
            if l.startswith("RUNNING "):
                running = int(l.split()[1])
            elif l.startswith("RESULT "):
                _, idx, outcome, detail = (l.split(" ", 3) + [""])[:4]
                results[int(idx)] = (outcome, detail)
                running = None
        if status == "done" or sub.errors:
            break
        # the worker hung or died inside case `running`
        if running is None:
            rep.error("ctor worker ended early (%s) without a running case" % status)
            break
        if status == "hang":
            # confirm before reporting: the case alone, with a ten times longer limit (a slow machine
            # or a cold cache must not turn into "the constructor never finishes")
            confirmed = True
            if only_idx is None:
                sub2 = Report()
                st2, extra2 = run_worker(["_ctor", str(seed), tier, str(running), "only"], sub2, "ctor", timeout=10 * CTOR_TIMEOUT)
                res2 = [l for l in extra2 if l.startswith("RESULT ")]
                if st2 != "hang" and res2:
                    _, idx2, outcome2, detail2 = (res2[-1].split(" ", 3) + [""])[:4]
                    results[running] = (outcome2, detail2)
                    rep.count("C19.py.slow_case_confirmed_not_hanging")
                    confirmed = False
            if confirmed:
                results[running] = ("hang", "no result after %g s (and again after %g s when run alone): the constructor, or coding with the model it returned, never finishes (killed)" % (CTOR_TIMEOUT, 10 * CTOR_TIMEOUT))
        else:
            results[running] = ("abort", "interpreter died (%s)" % extra[-1])
        start = running + 1
        restarts += 1
        if only_idx is not None or restarts > 60:
            break
    for idx in sorted(results):
        expr, msg = cases[idx]
        outcome, detail = results[idx]
        rep.eval("C19")
        rep.count("C19.py.outcome.%s" % outcome)
        kind = expr.split("(")[0].replace("M.", "").replace("constriction.stream.", "")
        if expr.startswith('split("'):
            fam, how = expr[7:].split('"', 1)[0].split("|")[:2]
            kind = "split.%s.%s" % (fam, how)
        rep.count("C19.py.%s.%s" % (kind, outcome))
        replay = "[replay: tools/pyfront.py ctor %d %s %d]" % (seed, tier, idx)
        if outcome in ("abort", "broken", "hang", "raise-base") or (outcome in ("panic", "panic-late") and PANIC_IS_FAIL):
            rep.fail("C19", "python %s => %s: %s %s" % (expr, outcome, detail, replay))
        elif outcome in ("panic", "panic-late"):
            rep.count("C19.py.panic")
            rep.sample("C19.3panic", "python panic (a clean failure by C19's text; PYFRONT_PANIC=fail makes it a FAIL): %s => %s" % (expr, detail), cap=6)
        elif outcome == "raise":
            rep.sample("C19.1raise", "python %s => %s" % (expr, detail), cap=1)
        else:
            rep.sample("C19.2ok", "python %s => %s" % (expr, detail), cap=1)
    return results


# ------------------------------------------------------------------------------------------

def main(argv):
    if len(argv) < 2:
        sys.stderr.write(__doc__)
        return 2
    cmd = argv[1]
    if cmd == "_docs":
        worker_docs()
        return 0
    if cmd == "_gen":
        worker_gen(int(argv[2]), argv[3], argv[4], int(argv[5]), None if argv[6] == "-" else int(argv[6]))
        return 0
    if cmd == "_ctor":
        worker_ctor(int(argv[2]), argv[3], int(argv[4]), only=len(argv) > 5)
        return 0
    if cmd not in ("build", "oracle", "case", "ctor"):
        sys.stderr.write(__doc__)
        return 2
    ok, msg = build()
    sys.stdout.write("BUILD ok\n" if ok else "BUILD failed: %s\n" % msg)
    sys.stdout.flush()
    if cmd == "build" or not ok:
        return 0
    rep = Report()
    seed = int(argv[2]) if len(argv) > 2 else 1
    tier = argv[3] if len(argv) > 3 else "quick"
    t0 = time.time()
    if cmd == "oracle":
        # the three campaigns only drive subprocesses: run them side by side
        import threading
        parts = [("docs", Report(), lambda r: campaign_docs(r)),
                 ("diff", Report(), lambda r: campaign_diff(r, seed, tier)),
                 ("ctor", Report(), lambda r: campaign_ctor(r, seed, tier))]
        secs = {}

        def run(name, r, f):
            t = time.time()
            try:
                f(r)
            except Exception as e:
                r.error("campaign %s crashed: %s: %s" % (name, type(e).__name__, e))
            secs[name] = time.time() - t
        threads = [threading.Thread(target=run, args=part) for part in parts]
        for t in threads:
            t.start()
        for t in threads:
            t.join()
        for name, r, _ in parts:
            rep.merge(r)
            rep.count("any.py.seconds.%s" % name, int(round(secs.get(name, 0))))
        rep.count("any.py.seconds.total", int(round(time.time() - t0)))
    elif cmd == "case":
        path = campaign_diff(rep, seed, tier, only_id=int(argv[4]))
        sys.stdout.write("# case file: %s\n" % path)
    elif cmd == "ctor":
        idx = int(argv[4])
        expr, msg = all_ctor_cases(seed, tier)[idx]
        sys.stdout.write("# %s   (round-trip message if a model comes back: %s)\n" % (expr, msg))
        campaign_ctor(rep, seed, tier, only_idx=idx)
    rep.dump(sys.stdout)
    return 0


if __name__ == "__main__":
    sys.exit(main(sys.argv))
