#!/bin/sh
# Builds the framework from files on disk only (offline): Lean library, every property module,
# the per-component model drivers, and the Rust harness.  A failure of one Lean target does not
# stop the others (each ./check rebuilds what it needs and reports precisely); the script fails
# only if nothing usable could be built.
cd "$(dirname "$0")/.."
export CARGO_NET_OFFLINE=true
mkdir -p .work
rc=0
cd lean
mods=$(ls CV/Properties/*.lean | sed 's/\.lean$//; s/\//./g')
drivers=$(ls Main?*.lean | sed 's/^Main//; s/\.lean$//' | tr 'A-Z' 'a-z' | sed 's/^/cvdriver_/')
lake build CV cvdriver || rc=1
for t in $drivers; do lake build $t || { echo "setup: driver $t failed"; rc=1; }; done
lake build $mods || { echo "setup: some property modules failed; building them one by one"; for m in $mods; do lake build $m >/dev/null 2>&1 || echo "setup: FAILED $m"; done; rc=1; }
cd ../harness
cargo build --profile verif || { echo "setup: harness build failed"; rc=1; }
# the same harness in the plain release profile (checked-vs-release differential; never fatal)
cargo build --release || echo "setup: release-profile harness did not build (the release pass will be skipped)"
# compile-fail probes of the static guards (tools/guard_probes.py); warms their target dir, never fatal
cd ..
python3 tools/guard_probes.py ans range chain cat quant | tail -1 || true
cd harness
# the Python front end (pyo3 extension) used by the `py` oracle component; a failure here is not
# fatal (the checks then report the Python campaign as unavailable, never as a violation)
cd ..
if [ -x /opt/veriftools/pyvenv/bin/python ]; then
  /opt/veriftools/pyvenv/bin/python tools/pyfront.py build || true
fi
[ $rc -eq 0 ] && echo setup-ok
exit $rc
