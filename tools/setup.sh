#!/bin/sh
# Builds the framework from files on disk only (offline): Lean library + drivers, Rust harness.
set -e
cd "$(dirname "$0")/.."
export CARGO_NET_OFFLINE=true
mkdir -p .work
(cd lean && lake build)
(cd harness && cargo build --profile verif)
echo setup-ok
