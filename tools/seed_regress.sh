#!/bin/sh
# seed_regress.sh [name-prefix…]: re-run ./check against every kept seeded change (scratch worktree of /repo HEAD
# under /tmp, removed afterwards). Development aid; not a registered command.
cd /verif
for d in seeded/*/; do
  name=$(basename $d)
  if [ $# -gt 0 ]; then m=0; for a in "$@"; do case $name in $a*) m=1;; esac; done; [ $m = 1 ] || continue; fi
  prop=$(python3 -c "import json;print(json.load(open('$d/meta.json'))['property'])")
  wt=/tmp/sr-$name
  git -C /repo worktree add -q --detach $wt HEAD 2>/dev/null || { echo "$name: worktree failed"; continue; }
  if git -C $wt apply $PWD/$d/patch.diff 2>/tmp/sr-$name.err; then
    out=$(VERIF_REPO=$wt ./check $prop 2>&1)
    nv=$(echo "$out" | grep -c "^VIOLATION")
    nf=$(echo "$out" | grep "^VIOLATION" | grep -vc "no-failing-input-found")
    echo "$name $prop violations=$nv concrete=$nf"
  else
    echo "$name $prop PATCH-DOES-NOT-APPLY: $(head -1 /tmp/sr-$name.err)"
  fi
  git -C /repo worktree remove --force $wt; rm -f /tmp/sr-$name.err
done
