#!/usr/bin/env python3
"""keep_seed.py <seed-dir> <name> <caught-by…>: copies a confirmed seeded change into /verif/seeded/<name>/"""
import json, os, shutil, sys
src, name = sys.argv[1], sys.argv[2]
caught = sys.argv[3:]
dst = os.path.join("/verif/seeded", name)
os.makedirs(dst, exist_ok=True)
shutil.copy(os.path.join(src, "patch.diff"), dst)
if os.path.exists(os.path.join(dst, "demo")):
    shutil.rmtree(os.path.join(dst, "demo"))
shutil.copytree(os.path.join(src, "demo"), os.path.join(dst, "demo"), ignore=shutil.ignore_patterns("target", "Cargo.lock"))
meta = json.load(open(os.path.join(src, "meta.json")))
vlog = f"/tmp/verify-{os.path.basename(src).replace('seed-','')}.log"
meta["confirmed_by_lead"] = {
    "how": "tools/verify_seed.sh: cargo test --offline with the patch (all groups ok), demo run with patch (non-zero), demo run with patch reverted (zero)",
    "log": open(vlog).read() if os.path.exists(vlog) else "",
}
meta["caught_by"] = caught
json.dump(meta, open(os.path.join(dst, "meta.json"), "w"), indent=1)
print("kept", dst)
