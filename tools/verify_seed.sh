#!/bin/sh
# verify_seed.sh <dir>: confirms a seeded change (dir is a git worktree of /repo with the patch applied,
# containing patch.diff, demo/, meta.json): tests pass with patch, demo fails with patch, demo passes without.
d=$1; name=$(basename $d)
export CARGO_NET_OFFLINE=true CARGO_TARGET_DIR=/tmp/$name-target
cd $d || exit 2
git diff --stat -- src | tail -1
( cargo test --offline 2>&1 | grep -E "^test result|FAILED|error" ) > /tmp/$name-verify-tests.log 2>&1
echo "tests_with_patch: $(grep -c 'test result: ok' /tmp/$name-verify-tests.log) ok-groups, $(grep -cE "[1-9][0-9]* failed|FAILED" /tmp/$name-verify-tests.log) failures"
( cd demo && cargo run --offline >/tmp/$name-demo-with.log 2>&1; echo "demo_with_patch_rc=$?" )
git apply -R patch.diff || { echo "cannot revert patch"; exit 2; }
( cd demo && cargo run --offline >/tmp/$name-demo-without.log 2>&1; echo "demo_without_patch_rc=$?" )
git apply patch.diff
