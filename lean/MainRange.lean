import CV.Driver.Loop
import CV.Driver.Range

def main : IO Unit :=
  CV.Driver.runLoop (fun line => CV.Driver.Range.handle (CV.Driver.segments line))
