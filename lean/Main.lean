import CV.Driver.Loop
import CV.Driver.Ans
import CV.Driver.Range
import CV.Driver.Chain
import CV.Driver.Cat
import CV.Driver.Quant
import CV.Driver.Bits
import CV.Driver.Huff
import CV.Driver.Backend
open CV.Driver

/-- first token of a line selects the component: `ans`, `range…`, `chain…`, `cat…`,
    `quant…`, `bits…`, `huff…`, `backend…` (prefix match, so a component may use
    sub-kinds such as `range.sweep`). -/
def dispatch (line : String) : String :=
  let segs := segments line
  match segs with
  | (kind :: _) :: _ =>
    if kind.startsWith "ans" then CV.Driver.Ans.handle segs
    else if kind.startsWith "range" then CV.Driver.Range.handle segs
    else if kind.startsWith "chain" then CV.Driver.Chain.handle segs
    else if kind.startsWith "cat" then CV.Driver.Cat.handle segs
    else if kind.startsWith "quant" then CV.Driver.Quant.handle segs
    else if kind.startsWith "bits" then CV.Driver.Bits.handle segs
    else if kind.startsWith "huff" then CV.Driver.Huff.handle segs
    else if kind.startsWith "backend" then CV.Driver.Backend.handle segs
    else "bad-op"
  | _ => "bad-op"

def main : IO Unit := CV.Driver.runLoop dispatch
