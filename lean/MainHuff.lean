import CV.Driver.Loop
import CV.Driver.Huff

def main : IO Unit :=
  CV.Driver.runLoop (fun line => CV.Driver.Huff.handle (CV.Driver.segments line))
