import CV.Driver.Loop
import CV.Driver.Bits

def main : IO Unit :=
  CV.Driver.runLoop (fun line => CV.Driver.Bits.handle (CV.Driver.segments line))
