import CV.Driver.Loop
import CV.Driver.Ans

def main : IO Unit :=
  CV.Driver.runLoop (fun line => CV.Driver.Ans.handle (CV.Driver.segments line))
