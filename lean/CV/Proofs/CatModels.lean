import CV.Proofs.CatFast
/-!
# From the Impl functions to `Model`s; the generic conversions

* `okEnc` / `okDec` turn the `Except`-valued Impl functions into the `Model` record used by the
  coder theorems (a fault becomes `none` / the impossible triple `(default, 0, 0)`, which can
  never satisfy `WellFormed`, so nothing is true "by default").
* `WellFormed.congr`: `WellFormed` only looks at `enc` everywhere and `dec` below `2^P`.
* the three generic conversions applied to *any* model whose `symbol_table` is the
  specification's table (`specTable lab ext`).
-/
namespace CV.Cat
open CV

def okEnc {Sym : Type} (f : Sym → M (Option (Nat × Nat))) : Sym → Option (Nat × Nat) :=
  fun s => match f s with
    | .ok r => r
    | .error _ => none

def okDec {Sym : Type} [Inhabited Sym] (f : Nat → M (Sym × Nat × Nat)) : Nat → Sym × Nat × Nat :=
  fun q => match f q with
    | .ok r => r
    | .error _ => (default, 0, 0)

theorem WellFormed.congr {Sym : Type} {P : Nat} {m1 m2 : Model Sym}
    (henc : ∀ s, m1.enc s = m2.enc s) (hdec : ∀ q, q < 2 ^ P → m1.dec q = m2.dec q)
    (h : m2.WellFormed P) : m1.WellFormed P := by
  constructor
  · intro s c p he
    rw [henc] at he
    obtain ⟨a1, a2, a3, a4⟩ := h.1 s c p he
    refine ⟨a1, a2, a3, ?_⟩
    intro q hq1 hq2
    rw [hdec q (by omega)]
    exact a4 q hq1 hq2
  · intro q hq
    rw [hdec q hq, henc]
    exact h.2 q hq

/-- with the identity labelling the labelled model is the plain specification -/
theorem labelled_id_enc (ext : List Nat) (s : Nat) :
    (labelledModel (labelsOf id (ext.length - 1)) ext).enc s = specEnc ext s := by
  simp only [labelledModel, labelsOf, List.map_id]
  by_cases hs : s < ext.length - 1
  · rw [if_pos (by simpa using hs)]
    have : (List.range (ext.length - 1)).idxOf s = s := by
      have := (List.nodup_range (n := ext.length - 1)).idxOf_getElem s (by simpa using hs)
      simpa using this
    rw [this]
  · rw [if_neg (by simpa using hs)]
    unfold specEnc
    rw [if_neg (by omega)]

theorem labelled_id_dec {P : Nat} {ext : List Nat} (h : ValidExt P ext) {q : Nat} (hq : q < 2 ^ P) :
    (labelledModel (labelsOf id (ext.length - 1)) ext).dec q = specDec ext q := by
  have hin := specIdx_inBin h hq
  simp only [labelledModel, specDec]
  rw [labelsOf_getD id (by have := hin.1; omega)]
  rfl

theorem labelsOf_length {Sym : Type} (lab : Nat → Sym) (n : Nat) : (labelsOf lab n).length = n := by
  simp [labelsOf]

theorem specTable_labelsOf {Sym : Type} [Inhabited Sym] (lab : Nat → Sym) (ext : List Nat) :
    specTable (fun i => (labelsOf lab (ext.length - 1)).getD i default) ext = specTable lab ext := by
  unfold specTable
  apply List.map_congr_left
  intro i hi
  simp only [List.mem_range] at hi
  simp only [labelsOf_getD lab hi]

/-- **`to_generic_decoder_model`** of any model whose symbol table is the specification's:
    never faults; same bins, same labels; and its own symbol table is the same table again -/
theorem generic_decoder {Sym : Type} [DecidableEq Sym] [Inhabited Sym] {B P : Nat}
    (lab : Nat → Sym) {ext : List Nat} (h : ValidExt P ext) (hP1 : 1 ≤ P) (hP : P ≤ B) :
    ∃ md, NcDec.fromTable B P (specTable lab ext) = .ok md ∧
      (∀ q, q < 2 ^ P → md.dec B q = .ok ((labelledModel (labelsOf lab (ext.length - 1)) ext).dec q)) ∧
      md.table B = .ok (specTable lab ext) ∧ ValidCdf B P (md.cdf.map (·.1)) := by
  obtain ⟨last, hmd⟩ := NcDec.fromTable_specTable (B := B) lab h hP1 hP
  have hlen : (labelsOf lab (ext.length - 1)).length + 1 = ext.length := by
    rw [labelsOf_length]; have := h.1; omega
  refine ⟨_, hmd, fun q hq => NcDec.dec_canon h hlen hP hq, ?_, ncCdf_valid h hlen⟩
  rw [NcDec.table_canon h hlen hP, specTable_labelsOf]

/-- **`to_generic_encoder_model`** (distinct labels): the hash table answers like the
    specification, `None` outside the support -/
theorem generic_encoder {Sym : Type} [DecidableEq Sym] [Inhabited Sym]
    (lab : Nat → Sym) (ext : List Nat) (hnd : (labelsOf lab (ext.length - 1)).Nodup) (s : Sym) :
    (NcEnc.fromTable (specTable lab ext)).enc s =
      (labelledModel (labelsOf lab (ext.length - 1)) ext).enc s := by
  unfold NcEnc.enc
  rw [NcEnc.fromTable_nodup _ (by rw [specTable_keys]; exact hnd), NcEnc.get_specTable]

/-- **`to_generic_lookup_decoder_model`** / non-contiguous `to_lookup_decoder_model` -/
theorem generic_lookup {Sym : Type} [DecidableEq Sym] [Inhabited Sym] {B P : Nat}
    (lab : Nat → Sym) {ext : List Nat} (h : ValidExt P ext) (hP : P ≤ B) :
    ∃ ml, NcLookup.fromTable B P (specTable lab ext) = .ok ml ∧
      (∀ q, q < 2 ^ P → ml.dec B P q = .ok ((labelledModel (labelsOf lab (ext.length - 1)) ext).dec q)) ∧
      ml.table B = .ok (specTable lab ext) ∧ ValidCdf B P (ml.cdf.map (·.1)) ∧
      LookupOK P ext ml.tbl := by
  obtain ⟨tbl, last, hml, hok⟩ := NcLookup.fromTable_specTable (B := B) lab h hP
  have hlen : (labelsOf lab (ext.length - 1)).length + 1 = ext.length := by
    rw [labelsOf_length]; have := h.1; omega
  refine ⟨_, hml, fun q hq => NcLookup.dec_canon h hlen hP hok hq, ?_, ncCdf_valid h hlen, hok⟩
  rw [NcLookup.table_canon h hlen hP, specTable_labelsOf]

/-- everything the contiguous lookup constructor establishes -/
theorem Lookup.fromFixed_full {B P : Nat} {probs : List Nat} {infer : Bool} {m : Lookup}
    (hP1 : 1 ≤ P) (hP : P ≤ B) (hprobs : ∀ p ∈ probs, p < 2 ^ B)
    (h : Lookup.fromNonzeroFixedPoint B P probs infer = some m) :
    ∃ qs, ValidProbs P qs ∧ qs = (if infer then probs ++ [2 ^ P - probs.sum] else probs) ∧
      m.cdf = wrapCdf B P (extOf qs) ∧ ValidCdf B P m.cdf ∧ LookupOK P (unwrap P m.cdf) m.tbl := by
  obtain ⟨qs, h1, h2, h3, h4⟩ := Lookup.fromNonzeroFixedPoint_some hP1 hP hprobs h
  have hv := extOf_valid h1
  have hne : extOf qs ≠ [] := by intro hn; have := hv.1; rw [hn] at this; simp at this
  refine ⟨qs, h1, h2, h3, by rw [h3]; exact wrapCdf_valid hv, ?_⟩
  rw [h3, unwrap_wrapCdf hne hv.2.2.1]
  exact h4

/-- what `UniformModel::new` returned, if it returned -/
theorem Uniform.new_inv {B P range : Nat} {u : Uniform} (hP1 : 1 ≤ P) (hP : P ≤ B) (hPU : P ≤ U)
    (hr : range < 2 ^ U) (h : Uniform.new B P range = .ok u) :
    2 ≤ range ∧ range ≤ 2 ^ P ∧ u = { ppb := 2 ^ P / range, last := range - 1 } := by
  by_cases hv : 2 ≤ range ∧ range ≤ 2 ^ P
  · rw [Uniform.new_ok hP1 hP hPU hr hv.1 hv.2] at h
    simp only [Except.ok.injEq] at h
    exact ⟨hv.1, hv.2, h.symm⟩
  · obtain ⟨site, hs⟩ := Uniform.new_panics hP1 hP hv
    rw [hs] at h; simp at h

end CV.Cat
