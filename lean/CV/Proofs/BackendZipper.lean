import CV.Model.Backend
/-!
# Spec of a cursor: a list zipper, and the simulation lemma

`Z.stk` = the words `Stack` reads will return (next one first), `Z.ahd` = the words `Queue`
reads will return / the cells writes will overwrite (next one first).  A `Cursor` whose
invariant `pos ≤ len` holds *is* `Cursor.ofZ z` for exactly one `z`; a `Reverse<Cursor>` is
the same zipper stored mirrored (`RevCursor.ofZ`).  `step_ofZ`: every trait method of both
implementations computes `Z.step`.
-/
namespace CV.Backend

structure Z where
  stk : List Nat
  ahd : List Nat
  deriving Repr, DecidableEq

namespace Z

def swap (z : Z) : Z := ⟨z.ahd, z.stk⟩

/-- default `extend_from_iter` on the spec -/
def extend : Z → List Nat → Out × Z
  | z, [] => (.ok, z)
  | z, w :: ws =>
    match z.ahd with
    | [] => (.extFull ws.length, z)
    | _ :: ah => extend ⟨w :: z.stk, ah⟩ ws

/-- the spec machine on the direction-independent alphabet -/
def step (writable : Bool) (z : Z) : Op → Out × Z
  | .readS =>
    match z.stk with
    | [] => (.word none, z)
    | a :: st => (.word (some a), ⟨st, a :: z.ahd⟩)
  | .readQ =>
    match z.ahd with
    | [] => (.word none, z)
    | a :: ah => (.word (some a), ⟨a :: z.stk, ah⟩)
  | .write w =>
    if writable then
      match z.ahd with
      | [] => (.full, z)
      | _ :: ah => (.ok, ⟨w :: z.stk, ah⟩)
    else (.unsupported, z)
  | .extend ws => if writable then extend z ws else (.unsupported, z)
  | .remS => (.num z.stk.length, z)
  | .remQ => (.num z.ahd.length, z)
  | .exhS => (.bools (z.stk.length == 0) (z.stk.length == 0), z)
  | .exhQ => (.bools (z.ahd.length == 0) (z.ahd.length == 0), z)
  | .spaceLeft => if writable then (.num z.ahd.length, z) else (.unsupported, z)
  | .full => if writable then (.bools (z.ahd.length == 0) true, z) else (.unsupported, z)
  | .intoReversed => if writable then (.ok, z) else (.unsupported, z)
  | .roundtrip => (.ok, z)
  | _ => (.unsupported, z)

def run (writable : Bool) : Z → List Op → List Out × Z
  | z, [] => ([], z)
  | z, op :: ops => ((step writable z op).1 :: (run writable (step writable z op).2 ops).1,
                     (run writable (step writable z op).2 ops).2)

end Z

/-- ops whose result does not reveal the storage direction
    (`pos`, `seek`, `raw` do, by design; `bm_set` is not a trait method) -/
def Op.Sym : Op → Bool
  | .pos | .seek _ | .raw | .bmSet _ => false
  | _ => true

def Cursor.ofZ (z : Z) : Cursor := ⟨z.stk.reverse ++ z.ahd, z.stk.length⟩
def RevCursor.ofZ (z : Z) : RevCursor := ⟨Cursor.ofZ z.swap⟩

/-- `rev = false`: a `Cursor`; `rev = true`: a `Reverse<Cursor>` -/
def Cur.ofZ (rev : Bool) (z : Z) : Cur :=
  if rev then .rev (RevCursor.ofZ z) else .fwd (Cursor.ofZ z)

/-- direction after the op (`into_reversed` flips it) -/
def flipOn (writable : Bool) (op : Op) (rev : Bool) : Bool :=
  match op with
  | .intoReversed => if writable then !rev else rev
  | _ => rev

theorem Cursor.ofZ_inv (z : Z) : (Cursor.ofZ z).Inv := by
  simp [Cursor.ofZ, Cursor.Inv]

theorem Cur.ofZ_inv (rev : Bool) (z : Z) : (Cur.ofZ rev z).Inv := by
  cases rev <;> simp [Cur.ofZ, Cur.Inv, Cur.inner, RevCursor.ofZ, Cursor.ofZ_inv]

/-- the zipper of a cursor -/
def Cursor.toZ (c : Cursor) : Z := ⟨(c.buf.take c.pos).reverse, c.buf.drop c.pos⟩

theorem Cursor.ofZ_toZ (c : Cursor) (h : c.Inv) : Cursor.ofZ c.toZ = c := by
  cases c with
  | mk buf pos =>
    simp only [Cursor.Inv] at h
    simp [Cursor.ofZ, Cursor.toZ, List.take_append_drop, Nat.min_eq_left h]

theorem Cur.exists_ofZ (s : Cur) (h : s.Inv) : ∃ rev z, s = Cur.ofZ rev z := by
  cases s with
  | fwd c => exact ⟨false, c.toZ, by simp [Cur.ofZ, Cursor.ofZ_toZ c h]⟩
  | rev r =>
    refine ⟨true, r.inner.toZ.swap, ?_⟩
    cases r with
    | mk c =>
      have : Cursor.ofZ c.toZ = c := Cursor.ofZ_toZ c h
      simp [Cur.ofZ, RevCursor.ofZ, Z.swap, this]

/-! ### single methods on `ofZ` -/

theorem Cursor.readStack_ofZ (z : Z) :
    (Cursor.ofZ z).readStack =
      match z.stk with
      | [] => .ok (none, Cursor.ofZ z)
      | a :: st => .ok (some a, Cursor.ofZ ⟨st, a :: z.ahd⟩) := by
  cases z with
  | mk stk ahd =>
    cases stk with
    | nil => simp [Cursor.ofZ, Cursor.readStack]
    | cons a st =>
      simp [Cursor.ofZ, Cursor.readStack]

theorem Cursor.readQueue_ofZ (z : Z) :
    (Cursor.ofZ z).readQueue =
      match z.ahd with
      | [] => (none, Cursor.ofZ z)
      | a :: ah => (some a, Cursor.ofZ ⟨a :: z.stk, ah⟩) := by
  cases z with
  | mk stk ahd =>
    cases ahd with
    | nil => simp [Cursor.ofZ, Cursor.readQueue]
    | cons a ah =>
      simp [Cursor.ofZ, Cursor.readQueue]

theorem Cursor.write_ofZ (z : Z) (w : Nat) :
    (Cursor.ofZ z).write w =
      match z.ahd with
      | [] => .error .outOfSpace
      | _ :: ah => .ok (Cursor.ofZ ⟨w :: z.stk, ah⟩) := by
  cases z with
  | mk stk ahd =>
    cases ahd with
    | nil => simp [Cursor.ofZ, Cursor.write]
    | cons a ah =>
      simp [Cursor.ofZ, Cursor.write, List.set_append_right]

theorem RevCursor.write_ofZ (z : Z) (w : Nat) :
    (RevCursor.ofZ z).write w =
      match z.ahd with
      | [] => .error .outOfSpace
      | _ :: ah => .ok (RevCursor.ofZ ⟨w :: z.stk, ah⟩) := by
  cases z with
  | mk stk ahd =>
    cases ahd with
    | nil => simp [RevCursor.ofZ, Cursor.ofZ, Z.swap, RevCursor.write]
    | cons a ah =>
      simp [RevCursor.ofZ, Cursor.ofZ, Z.swap, RevCursor.write, List.set_append_right]

theorem Cursor.intoReversed_ofZ (z : Z) :
    (Cursor.ofZ z).intoReversed = .ok (RevCursor.ofZ z) := by
  cases z with
  | mk stk ahd =>
    simp [Cursor.intoReversed, Cursor.ofZ, RevCursor.ofZ, Z.swap, csub]

theorem RevCursor.intoReversed_ofZ (z : Z) :
    (RevCursor.ofZ z).intoReversed = .ok (Cursor.ofZ z) := by
  cases z with
  | mk stk ahd =>
    simp [RevCursor.intoReversed, Cursor.intoReversed, Cursor.ofZ, RevCursor.ofZ, Z.swap, csub]

theorem extendLoop_fwd_ofZ (ws : List Nat) : ∀ z : Z,
    extendLoop Cursor.write (Cursor.ofZ z) ws =
      .ok ((Z.extend z ws).1, Cursor.ofZ (Z.extend z ws).2) := by
  induction ws with
  | nil => intro z; simp [extendLoop, Z.extend]
  | cons w ws ih =>
    intro z
    cases z with
    | mk stk ahd =>
      cases ahd with
      | nil => simp [extendLoop, Z.extend, Cursor.write_ofZ]
      | cons a ah => simp [extendLoop, Z.extend, Cursor.write_ofZ, ih]

theorem extendLoop_rev_ofZ (ws : List Nat) : ∀ z : Z,
    extendLoop RevCursor.write (RevCursor.ofZ z) ws =
      .ok ((Z.extend z ws).1, RevCursor.ofZ (Z.extend z ws).2) := by
  induction ws with
  | nil => intro z; simp [extendLoop, Z.extend]
  | cons w ws ih =>
    intro z
    cases z with
    | mk stk ahd =>
      cases ahd with
      | nil => simp [extendLoop, Z.extend, RevCursor.write_ofZ]
      | cons a ah => simp [extendLoop, Z.extend, RevCursor.write_ofZ, ih]

/-! ### the simulation -/

theorem RevCursor.readStack_ofZ (z : Z) :
    (RevCursor.ofZ z).readStack =
      match z.stk with
      | [] => (none, RevCursor.ofZ z)
      | a :: st => (some a, RevCursor.ofZ ⟨st, a :: z.ahd⟩) := by
  cases z with
  | mk stk ahd =>
    cases stk with
    | nil => simp [RevCursor.readStack, RevCursor.ofZ, Cursor.readQueue_ofZ, Z.swap]
    | cons a st => simp [RevCursor.readStack, RevCursor.ofZ, Cursor.readQueue_ofZ, Z.swap]

theorem RevCursor.readQueue_ofZ (z : Z) :
    (RevCursor.ofZ z).readQueue =
      match z.ahd with
      | [] => .ok (none, RevCursor.ofZ z)
      | a :: ah => .ok (some a, RevCursor.ofZ ⟨a :: z.stk, ah⟩) := by
  cases z with
  | mk stk ahd =>
    cases ahd with
    | nil => simp [RevCursor.readQueue, RevCursor.ofZ, Cursor.readStack_ofZ, Z.swap]
    | cons a ah => simp [RevCursor.readQueue, RevCursor.ofZ, Cursor.readStack_ofZ, Z.swap]

/-- **Simulation, `Cursor`.**  Every direction-independent method of a `Cursor` whose
    invariant holds computes the zipper step and never faults. -/
theorem Cur.step_ofZ_fwd (wr : Bool) (z : Z) (op : Op) (hs : op.Sym = true) :
    Cur.step wr (.fwd (Cursor.ofZ z)) op =
      .ok ((Z.step wr z op).1, Cur.ofZ (flipOn wr op false) (Z.step wr z op).2) := by
  cases z with
  | mk stk ahd =>
  cases op with
  | readS =>
    cases stk <;> simp [Cur.step, Cursor.readStack_ofZ, Z.step, Cur.ofZ, flipOn]
  | readQ =>
    cases ahd <;> simp [Cur.step, Cursor.readQueue_ofZ, Z.step, Cur.ofZ, flipOn]
  | write w =>
    cases wr <;> cases ahd <;> simp [Cur.step, Cursor.write_ofZ, Z.step, Cur.ofZ, flipOn]
  | extend ws =>
    cases wr <;> simp [Cur.step, extendLoop_fwd_ofZ, Z.step, Cur.ofZ, flipOn]
  | remS => simp [Cur.step, Z.step, Cur.ofZ, flipOn, Cursor.remainingStack, Cursor.ofZ]
  | remQ => simp [Cur.step, Z.step, Cur.ofZ, flipOn, Cursor.remainingQueue, Cursor.ofZ, csub]
  | exhS =>
    simp [Cur.step, Z.step, Cur.ofZ, flipOn, Cursor.isExhaustedStack, Cursor.remainingStack,
      Cursor.ofZ]
  | exhQ =>
    simp [Cur.step, Z.step, Cur.ofZ, flipOn, Cursor.isExhaustedQueue, Cursor.remainingQueue,
      Cursor.ofZ, csub]
  | spaceLeft =>
    cases wr <;> simp [Cur.step, Z.step, Cur.ofZ, flipOn, Cursor.spaceLeft, Cursor.ofZ, csub]
  | full =>
    cases wr <;>
      simp [Cur.step, Z.step, Cur.ofZ, flipOn, Cursor.isFull, Cursor.spaceLeft, Cursor.maybeFull,
        Cursor.ofZ, csub]
  | intoReversed =>
    cases wr <;> simp [Cur.step, Z.step, Cur.ofZ, flipOn, Cursor.intoReversed_ofZ]
  | roundtrip =>
    have h : ¬ (stk.length + ahd.length < stk.length) := by omega
    simp [Cur.step, Z.step, Cur.ofZ, flipOn, Cursor.newAtPos, Cursor.ofZ, h]
  | pos => simp [Op.Sym] at hs
  | seek p => simp [Op.Sym] at hs
  | raw => simp [Op.Sym] at hs
  | bmSet ws => simp [Op.Sym] at hs

/-- **Simulation, `Reverse<Cursor>`** (with the repaired `space_left`). -/
theorem Cur.step_ofZ_rev (wr : Bool) (z : Z) (op : Op) (hs : op.Sym = true) :
    Cur.step wr (.rev (RevCursor.ofZ z)) op =
      .ok ((Z.step wr z op).1, Cur.ofZ (flipOn wr op true) (Z.step wr z op).2) := by
  cases z with
  | mk stk ahd =>
  cases op with
  | readS =>
    cases stk <;> simp [Cur.step, RevCursor.readStack_ofZ, Z.step, Cur.ofZ, flipOn]
  | readQ =>
    cases ahd <;> simp [Cur.step, RevCursor.readQueue_ofZ, Z.step, Cur.ofZ, flipOn]
  | write w =>
    cases wr <;> cases ahd <;> simp [Cur.step, RevCursor.write_ofZ, Z.step, Cur.ofZ, flipOn]
  | extend ws =>
    cases wr <;> simp [Cur.step, extendLoop_rev_ofZ, Z.step, Cur.ofZ, flipOn]
  | remS =>
    simp [Cur.step, Z.step, Cur.ofZ, flipOn, RevCursor.remainingStack, Cursor.remainingQueue,
      RevCursor.ofZ, Cursor.ofZ, Z.swap, csub]
  | remQ =>
    simp [Cur.step, Z.step, Cur.ofZ, flipOn, RevCursor.remainingQueue, Cursor.remainingStack,
      RevCursor.ofZ, Cursor.ofZ, Z.swap]
  | exhS =>
    simp [Cur.step, Z.step, Cur.ofZ, flipOn, RevCursor.isExhaustedStack, Cursor.isExhaustedQueue,
      Cursor.remainingQueue, RevCursor.ofZ, Cursor.ofZ, Z.swap, csub]
  | exhQ =>
    simp [Cur.step, Z.step, Cur.ofZ, flipOn, RevCursor.isExhaustedQueue, Cursor.isExhaustedStack,
      Cursor.remainingStack, RevCursor.ofZ, Cursor.ofZ, Z.swap]
  | spaceLeft =>
    cases wr <;>
      simp [Cur.step, Z.step, Cur.ofZ, flipOn, RevCursor.spaceLeft, RevCursor.ofZ, Cursor.ofZ, Z.swap]
  | full =>
    cases wr <;>
      simp [Cur.step, Z.step, Cur.ofZ, flipOn, RevCursor.isFull, RevCursor.spaceLeft,
        RevCursor.maybeFull, RevCursor.ofZ, Cursor.ofZ, Z.swap]
  | intoReversed =>
    cases wr <;> simp [Cur.step, Z.step, Cur.ofZ, flipOn, RevCursor.intoReversed_ofZ]
  | roundtrip =>
    have h : ¬ (ahd.length + stk.length < ahd.length) := by omega
    simp [Cur.step, Z.step, Cur.ofZ, flipOn, Cursor.newAtPos, RevCursor.ofZ, Cursor.ofZ, Z.swap, h]
  | pos => simp [Op.Sym] at hs
  | seek p => simp [Op.Sym] at hs
  | raw => simp [Op.Sym] at hs
  | bmSet ws => simp [Op.Sym] at hs

theorem Cur.step_ofZ (wr rev : Bool) (z : Z) (op : Op) (hs : op.Sym = true) :
    Cur.step wr (Cur.ofZ rev z) op =
      .ok ((Z.step wr z op).1, Cur.ofZ (flipOn wr op rev) (Z.step wr z op).2) := by
  cases rev
  · simpa [Cur.ofZ] using Cur.step_ofZ_fwd wr z op hs
  · simpa [Cur.ofZ] using Cur.step_ofZ_rev wr z op hs

/-- direction after a whole history -/
def flipAll (wr : Bool) : List Op → Bool → Bool
  | [], rev => rev
  | op :: ops, rev => flipAll wr ops (flipOn wr op rev)

/-- **Simulation for whole histories**: outputs are those of the spec, no fault occurs, and
    the final state is again the image of the spec's final state. -/
theorem Cur.run_ofZ (wr : Bool) (ops : List Op) : ∀ (rev : Bool) (z : Z),
    (∀ op ∈ ops, op.Sym = true) →
    Cur.run wr (Cur.ofZ rev z) ops =
      ((Z.run wr z ops).1, .ok (Cur.ofZ (flipAll wr ops rev) (Z.run wr z ops).2)) := by
  induction ops with
  | nil => intro rev z _; simp [Cur.run, Z.run, flipAll]
  | cons op ops ih =>
    intro rev z h
    have h1 : op.Sym = true := h op (by simp)
    have h2 : ∀ o ∈ ops, o.Sym = true := fun o ho => h o (by simp [ho])
    simp [Cur.run, Z.run, flipAll, Cur.step_ofZ wr rev z op h1, ih _ _ h2]

end CV.Backend
