import CV.Proofs.HuffOptMain
/-!
# Tie-breaking: codeword lengths are monotone in the key `(weight, index)`

For weights whose sums are exact (`exactOps`; checked integer weights whose total fits): if
`(w_i, i) ≤ (w_j, j)` lexicographically then symbol `j`'s codeword is not longer than symbol
`i`'s.  In particular, among symbols of equal weight the codeword length is non-increasing in
the index, and a lighter symbol never gets a shorter codeword than a heavier one.

Proof: induction over the merge loop of two invariants, `G` (depth is antitone in the key over
the current heap) and `C` (everything not heavier than the next merged node sits at most one
level above the two minima).
-/
namespace CV.Huff

theorem keyLe_total (p q : Nat × Nat) : keyLe p q ∨ keyLe q p := by unfold keyLe; omega
theorem keyLe_refl (p : Nat × Nat) : keyLe p p := by unfold keyLe; omega
theorem keyLe_antisymm {p q : Nat × Nat} (h1 : keyLe p q) (h2 : keyLe q p) : p = q := by
  unfold keyLe at h1 h2
  exact Prod.ext (by omega) (by omega)

namespace Tree

theorem code_split_other {z a b x : Nat} (hz : x ≠ z) (ha : x ≠ a) (hb : x ≠ b) :
    ∀ (t : Tree), (split z a b t).code x = t.code x
  | leaf y => by
    simp only [split]
    split
    · next e => subst e; simp [code, Ne.symm ha, Ne.symm hb, Ne.symm hz]
    · rfl
  | node _ l r => by
    simp [split, code, code_split_other hz ha hb l, code_split_other hz ha hb r]

theorem code_split_a {z a b : Nat} : ∀ (t : Tree), a ∉ t.leaves →
    (split z a b t).code a = (t.code z).map (· ++ [false])
  | leaf y, h => by
    simp only [leaves, List.mem_singleton] at h
    simp only [split]
    split
    · next e => subst e; simp [code]
    · next e => simp [code, e, Ne.symm h]
  | node _ l r, h => by
    simp only [leaves, List.mem_append, not_or] at h
    simp only [split, code, code_split_a l h.1, code_split_a r h.2]
    cases code z l <;> cases code z r <;> simp

theorem code_split_b {z a b : Nat} (hab : a ≠ b) : ∀ (t : Tree), b ∉ t.leaves →
    (split z a b t).code b = (t.code z).map (· ++ [true])
  | leaf y, h => by
    simp only [leaves, List.mem_singleton] at h
    simp only [split]
    split
    · next e => subst e; simp [code, hab]
    · next e => simp [code, e, Ne.symm h]
  | node _ l r, h => by
    simp only [leaves, List.mem_append, not_or] at h
    simp only [split, code, code_split_b hab l h.1, code_split_b hab r h.2]
    cases code z l <;> cases code z r <;> simp

theorem depth_split_other {z a b x : Nat} (hz : x ≠ z) (ha : x ≠ a) (hb : x ≠ b) (t : Tree) :
    (split z a b t).depth x = t.depth x := by
  simp [depth, code_split_other hz ha hb t]

theorem depth_split_a {z a b : Nat} {t : Tree} (ha : a ∉ t.leaves) (hz : z ∈ t.leaves) :
    (split z a b t).depth a = t.depth z + 1 := by
  obtain ⟨p, hp⟩ := Option.isSome_iff_exists.mp ((code_isSome_iff z t).mpr hz)
  simp [depth, code_split_a t ha, hp]

theorem depth_split_b {z a b : Nat} {t : Tree} (hab : a ≠ b) (hb : b ∉ t.leaves)
    (hz : z ∈ t.leaves) : (split z a b t).depth b = t.depth z + 1 := by
  obtain ⟨p, hp⟩ := Option.isSome_iff_exists.mp ((code_isSome_iff z t).mpr hz)
  simp [depth, code_split_b hab t hb, hp]

end Tree

/-- depth is antitone in the key over the heap -/
def TieG (heap : List (Nat × Nat)) (T : Tree) : Prop :=
  ∀ p ∈ heap, ∀ q ∈ heap, keyLe p q → T.depth q.2 ≤ T.depth p.2

/-- whatever is not heavier than the next merged node sits at most one level above the minima -/
def TieC (heap : List (Nat × Nat)) (T : Tree) : Prop :=
  ∀ a h1 b h2, popMin exactOps heap = some (a, h1) → popMin exactOps h1 = some (b, h2) →
    ∀ z ∈ heap, z.1 ≤ a.1 + b.1 → T.depth a.2 ≤ T.depth z.2 + 1

theorem ties_inv : ∀ (fuel : Nat) (heap : List (Nat × Nat)) (next : Nat),
    HeapOK heap next → fuel = heap.length →
    ∀ T, treeLoop exactOps fuel heap next = some T → TieG heap T ∧ TieC heap T
  | 0, heap, _, _, _, T, hT => by simp [treeLoop] at hT
  | fuel + 1, heap, next, hok, hf, T, hT => by
    simp only [treeLoop] at hT
    cases e1 : popMin exactOps heap with
    | none => simp [e1] at hT
    | some ah =>
    obtain ⟨a, h1⟩ := ah
    simp only [e1] at hT
    cases e2 : popMin exactOps h1 with
    | none =>
      simp only [e2] at hT
      injection hT with hT; subst hT
      have h1nil := (popMin_eq_none exactOps).mp e2
      subst h1nil
      have hheap : heap = [a] := List.perm_singleton.mp (popMin_perm e1)
      subst hheap
      constructor
      · intro p hp q hq _
        simp at hp hq; subst hp; subst hq; exact Nat.le_refl _
      · intro a0 h10 b0 h20 e10 e20
        rw [e1] at e10; injection e10 with e10; injection e10 with _ e10; subst e10
        rw [e2] at e20; cases e20
    | some bh =>
      obtain ⟨b, h2⟩ := bh
      have hadd : addPush exactOps a.1 b.1 h2 = .ok (a.1 + b.1) := by simp [addPush, exactOps]
      simp only [e2, hadd, Option.map_eq_some_iff] at hT
      obtain ⟨T', hT', rfl⟩ := hT
      obtain ⟨ha, hb, hab, ha2, hb2, hl, hok'⟩ := pop2_facts hok e1 e2 (a.1 + b.1)
      have hp := pop2_perm e1 e2
      obtain ⟨hleaves, _⟩ :=
        treeLoop_spec fuel ((a.1 + b.1, next) :: h2) (next + 1) hok' (by simp; omega) T' hT'
      obtain ⟨hG, hC⟩ := ties_inv fuel ((a.1 + b.1, next) :: h2) (next + 1) hok'
        (by simp; omega) T' hT'
      have hleaves' : T'.leaves.Perm (next :: h2.map (·.2)) := by simpa using hleaves
      have hzmem : next ∈ T'.leaves := hleaves'.mem_iff.mpr (by simp)
      have haT : a.2 ∉ T'.leaves := by
        intro h
        rcases List.mem_cons.mp (hleaves'.mem_iff.mp h) with h | h
        · omega
        · exact ha2 h
      have hbT : b.2 ∉ T'.leaves := by
        intro h
        rcases List.mem_cons.mp (hleaves'.mem_iff.mp h) with h | h
        · omega
        · exact hb2 h
      -- depths after the split
      have dA : (Tree.split next a.2 b.2 T').depth a.2 = T'.depth next + 1 :=
        Tree.depth_split_a haT hzmem
      have dB : (Tree.split next a.2 b.2 T').depth b.2 = T'.depth next + 1 :=
        Tree.depth_split_b hab hbT hzmem
      have dX : ∀ x ∈ h2, (Tree.split next a.2 b.2 T').depth x.2 = T'.depth x.2 := by
        intro x hx
        have hxi : x.2 ∈ h2.map (·.2) := List.mem_map.mpr ⟨x, hx, rfl⟩
        have hxn : x.2 < next := hok.2 x (hp.mem_iff.mpr (by simp [hx]))
        exact Tree.depth_split_other (by omega) (fun e : x.2 = a.2 => ha2 (by rw [← e]; exact hxi))
          (fun e : x.2 = b.2 => hb2 (by rw [← e]; exact hxi)) T'
      -- minimality of a and b
      have hb1 : b ∈ h1 := (popMin_perm e2).mem_iff.mpr (by simp)
      have hab_le : keyLe a b := popMin_min natOrder_exact e1 b hb1
      have hbx : ∀ x ∈ h2, keyLe b x := popMin_min natOrder_exact e2
      have hax : ∀ x ∈ h2, keyLe a x := fun x hx =>
        popMin_min natOrder_exact e1 x ((popMin_perm e2).mem_iff.mpr (by simp [hx]))
      -- the merged node is above everything in `h2` that is not heavier
      have key : ∀ x ∈ h2, T'.depth x.2 ≤ T'.depth next + 1 := by
        intro x hx
        have hxc : x ∈ (a.1 + b.1, next) :: h2 := by simp [hx]
        have hcc : ((a.1 + b.1, next) : Nat × Nat) ∈ (a.1 + b.1, next) :: h2 := by simp
        rcases keyLe_total (a.1 + b.1, next) x with hcx | hxc'
        · have := hG _ hcc _ hxc hcx
          simp only at this; omega
        · -- x is lighter than the merged node: use the next level's minima
          obtain ⟨a', h1', e1'⟩ := popMin_isSome (ops := exactOps)
            (h := (a.1 + b.1, next) :: h2) (by simp)
          have hl1' := popMin_length e1'
          have hne1' : h1' ≠ [] := by
            intro e; subst e; simp at hl1'
            cases h2 with
            | nil => simp at hx
            | cons _ _ => simp at hl1'
          obtain ⟨b', h2', e2'⟩ := popMin_isSome (ops := exactOps) hne1'
          have hp' := pop2_perm e1' e2'
          have ha'mem : a' ∈ (a.1 + b.1, next) :: h2 := hp'.mem_iff.mpr (by simp)
          have hb'mem : b' ∈ (a.1 + b.1, next) :: h2 := hp'.mem_iff.mpr (by simp)
          -- the merged weight is at most the sum of the next two minima
          have hsum : a.1 + b.1 ≤ a'.1 + b'.1 := by
            have hwa : a.1 ≤ b.1 := keyLe_weight hab_le
            rcases List.mem_cons.mp ha'mem with h | h
            · rw [h]; simp
            · rcases List.mem_cons.mp hb'mem with h' | h'
              · rw [h']; simp
              · have := keyLe_weight (hbx a' h)
                have := keyLe_weight (hbx b' h')
                omega
          have hCc := hC a' h1' b' h2' e1' e2' _ hcc (by simpa using hsum)
          have ha'x : keyLe a' x := by
            rcases List.mem_cons.mp (hp'.mem_iff.mp hxc) with h | h
            · rw [h]; exact keyLe_refl _
            · exact popMin_min natOrder_exact e1' x
                ((popMin_perm e2').mem_iff.mpr h)
          have := hG a' ha'mem x hxc ha'x
          simp only at hCc
          omega
      constructor
      · -- TieG
        intro p hpm q hqm hpq
        have hp1 := hp.mem_iff.mp hpm
        have hq1 := hp.mem_iff.mp hqm
        simp only [List.mem_cons] at hp1 hq1
        have depP : (p = a ∨ p = b) → (Tree.split next a.2 b.2 T').depth p.2 = T'.depth next + 1 := by
          rintro (rfl | rfl)
          · exact dA
          · exact dB
        rcases hp1 with rfl | rfl | hp2
        · rcases hq1 with rfl | rfl | hq2
          · exact Nat.le_refl _
          · rw [dA, dB]; exact Nat.le_refl _
          · rw [dA, dX q hq2]; exact key q hq2
        · rcases hq1 with rfl | rfl | hq2
          · rw [dA, dB]; exact Nat.le_refl _
          · exact Nat.le_refl _
          · rw [dB, dX q hq2]; exact key q hq2
        · have hpi : p.2 ∈ h2.map (·.2) := List.mem_map.mpr ⟨p, hp2, rfl⟩
          rcases hq1 with rfl | rfl | hq2
          · have := keyLe_antisymm hpq (hax p hp2)
            subst this; exact absurd hpi ha2
          · have := keyLe_antisymm hpq (hbx p hp2)
            subst this; exact absurd hpi hb2
          · rw [dX p hp2, dX q hq2]
            exact hG p (by simp [hp2]) q (by simp [hq2]) hpq
      · -- TieC
        intro a0 h10 b0 h20 e10 e20 z hzm hzw
        rw [e1] at e10; injection e10 with e10; injection e10 with ea eh; subst ea; subst eh
        rw [e2] at e20; injection e20 with e20; injection e20 with eb eh; subst eb; subst eh
        have hz1 := hp.mem_iff.mp hzm
        simp only [List.mem_cons] at hz1
        rcases hz1 with rfl | rfl | hz2
        · omega
        · rw [dA, dB]; omega
        · rw [dA, dX z hz2]
          have hzn : z.2 < next := hok.2 z hzm
          have hzc : keyLe z (a.1 + b.1, next) := by unfold keyLe; simp only; omega
          have := hG z (by simp [hz2]) (a.1 + b.1, next) (by simp) hzc
          simp only at this
          omega

/-- codeword lengths are antitone in `(weight, index)` -/
theorem huffTree_ties {ws : List Nat} {T : Tree} (hT : huffTree exactOps ws = some T)
    {i j wi wj : Nat} (hi : ws[i]? = some wi) (hj : ws[j]? = some wj)
    (hle : wi < wj ∨ (wi = wj ∧ i ≤ j)) : T.depth j ≤ T.depth i := by
  have hlen : ws.zipIdx.length = ws.length := by simp
  obtain ⟨hG, _⟩ := ties_inv ws.length ws.zipIdx ws.length (heapOK_zipIdx ws) hlen.symm T hT
  have := hG (wi, i) (List.mk_mem_zipIdx_iff_getElem?.mpr hi) (wj, j)
    (List.mk_mem_zipIdx_iff_getElem?.mpr hj) (by unfold keyLe; simpa using hle)
  simpa using this

end CV.Huff

/-! ## the heap's layout is irrelevant for the whole construction -/

namespace CV.Huff

theorem addPush_perm {α : Type} (ops : WeightOps α) (a b : α) {h2 h2' : List (α × Nat)}
    (hp : h2.Perm h2') : addPush ops a b h2 = addPush ops a b h2' := by
  have : h2.isEmpty = h2'.isEmpty := by
    have := hp.length_eq
    cases h2 <;> cases h2' <;> simp_all
  simp [addPush, this]

section
variable {ops : WeightOps Nat} (hlt : NatOrder ops)
include hlt

theorem pop2_layout {heap heap' : List (Nat × Nat)} (hp : heap.Perm heap') :
    (popMin ops heap = none ∧ popMin ops heap' = none) ∨
    (∃ a h1 h1', popMin ops heap = some (a, h1) ∧ popMin ops heap' = some (a, h1') ∧
      h1.Perm h1') := by
  cases e : popMin ops heap with
  | none =>
    have := (popMin_eq_none ops).mp e
    subst this
    have : heap' = [] := hp.symm.eq_nil
    subst this
    exact Or.inl ⟨rfl, rfl⟩
  | some ah =>
    obtain ⟨a, h1⟩ := ah
    have hne' : heap' ≠ [] := by
      intro h; subst h
      have := hp.eq_nil; subst this; simp [popMin] at e
    obtain ⟨a', h1', e'⟩ := popMin_isSome (ops := ops) hne'
    obtain ⟨rfl, hp1⟩ := popMin_layout hlt hp e e'
    exact Or.inr ⟨a, h1, h1', rfl, e', hp1⟩

/-- `BinaryHeap` may hold its entries in any order: the encoder array does not depend on it -/
theorem encLoop_layout : ∀ (fuel : Nat) (heap heap' : List (Nat × Nat)) (arr : List Nat)
    (next : Nat), heap.Perm heap' →
    encLoop ops fuel heap arr next = encLoop ops fuel heap' arr next
  | 0, _, _, _, _, _ => by simp [encLoop]
  | fuel + 1, heap, heap', arr, next, hp => by
    rcases pop2_layout hlt hp with ⟨e, e'⟩ | ⟨a, h1, h1', e, e', hp1⟩
    · simp [encLoop, e, e']
    · rcases pop2_layout hlt hp1 with ⟨f, f'⟩ | ⟨b, h2, h2', f, f', hp2⟩
      · simp [encLoop, e, e', f, f']
      · simp only [encLoop, e, e', f, f', addPush_perm ops a.1 b.1 hp2]
        cases addPush ops a.1 b.1 h2' with
        | error _ => rfl
        | ok w =>
          simp only []
          split
          · split
            · split
              · rfl
              · exact encLoop_layout fuel _ _ _ _ (List.Perm.cons _ hp2)
            · rfl
          · rfl

theorem decLoop_layout : ∀ (fuel : Nat) (heap heap' : List (Nat × Nat)) (acc : List (Nat × Nat))
    (next : Nat), heap.Perm heap' →
    decLoop ops fuel heap acc next = decLoop ops fuel heap' acc next
  | 0, _, _, _, _, _ => by simp [decLoop]
  | fuel + 1, heap, heap', acc, next, hp => by
    rcases pop2_layout hlt hp with ⟨e, e'⟩ | ⟨a, h1, h1', e, e', hp1⟩
    · simp [decLoop, e, e']
    · rcases pop2_layout hlt hp1 with ⟨f, f'⟩ | ⟨b, h2, h2', f, f', hp2⟩
      · simp [decLoop, e, e', f, f']
      · simp only [decLoop, e, e', f, f', addPush_perm ops a.1 b.1 hp2]
        cases addPush ops a.1 b.1 h2' with
        | error _ => rfl
        | ok w =>
          simp only []
          split
          · rfl
          · exact decLoop_layout fuel _ _ _ _ (List.Perm.cons _ hp2)

end

end CV.Huff
