import CV.Model.Chain
/-!
# Arithmetic helper lemmas for the chain coder (core Lean only, self-contained)

The bit operations of the model (`shlT`, `>>>`, `|||`, `narrow`) are converted to `* / % +`
here, once; the proofs about the coder then work with `omega` and a handful of nonlinear facts.
-/
namespace CV.Chain

theorem pow_pos2 (n : Nat) : 0 < 2^n := Nat.two_pow_pos n

theorem pow_mono2 {a b : Nat} (h : a ≤ b) : 2^a ≤ 2^b := Nat.pow_le_pow_right (by omega) h

theorem pow_lt2 {a b : Nat} (h : a < b) : 2^a < 2^b := Nat.pow_lt_pow_right (by omega) h

/-- `2^a = 2^(a-b) * 2^b` for `b ≤ a` -/
theorem pow_split {a b : Nat} (h : b ≤ a) : 2^a = 2^(a-b) * 2^b := by
  rw [← Nat.pow_add]; congr 1; omega

theorem pow_split' {a b : Nat} (h : b ≤ a) : 2^a = 2^b * 2^(a-b) := by
  rw [← Nat.pow_add]; congr 1; omega

theorem shlT_eq (n a k : Nat) : shlT n a k = (a * 2^k) % 2^n := by
  simp [shlT, Nat.shiftLeft_eq]

theorem shlT_of_lt {n a k : Nat} (h : a * 2^k < 2^n) : shlT n a k = a * 2^k := by
  rw [shlT_eq, Nat.mod_eq_of_lt h]

theorem shlT_one {n k : Nat} (h : k < n) : shlT n 1 k = 2^k := by
  rw [shlT_of_lt] <;> simp [pow_lt2 h]

theorem shr_eq (a k : Nat) : a >>> k = a / 2^k := Nat.shiftRight_eq_div_pow a k

/-- `(a * 2^k) | b = a * 2^k + b` when `b < 2^k` -/
theorem or_eq_add {a b k : Nat} (hb : b < 2^k) : a * 2^k ||| b = a * 2^k + b := by
  rw [← Nat.shiftLeft_eq, ← Nat.shiftLeft_add_eq_or_of_lt hb]

theorem narrow_of_lt {n a : Nat} (h : a < 2^n) : narrow n a = a := by
  simp [narrow, Nat.mod_eq_of_lt h]

theorem narrow_lt (n a : Nat) : narrow n a < 2^n := by
  simp [narrow]; exact Nat.mod_lt _ (pow_pos2 n)

theorem mul_add_mod_of_lt {a b q : Nat} (h : b < q) : (a * q + b) % q = b := by
  rw [Nat.add_comm, Nat.add_mul_mod_self_right, Nat.mod_eq_of_lt h]

theorem mul_add_div_of_lt {a b q : Nat} (h : b < q) : (a * q + b) / q = a := by
  have hq : 0 < q := by omega
  rw [Nat.add_comm, Nat.add_mul_div_right _ _ hq, Nat.div_eq_of_lt h, Nat.zero_add]

/-- `(x * 2^P) % 2^W = (x % 2^(W-P)) * 2^P` -/
theorem mul_pow_mod {x P W : Nat} (h : P ≤ W) : (x * 2^P) % 2^W = (x % 2^(W-P)) * 2^P := by
  rw [pow_split h, Nat.mul_mod_mul_right]

theorem div_add_mod' (a q : Nat) : a / q * q + a % q = a := by
  rw [Nat.mul_comm]; exact Nat.div_add_mod a q

theorem mul_lt_of_lt_of_le {a b c d : Nat} (h1 : a < c) (h2 : b ≤ d) (hd : 0 < d) : a * b < c * d :=
  Nat.lt_of_le_of_lt (Nat.mul_le_mul_left a h2) (Nat.mul_lt_mul_of_pos_right h1 hd)

end CV.Chain
