import CV.Proofs.RangeTheorems
/-!
# Inspections are no-ops (C08) and size queries are exact (C18)
-/
namespace CV.Range

theorem isEmpty_iff {c : Cfg} {e : Encoder} :
    isEmpty c e = true ↔ e.range = maxState c ∧ e.bulk = [] := by
  unfold isEmpty
  simp [List.isEmpty_iff]

/-- `is_empty()` ⇔ exporting now returns nothing -/
theorem isEmpty_iff_export_nil {c : Cfg} {e : Encoder} :
    isEmpty c e = true ↔ e.bulk ++ sealP c e = [] := by
  rw [isEmpty_iff, List.append_eq_nil_iff]
  constructor
  · rintro ⟨h1, h2⟩
    exact ⟨h2, by simp [sealP, h1]⟩
  · rintro ⟨h1, h2⟩
    refine ⟨?_, h1⟩
    by_contra hne
    simp [sealP, hne] at h2

/-- `EncoderGuard::new` then `drop`: the view is what `into_compressed` would return now and
    the encoder is exactly as before -/
theorem getCompressed_eq {c : Cfg} (hc : RValid c) {e : Encoder} (hI : Inv c e)
    (hf : Fits c e 0) :
    getCompressed c e = .ok (e.bulk ++ sealP c e, e) := by
  unfold getCompressed guardNew
  by_cases hem : isEmpty c e = true
  · simp only [hem, if_true]
    obtain ⟨hr, hb⟩ := isEmpty_iff.mp hem
    have hk : numSealWords c e = .ok 0 := by unfold numSealWords; simp [hr]
    have hs : sealP c e = [] := by simp [sealP, hr]
    unfold unsealEnc
    rw [hk]
    simp only [Nat.zero_le, if_true, Nat.sub_zero, List.take_length, hs, List.append_nil]
  · simp only [hem, Bool.false_eq_true, if_false]
    rw [sealEnc_eq hc hI]
    simp only []
    rw [unseal_seal hc hI hf]

/-- `decoder()`: a decoder over the sealed words, and the encoder exactly as before -/
theorem tempDecoder_eq {c : Cfg} (hc : RValid c) {e : Encoder} (hI : Inv c e)
    (hf : Fits c e 0) :
    ∃ d, tempDecoder c e = .ok (d, e) ∧
      Decoder.fromCompressed c (e.bulk ++ sealP c e) = .ok d := by
  have hwok : WordsOK c (e.bulk ++ sealP c e) := by
    apply hI.1.append
    unfold sealP
    split
    · exact WordsOK.nil
    · apply ((sealHeld_wordsOK hI).append _).append
      · split
        · exact WordsOK.cons (two_pow_pos' _) WordsOK.nil
        · exact WordsOK.nil
      · exact WordsOK.cons (top_word_lt hc (Nat.mod_lt _ (two_pow_pos' _))) WordsOK.nil
  obtain ⟨d, hd, _⟩ := fromCompressed_eq hc hwok
  refine ⟨d, ?_, hd⟩
  unfold tempDecoder
  rw [getCompressed_eq hc hI hf]
  simp only [hd]

/-! ### histories with inspections -/

/-- the operations of an encoder history -/
inductive Op (Sym : Type) where
  | enc (x : MStep Sym)
  | getCompressed
  | decoder
  | numWords
  | numBits
  | isEmpty
  | pos
  | clone

def liftM {α : Type} (r : M α) : Except EncErr α :=
  match r with
  | .ok a => .ok a
  | .error f => .error (.fault f)

/-- the encoder after one operation (inspections: after the guard / temporary decoder has
    been dropped) -/
def runOp {Sym : Type} (c : Cfg) (e : Encoder) : Op Sym → Except EncErr Encoder
  | .enc x => encode (cfgAt c x.B x.P) x.model x.sym e
  | .getCompressed => liftM ((getCompressed c e).map (·.2))
  | .decoder => liftM ((tempDecoder c e).map (·.2))
  | .numWords => liftM ((numWords c e).map (fun _ => e))
  | .numBits => liftM ((numBits c e).map (fun _ => e))
  | .isEmpty => .ok e
  | .pos => liftM (e.pos.map (fun _ => e))
  | .clone => .ok e

def runOps {Sym : Type} (c : Cfg) : Encoder → List (Op Sym) → Except EncErr Encoder
  | e, [] => .ok e
  | e, op :: ops =>
    match runOp c e op with
    | .ok e' => runOps c e' ops
    | .error err => .error err

/-- the encode steps of a history -/
def encSteps {Sym : Type} : List (Op Sym) → List (MStep Sym)
  | [] => []
  | .enc x :: ops => x :: encSteps ops
  | _ :: ops => encSteps ops

/-- every inspection returns the encoder unchanged -/
theorem pos_eq {c : Cfg} (hc : RValid c) {e : Encoder} (hf : Fits c e 0) :
    e.pos = .ok (e.bulk.length + e.situation.held, e.lower, e.range) := by
  have := hf.held_lt hc
  unfold Encoder.pos
  rw [cadd_ok (by omega)]

theorem runOp_inspect {Sym : Type} {c : Cfg} (hc : RValid c) {e : Encoder} (hI : Inv c e)
    (hf : Fits c e 0)
    (op : Op Sym) (h : ∀ x, op ≠ .enc x) : runOp c e op = .ok e := by
  cases op with
  | enc x => exact absurd rfl (h x)
  | getCompressed => simp [runOp, getCompressed_eq hc hI hf, liftM, Except.map]
  | decoder =>
    obtain ⟨d, hd, _⟩ := tempDecoder_eq hc hI hf
    simp [runOp, hd, liftM, Except.map]
  | numWords => simp [runOp, numWords_eq hc hI hf, liftM, Except.map]
  | numBits => simp [runOp, numBits_eq hc hI hf, liftM, Except.map]
  | isEmpty => rfl
  | pos => simp [runOp, pos_eq hc hf, liftM, Except.map]
  | clone => rfl

/-- **inspect erasure**: a history with inspections inserted anywhere, any number of times,
    ends in exactly the encoder state of the history without them. -/
theorem inspect_erasure {Sym : Type} {c : Cfg} (hc : RValid c) : ∀ (ops : List (Op Sym))
    (e : Encoder), Inv c e → Fits c e (encSteps ops).length → (∀ x ∈ encSteps ops, x.Valid c) →
    runOps c e ops = encodeMsg c e (encSteps ops) := by
  intro ops
  induction ops with
  | nil => intro e _ _ _; rfl
  | cons op ops ih =>
    intro e hI hf hv
    have hf0 : Fits c e 0 := hf.mono (Nat.zero_le _)
    cases op with
    | enc x =>
      have hx : x.Valid c := hv x (by simp [encSteps])
      obtain ⟨hp, hcp⟩ := hx.cp_ok
      have hI' : Inv (cfgAt c x.B x.P) e := hI
      have hf' : Fits (cfgAt c x.B x.P) e ((encSteps ops).length + 1) := hf
      have henc : encode (cfgAt c x.B x.P) x.model x.sym e
          = .ok (encPure (cfgAt c x.B x.P) e x.cp.1 x.cp.2) := by
        unfold encode
        rw [hx.enc_eq]
        exact encodeCP_eq_pure hx.1 hI' (hf'.mono (by omega)) hp hcp
      have hI2 : Inv c (encPure (cfgAt c x.B x.P) e x.cp.1 x.cp.2) :=
        encPure_inv hx.1 hI' hp hcp
      have hf2 : Fits c (encPure (cfgAt c x.B x.P) e x.cp.1 x.cp.2) (encSteps ops).length :=
        encPure_fits (c := cfgAt c x.B x.P) hx.1 hI' hp hcp hf'
      simp only [runOps, runOp, encSteps, encodeMsg, henc]
      exact ih _ hI2 hf2 (fun y hy => hv y (by simp [encSteps, hy]))
    | getCompressed =>
      have h := runOp_inspect (Sym := Sym) hc hI hf0 Op.getCompressed (fun x => by simp)
      simp only [runOps, encSteps]
      rw [h]
      exact ih e hI hf hv
    | decoder =>
      have h := runOp_inspect (Sym := Sym) hc hI hf0 Op.decoder (fun x => by simp)
      simp only [runOps, encSteps]
      rw [h]
      exact ih e hI hf hv
    | numWords =>
      have h := runOp_inspect (Sym := Sym) hc hI hf0 Op.numWords (fun x => by simp)
      simp only [runOps, encSteps]
      rw [h]
      exact ih e hI hf hv
    | numBits =>
      have h := runOp_inspect (Sym := Sym) hc hI hf0 Op.numBits (fun x => by simp)
      simp only [runOps, encSteps]
      rw [h]
      exact ih e hI hf hv
    | isEmpty =>
      simp only [runOps, runOp, encSteps]
      exact ih e hI hf hv
    | pos =>
      have h := runOp_inspect (Sym := Sym) hc hI hf0 Op.pos (fun x => by simp)
      simp only [runOps, encSteps]
      rw [h]
      exact ih e hI hf hv
    | clone =>
      simp only [runOps, runOp, encSteps]
      exact ih e hI hf hv

end CV.Range
