import CV.Proofs.QuantModels
import CV.Proofs.CatModels
import CV.Proofs.CatFast
/-!
# Link to component `cat`: the eager `…_fast` constructor yields a `ValidCdf`

Hence every theorem of component `cat` about cdf-based models (`Contiguous.enc_eq`,
`Contiguous.dec_eq` for the binary-search decoder, the lookup and non-contiguous
representations, `C03_contiguous_of_validCdf`) applies to the tables produced from floats.
-/
namespace CV.Quant
open CV

variable {B P n free : Nat} {h : Nat → Nat}

/-- the unwrapped table: `cumF 0, …, cumF (n-1), 2^P` -/
def extList (P n free : Nat) (h : Nat → Nat) : List Nat :=
  (List.range' 0 n).map (cumF P n free h) ++ [2 ^ P]

theorem unwrap_cdfList : Cat.unwrap P (cdfList B P n free h) = extList P n free h := by
  unfold Cat.unwrap cdfList extList
  rw [List.dropLast_concat]

theorem extList_length : (extList P n free h).length = n + 1 := by simp [extList]

theorem extList_getD {i : Nat} (hi : i ≤ n) : (extList P n free h).getD i 0 = cumF P n free h i := by
  unfold extList
  rw [List.getD_eq_getElem?_getD]
  rcases Nat.lt_or_ge i n with hlt | hge
  · rw [List.getElem?_append_left (by simpa using hlt)]
    simp [hlt]
  · have : i = n := by omega
    subst this
    rw [List.getElem?_append_right (by simp)]
    simp [cumF_last]

theorem extList_pairwise (ok : FastOk B P n) (hf : free = 2 ^ P - n) (hm : Mono h n) :
    (extList P n free h).Pairwise (· < ·) := by
  rw [List.pairwise_iff_getElem]
  intro i j hi hj hij
  rw [extList_length] at hi hj
  have e1 : (extList P n free h)[i] = (extList P n free h).getD i 0 := by
    rw [List.getD_eq_getElem?_getD, List.getElem?_eq_getElem (by rw [extList_length]; omega)]; rfl
  have e2 : (extList P n free h)[j] = (extList P n free h).getD j 0 := by
    rw [List.getD_eq_getElem?_getD, List.getElem?_eq_getElem (by rw [extList_length]; omega)]; rfl
  rw [e1, e2, extList_getD (by omega), extList_getD (by omega)]
  exact cumF_strict ok hf hm hij (by omega)

/-- **C03 (eager `…_fast` constructors)**: `fast_quantized_cdf` followed by
    `from_fixed_point_cdf` yields a cdf satisfying `cat`'s representation invariant -/
theorem cdfList_valid (ok : FastOk B P n) (hf : free = 2 ^ P - n) (tb : TBF1Fast h n) :
    Cat.ValidCdf B P (cdfList B P n free h) := by
  constructor
  · unfold cdfList; simp
  · rw [unwrap_cdfList]
    have hn2 := ok.hn2
    refine ⟨by rw [extList_length]; omega, ?_, ?_, extList_pairwise ok hf tb.mono⟩
    · rw [extList_getD (by omega), cumF_zero ok tb.zero]
    · rw [extList_length, Nat.add_sub_cancel, extList_getD (Nat.le_refl _), cumF_last]

/-! ### the glue constructors that share `fast_quantized_cdf` -/

/-- the items `fast_quantized_cdf` yields: one left cumulative per weight -/
def innerList (P n free : Nat) (h : Nat → Nat) : List Nat := (List.range' 0 n).map (cumF P n free h)

theorem fastEntries_inner (ok : FastOk B P n) (hf : free = 2 ^ P - n) :
    fastEntries B free h n 0 = .ok (innerList P n free h) := fastEntries_eq ok hf n 0 (by omega)

theorem extList_dropLast : (extList P n free h).dropLast = innerList P n free h := by
  unfold extList innerList; rw [List.dropLast_concat]

theorem innerList_length : (innerList P n free h).length = n := by simp [innerList]

theorem extList_valid (ok : FastOk B P n) (hf : free = 2 ^ P - n) (tb : TBF1Fast h n) :
    Cat.ValidExt P (extList P n free h) := by
  have := (cdfList_valid (h := h) ok hf tb).2
  rw [unwrap_cdfList] at this; exact this

/-- **`NonContiguousCategoricalDecoderModel::from_symbols_and_floating_point_probabilities_fast`**:
    with as many symbols as weights the constructor returns the canonical decoder model over the
    same table as the contiguous model -/
theorem ncdec_fast {Sym : Type} (ok : FastOk B P n) {syms : List Sym} (hlen : syms.length = n) :
    ∃ last, Cat.NcDec.fromSymbolsAndCdf B P syms (innerList P n free h) =
      .ok (some { cdf := Cat.ncCdf B P syms (extList P n free h) last }) := by
  have hn2 := ok.hn2
  obtain ⟨last, hl⟩ := Cat.NcDec.fromSymbolsAndCdf_match (B := B) (P := P) (syms := syms)
    (cdf := innerList P n free h) (by rw [innerList_length]; exact hlen)
    (by intro hnil; have := innerList_length (P := P) (n := n) (free := free) (h := h)
        rw [hnil] at this; simp at this; omega)
  exact ⟨last, by rw [hl]; unfold Cat.ncCdf; rw [extList_dropLast]⟩

/-- **`ContiguousLookupDecoderModel::from_floating_point_probabilities_fast`**: its `resize` loop
    over the right cumulatives followed by the final `resize(1 << P, len - 1)` is the loop of
    `to_lookup_decoder_model` (`Cat.Lookup.fromContiguous`) on the same cdf; it never panics and
    builds a correct lookup table -/
theorem lookup_fast (ok : FastOk B P n) (hf : free = 2 ^ P - n) (tb : TBF1Fast h n) :
    ∃ tbl, Cat.Lookup.fromContiguous B P ⟨cdfList B P n free h⟩
        = .ok { tbl := tbl, cdf := cdfList B P n free h } ∧
      Cat.LookupOK P (extList P n free h) tbl := by
  have hv := cdfList_valid (h := h) ok hf tb
  obtain ⟨tbl, h1, h2⟩ := Cat.Lookup.fromContiguous_ok (m := ⟨cdfList B P n free h⟩) hv ok.hPB
  rw [unwrap_cdfList] at h2
  exact ⟨tbl, h1, h2⟩

/-- row `i` of the symbol table shared by all representations -/
def entryF {Sym : Type} [Inhabited Sym] (P n free : Nat) (h : Nat → Nat) (syms : List Sym) (i : Nat) :
    Sym × Nat × Nat :=
  (syms.getD i default, cumF P n free h i, widthF P n free h i)

theorem cdfList_drop {i : Nat} (hi : i ≤ n) :
    (cdfList B P n free h).drop i
      = (if i < n then cumF P n free h i else wrappingPow2 B P) :: (cdfList B P n free h).drop (i + 1) := by
  rw [List.drop_eq_getElem_cons (by rw [cdfList_length]; omega)]
  congr 1
  have : (cdfList B P n free h)[i]? = some (if i < n then cumF P n free h i else wrappingPow2 B P) := by
    by_cases hlt : i < n
    · rw [if_pos hlt]; exact cdfList_get_lt hlt
    · have : i = n := by omega
      subst this; rw [if_neg hlt]; exact cdfList_get_last
  rw [List.getElem?_eq_getElem (by rw [cdfList_length]; omega)] at this
  exact Option.some.inj this

theorem syms_drop {Sym : Type} [Inhabited Sym] {syms : List Sym} {i : Nat} (hi : i < syms.length) :
    syms.drop i = syms.getD i default :: syms.drop (i + 1) := by
  rw [List.drop_eq_getElem_cons hi]
  congr 1
  rw [List.getD_eq_getElem?_getD, List.getElem?_eq_getElem hi]; rfl

theorem specTable_eq_entries {Sym : Type} [Inhabited Sym] (syms : List Sym) :
    Cat.specTable (fun i => syms.getD i default) (extList P n free h)
      = (List.range' 0 n).map (entryF P n free h syms) := by
  unfold Cat.specTable
  rw [extList_length, Nat.add_sub_cancel, List.range_eq_range']
  apply List.map_congr_left
  intro i hi
  have hi' : i < n := by simpa using (List.mem_range'_1.mp hi).2
  unfold entryF widthF
  rw [extList_getD (by omega), extList_getD (by omega)]

/-- the loop of the non-contiguous lookup `…_fast` constructor builds the shared symbol table -/
theorem nclookup_fastLoop {Sym : Type} [Inhabited Sym] (ok : FastOk B P n) (hf : free = 2 ^ P - n)
    (hm : Mono h n) {syms : List Sym} (hlen : syms.length = n) :
    ∀ (k i left : Nat) (acc : List (Sym × Nat × Nat)), i + k = n → (i < n → left = cumF P n free h i) →
      Cat.NcLookup.fastLoop B left ((cdfList B P n free h).drop (i + 1)) (syms.drop i) acc
        = .ok (some ([], acc ++ (List.range' i k).map (entryF P n free h syms))) := by
  intro k
  induction k with
  | zero =>
    intro i left acc hik _
    have : i = n := by omega
    subst this
    have e1 : (cdfList B P i free h).drop (i + 1) = [] :=
      List.drop_of_length_le (by rw [cdfList_length]; omega)
    have e2 : syms.drop i = [] := List.drop_of_length_le (by omega)
    rw [e1, e2]
    simp [Cat.NcLookup.fastLoop]
  | succ k ih =>
    intro i left acc hik hleft
    have hi : i < n := by omega
    have hl := hleft hi
    subst hl
    have e1 := cdfList_drop (B := B) (P := P) (n := n) (free := free) (h := h) (i := i + 1) (by omega)
    have e2 := syms_drop (syms := syms) (i := i) (by omega)
    rw [e1, e2]
    unfold Cat.NcLookup.fastLoop
    have hp := width_pos ok hf hm hi
    have hw : wsub B (if i + 1 < n then cumF P n free h (i + 1) else wrappingPow2 B P)
        (cumF P n free h i) = widthF P n free h i := by
      by_cases h1 : i + 1 < n
      · rw [if_pos h1]; exact wsub_inner ok hf hm h1
      · rw [if_neg h1]; exact wsub_last ok hf hm (by omega)
    simp only
    rw [hw, if_neg (by omega)]
    have := ih (i + 1) (if i + 1 < n then cumF P n free h (i + 1) else wrappingPow2 B P)
      (acc ++ [(syms.getD i default, cumF P n free h i, widthF P n free h i)]) (by omega)
      (by intro h1; rw [if_pos h1])
    rw [this]
    simp [List.range'_succ, entryF, List.append_assoc]

theorem innerList_cons (ok : FastOk B P n) :
    innerList P n free h = cumF P n free h 0 :: (innerList P n free h).tail ∧
    (innerList P n free h).tail ++ [wrappingPow2 B P] = (cdfList B P n free h).drop 1 := by
  have hn2 := ok.hn2
  obtain ⟨m, rfl⟩ : ∃ m, n = m + 1 := ⟨n - 1, by omega⟩
  unfold innerList cdfList
  rw [List.range'_succ]
  simp

/-- **`NonContiguousLookupDecoderModel::from_symbols_and_floating_point_probabilities_fast`**:
    never panics (`expect("quantization is leaky")` holds), canonical cdf over the shared table,
    correct lookup table -/
theorem nclookup_fast {Sym : Type} [Inhabited Sym] (ok : FastOk B P n) (hf : free = 2 ^ P - n)
    (tb : TBF1Fast h n) {syms : List Sym} (hlen : syms.length = n) :
    ∃ tbl last, Cat.NcLookup.fromSymbolsAndCdf B P syms (innerList P n free h) =
      .ok (some { tbl := tbl, cdf := Cat.ncCdf B P syms (extList P n free h) last }) ∧
      Cat.LookupOK P (extList P n free h) tbl := by
  subst hlen
  obtain ⟨hc, ht⟩ := innerList_cons (B := B) (free := free) (h := h) ok
  have hloop := nclookup_fastLoop ok hf tb.mono rfl syms.length 0 (cumF P syms.length free h 0) []
    (by omega) (fun _ => rfl)
  simp only [List.drop_zero, List.nil_append, Nat.zero_add] at hloop
  rw [← specTable_eq_entries] at hloop
  have hv := extList_valid (h := h) ok hf tb
  obtain ⟨tbl, last, hft, hok⟩ :=
    Cat.NcLookup.fromTable_specTable (B := B) (fun i => syms.getD i default) hv ok.hPB
  rw [extList_length, Nat.add_sub_cancel, Cat.labelsOf_getD_self] at hft
  refine ⟨tbl, last, ?_, hok⟩
  rw [hc]
  unfold Cat.NcLookup.fromSymbolsAndCdf
  simp only
  rw [ht, hloop]
  simp only [List.isEmpty_nil, Bool.not_true, Bool.false_eq_true, if_false]
  rw [hft]

theorem innerList_drop {i : Nat} (hi : i < n) :
    (innerList P n free h).drop i = cumF P n free h i :: (innerList P n free h).drop (i + 1) := by
  rw [List.drop_eq_getElem_cons (by rw [innerList_length]; exact hi)]
  congr 1
  simp [innerList]

theorem not_mem_take_of_nodup {Sym : Type} [Inhabited Sym] {syms : List Sym} (hnd : syms.Nodup)
    {i : Nat} (hi : i < syms.length) : syms.getD i default ∉ syms.take i := by
  have e := List.take_append_drop i syms
  rw [syms_drop hi] at e
  rw [← e] at hnd
  intro hmem
  exact (List.nodup_append.mp hnd).2.2 _ hmem _ (List.mem_cons_self) rfl

theorem take_succ_getD {Sym : Type} [Inhabited Sym] {syms : List Sym} {i : Nat} (hi : i < syms.length) :
    syms.take (i + 1) = syms.take i ++ [syms.getD i default] := by
  rw [List.take_add_one, List.getElem?_eq_getElem hi, List.getD_eq_getElem?_getD,
    List.getElem?_eq_getElem hi]; rfl

/-- the loop of `NonContiguousCategoricalEncoderModel::from_symbols_and_cdf` (pairwise distinct
    symbols): no `Occupied`, the plain `right - left` does not underflow, no zero probability -/
theorem ncenc_fromCdfLoop {Sym : Type} [DecidableEq Sym] [Inhabited Sym] (ok : FastOk B P n)
    (hf : free = 2 ^ P - n) (hm : Mono h n) {syms : List Sym} (hlen : syms.length = n)
    (hnd : syms.Nodup) :
    ∀ (k i : Nat) (acc : List (Sym × Nat × Nat)), i + 1 + k = n → acc.map (·.1) = syms.take i →
      Cat.NcEnc.fromCdfLoop (cumF P n free h i) ((innerList P n free h).drop (i + 1)) (syms.drop i) acc
        = .ok (some (cumF P n free h (n - 1), syms.drop (n - 1),
            acc ++ (List.range' i k).map (entryF P n free h syms))) := by
  intro k
  induction k with
  | zero =>
    intro i acc hik _
    have : i = n - 1 := by omega
    subst this
    have e1 : (innerList P n free h).drop (n - 1 + 1) = [] :=
      List.drop_of_length_le (by rw [innerList_length]; omega)
    rw [e1]
    simp [Cat.NcEnc.fromCdfLoop]
  | succ k ih =>
    intro i acc hik hacc
    have hi1 : i + 1 < n := by omega
    have e1 := innerList_drop (P := P) (n := n) (free := free) (h := h) (i := i + 1) hi1
    have e2 := syms_drop (syms := syms) (i := i) (by omega)
    rw [e1, e2]
    unfold Cat.NcEnc.fromCdfLoop
    have hget : Cat.NcEnc.get acc (syms.getD i default) = none := by
      rw [Cat.NcEnc.get_none_iff, hacc]
      exact not_mem_take_of_nodup hnd (by omega)
    have hst := cumF_step ok hf hm (i := i) (by omega)
    have hp := width_pos ok hf hm (s := i) (by omega)
    have hsub : csub "ncenc.from_symbols_and_cdf.sub" (cumF P n free h (i + 1)) (cumF P n free h i)
        = .ok (widthF P n free h i) := by
      unfold csub widthF; rw [if_pos (by omega)]
    simp only
    rw [hget]
    simp only
    rw [hsub]
    simp only
    rw [if_neg (by omega)]
    have := ih (i + 1) (acc ++ [(syms.getD i default, (cumF P n free h i, widthF P n free h i))])
      (by omega) (by rw [List.map_append, hacc, take_succ_getD (by omega)]; rfl)
    rw [this]
    simp [List.range'_succ, entryF, List.append_assoc]

/-- **`NonContiguousCategoricalEncoderModel::from_symbols_and_floating_point_probabilities_fast`**
    with pairwise distinct symbols: returns the hash table that holds exactly the shared symbol
    table, hence the encoder of the labelled specification model -/
theorem ncenc_fast {Sym : Type} [DecidableEq Sym] [Inhabited Sym] (ok : FastOk B P n)
    (hf : free = 2 ^ P - n) (tb : TBF1Fast h n) {syms : List Sym} (hlen : syms.length = n)
    (hnd : syms.Nodup) :
    ∃ m, Cat.NcEnc.fromSymbolsAndCdf B P syms (innerList P n free h) = .ok (some m) ∧
      m.tbl = Cat.specTable (fun i => syms.getD i default) (extList P n free h) ∧
      ∀ s, m.enc s = (Cat.labelledModel syms (extList P n free h)).enc s := by
  have hn2 := ok.hn2
  obtain ⟨hc, _⟩ := innerList_cons (B := B) (free := free) (h := h) ok
  have hloop := ncenc_fromCdfLoop ok hf tb.mono hlen hnd (n - 1) 0 [] (by omega) (by simp)
  simp only [List.drop_zero, List.nil_append, Nat.zero_add] at hloop
  have htail : (innerList P n free h).tail = (innerList P n free h).drop 1 := by
    rw [List.drop_one]
  have hlast := syms_drop (syms := syms) (i := n - 1) (by omega)
  have e : n - 1 + 1 = n := by omega
  rw [e, List.drop_of_length_le (l := syms) (i := n) (by omega)] at hlast
  have hw := wsub_last ok hf tb.mono (s := n - 1) (by omega)
  have hp := width_pos ok hf tb.mono (s := n - 1) (by omega)
  have hget : Cat.NcEnc.get ((List.range' 0 (n - 1)).map (entryF P n free h syms))
      (syms.getD (n - 1) default) = none := by
    rw [Cat.NcEnc.get_none_iff]
    have : ((List.range' 0 (n - 1)).map (entryF P n free h syms)).map (·.1) = syms.take (n - 1) := by
      apply List.ext_getElem?
      intro j
      by_cases hj : j < n - 1
      · simp [entryF, hj, List.getD_eq_getElem?_getD,
          List.getElem?_eq_getElem (show j < syms.length by omega)]
      · simp [hj, List.getElem?_take]
    rw [this]
    exact not_mem_take_of_nodup hnd (by omega)
  have hall : (List.range' 0 (n - 1)).map (entryF P n free h syms)
        ++ [(syms.getD (n - 1) default, (cumF P n free h (n - 1), widthF P n free h (n - 1)))]
      = Cat.specTable (fun i => syms.getD i default) (extList P n free h) := by
    rw [specTable_eq_entries]
    obtain ⟨m', rfl⟩ : ∃ m', n = m' + 1 := ⟨n - 1, by omega⟩
    simp only [Nat.add_sub_cancel]
    rw [List.range'_concat]
    simp [entryF]
  refine ⟨{ tbl := Cat.specTable (fun i => syms.getD i default) (extList P n free h) }, ?_, rfl, ?_⟩
  · rw [hc]
    unfold Cat.NcEnc.fromSymbolsAndCdf
    simp only
    rw [htail, hloop, hlast]
    simp only
    unfold Cat.NcEnc.insertNew
    rw [hget]
    simp only
    rw [hw, if_neg (by omega), hall]
    simp
  · intro s
    exact Cat.NcEnc.enc_of_specTable (by rw [extList_length]; omega) rfl s

end CV.Quant
