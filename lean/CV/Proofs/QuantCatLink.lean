import CV.Proofs.QuantModels
import CV.Proofs.CatModels
/-!
# Link to component `cat`: the eager `…_fast` constructor yields a `ValidCdf`

Hence every theorem of component `cat` about cdf-based models (`Contiguous.enc_eq`,
`Contiguous.dec_eq` for the binary-search decoder, the lookup and non-contiguous
representations, `C03_contiguous_of_validCdf`) applies to the tables produced from floats.
-/
namespace CV.Quant
open CV

variable {B P n free : Nat} {h : Nat → Nat}

/-- the unwrapped table: `cumF 0, …, cumF (n-1), 2^P` -/
def extList (P n free : Nat) (h : Nat → Nat) : List Nat :=
  (List.range' 0 n).map (cumF P n free h) ++ [2 ^ P]

theorem unwrap_cdfList : Cat.unwrap P (cdfList B P n free h) = extList P n free h := by
  unfold Cat.unwrap cdfList extList
  rw [List.dropLast_concat]

theorem extList_length : (extList P n free h).length = n + 1 := by simp [extList]

theorem extList_getD {i : Nat} (hi : i ≤ n) : (extList P n free h).getD i 0 = cumF P n free h i := by
  unfold extList
  rw [List.getD_eq_getElem?_getD]
  rcases Nat.lt_or_ge i n with hlt | hge
  · rw [List.getElem?_append_left (by simpa using hlt)]
    simp [hlt]
  · have : i = n := by omega
    subst this
    rw [List.getElem?_append_right (by simp)]
    simp [cumF_last]

theorem extList_pairwise (ok : FastOk B P n) (hf : free = 2 ^ P - n) (hm : Mono h n) :
    (extList P n free h).Pairwise (· < ·) := by
  rw [List.pairwise_iff_getElem]
  intro i j hi hj hij
  rw [extList_length] at hi hj
  have e1 : (extList P n free h)[i] = (extList P n free h).getD i 0 := by
    rw [List.getD_eq_getElem?_getD, List.getElem?_eq_getElem (by rw [extList_length]; omega)]; rfl
  have e2 : (extList P n free h)[j] = (extList P n free h).getD j 0 := by
    rw [List.getD_eq_getElem?_getD, List.getElem?_eq_getElem (by rw [extList_length]; omega)]; rfl
  rw [e1, e2, extList_getD (by omega), extList_getD (by omega)]
  exact cumF_strict ok hf hm hij (by omega)

/-- **C03 (eager `…_fast` constructors)**: `fast_quantized_cdf` followed by
    `from_fixed_point_cdf` yields a cdf satisfying `cat`'s representation invariant -/
theorem cdfList_valid (ok : FastOk B P n) (hf : free = 2 ^ P - n) (tb : TBF1Fast h n) :
    Cat.ValidCdf B P (cdfList B P n free h) := by
  constructor
  · unfold cdfList; simp
  · rw [unwrap_cdfList]
    have hn2 := ok.hn2
    refine ⟨by rw [extList_length]; omega, ?_, ?_, extList_pairwise ok hf tb.mono⟩
    · rw [extList_getD (by omega), cumF_zero ok tb.zero]
    · rw [extList_length, Nat.add_sub_cancel, extList_getD (Nat.le_refl _), cumF_last]

end CV.Quant
