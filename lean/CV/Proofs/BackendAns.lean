import CV.Model.Ans
import CV.Proofs.Backend
/-!
# The ANS model's abstract backend is a faithful image of the backend models

`CV.Ans.Coder` represents the backend of `AnsCoder<Word, State, Backend>` abstractly:
`bulk : List Nat` (top of the stack first) and `cap : Option Nat` (`none` = `Vec`; `some n` =
a bounded `Cursor` over `n` words).  Its backend operations are `Ans.pushAll x [w]` (one
`WriteWords::write`: refused iff `¬ canWrite`), head/`Ans.dropReads x 1` (one `Stack` read),
`Ans.pos`, `Ans.seek` (`Vec`), and the drivers' `bulk := (data.take l).reverse` (`ansd`:
`Cursor::seek`) / `bulk := data.drop l` (`ansr`: `Reverse<Cursor>::seek`).

Abstractions (the coder's `state` word `st` is carried along untouched):
* `absVec v st`  : `bulk = v.data.reverse`, `cap = none`;
* `absCur c st`  : `bulk = (c.buf.take c.pos).reverse`, `cap = some c.buf.length`;
* `absRev r st`  : `bulk = r.inner.buf.drop r.inner.pos`, `cap = some r.inner.buf.length`.
-/
namespace CV.Backend.AnsAbs
open CV CV.Backend

def absVec (v : VecB) (st : Nat) : Ans.Coder :=
  { bulk := v.data.reverse, state := st, cap := none }

def absCur (c : Cursor) (st : Nat) : Ans.Coder :=
  { bulk := (c.buf.take c.pos).reverse, state := st, cap := some c.buf.length }

def absRev (r : RevCursor) (st : Nat) : Ans.Coder :=
  { bulk := r.inner.buf.drop r.inner.pos, state := st, cap := some r.inner.buf.length }

/-- one backend write as the ANS model performs it -/
def ansWrite (x : Ans.Coder) (w : Nat) : Option Ans.Coder := Ans.pushAll x [w]
/-- one backend stack read as the ANS model performs it -/
def ansRead (x : Ans.Coder) : Option Nat × Ans.Coder := (x.bulk.head?, Ans.dropReads x 1)

theorem ansWrite_eq (x : Ans.Coder) (w : Nat) :
    ansWrite x w = if Ans.canWrite x then some { x with bulk := w :: x.bulk } else none := by
  simp [ansWrite, Ans.pushAll]

/-! ## (1) `Vec` -/

theorem vec_write (v : VecB) (st w : Nat) :
    ansWrite (absVec v st) w = some (absVec (v.write w) st) := by
  simp [ansWrite_eq, absVec, Ans.canWrite, VecB.write]

theorem vec_read (v : VecB) (st : Nat) :
    ((v.read).1, absVec (v.read).2 st) = ansRead (absVec v st) := by
  cases v with
  | mk d =>
    rcases List.eq_nil_or_concat d with rfl | ⟨d', w, rfl⟩
    · simp [VecB.read, ansRead, absVec, Ans.dropReads]
    · simp [VecB.read, ansRead, absVec, Ans.dropReads]

theorem vec_pos (v : VecB) (st : Nat) : (Ans.pos (absVec v st)).1 = v.pos := by
  simp [Ans.pos, absVec, VecB.pos]

theorem vec_remaining (v : VecB) (st : Nat) : (absVec v st).bulk.length = v.remaining := by
  simp [absVec, VecB.remaining]

theorem vec_seek (v : VecB) (st p st' : Nat) :
    Ans.seek (absVec v st) (p, st') = (v.seek p).map (fun v' => absVec v' st') := by
  by_cases h : p ≤ v.data.length
  · simp [Ans.seek, absVec, VecB.seek, h, List.reverse_take]
  · simp [Ans.seek, absVec, VecB.seek, h]

/-! ## (2) `Cursor` used as a stack, under `pos ≤ len` -/

theorem absCur_ofZ (z : Z) (st : Nat) :
    absCur (Cursor.ofZ z) st =
      { bulk := z.stk, state := st, cap := some (z.stk.length + z.ahd.length) } := by
  simp [absCur, Cursor.ofZ]

/-- `write` succeeds iff the ANS model's `canWrite`, and then pushes onto `bulk` -/
theorem cur_write (c : Cursor) (hI : c.Inv) (st w : Nat) :
    ansWrite (absCur c st) w =
      match c.write w with
      | .ok c' => some (absCur c' st)
      | .error _ => none := by
  rw [← Cursor.ofZ_toZ c hI]
  generalize c.toZ = z
  cases z with
  | mk stk ahd =>
    cases ahd with
    | nil => simp [Cursor.write_ofZ, absCur_ofZ, ansWrite_eq, Ans.canWrite]
    | cons a ah =>
      simp [Cursor.write_ofZ, absCur_ofZ, ansWrite_eq, Ans.canWrite]; omega

theorem cur_canWrite_iff (c : Cursor) (hI : c.Inv) (st w : Nat) :
    Ans.canWrite (absCur c st) = true ↔ ∃ c', c.write w = .ok c' := by
  unfold Cursor.Inv at hI
  by_cases h : c.pos < c.buf.length
  · simp [Ans.canWrite, absCur, Cursor.write, Nat.min_eq_left hI, h]
  · simp [Ans.canWrite, absCur, Cursor.write, Nat.min_eq_left hI, h]

/-- a stack read returns the head of `bulk` and pops it; it cannot fault -/
theorem cur_read (c : Cursor) (hI : c.Inv) (st : Nat) :
    ∃ c', c.readStack = .ok ((ansRead (absCur c st)).1, c') ∧
      absCur c' st = (ansRead (absCur c st)).2 ∧ c'.Inv := by
  rw [← Cursor.ofZ_toZ c hI]
  generalize c.toZ = z
  cases z with
  | mk stk ahd =>
    cases stk with
    | nil =>
      exact ⟨_, by simp [Cursor.readStack_ofZ, ansRead, absCur_ofZ]; rfl,
        by simp [ansRead, absCur_ofZ, Ans.dropReads], Cursor.ofZ_inv _⟩
    | cons a s =>
      refine ⟨Cursor.ofZ ⟨s, a :: ahd⟩, by simp [Cursor.readStack_ofZ, ansRead, absCur_ofZ], ?_,
        Cursor.ofZ_inv _⟩
      simp [ansRead, absCur_ofZ, Ans.dropReads]; omega

theorem cur_pos (c : Cursor) (hI : c.Inv) (st : Nat) :
    c.getPos = (absCur c st).bulk.length ∧ c.remainingStack = (absCur c st).bulk.length := by
  unfold Cursor.Inv at hI
  simp [Cursor.getPos, Cursor.remainingStack, absCur, Nat.min_eq_left hI]

/-- `Cursor::seek` in the abstraction: exactly the `ansd` driver rule
    `bulk := (data.take l).reverse` with `data = buf`, allowed iff `l ≤ len` -/
theorem cur_seek (c : Cursor) (st p st' : Nat) :
    (c.seek p).map (fun c' => absCur c' st') =
      if p ≤ c.buf.length then
        some { absCur c st with bulk := (c.buf.take p).reverse, state := st' }
      else none := by
  by_cases h : p ≤ c.buf.length
  · simp [Cursor.seek_le c p h, absCur, h]
  · have : p > c.buf.length := by omega
    simp [Cursor.seek, absCur, h, this]

theorem cur_seek_inv (c c' : Cursor) (p : Nat) (h : c.seek p = some c') : c'.Inv ∧ c'.buf = c.buf := by
  unfold Cursor.seek at h
  split at h
  · cases h
  · cases h; exact ⟨by simp [Cursor.Inv]; omega, rfl⟩

/-! ## (3) `Reverse<Cursor>` used as a stack source (`from_reversed_compressed`) -/

/-- a stack read consumes the buffer front to back: head of `buf.drop pos` (no invariant needed) -/
theorem rev_read (r : RevCursor) (st : Nat) :
    ((r.readStack).1, absRev (r.readStack).2 st) = ansRead (absRev r st) := by
  cases r with
  | mk c =>
    cases hb : c.buf[c.pos]? with
    | none =>
      have hd : c.buf.drop c.pos = [] := by
        rw [List.drop_eq_nil_iff]; exact List.getElem?_eq_none_iff.mp hb
      simp [RevCursor.readStack, Cursor.readQueue, hb, ansRead, absRev, Ans.dropReads, hd]
    | some w =>
      have hlt : c.pos < c.buf.length := by
        rcases Nat.lt_or_ge c.pos c.buf.length with h | h
        · exact h
        · rw [List.getElem?_eq_none_iff.mpr h] at hb; cases hb
      have hd : c.buf.drop c.pos = w :: c.buf.drop (c.pos + 1) := by
        rw [List.drop_eq_getElem_cons hlt]
        have := List.getElem?_eq_getElem hlt
        rw [this] at hb; cases hb; rfl
      simp [RevCursor.readStack, Cursor.readQueue, hb, ansRead, absRev, Ans.dropReads, hd]

/-- `pos` counts the consumed words (`ansr` driver: `data.length - bulk.length`) -/
theorem rev_pos (r : RevCursor) (hI : r.inner.Inv) (st : Nat) :
    r.getPos = r.inner.buf.length - (absRev r st).bulk.length ∧
    r.remainingStack = .ok (absRev r st).bulk.length := by
  unfold Cursor.Inv at hI
  refine ⟨by simp [RevCursor.getPos, absRev]; omega, ?_⟩
  simp [RevCursor.remainingStack, Cursor.remainingQueue, csub, absRev, hI]

/-- `seek` passes through: exactly the `ansr` driver rule `bulk := data.drop l`, iff `l ≤ len` -/
theorem rev_seek (r : RevCursor) (st p st' : Nat) :
    (r.seek p).map (fun r' => absRev r' st') =
      if p ≤ r.inner.buf.length then
        some { absRev r st with bulk := r.inner.buf.drop p, state := st' }
      else none := by
  by_cases h : p ≤ r.inner.buf.length
  · simp [RevCursor.seek, Cursor.seek_le r.inner p h, absRev, h]
  · have : p > r.inner.buf.length := by omega
    simp [RevCursor.seek, Cursor.seek, absRev, h, this]

/-- (bonus) a write to a `Reverse<Cursor>` also is the abstract push with `cap = some len` -/
theorem rev_write (r : RevCursor) (hI : r.inner.Inv) (st w : Nat) :
    ansWrite (absRev r st) w =
      match r.write w with
      | .ok r' => some (absRev r' st)
      | .error _ => none := by
  cases r with
  | mk c =>
    have hI' : c.pos ≤ c.buf.length := hI
    by_cases hp : c.pos = 0
    · simp [RevCursor.write, hp, ansWrite_eq, Ans.canWrite, absRev]
    · have h1 : c.pos - 1 < c.buf.length := by omega
      have h2 : c.buf.length - c.pos < c.buf.length := by omega
      have hd : (c.buf.set (c.pos - 1) w).drop (c.pos - 1) = w :: c.buf.drop c.pos := by
        rw [List.drop_eq_getElem_cons (by simpa using h1)]
        have h3 : c.pos - 1 + 1 = c.pos := by omega
        have h4 : c.pos - 1 < c.pos := by omega
        simp [h3, List.drop_set_of_lt h4]
      simp [RevCursor.write, hp, h1, ansWrite_eq, Ans.canWrite, absRev, h2, hd]

/-! ## lifting to op sequences over {write, stack read, seek, pos, remaining} -/

/-- the alphabet an `AnsCoder` uses on its backend -/
def AnsOp : Op → Bool
  | .write _ | .readS | .seek _ | .pos | .remS => true
  | _ => false

/-- the ANS model's abstract backend under these ops, `Vec` flavour (`Ans.seek` truncates) -/
def absStepVec (x : Ans.Coder) : Op → Out × Ans.Coder
  | .write w =>
    match ansWrite x w with
    | some y => (.ok, y)
    | none => (.full, x)
  | .readS => (.word (ansRead x).1, (ansRead x).2)
  | .pos => (.num (Ans.pos x).1, x)
  | .remS => (.num x.bulk.length, x)
  | .seek p =>
    match Ans.seek x (p, x.state) with
    | some y => (.ok, y)
    | none => (.err, x)
  | _ => (.unsupported, x)

def absRunVec : Ans.Coder → List Op → List Out × Ans.Coder
  | x, [] => ([], x)
  | x, op :: ops => ((absStepVec x op).1 :: (absRunVec (absStepVec x op).2 ops).1,
                     (absRunVec (absStepVec x op).2 ops).2)

theorem vec_step_sim (v : VecB) (st : Nat) (op : Op) (h : AnsOp op = true) :
    ∃ v', Backend.step (.vec v) op = .ok ((absStepVec (absVec v st) op).1, .vec v') ∧
      absVec v' st = (absStepVec (absVec v st) op).2 := by
  cases op with
  | write w => exact ⟨v.write w, by simp [Backend.step, absStepVec, vec_write], by simp [absStepVec, vec_write]⟩
  | readS =>
    have := vec_read v st
    exact ⟨(v.read).2, by simp [Backend.step, absStepVec, ← this], by simp [absStepVec, ← this]⟩
  | pos => exact ⟨v, by simp [Backend.step, absStepVec, vec_pos], rfl⟩
  | remS => exact ⟨v, by simp [Backend.step, absStepVec, vec_remaining], rfl⟩
  | seek p =>
    have hseek := vec_seek v st p st
    have hst : (absVec v st).state = st := rfl
    cases hs : v.seek p with
    | none =>
      rw [hs] at hseek
      simp only [Option.map] at hseek
      refine ⟨v, ?_, ?_⟩ <;> simp only [Backend.step, hs, absStepVec, hst, hseek]
    | some v' =>
      rw [hs] at hseek
      simp only [Option.map] at hseek
      refine ⟨v', ?_, ?_⟩ <;> simp only [Backend.step, hs, absStepVec, hst, hseek]
  | _ => simp [AnsOp] at h

/-- **(1) lifted**: a `Vec` and the ANS model's `(bulk, cap = none)` agree on every history -/
theorem vec_run_sim (ops : List Op) : ∀ (v : VecB) (st : Nat), (∀ op ∈ ops, AnsOp op = true) →
    ∃ v', Backend.run (.vec v) ops = ((absRunVec (absVec v st) ops).1, .ok (.vec v')) ∧
      absVec v' st = (absRunVec (absVec v st) ops).2 := by
  induction ops with
  | nil => intro v st _; exact ⟨v, rfl, rfl⟩
  | cons op ops ih =>
    intro v st h
    obtain ⟨v1, h1, h2⟩ := vec_step_sim v st op (h op (by simp))
    obtain ⟨v2, h3, h4⟩ := ih v1 st (fun o ho => h o (by simp [ho]))
    refine ⟨v2, ?_, ?_⟩
    · simp [Backend.run, h1, h3, absRunVec, h2]
    · simp [absRunVec, ← h2, h4]

/-- the abstract backend, `Cursor` flavour: the coder plus the whole buffer `data` (needed
    because `Cursor::seek` only moves the position: `bulk := (data.take p).reverse`, the
    `ansd` rule; a write stores the word at index `bulk.length`) -/
def absStepCur (x : Ans.Coder) (data : List Nat) : Op → Out × Ans.Coder × List Nat
  | .write w =>
    match ansWrite x w with
    | some y => (.ok, y, data.set x.bulk.length w)
    | none => (.full, x, data)
  | .readS => (.word (ansRead x).1, (ansRead x).2, data)
  | .pos => (.num (Ans.pos x).1, x, data)
  | .remS => (.num x.bulk.length, x, data)
  | .seek p =>
    if p ≤ data.length then (.ok, { x with bulk := (data.take p).reverse }, data)
    else (.err, x, data)
  | _ => (.unsupported, x, data)

def absRunCur : Ans.Coder → List Nat → List Op → List Out × Ans.Coder × List Nat
  | x, d, [] => ([], x, d)
  | x, d, op :: ops =>
    ((absStepCur x d op).1 ::
        (absRunCur (absStepCur x d op).2.1 (absStepCur x d op).2.2 ops).1,
      (absRunCur (absStepCur x d op).2.1 (absStepCur x d op).2.2 ops).2)

theorem _root_.CV.Backend.Cursor.readStack_buf {c c' : Cursor} {o : Option Nat}
    (h : c.readStack = .ok (o, c')) : c'.buf = c.buf := by
  by_cases hp : c.pos = 0
  · simp [Cursor.readStack, hp] at h
    rw [← h.2]
  · cases hb : c.buf[c.pos - 1]? with
    | none => simp [Cursor.readStack, hp, hb] at h
    | some w =>
      simp [Cursor.readStack, hp, hb] at h
      rw [← h.2]

theorem cur_step_sim (c : Cursor) (hI : c.Inv) (st : Nat) (op : Op) (h : AnsOp op = true) :
    ∃ c', Cur.step true (.fwd c) op = .ok ((absStepCur (absCur c st) c.buf op).1, .fwd c') ∧
      c'.Inv ∧ absCur c' st = (absStepCur (absCur c st) c.buf op).2.1 ∧
      c'.buf = (absStepCur (absCur c st) c.buf op).2.2 := by
  have hlen : (absCur c st).bulk.length = c.pos := by
    unfold Cursor.Inv at hI; simp [absCur, Nat.min_eq_left hI]
  cases op with
  | write w =>
    have hw := cur_write c hI st w
    cases hc : c.write w with
    | ok c' =>
      rw [hc] at hw
      have hI' : c'.Inv := by
        unfold Cursor.write at hc
        split at hc
        · cases hc; simp [Cursor.Inv]; omega
        · cases hc
      have hb : c'.buf = c.buf.set c.pos w := by
        unfold Cursor.write at hc
        split at hc
        · cases hc; rfl
        · cases hc
      exact ⟨c', by simp [Cur.step, hc, absStepCur, hw], hI', by simp [absStepCur, hw],
        by simp [absStepCur, hw, hlen, hb]⟩
    | error e =>
      rw [hc] at hw
      have he : e = .outOfSpace := by
        unfold Cursor.write at hc
        split at hc
        · cases hc
        · exact (Except.error.inj hc).symm
      subst he
      exact ⟨c, by simp [Cur.step, hc, absStepCur, hw], hI, by simp [absStepCur, hw],
        by simp [absStepCur, hw]⟩
  | readS =>
    obtain ⟨c', h1, h2, h3⟩ := cur_read c hI st
    have hb : c'.buf = c.buf := Cursor.readStack_buf h1
    exact ⟨c', by simp [Cur.step, h1, absStepCur], h3, by simp [absStepCur, h2], by simp [absStepCur, hb]⟩
  | pos =>
    exact ⟨c, by simp [Cur.step, absStepCur, Ans.pos, (cur_pos c hI st).1], hI, rfl, rfl⟩
  | remS =>
    exact ⟨c, by simp [Cur.step, absStepCur, (cur_pos c hI st).2], hI, rfl, rfl⟩
  | seek p =>
    by_cases hp : p ≤ c.buf.length
    · refine ⟨{ c with pos := p }, by simp [Cur.step, Cursor.seek_le c p hp, absStepCur, hp],
        by simp [Cursor.Inv]; exact hp, by simp [absStepCur, hp, absCur], by simp [absStepCur, hp]⟩
    · have : p > c.buf.length := by omega
      exact ⟨c, by simp [Cur.step, Cursor.seek, this, absStepCur, hp], hI, by simp [absStepCur, hp],
        by simp [absStepCur, hp]⟩
  | _ => simp [AnsOp] at h

/-- **(2) lifted**: a `Cursor` (invariant `pos ≤ len`) used as a stack and the ANS model's
    `(bulk, cap = some len)` together with the buffer agree on every history -/
theorem cur_run_sim (ops : List Op) : ∀ (c : Cursor) (st : Nat), c.Inv →
    (∀ op ∈ ops, AnsOp op = true) →
    ∃ c', Cur.run true (.fwd c) ops = ((absRunCur (absCur c st) c.buf ops).1, .ok (.fwd c')) ∧
      c'.Inv ∧ absCur c' st = (absRunCur (absCur c st) c.buf ops).2.1 ∧
      c'.buf = (absRunCur (absCur c st) c.buf ops).2.2 := by
  induction ops with
  | nil => intro c st hI _; exact ⟨c, rfl, hI, rfl, rfl⟩
  | cons op ops ih =>
    intro c st hI h
    obtain ⟨c1, h1, hI1, h2, hb1⟩ := cur_step_sim c hI st op (h op (by simp))
    obtain ⟨c2, h3, hI2, h4, hb2⟩ := ih c1 st hI1 (fun o ho => h o (by simp [ho]))
    refine ⟨c2, ?_, hI2, ?_, ?_⟩
    · simp [Cur.run, h1, h3, absRunCur, h2, hb1]
    · simp [absRunCur, ← h2, ← hb1, h4]
    · simp [absRunCur, ← h2, ← hb1, hb2]

end CV.Backend.AnsAbs
