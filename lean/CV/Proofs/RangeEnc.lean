import CV.Proofs.RangeBasic
/-!
# Range encoder: the invariant is preserved by `encode_symbol` (and nothing faults)
-/
namespace CV.Range

theorem carry_room {U b q m r : Nat} (h1 : q * U + m + r < b * U) (h2 : U ≤ m + r) :
    q + 1 < b := by
  have h3 : (q + 1) * U < b * U := by rw [Nat.add_mul]; omega
  exact Nat.lt_of_mul_lt_mul_right h3

theorem wrap_low {U b q m r : Nat} (hq : q < b) (h1 : b * U ≤ q * U + m + r) : U ≤ m + r := by
  have h3 : (q + 1) * U ≤ b * U := Nat.mul_le_mul_right U hq
  rw [Nat.add_mul] at h3; omega

/-- invariant of the renormalisation step -/
theorem renormP_inv {c : Cfg} (hc : RValid c) {bulk : List Nat} {sit : Situation}
    {lower range : Nat} (hb : WordsOK c bulk) (hl : lower < 2^c.S)
    (hlo : 2^(c.S - c.W) ≤ range * 2^c.W) (hhi : range < 2^c.S)
    (hs : SitInv c lower range sit) : Inv c (renormP c bulk sit lower range) := by
  have hT := hc.pow_S
  have hU := two_pow_pos' (c.S - c.W)
  have hbp := two_pow_pos' c.W
  unfold renormP
  by_cases hlt : range < 2^(c.S - c.W)
  · simp only [hlt, if_true]
    have hr2 : range * 2^c.W < 2^c.S := by
      rw [hT]; exact Nat.mul_lt_mul_of_pos_right hlt hbp
    have hl2 : (lower % 2^(c.S - c.W)) * 2^c.W < 2^c.S := by
      rw [hT]; exact Nat.mul_lt_mul_of_pos_right (Nat.mod_lt _ hU) hbp
    have hdm := Nat.div_add_mod lower (2^(c.S - c.W))
    have hq : lower / 2^(c.S - c.W) < 2^c.W := by
      rw [Nat.div_lt_iff_lt_mul hU, Nat.mul_comm, ← hT]; exact hl
    cases sit with
    | inverted n first =>
      obtain ⟨hn, hf, hw⟩ := hs
      refine ⟨hb, hl2, hlo, hr2, by omega, hf, ?_⟩
      have : 2^(c.S - c.W) ≤ lower % 2^(c.S - c.W) + range := by
        apply wrap_low hq (U := 2^(c.S - c.W)) (b := 2^c.W)
        rw [Nat.mul_comm (2^c.W), ← hT, Nat.mul_comm (lower / 2^(c.S - c.W))]; omega
      rw [← Nat.add_mul, hT]
      exact Nat.mul_le_mul_right _ this
    | normal =>
      simp only [SitInv] at hs
      by_cases hw : (lower % 2^(c.S - c.W)) * 2^c.W + range * 2^c.W < 2^c.S
      · simp only [hw, if_true]
        exact ⟨hb.append (WordsOK.cons hq WordsOK.nil), hl2, hlo, hr2, hw⟩
      · simp only [hw, if_false]
        refine ⟨hb, hl2, hlo, hr2, Nat.le_refl 1, ?_, Nat.le_of_not_lt hw⟩
        have hge : 2^(c.S - c.W) ≤ lower % 2^(c.S - c.W) + range := by
          rw [← Nat.add_mul, hT] at hw
          have := Nat.le_of_not_lt hw
          exact Nat.le_of_mul_le_mul_right this hbp
        apply carry_room (U := 2^(c.S - c.W)) (m := lower % 2^(c.S - c.W)) (r := range) _ hge
        rw [Nat.mul_comm (2^c.W), ← hT, Nat.mul_comm (lower / 2^(c.S - c.W))]; omega
  · simp only [hlt, if_false]
    exact ⟨hb, hl, Nat.le_of_not_lt hlt, hhi, hs⟩

theorem heldP_wordsOK {c : Cfg} {n first : Nat} {carry : Bool} (hf : first + 1 < 2^c.W) :
    WordsOK c (heldP c n first carry) := by
  have hb := two_pow_pos' c.W
  unfold heldP
  cases carry
  · simp only [Bool.false_eq_true, if_false]
    exact WordsOK.cons (by omega) (WordsOK.replicate (by omega))
  · simp only [if_true]
    exact WordsOK.cons hf (WordsOK.replicate hb)

/-- what the first half of `encode_symbol` establishes -/
theorem resolveP_inv {c : Cfg} {e : Encoder} {nl r1 : Nat}
    (hb : WordsOK c e.bulk) (hr1 : 0 < r1) (hr1' : r1 < 2^c.S) (_hnl : nl < 2^c.S)
    (hnorm : e.situation = .normal → nl + r1 < 2^c.S)
    (hinv : ∀ n first, e.situation = .inverted n first → 1 ≤ n ∧ first + 1 < 2^c.W) :
    WordsOK c (resolveP c e nl r1).1 ∧ SitInv c nl r1 (resolveP c e nl r1).2 := by
  unfold resolveP
  cases hsit : e.situation with
  | normal => exact ⟨hb, hnorm hsit⟩
  | inverted n first =>
    obtain ⟨hn, hf⟩ := hinv n first hsit
    by_cases h : (nl + r1) % 2^c.S > nl
    · simp only [h, if_true]
      refine ⟨hb.append (heldP_wordsOK hf), ?_⟩
      simp only [SitInv]
      by_cases hlt : nl + r1 < 2^c.S
      · exact hlt
      · exfalso
        have hsub : (nl + r1) % 2^c.S = nl + r1 - 2^c.S := by
          rw [Nat.mod_eq_sub_mod (by omega)]
          exact Nat.mod_eq_of_lt (by omega)
        omega
    · simp only [h, if_false]
      refine ⟨hb, hn, hf, ?_⟩
      by_cases hlt : nl + r1 < 2^c.S
      · exfalso
        rw [Nat.mod_eq_of_lt hlt] at h; omega
      · omega

/-- **Encoder invariant is preserved** (pure form). -/
theorem encPure_inv {c : Cfg} (hc : RValid c) {e : Encoder} (hI : Inv c e) {cum p : Nat}
    (hp : 0 < p) (hcp : cum + p ≤ 2^c.P) : Inv c (encPure c e cum p) := by
  obtain ⟨hb, hl, hr, hr2, hs⟩ := hI
  obtain ⟨hsc1, hsc2, hsc3⟩ := scale_facts hc hr hr2 hp hcp
  have hT := two_pow_pos' c.S
  have hsplit : e.range / 2^c.P * (cum + p) = e.range / 2^c.P * cum + e.range / 2^c.P * p :=
    Nat.mul_add _ _ _
  have hres := resolveP_inv (c := c) (e := e)
    (nl := (e.lower + e.range / 2^c.P * cum) % 2^c.S) (r1 := e.range / 2^c.P * p)
    hb hsc3 (by omega) (Nat.mod_lt _ hT)
    (by
      intro hn
      rw [hn] at hs
      simp only [SitInv] at hs
      have hlt : e.lower + e.range / 2^c.P * cum < 2^c.S := by omega
      rw [Nat.mod_eq_of_lt hlt]; omega)
    (by
      intro n first hn
      rw [hn] at hs
      exact ⟨hs.1, hs.2.1⟩)
  unfold encPure
  refine renormP_inv hc hres.1 (Nat.mod_lt _ hT) ?_ (by omega) hres.2
  -- `scale * p * 2^W ≥ 2^(S-W)`
  have h1 : 2^(c.S - c.W - c.P) ≤ e.range / 2^c.P * p :=
    Nat.le_trans hsc1 (Nat.le_mul_of_pos_right _ hp)
  have h2 : 2^(c.S - c.W) ≤ 2^(c.S - c.W - c.P) * 2^c.W := by
    rw [← Nat.pow_add]
    have := hc.P_le_W
    have := hc.two_W_le
    exact Nat.pow_le_pow_right (by omega) (by omega)
  exact Nat.le_trans h2 (Nat.mul_le_mul_right _ h1)

/-- **(a)** `encode_symbol` on a state satisfying the invariant, with a legal `(cum, p)`:
    no fault (`scale·p ≠ 0`, no overflow, `first + 1` fits) and the invariant is preserved. -/
theorem encodeCP_ok {c : Cfg} (hc : RValid c) {e : Encoder} (hI : Inv c e) (hf : Fits c e 1)
    {cum p : Nat} (hp : 0 < p) (hcp : cum + p ≤ 2^c.P) :
    ∃ e', encodeCP c e cum p = .ok e' ∧ Inv c e' :=
  ⟨_, encodeCP_eq_pure hc hI hf hp hcp, encPure_inv hc hI hp hcp⟩

/-- the same through the model lookup -/
theorem encode_ok {Sym : Type} {c : Cfg} (hc : RValid c) {m : Model Sym} (hm : m.WellFormed c.P)
    {e : Encoder} (hI : Inv c e) (hf : Fits c e 1) {s : Sym} {cum p : Nat}
    (hs : m.enc s = some (cum, p)) :
    ∃ e', encode c m s e = .ok e' ∧ Inv c e' := by
  obtain ⟨hp, hcp, _, _⟩ := hm.1 s cum p hs
  unfold encode
  rw [hs]
  exact encodeCP_ok hc hI hf hp hcp

/-- an impossible symbol is rejected and nothing else happens (the function is pure) -/
theorem encode_impossible {Sym : Type} {c : Cfg} {m : Model Sym} {e : Encoder} {s : Sym}
    (hs : m.enc s = none) : encode c m s e = .error .impossible := by
  unfold encode; rw [hs]

end CV.Range
