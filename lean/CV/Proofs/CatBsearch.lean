import CV.Proofs.CatSpec
/-!
# `slice::binary_search_by` as the cdf-based models call it

For a (weakly) sorted slice the transcription of the standard library loop returns the index
of the first element above the quantile, never faults, and so never reaches the
`unreachable_unchecked` / out-of-bounds sites.
-/
namespace CV.Cat
open CV

/-- sortedness in index form -/
def MonoIdx (a : List Nat) : Prop := ∀ i j, i ≤ j → j < a.length → a.getD i 0 ≤ a.getD j 0

theorem MonoIdx.of_pairwise {a : List Nat} (h : a.Pairwise (· < ·)) : MonoIdx a :=
  fun _ _ hij hj => pairwise_getD_le h hij hj

theorem bsearchLoop_spec (a : List Nat) (q : Nat) (hmono : MonoIdx a) :
    ∀ (size base : Nat), 1 ≤ size → base + size ≤ a.length →
      (∀ i, i < base → a.getD i 0 ≤ q) →
      (∀ i, base + size ≤ i → i < a.length → q < a.getD i 0) →
      ∃ b, bsearchLoop a q size base = .ok b ∧ b < a.length ∧ (∀ i, i < b → a.getD i 0 ≤ q) ∧
        (∀ i, b + 1 ≤ i → i < a.length → q < a.getD i 0) := by
  intro size
  induction size using Nat.strongRecOn with
  | _ size ih =>
    intro base hs hb hlo hhi
    rw [bsearchLoop]
    by_cases h1 : size > 1
    · rw [dif_pos h1]
      have hmid : base + size / 2 < a.length := by omega
      simp only [getElem?_of_lt (d := 0) hmid]
      by_cases hx : a.getD (base + size / 2) 0 ≤ q
      · rw [if_pos hx]
        apply ih (size - size / 2) (by omega) (base + size / 2) (by omega) (by omega)
        · intro i hi
          exact Nat.le_trans (hmono i (base + size / 2) (by omega) hmid) hx
        · intro i hi1 hi2
          exact hhi i (by omega) hi2
      · rw [if_neg hx]
        apply ih (size - size / 2) (by omega) base (by omega) (by omega) hlo
        intro i hi1 hi2
        have := hmono (base + size / 2) i (by omega) hi2
        omega
    · rw [dif_neg h1]
      refine ⟨base, rfl, by omega, hlo, ?_⟩
      intro i hi1 hi2
      exact hhi i (by omega) hi2

/-- the result of the search on a sorted slice -/
theorem bsearch_spec {a : List Nat} (q : Nat) (hmono : MonoIdx a) :
    ∃ k, bsearch a q = .ok k ∧ k ≤ a.length ∧ (∀ i, i < k → a.getD i 0 ≤ q) ∧
      (∀ i, k ≤ i → i < a.length → q < a.getD i 0) := by
  unfold bsearch
  by_cases h0 : a.length = 0
  · rw [if_pos h0]
    exact ⟨0, rfl, by omega, by intro i hi; omega, by intro i _ hi; omega⟩
  · rw [if_neg h0]
    obtain ⟨b, hb, hlt, hlo, hhi⟩ := bsearchLoop_spec a q hmono a.length 0 (by omega) (by omega)
      (by intro i hi; omega) (by intro i h1 h2; omega)
    rw [hb]
    simp only
    rw [getElem?_of_lt (d := 0) hlt]
    simp only
    by_cases hx : a.getD b 0 ≤ q
    · rw [if_pos hx]
      refine ⟨b + 1, rfl, by omega, ?_, hhi⟩
      intro i hi
      rcases Nat.lt_or_ge i b with h | h
      · exact hlo i h
      · have : i = b := by omega
        subst this; exact hx
    · rw [if_neg hx]
      refine ⟨b, rfl, by omega, hlo, ?_⟩
      intro i hi1 hi2
      rcases Nat.lt_or_ge b i with h | h
      · exact hhi i (by omega) hi2
      · have : i = b := by omega
        subst this; omega

end CV.Cat
