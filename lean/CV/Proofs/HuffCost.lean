import CV.Proofs.HuffSpec
/-!
# Weighted path length of a tree; how it changes under leaf splitting and sibling merging

(After J. Blanchette, "Proof pearl: Mechanizing the textbook proof of Huffman's algorithm".)
Weights are a function `w : Nat → Nat` on leaf labels.
-/
namespace CV.Huff

namespace Tree

def weight (w : Nat → Nat) : Tree → Nat
  | leaf a => w a
  | node _ l r => weight w l + weight w r

/-- `Σ_leaves w · depth`, in the recursive form -/
def cost (w : Nat → Nat) : Tree → Nat
  | leaf _ => 0
  | node _ l r => weight w l + cost w l + weight w r + cost w r

theorem weight_cost_congr {w w' : Nat → Nat} : ∀ (t : Tree), (∀ x ∈ t.leaves, w x = w' x) →
    weight w t = weight w' t ∧ cost w t = cost w' t
  | leaf a, h => by simp [weight, cost, h a (by simp [leaves])]
  | node _ l r, h => by
    have hl := weight_cost_congr l (fun x hx => h x (by simp [leaves, hx]))
    have hr := weight_cost_congr r (fun x hx => h x (by simp [leaves, hx]))
    simp [weight, cost, hl.1, hl.2, hr.1, hr.2]

theorem weight_eq_sum (w : Nat → Nat) : ∀ (t : Tree), weight w t = (t.leaves.map w).sum
  | leaf a => by simp [weight, leaves]
  | node _ l r => by simp [weight, leaves, weight_eq_sum w l, weight_eq_sum w r]

theorem sum_map_add_one (w d : Nat → Nat) (l : List Nat) :
    (l.map (fun s => w s * (d s + 1))).sum = (l.map w).sum + (l.map (fun s => w s * d s)).sum := by
  induction l with
  | nil => simp
  | cons x xs ih =>
    simp only [List.map_cons, List.sum_cons]
    rw [ih, Nat.mul_add]; omega

/-- `cost` is `Σ_leaves w · depth` -/
theorem cost_eq_sum (w : Nat → Nat) : ∀ (t : Tree), t.leaves.Nodup →
    cost w t = (t.leaves.map (fun s => w s * t.depth s)).sum
  | leaf a, _ => by simp [cost, leaves, depth, code]
  | node i l r, hnd => by
    simp only [leaves] at hnd
    rw [List.nodup_append] at hnd
    obtain ⟨hl, hr, hdis⟩ := hnd
    simp only [cost, leaves, List.map_append, List.sum_append]
    have e1 : l.leaves.map (fun s => w s * (node i l r).depth s) =
        l.leaves.map (fun s => w s * (l.depth s + 1)) := by
      apply List.map_congr_left
      intro s hs; rw [depth_node_left hs]
    have e2 : r.leaves.map (fun s => w s * (node i l r).depth s) =
        r.leaves.map (fun s => w s * (r.depth s + 1)) := by
      apply List.map_congr_left
      intro s hs
      have : s ∉ l.leaves := fun h => hdis s h s hs rfl
      rw [depth_node_right this hs]
    rw [e1, e2, sum_map_add_one, sum_map_add_one, ← weight_eq_sum w l, ← weight_eq_sum w r,
      ← cost_eq_sum w l hl, ← cost_eq_sum w r hr]
    omega

/-- splitting leaf `z` into `a`, `b`: the cost grows by `w a + w b` -/
theorem split_cost {w w' : Nat → Nat} {z a b : Nat} (hz : w' z = w a + w b) :
    ∀ (t : Tree), t.leaves.Nodup → z ∈ t.leaves → (∀ x ∈ t.leaves, x ≠ z → w' x = w x) →
    weight w (split z a b t) = weight w' t ∧ cost w (split z a b t) = cost w' t + w a + w b
  | leaf x, _, hm, _ => by
    simp only [leaves, List.mem_singleton] at hm
    subst hm
    simp [split, weight, cost, hz]
  | node i l r, hnd, hm, hw => by
    simp only [leaves] at hnd hm
    rw [List.nodup_append] at hnd
    obtain ⟨hl, hr, hdis⟩ := hnd
    have hwl : ∀ x ∈ l.leaves, x ≠ z → w' x = w x := fun x hx => hw x (by simp [leaves, hx])
    have hwr : ∀ x ∈ r.leaves, x ≠ z → w' x = w x := fun x hx => hw x (by simp [leaves, hx])
    by_cases hzl : z ∈ l.leaves
    · have hzr : z ∉ r.leaves := fun h => hdis z hzl z h rfl
      have ih := split_cost hz l hl hzl hwl
      have hc := weight_cost_congr (w := w) (w' := w') r (fun x hx =>
        (hwr x hx (fun e => hzr (e ▸ hx))).symm)
      obtain ⟨ih1, ih2⟩ := ih
      obtain ⟨hc1, hc2⟩ := hc
      simp only [split, weight, cost, split_of_not_mem z a b r hzr]
      omega
    · have hzr : z ∈ r.leaves := by
        rcases List.mem_append.mp hm with h | h
        · exact absurd h hzl
        · exact h
      have ih := split_cost hz r hr hzr hwr
      have hc := weight_cost_congr (w := w) (w' := w') l (fun x hx =>
        (hwl x hx (fun e => hzl (e ▸ hx))).symm)
      obtain ⟨ih1, ih2⟩ := ih
      obtain ⟨hc1, hc2⟩ := hc
      simp only [split, weight, cost, split_of_not_mem z a b l hzl]
      omega

/-- `a` and `b` are sibling leaves somewhere in the tree (in either order) -/
def sib (a b : Nat) : Tree → Prop
  | leaf _ => False
  | node _ l r =>
    (l = leaf a ∧ r = leaf b) ∨ (l = leaf b ∧ r = leaf a) ∨ sib a b l ∨ sib a b r

/-- merging the sibling leaves `a`, `b` into a fresh leaf `z`: the cost shrinks by `w a + w b` -/
theorem merge_cost {w w' : Nat → Nat} {z a b : Nat} (hz : w' z = w a + w b) :
    ∀ (t : Tree), sib a b t → z ∉ t.leaves → (∀ x ∈ t.leaves, w' x = w x) →
    ∃ (V : Tree) (R : List Nat), t.leaves.Perm (a :: b :: R) ∧ V.leaves.Perm (z :: R) ∧
      weight w' V = weight w t ∧ cost w' V + w a + w b = cost w t
  | leaf _, hs, _, _ => by simp [sib] at hs
  | node i l r, hs, hzt, hw => by
    simp only [leaves, List.mem_append, not_or] at hzt
    have hwl : ∀ x ∈ l.leaves, w' x = w x := fun x hx => hw x (by simp [leaves, hx])
    have hwr : ∀ x ∈ r.leaves, w' x = w x := fun x hx => hw x (by simp [leaves, hx])
    simp only [sib] at hs
    rcases hs with ⟨rfl, rfl⟩ | ⟨rfl, rfl⟩ | hs | hs
    · exact ⟨leaf z, [], by simp [leaves], by simp [leaves], by simp [weight, hz],
        by simp [weight, cost]⟩
    · refine ⟨leaf z, [], ?_, by simp [leaves], by simp [weight, hz]; omega,
        by simp [weight, cost]; omega⟩
      simp only [leaves, List.cons_append, List.nil_append]
      exact List.Perm.swap _ _ _
    · obtain ⟨V, R, h1, h2, h3, h4⟩ := merge_cost hz l hs hzt.1 hwl
      have hc := weight_cost_congr (w := w') (w' := w) r hwr
      refine ⟨node i V r, R ++ r.leaves, ?_, ?_, ?_, ?_⟩
      · simpa [leaves] using h1.append_right r.leaves
      · simpa [leaves] using h2.append_right r.leaves
      · simp only [weight, h3, hc.1]
      · simp only [cost, h3, hc.1, hc.2]; omega
    · obtain ⟨V, R, h1, h2, h3, h4⟩ := merge_cost hz r hs hzt.2 hwr
      have hc := weight_cost_congr (w := w') (w' := w) l hwl
      refine ⟨node i l V, l.leaves ++ R, ?_, ?_, ?_, ?_⟩
      · simp only [leaves]
        refine (h1.append_left l.leaves).trans ?_
        refine List.perm_middle.trans (List.Perm.cons _ ?_)
        exact List.perm_middle
      · simp only [leaves]
        exact (h2.append_left l.leaves).trans List.perm_middle
      · simp only [weight, h3, hc.1]
      · simp only [cost, h3, hc.1, hc.2]; omega

end Tree

end CV.Huff
