import CV.Proofs.HuffTree
/-!
# The two constructors write down the tree of `treeLoop`

`EncDesc arr t`: the encoder's parent array `arr` holds, for both children of every internal
node `i` of `t`, the entry `i << 1 | bit`.  `DecDesc tab n t`: the decoder's child table holds
at position `i - n` the pair of children of the internal node `i`.
-/
namespace CV.Huff

def EncDesc (arr : List Nat) : Tree → Prop
  | .leaf _ => True
  | .node i l r =>
    arr[l.rootId]? = some (2 * i) ∧ arr[r.rootId]? = some (2 * i + 1) ∧ EncDesc arr l ∧ EncDesc arr r

def DecDesc (tab : List (Nat × Nat)) (n : Nat) : Tree → Prop
  | .leaf _ => True
  | .node i l r =>
    n ≤ i ∧ tab[i - n]? = some (l.rootId, r.rootId) ∧ DecDesc tab n l ∧ DecDesc tab n r

theorem EncDesc_split {arr : List Nat} {z a b : Nat}
    (ha : arr[a]? = some (2 * z)) (hb : arr[b]? = some (2 * z + 1)) :
    ∀ (t : Tree), EncDesc arr t → EncDesc arr (Tree.split z a b t)
  | .leaf x, _ => by
    simp only [Tree.split]
    split
    · simp [EncDesc, Tree.rootId, ha, hb]
    · simp [EncDesc]
  | .node i l r, h => by
    simp only [EncDesc] at h
    simp only [Tree.split, EncDesc, Tree.rootId_split]
    exact ⟨h.1, h.2.1, EncDesc_split ha hb l h.2.2.1, EncDesc_split ha hb r h.2.2.2⟩

theorem DecDesc_split {tab : List (Nat × Nat)} {n z a b : Nat}
    (hz : n ≤ z) (hab : tab[z - n]? = some (a, b)) :
    ∀ (t : Tree), DecDesc tab n t → DecDesc tab n (Tree.split z a b t)
  | .leaf x, _ => by
    simp only [Tree.split]
    split
    · simp [DecDesc, Tree.rootId, hz, hab]
    · simp [DecDesc]
  | .node i l r, h => by
    simp only [DecDesc] at h
    simp only [Tree.split, DecDesc, Tree.rootId_split]
    exact ⟨h.1, h.2.1, DecDesc_split hz hab l h.2.2.1, DecDesc_split hz hab r h.2.2.2⟩

theorem shl1 {next : Nat} (h : next < 2^63) : (next <<< 1) % 2^64 = 2 * next := by
  rw [Nat.shiftLeft_eq]; omega

theorem or1 (x : Nat) : (2 * x) ||| 1 = 2 * x + 1 := by
  have h2 : 2 * x = x <<< 1 := by rw [Nat.shiftLeft_eq]; omega
  rw [h2]
  exact (Nat.shiftLeft_add_eq_or_of_lt (b := 1) (i := 1) (by decide) x).symm

section
variable {α : Type} (ops : WeightOps α)

/-- `prob0 + prob1` and the push either succeed or panic; they never touch an unsafe site -/
theorem addPush_error {a b : α} {h2 : List (α × Nat)} {f : Fault}
    (h : addPush ops a b h2 = .error f) : ∀ site, f ≠ .ub site := by
  intro site
  simp only [addPush] at h
  split at h
  · injection h with h; subst h; simp
  · split at h
    · injection h with h; subst h; simp
    · simp at h

/-- if the merge loop succeeds abstractly (`treeLoop`), the encoder loop succeeds and its array
describes that tree -/
theorem encLoop_spec : ∀ (fuel : Nat) (heap : List (α × Nat)) (arr : List Nat) (next : Nat),
    HeapOK heap next → fuel = heap.length →
    next + heap.length ≤ arr.length + 1 → next + heap.length ≤ 2^63 →
    ∀ T, treeLoop ops fuel heap next = some T →
    ∃ arr', encLoop ops fuel heap arr next = .ok arr' ∧ arr'.length = arr.length ∧
      (∀ j, (heap.length = 1 ∨ (j ∉ heap.map (·.2) ∧ (j < next ∨ next + heap.length ≤ j + 2))) →
        arr'[j]? = arr[j]?) ∧ EncDesc arr' T
  | 0, heap, _, _, _, _, _, _, T, hT => by simp [treeLoop] at hT
  | fuel + 1, heap, arr, next, hok, hf, hlen, h63, T, hT => by
    simp only [treeLoop] at hT
    cases e1 : popMin ops heap with
    | none => simp [e1] at hT
    | some ah =>
      obtain ⟨a, h1⟩ := ah
      simp only [e1] at hT
      cases e2 : popMin ops h1 with
      | none =>
        simp only [e2] at hT
        injection hT with hT; subst hT
        exact ⟨arr, by simp [encLoop, e1, e2], rfl, fun _ _ => rfl, by simp [EncDesc]⟩
      | some bh =>
        obtain ⟨b, h2⟩ := bh
        simp only [e2] at hT
        cases hadd : addPush ops a.1 b.1 h2 with
        | error f => simp [hadd] at hT
        | ok w =>
          simp only [hadd, Option.map_eq_some_iff] at hT
          obtain ⟨T', hT', rfl⟩ := hT
          obtain ⟨ha, hb, hab, ha2, hb2, hl, hok'⟩ := pop2_facts hok e1 e2 w
          have hn63 : next < 2^63 := by omega
          have haL : a.2 < arr.length := by omega
          have hbL : b.2 < (arr.set a.2 ((next <<< 1) % 2^64)).length := by simp; omega
          have hc : cadd "huff.enc.next" 64 next 1 = .ok (next + 1) := by
            simp only [cadd]; rw [if_pos (by omega)]
          simp only [encLoop, e1, e2, hadd, haL, hbL, if_true, hc]
          rw [shl1 hn63, or1]
          obtain ⟨arr', hrun, hlen', hkeep, hd⟩ :=
            encLoop_spec fuel ((w, next) :: h2)
              ((arr.set a.2 (2 * next)).set b.2 (2 * next + 1)) (next + 1) hok'
              (by simp; omega) (by simp; omega) (by simp; omega) T' hT'
          refine ⟨arr', hrun, by simpa using hlen', ?_, ?_⟩
          · intro j hj
            have hj' : j ∉ heap.map (·.2) ∧ (j < next ∨ next + heap.length ≤ j + 2) := by
              rcases hj with h | h
              · omega
              · exact h
            have hmem : ∀ p ∈ [a, b], p.2 ∈ heap.map (·.2) := by
              intro p hp
              have : p ∈ heap := (pop2_perm e1 e2).mem_iff.mpr (by
                simp at hp; rcases hp with rfl | rfl <;> simp)
              exact List.mem_map.mpr ⟨p, this, rfl⟩
            have hja : a.2 ≠ j := fun e => hj'.1 (e ▸ hmem a (by simp))
            have hjb : b.2 ≠ j := fun e => hj'.1 (e ▸ hmem b (by simp))
            have hsub : ∀ x ∈ h2.map (·.2), x ∈ heap.map (·.2) := by
              intro x hx
              obtain ⟨p, hp1, hp2⟩ := List.mem_map.mp hx
              have : p ∈ heap := (pop2_perm e1 e2).mem_iff.mpr (by simp [hp1])
              exact List.mem_map.mpr ⟨p, this, hp2⟩
            rw [hkeep j ?_]
            · simp [hja, hjb]
            · by_cases h2l : h2.length = 0
              · left; simp [h2l]
              · right
                refine ⟨?_, ?_⟩
                · simp only [List.map_cons, List.mem_cons, not_or]
                  refine ⟨?_, fun hx => hj'.1 (hsub j hx)⟩
                  omega
                · simp only [List.length_cons]; omega
          · refine EncDesc_split ?_ ?_ T' hd
            · rw [hkeep a.2 ?_]
              · simp [Ne.symm hab, haL]
              · by_cases h2l : h2.length = 0
                · left; simp [h2l]
                · right
                  refine ⟨?_, by omega⟩
                  simp only [List.map_cons, List.mem_cons, not_or]
                  exact ⟨by omega, ha2⟩
            · rw [hkeep b.2 ?_]
              · have : b.2 < arr.length := by simpa using hbL
                simp [this]
              · by_cases h2l : h2.length = 0
                · left; simp [h2l]
                · right
                  refine ⟨?_, by omega⟩
                  simp only [List.map_cons, List.mem_cons, not_or]
                  exact ⟨by omega, hb2⟩

theorem decLoop_spec (n : Nat) : ∀ (fuel : Nat) (heap : List (α × Nat))
    (acc : List (Nat × Nat)) (next : Nat),
    HeapOK heap next → fuel = heap.length →
    next = n + acc.length → next + heap.length ≤ 2^63 →
    ∀ T, treeLoop ops fuel heap next = some T →
    ∃ tab, decLoop ops fuel heap acc next = .ok tab ∧ tab.length + 1 = acc.length + heap.length ∧
      (∃ ext, tab = acc ++ ext) ∧ DecDesc tab n T
  | 0, heap, _, _, _, _, _, _, T, hT => by simp [treeLoop] at hT
  | fuel + 1, heap, acc, next, hok, hf, hnext, h63, T, hT => by
    simp only [treeLoop] at hT
    cases e1 : popMin ops heap with
    | none => simp [e1] at hT
    | some ah =>
      obtain ⟨a, h1⟩ := ah
      simp only [e1] at hT
      cases e2 : popMin ops h1 with
      | none =>
        simp only [e2] at hT
        injection hT with hT; subst hT
        have h1nil := (popMin_eq_none ops).mp e2
        subst h1nil
        have hheap : heap = [a] := List.perm_singleton.mp (popMin_perm e1)
        subst hheap
        exact ⟨acc, by simp [decLoop, e1, e2], by simp, ⟨[], by simp⟩, by simp [DecDesc]⟩
      | some bh =>
        obtain ⟨b, h2⟩ := bh
        simp only [e2] at hT
        cases hadd : addPush ops a.1 b.1 h2 with
        | error f => simp [hadd] at hT
        | ok w =>
          simp only [hadd, Option.map_eq_some_iff] at hT
          obtain ⟨T', hT', rfl⟩ := hT
          obtain ⟨ha, hb, hab, ha2, hb2, hl, hok'⟩ := pop2_facts hok e1 e2 w
          have hc : cadd "huff.dec.next" 64 next 1 = .ok (next + 1) := by
            simp only [cadd]; rw [if_pos (by omega)]
          simp only [decLoop, e1, e2, hadd, hc]
          obtain ⟨tab, hrun, hlen', ⟨ext, hext⟩, hd⟩ :=
            decLoop_spec n fuel ((w, next) :: h2) (acc ++ [(a.2, b.2)]) (next + 1) hok'
              (by simp; omega) (by simp; omega) (by simp; omega) T' hT'
          refine ⟨tab, hrun, by simp at hlen'; omega, ⟨(a.2, b.2) :: ext, by simp [hext]⟩, ?_⟩
          refine DecDesc_split (by omega) ?_ T' hd
          have : next - n = acc.length := by omega
          rw [this, hext]
          simp

theorem cadd_cases (site : String) (n a b : Nat) :
    cadd site n a b = .ok (a + b) ∨ cadd site n a b = .error (.overflow site) := by
  simp only [cadd]; split <;> simp

/-- conversely, if the encoder loop returns an array then the abstract merge loop succeeded -/
theorem encLoop_ok_tree : ∀ (fuel : Nat) (heap : List (α × Nat)) (arr : List Nat) (next : Nat)
    (arr' : List Nat), heap ≠ [] → encLoop ops fuel heap arr next = .ok arr' →
    ∃ T, treeLoop ops fuel heap next = some T
  | 0, _, _, _, _, _, h => by simp [encLoop] at h
  | fuel + 1, heap, arr, next, arr', hne, h => by
    obtain ⟨a, h1, e1⟩ := popMin_isSome (ops := ops) hne
    simp only [encLoop, e1] at h
    simp only [treeLoop, e1]
    cases e2 : popMin ops h1 with
    | none => exact ⟨_, rfl⟩
    | some bh =>
      obtain ⟨b, h2⟩ := bh
      simp only [e2] at h
      cases hadd : addPush ops a.1 b.1 h2 with
      | error f => simp [hadd] at h
      | ok w =>
        simp only [hadd] at h
        rcases cadd_cases "huff.enc.next" 64 next 1 with hc | hc
        · simp only [hc] at h
          split at h
          · split at h
            · obtain ⟨T', hT'⟩ :=
                encLoop_ok_tree fuel ((w, next) :: h2) _ (next + 1) arr' (by simp) h
              exact ⟨Tree.split next a.2 b.2 T', by simp [hadd, hT']⟩
            · simp at h
          · simp at h
        · simp only [hc] at h
          split at h <;> (try split at h) <;> simp at h

theorem decLoop_ok_tree : ∀ (fuel : Nat) (heap : List (α × Nat)) (acc : List (Nat × Nat))
    (next : Nat) (tab : List (Nat × Nat)), heap ≠ [] →
    decLoop ops fuel heap acc next = .ok tab → ∃ T, treeLoop ops fuel heap next = some T
  | 0, _, _, _, _, _, h => by simp [decLoop] at h
  | fuel + 1, heap, acc, next, tab, hne, h => by
    obtain ⟨a, h1, e1⟩ := popMin_isSome (ops := ops) hne
    simp only [decLoop, e1] at h
    simp only [treeLoop, e1]
    cases e2 : popMin ops h1 with
    | none => exact ⟨_, rfl⟩
    | some bh =>
      obtain ⟨b, h2⟩ := bh
      simp only [e2] at h
      cases hadd : addPush ops a.1 b.1 h2 with
      | error f => simp [hadd] at h
      | ok w =>
        simp only [hadd] at h
        rcases cadd_cases "huff.dec.next" 64 next 1 with hc | hc
        · simp only [hc] at h
          obtain ⟨T', hT'⟩ := decLoop_ok_tree fuel ((w, next) :: h2) _ (next + 1) tab (by simp) h
          exact ⟨Tree.split next a.2 b.2 T', by simp [hadd, hT']⟩
        · simp [hc] at h

/-- a weight type whose `+` never panics and never yields an unorderable sum -/
def Total : Prop := ∀ (a b : α) (h2 : List (α × Nat)), ∃ w, addPush ops a b h2 = .ok w

theorem treeLoop_total (ht : Total ops) : ∀ (fuel : Nat) (heap : List (α × Nat)) (next : Nat),
    fuel = heap.length → heap ≠ [] → ∃ T, treeLoop ops fuel heap next = some T
  | 0, heap, _, hf, hne => absurd (List.eq_nil_of_length_eq_zero hf.symm) hne
  | fuel + 1, heap, next, hf, hne => by
    obtain ⟨a, h1, e1⟩ := popMin_isSome (ops := ops) hne
    simp only [treeLoop, e1]
    cases e2 : popMin ops h1 with
    | none => exact ⟨_, rfl⟩
    | some bh =>
      obtain ⟨b, h2⟩ := bh
      obtain ⟨w, hw⟩ := ht a.1 b.1 h2
      have hl := popMin_length e1
      have hl2 := popMin_length e2
      obtain ⟨T', hT'⟩ := treeLoop_total ht fuel ((w, next) :: h2) (next + 1)
        (by simp; omega) (by simp)
      exact ⟨Tree.split next a.2 b.2 T', by simp [hw, hT']⟩

end

theorem total_exact : Total exactOps := fun a b h2 => ⟨a + b, by simp [addPush, exactOps]⟩
theorem total_wrapping (n : Nat) : Total (wrappingOps n) :=
  fun a b h2 => ⟨(a + b) % 2^n, by simp [addPush, wrappingOps]⟩

/-! ## checked integer weights whose total fits behave like exact weights -/

/-- the sum of all weights in the heap fits `n` bits -/
def NoOverflow (n : Nat) (heap : List (Nat × Nat)) : Prop := (heap.map (·.1)).sum < 2^n

theorem addPush_checked {n : Nat} {heap h1 h2 : List (Nat × Nat)} {a b : Nat × Nat}
    (hno : NoOverflow n heap)
    (e1 : popMin (checkedOps n) heap = some (a, h1))
    (e2 : popMin (checkedOps n) h1 = some (b, h2)) (next : Nat) :
    addPush (checkedOps n) a.1 b.1 h2 = .ok (a.1 + b.1) ∧
      NoOverflow n ((a.1 + b.1, next) :: h2) := by
  have hp := (pop2_perm e1 e2).map (·.1)
  have hs := hp.sum_nat
  simp only [List.map_cons, List.sum_cons] at hs
  simp only [NoOverflow] at hno ⊢
  have : a.1 + b.1 < 2^n := by omega
  simp only [addPush, checkedOps, this, if_true, List.map_cons, List.sum_cons]
  exact ⟨by simp, by omega⟩

theorem popMin_checked (n : Nat) (heap : List (Nat × Nat)) :
    popMin (checkedOps n) heap = popMin exactOps heap := by
  induction heap with
  | nil => rfl
  | cons x xs ih => simp only [popMin, ih]; rfl

theorem encLoop_checked (n : Nat) : ∀ (fuel : Nat) (heap : List (Nat × Nat))
    (arr : List Nat) (next : Nat), NoOverflow n heap →
    encLoop (checkedOps n) fuel heap arr next = encLoop exactOps fuel heap arr next
  | 0, _, _, _, _ => by simp [encLoop]
  | fuel + 1, heap, arr, next, hno => by
    cases e1 : popMin (checkedOps n) heap with
    | none => simp [encLoop, e1, ← popMin_checked n heap]
    | some ah =>
      obtain ⟨a, h1⟩ := ah
      have e1' := e1; rw [popMin_checked] at e1'
      cases e2 : popMin (checkedOps n) h1 with
      | none =>
        have e2' := e2; rw [popMin_checked] at e2'
        simp [encLoop, e1, e2, e1', e2']
      | some bh =>
        obtain ⟨b, h2⟩ := bh
        have e2' := e2; rw [popMin_checked] at e2'
        obtain ⟨hadd, hno'⟩ := addPush_checked hno e1 e2 next
        have hadd' : addPush exactOps a.1 b.1 h2 = .ok (a.1 + b.1) := by
          simp [addPush, exactOps]
        simp only [encLoop, e1, e2, e1', e2', hadd, hadd']
        split
        · split
          · split
            · rfl
            · exact encLoop_checked n fuel _ _ _ hno'
          · rfl
        · rfl

theorem decLoop_checked (n : Nat) : ∀ (fuel : Nat) (heap : List (Nat × Nat))
    (acc : List (Nat × Nat)) (next : Nat), NoOverflow n heap →
    decLoop (checkedOps n) fuel heap acc next = decLoop exactOps fuel heap acc next
  | 0, _, _, _, _ => by simp [decLoop]
  | fuel + 1, heap, acc, next, hno => by
    cases e1 : popMin (checkedOps n) heap with
    | none => simp [decLoop, e1, ← popMin_checked n heap]
    | some ah =>
      obtain ⟨a, h1⟩ := ah
      have e1' := e1; rw [popMin_checked] at e1'
      cases e2 : popMin (checkedOps n) h1 with
      | none =>
        have e2' := e2; rw [popMin_checked] at e2'
        simp [decLoop, e1, e2, e1', e2']
      | some bh =>
        obtain ⟨b, h2⟩ := bh
        have e2' := e2; rw [popMin_checked] at e2'
        obtain ⟨hadd, hno'⟩ := addPush_checked hno e1 e2 next
        have hadd' : addPush exactOps a.1 b.1 h2 = .ok (a.1 + b.1) := by
          simp [addPush, exactOps]
        simp only [decLoop, e1, e2, e1', e2', hadd, hadd']
        split
        · rfl
        · exact decLoop_checked n fuel _ _ _ hno'

theorem treeLoop_checked (n : Nat) : ∀ (fuel : Nat) (heap : List (Nat × Nat)) (next : Nat),
    NoOverflow n heap →
    treeLoop (checkedOps n) fuel heap next = treeLoop exactOps fuel heap next
  | 0, _, _, _ => by simp [treeLoop]
  | fuel + 1, heap, next, hno => by
    cases e1 : popMin (checkedOps n) heap with
    | none => simp [treeLoop, e1, ← popMin_checked n heap]
    | some ah =>
      obtain ⟨a, h1⟩ := ah
      have e1' := e1; rw [popMin_checked] at e1'
      cases e2 : popMin (checkedOps n) h1 with
      | none =>
        have e2' := e2; rw [popMin_checked] at e2'
        simp [treeLoop, e1, e2, e1', e2']
      | some bh =>
        obtain ⟨b, h2⟩ := bh
        have e2' := e2; rw [popMin_checked] at e2'
        obtain ⟨hadd, hno'⟩ := addPush_checked hno e1 e2 next
        have hadd' : addPush exactOps a.1 b.1 h2 = .ok (a.1 + b.1) := by
          simp [addPush, exactOps]
        simp only [treeLoop, e1, e2, e1', e2', hadd, hadd']
        rw [treeLoop_checked n fuel _ _ hno']

end CV.Huff
