import CV.Proofs.HuffTree
/-!
# The two constructors write down the tree of `treeLoop`

`EncDesc arr t`: the encoder's parent array `arr` holds, for both children of every internal
node `i` of `t`, the entry `i << 1 | bit`.  `DecDesc tab n t`: the decoder's child table holds
at position `i - n` the pair of children of the internal node `i`.
-/
namespace CV.Huff

def EncDesc (arr : List Nat) : Tree → Prop
  | .leaf _ => True
  | .node i l r =>
    arr[l.rootId]? = some (2 * i) ∧ arr[r.rootId]? = some (2 * i + 1) ∧ EncDesc arr l ∧ EncDesc arr r

def DecDesc (tab : List (Nat × Nat)) (n : Nat) : Tree → Prop
  | .leaf _ => True
  | .node i l r =>
    n ≤ i ∧ tab[i - n]? = some (l.rootId, r.rootId) ∧ DecDesc tab n l ∧ DecDesc tab n r

theorem EncDesc_split {arr : List Nat} {z a b : Nat}
    (ha : arr[a]? = some (2 * z)) (hb : arr[b]? = some (2 * z + 1)) :
    ∀ (t : Tree), EncDesc arr t → EncDesc arr (Tree.split z a b t)
  | .leaf x, _ => by
    simp only [Tree.split]
    split
    · simp [EncDesc, Tree.rootId, ha, hb]
    · simp [EncDesc]
  | .node i l r, h => by
    simp only [EncDesc] at h
    simp only [Tree.split, EncDesc, Tree.rootId_split]
    exact ⟨h.1, h.2.1, EncDesc_split ha hb l h.2.2.1, EncDesc_split ha hb r h.2.2.2⟩

theorem DecDesc_split {tab : List (Nat × Nat)} {n z a b : Nat}
    (hz : n ≤ z) (hab : tab[z - n]? = some (a, b)) :
    ∀ (t : Tree), DecDesc tab n t → DecDesc tab n (Tree.split z a b t)
  | .leaf x, _ => by
    simp only [Tree.split]
    split
    · simp [DecDesc, Tree.rootId, hz, hab]
    · simp [DecDesc]
  | .node i l r, h => by
    simp only [DecDesc] at h
    simp only [Tree.split, DecDesc, Tree.rootId_split]
    exact ⟨h.1, h.2.1, DecDesc_split hz hab l h.2.2.1, DecDesc_split hz hab r h.2.2.2⟩

/-- the sum of all weights fits the weight type -/
def NoOverflow (wb : Option Nat) (heap : List (Nat × Nat)) : Prop :=
  match wb with
  | none => True
  | some k => (heap.map (·.1)).sum < 2^k

theorem addW_ok {wb : Option Nat} {heap h1 h2 : List (Nat × Nat)} {a b : Nat × Nat}
    (hno : NoOverflow wb heap)
    (e1 : popMin heap = some (a, h1)) (e2 : popMin h1 = some (b, h2)) (next : Nat) :
    addW wb a.1 b.1 = .ok (a.1 + b.1) ∧ NoOverflow wb ((a.1 + b.1, next) :: h2) := by
  have hp := (pop2_perm e1 e2).map (·.1)
  have hs := hp.sum_nat
  simp only [List.map_cons, List.sum_cons] at hs
  cases wb with
  | none => simp [addW, NoOverflow]
  | some k =>
    simp only [NoOverflow] at hno ⊢
    simp only [addW, cadd, List.map_cons, List.sum_cons]
    have : a.1 + b.1 < 2^k := by omega
    simp [this]; omega

theorem shl1 {next : Nat} (h : next < 2^63) : (next <<< 1) % 2^64 = 2 * next := by
  rw [Nat.shiftLeft_eq]; omega

theorem or1 (x : Nat) : (2 * x) ||| 1 = 2 * x + 1 := by
  have h2 : 2 * x = x <<< 1 := by rw [Nat.shiftLeft_eq]; omega
  rw [h2]
  exact (Nat.shiftLeft_add_eq_or_of_lt (b := 1) (i := 1) (by decide) x).symm

theorem encLoop_spec (wb : Option Nat) : ∀ (fuel : Nat) (heap : List (Nat × Nat)) (arr : List Nat) (next : Nat),
    HeapOK heap next → fuel = heap.length → heap ≠ [] → NoOverflow wb heap →
    next + heap.length ≤ arr.length + 1 → next + heap.length ≤ 2^63 →
    ∃ arr', encLoop wb fuel heap arr next = .ok arr' ∧ arr'.length = arr.length ∧
      (∀ j, (heap.length = 1 ∨ (j ∉ heap.map (·.2) ∧ (j < next ∨ next + heap.length ≤ j + 2))) →
        arr'[j]? = arr[j]?) ∧
      ∀ T, treeLoop fuel heap next = some T → EncDesc arr' T
  | 0, heap, _, _, _, hf, hne, _, _, _ => by
    exact absurd (List.eq_nil_of_length_eq_zero hf.symm) hne
  | fuel + 1, heap, arr, next, hok, hf, hne, hno, hlen, h63 => by
    obtain ⟨a, h1, e1⟩ := popMin_isSome hne
    simp only [encLoop, treeLoop, e1]
    cases e2 : popMin h1 with
    | none =>
      refine ⟨arr, rfl, rfl, fun _ _ => rfl, ?_⟩
      intro T hT; simp at hT; subst hT; simp [EncDesc]
    | some bh =>
      obtain ⟨b, h2⟩ := bh
      obtain ⟨ha, hb, hab, ha2, hb2, hl, hok'⟩ := pop2_facts hok e1 e2 (a.1 + b.1)
      obtain ⟨hadd, hno'⟩ := addW_ok hno e1 e2 next
      have hn63 : next < 2^63 := by omega
      have haL : a.2 < arr.length := by omega
      have hbL : b.2 < (arr.set a.2 ((next <<< 1) % 2^64)).length := by simp; omega
      have hc : cadd "huff.enc.next" 64 next 1 = .ok (next + 1) := by
        simp only [cadd]; rw [if_pos (by omega)]
      simp only [hadd, haL, hbL, if_true, hc]
      rw [shl1 hn63, or1]
      obtain ⟨arr', hrun, hlen', hkeep, hdesc⟩ :=
        encLoop_spec wb fuel ((a.1 + b.1, next) :: h2)
          ((arr.set a.2 (2 * next)).set b.2 (2 * next + 1)) (next + 1) hok'
          (by simp; omega) (by simp) hno' (by simp; omega) (by simp; omega)
      refine ⟨arr', hrun, by simpa using hlen', ?_, ?_⟩
      · intro j hj
        have hj' : j ∉ heap.map (·.2) ∧ (j < next ∨ next + heap.length ≤ j + 2) := by
          rcases hj with h | h
          · omega
          · exact h
        have hmem : ∀ p ∈ [a, b], p.2 ∈ heap.map (·.2) := by
          intro p hp
          have : p ∈ heap := (pop2_perm e1 e2).mem_iff.mpr (by
            simp at hp; rcases hp with rfl | rfl <;> simp)
          exact List.mem_map.mpr ⟨p, this, rfl⟩
        have hja : a.2 ≠ j := fun e => hj'.1 (e ▸ hmem a (by simp))
        have hjb : b.2 ≠ j := fun e => hj'.1 (e ▸ hmem b (by simp))
        have hsub : ∀ x ∈ h2.map (·.2), x ∈ heap.map (·.2) := by
          intro x hx
          obtain ⟨p, hp1, hp2⟩ := List.mem_map.mp hx
          have : p ∈ heap := (pop2_perm e1 e2).mem_iff.mpr (by simp [hp1])
          exact List.mem_map.mpr ⟨p, this, hp2⟩
        rw [hkeep j ?_]
        · simp [hja, hjb]
        · by_cases h2l : h2.length = 0
          · left; simp [h2l]
          · right
            refine ⟨?_, ?_⟩
            · simp only [List.map_cons, List.mem_cons, not_or]
              refine ⟨?_, fun hx => hj'.1 (hsub j hx)⟩
              omega
            · simp only [List.length_cons]; omega
      · intro T hT
        simp only [Option.map_eq_some_iff] at hT
        obtain ⟨T', hT', rfl⟩ := hT
        have hd := hdesc T' hT'
        refine EncDesc_split ?_ ?_ T' hd
        · rw [hkeep a.2 ?_]
          · simp [Ne.symm hab, haL]
          · by_cases h2l : h2.length = 0
            · left; simp [h2l]
            · right
              refine ⟨?_, by omega⟩
              simp only [List.map_cons, List.mem_cons, not_or]
              exact ⟨by omega, ha2⟩
        · rw [hkeep b.2 ?_]
          · have : b.2 < arr.length := by simpa using hbL
            simp [this]
          · by_cases h2l : h2.length = 0
            · left; simp [h2l]
            · right
              refine ⟨?_, by omega⟩
              simp only [List.map_cons, List.mem_cons, not_or]
              exact ⟨by omega, hb2⟩

theorem decLoop_spec (wb : Option Nat) (n : Nat) : ∀ (fuel : Nat) (heap : List (Nat × Nat))
    (acc : List (Nat × Nat)) (next : Nat),
    HeapOK heap next → fuel = heap.length → heap ≠ [] → NoOverflow wb heap →
    next = n + acc.length → next + heap.length ≤ 2^63 →
    ∃ tab, decLoop wb fuel heap acc next = .ok tab ∧ tab.length + 1 = acc.length + heap.length ∧
      (∃ ext, tab = acc ++ ext) ∧
      ∀ T, treeLoop fuel heap next = some T → DecDesc tab n T
  | 0, heap, _, _, _, hf, hne, _, _, _ => by
    exact absurd (List.eq_nil_of_length_eq_zero hf.symm) hne
  | fuel + 1, heap, acc, next, hok, hf, hne, hno, hnext, h63 => by
    obtain ⟨a, h1, e1⟩ := popMin_isSome hne
    simp only [decLoop, treeLoop, e1]
    cases e2 : popMin h1 with
    | none =>
      have h1nil := popMin_eq_none.mp e2
      subst h1nil
      have hheap : heap = [a] := List.perm_singleton.mp (popMin_perm e1)
      subst hheap
      refine ⟨acc, rfl, by simp, ⟨[], by simp⟩, ?_⟩
      intro T hT; simp at hT; subst hT; simp [DecDesc]
    | some bh =>
      obtain ⟨b, h2⟩ := bh
      obtain ⟨ha, hb, hab, ha2, hb2, hl, hok'⟩ := pop2_facts hok e1 e2 (a.1 + b.1)
      obtain ⟨hadd, hno'⟩ := addW_ok hno e1 e2 next
      have hc : cadd "huff.dec.next" 64 next 1 = .ok (next + 1) := by
        simp only [cadd]; rw [if_pos (by omega)]
      simp only [hadd, hc]
      obtain ⟨tab, hrun, hlen', ⟨ext, hext⟩, hdesc⟩ :=
        decLoop_spec wb n fuel ((a.1 + b.1, next) :: h2) (acc ++ [(a.2, b.2)]) (next + 1) hok'
          (by simp; omega) (by simp) hno' (by simp; omega) (by simp; omega)
      refine ⟨tab, hrun, by simp at hlen'; omega, ⟨(a.2, b.2) :: ext, by simp [hext]⟩, ?_⟩
      intro T hT
      simp only [Option.map_eq_some_iff] at hT
      obtain ⟨T', hT', rfl⟩ := hT
      refine DecDesc_split (by omega) ?_ T' (hdesc T' hT')
      have : next - n = acc.length := by omega
      rw [this, hext]
      simp

/-- as long as the weight sum fits, the weight type is irrelevant -/
theorem encLoop_wb_irrelevant (wb : Option Nat) : ∀ (fuel : Nat) (heap : List (Nat × Nat))
    (arr : List Nat) (next : Nat), NoOverflow wb heap →
    encLoop wb fuel heap arr next = encLoop none fuel heap arr next
  | 0, _, _, _, _ => by simp [encLoop]
  | fuel + 1, heap, arr, next, hno => by
    cases e1 : popMin heap with
    | none => simp [encLoop, e1]
    | some ah =>
      obtain ⟨a, h1⟩ := ah
      cases e2 : popMin h1 with
      | none => simp [encLoop, e1, e2]
      | some bh =>
        obtain ⟨b, h2⟩ := bh
        obtain ⟨hadd, hno'⟩ := addW_ok hno e1 e2 next
        have hadd' : addW none a.1 b.1 = .ok (a.1 + b.1) := rfl
        simp only [encLoop, e1, e2, hadd, hadd']
        split
        · split
          · split
            · rfl
            · next next' _ => exact encLoop_wb_irrelevant wb fuel _ _ _ (by
                cases wb with
                | none => trivial
                | some k => simpa [NoOverflow] using hno')
          · rfl
        · rfl

theorem decLoop_wb_irrelevant (wb : Option Nat) : ∀ (fuel : Nat) (heap acc : List (Nat × Nat))
    (next : Nat), NoOverflow wb heap →
    decLoop wb fuel heap acc next = decLoop none fuel heap acc next
  | 0, _, _, _, _ => by simp [decLoop]
  | fuel + 1, heap, acc, next, hno => by
    cases e1 : popMin heap with
    | none => simp [decLoop, e1]
    | some ah =>
      obtain ⟨a, h1⟩ := ah
      cases e2 : popMin h1 with
      | none => simp [decLoop, e1, e2]
      | some bh =>
        obtain ⟨b, h2⟩ := bh
        obtain ⟨hadd, hno'⟩ := addW_ok hno e1 e2 next
        have hadd' : addW none a.1 b.1 = .ok (a.1 + b.1) := rfl
        simp only [decLoop, e1, e2, hadd, hadd']
        split
        · rfl
        · next next' _ => exact decLoop_wb_irrelevant wb fuel _ _ _ (by
            cases wb with
            | none => trivial
            | some k => simpa [NoOverflow] using hno')

end CV.Huff
