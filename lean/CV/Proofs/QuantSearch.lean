import CV.Proofs.QuantLeaky
/-!
# `LeakilyQuantizedDistribution::quantile_function`: the search is correct for every hint

Model: `LQ.dec` (`CV.Model.Quant`), after the repair D16.  From `m.Ok` and `GOk m g` only:
for **every** hint (any value of the symbol type — the hint is clamped into the support first)
and every quantile `q < 2^P`, the search returns the unique symbol `a` with
`left a ≤ q < right a`, together with `left a` and `right a - left a`; no `Fault`
(no overflow of `symbol ± step`, the `assert!`, the "invalid distribution" panic and the
unchecked `NonZero` are unreachable); and `searchFuel t = 4 * bits + 8` probes of the
distribution always suffice (the proof needs at most `2 * bits + 6`).
-/
namespace CV.Quant

/-! ### two's complement facts -/

theorem wrap_id {t : SymTy} (hb : 1 ≤ t.bits) {x : Int} (h : t.inRange x) : t.wrap x = x := by
  have hp := two_pow_succ_pred hb
  have hpos : 0 < 2 ^ (t.bits - 1) := Nat.pow_pos (by omega)
  unfold SymTy.inRange SymTy.lo SymTy.hi at h
  unfold SymTy.wrap
  by_cases hs : t.signed
  · rw [if_pos hs] at h ⊢
    rw [if_pos hs] at h
    rw [Int.emod_eq_of_lt (by omega) (by omega)]; omega
  · rw [if_neg hs] at h ⊢
    rw [if_neg hs] at h
    exact Int.emod_eq_of_lt (by omega) (by omega)

/-- just below the type: wraps to the top -/
theorem wrap_low {t : SymTy} (hb : 1 ≤ t.bits) {x : Int} (h1 : t.lo - ((2 ^ t.bits : Nat) : Int) ≤ x)
    (h2 : x < t.lo) : t.wrap x = x + ((2 ^ t.bits : Nat) : Int) := by
  have hp := two_pow_succ_pred hb
  have hpos : 0 < 2 ^ (t.bits - 1) := Nat.pow_pos (by omega)
  unfold SymTy.lo at h1 h2
  unfold SymTy.wrap
  by_cases hs : t.signed
  · rw [if_pos hs] at h1 h2 ⊢
    have e : x + ((2 ^ (t.bits - 1) : Nat) : Int)
        = (x + ((2 ^ (t.bits - 1) : Nat) : Int) + ((2 ^ t.bits : Nat) : Int))
          + (-1) * ((2 ^ t.bits : Nat) : Int) := by omega
    rw [e, Int.add_mul_emod_self_right, Int.emod_eq_of_lt (by omega) (by omega)]; omega
  · rw [if_neg hs] at h1 h2 ⊢
    have e : x = (x + ((2 ^ t.bits : Nat) : Int)) + (-1) * ((2 ^ t.bits : Nat) : Int) := by omega
    rw [e, Int.add_mul_emod_self_right, Int.emod_eq_of_lt (by omega) (by omega)]; omega

/-- just above the type: wraps to the bottom -/
theorem wrap_high {t : SymTy} (hb : 1 ≤ t.bits) {x : Int} (h1 : t.hi < x)
    (h2 : x ≤ t.hi + ((2 ^ t.bits : Nat) : Int)) : t.wrap x = x - ((2 ^ t.bits : Nat) : Int) := by
  have hp := two_pow_succ_pred hb
  have hpos : 0 < 2 ^ (t.bits - 1) := Nat.pow_pos (by omega)
  unfold SymTy.hi at h1 h2
  unfold SymTy.wrap
  by_cases hs : t.signed
  · rw [if_pos hs] at h1 h2 ⊢
    have e : x + ((2 ^ (t.bits - 1) : Nat) : Int)
        = (x + ((2 ^ (t.bits - 1) : Nat) : Int) - ((2 ^ t.bits : Nat) : Int))
          + 1 * ((2 ^ t.bits : Nat) : Int) := by omega
    rw [e, Int.add_mul_emod_self_right, Int.emod_eq_of_lt (by omega) (by omega)]; omega
  · rw [if_neg hs] at h1 h2 ⊢
    have e : x = (x - ((2 ^ t.bits : Nat) : Int)) + 1 * ((2 ^ t.bits : Nat) : Int) := by omega
    rw [e, Int.add_mul_emod_self_right, Int.emod_eq_of_lt (by omega) (by omega)]; omega

/-- exponent of the largest power of two that is a positive value of the symbol type -/
def kmax (t : SymTy) : Nat := if t.signed then t.bits - 2 else t.bits - 1

theorem hi_lo_span (t : SymTy) (hb : 1 ≤ t.bits) : t.hi - t.lo + 1 = ((2 ^ t.bits : Nat) : Int) := by
  have hp := two_pow_succ_pred hb
  unfold SymTy.hi SymTy.lo
  by_cases hs : t.signed
  · rw [if_pos hs, if_pos hs]; omega
  · rw [if_neg hs, if_neg hs]; omega

theorem lo_nonpos (t : SymTy) : t.lo ≤ 0 := by
  have : 0 < 2 ^ (t.bits - 1) := Nat.pow_pos (by omega)
  unfold SymTy.lo; by_cases hs : t.signed
  · rw [if_pos hs]; omega
  · rw [if_neg hs]; omega

/-- `2^kmax ≤ hi < 2 * 2^kmax` -/
theorem pow_kmax (t : SymTy) (hb : 2 ≤ t.bits) :
    ((2 ^ kmax t : Nat) : Int) ≤ t.hi ∧ t.hi + 1 = 2 * ((2 ^ kmax t : Nat) : Int) := by
  unfold kmax SymTy.hi
  by_cases hs : t.signed
  · rw [if_pos hs, if_pos hs]
    have := two_pow_succ_pred (b := t.bits - 1) (by omega)
    have e : t.bits - 1 - 1 = t.bits - 2 := by omega
    rw [e] at this
    have hpos : 0 < 2 ^ (t.bits - 2) := Nat.pow_pos (by omega)
    omega
  · rw [if_neg hs, if_neg hs]
    have := two_pow_succ_pred (b := t.bits) (by omega)
    have hpos : 0 < 2 ^ (t.bits - 1) := Nat.pow_pos (by omega)
    omega

theorem pow_mono_int {a b : Nat} (h : a ≤ b) : ((2 ^ a : Nat) : Int) ≤ ((2 ^ b : Nat) : Int) := by
  exact_mod_cast two_pow_le h

theorem pow_succ_int (k : Nat) : ((2 ^ (k + 1) : Nat) : Int) = 2 * ((2 ^ k : Nat) : Int) := by
  rw [Nat.pow_succ]; push_cast; omega

theorem pow_pos_int (k : Nat) : (0 : Int) < ((2 ^ k : Nat) : Int) := by
  have : 0 < 2 ^ k := Nat.pow_pos (by omega)
  omega

/-- `if step << 1 > 0 { step = step << 1 }` doubles exactly while the result stays a positive
    value of the symbol type (D16) -/
theorem dbl_eq {m : LQ} (hb : 2 ≤ m.t.bits) {k : Nat} (hk : k ≤ kmax m.t) :
    m.dbl ((2 ^ k : Nat) : Int) = ((2 ^ (if k < kmax m.t then k + 1 else k) : Nat) : Int) := by
  obtain ⟨hK1, hK2⟩ := pow_kmax m.t hb
  have hsp := hi_lo_span m.t (by omega)
  have hlo := lo_nonpos m.t
  have hpk := pow_pos_int k
  unfold LQ.dbl
  have e2 : ((2 ^ k : Nat) : Int) * 2 = ((2 ^ (k + 1) : Nat) : Int) := by rw [pow_succ_int]; omega
  rw [e2]
  by_cases hlt : k < kmax m.t
  · rw [if_pos hlt]
    have hle := pow_mono_int (a := k + 1) (b := kmax m.t) (by omega)
    have hpos := pow_pos_int (k + 1)
    have hin : m.t.inRange ((2 ^ (k + 1) : Nat) : Int) := by
      unfold SymTy.inRange; omega
    rw [wrap_id (by omega) hin, if_pos hpos]
  · rw [if_neg hlt]
    have hkk : k = kmax m.t := by omega
    have e3 : ((2 ^ (k + 1) : Nat) : Int) = m.t.hi + 1 := by rw [pow_succ_int, hkk]; omega
    have hw : m.t.wrap ((2 ^ (k + 1) : Nat) : Int) = ((2 ^ (k + 1) : Nat) : Int) - ((2 ^ m.t.bits : Nat) : Int) :=
      wrap_high (by omega) (by omega) (by omega)
    rw [hw, if_neg (by omega)]

variable {m : LQ}

/-- inner loop of the downward phase: the largest halving `T2` of `T1` with `s - T2 ≥ min` -/
theorem stepDown_spec (ok : m.Ok) {s : Int} (h1 : m.min < s) (h2 : s ≤ m.max) :
    ∀ (k1 fuel : Nat), k1 ≤ kmax m.t → k1 + 1 ≤ fuel →
      ∃ k2, k2 ≤ k1 ∧ m.min ≤ s - ((2 ^ k2 : Nat) : Int) ∧
        (k2 = k1 ∨ s - 2 * ((2 ^ k2 : Nat) : Int) < m.min) ∧
        m.stepDown s fuel ((2 ^ k1 : Nat) : Int) = .ok (s - ((2 ^ k2 : Nat) : Int), ((2 ^ k2 : Nat) : Int)) := by
  obtain ⟨hK1, hK2⟩ := pow_kmax m.t ok.hbits
  have hsp := hi_lo_span m.t (by have := ok.hbits; omega)
  have hlo := lo_nonpos m.t
  have hmin := ok.hmin; have hmax := ok.hmax
  unfold SymTy.inRange at hmin hmax
  intro k1
  induction k1 with
  | zero =>
    intro fuel _ hf
    obtain ⟨f, rfl⟩ : ∃ f, fuel = f + 1 := ⟨fuel - 1, by omega⟩
    refine ⟨0, Nat.le_refl _, by simp; omega, Or.inl rfl, ?_⟩
    unfold LQ.stepDown
    have hin : m.t.inRange (s - ((2 ^ 0 : Nat) : Int)) := by unfold SymTy.inRange; simp; omega
    rw [wrap_id (by have := ok.hbits; omega) hin, if_pos (by simp; omega)]
  | succ k ih =>
    intro fuel hk hf
    obtain ⟨f, rfl⟩ : ∃ f, fuel = f + 1 := ⟨fuel - 1, by omega⟩
    have hle := pow_mono_int (a := k + 1) (b := kmax m.t) hk
    have hpos := pow_pos_int (k + 1)
    have hs2 := pow_succ_int k
    unfold LQ.stepDown
    by_cases hfit : m.min ≤ s - ((2 ^ (k + 1) : Nat) : Int)
    · have hin : m.t.inRange (s - ((2 ^ (k + 1) : Nat) : Int)) := by unfold SymTy.inRange; omega
      rw [wrap_id (by have := ok.hbits; omega) hin, if_pos (by omega)]
      exact ⟨k + 1, Nat.le_refl _, hfit, Or.inl rfl, rfl⟩
    · have hcond : ¬ (m.t.wrap (s - ((2 ^ (k + 1) : Nat) : Int)) ≥ m.min ∧
          m.t.wrap (s - ((2 ^ (k + 1) : Nat) : Int)) ≤ s) := by
        by_cases hlow : s - ((2 ^ (k + 1) : Nat) : Int) < m.t.lo
        · rw [wrap_low (by have := ok.hbits; omega) (by omega) hlow]; omega
        · have hin : m.t.inRange (s - ((2 ^ (k + 1) : Nat) : Int)) := by unfold SymTy.inRange; omega
          rw [wrap_id (by have := ok.hbits; omega) hin]; omega
      rw [if_neg hcond]
      have hhalf : ((2 ^ (k + 1) : Nat) : Int) / 2 = ((2 ^ k : Nat) : Int) := by omega
      rw [hhalf]
      obtain ⟨k2, hk2, hfit2, hmax2, heq⟩ := ih f (by omega) (by omega)
      refine ⟨k2, by omega, hfit2, ?_, heq⟩
      rcases hmax2 with rfl | h
      · right; omega
      · right; exact h

/-- inner loop of the upward phase: the largest halving `T2` of `T1` with `s + T2 ≤ max` -/
theorem stepUp_spec (ok : m.Ok) {s : Int} (h1 : m.min ≤ s) (h2 : s < m.max) :
    ∀ (k1 fuel : Nat), k1 ≤ kmax m.t → k1 + 1 ≤ fuel →
      ∃ k2, k2 ≤ k1 ∧ s + ((2 ^ k2 : Nat) : Int) ≤ m.max ∧
        (k2 = k1 ∨ m.max < s + 2 * ((2 ^ k2 : Nat) : Int)) ∧
        m.stepUp s fuel ((2 ^ k1 : Nat) : Int) = .ok (s + ((2 ^ k2 : Nat) : Int), ((2 ^ k2 : Nat) : Int)) := by
  obtain ⟨hK1, hK2⟩ := pow_kmax m.t ok.hbits
  have hsp := hi_lo_span m.t (by have := ok.hbits; omega)
  have hlo := lo_nonpos m.t
  have hmin := ok.hmin; have hmax := ok.hmax
  unfold SymTy.inRange at hmin hmax
  intro k1
  induction k1 with
  | zero =>
    intro fuel _ hf
    obtain ⟨f, rfl⟩ : ∃ f, fuel = f + 1 := ⟨fuel - 1, by omega⟩
    refine ⟨0, Nat.le_refl _, by simp; omega, Or.inl rfl, ?_⟩
    unfold LQ.stepUp
    have hin : m.t.inRange (s + ((2 ^ 0 : Nat) : Int)) := by unfold SymTy.inRange; simp; omega
    rw [wrap_id (by have := ok.hbits; omega) hin, if_pos (by simp; omega)]
  | succ k ih =>
    intro fuel hk hf
    obtain ⟨f, rfl⟩ : ∃ f, fuel = f + 1 := ⟨fuel - 1, by omega⟩
    have hle := pow_mono_int (a := k + 1) (b := kmax m.t) hk
    have hpos := pow_pos_int (k + 1)
    have hs2 := pow_succ_int k
    unfold LQ.stepUp
    by_cases hfit : s + ((2 ^ (k + 1) : Nat) : Int) ≤ m.max
    · have hin : m.t.inRange (s + ((2 ^ (k + 1) : Nat) : Int)) := by unfold SymTy.inRange; omega
      rw [wrap_id (by have := ok.hbits; omega) hin, if_pos (by omega)]
      exact ⟨k + 1, Nat.le_refl _, hfit, Or.inl rfl, rfl⟩
    · have hcond : ¬ (m.t.wrap (s + ((2 ^ (k + 1) : Nat) : Int)) ≤ m.max ∧
          m.t.wrap (s + ((2 ^ (k + 1) : Nat) : Int)) ≥ s) := by
        by_cases hhigh : m.t.hi < s + ((2 ^ (k + 1) : Nat) : Int)
        · rw [wrap_high (by have := ok.hbits; omega) hhigh (by omega)]; omega
        · have hin : m.t.inRange (s + ((2 ^ (k + 1) : Nat) : Int)) := by unfold SymTy.inRange; omega
          rw [wrap_id (by have := ok.hbits; omega) hin]; omega
      rw [if_neg hcond]
      have hhalf : ((2 ^ (k + 1) : Nat) : Int) / 2 = ((2 ^ k : Nat) : Int) := by omega
      rw [hhalf]
      obtain ⟨k2, hk2, hfit2, hmax2, heq⟩ := ih f (by omega) (by omega)
      refine ⟨k2, by omega, hfit2, ?_, heq⟩
      rcases hmax2 with rfl | h
      · right; omega
      · right; exact h

/-! ### one-iteration unfoldings of the two search loops -/

section unfold
variable {gl gr : Ext} {q f : Nat} {s T : Int} {left : Nat} {found : Bool}

theorem down_ret_min (hs : s = m.min) (hT : T ≤ 1) :
    m.down gl gr q (f + 1) s T left found = .ok (s, 0, left) := by
  conv => lhs; unfold LQ.down
  have : s = m.min ∧ T ≤ 1 := ⟨hs, hT⟩
  rw [if_pos this]

theorem down_ret {l r : Nat} (hc : ¬ (s = m.min ∧ T ≤ 1))
    (hl : (if s = m.min then (.ok 0 : SM Nat) else m.leaky gl "quant.dec.down.left" s) = .ok l)
    (hq : l ≤ q) (hT : T ≤ 1) (hr : m.rightOf gr "quant.dec.down.right" s = .ok r) :
    m.down gl gr q (f + 1) s T left found = .ok (s, l, r) := by
  conv => lhs; unfold LQ.down
  rw [if_neg hc]
  simp only [hl]
  rw [if_pos hq, if_pos hT, hr]

theorem down_add {l : Nat} {s' : Int} (hc : ¬ (s = m.min ∧ T ≤ 1))
    (hl : (if s = m.min then (.ok 0 : SM Nat) else m.leaky gl "quant.dec.down.left" s) = .ok l)
    (hq : l ≤ q) (hT : ¬ T ≤ 1) (ha : m.t.cadd "quant.dec.down.add" s (T / 2) = .ok s') :
    m.down gl gr q (f + 1) s T left found = m.down gl gr q f s' (T / 2) l true := by
  conv => lhs; unfold LQ.down
  rw [if_neg hc]
  simp only [hl]
  rw [if_pos hq, if_neg hT, ha]
  simp only [liftM]

theorem down_sub {l : Nat} {s' : Int} (hc : ¬ (s = m.min ∧ T ≤ 1))
    (hl : (if s = m.min then (.ok 0 : SM Nat) else m.leaky gl "quant.dec.down.left" s) = .ok l)
    (hq : ¬ l ≤ q)
    (ha : m.t.csub "quant.dec.down.sub" s (if T > 1 then T / 2 else T) = .ok s') :
    m.down gl gr q (f + 1) s T left true
      = m.down gl gr q f s' (if T > 1 then T / 2 else T) l true := by
  conv => lhs; unfold LQ.down
  rw [if_neg hc]
  simp only [hl]
  rw [if_neg hq]
  simp only [if_true]
  rw [ha]
  simp only [liftM]

theorem down_exp {l : Nat} {s' T2 : Int} (hc : ¬ (s = m.min ∧ T ≤ 1))
    (hl : (if s = m.min then (.ok 0 : SM Nat) else m.leaky gl "quant.dec.down.left" s) = .ok l)
    (hq : ¬ l ≤ q) (ha : m.stepDown s (m.t.bits + 1) (m.dbl T) = .ok (s', T2)) :
    m.down gl gr q (f + 1) s T left false = m.down gl gr q f s' T2 l false := by
  conv => lhs; unfold LQ.down
  rw [if_neg hc]
  simp only [hl]
  rw [if_neg hq]
  simp only [Bool.false_eq_true, if_false]
  rw [ha]

theorem up_ret_max {l : Nat} (hs : s = m.max) (hT : T ≤ 1)
    (hl : m.leaky gl "quant.dec.up.leftmax" s = .ok l) (hne : wrappingPow2 m.B m.P ≠ l) :
    m.up gl gr q (f + 1) s T left found = .ok (s, l, wrappingPow2 m.B m.P) := by
  conv => lhs; unfold LQ.up
  have : s = m.max ∧ T ≤ 1 := ⟨hs, hT⟩
  rw [if_pos this, hl]
  simp only
  rw [if_neg hne]

theorem up_ret {l r : Nat} (hc : ¬ (s = m.max ∧ T ≤ 1))
    (hr : m.rightOf gr "quant.dec.up.right" s = .ok r) (hq : r > q ∨ r = 0) (hT : T ≤ 1)
    (hl : (if s = m.min then (.ok 0 : SM Nat) else m.leaky gl "quant.dec.up.left" s) = .ok l)
    (hlq : l ≤ q ∨ s = m.min) :
    m.up gl gr q (f + 1) s T left found = .ok (s, l, r) := by
  conv => lhs; unfold LQ.up
  rw [if_neg hc, hr]
  simp only
  rw [if_pos hq, if_pos hT]
  simp only [hl]
  rw [if_pos hlq]

theorem up_sub {r : Nat} {s' : Int} (hc : ¬ (s = m.max ∧ T ≤ 1))
    (hr : m.rightOf gr "quant.dec.up.right" s = .ok r) (hq : r > q ∨ r = 0) (hT : ¬ T ≤ 1)
    (ha : m.t.csub "quant.dec.up.sub" s (T / 2) = .ok s') :
    m.up gl gr q (f + 1) s T left found = m.up gl gr q f s' (T / 2) left true := by
  conv => lhs; unfold LQ.up
  rw [if_neg hc, hr]
  simp only
  rw [if_pos hq, if_neg hT, ha]
  simp only [liftM]

theorem up_add {r : Nat} {s' : Int} (hc : ¬ (s = m.max ∧ T ≤ 1))
    (hr : m.rightOf gr "quant.dec.up.right" s = .ok r) (hq : ¬ (r > q ∨ r = 0))
    (ha : m.t.cadd "quant.dec.up.add" s (if T > 1 then T / 2 else T) = .ok s') :
    m.up gl gr q (f + 1) s T left true
      = m.up gl gr q f s' (if T > 1 then T / 2 else T) left true := by
  conv => lhs; unfold LQ.up
  rw [if_neg hc, hr]
  simp only
  rw [if_neg hq]
  simp only [if_true]
  rw [ha]
  simp only [liftM]

theorem up_exp {r : Nat} {s' T2 : Int} (hc : ¬ (s = m.max ∧ T ≤ 1))
    (hr : m.rightOf gr "quant.dec.up.right" s = .ok r) (hq : ¬ (r > q ∨ r = 0))
    (ha : m.stepUp s (m.t.bits + 1) (m.dbl T) = .ok (s', T2)) :
    m.up gl gr q (f + 1) s T left false = m.up gl gr q f s' T2 left false := by
  conv => lhs; unfold LQ.up
  rw [if_neg hc, hr]
  simp only
  rw [if_neg hq]
  simp only [Bool.false_eq_true, if_false]
  rw [ha]

end unfold

/-! ### the downward search -/

section search
variable {g : Int → Nat}

/-- `2^k` as a `Symbol` value (notation only, so that `omega` sees one normal form) -/
local notation:max "pw " k:max => ((2 ^ k : Nat) : Int)

theorem pw_zero : pw 0 = 1 := by simp
theorem pw_succ (k : Nat) : pw (k + 1) = 2 * pw k := pow_succ_int k
theorem pw_pos (k : Nat) : 0 < pw k := pow_pos_int k
theorem pw_mono {a b : Nat} (h : a ≤ b) : pw a ≤ pw b := pow_mono_int h
theorem pw_lt_of_lt {a b : Nat} (h : a < b) : 2 * pw a ≤ pw b := by
  have := pw_mono (a := a + 1) (b := b) h
  rw [pw_succ] at this; exact this
theorem lt_of_pw_lt {a b : Nat} (h : pw a < pw b) : a < b := by
  rcases Nat.lt_or_ge a b with h1 | h1
  · exact h1
  · have := pw_mono h1; omega

theorem leftEval (ok : m.Ok) (gk : GOk m g) (site : String) {s : Int} (h1 : m.min ≤ s)
    (h2 : s ≤ m.max) :
    (if s = m.min then (.ok 0 : SM Nat) else m.leaky (extL g) site s) = .ok (leftQ m g s) := by
  by_cases hmin : s = m.min
  · rw [if_pos hmin]; unfold leftQ; rw [if_pos hmin]
  · rw [if_neg hmin]; exact leaky_left ok gk _ (by omega) h2

theorem leftQ_min : leftQ m g m.min = 0 := by unfold leftQ; rw [if_pos rfl]

theorem leftQ_succ_min (ok : m.Ok) : leftQ m g (m.min + 1) = rightW m g m.min := by
  have hlt := ok.hlt
  unfold rightW; rw [if_neg (by omega)]
  exact (rightQ_eq_left_succ (Int.le_refl _) hlt).symm

/-- the loop condition `right > q || right == 0` holds exactly from the owner on -/
theorem cond_iff (ok : m.Ok) (gk : GOk m g) {q : Nat} {a s : Int} (ha : Bin m g q a)
    (h1 : m.min ≤ s) (h2 : s ≤ m.max) : (rightW m g s > q ∨ rightW m g s = 0) ↔ a ≤ s := by
  have hq : q < 2 ^ m.P := by
    have := rightQ_le ok gk ha.1 ha.2.1; have := ha.2.2.2; omega
  unfold rightW
  by_cases hmax : s = m.max
  · rw [if_pos hmax]
    have ham := ha.2.1
    constructor
    · intro _; omega
    · intro _
      unfold wrappingPow2
      by_cases hP : m.P ≥ m.B
      · rw [if_pos hP]; right; rfl
      · rw [if_neg hP]; left; exact hq
  · rw [if_neg hmax]
    have hpos := leftQ_lt_rightQ ok gk h1 h2
    have := right_gt_iff ok gk ha h1 h2
    constructor
    · intro h; rcases h with h | h
      · exact this.mp h
      · omega
    · intro h; left; exact this.mpr h

/-- the owner is reached with step one: one more probe returns it -/
theorem down_exact (ok : m.Ok) (gk : GOk m g) {q : Nat} {a : Int} (ha : Bin m g q a)
    {left fuel : Nat} {found : Bool} (hf : 1 ≤ fuel) (hleft : a = m.min → left = rightW m g m.min) :
    m.down (extL g) (extR g) q fuel a 1 left found = .ok (a, leftQ m g a, rightW m g a) := by
  obtain ⟨f, rfl⟩ : ∃ f, fuel = f + 1 := ⟨fuel - 1, by omega⟩
  by_cases hmin : a = m.min
  · rw [down_ret_min hmin (Int.le_refl 1), hleft hmin, hmin, leftQ_min]
  · exact down_ret (by omega) (leftEval ok gk _ ha.1 ha.2.1) ha.2.2.1 (Int.le_refl 1)
      (rightOf_eval ok gk _ ha.1 ha.2.1)

/-- binary phase of the downward search: the owner lies in `[s - T, s + T)` -/
theorem down_bin (ok : m.Ok) (gk : GOk m g) {q : Nat} {a : Int} (ha : Bin m g q a) :
    ∀ (k fuel : Nat) (s : Int) (left : Nat), k + 2 ≤ fuel → m.min ≤ s → s ≤ m.max →
      s - pw k ≤ a → a < s + pw k → s + pw k ≤ m.max + 1 → (1 ≤ k → m.min ≤ s - pw k) →
      (s = m.min → k = 0 → left = rightW m g m.min) →
      m.down (extL g) (extR g) q fuel s (pw k) left true
        = .ok (a, leftQ m g a, rightW m g a) := by
  intro k
  induction k with
  | zero =>
    intro fuel s left hf h1 h2 hlo hhi _ _ hleft
    rw [pw_zero] at hlo hhi ⊢
    by_cases has : a = s
    · subst has
      exact down_exact ok gk ha (by omega) (fun h => hleft h rfl)
    · have has' : a = s - 1 := by omega
      have ha1 := ha.1
      obtain ⟨f, rfl⟩ : ∃ f, fuel = f + 1 := ⟨fuel - 1, by omega⟩
      have hnq : ¬ leftQ m g s ≤ q := by
        rw [left_le_iff ok gk ha h1 h2]; omega
      have hT : (if (1 : Int) > 1 then (1 : Int) / 2 else 1) = 1 := by simp
      rw [down_sub (by omega) (leftEval ok gk _ h1 h2) hnq
        (s' := s - 1) (by rw [hT]; exact SymTy.csub_ok (ok.inRange (by omega) (by omega))), hT]
      rw [← has']
      apply down_exact ok gk ha (by omega)
      intro hmin
      have : s = m.min + 1 := by omega
      rw [this]; exact leftQ_succ_min ok
  | succ k ih =>
    intro fuel s left hf h1 h2 hlo hhi hup hdn hleft
    have hps := pw_succ k
    have hpp := pw_pos k
    obtain ⟨f, rfl⟩ : ∃ f, fuel = f + 1 := ⟨fuel - 1, by omega⟩
    have hc : ¬ (s = m.min ∧ pw (k + 1) ≤ 1) := by omega
    have hhalf : pw (k + 1) / 2 = pw k := by omega
    by_cases hq : leftQ m g s ≤ q
    · have hsa := (left_le_iff ok gk ha h1 h2).mp hq
      rw [down_add hc (leftEval ok gk _ h1 h2) hq (by omega) (s' := s + pw k)
        (by rw [hhalf]; exact SymTy.cadd_ok (ok.inRange (by omega) (by omega))), hhalf]
      exact ih f (s + pw k) _ (by omega) (by omega) (by omega) (by omega) (by omega) (by omega)
        (by intro _; omega) (by intro h; omega)
    · have hsa : ¬ s ≤ a := fun h => hq ((left_le_iff ok gk ha h1 h2).mpr h)
      have hd := hdn (by omega)
      have hT : (if pw (k + 1) > 1 then pw (k + 1) / 2 else pw (k + 1)) = pw k := by
        rw [if_pos (by omega)]; exact hhalf
      rw [down_sub hc (leftEval ok gk _ h1 h2) hq (s' := s - pw k)
        (by rw [hT]; exact SymTy.csub_ok (ok.inRange (by omega) (by omega))), hT]
      refine ih f (s - pw k) _ (by omega) (by omega) (by omega) (by omega) (by omega) (by omega)
        (by intro _; omega) ?_
      intro hmin hk0
      subst hk0
      rw [pw_zero] at hmin
      have : s = m.min + 1 := by omega
      rw [this]; exact leftQ_succ_min ok

theorem kmax_lt_bits (t : SymTy) (hb : 2 ≤ t.bits) : kmax t + 1 ≤ t.bits := by
  unfold kmax; by_cases hs : t.signed
  · rw [if_pos hs]; omega
  · rw [if_neg hs]; omega

/-- `dbl` on a power of two, in terms of exponents -/
theorem dbl_pw (ok : m.Ok) {k : Nat} (hk : k ≤ kmax m.t) :
    ∃ k1, m.dbl (pw k) = pw k1 ∧ k ≤ k1 ∧ k1 ≤ k + 1 ∧ k1 ≤ kmax m.t ∧ (k < kmax m.t → k1 = k + 1) := by
  refine ⟨if k < kmax m.t then k + 1 else k, dbl_eq ok.hbits hk, ?_, ?_, ?_, ?_⟩
  · by_cases h : k < kmax m.t
    · rw [if_pos h]; omega
    · rw [if_neg h]; omega
  · by_cases h : k < kmax m.t
    · rw [if_pos h]; omega
    · rw [if_neg h]; omega
  · by_cases h : k < kmax m.t
    · rw [if_pos h]; omega
    · rw [if_neg h]; omega
  · intro h; rw [if_pos h]

/-- exponential phase, once the step exceeds the distance to `min`: the exponent strictly
    decreases from probe to probe -/
theorem down_expB (ok : m.Ok) (gk : GOk m g) {q : Nat} {a : Int} (ha : Bin m g q a) :
    ∀ (n k fuel : Nat) (s : Int) (left : Nat), k ≤ n → k ≤ kmax m.t → k + 3 ≤ fuel →
      m.min ≤ s → s + pw k ≤ m.max → a < s + pw k → left = leftQ m g (s + pw k) →
      s - m.min < pw k →
      m.down (extL g) (extR g) q fuel s (pw k) left false
        = .ok (a, leftQ m g a, rightW m g a) := by
  intro n
  induction n with
  | zero =>
    intro k fuel s left hkn hkK hf h1 h2 hhi hleft hd
    have hk0 : k = 0 := by omega
    subst hk0
    rw [pw_zero] at *
    have hs : s = m.min := by omega
    have ha1 := ha.1
    have has : a = s := by omega
    subst has
    obtain ⟨f, rfl⟩ : ∃ f, fuel = f + 1 := ⟨fuel - 1, by omega⟩
    rw [down_ret_min hs (Int.le_refl 1), hleft, hs, leftQ_min, leftQ_succ_min ok]
  | succ n ih =>
    intro k fuel s left hkn hkK hf h1 h2 hhi hleft hd
    have hpp := pw_pos k
    have hmax : s ≤ m.max := by omega
    obtain ⟨f, rfl⟩ : ∃ f, fuel = f + 1 := ⟨fuel - 1, by omega⟩
    have ha1 := ha.1
    by_cases hc : s = m.min ∧ pw k ≤ 1
    · have has : a = s := by omega
      have hk1 : pw k = 1 := by omega
      rw [down_ret_min hc.1 hc.2, hleft, hk1, has, hc.1, leftQ_min, leftQ_succ_min ok]
    · by_cases hq : leftQ m g s ≤ q
      · have hsa := (left_le_iff ok gk ha h1 hmax).mp hq
        by_cases hT : pw k ≤ 1
        · have has : a = s := by omega
          rw [has]
          exact down_ret hc (leftEval ok gk _ h1 hmax) hq hT (rightOf_eval ok gk _ h1 hmax)
        · obtain ⟨j, rfl⟩ : ∃ j, k = j + 1 := by
            rcases k with _ | j
            · rw [pw_zero] at hT; omega
            · exact ⟨j, rfl⟩
          have hps := pw_succ j
          have hpj := pw_pos j
          have hhalf : pw (j + 1) / 2 = pw j := by omega
          rw [down_add hc (leftEval ok gk _ h1 hmax) hq hT (s' := s + pw j)
            (by rw [hhalf]; exact SymTy.cadd_ok (ok.inRange (by omega) (by omega))), hhalf]
          exact down_bin ok gk ha j f (s + pw j) _ (by omega) (by omega) (by omega) (by omega)
            (by omega) (by omega) (by intro _; omega) (by intro h; omega)
      · have hsa : ¬ s ≤ a := fun h => hq ((left_le_iff ok gk ha h1 hmax).mpr h)
        have hsmin : m.min < s := by
          by_cases h : m.min < s
          · exact h
          · exfalso; have : s = m.min := by omega
            rw [this, leftQ_min] at hq; omega
        obtain ⟨k1, hdbl, hk1a, hk1b, hk1K, _⟩ := dbl_pw ok hkK
        have hbits := kmax_lt_bits m.t ok.hbits
        obtain ⟨k2, hk21, hfit, hmaxi, hstep⟩ :=
          stepDown_spec ok hsmin hmax k1 (m.t.bits + 1) hk1K (by omega)
        rw [down_exp hc (leftEval ok gk _ h1 hmax) hq (by rw [hdbl]; exact hstep)]
        have hp2 := pw_pos k2
        have hk2k : k2 < k := lt_of_pw_lt (by omega)
        have hlt2 : s - 2 * pw k2 < m.min := by
          rcases hmaxi with h | h
          · exfalso
            have := pw_mono hk1a
            rw [← h] at this; omega
          · exact h
        exact ih k2 f (s - pw k2) _ (by omega) (by omega) (by omega) hfit (by omega) (by omega)
          (by congr 1; omega) (by omega)

/-- exponential phase in general: while the step still fits, `(kmax - k) + c` decreases, where
    `c` bounds the distance to `min` in units of `2^kmax` -/
theorem down_expA (ok : m.Ok) (gk : GOk m g) {q : Nat} {a : Int} (ha : Bin m g q a) :
    ∀ (n k c fuel : Nat) (s : Int) (left : Nat), k ≤ kmax m.t → (kmax m.t - k) + c ≤ n →
      n + kmax m.t + 4 ≤ fuel →
      m.min ≤ s → s + pw k ≤ m.max → a < s + pw k → left = leftQ m g (s + pw k) →
      s - m.min < (((c + 1) * 2 ^ kmax m.t : Nat) : Int) →
      m.down (extL g) (extR g) q fuel s (pw k) left false
        = .ok (a, leftQ m g a, rightW m g a) := by
  intro n
  induction n with
  | zero =>
    intro k c fuel s left hkK hn hf h1 h2 hhi hleft hd
    have hk : k = kmax m.t := by omega
    have hc0 : c = 0 := by omega
    subst hc0
    rw [Nat.zero_add, Nat.one_mul, ← hk] at hd
    exact down_expB ok gk ha k k fuel s left (Nat.le_refl _) hkK (by omega) h1 h2 hhi hleft hd
  | succ n ih =>
    intro k c fuel s left hkK hn hf h1 h2 hhi hleft hd
    have hpp := pw_pos k
    have hmax : s ≤ m.max := by omega
    by_cases hB : s - m.min < pw k
    · exact down_expB ok gk ha k k fuel s left (Nat.le_refl _) hkK (by omega) h1 h2 hhi hleft hB
    · obtain ⟨f, rfl⟩ : ∃ f, fuel = f + 1 := ⟨fuel - 1, by omega⟩
      have ha1 := ha.1
      have hc : ¬ (s = m.min ∧ pw k ≤ 1) := by omega
      by_cases hq : leftQ m g s ≤ q
      · have hsa := (left_le_iff ok gk ha h1 hmax).mp hq
        by_cases hT : pw k ≤ 1
        · have has : a = s := by omega
          rw [has]
          exact down_ret hc (leftEval ok gk _ h1 hmax) hq hT (rightOf_eval ok gk _ h1 hmax)
        · obtain ⟨j, rfl⟩ : ∃ j, k = j + 1 := by
            rcases k with _ | j
            · rw [pw_zero] at hT; omega
            · exact ⟨j, rfl⟩
          have hps := pw_succ j
          have hpj := pw_pos j
          have hhalf : pw (j + 1) / 2 = pw j := by omega
          rw [down_add hc (leftEval ok gk _ h1 hmax) hq hT (s' := s + pw j)
            (by rw [hhalf]; exact SymTy.cadd_ok (ok.inRange (by omega) (by omega))), hhalf]
          exact down_bin ok gk ha j f (s + pw j) _ (by omega) (by omega) (by omega) (by omega)
            (by omega) (by omega) (by intro _; omega) (by intro h; omega)
      · have hsa : ¬ s ≤ a := fun h => hq ((left_le_iff ok gk ha h1 hmax).mpr h)
        have hsmin : m.min < s := by omega
        obtain ⟨k1, hdbl, hk1a, hk1b, hk1K, hk1s⟩ := dbl_pw ok hkK
        have hbits := kmax_lt_bits m.t ok.hbits
        obtain ⟨k2, hk21, hfit, hmaxi, hstep⟩ :=
          stepDown_spec ok hsmin hmax k1 (m.t.bits + 1) hk1K (by omega)
        rw [down_exp hc (leftEval ok gk _ h1 hmax) hq (by rw [hdbl]; exact hstep)]
        have hp2 := pw_pos k2
        by_cases hk2 : k2 = k1
        · -- the (possibly doubled) step fits: the measure decreases
          subst hk2
          by_cases hkK' : k < kmax m.t
          · have := hk1s hkK'
            subst this
            exact ih (k + 1) c f (s - pw (k + 1)) _ (by omega) (by omega) (by omega) hfit
              (by omega) (by omega) (by congr 1; omega) (by omega)
          · have hkk : k2 = kmax m.t := by omega
            have hkk' : k = kmax m.t := by omega
            obtain ⟨c', rfl⟩ : ∃ c', c = c' + 1 := by
              rcases c with _ | c'
              · exfalso
                rw [Nat.zero_add, Nat.one_mul, ← hkk'] at hd; omega
              · exact ⟨c', rfl⟩
            have hsplit : (((c' + 1 + 1) * 2 ^ kmax m.t : Nat) : Int)
                = (((c' + 1) * 2 ^ kmax m.t : Nat) : Int) + pw (kmax m.t) := by
              rw [Nat.succ_mul]; push_cast; rfl
            rw [hsplit] at hd
            rw [hkk] at hfit ⊢
            exact ih (kmax m.t) c' f (s - pw (kmax m.t)) _ (Nat.le_refl _) (by omega) (by omega)
              hfit (by omega) (by omega) (by congr 1; omega) (by omega)
        · have hlt2 : s - 2 * pw k2 < m.min := by
            rcases hmaxi with h | h
            · exact absurd h hk2
            · exact h
          exact down_expB ok gk ha k2 k2 f (s - pw k2) _ (Nat.le_refl _) (by omega) (by omega)
            hfit (by omega) (by omega) (by congr 1; omega) (by omega)

/-! ### the upward search (mirror image) -/

theorem leftQ_max_ne (ok : m.Ok) (gk : GOk m g) : wrappingPow2 m.B m.P ≠ leftQ m g m.max := by
  have hlt := ok.hlt
  have hl := leftQ_lt_total ok gk (s := m.max) (by omega) (Int.le_refl _)
  have hpos : 0 < leftQ m g m.max := by
    unfold leftQ; rw [if_neg (by omega)]
    have := off_pos (m := m) (s := m.max) hlt; omega
  unfold wrappingPow2
  by_cases hP : m.P ≥ m.B
  · rw [if_pos hP]; omega
  · rw [if_neg hP]; omega

theorem up_exact (ok : m.Ok) (gk : GOk m g) {q : Nat} {a : Int} (ha : Bin m g q a)
    {left fuel : Nat} {found : Bool} (hf : 1 ≤ fuel) :
    m.up (extL g) (extR g) q fuel a 1 left found = .ok (a, leftQ m g a, rightW m g a) := by
  obtain ⟨f, rfl⟩ : ∃ f, fuel = f + 1 := ⟨fuel - 1, by omega⟩
  have hlt := ok.hlt
  by_cases hmax : a = m.max
  · rw [up_ret_max hmax (Int.le_refl 1) (l := leftQ m g a)
      (by rw [hmax]; exact leaky_left ok gk _ hlt (Int.le_refl _))
      (by rw [hmax]; exact leftQ_max_ne ok gk)]
    unfold rightW; rw [if_pos hmax]
  · exact up_ret (by omega) (rightOf_eval ok gk _ ha.1 ha.2.1)
      ((cond_iff ok gk ha ha.1 ha.2.1).mpr (Int.le_refl _)) (Int.le_refl 1)
      (leftEval ok gk _ ha.1 ha.2.1) (Or.inl ha.2.2.1)

/-- binary phase of the upward search: the owner lies in `(s - T, s + T]` -/
theorem up_bin (ok : m.Ok) (gk : GOk m g) {q : Nat} {a : Int} (ha : Bin m g q a) :
    ∀ (k fuel : Nat) (s : Int) (left : Nat), k + 2 ≤ fuel → m.min ≤ s → s ≤ m.max →
      s - pw k < a → a ≤ s + pw k → m.min - 1 ≤ s - pw k → (1 ≤ k → s + pw k ≤ m.max) →
      m.up (extL g) (extR g) q fuel s (pw k) left true
        = .ok (a, leftQ m g a, rightW m g a) := by
  intro k
  induction k with
  | zero =>
    intro fuel s left hf h1 h2 hlo hhi _ _
    rw [pw_zero] at hlo hhi ⊢
    by_cases has : a = s
    · subst has
      exact up_exact ok gk ha (by omega)
    · have has' : a = s + 1 := by omega
      have ha2 := ha.2.1
      obtain ⟨f, rfl⟩ : ∃ f, fuel = f + 1 := ⟨fuel - 1, by omega⟩
      have hnc : ¬ (rightW m g s > q ∨ rightW m g s = 0) := by
        rw [cond_iff ok gk ha h1 h2]; omega
      have hT : (if (1 : Int) > 1 then (1 : Int) / 2 else 1) = 1 := by simp
      rw [up_add (by omega) (rightOf_eval ok gk _ h1 h2) hnc
        (s' := s + 1) (by rw [hT]; exact SymTy.cadd_ok (ok.inRange (by omega) (by omega))), hT]
      rw [← has']
      exact up_exact ok gk ha (by omega)
  | succ k ih =>
    intro fuel s left hf h1 h2 hlo hhi hdn hup
    have hps := pw_succ k
    have hpp := pw_pos k
    obtain ⟨f, rfl⟩ : ∃ f, fuel = f + 1 := ⟨fuel - 1, by omega⟩
    have hc : ¬ (s = m.max ∧ pw (k + 1) ≤ 1) := by omega
    have hhalf : pw (k + 1) / 2 = pw k := by omega
    by_cases hq : rightW m g s > q ∨ rightW m g s = 0
    · have hsa := (cond_iff ok gk ha h1 h2).mp hq
      rw [up_sub hc (rightOf_eval ok gk _ h1 h2) hq (by omega) (s' := s - pw k)
        (by rw [hhalf]; exact SymTy.csub_ok (ok.inRange (by omega) (by omega))), hhalf]
      exact ih f (s - pw k) _ (by omega) (by omega) (by omega) (by omega) (by omega) (by omega)
        (by intro _; omega)
    · have hsa : ¬ a ≤ s := fun h => hq ((cond_iff ok gk ha h1 h2).mpr h)
      have hu := hup (by omega)
      have hT : (if pw (k + 1) > 1 then pw (k + 1) / 2 else pw (k + 1)) = pw k := by
        rw [if_pos (by omega)]; exact hhalf
      rw [up_add hc (rightOf_eval ok gk _ h1 h2) hq (s' := s + pw k)
        (by rw [hT]; exact SymTy.cadd_ok (ok.inRange (by omega) (by omega))), hT]
      exact ih f (s + pw k) _ (by omega) (by omega) (by omega) (by omega) (by omega) (by omega)
        (by intro _; omega)

theorem up_expB (ok : m.Ok) (gk : GOk m g) {q : Nat} {a : Int} (ha : Bin m g q a) :
    ∀ (n k fuel : Nat) (s : Int) (left : Nat), k ≤ n → k ≤ kmax m.t → k + 3 ≤ fuel →
      s ≤ m.max → m.min - 1 ≤ s - pw k → s - pw k < a → m.max - s < pw k →
      m.up (extL g) (extR g) q fuel s (pw k) left false
        = .ok (a, leftQ m g a, rightW m g a) := by
  intro n
  induction n with
  | zero =>
    intro k fuel s left hkn hkK hf h2 h1 hlo hd
    have hk0 : k = 0 := by omega
    subst hk0
    rw [pw_zero] at *
    have ha2 := ha.2.1
    have has : a = s := by omega
    subst has
    exact up_exact ok gk ha (by omega)
  | succ n ih =>
    intro k fuel s left hkn hkK hf h2 h1 hlo hd
    have hpp := pw_pos k
    have hmin : m.min ≤ s := by omega
    obtain ⟨f, rfl⟩ : ∃ f, fuel = f + 1 := ⟨fuel - 1, by omega⟩
    have ha2 := ha.2.1
    by_cases hc : s = m.max ∧ pw k ≤ 1
    · have has : a = s := by omega
      have hk1 : pw k = 1 := by omega
      rw [hk1, ← has]
      exact up_exact ok gk ha (by omega)
    · by_cases hq : rightW m g s > q ∨ rightW m g s = 0
      · have hsa := (cond_iff ok gk ha hmin h2).mp hq
        by_cases hT : pw k ≤ 1
        · have has : a = s := by omega
          have hk1 : pw k = 1 := by omega
          rw [hk1, ← has]
          exact up_exact ok gk ha (by omega)
        · obtain ⟨j, rfl⟩ : ∃ j, k = j + 1 := by
            rcases k with _ | j
            · rw [pw_zero] at hT; omega
            · exact ⟨j, rfl⟩
          have hps := pw_succ j
          have hpj := pw_pos j
          have hhalf : pw (j + 1) / 2 = pw j := by omega
          rw [up_sub hc (rightOf_eval ok gk _ hmin h2) hq hT (s' := s - pw j)
            (by rw [hhalf]; exact SymTy.csub_ok (ok.inRange (by omega) (by omega))), hhalf]
          exact up_bin ok gk ha j f (s - pw j) _ (by omega) (by omega) (by omega) (by omega)
            (by omega) (by omega) (by intro _; omega)
      · have hsa : ¬ a ≤ s := fun h => hq ((cond_iff ok gk ha hmin h2).mpr h)
        have hsmax : s < m.max := by omega
        obtain ⟨k1, hdbl, hk1a, hk1b, hk1K, _⟩ := dbl_pw ok hkK
        have hbits := kmax_lt_bits m.t ok.hbits
        obtain ⟨k2, hk21, hfit, hmaxi, hstep⟩ :=
          stepUp_spec ok hmin hsmax k1 (m.t.bits + 1) hk1K (by omega)
        rw [up_exp hc (rightOf_eval ok gk _ hmin h2) hq (by rw [hdbl]; exact hstep)]
        have hp2 := pw_pos k2
        have hk2k : k2 < k := lt_of_pw_lt (by omega)
        have hlt2 : m.max < s + 2 * pw k2 := by
          rcases hmaxi with h | h
          · exfalso
            have := pw_mono hk1a
            rw [← h] at this; omega
          · exact h
        exact ih k2 f (s + pw k2) _ (by omega) (by omega) (by omega) hfit (by omega) (by omega)
          (by omega)

theorem up_expA (ok : m.Ok) (gk : GOk m g) {q : Nat} {a : Int} (ha : Bin m g q a) :
    ∀ (n k c fuel : Nat) (s : Int) (left : Nat), k ≤ kmax m.t → (kmax m.t - k) + c ≤ n →
      n + kmax m.t + 4 ≤ fuel →
      s ≤ m.max → m.min - 1 ≤ s - pw k → s - pw k < a →
      m.max - s < (((c + 1) * 2 ^ kmax m.t : Nat) : Int) →
      m.up (extL g) (extR g) q fuel s (pw k) left false
        = .ok (a, leftQ m g a, rightW m g a) := by
  intro n
  induction n with
  | zero =>
    intro k c fuel s left hkK hn hf h2 h1 hlo hd
    have hk : k = kmax m.t := by omega
    have hc0 : c = 0 := by omega
    subst hc0
    rw [Nat.zero_add, Nat.one_mul, ← hk] at hd
    exact up_expB ok gk ha k k fuel s left (Nat.le_refl _) hkK (by omega) h2 h1 hlo hd
  | succ n ih =>
    intro k c fuel s left hkK hn hf h2 h1 hlo hd
    have hpp := pw_pos k
    have hmin : m.min ≤ s := by omega
    by_cases hB : m.max - s < pw k
    · exact up_expB ok gk ha k k fuel s left (Nat.le_refl _) hkK (by omega) h2 h1 hlo hB
    · obtain ⟨f, rfl⟩ : ∃ f, fuel = f + 1 := ⟨fuel - 1, by omega⟩
      have ha2 := ha.2.1
      have hc : ¬ (s = m.max ∧ pw k ≤ 1) := by omega
      by_cases hq : rightW m g s > q ∨ rightW m g s = 0
      · have hsa := (cond_iff ok gk ha hmin h2).mp hq
        by_cases hT : pw k ≤ 1
        · have has : a = s := by omega
          have hk1 : pw k = 1 := by omega
          rw [hk1, ← has]
          exact up_exact ok gk ha (by omega)
        · obtain ⟨j, rfl⟩ : ∃ j, k = j + 1 := by
            rcases k with _ | j
            · rw [pw_zero] at hT; omega
            · exact ⟨j, rfl⟩
          have hps := pw_succ j
          have hpj := pw_pos j
          have hhalf : pw (j + 1) / 2 = pw j := by omega
          rw [up_sub hc (rightOf_eval ok gk _ hmin h2) hq hT (s' := s - pw j)
            (by rw [hhalf]; exact SymTy.csub_ok (ok.inRange (by omega) (by omega))), hhalf]
          exact up_bin ok gk ha j f (s - pw j) _ (by omega) (by omega) (by omega) (by omega)
            (by omega) (by omega) (by intro _; omega)
      · have hsa : ¬ a ≤ s := fun h => hq ((cond_iff ok gk ha hmin h2).mpr h)
        have hsmax : s < m.max := by omega
        obtain ⟨k1, hdbl, hk1a, hk1b, hk1K, hk1s⟩ := dbl_pw ok hkK
        have hbits := kmax_lt_bits m.t ok.hbits
        obtain ⟨k2, hk21, hfit, hmaxi, hstep⟩ :=
          stepUp_spec ok hmin hsmax k1 (m.t.bits + 1) hk1K (by omega)
        rw [up_exp hc (rightOf_eval ok gk _ hmin h2) hq (by rw [hdbl]; exact hstep)]
        have hp2 := pw_pos k2
        by_cases hk2 : k2 = k1
        · subst hk2
          by_cases hkK' : k < kmax m.t
          · have := hk1s hkK'
            subst this
            exact ih (k + 1) c f (s + pw (k + 1)) _ (by omega) (by omega) (by omega) hfit
              (by omega) (by omega) (by omega)
          · have hkk : k2 = kmax m.t := by omega
            have hkk' : k = kmax m.t := by omega
            obtain ⟨c', rfl⟩ : ∃ c', c = c' + 1 := by
              rcases c with _ | c'
              · exfalso
                rw [Nat.zero_add, Nat.one_mul, ← hkk'] at hd; omega
              · exact ⟨c', rfl⟩
            have hsplit : (((c' + 1 + 1) * 2 ^ kmax m.t : Nat) : Int)
                = (((c' + 1) * 2 ^ kmax m.t : Nat) : Int) + pw (kmax m.t) := by
              rw [Nat.succ_mul]; push_cast; rfl
            rw [hsplit] at hd
            rw [hkk] at hfit ⊢
            exact ih (kmax m.t) c' f (s + pw (kmax m.t)) _ (Nat.le_refl _) (by omega) (by omega)
              hfit (by omega) (by omega) (by omega)
        · have hlt2 : m.max < s + 2 * pw k2 := by
            rcases hmaxi with h | h
            · exact absurd h hk2
            · exact h
          exact up_expB ok gk ha k2 k2 f (s + pw k2) _ (Nat.le_refl _) (by omega) (by omega)
            hfit (by omega) (by omega) (by omega)

/-! ### `quantile_function` -/

theorem span_le_four (ok : m.Ok) : (m.max - m.min) < (((3 + 1) * 2 ^ kmax m.t : Nat) : Int) := by
  obtain ⟨hK1, hK2⟩ := pow_kmax m.t ok.hbits
  have hsp := hi_lo_span m.t (by have := ok.hbits; omega)
  have hmin := ok.hmin; have hmax := ok.hmax
  unfold SymTy.inRange at hmin hmax
  have hlo : -(m.t.hi + 1) ≤ m.t.lo := by
    have hp := two_pow_succ_pred (b := m.t.bits) (by have := ok.hbits; omega)
    unfold SymTy.lo SymTy.hi
    by_cases hs : m.t.signed
    · rw [if_pos hs, if_pos hs]; omega
    · rw [if_neg hs, if_neg hs]; omega
  omega

theorem fuel_enough (t : SymTy) (hb : 2 ≤ t.bits) : (kmax t + 3) + kmax t + 4 ≤ searchFuel t := by
  have := kmax_lt_bits t hb
  unfold searchFuel; omega

/-- the search from an in-support start symbol `s0` (the clamped hint) -/
theorem search_from (ok : m.Ok) (gk : GOk m g) {q : Nat} {a : Int} (ha : Bin m g q a)
    {s0 : Int} (h1 : m.min ≤ s0) (h2 : s0 ≤ m.max) {fuel : Nat} (hf : searchFuel m.t ≤ fuel) :
    (if leftQ m g s0 > q then
        match liftM (m.t.csub "quant.dec.sub1" s0 1) with
        | .error e => .error e
        | .ok symbol => m.down (extL g) (extR g) q fuel symbol 1 (leftQ m g s0) false
      else m.up (extL g) (extR g) q fuel s0 1 (leftQ m g s0) false)
      = .ok (a, leftQ m g a, rightW m g a) := by
  have hfe := fuel_enough m.t ok.hbits
  have hsp := span_le_four ok
  by_cases hgt : leftQ m g s0 > q
  · rw [if_pos hgt]
    have hsa : ¬ s0 ≤ a := fun h => by
      have := (left_le_iff ok gk ha h1 h2).mpr h; omega
    have ha1 := ha.1
    rw [SymTy.csub_ok (ok.inRange (x := s0 - 1) (by omega) (by omega))]
    simp only [liftM]
    have := down_expA ok gk ha (kmax m.t + 3) 0 3 fuel (s0 - 1) (leftQ m g s0) (by omega)
      (by omega) (by omega) (by omega) (by rw [pw_zero]; omega) (by rw [pw_zero]; omega)
      (by rw [pw_zero]; congr 1; omega) (by omega)
    rw [pw_zero] at this
    exact this
  · rw [if_neg hgt]
    have hsa := (left_le_iff ok gk ha h1 h2).mp (by omega)
    have := up_expA ok gk ha (kmax m.t + 3) 0 3 fuel s0 (leftQ m g s0) (by omega)
      (by omega) (by omega) h2 (by rw [pw_zero]; omega) (by rw [pw_zero]; omega) (by omega)
    rw [pw_zero] at this
    exact this

/-- **The hint only seeds the search.**  For every hint and every quantile `q < 2^P`,
    `quantile_function` returns the owner `a` of `q` (`left a ≤ q < right a`, unique by
    `bin_unique_q`) with its left cumulative and probability — the encoder's answer `encQ a` —
    without any `Fault`, within `searchFuel t = 4 * bits + 8` probes of the distribution. -/
theorem dec_correct (ok : m.Ok) (gk : GOk m g) {q : Nat} (hq : q < 2 ^ m.P) (hint : Int)
    {fuel : Nat} (hf : searchFuel m.t ≤ fuel) :
    ∃ a, Bin m g q a ∧
      m.dec (extL g) (extR g) fuel hint q = .ok (a, leftQ m g a, widthQ m g a) := by
  obtain ⟨a, ha⟩ := bin_exists ok gk hq
  refine ⟨a, ha, ?_⟩
  have hlt := ok.hlt
  have hw := widthQ_bounds ok gk ha.1 ha.2.1
  have hws := wsub_rightW ok gk ha.1 ha.2.1
  unfold LQ.dec
  simp only [maxProb_eq ok.hPB]
  rw [if_neg (by omega)]
  -- the clamped hint `s0` and its left cumulative
  have key : ∀ s0 : Int, m.min ≤ s0 → s0 ≤ m.max →
      (match (if leftQ m g s0 > q then
          match liftM (m.t.csub "quant.dec.sub1" s0 1) with
          | .error e => .error e
          | .ok symbol => m.down (extL g) (extR g) q fuel symbol 1 (leftQ m g s0) false
        else m.up (extL g) (extR g) q fuel s0 1 (leftQ m g s0) false) with
      | .error e => .error e
      | .ok (s, l, right) =>
        if wsub m.B right l = 0 then .error (.fault (.panic "quant.dec.expect"))
        else .ok (s, l, wsub m.B right l))
        = (.ok (a, leftQ m g a, widthQ m g a) : SM (Int × Nat × Nat)) := by
    intro s0 h1 h2
    rw [search_from ok gk ha h1 h2 hf]
    simp only
    rw [hws, if_neg (by omega)]
  by_cases hle : hint ≤ m.min
  · simp only [if_pos hle]
    have := key m.min (Int.le_refl _) (by omega)
    rw [leftQ_min] at this
    exact this
  · simp only [if_neg hle]
    by_cases hgt : hint > m.max
    · simp only [if_pos hgt]
      rw [leaky_left ok gk _ hlt (Int.le_refl _)]
      exact key m.max (by omega) (Int.le_refl _)
    · simp only [if_neg hgt]
      rw [leaky_left ok gk _ (by omega) (by omega)]
      exact key hint (by omega) (by omega)

/-- decoder ∘ encoder: the decoded triple is what the encoder answers for the decoded symbol -/
theorem dec_enc_consistent (ok : m.Ok) (gk : GOk m g) {q : Nat} (hq : q < 2 ^ m.P) (hint : Int)
    {fuel : Nat} (hf : searchFuel m.t ≤ fuel) :
    ∃ a c p, m.dec (extL g) (extR g) fuel hint q = .ok (a, c, p) ∧
      m.enc (extL g) (extR g) a = .ok (some (c, p)) ∧ c ≤ q ∧ q < c + p := by
  obtain ⟨a, ha, hdec⟩ := dec_correct ok gk hq hint hf
  refine ⟨a, _, _, hdec, ?_, ha.2.2.1, ?_⟩
  · rw [enc_eq ok gk]; unfold encQ; rw [if_pos ⟨ha.1, ha.2.1⟩]
  · have := leftQ_lt_rightQ ok gk ha.1 ha.2.1
    have := ha.2.2.2
    unfold widthQ; omega

/-- encoder ∘ decoder: every quantile of the bin of `s` decodes to `s`, for every hint -/
theorem enc_dec_consistent (ok : m.Ok) (gk : GOk m g) {s : Int} (h1 : m.min ≤ s) (h2 : s ≤ m.max)
    {q : Nat} (hl : leftQ m g s ≤ q) (hr : q < leftQ m g s + widthQ m g s) (hint : Int)
    {fuel : Nat} (hf : searchFuel m.t ≤ fuel) :
    m.dec (extL g) (extR g) fuel hint q = .ok (s, leftQ m g s, widthQ m g s) := by
  have hlr := leftQ_lt_rightQ ok gk h1 h2
  have hrt := rightQ_le ok gk h1 h2
  have hq : q < 2 ^ m.P := by unfold widthQ at hr; omega
  obtain ⟨a, ha, hdec⟩ := dec_correct ok gk hq hint hf
  have hs : Bin m g q s := ⟨h1, h2, hl, by unfold widthQ at hr; omega⟩
  rw [bin_unique_q ok gk hs ha]; exact hdec

end search

end CV.Quant
