import CV.Proofs.CatLookup
/-!
# `UniformModel`

`Uniform.new` succeeds exactly for `2 ≤ range ≤ 2^P` (for every `1 ≤ P ≤ B`, including the
`P = B` branch), and the resulting model is the specification of the table
`0, ppb, 2·ppb, …, (range-1)·ppb, 2^P` with `ppb = ⌊2^P / range⌋`.  After the D9 repair a
symbol that does not fit into `Probability` is rejected *before* it is narrowed.
-/
namespace CV.Cat
open CV

/-- unwrapped table of the uniform model -/
def uniExt (P range : Nat) : List Nat :=
  (List.range range).map (fun i => i * (2 ^ P / range)) ++ [2 ^ P]

theorem uniExt_length (P range : Nat) : (uniExt P range).length = range + 1 := by simp [uniExt]

theorem uniExt_getD_lt (P range : Nat) {i : Nat} (hi : i < range) :
    (uniExt P range).getD i 0 = i * (2 ^ P / range) := by
  unfold uniExt
  rw [List.getD_eq_getElem?_getD, List.getElem?_append_left (by simpa using hi)]
  simp [hi]

theorem uniExt_getD_last (P range : Nat) : (uniExt P range).getD range 0 = 2 ^ P := by
  unfold uniExt
  rw [List.getD_eq_getElem?_getD, List.getElem?_append_right (by simp)]
  simp

theorem ppb_facts {P range : Nat} (h2 : 2 ≤ range) (hle : range ≤ 2 ^ P) :
    0 < 2 ^ P / range ∧ range * (2 ^ P / range) ≤ 2 ^ P ∧ 2 ^ P / range < 2 ^ P ∧
      (range - 1) * (2 ^ P / range) < 2 ^ P ∧ 0 < (range - 1) * (2 ^ P / range) := by
  have hpos : 0 < 2 ^ P / range := Nat.div_pos hle (by omega)
  have hmul : range * (2 ^ P / range) ≤ 2 ^ P := Nat.mul_div_le _ _
  have hlt : 2 ^ P / range < 2 ^ P := Nat.div_lt_self (two_pow_pos' P) (by omega)
  have hexp : range * (2 ^ P / range) = (range - 1) * (2 ^ P / range) + 2 ^ P / range := by
    have h := Nat.succ_mul (range - 1) (2 ^ P / range)
    rw [Nat.succ_eq_add_one, Nat.sub_add_cancel (by omega)] at h
    exact h
  have hpos2 : 0 < (range - 1) * (2 ^ P / range) := Nat.mul_pos (by omega) hpos
  exact ⟨hpos, hmul, hlt, by omega, hpos2⟩

theorem uniExt_valid {P range : Nat} (h2 : 2 ≤ range) (hle : range ≤ 2 ^ P) :
    ValidExt P (uniExt P range) := by
  obtain ⟨hpos, hmul, hlt, hlast, _⟩ := ppb_facts h2 hle
  refine ⟨by rw [uniExt_length]; omega, ?_, ?_, ?_⟩
  · rw [uniExt_getD_lt P range (by omega)]; simp
  · rw [uniExt_length, Nat.add_sub_cancel, uniExt_getD_last]
  · rw [List.pairwise_iff_getElem]
    intro i j hi hj hij
    rw [uniExt_length] at hi hj
    rw [← getD_of_lt (d := 0) (by rw [uniExt_length]; exact hi),
      ← getD_of_lt (d := 0) (by rw [uniExt_length]; exact hj)]
    rw [uniExt_getD_lt P range (by omega)]
    rcases Nat.lt_or_ge j range with hjr | hjr
    · rw [uniExt_getD_lt P range hjr]
      exact Nat.mul_lt_mul_of_pos_right hij hpos
    · have : j = range := by omega
      subst this
      rw [uniExt_getD_last]
      have : i * (2 ^ P / j) ≤ (j - 1) * (2 ^ P / j) := Nat.mul_le_mul_right _ (by omega)
      omega

/-- **C19 for `UniformModel::new`**: it returns a model exactly if `2 ≤ range ≤ 2^P`, at every
    precision (the `P = B` branch included); otherwise it panics (never UB) -/
theorem Uniform.new_ok {B P range : Nat} (hP1 : 1 ≤ P) (hP : P ≤ B) (hPU : P ≤ U)
    (hr : range < 2 ^ U) (h2 : 2 ≤ range) (hle : range ≤ 2 ^ P) :
    Uniform.new B P range = .ok { ppb := 2 ^ P / range, last := range - 1 } := by
  obtain ⟨hpos, hmul, hlt, _, _⟩ := ppb_facts h2 hle
  have hPB := pow_le_pow_of_le hP
  have h2P := two_pow_pos' P
  unfold Uniform.new
  rw [if_neg (by omega), if_neg (by omega)]
  simp only
  have hlast : narrow B (range - 1) = range - 1 := by
    unfold narrow; exact Nat.mod_eq_of_lt (by omega)
  have hlastU : narrow U (range - 1) = range - 1 := by
    unfold narrow; exact Nat.mod_eq_of_lt (by omega)
  rw [hlast, hlastU, wsub_total_one hP1 hP]
  rw [if_neg (by omega)]
  by_cases hPB' : P = B
  · subst hPB'
    rw [if_pos rfl]
    have hw : wsub U (wrappingPow2 U P) range = 2 ^ P - range := by
      rcases Nat.lt_or_ge P U with hlt' | hge
      · rw [wrappingPow2_of_lt hlt', wsub_of_le hle (pow_lt_pow_of_lt hlt')]
      · have : P = U := by omega
        rw [this, wrappingPow2_self]
        rw [wsub_eq (by exact two_pow_pos' U) hr, if_neg (by omega)]
        omega
    have hdiv : (2 ^ P - range) / range + 1 = 2 ^ P / range := by
      have : 2 ^ P = (2 ^ P - range) + range := by omega
      conv => rhs; rw [this, Nat.add_div_right _ (by omega)]
    have hx : narrow P ((2 ^ P - range) / range) = (2 ^ P - range) / range := by
      unfold narrow; exact Nat.mod_eq_of_lt (by omega)
    simp only [hw, hx]
    unfold cadd
    rw [if_pos (by omega)]
    simp only [hdiv]
    rw [if_neg (by omega)]
  · rw [if_neg hPB']
    have hlt' : P < B := by omega
    have hPlt := pow_lt_pow_of_lt hlt'
    unfold shl
    rw [if_pos hlt']
    simp only [Nat.one_shiftLeft, Nat.mod_eq_of_lt hPlt]
    have hn : narrow B range = range := by
      unfold narrow; exact Nat.mod_eq_of_lt (by omega)
    unfold cdiv
    rw [hn, if_neg (by omega)]
    simp only
    rw [if_neg (by omega)]

theorem Uniform.new_panics {B P range : Nat} (hP1 : 1 ≤ P) (hP : P ≤ B)
    (hbad : ¬ (2 ≤ range ∧ range ≤ 2 ^ P)) :
    ∃ site, Uniform.new B P range = .error (.panic site) := by
  have hPB := pow_le_pow_of_le hP
  have h2P := two_pow_pos' P
  unfold Uniform.new
  by_cases h1 : range > 1
  · rw [if_neg (by omega), if_neg (by omega)]
    simp only
    rw [wsub_total_one hP1 hP]
    refine ⟨"uniform.new.assert_fits", ?_⟩
    rw [if_pos]
    intro ⟨c1, c2⟩
    -- `last` round-trips, so `range - 1 < 2^B`, hence `last = range - 1 ≤ 2^P - 1`
    have hlastlt : narrow B (range - 1) < 2 ^ B := Nat.mod_lt _ (two_pow_pos' B)
    have hU : narrow U (narrow B (range - 1)) ≤ narrow B (range - 1) := Nat.mod_le _ _
    have hle' : narrow B (range - 1) ≤ range - 1 := Nat.mod_le _ _
    have : narrow B (range - 1) = range - 1 := by omega
    omega
  · exact ⟨"uniform.new.assert_range", by rw [if_pos h1]⟩


theorem specEnc_uniExt {P range : Nat} (h2 : 2 ≤ range) (s : Nat) :
    specEnc (uniExt P range) s =
      if s < range - 1 then some (s * (2 ^ P / range), 2 ^ P / range)
      else if s = range - 1 then
        some ((range - 1) * (2 ^ P / range), 2 ^ P - (range - 1) * (2 ^ P / range))
      else none := by
  unfold specEnc
  rw [uniExt_length]
  by_cases hsl : s < range - 1
  · rw [if_pos (by omega), if_pos hsl, uniExt_getD_lt P range (by omega),
      uniExt_getD_lt P range (by omega), Nat.succ_mul]
    simp
  · rw [if_neg hsl]
    by_cases hse : s = range - 1
    · subst hse
      have e : range - 1 + 1 = range := by omega
      rw [if_pos (by omega), if_pos rfl, uniExt_getD_lt P range (by omega), e, uniExt_getD_last]
    · rw [if_neg hse, if_neg (by omega)]

/-- `left_cumulative_and_probability` of a constructed uniform model is the specification for
    *every* `usize` symbol: values `≥ 2^B` are rejected before narrowing (C09, D9) -/
theorem Uniform.enc_eq {B P range : Nat} (hP : P ≤ B) (h2 : 2 ≤ range)
    (hle : range ≤ 2 ^ P) (s : Nat) :
    Uniform.enc B P { ppb := 2 ^ P / range, last := range - 1 } s =
      .ok (specEnc (uniExt P range) s) := by
  obtain ⟨hpos, hmul, hlt, hlast, hlast0⟩ := ppb_facts h2 hle
  have hPB := pow_le_pow_of_le hP
  rw [specEnc_uniExt h2]
  unfold Uniform.enc
  simp only
  by_cases hs : s < 2 ^ B
  · rw [if_neg (by omega)]
    by_cases hsl : s < range - 1
    · rw [if_pos hsl, if_pos hsl]
      have hle' : (s + 1) * (2 ^ P / range) ≤ (range - 1) * (2 ^ P / range) :=
        Nat.mul_le_mul_right _ (by omega)
      have hexp : (s + 1) * (2 ^ P / range) = s * (2 ^ P / range) + 2 ^ P / range := Nat.succ_mul _ _
      have hw : wmul B s (2 ^ P / range) = s * (2 ^ P / range) := by
        unfold wmul; exact Nat.mod_eq_of_lt (by omega)
      rw [hw]
    · rw [if_neg hsl, if_neg hsl]
      by_cases hse : s = range - 1
      · subst hse
        have hw : wmul B (range - 1) (2 ^ P / range) = (range - 1) * (2 ^ P / range) := by
          unfold wmul; exact Nat.mod_eq_of_lt (by omega)
        rw [if_pos rfl, if_pos rfl, hw, wsub_total hP hlast0 hlast]
        rw [if_neg (by omega)]
      · rw [if_neg hse, if_neg hse]
  · rw [if_pos hs, if_neg (by omega), if_neg (by omega)]

theorem div_facts (q k : Nat) (hk : 0 < k) : q / k * k ≤ q ∧ q < (q / k + 1) * k := by
  have h1 := Nat.div_add_mod q k
  have h2 := Nat.mod_lt q hk
  have h3 : k * (q / k) = q / k * k := Nat.mul_comm _ _
  have h4 : (q / k + 1) * k = q / k * k + k := Nat.succ_mul _ _
  omega

theorem Uniform.dec_eq {B P range : Nat} (hP : P ≤ B) (hr : range < 2 ^ U) (h2 : 2 ≤ range)
    (hle : range ≤ 2 ^ P) {q : Nat} (hq : q < 2 ^ P) :
    Uniform.dec B P { ppb := 2 ^ P / range, last := range - 1 } q =
      .ok (specDec (uniExt P range) q) := by
  obtain ⟨hpos, hmul, hlt, hlast, hlast0⟩ := ppb_facts h2 hle
  have hPB := pow_le_pow_of_le hP
  have hv := uniExt_valid h2 hle
  obtain ⟨hd1, hd2⟩ := div_facts q (2 ^ P / range) hpos
  have hdm := Nat.div_add_mod q (2 ^ P / range)
  unfold Uniform.dec
  simp only
  rw [if_neg (by omega)]
  by_cases hg : q / (2 ^ P / range) < range - 1
  · rw [if_pos hg]
    unfold csub
    rw [if_pos (Nat.mod_le _ _)]
    simp only
    have hin : InBin (uniExt P range) (q / (2 ^ P / range)) q := by
      refine ⟨by rw [uniExt_length]; omega, ?_, ?_⟩
      · rw [uniExt_getD_lt P range (by omega)]; exact hd1
      · rw [uniExt_getD_lt P range (by omega)]; exact hd2
    have hidx := InBin.unique hv.2.2.2 (specIdx_inBin hv hq) hin
    unfold specDec
    rw [hidx, uniExt_getD_lt P range (by omega), uniExt_getD_lt P range (by omega)]
    have hn : narrow U (q / (2 ^ P / range)) = q / (2 ^ P / range) := by
      unfold narrow; exact Nat.mod_eq_of_lt (by omega)
    have h3 : (2 ^ P / range) * (q / (2 ^ P / range)) = q / (2 ^ P / range) * (2 ^ P / range) :=
      Nat.mul_comm _ _
    have e1 : q - q % (2 ^ P / range) = q / (2 ^ P / range) * (2 ^ P / range) := by omega
    have e2 : (q / (2 ^ P / range) + 1) * (2 ^ P / range) - q / (2 ^ P / range) * (2 ^ P / range)
        = 2 ^ P / range := by rw [Nat.succ_mul]; omega
    rw [hn, e1, e2]
  · rw [if_neg hg]
    unfold cmul
    rw [if_pos (by omega)]
    simp only
    rw [wsub_total hP hlast0 hlast, if_neg (by omega)]
    have hge : (range - 1) * (2 ^ P / range) ≤ q / (2 ^ P / range) * (2 ^ P / range) :=
      Nat.mul_le_mul_right _ (by omega)
    have hin : InBin (uniExt P range) (range - 1) q := by
      refine ⟨by rw [uniExt_length]; omega, ?_, ?_⟩
      · rw [uniExt_getD_lt P range (by omega)]; omega
      · have e : range - 1 + 1 = range := by omega
        rw [e, uniExt_getD_last]; exact hq
    have hidx := InBin.unique hv.2.2.2 (specIdx_inBin hv hq) hin
    unfold specDec
    have e : range - 1 + 1 = range := by omega
    rw [hidx, uniExt_getD_lt P range (by omega), e, uniExt_getD_last]
    have hn : narrow U (range - 1) = range - 1 := by
      unfold narrow; exact Nat.mod_eq_of_lt (by omega)
    rw [hn]

/-- the quantile function never faults, whatever `Probability` value it is given -/
theorem Uniform.dec_total {B P range : Nat} (hP : P ≤ B) (h2 : 2 ≤ range)
    (hle : range ≤ 2 ^ P) (q : Nat) :
    ∃ r, Uniform.dec B P { ppb := 2 ^ P / range, last := range - 1 } q = .ok r := by
  obtain ⟨hpos, hmul, hlt, hlast, hlast0⟩ := ppb_facts h2 hle
  have hPB := pow_le_pow_of_le hP
  unfold Uniform.dec
  simp only
  rw [if_neg (by omega)]
  by_cases hg : q / (2 ^ P / range) < range - 1
  · rw [if_pos hg]
    unfold csub
    rw [if_pos (Nat.mod_le _ _)]
    exact ⟨_, rfl⟩
  · rw [if_neg hg]
    unfold cmul
    rw [if_pos (by omega)]
    simp only
    rw [wsub_total hP hlast0 hlast, if_neg (by omega)]
    exact ⟨_, rfl⟩


theorem Uniform.tableGo_eq {B P : Nat} {m : Uniform} {lastU : Nat} (f : Nat → Nat × Nat × Nat)
    (l : List Nat) (h : ∀ s ∈ l, Uniform.tableEntry B P m lastU s = .ok (f s)) :
    Uniform.tableGo B P m lastU l = .ok (l.map f) := by
  induction l with
  | nil => rfl
  | cons s l ih =>
    simp only [Uniform.tableGo, h s (by simp), ih (fun x hx => h x (by simp [hx])), List.map_cons]

/-- `symbol_table` of a constructed uniform model enumerates the specification -/
theorem Uniform.table_eq {B P range : Nat} (hP : P ≤ B) (hr : range < 2 ^ U) (h2 : 2 ≤ range)
    (hle : range ≤ 2 ^ P) :
    Uniform.table B P { ppb := 2 ^ P / range, last := range - 1 } =
      .ok (specTable id (uniExt P range)) := by
  obtain ⟨hpos, hmul, hlt, hlast, hlast0⟩ := ppb_facts h2 hle
  have hPB := pow_le_pow_of_le hP
  unfold Uniform.table
  simp only
  have hn : narrow U (range - 1) = range - 1 := by
    unfold narrow; exact Nat.mod_eq_of_lt (by omega)
  rw [hn]
  unfold cadd
  rw [if_pos (by omega)]
  simp only
  have e : range - 1 + 1 = range := by omega
  rw [e]
  rw [Uniform.tableGo_eq (fun i => (id i, (uniExt P range).getD i 0,
    (uniExt P range).getD (i + 1) 0 - (uniExt P range).getD i 0))]
  · simp [specTable, uniExt_length]
  · intro s hs
    simp only [List.mem_range] at hs
    unfold Uniform.tableEntry
    have hsB : narrow B s = s := by
      unfold narrow; exact Nat.mod_eq_of_lt (by omega)
    have hsle : s * (2 ^ P / range) ≤ (range - 1) * (2 ^ P / range) :=
      Nat.mul_le_mul_right _ (by omega)
    unfold cmul
    dsimp only
    rw [hsB, if_pos (by omega)]
    simp only [id]
    rw [uniExt_getD_lt P range hs]
    by_cases hsl : s = range - 1
    · subst hsl
      rw [if_neg (by simp), wsub_total hP hlast0 hlast, if_neg (by omega), e, uniExt_getD_last]
    · rw [if_pos hsl, uniExt_getD_lt P range (by omega), Nat.succ_mul]
      simp

end CV.Cat
