import CV.Proofs.RangeMsg
/-!
# Decoder refinement and the round trip (C02)

`DRel c st ws d`: the decoder `d` over the buffer `ws` is *the* decoder state that belongs to
the reference state `st`: `lower = Lo mod 2^S`, `range = R`, `point` = the stream truncated to
the scale of `st` (mod `2^S`), cursor right behind that window (or at the end of the data).
-/
namespace CV.Range
open RangeSpec (St step run)

structure DRel (c : Cfg) (st : St) (ws : List Nat) (d : Decoder) : Prop where
  data : d.data = ws
  lower : d.lower = st.Lo % 2^c.S
  range : d.range = st.R
  point : d.point = pre c.W ws (st.m + nW c) % 2^c.S
  pos : d.pos = min (st.m + nW c) ws.length

theorem mod_mul_mod (x b T : Nat) : ((x % T) * b) % T = (x * b) % T := by
  conv_rhs => rw [← Nat.div_add_mod x T]
  rw [Nat.add_mul, Nat.mul_assoc, Nat.mul_add_mod]

theorem DRel.reg {c : Cfg} {st : St} {ws : List Nat} {d : Decoder} (h : DRel c st ws d)
    (hI : SpecInv c st) (hw : WordsOK c ws) : DReg c d := by
  have hT := two_pow_pos' c.S
  refine ⟨?_, ?_, ?_, ?_, ?_⟩
  · rw [h.lower]; exact Nat.mod_lt _ hT
  · rw [h.range]; exact hI.1
  · rw [h.range]; exact hI.2.1
  · rw [h.point]; exact Nat.mod_lt _ hT
  · rw [h.data]; exact hw

/-- `point ⊖ lower` is the true distance of the stream from `Lo` -/
theorem DRel.diff {c : Cfg} {st : St} {ws : List Nat} {d : Decoder} (h : DRel c st ws d)
    (hI : SpecInv c st) (hc : Contains c st ws) :
    wsub c.S d.point d.lower = pre c.W ws (st.m + nW c) - st.Lo := by
  have hT := two_pow_pos' c.S
  obtain ⟨h1, h2⟩ := hc
  rw [h.point, h.lower]
  apply wsub_unique (Nat.mod_lt _ hT)
  · have := hI.2.1; omega
  · rw [Nat.mod_add_mod]
    congr 1
    omega

/-- **one decoding step**: if the stream lies in the interval after the encoder's step, the
    decoder returns the encoded symbol and moves to the state belonging to the next
    reference state. -/
theorem dec_step {Sym : Type} {c : Cfg} (hc : RValid c) {m : Model Sym} (hm : m.WellFormed c.P)
    {s : Sym} {cum p : Nat} (henc : m.enc s = some (cum, p))
    {st : St} (hI : SpecInv c st) {ws : List Nat} (hw : WordsOK c ws)
    (hcont : Contains c (step c.W c.S st c.P cum p) ws)
    {d : Decoder} (hrel : DRel c st ws d) :
    ∃ d', decode c m d = .ok (s, d') ∧ DRel c (step c.W c.S st c.P cum p) ws d' := by
  obtain ⟨hp, hcp, _, hdecq⟩ := hm.1 s cum p henc
  have hreg := hrel.reg hI hw
  obtain ⟨hr, hr2, hle⟩ := hI
  obtain ⟨hsc1, hsc2, hsc3⟩ := scale_facts hc hr hr2 hp hcp
  have hT := two_pow_pos' c.S
  have hb := two_pow_pos' c.W
  have hscale : 0 < st.R / 2^c.P := Nat.lt_of_lt_of_le (two_pow_pos' _) hsc1
  obtain ⟨hb1, hb2⟩ := step_back hw hcont
  have hsplit : st.R / 2^c.P * (cum + p) = st.R / 2^c.P * cum + st.R / 2^c.P * p :=
    Nat.mul_add _ _ _
  -- the stream is in the old interval as well
  have hcont0 : Contains c st ws := ⟨by omega, by omega⟩
  have hdiff := hrel.diff ⟨hr, hr2, hle⟩ hcont0
  -- the quantile
  have hq : quantileOf c d = (pre c.W ws (st.m + nW c) - st.Lo) / (st.R / 2^c.P) := by
    unfold quantileOf; rw [hdiff, hrel.range]
  have hq1 : cum ≤ quantileOf c d := by
    rw [hq, Nat.le_div_iff_mul_le hscale, Nat.mul_comm]; omega
  have hq2 : quantileOf c d < cum + p := by
    rw [hq, Nat.div_lt_iff_lt_mul hscale, Nat.mul_comm]; omega
  have hqlt : quantileOf c d < 2^c.P := by omega
  have hdec : m.dec (quantileOf c d) = (s, cum, p) := hdecq _ hq1 hq2
  rw [decode_eq_pure hc hm hreg]
  simp only [Nat.not_le.mpr hqlt, if_false]
  refine ⟨(decPure c m d).2, ?_, ?_⟩
  · -- the symbol
    have : (decPure c m d).1 = s := by
      have h1 : (decPure c m d).1 = (m.dec (quantileOf c d)).1 := by
        unfold decPure quantileOf
        simp only
        split
        · split <;> rfl
        · rfl
      rw [h1, hdec]
    rw [← this]
  · -- the new state
    have hdec' : m.dec (wsub c.S d.point d.lower / (st.R / 2^c.P)) = (s, cum, p) := by
      rw [← hrel.range]; exact hdec
    unfold decPure step
    simp only [hrel.range, hdec']
    have hlow1 : (d.lower + st.R / 2^c.P * cum) % 2^c.S
        = (st.Lo + st.R / 2^c.P * cum) % 2^c.S := by
      rw [hrel.lower, Nat.mod_add_mod]
    by_cases hlt : st.R / 2^c.P * p < 2^(c.S - c.W)
    · simp only [hlt, if_true]
      have hlow2 : ((d.lower + st.R / 2^c.P * cum) % 2^c.S * 2^c.W) % 2^c.S
          = ((st.Lo + st.R / 2^c.P * cum) * 2^c.W) % 2^c.S := by
        rw [hlow1, mod_mul_mod]
      have hm1 : st.m + 1 + nW c = (st.m + nW c) + 1 := by omega
      have hpt0 : (d.point * 2^c.W) % 2^c.S = (pre c.W ws (st.m + nW c) * 2^c.W) % 2^c.S := by
        rw [hrel.point, mod_mul_mod]
      by_cases hpos : st.m + nW c < ws.length
      · -- a word is read
        have hposeq : d.pos = st.m + nW c := by rw [hrel.pos]; omega
        have hget : d.data[d.pos]? = some (ws[st.m + nW c]) := by
          rw [hrel.data, hposeq]; exact List.getElem?_eq_getElem hpos
        have hgetD : ws.getD (st.m + nW c) 0 = ws[st.m + nW c] := by
          simp [List.getD, List.getElem?_eq_getElem hpos]
        have hwlt : ws[st.m + nW c] < 2^c.W := hw _ (List.getElem_mem hpos)
        rw [hget]
        simp only
        refine ⟨hrel.data, hlow2, rfl, ?_, ?_⟩
        · simp only
          rw [shifted_or hc _ _ hwlt, hm1, pre, hgetD, hpt0,
            ← Nat.mod_add_mod (pre c.W ws (st.m + nW c) * 2^c.W) (2^c.S) (ws[st.m + nW c])]
          exact (Nat.mod_eq_of_lt (shifted_add_lt hc _ _ hwlt)).symm
        · simp only
          rw [hposeq]; omega
      · -- the data is exhausted: zero padding
        have hposeq : d.pos = ws.length := by rw [hrel.pos]; omega
        have hget : d.data[d.pos]? = none := by
          rw [hrel.data, hposeq]; exact List.getElem?_eq_none (Nat.le_refl _)
        have hgetD : ws.getD (st.m + nW c) 0 = 0 := getD_of_length_le _ _ (by omega)
        rw [hget]
        simp only
        refine ⟨hrel.data, hlow2, rfl, ?_, ?_⟩
        · simp only
          rw [hm1, pre, hgetD, hpt0, Nat.add_zero]
        · simp only
          rw [hposeq]; omega
    · simp only [hlt, if_false]
      exact ⟨hrel.data, hlow1, rfl, hrel.point, hrel.pos⟩

/-- the spec states along a message -/
theorem specInv_run {Sym : Type} {c : Cfg} : ∀ (msg : List (MStep Sym)) (st : St),
    SpecInv c st → (∀ x ∈ msg, x.Valid c) → SpecInv c (run c.W c.S st (msg.map MStep.spec)) := by
  intro msg
  induction msg with
  | nil => intro st h _; exact h
  | cons x xs ih =>
    intro st h hv
    have hx : x.Valid c := hv x (by simp)
    obtain ⟨hp, hcp⟩ := hx.cp_ok
    have h1 : SpecInv (cfgAt c x.B x.P) st := h
    have h2 : SpecInv c (step c.W c.S st x.P x.cp.1 x.cp.2) :=
      specInv_step (c := cfgAt c x.B x.P) hx.1 h1 hp hcp
    exact ih _ h2 (fun y hy => hv y (by simp [hy]))

/-- **decoding a message**: if the stream lies in the final interval of the reference run,
    the decoder returns the message and ends in the state belonging to the final
    reference state. -/
theorem decodeMsg_ok {Sym : Type} {c : Cfg} {ws : List Nat} (hw : WordsOK c ws) :
    ∀ (msg : List (MStep Sym)) (st : St) (d : Decoder),
    SpecInv c st → (∀ x ∈ msg, x.Valid c) →
    Contains c (run c.W c.S st (msg.map MStep.spec)) ws → DRel c st ws d →
    ∃ d', decodeMsg c d msg = .ok (msg.map (·.sym), d') ∧
      DRel c (run c.W c.S st (msg.map MStep.spec)) ws d' := by
  intro msg
  induction msg with
  | nil =>
    intro st d _ _ _ hrel
    exact ⟨d, rfl, hrel⟩
  | cons x xs ih =>
    intro st d hI hv hcont hrel
    have hx : x.Valid c := hv x (by simp)
    obtain ⟨hp, hcp⟩ := hx.cp_ok
    have hI1 : SpecInv (cfgAt c x.B x.P) st := hI
    have hI2 : SpecInv c (step c.W c.S st x.P x.cp.1 x.cp.2) :=
      specInv_step (c := cfgAt c x.B x.P) hx.1 hI1 hp hcp
    have hv' : ∀ y ∈ xs, y.Valid c := fun y hy => hv y (by simp [hy])
    -- membership propagates backwards through the rest of the message
    have hback : ∀ (ys : List (MStep Sym)) (st' : St), SpecInv c st' → (∀ y ∈ ys, y.Valid c) →
        Contains c (run c.W c.S st' (ys.map MStep.spec)) ws → Contains c st' ws := by
      intro ys
      induction ys with
      | nil => intro st' _ _ h; exact h
      | cons y ys ihy =>
        intro st' hI' hvy hc'
        have hy : y.Valid c := hvy y (by simp)
        obtain ⟨hpy, hcpy⟩ := hy.cp_ok
        have hIy1 : SpecInv (cfgAt c y.B y.P) st' := hI'
        have hIy : SpecInv c (step c.W c.S st' y.P y.cp.1 y.cp.2) :=
          specInv_step (c := cfgAt c y.B y.P) hy.1 hIy1 hpy hcpy
        have h1 := ihy _ hIy (fun z hz => hvy z (by simp [hz])) hc'
        have hw' : WordsOK (cfgAt c y.B y.P) ws := hw
        have h2 : st'.Lo + st'.R / 2^y.P * y.cp.1 ≤ pre c.W ws (st'.m + nW c) ∧
            pre c.W ws (st'.m + nW c)
              < st'.Lo + st'.R / 2^y.P * y.cp.1 + st'.R / 2^y.P * y.cp.2 :=
          step_back (c := cfgAt c y.B y.P) hw' h1
        obtain ⟨hr, hr2, _⟩ := hI'
        have hs2 : st'.R / 2^y.P * (y.cp.1 + y.cp.2) ≤ st'.R :=
          (scale_facts (c := cfgAt c y.B y.P) hy.1 hr hr2 hpy hcpy).2.1
        have hsplit : st'.R / 2^y.P * (y.cp.1 + y.cp.2)
            = st'.R / 2^y.P * y.cp.1 + st'.R / 2^y.P * y.cp.2 := Nat.mul_add _ _ _
        exact ⟨by omega, by omega⟩
    have hcont1 : Contains c (step c.W c.S st x.P x.cp.1 x.cp.2) ws := hback xs _ hI2 hv' hcont
    have hw' : WordsOK (cfgAt c x.B x.P) ws := hw
    have hrel' : DRel (cfgAt c x.B x.P) st ws d := ⟨hrel.data, hrel.lower, hrel.range, hrel.point, hrel.pos⟩
    obtain ⟨d1, hd1, hrel1⟩ := dec_step (c := cfgAt c x.B x.P) hx.1 hx.2.1 hx.enc_eq hI1 hw' hcont1 hrel'
    have hrel1' : DRel c (step c.W c.S st x.P x.cp.1 x.cp.2) ws d1 :=
      ⟨hrel1.data, hrel1.lower, hrel1.range, hrel1.point, hrel1.pos⟩
    obtain ⟨d', hd', hrel2⟩ := ih _ d1 hI2 hv' hcont hrel1'
    refine ⟨d', ?_, hrel2⟩
    simp only [decodeMsg, hd1, hd', List.map_cons]

end CV.Range
