import CV.Proofs.BackendSpec
/-!
# `Cursor` / `Reverse<Cursor>`: transfer of the spec facts, seek laws, faults

Everything here is about the Impl model (`Cur.step`, `Cur.run`); the zipper only appears
inside proofs.
-/
namespace CV.Backend

theorem sym_writes (ws : List Nat) : ∀ op ∈ ws.map Op.write, op.Sym = true := by
  intro op h
  simp only [List.mem_map] at h
  obtain ⟨w, _, rfl⟩ := h
  rfl

theorem sym_replicate (n : Nat) (op : Op) (h : op.Sym = true) :
    ∀ o ∈ List.replicate n op, o.Sym = true := by
  intro o ho
  rw [List.eq_of_mem_replicate ho]; exact h

theorem sym_append {a b : List Op} (ha : ∀ o ∈ a, o.Sym = true) (hb : ∀ o ∈ b, o.Sym = true) :
    ∀ o ∈ a ++ b, o.Sym = true := by
  intro o ho
  rcases List.mem_append.mp ho with h | h
  · exact ha o h
  · exact hb o h

theorem flipAll_of_noflip (wr : Bool) (ops : List Op) : ∀ (rev : Bool),
    (∀ op ∈ ops, op ≠ Op.intoReversed) → flipAll wr ops rev = rev := by
  induction ops with
  | nil => intro rev _; rfl
  | cons op ops ih =>
    intro rev h
    have h1 : op ≠ Op.intoReversed := h op (by simp)
    have h2 : ∀ o ∈ ops, o ≠ Op.intoReversed := fun o ho => h o (by simp [ho])
    have : flipOn wr op rev = rev := by
      cases op <;> simp_all [flipOn]
    simp [flipAll, this, ih rev h2]

theorem noflip_writes (ws : List Nat) : ∀ op ∈ ws.map Op.write, op ≠ Op.intoReversed := by
  intro op h
  simp only [List.mem_map] at h
  obtain ⟨w, _, rfl⟩ := h
  simp

theorem noflip_replicate (n : Nat) (op : Op) (h : op ≠ Op.intoReversed) :
    ∀ o ∈ List.replicate n op, o ≠ Op.intoReversed := by
  intro o ho
  rw [List.eq_of_mem_replicate ho]; exact h

theorem noflip_append {a b : List Op} (ha : ∀ o ∈ a, o ≠ Op.intoReversed)
    (hb : ∀ o ∈ b, o ≠ Op.intoReversed) : ∀ o ∈ a ++ b, o ≠ Op.intoReversed := by
  intro o ho
  rcases List.mem_append.mp ho with h | h
  · exact ha o h
  · exact hb o h

/-- `pos` of the implementation in terms of the zipper -/
def posOf (rev : Bool) (z : Z) : Nat := if rev then z.ahd.length else z.stk.length

theorem Cur.inner_pos_ofZ (rev : Bool) (z : Z) : (Cur.ofZ rev z).inner.pos = posOf rev z := by
  cases rev <;> simp [Cur.ofZ, Cur.inner, RevCursor.ofZ, Cursor.ofZ, Z.swap, posOf]

theorem Cur.inner_len_ofZ (rev : Bool) (z : Z) :
    (Cur.ofZ rev z).inner.buf.length = z.stk.length + z.ahd.length := by
  cases rev <;> simp [Cur.ofZ, Cur.inner, RevCursor.ofZ, Cursor.ofZ, Z.swap, Nat.add_comm]

theorem Cur.run_append (wr : Bool) (a : List Op) : ∀ (s : Cur) (b : List Op),
    Cur.run wr s (a ++ b) =
      match (Cur.run wr s a).2 with
      | .ok s' => ((Cur.run wr s a).1 ++ (Cur.run wr s' b).1, (Cur.run wr s' b).2)
      | .error f => ((Cur.run wr s a).1, .error f) := by
  induction a with
  | nil => intro s b; simp [Cur.run]
  | cons op a ih =>
    intro s b
    simp only [List.cons_append, Cur.run]
    cases hstep : Cur.step wr s op with
    | error f => simp
    | ok p =>
      obtain ⟨o, s'⟩ := p
      simp only [ih s' b]
      cases h2 : (Cur.run wr s' a).2 <;> simp

/-! ## `space_left`, `remaining` read off the zipper -/

theorem Cur.spaceLeft_ofZ (rev : Bool) (z : Z) :
    Cur.step true (Cur.ofZ rev z) .spaceLeft = .ok (.num z.ahd.length, Cur.ofZ rev z) := by
  simpa [Z.step, flipOn] using Cur.step_ofZ true rev z .spaceLeft rfl

theorem Cur.remS_ofZ (wr rev : Bool) (z : Z) :
    Cur.step wr (Cur.ofZ rev z) .remS = .ok (.num z.stk.length, Cur.ofZ rev z) := by
  simpa [Z.step, flipOn] using Cur.step_ofZ wr rev z .remS rfl

theorem Cur.remQ_ofZ (wr rev : Bool) (z : Z) :
    Cur.step wr (Cur.ofZ rev z) .remQ = .ok (.num z.ahd.length, Cur.ofZ rev z) := by
  simpa [Z.step, flipOn] using Cur.step_ofZ wr rev z .remQ rfl

/-! ## LIFO -/

/-- `k ≤ space_left` writes followed by `k` stack reads: all writes succeed, the reads return
    the words in reverse, and the position is back where it was. -/
theorem Cur.lifo (s : Cur) (hI : s.Inv) (n : Nat) (ws : List Nat)
    (hsp : Cur.step true s .spaceLeft = .ok (.num n, s)) (hle : ws.length ≤ n) :
    ∃ s', Cur.run true s (ws.map Op.write ++ List.replicate ws.length Op.readS) =
        (List.replicate ws.length Out.ok ++ ws.reverse.map (fun w => Out.word (some w)), .ok s')
      ∧ s'.Inv ∧ s'.inner.pos = s.inner.pos ∧ s'.inner.buf.length = s.inner.buf.length := by
  obtain ⟨rev, z, rfl⟩ := Cur.exists_ofZ s hI
  rw [Cur.spaceLeft_ofZ] at hsp
  have hn : z.ahd.length = n := by
    have := (Except.ok.inj hsp); simpa using congrArg (·.1) this
  have hle' : ws.length ≤ z.ahd.length := hn ▸ hle
  have hsym : ∀ o ∈ ws.map Op.write ++ List.replicate ws.length Op.readS, o.Sym = true :=
    sym_append (sym_writes ws) (sym_replicate _ _ rfl)
  have hnf : ∀ o ∈ ws.map Op.write ++ List.replicate ws.length Op.readS, o ≠ Op.intoReversed :=
    noflip_append (noflip_writes ws) (noflip_replicate _ _ (by simp))
  refine ⟨Cur.ofZ rev ⟨z.stk, ws ++ z.ahd.drop ws.length⟩, ?_, Cur.ofZ_inv _ _, ?_, ?_⟩
  · rw [Cur.run_ofZ true _ rev z hsym, flipAll_of_noflip true _ rev hnf, Z.run_append,
      Z.run_writes ws z hle']
    have := Z.run_readS true ws.reverse z.stk (z.ahd.drop ws.length)
    simp only [List.length_reverse, List.reverse_reverse] at this
    simp [this]
  · simp only [Cur.inner_pos_ofZ]
    cases rev <;> simp [posOf]; omega
  · simp only [Cur.inner_len_ofZ]
    simp; omega

/-! ## `pos` and `seek` -/

theorem Cur.pos_ofZ (wr rev : Bool) (z : Z) :
    Cur.step wr (Cur.ofZ rev z) .pos = .ok (.num (posOf rev z), Cur.ofZ rev z) := by
  cases rev <;>
    simp [Cur.ofZ, Cur.step, Cursor.getPos, RevCursor.getPos, RevCursor.ofZ, Cursor.ofZ, Z.swap, posOf]

theorem Cursor.seek_le (c : Cursor) (q : Nat) (h : q ≤ c.buf.length) :
    c.seek q = some { c with pos := q } := by
  simp [Cursor.seek, Nat.not_lt.mpr h]

/-- seeking back over words `a` that were pushed from the queue side to the stack side -/
theorem Cur.seek_back_ofZ (wr rev : Bool) (a st ah : List Nat) :
    Cur.step wr (Cur.ofZ rev ⟨a.reverse ++ st, ah⟩) (.seek (posOf rev ⟨st, a ++ ah⟩)) =
      .ok (.ok, Cur.ofZ rev ⟨st, a ++ ah⟩) := by
  cases rev
  · simp [Cur.ofZ, Cur.step, posOf, Cursor.ofZ]
    rw [Cursor.seek_le _ _ (by simp <;> omega)]
  · simp [Cur.ofZ, Cur.step, posOf, RevCursor.seek, RevCursor.ofZ, Cursor.ofZ, Z.swap]
    rw [Cursor.seek_le _ _ (by simp <;> omega)]

/-- `seek(pos())` is the identity -/
theorem Cur.seek_pos (wr : Bool) (s : Cur) (hI : s.Inv) (p : Nat)
    (hp : Cur.step wr s .pos = .ok (.num p, s)) :
    Cur.step wr s (.seek p) = .ok (.ok, s) := by
  cases s with
  | fwd c =>
    simp only [Cur.step, Cursor.getPos] at hp
    have : c.pos = p := by simpa using congrArg (·.1) (Except.ok.inj hp)
    subst this
    have h : ¬ (c.pos > c.buf.length) := by simpa [Cur.Inv, Cur.inner, Cursor.Inv] using hI
    simp [Cur.step, Cursor.seek, h]
  | rev r =>
    simp only [Cur.step, RevCursor.getPos] at hp
    have : r.inner.pos = p := by simpa using congrArg (·.1) (Except.ok.inj hp)
    subst this
    have h : ¬ (r.inner.pos > r.inner.buf.length) := by
      simpa [Cur.Inv, Cur.inner, Cursor.Inv] using hI
    simp [Cur.step, RevCursor.seek, Cursor.seek, h]

/-- `seek q` is refused exactly when `q > len`, and then changes nothing -/
theorem Cur.seek_refused_iff (wr : Bool) (s : Cur) (q : Nat) :
    Cur.step wr s (.seek q) = .ok (.err, s) ↔ q > s.inner.buf.length := by
  cases s with
  | fwd c =>
    by_cases h : q > c.buf.length <;> simp [Cur.step, Cursor.seek, Cur.inner, h]
  | rev r =>
    by_cases h : q > r.inner.buf.length <;> simp [Cur.step, RevCursor.seek, Cursor.seek, Cur.inner, h]

/-- an accepted seek sets the position, keeps the buffer, and establishes the invariant -/
theorem Cur.seek_accepted (wr : Bool) (s : Cur) (q : Nat) (h : q ≤ s.inner.buf.length) :
    ∃ s', Cur.step wr s (.seek q) = .ok (.ok, s') ∧ s'.inner.pos = q ∧
      s'.inner.buf = s.inner.buf ∧ s'.Inv := by
  cases s with
  | fwd c =>
    have h' : ¬ (q > c.buf.length) := by simpa [Cur.inner] using Nat.not_lt.mpr h
    exact ⟨.fwd { c with pos := q }, by simp [Cur.step, Cursor.seek, h'], rfl, rfl,
      by simpa [Cur.Inv, Cur.inner, Cursor.Inv] using h⟩
  | rev r =>
    have h' : ¬ (q > r.inner.buf.length) := by simpa [Cur.inner] using Nat.not_lt.mpr h
    exact ⟨.rev ⟨{ r.inner with pos := q }⟩, by simp [Cur.step, RevCursor.seek, Cursor.seek, h'],
      rfl, rfl, by simpa [Cur.Inv, Cur.inner, Cursor.Inv] using h⟩

/-! ## FIFO -/

/-- `k ≤ space_left` writes, seek back to the position reported before them, `k` queue reads:
    the reads return the words in the order written. -/
theorem Cur.fifo (s : Cur) (hI : s.Inv) (n p : Nat) (ws : List Nat)
    (hsp : Cur.step true s .spaceLeft = .ok (.num n, s)) (hle : ws.length ≤ n)
    (hp : Cur.step true s .pos = .ok (.num p, s)) :
    ∃ s', Cur.run true s (ws.map Op.write ++ ([Op.seek p] ++ List.replicate ws.length Op.readQ)) =
        (List.replicate ws.length Out.ok ++ ([Out.ok] ++ ws.map (fun w => Out.word (some w))), .ok s')
      ∧ s'.Inv := by
  obtain ⟨rev, z, rfl⟩ := Cur.exists_ofZ s hI
  rw [Cur.spaceLeft_ofZ] at hsp
  have hn : z.ahd.length = n := by simpa using congrArg (·.1) (Except.ok.inj hsp)
  have hle' : ws.length ≤ z.ahd.length := hn ▸ hle
  rw [Cur.pos_ofZ] at hp
  have hpp : posOf rev z = p := by simpa using congrArg (·.1) (Except.ok.inj hp)
  -- the writes
  have h1 : Cur.run true (Cur.ofZ rev z) (ws.map Op.write) =
      (List.replicate ws.length Out.ok, .ok (Cur.ofZ rev ⟨ws.reverse ++ z.stk, z.ahd.drop ws.length⟩)) := by
    rw [Cur.run_ofZ true _ rev z (sym_writes ws), flipAll_of_noflip true _ rev (noflip_writes ws),
      Z.run_writes ws z hle']
  -- the seek
  have hpos : posOf rev ⟨z.stk, ws ++ z.ahd.drop ws.length⟩ = p := by
    rw [← hpp]; cases rev <;> simp [posOf]; omega
  have h2 := Cur.seek_back_ofZ true rev ws z.stk (z.ahd.drop ws.length)
  rw [hpos] at h2
  -- the reads
  have h3 : Cur.run true (Cur.ofZ rev ⟨z.stk, ws ++ z.ahd.drop ws.length⟩)
      (List.replicate ws.length Op.readQ) =
      (ws.map (fun w => Out.word (some w)),
        .ok (Cur.ofZ rev ⟨ws.reverse ++ z.stk, z.ahd.drop ws.length⟩)) := by
    rw [Cur.run_ofZ true _ rev _ (sym_replicate _ _ rfl),
      flipAll_of_noflip true _ rev (noflip_replicate _ _ (by simp)), Z.run_readQ]
  refine ⟨Cur.ofZ rev ⟨ws.reverse ++ z.stk, z.ahd.drop ws.length⟩, ?_, Cur.ofZ_inv _ _⟩
  rw [Cur.run_append, h1]
  simp only [List.singleton_append, Cur.run, h2, h3]

/-! ## fusedness -/

/-- after `Ok(None)` the cursor is unchanged … -/
theorem Cur.readS_none_state (wr : Bool) (s s' : Cur)
    (h : Cur.step wr s .readS = .ok (.word none, s')) : s' = s := by
  cases s with
  | fwd c =>
    by_cases hp : c.pos = 0
    · simp [Cur.step, Cursor.readStack, hp] at h
      exact h.symm
    · cases hb : c.buf[c.pos - 1]? <;> simp [Cur.step, Cursor.readStack, hp, hb] at h
  | rev r =>
    cases hb : r.inner.buf[r.inner.pos]? with
    | none =>
      simp [Cur.step, RevCursor.readStack, Cursor.readQueue, hb] at h
      exact h.symm
    | some w => simp [Cur.step, RevCursor.readStack, Cursor.readQueue, hb] at h

theorem Cur.readQ_none_state (wr : Bool) (s s' : Cur)
    (h : Cur.step wr s .readQ = .ok (.word none, s')) : s' = s := by
  cases s with
  | fwd c =>
    cases hb : c.buf[c.pos]? with
    | none =>
      simp [Cur.step, Cursor.readQueue, hb] at h
      exact h.symm
    | some w => simp [Cur.step, Cursor.readQueue, hb] at h
  | rev r =>
    by_cases hp : r.inner.pos = 0
    · simp [Cur.step, RevCursor.readQueue, Cursor.readStack, hp] at h
      exact h.symm
    · cases hb : r.inner.buf[r.inner.pos - 1]? <;>
        simp [Cur.step, RevCursor.readQueue, Cursor.readStack, hp, hb] at h

/-- … hence every further read with the same semantics is `Ok(None)` again (no invariant
    needed: holds even after `buf_mut` misuse) -/
theorem Cur.fused (wr : Bool) (op : Op) (hop : op = .readS ∨ op = .readQ) (s s' : Cur)
    (h : Cur.step wr s op = .ok (.word none, s')) (m : Nat) :
    Cur.run wr s' (List.replicate m op) = (List.replicate m (Out.word none), .ok s') := by
  have hs : s' = s := by
    rcases hop with rfl | rfl
    · exact Cur.readS_none_state wr s s' h
    · exact Cur.readQ_none_state wr s s' h
  subst hs
  induction m with
  | zero => simp [Cur.run]
  | succ m ih => simp [List.replicate_succ, Cur.run, h, ih]

/-! ## `remaining` and `space_left` are exact -/

theorem Cur.remS_exact (wr : Bool) (s : Cur) (hI : s.Inv) (n : Nat)
    (h : Cur.step wr s .remS = .ok (.num n, s)) (m : Nat) :
    ∃ (vs : List Nat) (s' : Cur), vs.length = n ∧ s'.Inv ∧
      Cur.run wr s (List.replicate (n + m) Op.readS) =
        (vs.map (fun w => Out.word (some w)) ++ List.replicate m (Out.word none), .ok s') := by
  obtain ⟨rev, z, rfl⟩ := Cur.exists_ofZ s hI
  rw [Cur.remS_ofZ] at h
  have hn : z.stk.length = n := by simpa using congrArg (·.1) (Except.ok.inj h)
  subst hn
  refine ⟨z.stk, Cur.ofZ rev ⟨[], z.stk.reverse ++ z.ahd⟩, rfl, Cur.ofZ_inv _ _, ?_⟩
  rw [Cur.run_ofZ wr _ rev z (sym_replicate _ _ rfl),
    flipAll_of_noflip wr _ rev (noflip_replicate _ _ (by simp)), ← List.replicate_append_replicate, Z.run_append]
  have h1 := Z.run_readS wr z.stk [] z.ahd
  simp only [List.append_nil] at h1
  cases z with
  | mk stk ahd => simp only at h1 ⊢; simp [h1, Z.run_readS_nil]

theorem Cur.remQ_exact (wr : Bool) (s : Cur) (hI : s.Inv) (n : Nat)
    (h : Cur.step wr s .remQ = .ok (.num n, s)) (m : Nat) :
    ∃ (vs : List Nat) (s' : Cur), vs.length = n ∧ s'.Inv ∧
      Cur.run wr s (List.replicate (n + m) Op.readQ) =
        (vs.map (fun w => Out.word (some w)) ++ List.replicate m (Out.word none), .ok s') := by
  obtain ⟨rev, z, rfl⟩ := Cur.exists_ofZ s hI
  rw [Cur.remQ_ofZ] at h
  have hn : z.ahd.length = n := by simpa using congrArg (·.1) (Except.ok.inj h)
  subst hn
  refine ⟨z.ahd, Cur.ofZ rev ⟨z.ahd.reverse ++ z.stk, []⟩, rfl, Cur.ofZ_inv _ _, ?_⟩
  rw [Cur.run_ofZ wr _ rev z (sym_replicate _ _ rfl),
    flipAll_of_noflip wr _ rev (noflip_replicate _ _ (by simp)), ← List.replicate_append_replicate, Z.run_append]
  have h1 := Z.run_readQ wr z.ahd z.stk []
  simp only [List.append_nil] at h1
  cases z with
  | mk stk ahd => simp only at h1 ⊢; simp [h1, Z.run_readQ_nil]

/-- exactly `space_left` writes succeed; the next one is refused with `OutOfSpace` -/
theorem Cur.spaceLeft_exact (s : Cur) (hI : s.Inv) (n : Nat)
    (h : Cur.step true s .spaceLeft = .ok (.num n, s)) (ws : List Nat) (hlen : ws.length = n)
    (w : Nat) :
    ∃ s', s'.Inv ∧
      Cur.run true s (ws.map Op.write ++ [Op.write w]) =
        (List.replicate n Out.ok ++ [Out.full], .ok s') := by
  obtain ⟨rev, z, rfl⟩ := Cur.exists_ofZ s hI
  rw [Cur.spaceLeft_ofZ] at h
  have hn : z.ahd.length = n := by simpa using congrArg (·.1) (Except.ok.inj h)
  subst hn
  have hsym : ∀ o ∈ ws.map Op.write ++ [Op.write w], o.Sym = true :=
    sym_append (sym_writes ws) (by simp [Op.Sym])
  have hnf : ∀ o ∈ ws.map Op.write ++ [Op.write w], o ≠ Op.intoReversed :=
    noflip_append (noflip_writes ws) (by simp)
  refine ⟨Cur.ofZ rev ⟨ws.reverse ++ z.stk, []⟩, Cur.ofZ_inv _ _, ?_⟩
  rw [Cur.run_ofZ true _ rev z hsym, flipAll_of_noflip true _ rev hnf, Z.run_append,
    Z.run_writes ws z (by omega)]
  have hd : z.ahd.drop ws.length = [] := by simp [hlen]
  simp [Z.run, Z.step, hlen]

/-! ## the invariant is preserved by every trait method, and none of them faults (C20) -/

theorem Cur.step_inv (wr : Bool) (s : Cur) (hI : s.Inv) (op : Op) (hop : ∀ ws, op ≠ .bmSet ws) :
    ∃ o s', Cur.step wr s op = .ok (o, s') ∧ s'.Inv := by
  by_cases hs : op.Sym = true
  · obtain ⟨rev, z, rfl⟩ := Cur.exists_ofZ s hI
    exact ⟨_, _, Cur.step_ofZ wr rev z op hs, Cur.ofZ_inv _ _⟩
  · cases op with
    | pos => cases s <;> exact ⟨_, _, rfl, hI⟩
    | raw => cases s <;> exact ⟨_, _, rfl, hI⟩
    | seek q =>
      by_cases hq : q ≤ s.inner.buf.length
      · obtain ⟨s', h1, _, _, h4⟩ := Cur.seek_accepted wr s q hq
        exact ⟨_, _, h1, h4⟩
      · exact ⟨_, _, (Cur.seek_refused_iff wr s q).mpr (by omega), hI⟩
    | bmSet ws => exact absurd rfl (hop ws)
    | _ => simp [Op.Sym] at hs

theorem Cur.run_inv (wr : Bool) (ops : List Op) : ∀ (s : Cur), s.Inv →
    (∀ op ∈ ops, ∀ ws, op ≠ .bmSet ws) →
    ∃ outs s', Cur.run wr s ops = (outs, .ok s') ∧ s'.Inv ∧ outs.length = ops.length := by
  induction ops with
  | nil => intro s hI _; exact ⟨[], s, rfl, hI, rfl⟩
  | cons op ops ih =>
    intro s hI h
    obtain ⟨o, s1, h1, hI1⟩ := Cur.step_inv wr s hI op (h op (by simp))
    obtain ⟨outs, s2, h2, hI2, hl⟩ := ih s1 hI1 (fun o ho => h o (by simp [ho]))
    exact ⟨o :: outs, s2, by simp [Cur.run, h1, h2], hI2, by simp [hl]⟩

/-! ## `into_reversed` is observationally a no-op -/

/-- `r` stores the same words as `c` mirrored, with the mirrored position -/
def Mirror (c : Cursor) (r : RevCursor) : Prop :=
  r.inner.buf = c.buf.reverse ∧ r.inner.pos + c.pos = c.buf.length

theorem mirror_ofZ (z : Z) : Mirror (Cursor.ofZ z) (RevCursor.ofZ z) := by
  simp [Mirror, Cursor.ofZ, RevCursor.ofZ, Z.swap]; omega

theorem mirror_exists (c : Cursor) (r : RevCursor) (h : Mirror c r) :
    ∃ z, c = Cursor.ofZ z ∧ r = RevCursor.ofZ z := by
  have hI : c.Inv := by unfold Cursor.Inv; have := h.2; omega
  refine ⟨c.toZ, (Cursor.ofZ_toZ c hI).symm, ?_⟩
  cases r with
  | mk ri =>
    cases ri with
    | mk rb rp =>
      obtain ⟨h1, h2⟩ := h
      simp only at h1 h2
      have hb : rb = (c.buf.drop c.pos).reverse ++ (c.buf.take c.pos).reverse := by
        rw [h1, ← List.reverse_append, List.take_append_drop]
      have hp : rp = (c.buf.drop c.pos).length := by simp [List.length_drop]; omega
      simp [RevCursor.ofZ, Cursor.ofZ, Z.swap, Cursor.toZ, hb, hp]

/-- two states that are images of the same zipper in opposite directions -/
def Cur.Mirror : Cur → Cur → Prop
  | .fwd c, .rev r => CV.Backend.Mirror c r
  | .rev r, .fwd c => CV.Backend.Mirror c r
  | _, _ => False

theorem Cur.mirror_ofZ (d : Bool) (z : Z) : Cur.Mirror (Cur.ofZ d z) (Cur.ofZ (!d) z) := by
  cases d <;> simp [Cur.ofZ, Cur.Mirror, CV.Backend.mirror_ofZ]

theorem flipAll_not (wr : Bool) (ops : List Op) : ∀ d, flipAll wr ops (!d) = !(flipAll wr ops d) := by
  induction ops with
  | nil => intro d; rfl
  | cons op ops ih =>
    intro d
    have : flipOn wr op (!d) = !(flipOn wr op d) := by
      cases op <;> cases wr <;> simp [flipOn]
    simp [flipAll, this, ih]

/-- **reverse_bisim.**  From mirrored states every history over the direction-independent
    alphabet (reads with both semantics, writes, `extend_from_iter`, `remaining`, `space_left`,
    `is_exhausted`, `is_full`, `into_reversed`, …) produces the same outputs, never faults, and
    ends in mirrored states. -/
theorem Cur.reverse_bisim (wr : Bool) (c : Cursor) (r : RevCursor) (h : CV.Backend.Mirror c r)
    (ops : List Op) (hs : ∀ op ∈ ops, op.Sym = true) :
    (Cur.run wr (.fwd c) ops).1 = (Cur.run wr (.rev r) ops).1 ∧
    ∃ sa sb, (Cur.run wr (.fwd c) ops).2 = .ok sa ∧ (Cur.run wr (.rev r) ops).2 = .ok sb ∧
      Cur.Mirror sa sb := by
  obtain ⟨z, rfl, rfl⟩ := mirror_exists c r h
  have h1 := Cur.run_ofZ wr ops false z hs
  have h2 := Cur.run_ofZ wr ops true z hs
  simp only [Cur.ofZ, Bool.false_eq_true, if_false, if_true] at h1 h2
  rw [h1, h2]
  refine ⟨rfl, _, _, rfl, rfl, ?_⟩
  have := flipAll_not wr ops false
  simp only [Bool.not_false] at this
  rw [this]
  exact Cur.mirror_ofZ _ _

/-- `Cursor::into_reversed` produces the mirror image (and cannot fail under the invariant) -/
theorem Cursor.intoReversed_mirror (c : Cursor) (hI : c.Inv) :
    ∃ r, c.intoReversed = .ok r ∧ Mirror c r := by
  have := Cursor.ofZ_toZ c hI
  refine ⟨RevCursor.ofZ c.toZ, ?_, ?_⟩
  · rw [← this, Cursor.intoReversed_ofZ, this]
  · have h := mirror_ofZ c.toZ
    rwa [this] at h

/-- what `pos`/`seek` reveal: the mirrored position -/
theorem mirror_pos (c : Cursor) (r : RevCursor) (h : Mirror c r) :
    r.getPos = c.buf.length - c.getPos := by
  have := h.2; simp [RevCursor.getPos, Cursor.getPos]; omega

/-! ## positions stay valid along every history: the buffer length never changes -/

theorem Z.extend_len (ws : List Nat) : ∀ z : Z,
    (Z.extend z ws).2.stk.length + (Z.extend z ws).2.ahd.length = z.stk.length + z.ahd.length := by
  induction ws with
  | nil => intro z; rfl
  | cons w ws ih =>
    intro z
    cases z with
    | mk stk ahd =>
      cases ahd with
      | nil => simp [Z.extend]
      | cons a ah =>
        simp only [Z.extend]
        rw [ih]; simp; omega

theorem Z.step_len (wr : Bool) (z : Z) (op : Op) :
    (Z.step wr z op).2.stk.length + (Z.step wr z op).2.ahd.length = z.stk.length + z.ahd.length := by
  cases z with
  | mk stk ahd =>
    cases op with
    | readS => cases stk <;> simp [Z.step]; omega
    | readQ => cases ahd <;> simp [Z.step]; omega
    | write w => cases wr <;> cases ahd <;> simp [Z.step]; omega
    | extend ws => cases wr <;> simp [Z.step, Z.extend_len]
    | spaceLeft => cases wr <;> simp [Z.step]
    | full => cases wr <;> simp [Z.step]
    | intoReversed => cases wr <;> simp [Z.step]
    | _ => simp [Z.step]

/-- no trait method changes the length of the buffer -/
theorem Cur.step_len (wr : Bool) (s : Cur) (hI : s.Inv) (op : Op) (hop : ∀ ws, op ≠ .bmSet ws)
    (o : Out) (s' : Cur) (h : Cur.step wr s op = .ok (o, s')) :
    s'.inner.buf.length = s.inner.buf.length := by
  by_cases hs : op.Sym = true
  · obtain ⟨rev, z, rfl⟩ := Cur.exists_ofZ s hI
    rw [Cur.step_ofZ wr rev z op hs] at h
    have := (Prod.mk.inj (Except.ok.inj h)).2
    rw [← this, Cur.inner_len_ofZ, Cur.inner_len_ofZ, Z.step_len]
  · cases op with
    | pos => cases s <;> (simp [Cur.step] at h; rw [← h.2])
    | raw => cases s <;> (simp [Cur.step] at h; rw [← h.2])
    | seek q =>
      by_cases hq : q ≤ s.inner.buf.length
      · obtain ⟨s2, h1, _, h3, _⟩ := Cur.seek_accepted wr s q hq
        rw [h1] at h
        have := (Prod.mk.inj (Except.ok.inj h)).2
        rw [← this, h3]
      · have h1 := (Cur.seek_refused_iff wr s q).mpr (by omega)
        rw [h1] at h
        have := (Prod.mk.inj (Except.ok.inj h)).2
        rw [← this]
    | bmSet ws => exact absurd rfl (hop ws)
    | _ => simp [Op.Sym] at hs

theorem Cur.run_len (wr : Bool) (ops : List Op) : ∀ (s : Cur), s.Inv →
    (∀ op ∈ ops, ∀ ws, op ≠ .bmSet ws) →
    ∃ outs s', Cur.run wr s ops = (outs, .ok s') ∧ s'.Inv ∧
      s'.inner.buf.length = s.inner.buf.length := by
  induction ops with
  | nil => intro s hI _; exact ⟨[], s, rfl, hI, rfl⟩
  | cons op ops ih =>
    intro s hI h
    obtain ⟨o, s1, h1, hI1⟩ := Cur.step_inv wr s hI op (h op (by simp))
    have hl1 := Cur.step_len wr s hI op (h op (by simp)) o s1 h1
    obtain ⟨outs, s2, h2, hI2, hl2⟩ := ih s1 hI1 (fun o ho => h o (by simp [ho]))
    exact ⟨o :: outs, s2, by simp [Cur.run, h1, h2], hI2, by rw [hl2, hl1]⟩

/-- **positions reported can be sought back to, at any later time**: a position taken at any
    point of a history is accepted by `seek` after any further reads / writes / seeks /
    reversals, and seeking sets exactly that position without touching the buffer -/
theorem Cur.seek_back_after_history (wr : Bool) (s : Cur) (hI : s.Inv) (p : Nat)
    (hp : Cur.step wr s .pos = .ok (.num p, s)) (ops : List Op)
    (hops : ∀ op ∈ ops, ∀ ws, op ≠ .bmSet ws) :
    ∃ outs s1 s2, Cur.run wr s ops = (outs, .ok s1) ∧
      Cur.step wr s1 (.seek p) = .ok (.ok, s2) ∧
      s2.inner.pos = p ∧ s2.inner.buf = s1.inner.buf ∧ s2.Inv := by
  have hple : p ≤ s.inner.buf.length := by
    cases s with
    | fwd c =>
      simp [Cur.step, Cursor.getPos] at hp
      have hI' : c.pos ≤ c.buf.length := hI
      simp [Cur.inner]; omega
    | rev r =>
      simp [Cur.step, RevCursor.getPos] at hp
      have hI' : r.inner.pos ≤ r.inner.buf.length := hI
      simp [Cur.inner]; omega
  obtain ⟨outs, s1, h1, _, hl⟩ := Cur.run_len wr ops s hI hops
  obtain ⟨s2, h2, h3, h4, h5⟩ := Cur.seek_accepted wr s1 p (by omega)
  exact ⟨outs, s1, s2, h1, h2, h3, h4, h5⟩

/-! ## what reads return: the buffer contents at the position -/

/-- words a `Stack` read sequence returns, next first -/
def Cur.stackView : Cur → List Nat
  | .fwd c => (c.buf.take c.pos).reverse
  | .rev r => r.inner.buf.drop r.inner.pos
/-- words a `Queue` read sequence returns, next first -/
def Cur.queueView : Cur → List Nat
  | .fwd c => c.buf.drop c.pos
  | .rev r => (r.inner.buf.take r.inner.pos).reverse

theorem Cur.views_ofZ (rev : Bool) (z : Z) :
    (Cur.ofZ rev z).stackView = z.stk ∧ (Cur.ofZ rev z).queueView = z.ahd := by
  cases rev <;> simp [Cur.ofZ, Cur.stackView, Cur.queueView, Cursor.ofZ, RevCursor.ofZ, Z.swap]

/-- stack reads return exactly the buffer's words below the position, downwards, then `None` -/
theorem Cur.readS_view (wr : Bool) (s : Cur) (hI : s.Inv) (m : Nat) :
    (Cur.run wr s (List.replicate (s.stackView.length + m) Op.readS)).1 =
      s.stackView.map (fun w => Out.word (some w)) ++ List.replicate m (Out.word none) := by
  obtain ⟨rev, z, rfl⟩ := Cur.exists_ofZ s hI
  rw [(Cur.views_ofZ rev z).1, Cur.run_ofZ wr _ rev z (sym_replicate _ _ rfl),
    ← List.replicate_append_replicate, Z.run_append]
  have h1 := Z.run_readS wr z.stk [] z.ahd
  simp only [List.append_nil] at h1
  cases z with
  | mk stk ahd => simp only at h1 ⊢; simp [h1, Z.run_readS_nil]

/-- queue reads return exactly the buffer's words from the position upwards, then `None` -/
theorem Cur.readQ_view (wr : Bool) (s : Cur) (hI : s.Inv) (m : Nat) :
    (Cur.run wr s (List.replicate (s.queueView.length + m) Op.readQ)).1 =
      s.queueView.map (fun w => Out.word (some w)) ++ List.replicate m (Out.word none) := by
  obtain ⟨rev, z, rfl⟩ := Cur.exists_ofZ s hI
  rw [(Cur.views_ofZ rev z).2, Cur.run_ofZ wr _ rev z (sym_replicate _ _ rfl),
    ← List.replicate_append_replicate, Z.run_append]
  have h1 := Z.run_readQ wr z.ahd z.stk []
  simp only [List.append_nil] at h1
  cases z with
  | mk stk ahd => simp only at h1 ⊢; simp [h1, Z.run_readQ_nil]

/-- a write overwrites the cell at the position (so a later seek-back reads the new word) -/
theorem Cursor.write_overwrites (c c' : Cursor) (w : Nat) (h : c.write w = .ok c') :
    c'.buf = c.buf.set c.pos w ∧ c'.pos = c.pos + 1 := by
  unfold Cursor.write at h
  split at h
  · cases h; exact ⟨rfl, rfl⟩
  · cases h

theorem RevCursor.write_overwrites (r r' : RevCursor) (w : Nat) (h : r.write w = .ok r') :
    r'.inner.buf = r.inner.buf.set (r.inner.pos - 1) w ∧ r'.inner.pos = r.inner.pos - 1 := by
  unfold RevCursor.write at h
  split at h
  · cases h
  · split at h
    · cases h; exact ⟨rfl, rfl⟩
    · cases h

end CV.Backend
