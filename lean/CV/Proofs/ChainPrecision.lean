import CV.Proofs.ChainStep
/-!
# Chain coder: `change_precision` / `increase_precision` / `decrease_precision`

`changePrecision_spec`: on a coder satisfying the invariant for precision `P`, changing to any
admissible precision `q` either fails with `outOfRemainders` (only when decreasing, with an
empty remainders stack, nothing changed) or yields a coder satisfying the invariant for `q`;
changing back to `P` restores the heads and the remainders stack exactly (`precision_inverse`),
for every content of the stacks below.
-/
namespace CV.Chain

@[simp] theorem withP_W (c : Cfg) (q : Nat) : (withP c q).W = c.W := rfl
@[simp] theorem withP_S (c : Cfg) (q : Nat) : (withP c q).S = c.S := rfl
@[simp] theorem withP_P (c : Cfg) (q : Nat) : (withP c q).P = q := rfl
@[simp] theorem withP_B (c : Cfg) (q : Nat) : (withP c q).B = c.B := rfl
theorem withP_self (c : Cfg) : withP c c.P = c := rfl
theorem withP_withP (c : Cfg) (q r : Nat) : withP (withP c q) r = withP c r := rfl

theorem changePrecision_spec {c : Cfg} {q : Nat} (hP : PrecOk c.W c.S c.P)
    (hQ : PrecOk c.W c.S q) {x : Coder} (hx : Inv c x) :
    (changePrecision c q x = .error .outOfRemainders ∧ x.remainders = [] ∧ q < c.P ∧
        x.heads.remainders < 2^(c.S - q - c.W)) ∨
    ∃ y, changePrecision c q x = .ok y ∧ Inv (withP c q) y ∧
      y.compressed = x.compressed ∧ y.heads.compressed = x.heads.compressed ∧
      ∀ K T, changePrecision (withP c q) c.P
          { compressed := K, remainders := y.remainders ++ T, heads := y.heads }
        = .ok { compressed := K, remainders := x.remainders ++ T, heads := x.heads } := by
  obtain ⟨hP1, hPW, hPS⟩ := hP
  obtain ⟨hQ1, hQW, hQS⟩ := hQ
  obtain ⟨⟨hc1, hc2, hr1, hr2⟩, hwc, hwr⟩ := hx
  have hW0 : 0 < 2^c.W := pow_pos2 _
  have eP : shlT c.S 1 (c.S - c.P) = 2^(c.S - c.P) := shlT_one (by omega)
  have eQ : shlT c.S 1 (c.S - q) = 2^(c.S - q) := shlT_one (by omega)
  have ePW : shlT c.S 1 (c.S - c.P - c.W) = 2^(c.S - c.P - c.W) := shlT_one (by omega)
  have eQW : shlT c.S 1 (c.S - q - c.W) = 2^(c.S - q - c.W) := shlT_one (by omega)
  have hkP : 2^(c.S - c.P) = 2^(c.S - c.P - c.W) * 2^c.W := by
    rw [← Nat.pow_add]; congr 1; omega
  have hkQ : 2^(c.S - q) = 2^(c.S - q - c.W) * 2^c.W := by
    rw [← Nat.pow_add]; congr 1; omega
  have hsub : c.S - c.W - c.P = c.S - c.P - c.W := by omega
  rw [hsub] at hr1
  have hrS : x.heads.remainders < 2^c.S := Nat.lt_of_lt_of_le hr2 (pow_mono2 (by omega))
  cases x with
  | mk comp rems heads =>
  cases heads with
  | mk hc hr =>
  simp only at hc1 hc2 hr1 hr2 hwc hwr hrS ⊢
  by_cases hgt : q > c.P
  · -- increase
    right
    by_cases hfl : hr ≥ 2^(c.S - q)
    · -- flush one word
      have hd1 : 2^(c.S - q - c.W) ≤ hr / 2^c.W := by
        rw [Nat.le_div_iff_mul_le hW0, ← hkQ]; exact hfl
      have hd2 : hr / 2^c.W < 2^(c.S - c.P - c.W) := by
        apply Nat.div_lt_of_lt_mul; rw [Nat.mul_comm, ← hkP]; exact hr2
      have hd3 : hr / 2^c.W < 2^(c.S - q) :=
        Nat.lt_of_lt_of_le hd2 (pow_mono2 (by omega))
      have hlow : hr % 2^c.W < 2^c.W := Nat.mod_lt _ hW0
      have hnt : hr / 2^c.W * 2^c.W < 2^c.S :=
        Nat.lt_of_le_of_lt (Nat.div_mul_le_self _ _) hrS
      have eref : shlT c.S (hr / 2^c.W) c.W ||| (hr % 2^c.W) = hr := by
        rw [shlT_of_lt hnt, or_eq_add hlow]; exact div_add_mod' _ _
      refine ⟨{ compressed := comp, remainders := hr % 2^c.W :: rems,
                heads := { compressed := hc, remainders := hr / 2^c.W } }, ?_, ?_, rfl, rfl, ?_⟩
      · simp [changePrecision, hgt, increasePrecision, eQ, hfl, flushHead, shr_eq, narrow]
      · refine ⟨⟨hc1, hc2, ?_, hd3⟩, hwc, Words.cons hlow hwr⟩
        have : c.S - c.W - q = c.S - q - c.W := by omega
        simp only [withP_S, withP_W, withP_P]
        rw [this]; exact hd1
      · intro K T
        have hng : ¬ (c.P > q) := by omega
        simp [changePrecision, hng, decreasePrecision, ePW, hd2, refillHead, eref]
    · -- nothing to do
      have hlt : hr < 2^(c.S - q) := by omega
      refine ⟨{ compressed := comp, remainders := rems, heads := { compressed := hc, remainders := hr } },
        ?_, ?_, rfl, rfl, ?_⟩
      · simp [changePrecision, hgt, increasePrecision, eQ, hfl]
      · refine ⟨⟨hc1, hc2, ?_, hlt⟩, hwc, hwr⟩
        simp only [withP_S, withP_W, withP_P]
        exact Nat.le_trans (pow_mono2 (by omega)) hr1
      · intro K T
        have hng : ¬ (c.P > q) := by omega
        have hnl : ¬ (hr < 2^(c.S - c.P - c.W)) := by omega
        simp [changePrecision, hng, decreasePrecision, ePW, hnl]
  · -- decrease (or same precision)
    have hle : q ≤ c.P := by omega
    by_cases hre : hr < 2^(c.S - q - c.W)
    · have hqlt : q < c.P := by
        rcases Nat.lt_or_ge q c.P with h | h
        · exact h
        · have : q = c.P := by omega
          subst this; omega
      cases rems with
      | nil =>
        left
        refine ⟨?_, rfl, hqlt, hre⟩
        simp [changePrecision, hgt, decreasePrecision, eQW, hre, refillHead]
      | cons w rest =>
        right
        have hwlt := hwr.head
        have hup : hr * 2^c.W + w < 2^(c.S - q) := by
          have h3 : (hr + 1) * 2^c.W ≤ 2^(c.S - q - c.W) * 2^c.W := Nat.mul_le_mul_right _ hre
          have h4 : (hr + 1) * 2^c.W = hr * 2^c.W + 2^c.W := by rw [Nat.add_mul, Nat.one_mul]
          omega
        have hdown : 2^(c.S - c.P) ≤ hr * 2^c.W + w := by
          rw [hkP]; exact Nat.le_trans (Nat.mul_le_mul_right _ hr1) (Nat.le_add_right _ _)
        have hnt : hr * 2^c.W < 2^c.S := by
          have : 2^(c.S - q) ≤ 2^c.S := pow_mono2 (by omega)
          omega
        have eref : shlT c.S hr c.W ||| w = hr * 2^c.W + w := by
          rw [shlT_of_lt hnt, or_eq_add hwlt]
        refine ⟨{ compressed := comp, remainders := rest,
                  heads := { compressed := hc, remainders := hr * 2^c.W + w } }, ?_, ?_, rfl, rfl, ?_⟩
        · simp [changePrecision, hgt, decreasePrecision, eQW, hre, refillHead, eref]
        · refine ⟨⟨hc1, hc2, ?_, hup⟩, hwc, hwr.tail⟩
          simp only [withP_S, withP_W, withP_P]
          exact Nat.le_trans (pow_mono2 (by omega)) hdown
        · intro K T
          have hg : c.P > q := hqlt
          simp [changePrecision, hg, increasePrecision, eP, hdown, flushHead, shr_eq, narrow,
            mul_add_div_of_lt hwlt, mul_add_mod_of_lt hwlt]
    · right
      have hge : 2^(c.S - q - c.W) ≤ hr := by omega
      refine ⟨{ compressed := comp, remainders := rems, heads := { compressed := hc, remainders := hr } },
        ?_, ?_, rfl, rfl, ?_⟩
      · simp [changePrecision, hgt, decreasePrecision, eQW, hre]
      · refine ⟨⟨hc1, hc2, ?_, ?_⟩, hwc, hwr⟩
        · simp only [withP_S, withP_W, withP_P]
          have : c.S - c.W - q = c.S - q - c.W := by omega
          rw [this]; exact hge
        · simp only [withP_S, withP_P]
          exact Nat.lt_of_lt_of_le hr2 (pow_mono2 (by omega))
      · intro K T
        by_cases hg : c.P > q
        · have hnf : ¬ (hr ≥ 2^(c.S - c.P)) := by omega
          simp [changePrecision, hg, increasePrecision, eP, hnf]
        · have hnl : ¬ (hr < 2^(c.S - c.P - c.W)) := by omega
          simp [changePrecision, hg, decreasePrecision, ePW, hnl]

end CV.Chain
