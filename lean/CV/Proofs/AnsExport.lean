import CV.Proofs.AnsStep
import CV.Proofs.Chunks
/-!
# ANS coder: `into_compressed` / `from_compressed`
-/
namespace CV.Ans
open CV

variable {c : Cfg}

theorem pushAll_none {x : Coder} (hcap : x.cap = none) (ws : List Nat) :
    pushAll x ws = some { x with bulk := ws.reverse ++ x.bulk } := by
  induction ws generalizing x with
  | nil => simp [pushAll]
  | cons w ws ih =>
    have hw : canWrite x = true := by simp [canWrite, hcap]
    simp only [pushAll, hw, if_true]
    rw [ih (x := { x with bulk := w :: x.bulk }) hcap]
    simp

theorem intoCompressed_none {x : Coder} (hcap : x.cap = none) :
    intoCompressed c x = some (chunksBE c.W x.state ++ x.bulk) := by
  simp [intoCompressed, pushAll_none hcap, chunksBE]

/-- export never ends in a zero word (the last word of the Rust `Vec` is the head here) -/
theorem intoCompressed_head_ne_zero (hc : c.Valid) {x : Coder} (hx : Inv c x)
    (hcap : x.cap = none) {w : Nat} {rest : List Nat}
    (h : intoCompressed c x = some (w :: rest)) : w ≠ 0 := by
  obtain ⟨f1, f2, f3, f4, f5, f6⟩ := Valid.facts hc
  have hW : 0 < c.W := by omega
  rw [intoCompressed_none hcap, chunksBE_eq] at h
  rcases Nat.eq_zero_or_pos x.state with h0 | h0
  · -- state = 0 ⇒ bulk = [] ⇒ export empty
    have hb : x.bulk = [] := by
      cases hbk : x.bulk with
      | nil => rfl
      | cons a l =>
        have := hx.2.2 (by rw [hbk]; exact List.cons_ne_nil _ _)
        have := Nat.two_pow_pos (c.S - c.W)
        omega
    rw [h0, nchunks_zero _ hW, digitsBE_zero, hb] at h
    simp at h
  · obtain ⟨hn, _, _⟩ := nchunks_bounds hW h0
    obtain ⟨n, hn'⟩ : ∃ n, nchunks c.W x.state = n + 1 := ⟨nchunks c.W x.state - 1, by omega⟩
    rw [hn', digitsBE_succ] at h
    simp only [List.cons_append, Option.some.injEq, List.cons.injEq] at h
    have hle := pow_nchunks_le hW h0
    have hlt := lt_pow_nchunks (x := x.state) hW
    rw [hn'] at hle hlt
    simp only [Nat.add_sub_cancel] at hle
    rw [← h.1, shr_eq]
    have hdpos : 0 < x.state / 2^(n * c.W) := Nat.div_pos hle (Nat.two_pow_pos _)
    have hdlt : x.state / 2^(n * c.W) < 2^c.W := by
      apply Nat.div_lt_of_lt_mul
      rw [← Nat.pow_add, ← Nat.succ_mul]; exact hlt
    rw [Nat.mod_eq_of_lt hdlt]
    omega

/-- the `read_initial_state` loop on the digits of `x` followed by `rest` -/
theorem readInitialLoop_digits (hc : c.Valid) {x : Nat} (hx : x < 2^c.S) (rest : List Nat)
    (hrest : rest ≠ [] → 2^(c.S - c.W) ≤ x) (n : Nat) :
    readInitialLoop c (x / 2^((n + 1) * c.W)) (digitsBE c.W x (n + 1) ++ rest) = (x, rest) := by
  obtain ⟨f1, f2, f3, f4, f5, f6⟩ := Valid.facts hc
  obtain ⟨e1, e2, e3, e4, l1, l2, l3⟩ := pows hc
  have hWp : 0 < 2^c.W := Nat.two_pow_pos _
  -- prefixes of at least one chunk removed are small
  have hsmall : ∀ k, x / 2^((k + 1) * c.W) < 2^(c.S - c.W) := by
    intro k
    apply Nat.div_lt_of_lt_mul
    have : 2^c.S ≤ 2^((k + 1) * c.W) * 2^(c.S - c.W) := by
      rw [← Nat.pow_add]; apply pow_le_pow2
      rw [Nat.succ_mul]; omega
    omega
  have hstep : ∀ k, ((x / 2^((k + 1) * c.W)) <<< c.W) % 2^c.S ||| ((x >>> (k * c.W)) % 2^c.W)
      = x / 2^(k * c.W) := by
    intro k
    have hnt : (x / 2^((k + 1) * c.W)) <<< c.W < 2^c.S := by
      rw [Nat.shiftLeft_eq, e2]
      exact Nat.mul_lt_mul_of_pos_right (hsmall k) hWp
    rw [Nat.mod_eq_of_lt hnt, shl_or_eq (Nat.mod_lt _ hWp), shr_eq]
    exact digit_step c.W x k
  induction n with
  | zero =>
    rw [digitsBE_succ, digitsBE_zero]
    simp only [List.cons_append, List.nil_append, readInitialLoop]
    rw [hstep 0]
    simp only [Nat.zero_mul, Nat.pow_zero, Nat.div_one]
    by_cases hge : x ≥ 2^(c.S - c.W)
    · simp only [hge, if_true]
    · simp only [hge, if_false]
      have : rest = [] := by
        cases rest with
        | nil => rfl
        | cons a l => exact absurd (hrest (List.cons_ne_nil _ _)) hge
      subst this
      simp [readInitialLoop]
  | succ n ih =>
    rw [digitsBE_succ]
    simp only [List.cons_append, readInitialLoop]
    rw [hstep (n + 1)]
    have : ¬ (x / 2^((n + 1) * c.W) ≥ 2^(c.S - c.W)) := by
      have := hsmall n; omega
    simp only [this, if_false]
    exact ih

/-- `from_compressed (into_compressed x) = x` for every coder satisfying the invariant. -/
theorem fromCompressed_intoCompressed (hc : c.Valid) {x : Coder} (hx : Inv c x)
    (hcap : x.cap = none) :
    ∃ ws, intoCompressed c x = some ws ∧ fromCompressed c ws = some x := by
  obtain ⟨f1, f2, f3, f4, f5, f6⟩ := Valid.facts hc
  have hW : 0 < c.W := by omega
  refine ⟨_, intoCompressed_none hcap, ?_⟩
  rw [chunksBE_eq]
  rcases Nat.eq_zero_or_pos x.state with h0 | h0
  · have hb : x.bulk = [] := by
      cases hbk : x.bulk with
      | nil => rfl
      | cons a l =>
        have := hx.2.2 (by rw [hbk]; exact List.cons_ne_nil _ _)
        have := Nat.two_pow_pos (c.S - c.W)
        omega
    rw [h0, nchunks_zero _ hW, digitsBE_zero, hb]
    simp only [List.append_nil, fromCompressed]
    cases x
    simp_all
  · obtain ⟨hn, _, _⟩ := nchunks_bounds hW h0
    obtain ⟨n, hn'⟩ : ∃ n, nchunks c.W x.state = n + 1 := ⟨nchunks c.W x.state - 1, by omega⟩
    have hle := pow_nchunks_le hW h0
    have hlt := lt_pow_nchunks (x := x.state) hW
    rw [hn'] at hle hlt
    simp only [Nat.add_sub_cancel] at hle
    have hdpos : 0 < x.state / 2^(n * c.W) := Nat.div_pos hle (Nat.two_pow_pos _)
    have hdlt : x.state / 2^(n * c.W) < 2^c.W := by
      apply Nat.div_lt_of_lt_mul
      rw [← Nat.pow_add, ← Nat.succ_mul]; exact hlt
    rw [hn', digitsBE_succ, shr_eq, Nat.mod_eq_of_lt hdlt]
    simp only [List.cons_append, fromCompressed]
    have hne : x.state / 2^(n * c.W) ≠ 0 := by omega
    simp only [hne, if_false]
    cases n with
    | zero =>
      -- a single chunk: state < 2^W, hence bulk = []
      simp only [Nat.zero_mul, Nat.pow_zero, Nat.div_one] at hdlt ⊢
      have hb : x.bulk = [] := by
        cases hbk : x.bulk with
        | nil => rfl
        | cons a l =>
          have h1 := hx.2.2 (by rw [hbk]; exact List.cons_ne_nil _ _)
          have h2 : 2^c.W ≤ 2^(c.S - c.W) := pow_le_pow2 (by omega)
          omega
      rw [digitsBE_zero, hb]
      simp only [List.nil_append, readInitialLoop]
      exact congrArg some (Coder.mk.injEq .. ▸ (by cases x; simp_all))
    | succ n =>
      rw [readInitialLoop_digits hc hx.1 x.bulk hx.2.2 n]
      cases x
      simp_all
  
end CV.Ans
