import CV.Proofs.RangeSeal
import CV.Proofs.RangeSpecProps
import CV.Proofs.RangeDec
/-!
# Whole messages: encoding refines the reference run; the sealed words are the reference's
-/
namespace CV.Range
open RangeSpec (St step run)

/-- the configuration of one coding step: same coder, this model's `Probability::BITS` and
    `PRECISION` -/
def cfgAt (c : Cfg) (B P : Nat) : Cfg := { W := c.W, S := c.S, P := P, B := B }

/-- one coding step: the model's type parameters, the model, the symbol -/
structure MStep (Sym : Type) where
  B : Nat
  P : Nat
  model : Model Sym
  sym : Sym

/-- the step is allowed by the crate (static assertions), the model honours its contract and
    the symbol has non-zero probability -/
def MStep.Valid {Sym : Type} (c : Cfg) (x : MStep Sym) : Prop :=
  RValid (cfgAt c x.B x.P) ∧ x.model.WellFormed x.P ∧ (x.model.enc x.sym).isSome

/-- `(cum, p)` of the step's symbol -/
def MStep.cp {Sym : Type} (x : MStep Sym) : Nat × Nat := (x.model.enc x.sym).getD (0, 0)

/-- the step as the reference coder sees it -/
def MStep.spec {Sym : Type} (x : MStep Sym) : Nat × Nat × Nat := (x.P, x.cp.1, x.cp.2)

theorem MStep.Valid.enc_eq {Sym : Type} {c : Cfg} {x : MStep Sym} (h : x.Valid c) :
    x.model.enc x.sym = some (x.cp.1, x.cp.2) := by
  obtain ⟨_, _, hs⟩ := h
  unfold MStep.cp
  cases he : x.model.enc x.sym with
  | none => rw [he] at hs; cases hs
  | some v => rfl

theorem MStep.Valid.cp_ok {Sym : Type} {c : Cfg} {x : MStep Sym} (h : x.Valid c) :
    0 < x.cp.2 ∧ x.cp.1 + x.cp.2 ≤ 2^x.P := by
  obtain ⟨hp, hcp, _, _⟩ := h.2.1.1 _ _ _ h.enc_eq
  exact ⟨hp, hcp⟩

/-- `encode_symbols`: one `encode_symbol` per step -/
def encodeMsg {Sym : Type} (c : Cfg) : Encoder → List (MStep Sym) → Except EncErr Encoder
  | e, [] => .ok e
  | e, x :: xs =>
    match encode (cfgAt c x.B x.P) x.model x.sym e with
    | .ok e' => encodeMsg c e' xs
    | .error err => .error err

/-- `decode_symbols`: one `decode_symbol` per step -/
def decodeMsg {Sym : Type} (c : Cfg) : Decoder → List (MStep Sym) →
    Except DecErr (List Sym × Decoder)
  | d, [] => .ok ([], d)
  | d, x :: xs =>
    match decode (cfgAt c x.B x.P) x.model d with
    | .error err => .error err
    | .ok (s, d') =>
      match decodeMsg c d' xs with
      | .error err => .error err
      | .ok (ss, d'') => .ok (s :: ss, d'')

/-- the message is short enough for the `usize` counters:
    `Word::BITS · (n + 2) < 2^usize::BITS` (`n` symbols need at most `n + 2` words) -/
def MsgFits (c : Cfg) (n : Nat) : Prop := c.W * (n + 2) < 2^usizeBits

instance (c : Cfg) (n : Nat) : Decidable (MsgFits c n) := by
  unfold MsgFits; exact inferInstance

theorem fits_empty {c : Cfg} {n : Nat} (h : MsgFits c n) : Fits c (Encoder.empty c) n := by
  unfold Fits MsgFits at *
  simpa [Encoder.empty, Situation.held] using h

theorem fits_withBackend {c : Cfg} {n : Nat} {ws : List Nat} (h : MsgFits c (ws.length + n)) :
    Fits c (Encoder.withBackend c ws) n := by
  unfold Fits MsgFits at *
  simpa [Encoder.withBackend, Situation.held, Nat.add_assoc] using h

theorem MsgFits.mono {c : Cfg} {n k : Nat} (h : MsgFits c n) (hk : k ≤ n) : MsgFits c k := by
  unfold MsgFits at *
  have : c.W * (k + 2) ≤ c.W * (n + 2) := Nat.mul_le_mul_left _ (by omega)
  omega

theorem inv_cfgAt {c : Cfg} {e : Encoder} (B P : Nat) : Inv (cfgAt c B P) e ↔ Inv c e := Iff.rfl

theorem absE_cfgAt {c : Cfg} {e : Encoder} (B P : Nat) : absE (cfgAt c B P) e = absE c e := rfl

/-- after at least one symbol `range` is no longer `State::max_value()` (so `seal`,
    `is_empty` and `maybe_exhausted` may use that value as the "nothing encoded" marker) -/
theorem encPure_range_ne_max {c : Cfg} (hc : RValid c) {e : Encoder} (hI : Inv c e) {cum p : Nat}
    (hp : 0 < p) (hcp : cum + p ≤ 2^c.P) : (encPure c e cum p).range ≠ maxState c := by
  obtain ⟨_, hl, hr, hr2, hs⟩ := hI
  obtain ⟨hsc1, hsc2, hsc3⟩ := scale_facts hc hr hr2 hp hcp
  have hP := hc.P_pos
  have hW := hc.W_pos
  have hS : 1 ≤ c.S := by have := hc.W_lt_S; omega
  have hTeven : 2^c.S = 2 * 2^(c.S - 1) := by
    rw [← Nat.pow_succ']; congr 1; omega
  have hPeven : 2^c.P = 2 * 2^(c.P - 1) := by
    rw [← Nat.pow_succ']; congr 1; omega
  have hWeven : 2^c.W = 2 * 2^(c.W - 1) := by
    rw [← Nat.pow_succ']; congr 1; omega
  have hle : e.range / 2^c.P * p ≤ e.range / 2^c.P * 2^c.P :=
    Nat.mul_le_mul_left _ (by omega)
  have hle2 : e.range / 2^c.P * 2^c.P ≤ e.range := Nat.div_mul_le_self _ _
  have heven : e.range / 2^c.P * 2^c.P = 2 * (e.range / 2^c.P * 2^(c.P - 1)) := by
    rw [hPeven]; ring
  unfold encPure renormP maxState
  simp only []
  split
  · split
    · simp only []
      have : e.range / 2^c.P * p * 2^c.W = 2 * (e.range / 2^c.P * p * 2^(c.W - 1)) := by
        rw [hWeven]; ring
      omega
    · split
      · simp only []
        have : e.range / 2^c.P * p * 2^c.W = 2 * (e.range / 2^c.P * p * 2^(c.W - 1)) := by
          rw [hWeven]; ring
        omega
      · simp only []
        have : e.range / 2^c.P * p * 2^c.W = 2 * (e.range / 2^c.P * p * 2^(c.W - 1)) := by
          rw [hWeven]; ring
        omega
  · simp only []
    omega

/-- **encoding a message**: never faults, keeps the invariant, refines the reference run -/
theorem encodeMsg_ok' {Sym : Type} {c : Cfg} (k : Nat) : ∀ (msg : List (MStep Sym)) (e : Encoder),
    Inv c e → Fits c e (msg.length + k) → (∀ x ∈ msg, x.Valid c) →
    ∃ e', encodeMsg c e msg = .ok e' ∧ Inv c e' ∧ Fits c e' k ∧
      absE c e' = run c.W c.S (absE c e) (msg.map MStep.spec) ∧
      (msg ≠ [] → e'.range ≠ maxState c) := by
  intro msg
  induction msg with
  | nil =>
    intro e hI hf _
    exact ⟨e, rfl, hI, by simpa using hf, rfl, fun h => absurd rfl h⟩
  | cons x xs ih =>
    intro e hI hf hv
    have hf' : Fits (cfgAt c x.B x.P) e (xs.length + k + 1) := by
      have : (x :: xs).length + k = xs.length + k + 1 := by simp only [List.length_cons]; omega
      rw [this] at hf; exact hf
    have hx : x.Valid c := hv x (by simp)
    obtain ⟨hp, hcp⟩ := hx.cp_ok
    have hc := hx.1
    have hI' : Inv (cfgAt c x.B x.P) e := hI
    have henc : encode (cfgAt c x.B x.P) x.model x.sym e
        = .ok (encPure (cfgAt c x.B x.P) e x.cp.1 x.cp.2) := by
      unfold encode
      rw [hx.enc_eq]
      exact encodeCP_eq_pure hc hI' (hf'.mono (by omega)) hp hcp
    have hI2 : Inv c (encPure (cfgAt c x.B x.P) e x.cp.1 x.cp.2) :=
      encPure_inv hc hI' hp hcp
    have hf2 : Fits c (encPure (cfgAt c x.B x.P) e x.cp.1 x.cp.2) (xs.length + k) :=
      encPure_fits (c := cfgAt c x.B x.P) hc hI' hp hcp hf'
    have habs : absE c (encPure (cfgAt c x.B x.P) e x.cp.1 x.cp.2)
        = step c.W c.S (absE c e) x.P x.cp.1 x.cp.2 := encPure_abs hc hI' hp hcp
    have hne := encPure_range_ne_max hc hI' hp hcp
    obtain ⟨e', he', hI3, hf3, habs3, hne3⟩ := ih _ hI2 hf2 (fun y hy => hv y (by simp [hy]))
    refine ⟨e', ?_, hI3, hf3, ?_, ?_⟩
    · simp only [encodeMsg, henc]; exact he'
    · rw [habs3, habs]; rfl
    · intro _
      cases xs with
      | nil =>
        simp only [encodeMsg] at he'
        cases he'
        exact hne
      | cons y ys => exact hne3 (by simp)

theorem encodeMsg_ok {Sym : Type} {c : Cfg} (msg : List (MStep Sym)) (e : Encoder)
    (hI : Inv c e) (hf : Fits c e msg.length) (hv : ∀ x ∈ msg, x.Valid c) :
    ∃ e', encodeMsg c e msg = .ok e' ∧ Inv c e' ∧ Fits c e' 0 ∧
      absE c e' = run c.W c.S (absE c e) (msg.map MStep.spec) ∧
      (msg ≠ [] → e'.range ≠ maxState c) :=
  encodeMsg_ok' 0 msg e hI hf hv

/-- **C06**: the words returned by `into_compressed` are exactly the words the reference coder
    prescribes for the message. -/
theorem words_eq_spec {Sym : Type} {c : Cfg} (hc : RValid c) (msg : List (MStep Sym))
    (hn : MsgFits c msg.length) (hv : ∀ x ∈ msg, x.Valid c) :
    ∃ e, encodeMsg c (Encoder.empty c) msg = .ok e ∧ Inv c e ∧ Fits c e 0 ∧
      intoCompressed c e = .ok (RangeSpec.words c.W c.S (msg.map MStep.spec)) := by
  obtain ⟨e, he, hI, hf, habs, hne⟩ :=
    encodeMsg_ok msg (Encoder.empty c) (inv_empty hc) (fits_empty hn) hv
  refine ⟨e, he, hI, hf, ?_⟩
  rw [intoCompressed_eq hc hI]
  cases msg with
  | nil =>
    simp only [encodeMsg] at he
    cases he
    simp [RangeSpec.words, sealP, Encoder.empty]
  | cons x xs =>
    rw [seal_conforms hc hI (hne (by simp)), habs, absE_empty]
    rfl

end CV.Range
