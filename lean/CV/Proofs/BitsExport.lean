import CV.Proofs.Bits
/-!
# Export formats, re-import, guards and the queue decoder
-/
set_option linter.unusedSimpArgs false
set_option linter.unusedVariables false
set_option linter.unnecessarySimpa false
namespace CV.Bits

theorem lowBits_of_lt {k x : Nat} (hx : x < 2^k) (d : Nat) :
    lowBits (k + d) x = lowBits k x ++ List.replicate d false := by
  induction d with
  | zero => simp
  | succ d ih =>
    have hlt : x < 2^(k+d) := Nat.lt_of_lt_of_le hx (Nat.pow_le_pow_right (by omega) (by omega))
    rw [← Nat.add_assoc, lowBits_succ, ih, Nat.testBit_lt_two_pow hlt, List.replicate_succ',
      List.append_assoc]

/-- word lists (top first) of equal length with words below `2^W` are determined by their bits -/
theorem wordBits_injective {W : Nat} : ∀ {a b : List Nat}, a.length = b.length →
    (∀ w ∈ a, w < 2^W) → (∀ w ∈ b, w < 2^W) → wordBits W a = wordBits W b → a = b
  | [], [], _, _, _, _ => rfl
  | [], _ :: _, h, _, _, _ => by simp at h
  | _ :: _, [], h, _, _, _ => by simp at h
  | x :: a, y :: b, hl, ha, hb, h => by
    rw [wordBits_cons, wordBits_cons] at h
    have hl' : a.length = b.length := by simpa using hl
    have hsplit := List.append_inj h (by rw [wordBits_length, wordBits_length, hl'])
    have hxy : x = y := eq_of_lowBits_eq (ha x (by simp)) (hb y (by simp)) hsplit.2
    have hab : a = b := wordBits_injective hl' (fun w hw => ha w (by simp [hw]))
      (fun w hw => hb w (by simp [hw])) hsplit.1
    rw [hxy, hab]

/-! ## the state after `write_bit(true)` -/

theorem writeBit_true_shape {W : Nat} (hW : 1 ≤ W) {c : Coder} (hI : Inv W c) :
    ∃ j, j < W ∧ (writeBit W c true).mask = 2^j ∧ 2^j ≤ (writeBit W c true).cw ∧
      (writeBit W c true).cw < 2^(j+1) := by
  have hs := writeBit_spec hW hI true
  have hne := writeBit_mask_ne_zero W c true
  rcases hs.1.2 with ⟨hm, _⟩ | ⟨j, hj, hm, hc⟩
  · exact absurd hm hne
  · refine ⟨j, hj, hm, ?_, hc⟩
    have hb := hs.2
    simp only [bits, fill_pow hj hm] at hb
    rw [lowBits_succ, ← List.append_assoc] at hb
    have := congrArg List.getLast? hb
    simp only [List.getLast?_concat, Option.some.injEq] at this
    exact Nat.ge_two_pow_of_testBit this

theorem log2_eq_of_bounds {x j : Nat} (h1 : 2^j ≤ x) (h2 : x < 2^(j+1)) : Nat.log2 x = j := by
  have hx : x ≠ 0 := by
    have := Nat.two_pow_pos j; omega
  have ha : Nat.log2 x < j + 1 := (Nat.log2_lt hx).mpr h2
  have hb : ¬ Nat.log2 x < j := by
    intro h
    have := (Nat.log2_lt hx).mp h
    omega
  omega

/-! ## stack: export and re-import -/

/-- `from_compressed(into_compressed(c))` is the state reached by `write_bit(true)` followed by
    `read_bit()`: no fault, not rejected. -/
theorem fromCompressed_intoCompressed {W : Nat} (hW : 1 ≤ W) {c : Coder} (hI : Inv W c) :
    Stack.fromCompressed W (Stack.intoCompressed W c) = .ok (readBit W (writeBit W c true)).2 := by
  obtain ⟨j, hj, hm, hlo, hhi⟩ := writeBit_true_shape hW hI
  have hne := writeBit_mask_ne_zero W c true
  generalize hd : writeBit W c true = d at *
  have hpos := Nat.two_pow_pos j
  have hcw0 : d.cw ≠ 0 := by omega
  have hlog : Nat.log2 d.cw = j := log2_eq_of_bounds hlo hhi
  have hlz : lz W d.cw = W - (j + 1) := by simp [lz, bitlen, hcw0, hlog]
  have hexp : Stack.intoCompressed W c = d.cw :: d.backend := by
    simp [Stack.intoCompressed, hd, hne]
  have hk : W - 1 - (W - (j + 1)) = j := by omega
  have hshl : (1 <<< j) % 2^W = 2^j := by
    rw [Nat.one_shiftLeft, Nat.mod_eq_of_lt (Nat.pow_lt_pow_right (by omega) hj)]
  have htb : d.cw.testBit j = true := by
    have := Nat.testBit_log2 hcw0
    rwa [hlog] at this
  have hand : d.cw &&& 2^j = 2^j := by rw [and_two_pow, htb]; rfl
  have hread : readBit W d = readStep d := by simp [readBit, hne]
  rw [hexp, hread]
  have h1 : (1:Nat) ≤ W := hW
  have h2 : W - (j + 1) ≤ W - 1 := by omega
  simp [Stack.fromCompressed, hcw0, csub, h1, hlz, h2, hk, shl, hj, hshl, readStep, hm, hand]

/-- C16 `stack_export_import` on the abstraction -/
theorem stack_export_import_bits {W : Nat} (hW : 1 ≤ W) {c : Coder} (hI : Inv W c) :
    ∃ c', Stack.fromCompressed W (Stack.intoCompressed W c) = .ok c' ∧ Inv W c' ∧
      bits W c' = bits W c := by
  have hw := writeBit_spec hW hI true
  have hr := readBit_spec hW hw.1
  refine ⟨_, fromCompressed_intoCompressed hW hI, hr.2.1, ?_⟩
  rw [hr.2.2, hw.2]; simp

/-- the export format of a stack: the bits, the terminator, zero padding; whole words below
    `2^W`; the last word is not zero; `len / W + 1` words -/
theorem stack_export_format {W : Nat} (hW : 1 ≤ W) {c : Coder} (hI : Inv W c) :
    ∃ p, p < W ∧
      wordBits W (Stack.intoCompressed W c) = bits W c ++ [true] ++ List.replicate p false ∧
      (∀ w ∈ Stack.intoCompressed W c, w < 2^W) ∧
      (Stack.intoCompressed W c).head? ≠ some 0 ∧ (Stack.intoCompressed W c) ≠ [] ∧
      (Stack.intoCompressed W c).length = (bits W c).length / W + 1 := by
  obtain ⟨j, hj, hm, hlo, hhi⟩ := writeBit_true_shape hW hI
  have hne := writeBit_mask_ne_zero W c true
  have hs := writeBit_spec hW hI true
  generalize hd : writeBit W c true = d at *
  have hexp : Stack.intoCompressed W c = d.cw :: d.backend := by
    simp [Stack.intoCompressed, hd, hne]
  have hpos := Nat.two_pow_pos j
  have hbd : bits W d = wordBits W d.backend ++ lowBits (j+1) d.cw := by
    simp [bits, fill_pow hj hm]
  have hWj : W = (j + 1) + (W - (j + 1)) := by omega
  refine ⟨W - (j + 1), by omega, ?_, ?_, ?_, ?_, ?_⟩
  · rw [hexp, wordBits_cons, ← hs.2, hbd, List.append_assoc]
    congr 1
    rw [← lowBits_of_lt hhi, ← hWj]
  · intro w hw
    rw [hexp] at hw
    rcases List.mem_cons.mp hw with rfl | h
    · exact Nat.lt_of_lt_of_le hhi (Nat.pow_le_pow_right (by omega) (by omega))
    · exact hs.1.1 w h
  · rw [hexp]; simp; omega
  · rw [hexp]; simp
  · rw [hexp]
    have hl := congrArg List.length hs.2
    rw [hbd] at hl
    simp only [List.length_append, wordBits_length, lowBits_length, List.length_cons,
      List.length_nil] at hl
    have hq : (bits W c).length = j + d.backend.length * W := by omega
    rw [hq, Nat.add_mul_div_right _ _ (by omega : 0 < W), Nat.div_eq_of_lt hj]
    simp

/-- the repaired `from_compressed` undoes **any** valid export: data whose last word is not zero
    re-exports to itself (words below `2^W`) -/
theorem stack_import_inv {W : Nat} (hW : 1 ≤ W) {ws : List Nat} (hws : ∀ w ∈ ws, w < 2^W)
    (hz : ws.head? ≠ some 0) :
    ∃ c, Stack.fromCompressed W ws = .ok c ∧ Inv W c := by
  cases ws with
  | nil => exact ⟨_, rfl, inv_empty W⟩
  | cons last rest =>
    have hl0 : last ≠ 0 := by simpa using hz
    have hlt : last < 2^W := hws last (by simp)
    have hlog : Nat.log2 last < W := (Nat.log2_lt hl0).mpr hlt
    have hlz : lz W last = W - (Nat.log2 last + 1) := by simp [lz, bitlen, hl0]
    have hk : W - 1 - (W - (Nat.log2 last + 1)) = Nat.log2 last := by omega
    have h2 : W - (Nat.log2 last + 1) ≤ W - 1 := by omega
    have hshl : (1 <<< Nat.log2 last) % 2^W = 2^(Nat.log2 last) := by
      rw [Nat.one_shiftLeft, Nat.mod_eq_of_lt (Nat.pow_lt_pow_right (by omega) hlog)]
    have hhi : last < 2^(Nat.log2 last + 1) := Nat.lt_log2_self
    have htb : last.testBit (Nat.log2 last) = true := Nat.testBit_log2 hl0
    have hxor : last ^^^ 2^(Nat.log2 last) = last % 2^(Nat.log2 last) := by
      have := xor_top_bit hhi
      rwa [and_two_pow, htb] at this
    refine ⟨{ backend := rest, cw := last % 2^(Nat.log2 last), mask := 2^(Nat.log2 last) >>> 1 }, ?_, ?_⟩
    · simp [Stack.fromCompressed, hl0, csub, hW, hlz, h2, hk, shl, hlog, hshl, hxor]
    · refine ⟨fun w hw => hws w (by simp [hw]), ?_⟩
      have hmod : last % 2^(Nat.log2 last) < 2^(Nat.log2 last) := Nat.mod_lt _ (Nat.two_pow_pos _)
      cases hj : Nat.log2 last with
      | zero =>
        left
        rw [hj] at hmod
        simp at hmod ⊢
        omega
      | succ k =>
        right
        rw [hj] at hmod
        exact ⟨k, by omega, shr1_pow_succ k, hmod⟩

/-- a zero last word is rejected -/
theorem stack_import_zero (W : Nat) (rest : List Nat) :
    Stack.fromCompressed W (0 :: rest) = .error .endsInZero := by
  simp [Stack.fromCompressed]

/-! ## stack guard -/

theorem stack_guard_spec {W : Nat} (hW : 1 ≤ W) {c : Coder} (hI : Inv W c) :
    Stack.getCompressed W c =
      .ok (Stack.intoCompressed W c, (readBit W (writeBit W c true)).2) := by
  have hne := writeBit_mask_ne_zero W c true
  have hw := writeBit_spec hW hI true
  have hr := readBit_spec hW hw.1
  have hsome : (readBit W (writeBit W c true)).1 = some true := by
    rw [hr.1, hw.2]; simp
  generalize hd : writeBit W c true = d at *
  have hg : Stack.guardNew W c = { d with backend := d.cw :: d.backend } := by
    simp [Stack.guardNew, hd, hne]
  have hdrop : Stack.guardDrop W { d with backend := d.cw :: d.backend } = .ok (readBit W d).2 := by
    unfold Stack.guardDrop
    have hdd : ({ backend := d.backend, cw := d.cw, mask := d.mask } : Coder) = d := rfl
    simp only [hne, ne_eq, not_false_eq_true, if_true, List.drop_one, List.tail_cons, hdd]
    cases hrd : readBit W d with
    | mk o c1 =>
      rw [hrd] at hsome
      simp only at hsome
      subst hsome
      rfl
  simp [Stack.getCompressed, hg, hdrop, Stack.guardView, Stack.intoCompressed, hd, hne]

/-- C08 for `StackCoderGuard`: what the guard shows is what `into_compressed` would return, the
    drop cannot panic, and afterwards the coder holds the same bits -/
theorem stack_guard_noop {W : Nat} (hW : 1 ≤ W) {c : Coder} (hI : Inv W c) :
    ∃ c', Stack.getCompressed W c = .ok (Stack.intoCompressed W c, c') ∧ Inv W c' ∧
      bits W c' = bits W c := by
  have hw := writeBit_spec hW hI true
  have hr := readBit_spec hW hw.1
  refine ⟨_, stack_guard_spec hW hI, hr.2.1, ?_⟩
  rw [hr.2.2, hw.2]; simp

/-! ## queue: export, guard -/

/-- `QueueEncoderGuard` restores the representation exactly -/
theorem queue_guard_noop (c : Coder) : Queue.getCompressed c = (Queue.intoCompressed c, c) := by
  unfold Queue.getCompressed Queue.guardNew Queue.guardDrop Queue.guardView Queue.intoCompressed
  by_cases h : c.mask = 0 <;> simp [h]

/-- the export format of a queue: the bits, zero padded to whole words -/
theorem queue_export_format {W : Nat} (hW : 1 ≤ W) {c : Coder} (hI : Inv W c) :
    ∃ p, p < W ∧
      wordBits W (Queue.intoCompressed c) = bits W c ++ List.replicate p false ∧
      (∀ w ∈ Queue.intoCompressed c, w < 2^W) ∧
      (Queue.intoCompressed c).length = ((bits W c).length + W - 1) / W := by
  obtain ⟨hB, hS⟩ := hI
  rcases hS with ⟨hm, hc⟩ | ⟨j, hj, hm, hc⟩
  · have hexp : Queue.intoCompressed c = c.backend := by simp [Queue.intoCompressed, hm]
    refine ⟨0, by omega, ?_, ?_, ?_⟩
    · simp [hexp, bits, fill_zero hm]
    · rw [hexp]; exact hB
    · rw [hexp, bits_length, fill_zero hm]
      have : c.backend.length * W + 0 + W - 1 = (W - 1) + c.backend.length * W := by omega
      rw [this, Nat.add_mul_div_right _ _ (by omega : 0 < W), Nat.div_eq_of_lt (by omega)]
      simp
  · have hexp : Queue.intoCompressed c = c.cw :: c.backend := by
      simp [Queue.intoCompressed, hm, two_pow_ne_zero]
    have hWj : W = (j + 1) + (W - (j + 1)) := by omega
    refine ⟨W - (j + 1), by omega, ?_, ?_, ?_⟩
    · rw [hexp, wordBits_cons]
      simp only [bits, fill_pow hj hm, List.append_assoc]
      congr 1
      rw [← lowBits_of_lt hc, ← hWj]
    · intro w hw
      rw [hexp] at hw
      rcases List.mem_cons.mp hw with rfl | h
      · exact Nat.lt_of_lt_of_le hc (Nat.pow_le_pow_right (by omega) (by omega))
      · exact hB w h
    · rw [hexp, bits_length, fill_pow hj hm]
      have : c.backend.length * W + (j + 1) + W - 1 = j + (c.backend.length + 1) * W := by
        rw [Nat.succ_mul]; omega
      rw [this, Nat.add_mul_div_right _ _ (by omega : 0 < W), Nat.div_eq_of_lt hj]
      simp

theorem queue_fromCompressed_inv {W : Nat} {ws : List Nat} (h : ∀ w ∈ ws, w < 2^W) :
    Inv W (Queue.fromCompressed ws) ∧ bits W (Queue.fromCompressed ws) = wordBits W ws := by
  refine ⟨⟨h, Or.inl ⟨rfl, rfl⟩⟩, ?_⟩
  simp [bits, Queue.fromCompressed, fill]

/-! ## the queue decoder -/

theorem QDecoder.pos_zero {W : Nat} {d : QDecoder} (h : d.mask = 0) : QDecoder.pos W d = W := by
  simp [QDecoder.pos, h]

theorem QDecoder.pos_pow {W j : Nat} {d : QDecoder} (hj : j < W) (h : d.mask = 2^j) :
    QDecoder.pos W d = j := by
  simp [QDecoder.pos, h, two_pow_ne_zero, tz_two_pow W j hj]

theorem QDecoder.readStep_spec {W j : Nat} {d : QDecoder} (hj : j < W) (hm : d.mask = 2^j) :
    (QDecoder.readStep W d).1 = some (d.cw.testBit j) ∧ QDecoder.Inv W (QDecoder.readStep W d).2 ∧
      QDecoder.bits W d = d.cw.testBit j :: QDecoder.bits W (QDecoder.readStep W d).2 := by
  have hbit : (d.cw &&& 2^j ≠ 0) = (d.cw.testBit j = true) := by
    rw [and_two_pow]
    cases h : d.cw.testBit j <;> simp [two_pow_ne_zero]
  have hdrop : (lowBits W d.cw).drop j = d.cw.testBit j :: (lowBits W d.cw).drop (j+1) := by
    rw [List.drop_eq_getElem_cons (by simpa using hj)]
    simp [lowBits]
  by_cases hlast : j + 1 < W
  · have hwm : ((2:Nat)^j <<< 1) % 2^W = 2^(j+1) := by
      rw [shl1_pow, Nat.mod_eq_of_lt (Nat.pow_lt_pow_right (by omega) hlast)]
    have hstep : QDecoder.readStep W d =
        (some (d.cw.testBit j), { rest := d.rest, cw := d.cw, mask := 2^(j+1) }) := by
      simp [QDecoder.readStep, hm, hwm, hbit]
    rw [hstep]
    refine ⟨rfl, Or.inr ⟨j+1, hlast, rfl⟩, ?_⟩
    simp only [QDecoder.bits, QDecoder.pos_pow hj hm,
      QDecoder.pos_pow (d := { rest := d.rest, cw := d.cw, mask := 2^(j+1) }) hlast rfl, hdrop,
      List.cons_append]
  · have hjW : j + 1 = W := by omega
    have hwm : ((2:Nat)^j <<< 1) % 2^W = 0 := by rw [shl1_pow, hjW, Nat.mod_self]
    have hstep : QDecoder.readStep W d =
        (some (d.cw.testBit j), { rest := d.rest, cw := d.cw, mask := 0 }) := by
      simp [QDecoder.readStep, hm, hwm, hbit]
    rw [hstep]
    refine ⟨rfl, Or.inl rfl, ?_⟩
    simp only [QDecoder.bits, QDecoder.pos_pow hj hm,
      QDecoder.pos_zero (d := { rest := d.rest, cw := d.cw, mask := 0 }) rfl, hdrop,
      List.cons_append, hjW]

/-- FIFO: `read_bit` hands out the head of `QDecoder.bits` -/
theorem QDecoder.readBit_spec {W : Nat} (hW : 1 ≤ W) {d : QDecoder} (hI : QDecoder.Inv W d) :
    (QDecoder.readBit W d).1 = (QDecoder.bits W d).head? ∧
      QDecoder.Inv W (QDecoder.readBit W d).2 ∧
      QDecoder.bits W (QDecoder.readBit W d).2 = (QDecoder.bits W d).tail := by
  rcases hI with hm | ⟨j, hj, hm⟩
  · cases hr : d.rest with
    | nil =>
      have hrd : QDecoder.readBit W d = (none, d) := by simp [QDecoder.readBit, hm, hr]
      have hb : QDecoder.bits W d = [] := by
        simp [QDecoder.bits, QDecoder.pos_zero hm, hr]
      rw [hrd, hb]
      exact ⟨rfl, Or.inl hm, by simpa using hb⟩
    | cons w rest =>
      have hrd : QDecoder.readBit W d = QDecoder.readStep W { rest := rest, cw := w, mask := 1 } := by
        simp [QDecoder.readBit, hm, hr]
      have hs := QDecoder.readStep_spec (W := W) (j := 0)
        (d := { rest := rest, cw := w, mask := 1 }) (by omega) rfl
      have hb : QDecoder.bits W d = QDecoder.bits W ({ rest := rest, cw := w, mask := 1 } : QDecoder) := by
        have hp : QDecoder.pos W ({ rest := rest, cw := w, mask := 1 } : QDecoder) = 0 :=
          QDecoder.pos_pow (j := 0) (by omega) rfl
        simp [QDecoder.bits, QDecoder.pos_zero hm, hr, hp]
      rw [hrd, hb, hs.2.2]
      exact ⟨by rw [hs.1]; rfl, hs.2.1, rfl⟩
  · have hrd : QDecoder.readBit W d = QDecoder.readStep W d := by
      simp [QDecoder.readBit, hm, two_pow_ne_zero]
    have hs := QDecoder.readStep_spec hj hm
    rw [hrd, hs.2.2]
    exact ⟨by rw [hs.1]; rfl, hs.2.1, rfl⟩

theorem QDecoder.readBit_none {W : Nat} (hW : 1 ≤ W) {d : QDecoder} (hI : QDecoder.Inv W d)
    (h : QDecoder.bits W d = []) : QDecoder.readBit W d = (none, d) := by
  rcases hI with hm | ⟨j, hj, hm⟩
  · cases hr : d.rest with
    | nil => simp [QDecoder.readBit, hm, hr]
    | cons w rest =>
      have := congrArg List.length h
      simp [QDecoder.bits, hr] at this
      omega
  · have := congrArg List.length h
    simp [QDecoder.bits, QDecoder.pos_pow hj hm] at this
    omega

theorem QDecoder.fromCompressed_spec (W : Nat) (ws : List Nat) :
    QDecoder.Inv W (QDecoder.fromCompressed ws) ∧
      QDecoder.bits W (QDecoder.fromCompressed ws) = ws.flatMap (lowBits W) := by
  refine ⟨Or.inl rfl, ?_⟩
  simp [QDecoder.bits, QDecoder.fromCompressed, QDecoder.pos]

/-- C16: the decoder obtained from a queue encoder returns the written bits first, then zero
    padding up to the word boundary -/
theorem queue_intoDecoder_bits {W : Nat} (hW : 1 ≤ W) {c : Coder} (hI : Inv W c) :
    QDecoder.Inv W (Queue.intoDecoder c) ∧
    ∃ p, p < W ∧ QDecoder.bits W (Queue.intoDecoder c) = bits W c ++ List.replicate p false ∧
      ((bits W c).length + p) % W = 0 := by
  obtain ⟨p, hp, hfmt, _, hlen⟩ := queue_export_format hW hI
  have hs := QDecoder.fromCompressed_spec W (Queue.intoCompressed c).reverse
  refine ⟨hs.1, p, hp, ?_, ?_⟩
  · unfold Queue.intoDecoder
    rw [hs.2]
    exact hfmt
  · have := congrArg List.length hfmt
    rw [wordBits_length] at this
    simp only [List.length_append, List.length_replicate] at this
    rw [← this]
    exact Nat.mul_mod_left _ _

theorem QDecoder.bits_length_le {W : Nat} (d : QDecoder) :
    (QDecoder.bits W d).length ≤ d.rest.length * W + W := by
  have : (d.rest.flatMap (lowBits W)).length = d.rest.length * W := by
    have := wordBits_length W d.rest.reverse
    simpa [wordBits] using this
  simp only [QDecoder.bits, List.length_append, List.length_drop, lowBits_length, this]
  omega

theorem QDecoder.drain_spec {W : Nat} (hW : 1 ≤ W) : ∀ (f : Nat) {d : QDecoder},
    QDecoder.Inv W d → (QDecoder.bits W d).length < f →
    ∃ d', QDecoder.drain W f d = some (QDecoder.bits W d, d') ∧ QDecoder.Inv W d' ∧
      QDecoder.bits W d' = [] := by
  intro f
  induction f with
  | zero => intro d _ h; omega
  | succ f ih =>
    intro d hI hlen
    have hs := QDecoder.readBit_spec hW hI
    cases hl : QDecoder.bits W d with
    | nil =>
      refine ⟨d, ?_, hI, hl⟩
      simp [QDecoder.drain, QDecoder.readBit_none hW hI hl]
    | cons b l =>
      have h1 : (QDecoder.readBit W d).1 = some b := by rw [hs.1, hl]; rfl
      have h2 : QDecoder.bits W (QDecoder.readBit W d).2 = l := by rw [hs.2.2, hl]; rfl
      have hlen' : (QDecoder.bits W (QDecoder.readBit W d).2).length < f := by
        rw [h2]; rw [hl] at hlen; simp at hlen; omega
      obtain ⟨d', hd, hI', hn'⟩ := ih hs.2.1 hlen'
      refine ⟨d', ?_, hI', hn'⟩
      cases hr : QDecoder.readBit W d with
      | mk o d1 =>
        rw [hr] at h1 h2 hd
        simp only at h1 h2 hd
        subst h1
        simp [QDecoder.drain, hr, hd, h2]

theorem QDecoder.iter_spec {W : Nat} (hW : 1 ≤ W) {d : QDecoder} (hI : QDecoder.Inv W d) :
    ∃ d', QDecoder.iter W d = .ok (QDecoder.bits W d, d') ∧ QDecoder.Inv W d' ∧
      QDecoder.bits W d' = [] := by
  have hlt : (QDecoder.bits W d).length < QDecoder.fuel W d := by
    have := QDecoder.bits_length_le (W := W) d
    unfold QDecoder.fuel; omega
  obtain ⟨d', hd, hI', hn⟩ := QDecoder.drain_spec hW (QDecoder.fuel W d) hI hlt
  exact ⟨d', by simp [QDecoder.iter, hd], hI', hn⟩

end CV.Bits
