import CV.Model.Huff
/-!
# `popMin` is "extract the minimum of the `(weight, index)` order"

(`BinaryHeap<Reverse<(P, usize)>>::pop`.)  For *every* weight type the result is a permutation
split of the heap (first part of the file; this is all the structural theorems need).  For
weight types ordered like the naturals (`NatOrder`: the integer instances and `exactOps`) the
first component is the lexicographic minimum; because indices are pairwise distinct the minimum
is unique, i.e. the heap's layout is irrelevant.
-/
namespace CV.Huff

section generic
variable {α : Type} (ops : WeightOps α)

theorem popMin_eq_none {h : List (α × Nat)} : popMin ops h = none ↔ h = [] := by
  cases h with
  | nil => simp [popMin]
  | cons x xs =>
    simp only [popMin]
    split <;> (try split) <;> simp

variable {ops}

theorem popMin_perm : ∀ {h : List (α × Nat)} {m r}, popMin ops h = some (m, r) → h.Perm (m :: r)
  | [], m, r, e => by simp [popMin] at e
  | x :: xs, m, r, e => by
    simp only [popMin] at e
    split at e
    · next hn =>
      have : xs = [] := (popMin_eq_none ops).mp hn
      simp at e; obtain ⟨rfl, rfl⟩ := e; subst this; exact List.Perm.refl _
    · next m' r' hs =>
      have ih := popMin_perm hs
      split at e
      · simp at e; obtain ⟨rfl, rfl⟩ := e
        exact List.Perm.cons _ ih
      · simp at e; obtain ⟨rfl, rfl⟩ := e
        exact (List.Perm.cons _ ih).trans (List.Perm.swap _ _ _)

theorem popMin_length {h : List (α × Nat)} {m r} (e : popMin ops h = some (m, r)) :
    h.length = r.length + 1 := by
  simpa using (popMin_perm e).length_eq

theorem popMin_isSome {h : List (α × Nat)} (hne : h ≠ []) : ∃ m r, popMin ops h = some (m, r) := by
  cases e : popMin ops h with
  | none => exact absurd ((popMin_eq_none ops).mp e) hne
  | some p => exact ⟨p.1, p.2, rfl⟩

end generic

/-! ## weight types ordered like the naturals -/

/-- the weight order is `<` on `Nat` (`checkedOps n`, `wrappingOps n`, `exactOps`) -/
def NatOrder (ops : WeightOps Nat) : Prop := ∀ a b, ops.lt a b = decide (a < b)

theorem natOrder_checked (n : Nat) : NatOrder (checkedOps n) := fun _ _ => rfl
theorem natOrder_wrapping (n : Nat) : NatOrder (wrappingOps n) := fun _ _ => rfl
theorem natOrder_exact : NatOrder exactOps := fun _ _ => rfl

/-- non-strict lexicographic order on `(weight, index)` -/
def keyLe (a b : Nat × Nat) : Prop := a.1 < b.1 ∨ (a.1 = b.1 ∧ a.2 ≤ b.2)

section nat
variable {ops : WeightOps Nat} (hlt : NatOrder ops)
include hlt

theorem keyLt_iff (a b : Nat × Nat) :
    keyLt ops a b = true ↔ (a.1 < b.1 ∨ (a.1 = b.1 ∧ a.2 < b.2)) := by
  simp only [keyLt, hlt a.1 b.1, hlt b.1 a.1]
  simp
  omega

theorem keyLe_of_not_keyLt {a b : Nat × Nat} (h : keyLt ops a b = false) : keyLe b a := by
  have : ¬ (a.1 < b.1 ∨ (a.1 = b.1 ∧ a.2 < b.2)) := by
    rw [← keyLt_iff hlt]; simp [h]
  unfold keyLe; omega

theorem keyLe_of_keyLt {a b : Nat × Nat} (h : keyLt ops a b = true) : keyLe a b := by
  rw [keyLt_iff hlt] at h; unfold keyLe; omega

omit hlt in
theorem keyLe_trans {a b c : Nat × Nat} (h1 : keyLe a b) (h2 : keyLe b c) : keyLe a c := by
  unfold keyLe at *; omega

omit hlt in
theorem keyLe_weight {a b : Nat × Nat} (h : keyLe a b) : a.1 ≤ b.1 := by
  unfold keyLe at h; omega

theorem popMin_min : ∀ {h : List (Nat × Nat)} {m r}, popMin ops h = some (m, r) →
    ∀ x ∈ r, keyLe m x
  | [], m, r, e => by simp [popMin] at e
  | x :: xs, m, r, e => by
    simp only [popMin] at e
    split at e
    · simp at e; obtain ⟨rfl, rfl⟩ := e; simp
    · next m' r' hs =>
      have ih := popMin_min hs
      split at e
      · next hl =>
        simp at e; obtain ⟨rfl, rfl⟩ := e
        intro y hy
        rcases List.mem_cons.mp hy with rfl | hy
        · exact keyLe_of_keyLt hlt hl
        · exact keyLe_trans (keyLe_of_keyLt hlt hl) (ih y hy)
      · next hl =>
        simp at e; obtain ⟨rfl, rfl⟩ := e
        intro y hy
        rcases List.mem_cons.mp hy with rfl | hy
        · exact keyLe_of_not_keyLt hlt (by simpa using hl)
        · exact ih y hy

/-- the popped element is determined by the *set* of heap entries: any element that is `keyLe`
everything else is it -/
theorem popMin_unique {h : List (Nat × Nat)} {m r} (e : popMin ops h = some (m, r))
    {x : Nat × Nat} (hx : x ∈ h) (hmin : ∀ y ∈ h, keyLe x y) : x = m := by
  have hp := popMin_perm e
  have hm : m ∈ h := hp.mem_iff.mpr (List.mem_cons_self)
  have h1 : keyLe x m := hmin m hm
  have h2 : keyLe m x := by
    rcases List.mem_cons.mp (hp.mem_iff.mp hx) with rfl | hxr
    · unfold keyLe; omega
    · exact popMin_min hlt e x hxr
  unfold keyLe at h1 h2
  have : x.1 = m.1 ∧ x.2 = m.2 := by omega
  exact Prod.ext this.1 this.2

/-- heap layout is irrelevant: two heaps with the same entries pop the same minimum and leave
the same entries behind -/
theorem popMin_layout {h h' : List (Nat × Nat)} (hp : h.Perm h') {m r m' r'}
    (e : popMin ops h = some (m, r)) (e' : popMin ops h' = some (m', r')) :
    m = m' ∧ r.Perm r' := by
  have hmem : m ∈ h' := hp.mem_iff.mp ((popMin_perm e).mem_iff.mpr List.mem_cons_self)
  have hmin : ∀ y ∈ h', keyLe m y := by
    intro y hy
    rcases List.mem_cons.mp ((popMin_perm e).mem_iff.mp (hp.mem_iff.mpr hy)) with rfl | hyr
    · unfold keyLe; omega
    · exact popMin_min hlt e y hyr
  have hm := popMin_unique hlt e' hmem hmin
  subst hm
  exact ⟨rfl, ((popMin_perm e).symm.trans (hp.trans (popMin_perm e'))).cons_inv⟩

end nat

end CV.Huff
