import CV.Proofs.RangeTheorems
/-!
# Suffix immunity (C11)

`D3Safe c st`: if sealing `st` emits two words (point word + zero word), the interval's upper
end is at least `2^(S-2W)` above the chosen point.  Under this condition — always true when
`S = 2W`, and trivially true when only one word is emitted — the sealed words followed by
*any* words still lie in the final interval, so decoding is unaffected.  For `S > 2W` the
condition can fail (defect D3): see `Properties/C11_range.lean` for the counterexample.
-/
namespace CV.Range
open RangeSpec (St step run)

/-- the word index `⌊(Lo + 2^(S-W) − 1) / 2^(S-W)⌋` chosen by sealing -/
def sealY (c : Cfg) (st : St) : Nat := (st.Lo + 2^(c.S - c.W) - 1) / 2^(c.S - c.W)

def D3Safe (c : Cfg) (st : St) : Prop :=
  (st.Lo + st.R) / 2^(c.S - c.W) % 2^c.W = sealY c st % 2^c.W →
    sealY c st * 2^(c.S - c.W) + 2^(c.S - 2 * c.W) ≤ st.Lo + st.R

theorem RValid.pow_nW_pred2 {c : Cfg} (hc : RValid c) :
    (2^c.W)^(nW c - 2) = 2^(c.S - 2 * c.W) := by
  rw [← Nat.pow_mul]
  congr 1
  have h := hc.S_eq
  rw [Nat.mul_sub, Nat.mul_comm c.W (nW c), ← h, Nat.mul_comm]

/-- with `D3Safe`, the sealed words followed by arbitrary words lie in the interval -/
theorem suffix_contains {c : Cfg} (hc : RValid c) {st : St} (hI : SpecInv c st)
    {suffix : List Nat} (hs : WordsOK c suffix) (hsafe : D3Safe c st) :
    Contains c st (RangeSpec.sealWords c.W c.S st ++ suffix) := by
  have hp := seal_pre hc hI
  obtain ⟨hcont, _⟩ := seal_contains hc hI
  obtain ⟨hr, hr2, hle⟩ := hI
  have hU := two_pow_pos' (c.S - c.W)
  have hN := hc.two_le_nW
  unfold Contains at hcont ⊢
  rw [hp] at hcont
  unfold D3Safe sealY at hsafe
  unfold RangeSpec.sealWords
  simp only []
  generalize hY : (st.Lo + 2^(c.S - c.W) - 1) / 2^(c.S - c.W) = Y at *
  have hYlt : Y < (2^c.W)^(st.m + 1) := by
    rw [← hY, Nat.div_lt_iff_lt_mul hU, Nat.pow_succ, Nat.mul_assoc,
      Nat.mul_comm (2^c.W), ← hc.pow_S]
    omega
  have hlen := length_digits c.W (st.m + 1) Y
  have hsplit : st.m + nW c = (st.m + 1) + (nW c - 1) := by omega
  -- split the stream after the `m + 1` point digits
  have hpre : ∀ opt : List Nat,
      pre c.W (RangeSpec.digits c.W (st.m + 1) Y ++ opt ++ suffix) (st.m + nW c)
        = Y * 2^(c.S - c.W) + pre c.W (opt ++ suffix) (nW c - 1) := by
    intro opt
    rw [hsplit, pre_drop, hc.pow_nW_pred, List.append_assoc,
      pre_append_left _ _ _ _ (by omega)]
    have h1 := pre_length c.W (RangeSpec.digits c.W (st.m + 1) Y)
    rw [hlen] at h1
    rw [h1, val_digits, Nat.mod_eq_of_lt hYlt]
    have h2 : (RangeSpec.digits c.W (st.m + 1) Y ++ (opt ++ suffix)).drop (st.m + 1)
        = opt ++ suffix := List.drop_left' hlen
    rw [h2]
  rw [hpre]
  by_cases heq : (st.Lo + st.R) / 2^(c.S - c.W) % 2^c.W = Y % 2^c.W
  · -- two seal words
    simp only [heq, if_true]
    have hsafe' := hsafe heq
    have h1 : nW c - 1 = (nW c - 2) + 1 := by omega
    have h2 : pre c.W ([0] ++ suffix) (nW c - 1) = pre c.W suffix (nW c - 2) := by
      rw [h1]
      show pre c.W (0 :: suffix) (nW c - 2 + 1) = _
      rw [pre_cons]; simp
    have h3 : pre c.W suffix (nW c - 2) < 2^(c.S - 2 * c.W) := by
      rw [← hc.pow_nW_pred2]; exact pre_lt hs _
    rw [h2]
    omega
  · -- one seal word: the next word boundary is inside the interval
    simp only [heq, if_false, List.nil_append]
    have h3 : pre c.W suffix (nW c - 1) < 2^(c.S - c.W) := by
      rw [← hc.pow_nW_pred]; exact pre_lt hs _
    have hZ : Y ≤ (st.Lo + st.R) / 2^(c.S - c.W) := by
      rw [← hY]; exact Nat.div_le_div_right (by omega)
    have hZne : (st.Lo + st.R) / 2^(c.S - c.W) ≠ Y := by
      intro h; rw [h] at heq; exact heq rfl
    have hZ1 : Y + 1 ≤ (st.Lo + st.R) / 2^(c.S - c.W) := by omega
    have h4 : (Y + 1) * 2^(c.S - c.W) ≤ st.Lo + st.R := by
      calc (Y + 1) * 2^(c.S - c.W) ≤ (st.Lo + st.R) / 2^(c.S - c.W) * 2^(c.S - c.W) :=
            Nat.mul_le_mul_right _ hZ1
        _ ≤ st.Lo + st.R := Nat.div_mul_le_self _ _
    rw [Nat.add_mul] at h4
    omega

/-- for `State = 2·Word` the condition always holds -/
theorem d3Safe_of_2W {c : Cfg} (hc : RValid c) (h2 : c.S = 2 * c.W) {st : St}
    (hI : SpecInv c st) : D3Safe c st := by
  intro _
  have hp := seal_pre hc hI
  obtain ⟨hcont, _⟩ := seal_contains hc hI
  unfold Contains at hcont
  rw [hp] at hcont
  unfold sealY
  have : c.S - 2 * c.W = 0 := by omega
  rw [this]
  simp only [Nat.pow_zero]
  omega

/-- **C11 (conditional form, any `State` width)**: if the final reference state is `D3Safe`,
    the sealed words followed by an arbitrary suffix decode to exactly the message. -/
theorem suffix_immune_of_safe {Sym : Type} {c : Cfg} (hc : RValid c) (msg : List (MStep Sym))
    (hn : MsgFits c msg.length) (hv : ∀ x ∈ msg, x.Valid c)
    (hsafe : D3Safe c (run c.W c.S (RangeSpec.init c.S) (msg.map MStep.spec)))
    (suffix : List Nat) (hs : WordsOK c suffix) :
    ∃ e ws d0 d, encodeMsg c (Encoder.empty c) msg = .ok e ∧
      intoCompressed c e = .ok ws ∧
      Decoder.fromCompressed c (ws ++ suffix) = .ok d0 ∧
      decodeMsg c d0 msg = .ok (msg.map (·.sym), d) := by
  obtain ⟨e, he, hI, _, hws⟩ := words_eq_spec hc msg hn hv
  have hwok : WordsOK c (RangeSpec.words c.W c.S (msg.map MStep.spec) ++ suffix) :=
    (words_spec_wordsOK c _).append hs
  obtain ⟨d0, hd0, hrel0⟩ := fromCompressed_eq hc hwok
  cases msg with
  | nil => exact ⟨e, _, d0, d0, he, hws, hd0, rfl⟩
  | cons x xs =>
    have hIn : SpecInv c (run c.W c.S (RangeSpec.init c.S) ((x :: xs).map MStep.spec)) :=
      specInv_run _ _ (specInv_init hc) hv
    have hcont := suffix_contains hc hIn hs hsafe
    have hwseq : RangeSpec.words c.W c.S ((x :: xs).map MStep.spec)
        = RangeSpec.sealWords c.W c.S
            (run c.W c.S (RangeSpec.init c.S) ((x :: xs).map MStep.spec)) := rfl
    rw [hwseq] at hws hwok hd0 hrel0
    obtain ⟨d, hd, _⟩ := decodeMsg_ok hwok (x :: xs) _ d0 (specInv_init hc) hv hcont hrel0
    exact ⟨e, _, d0, d, he, hws, hd0, hd⟩

/-- **C11 for `State = 2·Word`** (both presets): unconditional. -/
theorem suffix_immune_2W {Sym : Type} {c : Cfg} (hc : RValid c) (h2 : c.S = 2 * c.W)
    (msg : List (MStep Sym)) (hn : MsgFits c msg.length) (hv : ∀ x ∈ msg, x.Valid c)
    (suffix : List Nat) (hs : WordsOK c suffix) :
    ∃ e ws d0 d, encodeMsg c (Encoder.empty c) msg = .ok e ∧
      intoCompressed c e = .ok ws ∧
      Decoder.fromCompressed c (ws ++ suffix) = .ok d0 ∧
      decodeMsg c d0 msg = .ok (msg.map (·.sym), d) :=
  suffix_immune_of_safe hc msg hn hv
    (d3Safe_of_2W hc h2 (specInv_run _ _ (specInv_init hc) hv)) suffix hs

end CV.Range
