import CV.Proofs.CatBsearch
/-!
# The cdf-based models compute the specification

`ValidCdf B P cdf`: the Rust vector `cdf` is a strictly increasing list of true left
cumulatives starting at `0`, followed by `wrapping_pow2(P)`.  From it: the contiguous model's
encoder lookup, binary-search quantile function and symbol table are exactly `specModel`
of the unwrapped table, and no `Fault` is reachable.
-/
namespace CV.Cat
open CV

/-- replace the (possibly wrapped) last entry by the true total -/
def unwrap (P : Nat) (cdf : List Nat) : List Nat := cdf.dropLast ++ [2 ^ P]

/-- invariant of every `cdf` field built by a constructor -/
def ValidCdf (B P : Nat) (cdf : List Nat) : Prop :=
  cdf.getLast? = some (wrappingPow2 B P) ∧ ValidExt P (unwrap P cdf)

theorem unwrap_length {P : Nat} {cdf : List Nat} (h : cdf ≠ []) :
    (unwrap P cdf).length = cdf.length := by
  have : 0 < cdf.length := List.length_pos_iff.mpr h
  simp [unwrap]; omega

theorem ValidCdf.ne_nil {B P : Nat} {cdf : List Nat} (h : ValidCdf B P cdf) : cdf ≠ [] := by
  intro hn; subst hn; simp [ValidCdf] at h

theorem ValidCdf.length_eq {B P : Nat} {cdf : List Nat} (h : ValidCdf B P cdf) :
    (unwrap P cdf).length = cdf.length := unwrap_length h.ne_nil

theorem ValidCdf.three_le {B P : Nat} {cdf : List Nat} (h : ValidCdf B P cdf) : 3 ≤ cdf.length := by
  rw [← h.length_eq]; exact h.2.1

/-- entries other than the last are the true cumulatives -/
theorem ValidCdf.get_inner {B P : Nat} {cdf : List Nat} (_h : ValidCdf B P cdf) {i : Nat}
    (hi : i + 1 < cdf.length) : cdf[i]? = some ((unwrap P cdf).getD i 0) := by
  have h1 : i < cdf.dropLast.length := by simp; omega
  have : (unwrap P cdf)[i]? = cdf[i]? := by
    unfold unwrap
    rw [List.getElem?_append_left h1, List.getElem?_dropLast, if_pos (by omega)]
  rw [← this, List.getD_eq_getElem?_getD]
  have h2 : i < (unwrap P cdf).length := by simp [unwrap]; omega
  rw [List.getElem?_eq_getElem h2]; rfl

theorem ValidCdf.get_last {B P : Nat} {cdf : List Nat} (h : ValidCdf B P cdf) :
    cdf[cdf.length - 1]? = some (wrappingPow2 B P) := by
  have := h.1
  rw [List.getLast?_eq_getElem?] at this
  exact this

theorem unwrap_get_last {P : Nat} {cdf : List Nat} (h : cdf ≠ []) :
    (unwrap P cdf).getD (cdf.length - 1) 0 = 2 ^ P := by
  have : 0 < cdf.length := List.length_pos_iff.mpr h
  unfold unwrap
  rw [List.getD_eq_getElem?_getD, List.getElem?_append_right (by simp)]
  simp

/-- the probability the implementation computes for bin `i`
    (`right.wrapping_sub(left)`) is the true width of the bin -/
theorem ValidCdf.prob {B P : Nat} {cdf : List Nat} (h : ValidCdf B P cdf) (hP : P ≤ B) {i : Nat}
    (hi : i + 1 < cdf.length) :
    ∃ l r, cdf[i]? = some l ∧ cdf[i + 1]? = some r ∧ l = (unwrap P cdf).getD i 0 ∧
      wsub B r l = (unwrap P cdf).getD (i + 1) 0 - (unwrap P cdf).getD i 0 ∧
      0 < wsub B r l := by
  have hlen := h.length_eq
  have hbin := h.2.bin (s := i) (by omega)
  have hPB := pow_le_pow_of_le hP
  rcases Nat.lt_or_ge (i + 2) cdf.length with hlt | hge
  · refine ⟨_, _, h.get_inner hi, h.get_inner (i := i + 1) hlt, rfl, ?_⟩
    have hin := h.2.inner_lt (i := i + 1) (by omega)
    rw [wsub_of_le (by omega) (by omega)]
    omega
  · have hi1 : i + 1 = cdf.length - 1 := by omega
    have hlast : (unwrap P cdf).getD (i + 1) 0 = 2 ^ P := by
      rw [hi1]; exact unwrap_get_last h.ne_nil
    have hpos : 0 < (unwrap P cdf).getD i 0 := by
      have h3 := h.three_le
      have := pairwise_getD h.2.2.2.2 (i := 0) (j := i) (by omega) (by omega)
      omega
    rw [hlast] at hbin ⊢
    refine ⟨_, wrappingPow2 B P, h.get_inner hi, by rw [hi1]; exact h.get_last, rfl, ?_⟩
    rw [wsub_total hP hpos (by omega)]
    omega

/-! ## `ContiguousCategoricalEntropyModel` -/

/-- `left_cumulative_and_probability` is the specification, for every `usize` symbol
    (no narrowing: C09), and never reaches an unsafe-precondition violation (C20) -/
theorem Contiguous.enc_eq {B P : Nat} {m : Contiguous} (h : ValidCdf B P m.cdf) (hP : P ≤ B)
    (s : Nat) : m.enc B s = .ok (specEnc (unwrap P m.cdf) s) := by
  have h3 := h.three_le
  unfold Contiguous.enc Contiguous.supportSize csub
  rw [if_pos (by omega)]
  simp only
  unfold specEnc
  rw [h.length_eq]
  by_cases hs : s ≥ m.cdf.length - 1
  · rw [if_pos hs, if_neg (by omega)]
  · rw [if_neg hs, if_pos (by omega)]
    obtain ⟨l, r, h1, h2, h3, h4, h5⟩ := h.prob hP (i := s) (by omega)
    rw [h1, h2]
    simp only
    rw [if_neg (by omega), h4, h3]

/-- the shared search: bin index, left cumulative, probability -/
theorem cdfQuantile_eq {B P : Nat} {cdf : List Nat} (h : ValidCdf B P cdf) (hP : P ≤ B)
    {q : Nat} (hq : q < 2 ^ P) : cdfQuantile B cdf q = .ok (specDec (unwrap P cdf) q) := by
  have h3 := h.three_le
  have hlen := h.length_eq
  have hpw := h.2.2.2.2
  unfold cdfQuantile csub
  rw [if_pos (by omega)]
  simp only
  -- the monotonic part
  have htake : cdf.take (cdf.length - 1) = cdf.dropLast := by
    rw [List.dropLast_eq_take]
  have hmono : MonoIdx cdf.dropLast := by
    apply MonoIdx.of_pairwise
    have : (unwrap P cdf).Pairwise (· < ·) := hpw
    unfold unwrap at this
    exact (List.pairwise_append.mp this).1
  obtain ⟨k, hk, hkle, hlo, hhi⟩ := bsearch_spec q hmono
  rw [htake, hk]
  simp only
  have hdl : cdf.dropLast.length = cdf.length - 1 := by simp
  -- entries of the monotonic part are entries of the unwrapped table
  have hget : ∀ i, i < cdf.length - 1 → cdf.dropLast.getD i 0 = (unwrap P cdf).getD i 0 := by
    intro i hi
    unfold unwrap
    rw [List.getD_eq_getElem?_getD, List.getD_eq_getElem?_getD,
      List.getElem?_append_left (by omega)]
  have h0 : (unwrap P cdf).getD 0 0 = 0 := h.2.2.1
  -- `k ≥ 1` because `cdf[0] = 0 ≤ q`
  have hk1 : 1 ≤ k := by
    rcases Nat.eq_zero_or_pos k with hz | hp
    · exfalso
      have := hhi 0 (by omega) (by omega)
      rw [hget 0 (by omega), h0] at this
      omega
    · exact hp
  rw [if_pos hk1]
  simp only
  -- bin `k - 1` contains `q`
  have hin : InBin (unwrap P cdf) (k - 1) q := by
    refine ⟨by omega, ?_, ?_⟩
    · rw [← hget (k - 1) (by omega)]; exact hlo (k - 1) (by omega)
    · rcases Nat.lt_or_ge k (cdf.length - 1) with hlt | hge
      · have := hhi k (by omega) (by omega)
        rw [hget k hlt] at this
        have e : k - 1 + 1 = k := by omega
        rw [e]; exact this
      · have e : k - 1 + 1 = cdf.length - 1 := by omega
        rw [e, unwrap_get_last h.ne_nil]; exact hq
  have hidx : specIdx (unwrap P cdf) q = k - 1 :=
    InBin.unique hpw (specIdx_inBin h.2 hq) hin
  obtain ⟨l, r, e1, e2, e3, e4, e5⟩ := h.prob hP (i := k - 1) (by omega)
  have e : k - 1 + 1 = k := by omega
  rw [e] at e2 e4
  rw [e2, e1]
  simp only
  rw [if_neg (by omega), e4]
  unfold specDec
  rw [hidx, e, e3]

/-- the search never faults, for *any* quantile of type `Probability` (even `≥ 2^P`) -/
theorem cdfQuantile_total {B P : Nat} {cdf : List Nat} (h : ValidCdf B P cdf) (hP : P ≤ B)
    (q : Nat) : ∃ r, cdfQuantile B cdf q = .ok r := by
  rcases Nat.lt_or_ge q (2 ^ P) with hq | hq
  · exact ⟨_, cdfQuantile_eq h hP hq⟩
  · -- every boundary of the monotonic part is `≤ q`: the last bin is returned
    have h3 := h.three_le
    have hlen := h.length_eq
    have hpw := h.2.2.2.2
    unfold cdfQuantile csub
    rw [if_pos (by omega)]
    simp only
    have htake : cdf.take (cdf.length - 1) = cdf.dropLast := by
      rw [List.dropLast_eq_take]
    have hmono : MonoIdx cdf.dropLast := by
      apply MonoIdx.of_pairwise
      have : (unwrap P cdf).Pairwise (· < ·) := hpw
      unfold unwrap at this
      exact (List.pairwise_append.mp this).1
    obtain ⟨k, hk, hkle, hlo, hhi⟩ := bsearch_spec q hmono
    rw [htake, hk]
    simp only
    have hdl : cdf.dropLast.length = cdf.length - 1 := by simp
    have hget : ∀ i, i < cdf.length - 1 → cdf.dropLast.getD i 0 = (unwrap P cdf).getD i 0 := by
      intro i hi
      unfold unwrap
      rw [List.getD_eq_getElem?_getD, List.getD_eq_getElem?_getD,
        List.getElem?_append_left (by omega)]
    have hkeq : k = cdf.length - 1 := by
      rcases Nat.lt_or_ge k (cdf.length - 1) with hlt | hge
      · exfalso
        have := hhi k (by omega) (by omega)
        rw [hget k hlt] at this
        have := h.2.inner_lt (i := k) (by omega)
        omega
      · omega
    rw [if_pos (by omega)]
    simp only
    obtain ⟨l, r, e1, e2, e3, e4, e5⟩ := h.prob hP (i := k - 1) (by omega)
    have e : k - 1 + 1 = k := by omega
    rw [e] at e2
    rw [e2, e1]
    simp only
    rw [if_neg (by omega)]
    exact ⟨_, rfl⟩

theorem Contiguous.dec_eq {B P : Nat} {m : Contiguous} (h : ValidCdf B P m.cdf) (hP : P ≤ B)
    {q : Nat} (hq : q < 2 ^ P) : m.dec B q = .ok (specDec (unwrap P m.cdf) q) :=
  cdfQuantile_eq h hP hq

end CV.Cat
