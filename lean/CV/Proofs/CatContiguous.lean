import CV.Proofs.CatBsearch
/-!
# The cdf-based models compute the specification

`ValidCdf B P cdf`: the Rust vector `cdf` is a strictly increasing list of true left
cumulatives starting at `0`, followed by `wrapping_pow2(P)`.  From it: the contiguous model's
encoder lookup, binary-search quantile function and symbol table are exactly `specModel`
of the unwrapped table, and no `Fault` is reachable.
-/
namespace CV.Cat
open CV

/-- replace the (possibly wrapped) last entry by the true total -/
def unwrap (P : Nat) (cdf : List Nat) : List Nat := cdf.dropLast ++ [2 ^ P]

/-- invariant of every `cdf` field built by a constructor -/
def ValidCdf (B P : Nat) (cdf : List Nat) : Prop :=
  cdf.getLast? = some (wrappingPow2 B P) ∧ ValidExt P (unwrap P cdf)

theorem unwrap_length {P : Nat} {cdf : List Nat} (h : cdf ≠ []) :
    (unwrap P cdf).length = cdf.length := by
  have : 0 < cdf.length := List.length_pos_iff.mpr h
  simp [unwrap]; omega

theorem ValidCdf.ne_nil {B P : Nat} {cdf : List Nat} (h : ValidCdf B P cdf) : cdf ≠ [] := by
  intro hn; subst hn; simp [ValidCdf] at h

theorem ValidCdf.length_eq {B P : Nat} {cdf : List Nat} (h : ValidCdf B P cdf) :
    (unwrap P cdf).length = cdf.length := unwrap_length h.ne_nil

theorem ValidCdf.three_le {B P : Nat} {cdf : List Nat} (h : ValidCdf B P cdf) : 3 ≤ cdf.length := by
  rw [← h.length_eq]; exact h.2.1

/-- entries other than the last are the true cumulatives -/
theorem ValidCdf.get_inner {B P : Nat} {cdf : List Nat} (_h : ValidCdf B P cdf) {i : Nat}
    (hi : i + 1 < cdf.length) : cdf[i]? = some ((unwrap P cdf).getD i 0) := by
  have h1 : i < cdf.dropLast.length := by simp; omega
  have : (unwrap P cdf)[i]? = cdf[i]? := by
    unfold unwrap
    rw [List.getElem?_append_left h1, List.getElem?_dropLast, if_pos (by omega)]
  rw [← this, List.getD_eq_getElem?_getD]
  have h2 : i < (unwrap P cdf).length := by simp [unwrap]; omega
  rw [List.getElem?_eq_getElem h2]; rfl

theorem ValidCdf.get_last {B P : Nat} {cdf : List Nat} (h : ValidCdf B P cdf) :
    cdf[cdf.length - 1]? = some (wrappingPow2 B P) := by
  have := h.1
  rw [List.getLast?_eq_getElem?] at this
  exact this

theorem unwrap_get_last {P : Nat} {cdf : List Nat} (h : cdf ≠ []) :
    (unwrap P cdf).getD (cdf.length - 1) 0 = 2 ^ P := by
  have : 0 < cdf.length := List.length_pos_iff.mpr h
  unfold unwrap
  rw [List.getD_eq_getElem?_getD, List.getElem?_append_right (by simp)]
  simp

/-- the probability the implementation computes for bin `i`
    (`right.wrapping_sub(left)`) is the true width of the bin -/
theorem ValidCdf.prob {B P : Nat} {cdf : List Nat} (h : ValidCdf B P cdf) (hP : P ≤ B) {i : Nat}
    (hi : i + 1 < cdf.length) :
    ∃ l r, cdf[i]? = some l ∧ cdf[i + 1]? = some r ∧ l = (unwrap P cdf).getD i 0 ∧
      wsub B r l = (unwrap P cdf).getD (i + 1) 0 - (unwrap P cdf).getD i 0 ∧
      0 < wsub B r l := by
  have hlen := h.length_eq
  have hbin := h.2.bin (s := i) (by omega)
  have hPB := pow_le_pow_of_le hP
  rcases Nat.lt_or_ge (i + 2) cdf.length with hlt | hge
  · refine ⟨_, _, h.get_inner hi, h.get_inner (i := i + 1) hlt, rfl, ?_⟩
    have hin := h.2.inner_lt (i := i + 1) (by omega)
    rw [wsub_of_le (by omega) (by omega)]
    omega
  · have hi1 : i + 1 = cdf.length - 1 := by omega
    have hlast : (unwrap P cdf).getD (i + 1) 0 = 2 ^ P := by
      rw [hi1]; exact unwrap_get_last h.ne_nil
    have hpos : 0 < (unwrap P cdf).getD i 0 := by
      have h3 := h.three_le
      have := pairwise_getD h.2.2.2.2 (i := 0) (j := i) (by omega) (by omega)
      omega
    rw [hlast] at hbin ⊢
    refine ⟨_, wrappingPow2 B P, h.get_inner hi, by rw [hi1]; exact h.get_last, rfl, ?_⟩
    rw [wsub_total hP hpos (by omega)]
    omega

/-! ## `ContiguousCategoricalEntropyModel` -/

/-- `left_cumulative_and_probability` is the specification, for every `usize` symbol
    (no narrowing: C09), and never reaches an unsafe-precondition violation (C20) -/
theorem Contiguous.enc_eq {B P : Nat} {m : Contiguous} (h : ValidCdf B P m.cdf) (hP : P ≤ B)
    (s : Nat) : m.enc B s = .ok (specEnc (unwrap P m.cdf) s) := by
  have h3 := h.three_le
  unfold Contiguous.enc Contiguous.supportSize csub
  rw [if_pos (by omega)]
  simp only
  unfold specEnc
  rw [h.length_eq]
  by_cases hs : s ≥ m.cdf.length - 1
  · rw [if_pos hs, if_neg (by omega)]
  · rw [if_neg hs, if_pos (by omega)]
    obtain ⟨l, r, h1, h2, h3, h4, h5⟩ := h.prob hP (i := s) (by omega)
    rw [h1, h2]
    simp only
    rw [if_neg (by omega), h4, h3]

/-- the shared search: bin index, left cumulative, probability -/
theorem cdfQuantile_eq {B P : Nat} {cdf : List Nat} (h : ValidCdf B P cdf) (hP : P ≤ B)
    {q : Nat} (hq : q < 2 ^ P) : cdfQuantile B cdf q = .ok (specDec (unwrap P cdf) q) := by
  have h3 := h.three_le
  have hlen := h.length_eq
  have hpw := h.2.2.2.2
  unfold cdfQuantile csub
  rw [if_pos (by omega)]
  simp only
  -- the monotonic part
  have htake : cdf.take (cdf.length - 1) = cdf.dropLast := by
    rw [List.dropLast_eq_take]
  have hmono : MonoIdx cdf.dropLast := by
    apply MonoIdx.of_pairwise
    have : (unwrap P cdf).Pairwise (· < ·) := hpw
    unfold unwrap at this
    exact (List.pairwise_append.mp this).1
  obtain ⟨k, hk, hkle, hlo, hhi⟩ := bsearch_spec q hmono
  rw [htake, hk]
  simp only
  have hdl : cdf.dropLast.length = cdf.length - 1 := by simp
  -- entries of the monotonic part are entries of the unwrapped table
  have hget : ∀ i, i < cdf.length - 1 → cdf.dropLast.getD i 0 = (unwrap P cdf).getD i 0 := by
    intro i hi
    unfold unwrap
    rw [List.getD_eq_getElem?_getD, List.getD_eq_getElem?_getD,
      List.getElem?_append_left (by omega)]
  have h0 : (unwrap P cdf).getD 0 0 = 0 := h.2.2.1
  -- `k ≥ 1` because `cdf[0] = 0 ≤ q`
  have hk1 : 1 ≤ k := by
    rcases Nat.eq_zero_or_pos k with hz | hp
    · exfalso
      have := hhi 0 (by omega) (by omega)
      rw [hget 0 (by omega), h0] at this
      omega
    · exact hp
  rw [if_pos hk1]
  simp only
  -- bin `k - 1` contains `q`
  have hin : InBin (unwrap P cdf) (k - 1) q := by
    refine ⟨by omega, ?_, ?_⟩
    · rw [← hget (k - 1) (by omega)]; exact hlo (k - 1) (by omega)
    · rcases Nat.lt_or_ge k (cdf.length - 1) with hlt | hge
      · have := hhi k (by omega) (by omega)
        rw [hget k hlt] at this
        have e : k - 1 + 1 = k := by omega
        rw [e]; exact this
      · have e : k - 1 + 1 = cdf.length - 1 := by omega
        rw [e, unwrap_get_last h.ne_nil]; exact hq
  have hidx : specIdx (unwrap P cdf) q = k - 1 :=
    InBin.unique hpw (specIdx_inBin h.2 hq) hin
  obtain ⟨l, r, e1, e2, e3, e4, e5⟩ := h.prob hP (i := k - 1) (by omega)
  have e : k - 1 + 1 = k := by omega
  rw [e] at e2 e4
  rw [e2, e1]
  simp only
  rw [if_neg (by omega), e4]
  unfold specDec
  rw [hidx, e, e3]

/-- the search never faults, for *any* quantile of type `Probability` (even `≥ 2^P`) -/
theorem cdfQuantile_total {B P : Nat} {cdf : List Nat} (h : ValidCdf B P cdf) (hP : P ≤ B)
    (q : Nat) : ∃ r, cdfQuantile B cdf q = .ok r := by
  rcases Nat.lt_or_ge q (2 ^ P) with hq | hq
  · exact ⟨_, cdfQuantile_eq h hP hq⟩
  · -- every boundary of the monotonic part is `≤ q`: the last bin is returned
    have h3 := h.three_le
    have hlen := h.length_eq
    have hpw := h.2.2.2.2
    unfold cdfQuantile csub
    rw [if_pos (by omega)]
    simp only
    have htake : cdf.take (cdf.length - 1) = cdf.dropLast := by
      rw [List.dropLast_eq_take]
    have hmono : MonoIdx cdf.dropLast := by
      apply MonoIdx.of_pairwise
      have : (unwrap P cdf).Pairwise (· < ·) := hpw
      unfold unwrap at this
      exact (List.pairwise_append.mp this).1
    obtain ⟨k, hk, hkle, hlo, hhi⟩ := bsearch_spec q hmono
    rw [htake, hk]
    simp only
    have hdl : cdf.dropLast.length = cdf.length - 1 := by simp
    have hget : ∀ i, i < cdf.length - 1 → cdf.dropLast.getD i 0 = (unwrap P cdf).getD i 0 := by
      intro i hi
      unfold unwrap
      rw [List.getD_eq_getElem?_getD, List.getD_eq_getElem?_getD,
        List.getElem?_append_left (by omega)]
    have hkeq : k = cdf.length - 1 := by
      rcases Nat.lt_or_ge k (cdf.length - 1) with hlt | hge
      · exfalso
        have := hhi k (by omega) (by omega)
        rw [hget k hlt] at this
        have := h.2.inner_lt (i := k) (by omega)
        omega
      · omega
    rw [if_pos (by omega)]
    simp only
    obtain ⟨l, r, e1, e2, e3, e4, e5⟩ := h.prob hP (i := k - 1) (by omega)
    have e : k - 1 + 1 = k := by omega
    rw [e] at e2
    rw [e2, e1]
    simp only
    rw [if_neg (by omega)]
    exact ⟨_, rfl⟩

theorem Contiguous.dec_eq {B P : Nat} {m : Contiguous} (h : ValidCdf B P m.cdf) (hP : P ≤ B)
    {q : Nat} (hq : q < 2 ^ P) : m.dec B q = .ok (specDec (unwrap P m.cdf) q) :=
  cdfQuantile_eq h hP hq

end CV.Cat

/-! ## wrapped and unwrapped tables; the constructor -/
namespace CV.Cat
open CV

/-- the wrapped vector for an unwrapped table -/
def wrapCdf (B P : Nat) (ext : List Nat) : List Nat := ext.dropLast ++ [wrappingPow2 B P]

/-- the unwrapped table of a valid probability list -/
def extOf (qs : List Nat) : List Nat := psums 0 qs ++ [qs.sum]

theorem extOf_valid {P : Nat} {qs : List Nat} (h : ValidProbs P qs) : ValidExt P (extOf qs) := by
  obtain ⟨hlen, hpos, hsum⟩ := h
  refine ⟨by simp [extOf]; omega, ?_, ?_, ?_⟩
  · match qs, hlen with
    | a :: rest, _ => simp [extOf, psums]
  · unfold extOf
    rw [List.getD_eq_getElem?_getD, List.getElem?_append_right (by simp)]
    simp [hsum]
  · unfold extOf
    rw [List.pairwise_append]
    refine ⟨psums_pairwise hpos, by simp, ?_⟩
    intro a ha b hb
    simp at hb
    subst hb
    have := psums_lt_of_pos (acc := 0) hpos a ha
    omega

theorem unwrap_wrapCdf {B P : Nat} {ext : List Nat} (hne : ext ≠ [])
    (hlast : ext.getD (ext.length - 1) 0 = 2 ^ P) : unwrap P (wrapCdf B P ext) = ext := by
  unfold unwrap wrapCdf
  rw [List.dropLast_concat]
  have : ext = ext.dropLast ++ [ext.getLast hne] := (List.dropLast_concat_getLast hne).symm
  conv => rhs; rw [this]
  congr 2
  rw [List.getLast_eq_getElem]
  rw [← hlast, getD_of_lt (by have := List.length_pos_iff.mpr hne; omega)]

theorem wrapCdf_valid {B P : Nat} {ext : List Nat} (h : ValidExt P ext) :
    ValidCdf B P (wrapCdf B P ext) := by
  have hne : ext ≠ [] := by
    intro hn; subst hn; have := h.1; simp at this
  refine ⟨by simp [wrapCdf], ?_⟩
  rw [unwrap_wrapCdf hne h.2.2.1]
  exact h

theorem wrapCdf_extOf {B P : Nat} (qs : List Nat) :
    wrapCdf B P (extOf qs) = psums 0 qs ++ [wrappingPow2 B P] := by
  simp [wrapCdf, extOf]

/-- a valid `cdf` is the wrapped form of its unwrapped form -/
theorem ValidCdf.eq_wrap {B P : Nat} {cdf : List Nat} (h : ValidCdf B P cdf) :
    cdf = wrapCdf B P (unwrap P cdf) := by
  have hne := h.ne_nil
  unfold wrapCdf unwrap
  rw [List.dropLast_concat]
  have := (List.dropLast_concat_getLast hne).symm
  conv => lhs; rw [this]
  congr 2
  have h1 := h.1
  rw [List.getLast?_eq_some_getLast hne] at h1
  simpa using h1


/-! ### the constructor -/

theorem triples_lefts {Sym : Type} {ss : List Sym} {qs : List Nat} (h : ss.length = qs.length) :
    (triples ss qs).map (fun t => t.2.1) = psums 0 qs := by
  unfold triples
  have : (fun t : Sym × Nat × Nat => t.2.1) = Prod.fst ∘ Prod.snd := rfl
  rw [this, ← List.map_map]
  rw [List.map_snd_zip (by simp [h]), List.map_fst_zip (by simp)]

theorem triples_syms {Sym : Type} {ss : List Sym} {qs : List Nat} (h : ss.length = qs.length) :
    (triples ss qs).map (fun t => t.1) = ss := by
  unfold triples
  exact List.map_fst_zip (by simp [h])

theorem triples_probs {Sym : Type} {ss : List Sym} {qs : List Nat} (h : ss.length = qs.length) :
    (triples ss qs).map (fun t => t.2.2) = qs := by
  unfold triples
  have : (fun t : Sym × Nat × Nat => t.2.2) = Prod.snd ∘ Prod.snd := rfl
  rw [this, ← List.map_map]
  rw [List.map_snd_zip (by simp [h]), List.map_snd_zip (by simp)]

theorem foldOp_pushLeft {Sym : Type} (t : List (Sym × Nat × Nat)) (cdf0 : List Nat) :
    foldOp (fun (cdf : List Nat) (_ : Sym) left _ => some (cdf ++ [left])) cdf0 t =
      some (cdf0 ++ t.map (fun t => t.2.1)) := by
  induction t generalizing cdf0 with
  | nil => simp [foldOp]
  | cons x t ih =>
    obtain ⟨s, l, p⟩ := x
    simp only [foldOp, ih, List.map_cons, List.append_assoc, List.singleton_append]

/-- **C19 for `ContiguousCategoricalEntropyModel::from_nonzero_fixed_point_probabilities`**:
    acceptance implies that the table (with the inferred entry) is valid, and the model is its
    wrapped cdf -/
theorem Contiguous.fromNonzeroFixedPoint_some {B P : Nat} {probs : List Nat} {infer : Bool}
    {m : Contiguous} (hP1 : 1 ≤ P) (hP : P ≤ B) (hprobs : ∀ p ∈ probs, p < 2 ^ B)
    (h : Contiguous.fromNonzeroFixedPoint B P probs infer = some m) :
    ∃ qs, ValidProbs P qs ∧ qs = (if infer then probs ++ [2 ^ P - probs.sum] else probs) ∧
      m.cdf = wrapCdf B P (extOf qs) := by
  unfold Contiguous.fromNonzeroFixedPoint at h
  cases hacc : accumulate (Sym := Unit) B P (fun cdf _ left _ => some (cdf ++ [left])) (.rep ())
      probs ([] : List Nat) infer with
  | none => simp [hacc] at h
  | some r =>
    obtain ⟨rest, cdf⟩ := r
    simp only [hacc, Option.some.injEq] at h
    obtain ⟨qs, ss, hv, hqs, hts, hfold⟩ := accumulate_some hP1 hP hprobs hacc
    have hlen := takeSyms_length hts
    rw [foldOp_pushLeft, triples_lefts hlen] at hfold
    simp only [List.nil_append, Option.some.injEq] at hfold
    refine ⟨qs, hv, hqs, ?_⟩
    rw [← h, wrapCdf_extOf, hfold]

theorem Contiguous.fromNonzeroFixedPoint_valid {B P : Nat} {probs : List Nat} {infer : Bool}
    {m : Contiguous} (hP1 : 1 ≤ P) (hP : P ≤ B) (hprobs : ∀ p ∈ probs, p < 2 ^ B)
    (h : Contiguous.fromNonzeroFixedPoint B P probs infer = some m) : ValidCdf B P m.cdf := by
  obtain ⟨qs, hv, _, hm⟩ := Contiguous.fromNonzeroFixedPoint_some hP1 hP hprobs h
  rw [hm]
  exact wrapCdf_valid (extOf_valid hv)


/-! ### completeness: every valid table is accepted (D8: also with `infer_last_probability`
at `P = B`) -/

theorem accLoop_push (B : Nat) (ps : List Nat) (a : Acc (List Nat) Unit) (h : a.syms = .rep ()) :
    accLoop B (fun cdf _ left _ => some (cdf ++ [left])) ps a =
      some { accum := sumW B a.accum ps, laps := a.laps + lapsOf B a.accum ps,
             num := a.num + ps.length, syms := .rep (), st := a.st ++ leftsW B a.accum ps } := by
  induction ps generalizing a with
  | nil => cases a; simp_all [accLoop, sumW, lapsOf, leftsW]
  | cons p ps ih =>
    rw [accLoop, h]
    simp only [SymIter.next]
    rw [ih _ rfl]
    simp only [sumW, lapsOf, leftsW, List.length_cons, List.append_assoc, List.singleton_append,
      Option.some.injEq, Acc.mk.injEq, and_true, true_and]
    omega

theorem wsub_total_one {B P : Nat} (hP1 : 1 ≤ P) (hP : P ≤ B) :
    wsub B (wrappingPow2 B P) 1 = 2 ^ P - 1 := by
  have hone : (1 : Nat) < 2 ^ B := Nat.one_lt_two_pow (by omega)
  have h2P := two_pow_pos' P
  rw [wsub_eq wrappingPow2_lt hone]
  rcases Nat.lt_or_ge P B with hlt | hge
  · rw [wrappingPow2_of_lt hlt, if_pos (by omega)]
  · have : P = B := by omega
    subst this
    rw [wrappingPow2_self, if_neg (by omega)]; omega

/-- what the loop computes on all but the last entry of a valid table -/
theorem valid_init {B P : Nat} {init : List Nat} {last : Nat} (hP : P ≤ B)
    (hv : ValidProbs P (init ++ [last])) :
    lapsOf B 0 init = 0 ∧ sumW B 0 init = init.sum ∧ leftsW B 0 init = psums 0 init ∧
      0 < init.sum ∧ init.sum + last = 2 ^ P ∧ 0 < last ∧ init ≠ [] := by
  obtain ⟨hlen, hpos, hsum⟩ := hv
  have hPB := pow_le_pow_of_le hP
  simp only [List.sum_append, List.sum_singleton] at hsum
  have hl0 : 0 < last := hpos last (by simp)
  have hne : init ≠ [] := by
    intro hn; subst hn; simp at hlen
  obtain ⟨x, hx⟩ := List.exists_mem_of_ne_nil init hne
  have hx0 := hpos x (by simp [hx])
  have hxs := mem_le_sum hx
  obtain ⟨a1, a2, a3⟩ := lapsOf_zero_of_valid (B := B) (acc := 0) (ps := init)
    (fun p hp => hpos p (by simp [hp])) (by omega)
  simp only [Nat.zero_add] at a2
  exact ⟨a1, a2, a3, by omega, hsum, hl0, hne⟩

theorem Contiguous.fromNonzeroFixedPoint_of_valid {B P : Nat} {qs : List Nat}
    (hP : P ≤ B) (hv : ValidProbs P qs) :
    Contiguous.fromNonzeroFixedPoint B P qs false = some { cdf := wrapCdf B P (extOf qs) } := by
  have hlen := hv.1
  rcases List.eq_nil_or_concat qs with hnil | ⟨init, last, hcat⟩
  · subst hnil; simp at hlen
  · rw [List.concat_eq_append] at hcat
    subst hcat
    obtain ⟨a1, a2, a3, a4, a5, a6, a7⟩ := valid_init hP hv
    have hPB := pow_le_pow_of_le hP
    have h2P := two_pow_pos' P
    unfold Contiguous.fromNonzeroFixedPoint accumulate
    rw [accLoop_push _ _ _ rfl]
    simp only [Bool.false_eq_true, if_false, Nat.zero_add, Nat.add_zero, List.nil_append]
    rw [if_neg (by omega)]
    rw [sumW_append, lapsOf_append, leftsW_append, a1, a2, a3]
    simp only [sumW, lapsOf, leftsW, Nat.zero_add, Nat.add_zero]
    have hlastB : last < 2 ^ B := by omega
    have hw := wadd_eq (B := B) (a := init.sum) (b := last) (by omega) hlastB
    have hcond : ¬ (wadd B init.sum last ≠ wrappingPow2 B P ∨
        (if wadd B init.sum last ≤ init.sum then 1 else 0) ≠ (if P = B then 1 else 0)) := by
      rcases Nat.lt_or_ge P B with hlt | hge
      · have := pow_lt_pow_of_lt hlt
        rw [if_pos (by omega)] at hw
        rw [hw, wrappingPow2_of_lt hlt, if_neg (by omega), if_neg (by omega)]
        omega
      · have : P = B := by omega
        subst this
        rw [if_neg (by omega)] at hw
        rw [hw, wrappingPow2_self, if_pos (by omega), if_pos rfl]
        omega
    rw [if_neg hcond]
    simp only [Option.some.injEq, Contiguous.mk.injEq]
    rw [wrapCdf_extOf, psums_append]
    simp [psums]

theorem Contiguous.fromNonzeroFixedPoint_infer_of_valid {B P : Nat} {init : List Nat} {last : Nat}
    (hP1 : 1 ≤ P) (hP : P ≤ B) (hv : ValidProbs P (init ++ [last])) :
    Contiguous.fromNonzeroFixedPoint B P init true =
      some { cdf := wrapCdf B P (extOf (init ++ [last])) } := by
  obtain ⟨a1, a2, a3, a4, a5, a6, a7⟩ := valid_init hP hv
  have hPB := pow_le_pow_of_le hP
  have h2P := two_pow_pos' P
  have hone : (1 : Nat) < 2 ^ B := Nat.one_lt_two_pow (by omega)
  have hnum : 1 ≤ init.length := by
    have := List.length_pos_iff.mpr a7; omega
  unfold Contiguous.fromNonzeroFixedPoint accumulate
  rw [accLoop_push _ _ _ rfl]
  simp only [if_true, Nat.zero_add, List.nil_append, a1, a2, a3]
  rw [if_neg (by omega)]
  have hc : ¬ (wsub B init.sum 1 ≥ wsub B (wrappingPow2 B P) 1 ∨ 0 ≠ 0) := by
    rw [wsub_total_one hP1 hP, wsub_of_le (by omega) (by omega)]
    omega
  rw [if_neg hc]
  simp only [SymIter.next]
  simp only [Option.some.injEq, Contiguous.mk.injEq]
  rw [wrapCdf_extOf, psums_append]
  simp [psums]

end CV.Cat
