import CV.Proofs.ChainArith
/-!
# Chain coder: single-step lemmas

* `takeChunk_ok`  – bit-buffer half: what `decode_symbol` takes from the compressed side,
  `putChunk` puts back (for every content `K` of the compressed stack below).
* `absorb_ok`     – remainders half: what `decode_symbol` does to the remainders side,
  `release` undoes (for every content `T` of the remainders stack below).
* `decode_spec`   – `decode` under the invariant: total, no fault, only `outOfData`;
  invariant preserved; framed inverse by `encode` (`enc_dec_step`).
-/
namespace CV.Chain

/-- What the crate's static assertions (`PRECISION > 0`, `PRECISION <= Word::BITS`,
    `State::BITS >= Word::BITS + PRECISION`) and trait bounds (`Probability: Into<Word>`,
    entropy models with `PRECISION <= Probability::BITS`) allow for a chain coder.
    Weaker than `Cfg.Valid`. -/
def CValid (c : Cfg) : Prop := 1 ≤ c.P ∧ c.P ≤ c.B ∧ c.B ≤ c.W ∧ c.W + c.P ≤ c.S

theorem CValid.of_valid {c : Cfg} (h : c.Valid) : CValid c := by
  obtain ⟨h1, h2, h3, h4⟩ := h
  refine ⟨h1, h2, h3, ?_⟩; omega

instance (c : Cfg) : Decidable (CValid c) := by unfold CValid; exact inferInstance

/-- the static assertions on the coder's own parameters (no entropy model involved):
    what `from_binary`, `change_precision::<q>`, … require of a precision `q` -/
def PrecOk (W S q : Nat) : Prop := 1 ≤ q ∧ q ≤ W ∧ W + q ≤ S

instance (W S q : Nat) : Decidable (PrecOk W S q) := by unfold PrecOk; exact inferInstance

theorem CValid.precOk {c : Cfg} (h : CValid c) : PrecOk c.W c.S c.P := by
  obtain ⟨h1, h2, h3, h4⟩ := h
  exact ⟨h1, by omega, h4⟩

theorem Words.tail {W : Nat} {w : Nat} {l : List Nat} (h : Words W (w :: l)) : Words W l :=
  fun x hx => h x (List.mem_cons_of_mem _ hx)

theorem Words.head {W : Nat} {w : Nat} {l : List Nat} (h : Words W (w :: l)) : w < 2^W :=
  h w (List.mem_cons_self)

theorem Words.cons {W : Nat} {w : Nat} {l : List Nat} (hw : w < 2^W) (h : Words W l) :
    Words W (w :: l) := by
  intro x hx
  rcases List.mem_cons.mp hx with rfl | hx
  · exact hw
  · exact h x hx

theorem Words.nil {W : Nat} : Words W [] := fun _ h => by simp at h

theorem Words.append {W : Nat} {a b : List Nat} (ha : Words W a) (hb : Words W b) :
    Words W (a ++ b) := by
  intro x hx
  rcases List.mem_append.mp hx with h | h
  · exact ha x h
  · exact hb x h

theorem Words.left {W : Nat} {a b : List Nat} (h : Words W (a ++ b)) : Words W a :=
  fun x hx => h x (List.mem_append_left _ hx)

theorem Words.right {W : Nat} {a b : List Nat} (h : Words W (a ++ b)) : Words W b :=
  fun x hx => h x (List.mem_append_right _ hx)

/-! ## bit-buffer half -/

theorem quantileOf_lt {c : Cfg} (hv : CValid c) {word : Nat} (hw : word < 2^c.W) :
    quantileOf c word < 2^c.P ∧
    quantileOf c word = if c.P = c.W then word else word % 2^c.P := by
  obtain ⟨hP1, hPB, hBW, hS⟩ := hv
  unfold quantileOf
  by_cases hPW : c.P = c.W
  · have hB : c.B = c.W := by omega
    simp only [hPW, if_true]
    rw [hB, narrow_of_lt hw]
    exact ⟨hw, rfl⟩
  · have hlt : c.P < c.W := by omega
    simp only [hPW, if_false]
    rw [shlT_one hlt]
    have hq : word % 2^c.P < 2^c.P := Nat.mod_lt _ (pow_pos2 _)
    have : word % 2^c.P < 2^c.B := Nat.lt_of_lt_of_le hq (pow_mono2 hPB)
    rw [narrow_of_lt this]
    exact ⟨hq, rfl⟩

/-- The bit-buffer half of `decode_symbol` under `1 ≤ hc < 2^W`: no fault, the new head is in
    range again, and `putChunk` with the extracted quantile restores the old head and pushes
    exactly the consumed words `D` back – whatever lies below on the compressed stack. -/
theorem takeChunk_ok {c : Cfg} (hv : CValid c) {hc : Nat} {comp : List Nat}
    (h1 : 1 ≤ hc) (h2 : hc < 2^c.W) (hw : Words c.W comp) :
    (takeChunk c hc comp = .error .outOfData ∧ comp = [] ∧ (c.P = c.W ∨ hc < 2^c.P)) ∨
    ∃ word hc' comp', takeChunk c hc comp = .ok (word, hc', comp') ∧
      1 ≤ hc' ∧ hc' < 2^c.W ∧ word < 2^c.W ∧ Words c.W comp' ∧
      ∃ D, comp = D ++ comp' ∧
        ∀ K, putChunk c hc' K (quantileOf c word) = .ok (hc, D ++ K) := by
  obtain ⟨hP1, hPB, hBW, hS⟩ := hv
  have hv : CValid c := ⟨hP1, hPB, hBW, hS⟩
  have hPW : c.P ≤ c.W := by omega
  by_cases hEq : c.P = c.W
  · -- PRECISION == Word::BITS: whole words
    cases comp with
    | nil => left; simp [takeChunk, hEq]
    | cons word rest =>
      right
      refine ⟨word, hc, rest, by simp [takeChunk, hEq], h1, h2, hw.head, hw.tail, [word], rfl, ?_⟩
      intro K
      have hq := (quantileOf_lt hv hw.head).2
      simp only [hEq, if_true] at hq
      simp [putChunk, hEq, hq]
  · have hlt : c.P < c.W := by omega
    have e1 : shlT c.W 1 c.P = 2^c.P := shlT_one hlt
    have e2 : shlT c.W 1 (c.W - c.P) = 2^(c.W - c.P) := shlT_one (by omega)
    have hsplit : 2^c.W = 2^(c.W - c.P) * 2^c.P := pow_split hPW
    have hA : 0 < 2^c.P := pow_pos2 _
    have hB : 0 < 2^(c.W - c.P) := pow_pos2 _
    by_cases hlow : hc < 2^c.P
    · -- fewer than P leftover bits: read a word
      cases comp with
      | nil => left; simp [takeChunk, hEq, e1, hlow]
      | cons word rest =>
        right
        have hword := hw.head
        have hdiv : word / 2^c.P < 2^(c.W - c.P) := by
          apply Nat.div_lt_of_lt_mul; rw [Nat.mul_comm, ← hsplit]; exact hword
        have hnt : hc * 2^(c.W - c.P) < 2^c.W := by
          rw [pow_split' hPW]; exact Nat.mul_lt_mul_of_pos_right hlow hB
        have ev : shlT c.W hc (c.W - c.P) ||| (word >>> c.P)
            = hc * 2^(c.W - c.P) + word / 2^c.P := by
          rw [shlT_of_lt hnt, shr_eq, or_eq_add hdiv]
        have hvge : 2^(c.W - c.P) ≤ hc * 2^(c.W - c.P) + word / 2^c.P := by
          have : 1 * 2^(c.W - c.P) ≤ hc * 2^(c.W - c.P) := Nat.mul_le_mul_right _ h1
          rw [Nat.one_mul] at this
          exact Nat.le_trans this (Nat.le_add_right _ _)
        have hvlt : hc * 2^(c.W - c.P) + word / 2^c.P < 2^c.W := by
          have h3 : (hc + 1) * 2^(c.W - c.P) ≤ 2^c.P * 2^(c.W - c.P) :=
            Nat.mul_le_mul_right _ hlow
          have h4 : (hc + 1) * 2^(c.W - c.P) = hc * 2^(c.W - c.P) + 2^(c.W - c.P) := by
            rw [Nat.add_mul, Nat.one_mul]
          have h5 : 2^c.P * 2^(c.W - c.P) = 2^c.W := (pow_split' hPW).symm
          omega
        have hc0 : hc ≠ 0 := by omega
        have hne : hc * 2^(c.W - c.P) + word / 2^c.P ≠ 0 := fun h0 => by
          rw [h0] at hvge; exact absurd hvge (by have := hB; omega)
        refine ⟨word, hc * 2^(c.W - c.P) + word / 2^c.P, rest, ?_, by omega, hvlt, hword, hw.tail,
          [word], rfl, ?_⟩
        · unfold takeChunk
          rw [if_pos (Or.inr (e1 ▸ hlow))]
          simp only [ne_eq, hEq, not_false_eq_true, if_true, ev]
          rw [if_neg hne]
        · intro K
          have hq := (quantileOf_lt hv hword).2
          simp only [hEq, if_false] at hq
          have hqlt : word % 2^c.P < 2^c.P := Nat.mod_lt _ hA
          have hmod : (hc * 2^(c.W - c.P) + word / 2^c.P) % 2^(c.W - c.P) = word / 2^c.P :=
            mul_add_mod_of_lt hdiv
          have hdv : (hc * 2^(c.W - c.P) + word / 2^c.P) / 2^(c.W - c.P) = hc :=
            mul_add_div_of_lt hdiv
          have eword : shlT c.W (hc * 2^(c.W - c.P) + word / 2^c.P) c.P ||| (word % 2^c.P)
              = word := by
            rw [shlT_eq, mul_pow_mod hPW, hmod, or_eq_add hqlt]
            exact div_add_mod' word (2^c.P)
          have hnot : ¬ (hc * 2^(c.W - c.P) + word / 2^c.P < 2^(c.W - c.P)) := by omega
          simp [putChunk, hEq, e2, hnot, hq, eword, shr_eq, hdv, hc0]
    · -- at least P leftover bits: take them from the buffer
      right
      have hge : 2^c.P ≤ hc := by omega
      have hv1 : 1 ≤ hc / 2^c.P := (Nat.one_le_div_iff hA).mpr hge
      have hv2 : hc / 2^c.P < 2^(c.W - c.P) := by
        apply Nat.div_lt_of_lt_mul; rw [Nat.mul_comm, ← hsplit]; exact h2
      have hne : hc / 2^c.P ≠ 0 := by omega
      refine ⟨hc, hc / 2^c.P, comp, ?_, hv1, ?_, h2, hw, [], rfl, ?_⟩
      · simp [takeChunk, hEq, e1, hlow, shr_eq, hne]
      · exact Nat.lt_of_lt_of_le hv2 (pow_mono2 (by omega))
      · intro K
        have hq := (quantileOf_lt hv h2).2
        simp only [hEq, if_false] at hq
        have hqlt : hc % 2^c.P < 2^c.P := Nat.mod_lt _ hA
        have hle : hc / 2^c.P * 2^c.P ≤ hc := Nat.div_mul_le_self _ _
        have hnt : hc / 2^c.P * 2^c.P < 2^c.W := by omega
        have e : shlT c.W (hc / 2^c.P) c.P ||| (hc % 2^c.P) = hc := by
          rw [shlT_of_lt hnt, or_eq_add hqlt]; exact div_add_mod' hc (2^c.P)
        have hc0 : hc ≠ 0 := by omega
        simp [putChunk, hEq, e2, hv2, hq, e, hc0]

/-! ## remainders half -/

/-- The remainders half of `decode_symbol` under the head invariant: no overflow, the invariant
    holds again, and `release` with the same probability returns the remainder and the old
    head, consuming exactly what was flushed – whatever lies below on the remainders stack. -/
theorem absorb_ok {c : Cfg} (hv : CValid c) {hr p r : Nat} {rems : List Nat}
    (hlo : 2^(c.S - c.W - c.P) ≤ hr) (hhi : hr < 2^(c.S - c.P))
    (hp0 : 0 < p) (hp : p ≤ 2^c.P) (hrp : r < p) (hw : Words c.W rems) :
    ∃ hr' rems', absorb c hr rems p r = .ok (hr', rems') ∧
      2^(c.S - c.W - c.P) ≤ hr' ∧ hr' < 2^(c.S - c.P) ∧ Words c.W rems' ∧
      ∀ T, release c hr' (rems' ++ T) p = .ok (r, hr, rems ++ T) := by
  obtain ⟨hP1, hPB, hBW, hS⟩ := hv
  -- 2^(S-P) = 2^k * 2^W,  2^S = 2^(S-P) * 2^P
  have hk : 2^(c.S - c.P) = 2^(c.S - c.W - c.P) * 2^c.W := by
    rw [← Nat.pow_add]; congr 1; omega
  have hSs : 2^c.S = 2^(c.S - c.P) * 2^c.P := pow_split (by omega)
  have hW0 : 0 < 2^c.W := pow_pos2 _
  have hK0 : 0 < 2^(c.S - c.W - c.P) := pow_pos2 _
  -- R = hr * p + r < 2^(S-P) * p ≤ 2^S
  have hR1 : hr * p + r < 2^(c.S - c.P) * p := by
    have h1 : (hr + 1) * p ≤ 2^(c.S - c.P) * p := Nat.mul_le_mul_right _ hhi
    have h2 : (hr + 1) * p = hr * p + p := by rw [Nat.add_mul, Nat.one_mul]
    omega
  have hR2 : 2^(c.S - c.P) * p ≤ 2^c.S := by rw [hSs]; exact Nat.mul_le_mul_left _ hp
  have hRS : hr * p + r < 2^c.S := Nat.lt_of_lt_of_le hR1 hR2
  have hmul : hr * p < 2^c.S := by omega
  have hRlo : 2^(c.S - c.W - c.P) * p ≤ hr * p + r :=
    Nat.le_trans (Nat.mul_le_mul_right _ hlo) (Nat.le_add_right _ _)
  have ethr : shlT c.S 1 (c.S - c.P) = 2^(c.S - c.P) := shlT_one (by omega)
  have epk : shlT c.S p (c.S - c.W - c.P) = p * 2^(c.S - c.W - c.P) := by
    apply shlT_of_lt
    have h1 : p * 2^(c.S - c.W - c.P) ≤ 2^c.P * 2^(c.S - c.W - c.P) := Nat.mul_le_mul_right _ hp
    have h2 : 2^c.P * 2^(c.S - c.W - c.P) < 2^c.S := by
      rw [← Nat.pow_add]; exact pow_lt2 (by omega)
    omega
  have hmod : (hr * p + r) % p = r := mul_add_mod_of_lt hrp
  have hdiv : (hr * p + r) / p = hr := mul_add_div_of_lt hrp
  have habs : absorb c hr rems p r =
      if hr * p + r ≥ 2^(c.S - c.P) then .ok (flushHead c (hr * p + r) rems)
      else .ok (hr * p + r, rems) := by
    simp [absorb, cmul, cadd, hmul, hRS, ethr]
  by_cases hfl : hr * p + r ≥ 2^(c.S - c.P)
  · -- the head is flushed
    have hd1 : 2^(c.S - c.W - c.P) ≤ (hr * p + r) / 2^c.W := by
      rw [Nat.le_div_iff_mul_le hW0, ← hk]; exact hfl
    have hd2 : (hr * p + r) / 2^c.W < p * 2^(c.S - c.W - c.P) := by
      apply Nat.div_lt_of_lt_mul
      have e : 2^c.W * (p * 2^(c.S - c.W - c.P)) = 2^(c.S - c.P) * p := by
        rw [Nat.mul_left_comm, Nat.mul_comm (2^c.W), ← hk, Nat.mul_comm]
      rw [e]; exact hR1
    have hd3 : (hr * p + r) / 2^c.W < 2^(c.S - c.P) := by
      have h1 : p * 2^(c.S - c.W - c.P) ≤ 2^c.P * 2^(c.S - c.W - c.P) := Nat.mul_le_mul_right _ hp
      have h2 : 2^c.P * 2^(c.S - c.W - c.P) ≤ 2^(c.S - c.P) := by
        rw [← Nat.pow_add]; exact pow_mono2 (by omega)
      omega
    have hlow : (hr * p + r) % 2^c.W < 2^c.W := Nat.mod_lt _ hW0
    refine ⟨(hr * p + r) / 2^c.W, (hr * p + r) % 2^c.W :: rems, ?_, hd1, hd3,
      Words.cons hlow hw, ?_⟩
    · rw [habs, if_pos hfl]; simp [flushHead, shr_eq, narrow]
    · intro T
      have hnt : (hr * p + r) / 2^c.W * 2^c.W < 2^c.S :=
        Nat.lt_of_le_of_lt (Nat.div_mul_le_self _ _) hRS
      have eref : shlT c.S ((hr * p + r) / 2^c.W) c.W ||| ((hr * p + r) % 2^c.W)
          = hr * p + r := by
        rw [shlT_of_lt hnt, or_eq_add hlow]; exact div_add_mod' _ _
      simp [release, refillHead, epk, hd2, eref, hmod, hdiv]
  · -- no flush
    have hlt : hr * p + r < 2^(c.S - c.P) := by omega
    have hge : 2^(c.S - c.W - c.P) ≤ hr * p + r := by
      have : 2^(c.S - c.W - c.P) * 1 ≤ 2^(c.S - c.W - c.P) * p := Nat.mul_le_mul_left _ hp0
      omega
    refine ⟨hr * p + r, rems, ?_, hge, hlt, hw, ?_⟩
    · rw [habs, if_neg hfl]
    · intro T
      have hnot : ¬ (hr * p + r < p * 2^(c.S - c.W - c.P)) := by
        rw [Nat.mul_comm p]; omega
      simp [release, epk, hnot, hmod, hdiv]

/-! ## `decode_symbol` under the invariant -/

/-- `decode` on a coder satisfying the invariant, with a well-formed model: the only possible
    error is `outOfData` (C10); on success the invariant holds again, the symbol is the one the
    model assigns to the chunk taken by `takeChunk` (C14), it is in the model's support, and
    `encode` with the same model restores the heads and pushes back exactly the consumed words,
    popping exactly the flushed remainders – for every content of the stacks below (C13). -/
theorem decode_spec {Sym : Type} {c : Cfg} (hv : CValid c) {m : Model Sym}
    (hm : m.WellFormed c.P) {x : Coder} (hx : Inv c x) :
    (decode c m x = .error .outOfData ∧ x.compressed = [] ∧
        (c.P = c.W ∨ x.heads.compressed < 2^c.P) ∧
        takeChunk c x.heads.compressed x.compressed = .error .outOfData) ∨
    ∃ s y word, decode c m x = .ok (s, y) ∧ Inv c y ∧
      takeChunk c x.heads.compressed x.compressed = .ok (word, y.heads.compressed, y.compressed) ∧
      s = (m.dec (quantileOf c word)).1 ∧ (∃ cp, m.enc s = some cp) ∧
      ∃ D, x.compressed = D ++ y.compressed ∧
        ∀ K T, encode c m s { compressed := K, remainders := y.remainders ++ T, heads := y.heads }
          = .ok { compressed := D ++ K, remainders := x.remainders ++ T, heads := x.heads } := by
  obtain ⟨⟨hc1, hc2, hr1, hr2⟩, hwc, hwr⟩ := hx
  rcases takeChunk_ok hv hc1 hc2 hwc with ⟨herr, hnil, hcond⟩ | ⟨word, hc', comp', htk, h1', h2', hword, hwc', D, hD, hput⟩
  · left
    refine ⟨?_, hnil, hcond, herr⟩
    simp [decode, herr]
  · right
    have hq := (quantileOf_lt hv hword).1
    obtain ⟨hm1, hm2⟩ := hm
    obtain ⟨henc, hcumle, hqlt⟩ := hm2 _ hq
    rcases hdec : m.dec (quantileOf c word) with ⟨s, cum, p⟩
    rw [hdec] at henc hcumle hqlt
    simp only at henc hcumle hqlt
    obtain ⟨hp0, hcp, hpl, _⟩ := hm1 s cum p henc
    have hrp : quantileOf c word - cum < p := by omega
    obtain ⟨hr', rems', habs, hlo', hhi', hwr', hrel⟩ :=
      absorb_ok hv hr1 hr2 hp0 (Nat.le_of_lt hpl) hrp hwr
    have hp0' : p ≠ 0 := by omega
    refine ⟨s, { compressed := comp', remainders := rems', heads := { compressed := hc', remainders := hr' } },
      word, ?_, ⟨⟨h1', h2', hlo', hhi'⟩, hwc', hwr'⟩, htk, by rw [hdec], ⟨_, henc⟩, D, hD, ?_⟩
    · simp [decode, htk, hdec, hp0', csub, hcumle, habs]
    · intro K T
      obtain ⟨hP1, hPB, hBW, hS⟩ := hv
      have hrem_lt : quantileOf c word - cum < 2^c.P := by omega
      have hltB : quantileOf c word - cum < 2^c.B := Nat.lt_of_lt_of_le hrem_lt (pow_mono2 hPB)
      have hltW : quantileOf c word - cum < 2^c.W := Nat.lt_of_lt_of_le hltB (pow_mono2 hBW)
      have hqB : quantileOf c word < 2^c.B := Nat.lt_of_lt_of_le hq (pow_mono2 hPB)
      have hsum : cum + (quantileOf c word - cum) = quantileOf c word := by omega
      simp [encode, henc, encodeCP, hp0', hrel T, narrow_of_lt hltW, narrow_of_lt hltB, cadd, hqB,
        hsum, hput K]

/-! ## the encode direction -/

/-- The bit-buffer half of `encode_symbol` under `1 ≤ hc < 2^W`, `q < 2^P`: no fault, the new
    head is in range, and `takeChunk` takes exactly `q` back out. -/
theorem putChunk_ok {c : Cfg} (hv : CValid c) {hc q : Nat} {comp : List Nat}
    (h1 : 1 ≤ hc) (h2 : hc < 2^c.W) (hq : q < 2^c.P) (hw : Words c.W comp) :
    ∃ hc' comp' word, putChunk c hc comp q = .ok (hc', comp') ∧
      1 ≤ hc' ∧ hc' < 2^c.W ∧ Words c.W comp' ∧
      takeChunk c hc' comp' = .ok (word, hc, comp) ∧ quantileOf c word = q := by
  obtain ⟨hP1, hPB, hBW, hS⟩ := hv
  have hv : CValid c := ⟨hP1, hPB, hBW, hS⟩
  have hPW : c.P ≤ c.W := by omega
  have hc0 : hc ≠ 0 := by omega
  by_cases hEq : c.P = c.W
  · have hqW : q < 2^c.W := hEq ▸ hq
    refine ⟨hc, q :: comp, q, by simp [putChunk, hEq], h1, h2, Words.cons hqW hw,
      by simp [takeChunk, hEq], ?_⟩
    have := (quantileOf_lt hv hqW).2
    simpa [hEq] using this
  · have hlt : c.P < c.W := by omega
    have e1 : shlT c.W 1 c.P = 2^c.P := shlT_one hlt
    have e2 : shlT c.W 1 (c.W - c.P) = 2^(c.W - c.P) := shlT_one (by omega)
    have hsplit : 2^c.W = 2^(c.W - c.P) * 2^c.P := pow_split hPW
    have hA : 0 < 2^c.P := pow_pos2 _
    have hB : 0 < 2^(c.W - c.P) := pow_pos2 _
    by_cases hsmall : hc < 2^(c.W - c.P)
    · -- room for P more bits in the head
      have hvlt : hc * 2^c.P + q < 2^c.W := by
        have h3 : (hc + 1) * 2^c.P ≤ 2^(c.W - c.P) * 2^c.P := Nat.mul_le_mul_right _ hsmall
        have h4 : (hc + 1) * 2^c.P = hc * 2^c.P + 2^c.P := by rw [Nat.add_mul, Nat.one_mul]
        omega
      have hnt : hc * 2^c.P < 2^c.W := by omega
      have ev : shlT c.W hc c.P ||| q = hc * 2^c.P + q := by
        rw [shlT_of_lt hnt, or_eq_add hq]
      have hge : 2^c.P ≤ hc * 2^c.P + q := by
        have : 1 * 2^c.P ≤ hc * 2^c.P := Nat.mul_le_mul_right _ h1
        rw [Nat.one_mul] at this
        exact Nat.le_trans this (Nat.le_add_right _ _)
      have hne : hc * 2^c.P + q ≠ 0 := by omega
      have hnl : ¬ (hc * 2^c.P + q < 2^c.P) := by omega
      have hdv : (hc * 2^c.P + q) / 2^c.P = hc := mul_add_div_of_lt hq
      have hmd : (hc * 2^c.P + q) % 2^c.P = q := mul_add_mod_of_lt hq
      refine ⟨hc * 2^c.P + q, comp, hc * 2^c.P + q, ?_, by omega, hvlt, hw, ?_, ?_⟩
      · unfold putChunk
        rw [if_pos ⟨hEq, e2 ▸ hsmall⟩]
        simp only [ev]
        rw [if_neg hne]
      · unfold takeChunk
        rw [if_neg (by rw [e1]; intro h; rcases h with h | h; exact hEq h; exact hnl h)]
        simp only [shr_eq, hdv]
        rw [if_neg hc0]
      · have := (quantileOf_lt hv hvlt).2
        rw [this, if_neg hEq, hmd]
    · -- the head is full: emit a word
      have hge : 2^(c.W - c.P) ≤ hc := by omega
      have hv1 : 1 ≤ hc / 2^(c.W - c.P) := (Nat.one_le_div_iff hB).mpr hge
      have hv2 : hc / 2^(c.W - c.P) < 2^c.P := by
        apply Nat.div_lt_of_lt_mul; rw [← hsplit]; exact h2
      have hne : hc / 2^(c.W - c.P) ≠ 0 := by omega
      have hmlt : hc % 2^(c.W - c.P) < 2^(c.W - c.P) := Nat.mod_lt _ hB
      have eword : shlT c.W hc c.P ||| q = hc % 2^(c.W - c.P) * 2^c.P + q := by
        rw [shlT_eq, mul_pow_mod hPW, or_eq_add hq]
      have hwlt : hc % 2^(c.W - c.P) * 2^c.P + q < 2^c.W := by
        have h3 : (hc % 2^(c.W - c.P) + 1) * 2^c.P ≤ 2^(c.W - c.P) * 2^c.P :=
          Nat.mul_le_mul_right _ hmlt
        have h4 : (hc % 2^(c.W - c.P) + 1) * 2^c.P = hc % 2^(c.W - c.P) * 2^c.P + 2^c.P := by
          rw [Nat.add_mul, Nat.one_mul]
        omega
      have hdv : (hc % 2^(c.W - c.P) * 2^c.P + q) / 2^c.P = hc % 2^(c.W - c.P) :=
        mul_add_div_of_lt hq
      have hmd : (hc % 2^(c.W - c.P) * 2^c.P + q) % 2^c.P = q := mul_add_mod_of_lt hq
      have hnt : hc / 2^(c.W - c.P) * 2^(c.W - c.P) < 2^c.W :=
        Nat.lt_of_le_of_lt (Nat.div_mul_le_self _ _) h2
      have eback : shlT c.W (hc / 2^(c.W - c.P)) (c.W - c.P) |||
          ((hc % 2^(c.W - c.P) * 2^c.P + q) >>> c.P) = hc := by
        rw [shlT_of_lt hnt, shr_eq, hdv, or_eq_add hmlt]; exact div_add_mod' _ _
      refine ⟨hc / 2^(c.W - c.P), (hc % 2^(c.W - c.P) * 2^c.P + q) :: comp,
        hc % 2^(c.W - c.P) * 2^c.P + q, ?_, hv1,
        Nat.lt_of_lt_of_le hv2 (pow_mono2 hPW), Words.cons hwlt hw, ?_, ?_⟩
      · unfold putChunk
        rw [if_neg (by rw [e2]; intro h; exact hsmall h.2), if_neg hEq]
        simp only [eword, shr_eq]
        rw [if_neg hne]
      · unfold takeChunk
        rw [if_pos (Or.inr (e1 ▸ hv2))]
        simp only [ne_eq, hEq, not_false_eq_true, if_true, eback]
        rw [if_neg hc0]
      · have := (quantileOf_lt hv hwlt).2
        rw [this, if_neg hEq, hmd]

/-- The remainders half of `encode_symbol` under the head invariant: the only failure is
    `outOfRemainders` (nothing changed), otherwise the invariant holds again and `absorb`
    undoes it. -/
theorem release_ok {c : Cfg} (hv : CValid c) {hr p : Nat} {rems : List Nat}
    (hlo : 2^(c.S - c.W - c.P) ≤ hr) (hhi : hr < 2^(c.S - c.P))
    (hp0 : 0 < p) (hp : p ≤ 2^c.P) (hw : Words c.W rems) :
    (release c hr rems p = .error .outOfRemainders ∧ rems = [] ∧
        hr < p * 2^(c.S - c.W - c.P)) ∨
    ∃ r hr' rems', release c hr rems p = .ok (r, hr', rems') ∧ r < p ∧
      2^(c.S - c.W - c.P) ≤ hr' ∧ hr' < 2^(c.S - c.P) ∧ Words c.W rems' ∧
      absorb c hr' rems' p r = .ok (hr, rems) := by
  obtain ⟨hP1, hPB, hBW, hS⟩ := hv
  have hk : 2^(c.S - c.P) = 2^(c.S - c.W - c.P) * 2^c.W := by
    rw [← Nat.pow_add]; congr 1; omega
  have hSs : 2^c.S = 2^(c.S - c.P) * 2^c.P := pow_split (by omega)
  have hW0 : 0 < 2^c.W := pow_pos2 _
  have hK0 : 0 < 2^(c.S - c.W - c.P) := pow_pos2 _
  have hpW : p ≤ 2^c.W := Nat.le_trans hp (pow_mono2 (by omega))
  have ethr : shlT c.S 1 (c.S - c.P) = 2^(c.S - c.P) := shlT_one (by omega)
  have epk : shlT c.S p (c.S - c.W - c.P) = p * 2^(c.S - c.W - c.P) := by
    apply shlT_of_lt
    have h1 : p * 2^(c.S - c.W - c.P) ≤ 2^c.P * 2^(c.S - c.W - c.P) := Nat.mul_le_mul_right _ hp
    have h2 : 2^c.P * 2^(c.S - c.W - c.P) < 2^c.S := by
      rw [← Nat.pow_add]; exact pow_lt2 (by omega)
    omega
  have hR2 : 2^(c.S - c.P) * p ≤ 2^c.S := by rw [hSs]; exact Nat.mul_le_mul_left _ hp
  by_cases hre : hr < p * 2^(c.S - c.W - c.P)
  · cases rems with
    | nil => left; simp [release, refillHead, epk, hre]
    | cons w rest =>
      right
      have hwlt := hw.head
      -- R = hr * 2^W + w
      have hR1 : hr * 2^c.W + w < 2^(c.S - c.P) * p := by
        have h3 : (hr + 1) * 2^c.W ≤ p * 2^(c.S - c.W - c.P) * 2^c.W := Nat.mul_le_mul_right _ hre
        have h4 : (hr + 1) * 2^c.W = hr * 2^c.W + 2^c.W := by rw [Nat.add_mul, Nat.one_mul]
        have h5 : p * 2^(c.S - c.W - c.P) * 2^c.W = 2^(c.S - c.P) * p := by
          rw [Nat.mul_assoc, ← hk, Nat.mul_comm]
        omega
      have hRS : hr * 2^c.W + w < 2^c.S := Nat.lt_of_lt_of_le hR1 hR2
      have hnt : hr * 2^c.W < 2^c.S := by omega
      have eref : shlT c.S hr c.W ||| w = hr * 2^c.W + w := by
        rw [shlT_of_lt hnt, or_eq_add hwlt]
      have hRlo : 2^(c.S - c.P) ≤ hr * 2^c.W + w := by
        rw [hk]; exact Nat.le_trans (Nat.mul_le_mul_right _ hlo) (Nat.le_add_right _ _)
      have hmodlt : (hr * 2^c.W + w) % p < p := Nat.mod_lt _ hp0
      have hd1 : 2^(c.S - c.W - c.P) ≤ (hr * 2^c.W + w) / p := by
        rw [Nat.le_div_iff_mul_le hp0]
        have : 2^(c.S - c.W - c.P) * p ≤ 2^(c.S - c.W - c.P) * 2^c.W := Nat.mul_le_mul_left _ hpW
        rw [← hk] at this
        omega
      have hd2 : (hr * 2^c.W + w) / p < 2^(c.S - c.P) := by
        apply Nat.div_lt_of_lt_mul; rw [Nat.mul_comm p]; exact hR1
      have hback : (hr * 2^c.W + w) / p * p + (hr * 2^c.W + w) % p = hr * 2^c.W + w :=
        div_add_mod' _ _
      have hmul : (hr * 2^c.W + w) / p * p < 2^c.S := by omega
      refine ⟨(hr * 2^c.W + w) % p, (hr * 2^c.W + w) / p, rest, ?_, hmodlt, hd1, hd2, hw.tail, ?_⟩
      · simp [release, refillHead, epk, hre, eref]
      · have hfl : (hr * 2^c.W + w) / p * p + (hr * 2^c.W + w) % p ≥ 2^(c.S - c.P) := by
          rw [hback]; exact hRlo
        unfold absorb cmul cadd
        rw [if_pos hmul]
        simp only
        rw [if_pos (by rw [hback]; exact hRS)]
        simp only
        rw [ethr, if_pos hfl, hback]
        simp [flushHead, shr_eq, narrow, mul_add_div_of_lt hwlt, mul_add_mod_of_lt hwlt]
  · right
    have hge : p * 2^(c.S - c.W - c.P) ≤ hr := by omega
    have hmodlt : hr % p < p := Nat.mod_lt _ hp0
    have hd1 : 2^(c.S - c.W - c.P) ≤ hr / p := by
      rw [Nat.le_div_iff_mul_le hp0, Nat.mul_comm]; exact hge
    have hd2 : hr / p < 2^(c.S - c.P) := Nat.lt_of_le_of_lt (Nat.div_le_self _ _) hhi
    have hback : hr / p * p + hr % p = hr := div_add_mod' _ _
    have hSlt : hr < 2^c.S := Nat.lt_of_lt_of_le hhi (pow_mono2 (by omega))
    have hmul : hr / p * p < 2^c.S := by omega
    refine ⟨hr % p, hr / p, rems, ?_, hmodlt, hd1, hd2, hw, ?_⟩
    · simp [release, epk, hre]
    · unfold absorb cmul cadd
      rw [if_pos hmul]
      simp only
      rw [if_pos (by rw [hback]; exact hSlt)]
      simp only
      rw [ethr, hback, if_neg (by omega)]

/-- `encode` on a coder satisfying the invariant, with a well-formed model and a symbol of the
    model's support: the only possible failure is `outOfRemainders` (raised before anything
    changed); on success the invariant holds again and `decode` with the same model returns
    the symbol and the old coder (`dec_enc_step`). -/
theorem encode_spec {Sym : Type} {c : Cfg} (hv : CValid c) {m : Model Sym}
    (hm : m.WellFormed c.P) {x : Coder} (hx : Inv c x) {s : Sym} {cum p : Nat}
    (hs : m.enc s = some (cum, p)) :
    (encode c m s x = .error .outOfRemainders ∧ x.remainders = [] ∧
        x.heads.remainders < p * 2^(c.S - c.W - c.P)) ∨
    ∃ y, encode c m s x = .ok y ∧ Inv c y ∧ decode c m y = .ok (s, x) := by
  obtain ⟨⟨hc1, hc2, hr1, hr2⟩, hwc, hwr⟩ := hx
  obtain ⟨hp0, hcp, hpl, hdecq⟩ := hm.1 s cum p hs
  have hp0' : p ≠ 0 := by omega
  rcases release_ok hv hr1 hr2 hp0 (Nat.le_of_lt hpl) hwr with
    ⟨herr, hnil, hlt⟩ | ⟨r, hr', rems', hrel, hrp, hlo', hhi', hwr', habs⟩
  · left
    refine ⟨?_, hnil, hlt⟩
    simp [encode, hs, encodeCP, hp0', herr]
  · right
    obtain ⟨hP1, hPB, hBW, hS⟩ := hv
    have hv : CValid c := ⟨hP1, hPB, hBW, hS⟩
    have hqP : cum + r < 2^c.P := by omega
    have hqB : cum + r < 2^c.B := Nat.lt_of_lt_of_le hqP (pow_mono2 hPB)
    have hrB : r < 2^c.B := by omega
    have hrW : r < 2^c.W := Nat.lt_of_lt_of_le hrB (pow_mono2 hBW)
    obtain ⟨hc', comp', word, hput, h1', h2', hwc', htk, hqo⟩ :=
      putChunk_ok hv hc1 hc2 hqP hwc
    refine ⟨{ compressed := comp', remainders := rems', heads := { compressed := hc', remainders := hr' } },
      ?_, ⟨⟨h1', h2', hlo', hhi'⟩, hwc', hwr'⟩, ?_⟩
    · simp [encode, hs, encodeCP, hp0', hrel, narrow_of_lt hrW, narrow_of_lt hrB, cadd, hqB, hput]
    · have hd := hdecq (cum + r) (by omega) (by omega)
      have hsub : cum + r - cum = r := by omega
      simp [decode, htk, hqo, hd, hp0', csub, hsub, habs]

end CV.Chain
