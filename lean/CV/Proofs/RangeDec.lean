import CV.Proofs.RangeBasic
/-!
# Range decoder: totality on arbitrary words (C10)

The decoder invariant `point ⊖ lower < range` is preserved by `decode_symbol` for *every*
buffer content; the only possible error is `InvalidData` (exactly when the quantile is
`≥ 2^P`); no multiplication overflows, `scale ≠ 0`, `scale·p ≠ 0`.
-/
namespace CV.Range

/-- register bounds of a decoder: values fit their types, `range ≥ 2^(S-W)` (enforced by
    `RangeCoderState`), the buffer holds `Word`s.  This is all `decode_symbol` needs. -/
def DReg (c : Cfg) (d : Decoder) : Prop :=
  d.lower < 2^c.S ∧ 2^(c.S - c.W) ≤ d.range ∧ d.range < 2^c.S ∧ d.point < 2^c.S ∧
  WordsOK c d.data

/-- `DReg` plus the invariant documented on `RangeDecoder::point` -/
def DInv (c : Cfg) (d : Decoder) : Prop :=
  DReg c d ∧ wsub c.S d.point d.lower < d.range

theorem wsub_eq (n a b : Nat) : wsub n a b = (a + 2^n - b % 2^n) % 2^n := rfl

theorem wsub_lt (n a b : Nat) : wsub n a b < 2^n := Nat.mod_lt _ (two_pow_pos' n)

/-- `b + (a ⊖ b) ≡ a` -/
theorem wsub_add {n a b : Nat} (ha : a < 2^n) (hb : b < 2^n) : (b + wsub n a b) % 2^n = a := by
  rw [wsub_eq, Nat.mod_eq_of_lt hb]
  generalize 2^n = T at *
  have h1 : a + T - b < 2 * T := by omega
  rw [mod_two h1]
  split
  · next h2 =>
    have h3 : b + (a + T - b) < 2 * T := by omega
    rw [mod_two h3]; split <;> omega
  · next h2 =>
    have h3 : b + (a + T - b - T) < 2 * T := by omega
    rw [mod_two h3]; split <;> omega

/-- `a ⊖ b` is the only `d < 2^n` with `b + d ≡ a` -/
theorem wsub_unique {n a b d : Nat} (hb : b < 2^n) (hd : d < 2^n) (h : (b + d) % 2^n = a) :
    wsub n a b = d := by
  rw [wsub_eq, Nat.mod_eq_of_lt hb, ← h]
  generalize 2^n = T at *
  have h1 : b + d < 2 * T := by omega
  rw [mod_two h1]
  split
  · next h2 =>
    have h3 : b + d + T - b < 2 * T := by omega
    rw [mod_two h3]; split <;> omega
  · next h2 =>
    have h3 : b + d - T + T - b < 2 * T := by omega
    rw [mod_two h3]; split <;> omega

/-- pure description of a successful `decode_symbol` -/
def decPure {Sym : Type} (c : Cfg) (m : Model Sym) (d : Decoder) : Sym × Decoder :=
  let scale := d.range / 2^c.P
  let q := wsub c.S d.point d.lower / scale
  let lower1 := (d.lower + scale * (m.dec q).2.1) % 2^c.S
  let range1 := scale * (m.dec q).2.2
  if range1 < 2^(c.S - c.W) then
    let lower2 := (lower1 * 2^c.W) % 2^c.S
    let range2 := range1 * 2^c.W
    let point2 := (d.point * 2^c.W) % 2^c.S
    match d.data[d.pos]? with
    | some w => ((m.dec q).1, { d with pos := d.pos + 1, lower := lower2, range := range2,
                                        point := point2 ||| w })
    | none => ((m.dec q).1, { d with lower := lower2, range := range2, point := point2 })
  else ((m.dec q).1, { d with lower := lower1, range := range1 })

/-- the quantile `decode_symbol` computes -/
def quantileOf (c : Cfg) (d : Decoder) : Nat :=
  wsub c.S d.point d.lower / (d.range / 2^c.P)

theorem quantile_narrow {c : Cfg} (hc : RValid c) {q : Nat} (hq : q < 2^c.P) :
    narrow c.B (narrow c.W q) = q := by
  have hB : 2^c.P ≤ 2^c.B := Nat.pow_le_pow_right (by omega) hc.1.2.1
  have hW : 2^c.B ≤ 2^c.W := Nat.pow_le_pow_right (by omega) hc.1.2.2.1
  unfold narrow
  have h1 : q < 2^c.W := by omega
  have h2 : q < 2^c.B := by omega
  rw [Nat.mod_eq_of_lt h1, Nat.mod_eq_of_lt h2]

/-- `decode_symbol` never faults: it raises `InvalidData` iff the quantile is `≥ 2^P`, and
    otherwise computes `decPure`. -/
theorem decode_eq_pure {Sym : Type} {c : Cfg} (hc : RValid c) {m : Model Sym}
    (hm : m.WellFormed c.P) {d : Decoder} (hI : DReg c d) :
    decode c m d =
      if quantileOf c d ≥ 2^c.P then .error .invalidData else .ok (decPure c m d) := by
  obtain ⟨hl, hr, hr2, hpt, _⟩ := hI
  have hP := two_pow_pos' c.P
  have hscale : 0 < d.range / 2^c.P := by
    have h1 : 2^(c.S - c.W - c.P) ≤ d.range / 2^c.P := by
      rw [Nat.le_div_iff_mul_le hP, ← hc.pow_SW_P]; exact hr
    exact Nat.lt_of_lt_of_le (two_pow_pos' _) h1
  have hPS : 2^c.P < 2^c.S := Nat.pow_lt_pow_right (by omega) hc.P_lt_S
  unfold decode quantileOf
  rw [shr_ok hc.P_lt_S]
  simp only [shr_eq_div]
  rw [cdiv_ok (Nat.ne_of_gt hscale), shl_ok hc.P_lt_S]
  simp only [shl_eq_mul, Nat.one_mul, Nat.mod_eq_of_lt hPS]
  by_cases hq : wsub c.S d.point d.lower / (d.range / 2^c.P) ≥ 2^c.P
  · simp only [hq, if_true]
  · simp only [hq, if_false]
    have hq' : wsub c.S d.point d.lower / (d.range / 2^c.P) < 2^c.P := Nat.lt_of_not_le hq
    rw [quantile_narrow hc hq']
    obtain ⟨henc, hle, hlt⟩ := hm.2 _ hq'
    obtain ⟨hp, hcp, _, _⟩ := hm.1 _ _ _ henc
    -- name the decoded triple
    simp only [decPure]
    generalize m.dec (wsub c.S d.point d.lower / (d.range / 2^c.P)) = t at *
    obtain ⟨s, cum, p⟩ := t
    simp only at hle hlt hp hcp ⊢
    unfold decodeStep
    have hfull : d.range / 2^c.P * (cum + p) ≤ d.range :=
      calc d.range / 2^c.P * (cum + p) ≤ d.range / 2^c.P * 2^c.P := Nat.mul_le_mul_left _ hcp
        _ ≤ d.range := Nat.div_mul_le_self _ _
    have hsplit : d.range / 2^c.P * (cum + p) = d.range / 2^c.P * cum + d.range / 2^c.P * p :=
      Nat.mul_add _ _ _
    have hp1 : 0 < d.range / 2^c.P * p := Nat.mul_pos hscale hp
    rw [cmul_ok (show d.range / 2^c.P * cum < 2^c.S by omega),
        cmul_ok (show d.range / 2^c.P * p < 2^c.S by omega)]
    simp only [Nat.ne_of_gt hp1, if_false]
    have hWS := hc.W_lt_S
    have hW := hc.W_pos
    rw [shl_ok (show c.S - c.W < c.S by omega)]
    simp only [shl_eq_mul, Nat.one_mul]
    rw [Nat.mod_eq_of_lt (Nat.pow_lt_pow_right (by omega) (show c.S - c.W < c.S by omega))]
    simp only [wadd_eq]
    by_cases hlt2 : d.range / 2^c.P * p < 2^(c.S - c.W)
    · simp only [hlt2, if_true]
      rw [shl_ok hWS, shl_ok hWS, shl_ok hWS]
      simp only [shl_eq_mul]
      have hr2' : d.range / 2^c.P * p * 2^c.W < 2^c.S := by
        rw [hc.pow_S]; exact Nat.mul_lt_mul_of_pos_right hlt2 (two_pow_pos' _)
      rw [Nat.mod_eq_of_lt hr2']
      have hne : d.range / 2^c.P * p * 2^c.W ≠ 0 :=
        Nat.ne_of_gt (Nat.mul_pos hp1 (two_pow_pos' _))
      simp only [hne, if_false]
      cases d.data[d.pos]? <;> rfl
    · simp only [hlt2, if_false]

/-- `x·b mod (U·b)` is a multiple of `b`, so OR-ing a word is adding it -/
theorem shifted_or {c : Cfg} (hc : RValid c) (x w : Nat) (hw : w < 2^c.W) :
    (x * 2^c.W) % 2^c.S ||| w = (x * 2^c.W) % 2^c.S + w := by
  rw [hc.pow_S, mul_mod_mul, ← shl_eq_mul]
  exact (Nat.shiftLeft_add_eq_or_of_lt hw _).symm

theorem shifted_add_lt {c : Cfg} (hc : RValid c) (x w : Nat) (hw : w < 2^c.W) :
    (x * 2^c.W) % 2^c.S + w < 2^c.S := by
  have hU := two_pow_pos' (c.S - c.W)
  rw [hc.pow_S, mul_mod_mul]
  have h1 : x % 2^(c.S - c.W) + 1 ≤ 2^(c.S - c.W) := Nat.mod_lt _ hU
  have h2 := Nat.mul_le_mul_right (2^c.W) h1
  rw [Nat.add_mul] at h2
  omega

/-- **decoder invariant is established / preserved** on arbitrary data (no assumption that
    the data came from an encoder, nor that `point ⊖ lower < range` held before) -/
theorem decPure_inv {Sym : Type} {c : Cfg} (hc : RValid c) {m : Model Sym}
    (hm : m.WellFormed c.P) {d : Decoder} (hI : DReg c d) (hq : quantileOf c d < 2^c.P) :
    DInv c (decPure c m d).2 := by
  obtain ⟨hl, hr, hr2, hpt, hdata⟩ := hI
  have hP := two_pow_pos' c.P
  have hT := two_pow_pos' c.S
  have hb := two_pow_pos' c.W
  obtain ⟨henc, hle, hlt⟩ := hm.2 _ hq
  obtain ⟨hp, hcp, _, _⟩ := hm.1 _ _ _ henc
  unfold quantileOf at hq hle hlt henc hp hcp
  simp only [decPure]
  generalize m.dec (wsub c.S d.point d.lower / (d.range / 2^c.P)) = t at *
  obtain ⟨s, cum, p⟩ := t
  simp only at hle hlt hp hcp ⊢
  generalize hsc : d.range / 2^c.P = scale at *
  generalize hDD : wsub c.S d.point d.lower = D at *
  have hscale1 : 2^(c.S - c.W - c.P) ≤ scale := by
    rw [← hsc, Nat.le_div_iff_mul_le hP, ← hc.pow_SW_P]; exact hr
  have hscale : 0 < scale := Nat.lt_of_lt_of_le (two_pow_pos' _) hscale1
  have hfull : scale * (cum + p) ≤ d.range :=
    calc scale * (cum + p) ≤ scale * 2^c.P := Nat.mul_le_mul_left _ hcp
      _ ≤ d.range := by rw [← hsc]; exact Nat.div_mul_le_self _ _
  have hsplit : scale * (cum + p) = scale * cum + scale * p := Nat.mul_add _ _ _
  have hp1 : 0 < scale * p := Nat.mul_pos hscale hp
  -- `scale * cum ≤ D < scale * (cum + p)`
  have hlo : scale * cum ≤ D :=
    Nat.le_trans (Nat.mul_le_mul_left _ hle) (by rw [Nat.mul_comm]; exact Nat.div_mul_le_self _ _)
  have hhi : D < scale * (cum + p) := by
    have h1 : D < scale * (D / scale + 1) := by
      rw [Nat.mul_comm]; exact Nat.lt_mul_of_div_lt (Nat.lt_succ_self _) hscale
    exact Nat.lt_of_lt_of_le h1 (Nat.mul_le_mul_left _ hlt)
  -- the new difference
  have hl1 : (d.lower + scale * cum) % 2^c.S < 2^c.S := Nat.mod_lt _ hT
  have hD1 : wsub c.S d.point ((d.lower + scale * cum) % 2^c.S) = D - scale * cum := by
    apply wsub_unique hl1 (by omega)
    rw [Nat.mod_add_mod]
    have : d.lower + scale * cum + (D - scale * cum) = d.lower + D := by omega
    rw [this, ← hDD]
    exact wsub_add hpt hl
  by_cases hlt2 : scale * p < 2^(c.S - c.W)
  · simp only [hlt2, if_true]
    have hr2' : scale * p * 2^c.W < 2^c.S := by
      rw [hc.pow_S]; exact Nat.mul_lt_mul_of_pos_right hlt2 hb
    have hr2lo : 2^(c.S - c.W) ≤ scale * p * 2^c.W := by
      have h1 : 2^(c.S - c.W - c.P) ≤ scale * p :=
        Nat.le_trans hscale1 (Nat.le_mul_of_pos_right _ hp)
      have h2 : 2^(c.S - c.W) ≤ 2^(c.S - c.W - c.P) * 2^c.W := by
        rw [← Nat.pow_add]
        have := hc.P_le_W
        have := hc.two_W_le
        exact Nat.pow_le_pow_right (by omega) (by omega)
      exact Nat.le_trans h2 (Nat.mul_le_mul_right _ h1)
    have hl2 : ((d.lower + scale * cum) % 2^c.S * 2^c.W) % 2^c.S < 2^c.S := Nat.mod_lt _ hT
    -- the shifted difference, for an arbitrary incoming word `w < 2^W` (or none: `w = 0`)
    have key : ∀ w, w < 2^c.W →
        wsub c.S ((d.point * 2^c.W) % 2^c.S + w)
          (((d.lower + scale * cum) % 2^c.S * 2^c.W) % 2^c.S) = (D - scale * cum) * 2^c.W + w := by
      intro w hw
      have hdw : (D - scale * cum) * 2^c.W + w < scale * p * 2^c.W := by
        have h1 : D - scale * cum + 1 ≤ scale * p := by omega
        have h2 := Nat.mul_le_mul_right (2^c.W) h1
        rw [Nat.add_mul] at h2
        omega
      apply wsub_unique hl2 (by omega)
      rw [Nat.mod_add_mod]
      -- `(lower1 + D1) = point + T * k`
      have hsum := wsub_add hpt hl1
      rw [hD1] at hsum
      have hdm := Nat.div_add_mod ((d.lower + scale * cum) % 2^c.S + (D - scale * cum)) (2^c.S)
      rw [hsum] at hdm
      generalize ((d.lower + scale * cum) % 2^c.S + (D - scale * cum)) / 2^c.S = k at hdm
      have h2 : (2^c.S * k + d.point) * 2^c.W
          = ((d.lower + scale * cum) % 2^c.S + (D - scale * cum)) * 2^c.W := by rw [hdm]
      rw [Nat.add_mul, Nat.add_mul, Nat.mul_assoc] at h2
      have : (d.lower + scale * cum) % 2^c.S * 2^c.W + ((D - scale * cum) * 2^c.W + w)
          = 2^c.S * (k * 2^c.W) + (d.point * 2^c.W + w) := by omega
      rw [this, Nat.mul_add_mod, Nat.add_mod, Nat.mod_eq_of_lt (Nat.lt_of_lt_of_le hw (by
        rw [hc.pow_S]; exact Nat.le_mul_of_pos_left _ (two_pow_pos' _)))]
      exact Nat.mod_eq_of_lt (shifted_add_lt hc _ _ hw)
    cases hw : d.data[d.pos]? with
    | none =>
      simp only
      have k0 := key 0 hb
      simp only [Nat.add_zero] at k0
      refine ⟨⟨hl2, hr2lo, hr2', Nat.mod_lt _ hT, hdata⟩, ?_⟩
      dsimp only
      rw [k0]
      have h1 : D - scale * cum + 1 ≤ scale * p := by omega
      have h2 := Nat.mul_le_mul_right (2^c.W) h1
      rw [Nat.add_mul] at h2
      omega
    | some w =>
      simp only
      have hwlt : w < 2^c.W := hdata w (List.mem_of_getElem? hw)
      rw [shifted_or hc _ _ hwlt]
      refine ⟨⟨hl2, hr2lo, hr2', shifted_add_lt hc _ _ hwlt, hdata⟩, ?_⟩
      dsimp only
      rw [key w hwlt]
      have h1 : D - scale * cum + 1 ≤ scale * p := by omega
      have h2 := Nat.mul_le_mul_right (2^c.W) h1
      rw [Nat.add_mul] at h2
      omega
  · simp only [hlt2, if_false]
    have hr1 : scale * p < 2^c.S := by omega
    refine ⟨⟨hl1, Nat.le_of_not_lt hlt2, hr1, hpt, hdata⟩, ?_⟩
    dsimp only
    rw [hD1]; omega

/-- the decoded symbol belongs to the model's support -/
theorem decPure_support {Sym : Type} {c : Cfg} {m : Model Sym}
    (hm : m.WellFormed c.P) {d : Decoder} (hq : quantileOf c d < 2^c.P) :
    ∃ cum p, m.enc (decPure c m d).1 = some (cum, p) ∧ 0 < p := by
  obtain ⟨henc, _, _⟩ := hm.2 _ hq
  obtain ⟨hp, _, _, _⟩ := hm.1 _ _ _ henc
  refine ⟨(m.dec (quantileOf c d)).2.1, (m.dec (quantileOf c d)).2.2, ?_, hp⟩
  have : (decPure c m d).1 = (m.dec (quantileOf c d)).1 := by
    unfold decPure quantileOf
    simp only
    split
    · split <;> rfl
    · rfl
  rw [this]; exact henc

end CV.Range
