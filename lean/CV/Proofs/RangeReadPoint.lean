import CV.Proofs.RangeRoundtrip
/-!
# `read_point`, `from_compressed`, `seek`, `maybe_exhausted`
-/
namespace CV.Range
open RangeSpec (St step run)

theorem shl_word {c : Cfg} (hc : RValid c) {pt n w : Nat} (hn : n + 1 ≤ nW c)
    (hpt : pt < (2^c.W)^n) (hw : w < 2^c.W) :
    ((pt <<< c.W) % 2^c.S) ||| w = pt * 2^c.W + w ∧ pt * 2^c.W + w < (2^c.W)^(n + 1) := by
  have hb := two_pow_pos' c.W
  have h1 : (pt + 1) * 2^c.W ≤ (2^c.W)^n * 2^c.W := Nat.mul_le_mul_right _ hpt
  rw [Nat.add_mul] at h1
  have h2 : (2^c.W)^(n + 1) ≤ 2^c.S := by
    rw [← hc.pow_nW]; exact Nat.pow_le_pow_right hb hn
  have h3 : pt * 2^c.W < 2^c.S := by rw [Nat.pow_succ] at h2; omega
  constructor
  · rw [shl_eq_mul, Nat.mod_eq_of_lt h3, ← shl_eq_mul]
    exact (Nat.shiftLeft_add_eq_or_of_lt hw _).symm
  · rw [Nat.pow_succ]; omega

/-- the reading loop -/
theorem readPointLoop_eq {c : Cfg} (hc : RValid c) : ∀ (rest : List Nat) (n pt : Nat),
    WordsOK c rest → n < nW c → pt < (2^c.W)^n →
    readPointLoop c rest n pt =
      .ok (n + min (nW c - n) rest.length,
           pt * (2^c.W)^(min (nW c - n) rest.length)
             + pre c.W rest (min (nW c - n) rest.length)) := by
  intro rest
  induction rest with
  | nil =>
    intro n pt _ _ _
    simp [readPointLoop, pre]
  | cons w rest ih =>
    intro n pt hw hn hpt
    have hwlt : w < 2^c.W := hw w (by simp)
    have hrest : WordsOK c rest := fun x hx => hw x (by simp [hx])
    obtain ⟨hor, hlt⟩ := shl_word hc (show n + 1 ≤ nW c from hn) hpt hwlt
    unfold readPointLoop
    rw [shl_ok hc.W_lt_S]
    simp only [hor]
    show (if n + 1 = nW c then _ else _) = _
    by_cases hlast : n + 1 = nW c
    · have hN : nW c = c.S / c.W := rfl
      simp only [hlast, if_true]
      have hk : min (nW c - n) (w :: rest).length = 1 := by
        simp only [List.length_cons]; omega
      rw [hk]
      have : pre c.W (w :: rest) 1 = w := by simp [pre]
      rw [this]
      simp only [Nat.pow_one]
      congr 2
      omega
    · have hN : nW c = c.S / c.W := rfl
      simp only [hlast, if_false]
      rw [ih (n + 1) (pt * 2^c.W + w) hrest (by omega) hlt]
      have hk : min (nW c - n) (w :: rest).length = min (nW c - (n + 1)) rest.length + 1 := by
        simp only [List.length_cons]; omega
      rw [hk, pre_cons, Nat.pow_succ]
      have e1 : n + 1 + min (nW c - (n + 1)) rest.length
          = n + (min (nW c - (n + 1)) rest.length + 1) := by omega
      rw [e1]
      congr 2
      ring

/-- **`read_point`** reads the next `S/W` words (zero padded) and leaves the cursor behind
    them (or at the end of the data) -/
theorem readPoint_eq {c : Cfg} (hc : RValid c) {data : List Nat} (hw : WordsOK c data)
    (pos : Nat) :
    readPoint c data pos =
      .ok (pre c.W (data.drop pos) (nW c), pos + min (nW c) (data.length - pos)) := by
  have hN := hc.two_le_nW
  have hrest : WordsOK c (data.drop pos) := fun x hx => hw x (List.mem_of_mem_drop hx)
  unfold readPoint
  rw [readPointLoop_eq hc _ 0 0 hrest (by omega) (by simp)]
  simp only [Nat.zero_add, Nat.zero_mul, Nat.sub_zero, List.length_drop]
  have hNdef : c.S / c.W = nW c := rfl
  rw [hNdef]
  by_cases hfull : nW c ≤ data.length - pos
  · have hk : min (nW c) (data.length - pos) = nW c := Nat.min_eq_left hfull
    simp only [hk, Nat.lt_irrefl, if_false]
  · have hk : min (nW c) (data.length - pos) = data.length - pos := by omega
    have hlt : data.length - pos < nW c := by omega
    simp only [hk, hlt, if_true]
    -- zero padding
    have hpad : pre c.W (data.drop pos) (nW c)
        = pre c.W (data.drop pos) (data.length - pos) * (2^c.W)^(nW c - (data.length - pos)) := by
      have h1 : nW c = (data.length - pos) + (nW c - (data.length - pos)) := by omega
      conv_lhs => rw [h1]
      apply pre_pad
      intro j hj
      apply getD_of_length_le
      rw [List.length_drop]; exact hj
    by_cases hz : data.length - pos = 0
    · simp only [hz, ne_eq, not_true_eq_false, if_false]
      rw [hpad, hz]; simp [pre]
    · simp only [hz, ne_eq, not_false_eq_true, if_true]
      have hle : (data.length - pos) * c.W ≤ c.S := by
        rw [hc.S_eq]; exact Nat.mul_le_mul_right _ (Nat.le_of_lt hlt)
      rw [csub_ok hle]
      simp only []
      have hW := hc.W_pos
      have hpos : 0 < (data.length - pos) * c.W := Nat.mul_pos (by omega) hW
      rw [shl_ok (show c.S - (data.length - pos) * c.W < c.S by omega)]
      simp only [shl_eq_mul]
      have hpow : 2^(c.S - (data.length - pos) * c.W) = (2^c.W)^(nW c - (data.length - pos)) := by
        rw [← Nat.pow_mul]; congr 1
        rw [Nat.mul_sub, Nat.mul_comm c.W (nW c), ← hc.S_eq, Nat.mul_comm]
      rw [hpow, ← hpad]
      rw [Nat.mod_eq_of_lt]
      rw [← hc.pow_nW]; exact pre_lt hrest _

theorem pre_window_lt {c : Cfg} (hc : RValid c) {ws : List Nat} (hw : WordsOK c ws) :
    pre c.W ws (nW c) < 2^c.S := by
  rw [← hc.pow_nW]; exact pre_lt hw _

/-- the stream at scale `m`, modulo `2^S`, is the window of `S/W` words starting at `m` -/
theorem pre_mod_window {c : Cfg} (hc : RValid c) {ws : List Nat} (hw : WordsOK c ws) (m : Nat) :
    pre c.W ws (m + nW c) % 2^c.S = pre c.W (ws.drop m) (nW c) := by
  have hrest : WordsOK c (ws.drop m) := fun x hx => hw x (List.mem_of_mem_drop hx)
  rw [pre_drop, hc.pow_nW, Nat.mul_comm, Nat.mul_add_mod]
  exact Nat.mod_eq_of_lt (pre_window_lt hc hrest)

/-- **`from_compressed`** never fails and yields the decoder that belongs to the reference's
    initial state -/
theorem fromCompressed_eq {c : Cfg} (hc : RValid c) {ws : List Nat} (hw : WordsOK c ws) :
    ∃ d, Decoder.fromCompressed c ws = .ok d ∧ DRel c (RangeSpec.init c.S) ws d := by
  unfold Decoder.fromCompressed
  rw [readPoint_eq hc hw 0]
  refine ⟨_, rfl, ⟨rfl, ?_, rfl, ?_, ?_⟩⟩
  · simp [RangeSpec.init]
  · simp only [RangeSpec.init, Nat.zero_add, List.drop_zero]
    exact (Nat.mod_eq_of_lt (pre_window_lt hc hw)).symm
  · simp only [RangeSpec.init, Nat.zero_add, Nat.sub_zero]

/-- **`seek`** to a position inside the data constructs the decoder that belongs to any
    reference state with that scale and those registers — it is a function of its argument
    only, so order and repetition of seeks are irrelevant. -/
theorem seek_eq {c : Cfg} (hc : RValid c) {ws : List Nat} (hw : WordsOK c ws) {d : Decoder}
    (hd : d.data = ws) {st : St} {pos lower range : Nat} (hpos : pos ≤ ws.length)
    (hm : st.m = pos) (hl : lower = st.Lo % 2^c.S) (hr : range = st.R) :
    ∃ d', d.seek c pos lower range = .ok d' ∧ DRel c st ws d' := by
  unfold Decoder.seek
  rw [hd]
  have : ¬ (pos > ws.length) := by omega
  simp only [this, if_false]
  rw [readPoint_eq hc hw pos]
  refine ⟨_, rfl, ⟨rfl, hl, hr, ?_, ?_⟩⟩
  · simp only
    rw [hm, pre_mod_window hc hw]
  · simp only
    rw [hm]; omega

/-- positions beyond the data are rejected, and nothing else happens -/
theorem seek_beyond {c : Cfg} {d : Decoder} {pos lower range : Nat} (h : d.data.length < pos) :
    d.seek c pos lower range = .error .rejected := by
  unfold Decoder.seek
  simp only [gt_iff_lt, h, if_true]

end CV.Range
