import CV.Model.Ans
import CV.Proofs.Arith
/-!
# ANS coder: single-step lemmas

`encodeCP_spec` / `decode_spec` characterise one step in pure arithmetic (no faults, no
truncation); `decode_encodeCP` and `encodeCP_decode` are the two inverse directions.
-/
namespace CV.Ans
open CV

/-- well-formed `(cum, p)` pair at precision `P` -/
def CPok (P cum p : Nat) : Prop := 0 < p ∧ cum + p ≤ 2^P ∧ p < 2^P

section
variable {c : Cfg}

theorem Valid.facts (hc : c.Valid) :
    1 ≤ c.P ∧ c.P ≤ c.B ∧ c.B ≤ c.W ∧ 2 * c.W ≤ c.S ∧ c.P ≤ c.W ∧ c.W + c.P ≤ c.S := by
  obtain ⟨h1, h2, h3, h4⟩ := hc
  omega

/-- `2^S = 2^(S-P) * 2^P` etc. -/
theorem pows (hc : c.Valid) :
    2^c.S = 2^(c.S - c.P) * 2^c.P ∧ 2^c.S = 2^(c.S - c.W) * 2^c.W ∧
    2^(c.S - c.P) = 2^(c.S - c.W - c.P) * 2^c.W ∧
    2^(c.S - c.W) = 2^(c.S - c.W - c.P) * 2^c.P ∧
    2^c.P ≤ 2^c.B ∧ 2^c.B ≤ 2^c.W ∧ 2^(c.S - c.W) ≤ 2^(c.S - c.P) := by
  obtain ⟨h1, h2, h3, h4, h5, h6⟩ := Valid.facts hc
  refine ⟨pow_split (by omega), pow_split (by omega), ?_, ?_, pow_le_pow2 h2, pow_le_pow2 h3,
    pow_le_pow2 (by omega)⟩
  · have : c.S - c.P = (c.S - c.W - c.P) + c.W := by omega
    rw [← Nat.pow_add]; congr 1
  · have : c.S - c.W = (c.S - c.W - c.P) + c.P := by omega
    rw [← Nat.pow_add]; congr 1

/-- the state after the (possible) flush of `encode_symbol` -/
def flushCond (c : Cfg) (x : Coder) (p : Nat) : Prop := p * 2^(c.S - c.P) ≤ x.state

instance (c : Cfg) (x : Coder) (p : Nat) : Decidable (flushCond c x p) := by
  unfold flushCond; exact inferInstance

def afterFlush (c : Cfg) (x : Coder) (p : Nat) : Coder :=
  if flushCond c x p then
    { x with bulk := x.state % 2^c.W :: x.bulk, state := x.state / 2^c.W }
  else x

theorem afterFlush_lt (hc : c.Valid) {x : Coder} (hx : Inv c x) {p : Nat} (hp : 0 < p) :
    (afterFlush c x p).state < p * 2^(c.S - c.P) := by
  obtain ⟨e1, e2, e3, e4, l1, l2, l3⟩ := pows hc
  unfold afterFlush
  split
  · simp only
    have : x.state / 2^c.W < 2^(c.S - c.W) := by
      apply Nat.div_lt_of_lt_mul
      rw [Nat.mul_comm, ← e2]; exact hx.1
    calc x.state / 2^c.W < 2^(c.S - c.W) := this
      _ ≤ 2^(c.S - c.P) := l3
      _ ≤ p * 2^(c.S - c.P) := Nat.le_mul_of_pos_left _ hp
  · rename_i h
    unfold flushCond at h
    omega

/-- one encode step, in arithmetic -/
def encArith (c : Cfg) (x : Coder) (cum p : Nat) : Coder :=
  let y := afterFlush c x p
  { y with state := (y.state / p) * 2^c.P + (cum + y.state % p) }

theorem encodeCP_spec (hc : c.Valid) {x : Coder} (hx : Inv c x) (hcap : x.cap = none)
    {cum p : Nat} (hcp : CPok c.P cum p) :
    encodeCP c x cum p = .ok (encArith c x cum p) := by
  obtain ⟨hp, hsum, hp1⟩ := hcp
  obtain ⟨f1, f2, f3, f4, f5, f6⟩ := Valid.facts hc
  obtain ⟨e1, e2, e3, e4, l1, l2, l3⟩ := pows hc
  have hlt := afterFlush_lt hc hx hp
  unfold encodeCP shr
  have hs : c.S - c.P < c.S := by omega
  simp only [hs, if_true]
  have hflush : (x.state >>> (c.S - c.P) ≥ p) ↔ flushCond c x p := by
    unfold flushCond
    rw [shr_eq]
    exact (Nat.le_div_iff_mul_le (Nat.two_pow_pos _))
  have hcw : canWrite x = true := by simp [canWrite, hcap]
  -- the intermediate `flushed` value
  have hfl : (if x.state >>> (c.S - c.P) ≥ p then
        if canWrite x = true then
          (Except.ok { x with bulk := narrow c.W x.state :: x.bulk, state := x.state >>> c.W } :
            Except EncErr Coder)
        else .error .backendFull
      else .ok x) = .ok (afterFlush c x p) := by
    unfold afterFlush
    by_cases h : flushCond c x p
    · rw [if_pos (hflush.mpr h), if_pos hcw, if_pos h]
      simp [narrow, shr_eq]
    · have : ¬ (x.state >>> (c.S - c.P) ≥ p) := fun h' => h (hflush.mp h')
      rw [if_neg this, if_neg h]
  rw [hfl]
  simp only
  have hp0 : p ≠ 0 := by omega
  simp only [hp0, if_false]
  generalize hy : afterFlush c x p = y at hlt ⊢
  have hr : y.state % p < p := Nat.mod_lt _ hp
  have hnar : narrow c.B (narrow c.W (y.state % p)) = y.state % p := by
    unfold narrow
    rw [Nat.mod_eq_of_lt (by omega : y.state % p < 2^c.W), Nat.mod_eq_of_lt (by omega)]
  rw [hnar]
  unfold cadd
  have hq : cum + y.state % p < 2^c.B := by omega
  simp only [hq, if_true]
  unfold shl
  have hps : c.P < c.S := by omega
  simp only [hps, if_true]
  have hpre : y.state / p < 2^(c.S - c.P) := by
    apply Nat.div_lt_of_lt_mul; exact hlt
  have hnt : (y.state / p) <<< c.P < 2^c.S := by
    rw [Nat.shiftLeft_eq, e1]
    exact Nat.mul_lt_mul_of_pos_right hpre (Nat.two_pow_pos _)
  rw [Nat.mod_eq_of_lt hnt, shl_or_eq (by omega : cum + y.state % p < 2^c.P)]
  unfold encArith
  rw [hy]


theorem encArith_inv (hc : c.Valid) {x : Coder} (hx : Inv c x) {cum p : Nat}
    (hcp : CPok c.P cum p) : Inv c (encArith c x cum p) := by
  obtain ⟨hp, hsum, hp1⟩ := hcp
  obtain ⟨f1, f2, f3, f4, f5, f6⟩ := Valid.facts hc
  obtain ⟨e1, e2, e3, e4, l1, l2, l3⟩ := pows hc
  have hlt := afterFlush_lt hc hx hp
  obtain ⟨hs, hb, hne⟩ := hx
  have hT : 0 < 2^(c.S - c.P) := Nat.two_pow_pos _
  have hPw : 0 < 2^c.P := Nat.two_pow_pos _
  unfold encArith
  generalize hy : afterFlush c x p = y at hlt
  have hpre : y.state / p < 2^(c.S - c.P) := Nat.div_lt_of_lt_mul hlt
  have hr : y.state % p < p := Nat.mod_lt _ hp
  refine ⟨?_, ?_, ?_⟩
  · -- state < 2^S
    simp only
    have : (y.state / p + 1) * 2^c.P ≤ 2^(c.S - c.P) * 2^c.P :=
      Nat.mul_le_mul_right _ hpre
    rw [Nat.add_mul, Nat.one_mul] at this
    omega
  · -- bulk words
    simp only
    intro w hw
    rw [← hy] at hw
    unfold afterFlush at hw
    split at hw
    · simp only [List.mem_cons] at hw
      rcases hw with h | h
      · rw [h]; exact Nat.mod_lt _ (Nat.two_pow_pos _)
      · exact hb w h
    · exact hb w hw
  · -- bulk ≠ [] → 2^(S-W) ≤ state
    simp only
    intro _
    rw [← hy]
    unfold afterFlush
    by_cases hf : flushCond c x p
    · simp only [hf, if_true]
      -- x.state ≥ p * 2^(S-P) ; y.state = x.state / 2^W ≥ p * 2^(S-W-P)
      unfold flushCond at hf
      have h1 : p * 2^(c.S - c.W - c.P) ≤ x.state / 2^c.W := by
        rw [Nat.le_div_iff_mul_le (Nat.two_pow_pos _), Nat.mul_assoc, ← e3]; exact hf
      have h2 : 2^(c.S - c.W - c.P) ≤ x.state / 2^c.W / p := by
        rw [Nat.le_div_iff_mul_le hp, Nat.mul_comm]; exact h1
      have h3 : 2^(c.S - c.W - c.P) * 2^c.P ≤ x.state / 2^c.W / p * 2^c.P :=
        Nat.mul_le_mul_right _ h2
      omega
    · simp only [hf, if_false]
      have hbne : x.bulk ≠ [] := by
        intro h
        rename_i hne'
        rw [← hy] at hne'
        unfold afterFlush at hne'
        simp [hf, h] at hne'
      have hge := hne hbne
      -- (s/p) * 2^P + cum + s%p ≥ (s/p)*p + s%p = s
      have h1 : x.state / p * p ≤ x.state / p * 2^c.P :=
        Nat.mul_le_mul_left _ (by omega)
      have h2 := Nat.div_add_mod x.state p
      rw [Nat.mul_comm] at h2
      omega

/-- one decode step, in arithmetic -/
def decArith {Sym : Type} (c : Cfg) (m : Model Sym) (x : Coder) : Sym × Coder :=
  let q := x.state % 2^c.P
  let r := m.dec q
  let st := (x.state / 2^c.P) * r.2.2 + (q - r.2.1)
  (r.1,
    if st < 2^(c.S - c.W) then
      match x.bulk with
      | w :: rest => { x with bulk := rest, state := st * 2^c.W + w }
      | [] => { x with state := st }
    else { x with state := st })

theorem decode_spec {Sym : Type} (hc : c.Valid) {m : Model Sym} (hm : m.WellFormed c.P)
    {x : Coder} (hx : Inv c x) :
    decode c m x = .ok (decArith c m x) ∧
    (decArith c m x).2.state < (m.dec (x.state % 2^c.P)).2.2 * 2^(c.S - c.P) * 2^c.W ∧
    ((x.state / 2^c.P) * (m.dec (x.state % 2^c.P)).2.2
        + (x.state % 2^c.P - (m.dec (x.state % 2^c.P)).2.1))
      < (m.dec (x.state % 2^c.P)).2.2 * 2^(c.S - c.P) := by
  obtain ⟨f1, f2, f3, f4, f5, f6⟩ := Valid.facts hc
  obtain ⟨e1, e2, e3, e4, l1, l2, l3⟩ := pows hc
  obtain ⟨hs, hb, hne⟩ := hx
  have hPw : 0 < 2^c.P := Nat.two_pow_pos _
  have hq : x.state % 2^c.P < 2^c.P := Nat.mod_lt _ hPw
  obtain ⟨henc, hle, hlt⟩ := hm.2 _ hq
  obtain ⟨hp, hsum, hp1, _⟩ := hm.1 _ _ _ henc
  generalize hr : m.dec (x.state % 2^c.P) = r at henc hle hlt hp hsum hp1
  obtain ⟨s, cum, p⟩ := r
  simp only at henc hle hlt hp hsum hp1
  -- key bound: st < p * 2^(S-P)
  have hdiv : x.state / 2^c.P < 2^(c.S - c.P) := by
    apply Nat.div_lt_of_lt_mul; rw [Nat.mul_comm, ← e1]; exact hs
  have hst : (x.state / 2^c.P) * p + (x.state % 2^c.P - cum) < p * 2^(c.S - c.P) := by
    have : (x.state / 2^c.P + 1) * p ≤ 2^(c.S - c.P) * p := Nat.mul_le_mul_right _ hdiv
    rw [Nat.add_mul, Nat.one_mul, Nat.mul_comm (2^(c.S - c.P))] at this
    omega
  have hpS : p * 2^(c.S - c.P) < 2^c.S := by
    rw [e1, Nat.mul_comm]; exact Nat.mul_lt_mul_of_pos_left hp1 (Nat.two_pow_pos _)
  refine ⟨?_, ?_, ?_⟩
  · unfold decode shl
    have hps : c.P < c.S := by omega
    simp only [hps, if_true]
    have h1 : (1 <<< c.P) % 2^c.S = 2^c.P := by
      rw [Nat.shiftLeft_eq, Nat.one_mul]
      exact Nat.mod_eq_of_lt (Nat.pow_lt_pow_right (by omega) hps)
    rw [h1]
    have hnar : narrow c.B (narrow c.W (x.state % 2^c.P)) = x.state % 2^c.P := by
      unfold narrow
      rw [Nat.mod_eq_of_lt (by omega : x.state % 2^c.P < 2^c.W), Nat.mod_eq_of_lt (by omega)]
    rw [hnar]
    simp only [hr]
    unfold csub
    simp only [hle, if_true]
    unfold cmul
    have hmul : x.state >>> c.P * p < 2^c.S := by rw [shr_eq]; omega
    simp only [hmul, if_true]
    unfold cadd
    have hadd : x.state >>> c.P * p + (x.state % 2^c.P - cum) < 2^c.S := by rw [shr_eq]; omega
    simp only [hadd, if_true]
    simp only [decArith, hr, shr_eq]
    by_cases hlt2 : x.state / 2^c.P * p + (x.state % 2^c.P - cum) < 2^(c.S - c.W)
    · simp only [hlt2, if_true]
      cases hbulk : x.bulk with
      | nil => simp only
      | cons w rest =>
        simp only
        have hnt : ((x.state / 2^c.P * p + (x.state % 2^c.P - cum)) <<< c.W) < 2^c.S := by
          rw [Nat.shiftLeft_eq, e2]
          exact Nat.mul_lt_mul_of_pos_right hlt2 (Nat.two_pow_pos _)
        have hw : w < 2^c.W := hb w (by rw [hbulk]; exact List.mem_cons_self)
        rw [Nat.mod_eq_of_lt hnt, shl_or_eq hw]
    · simp only [hlt2, if_false]
  · simp only [decArith, hr]
    have hW : 0 < 2^c.W := Nat.two_pow_pos _
    have hbig : p * 2^(c.S - c.P) ≤ p * 2^(c.S - c.P) * 2^c.W := Nat.le_mul_of_pos_right _ hW
    by_cases hlt2 : x.state / 2^c.P * p + (x.state % 2^c.P - cum) < 2^(c.S - c.W)
    · simp only [hlt2, if_true]
      cases hbulk : x.bulk with
      | nil => simp only; omega
      | cons w rest =>
        simp only
        have hw : w < 2^c.W := hb w (by rw [hbulk]; exact List.mem_cons_self)
        have : ((x.state / 2^c.P * p + (x.state % 2^c.P - cum)) + 1) * 2^c.W
            ≤ p * 2^(c.S - c.P) * 2^c.W := Nat.mul_le_mul_right _ hst
        rw [Nat.add_mul, Nat.one_mul] at this
        omega
    · simp only [hlt2, if_false]; omega
  · exact hst

end
end CV.Ans
