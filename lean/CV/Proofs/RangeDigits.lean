import CV.Proofs.RangeBasic
import CV.Spec.RangeSpec
/-!
# Word lists as big-endian numbers in base `2^W`

`val W l` is the value of the digit list `l`; `pre W ws k` is the value of the first `k`
digits of `ws` padded with zero words (what a decoder sees of a finite stream).
-/
namespace CV.Range

def valAux (W : Nat) (acc : Nat) (l : List Nat) : Nat := l.foldl (fun a w => a * 2^W + w) acc

/-- big-endian value of a word list -/
def val (W : Nat) (l : List Nat) : Nat := valAux W 0 l

theorem valAux_nil (W acc : Nat) : valAux W acc [] = acc := rfl
theorem valAux_cons (W acc w : Nat) (l : List Nat) :
    valAux W acc (w :: l) = valAux W (acc * 2^W + w) l := rfl

theorem valAux_append (W acc : Nat) (l r : List Nat) :
    valAux W acc (l ++ r) = valAux W (valAux W acc l) r := by
  unfold valAux; rw [List.foldl_append]

theorem valAux_eq (W : Nat) (l : List Nat) : ∀ acc, valAux W acc l = acc * (2^W)^l.length + val W l := by
  induction l with
  | nil => intro acc; simp [valAux_nil, val]
  | cons w l ih =>
    intro acc
    have h1 : val W (w :: l) = w * (2^W)^l.length + val W l := by
      show valAux W 0 (w :: l) = _
      rw [valAux_cons, ih]; simp
    rw [valAux_cons, ih, h1]
    simp only [List.length_cons, Nat.pow_succ]
    ring

@[simp] theorem val_nil (W : Nat) : val W [] = 0 := rfl

theorem val_append (W : Nat) (l r : List Nat) :
    val W (l ++ r) = val W l * (2^W)^r.length + val W r := by
  rw [val, valAux_append, valAux_eq]; rfl

theorem val_singleton (W w : Nat) : val W [w] = w := by simp [val, valAux]

theorem val_snoc (W : Nat) (l : List Nat) (w : Nat) : val W (l ++ [w]) = val W l * 2^W + w := by
  rw [val_append, val_singleton]; simp

theorem val_cons (W w : Nat) (l : List Nat) : val W (w :: l) = w * (2^W)^l.length + val W l := by
  have := val_append W [w] l
  rw [val_singleton] at this
  exact this

theorem val_replicate_zero (W k : Nat) : val W (List.replicate k 0) = 0 := by
  induction k with
  | zero => rfl
  | succ k ih => rw [List.replicate_succ, val_cons, ih]; simp

theorem val_replicate_max (W k : Nat) : val W (List.replicate k (2^W - 1)) + 1 = (2^W)^k := by
  induction k with
  | zero => rfl
  | succ k ih =>
    rw [List.replicate_succ, val_cons, List.length_replicate, Nat.pow_succ]
    have hb := two_pow_pos' W
    have h1 : (2^W - 1) * (2^W)^k + (2^W)^k = (2^W)^k * 2^W := by
      have : 2^W - 1 + 1 = 2^W := by omega
      calc (2^W - 1) * (2^W)^k + (2^W)^k = (2^W - 1 + 1) * (2^W)^k := by ring
        _ = (2^W)^k * 2^W := by rw [this]; ring
    omega

theorem val_lt {c : Cfg} {l : List Nat} (h : WordsOK c l) : val c.W l < (2^c.W)^l.length := by
  induction l with
  | nil => simp
  | cons w l ih =>
    rw [val_cons, List.length_cons, Nat.pow_succ]
    have hw : w < 2^c.W := h w (by simp)
    have hl : val c.W l < (2^c.W)^l.length := ih (fun x hx => h x (by simp [hx]))
    have h1 : (w + 1) * (2^c.W)^l.length ≤ 2^c.W * (2^c.W)^l.length := Nat.mul_le_mul_right _ hw
    rw [Nat.add_mul, Nat.mul_comm (2^c.W)] at h1
    omega

/-- the carried version of the held-back digits is the successor -/
theorem val_carry (W : Nat) (l : List Nat) (first k : Nat) :
    val W (l ++ (first + 1) :: List.replicate k 0)
      = val W (l ++ first :: List.replicate k (2^W - 1)) + 1 := by
  rw [val_append, val_append, val_cons, val_cons, val_replicate_zero]
  simp only [List.length_cons, List.length_replicate]
  have := val_replicate_max W k
  calc val W l * (2^W)^(k+1) + ((first + 1) * (2^W)^k + 0)
      = val W l * (2^W)^(k+1) + (first * (2^W)^k + (2^W)^k) := by ring
    _ = val W l * (2^W)^(k+1) + (first * (2^W)^k + (val W (List.replicate k (2^W - 1)) + 1)) := by
        rw [this]
    _ = _ := by ring

/-! ### prefixes of a zero-padded stream -/

/-- value of the first `k` words of `ws ++ 0 0 0 …` -/
def pre (W : Nat) (ws : List Nat) : Nat → Nat
  | 0 => 0
  | k + 1 => pre W ws k * 2^W + ws.getD k 0

theorem pre_eq_val_take (W : Nat) (ws : List Nat) : ∀ k, k ≤ ws.length →
    pre W ws k = val W (ws.take k) := by
  intro k
  induction k with
  | zero => intro _; simp [pre]
  | succ k ih =>
    intro hk
    have hk' : k < ws.length := hk
    rw [pre, ih (Nat.le_of_lt hk'), List.take_add_one, val_append]
    simp [List.getD, List.getElem?_eq_getElem hk', val_singleton]

theorem pre_length (W : Nat) (ws : List Nat) : pre W ws ws.length = val W ws := by
  rw [pre_eq_val_take W ws _ (Nat.le_refl _), List.take_length]

theorem pre_append_left (W : Nat) (l r : List Nat) : ∀ k, k ≤ l.length →
    pre W (l ++ r) k = pre W l k := by
  intro k
  induction k with
  | zero => intro _; rfl
  | succ k ih =>
    intro hk
    have hk' : k < l.length := hk
    rw [pre, pre, ih (Nat.le_of_lt hk')]
    simp [List.getD, List.getElem?_append_left hk']

/-- beyond a point where all further words are zero, a longer prefix is a shift -/
theorem pre_pad (W : Nat) (ws : List Nat) (k : Nat) (hz : ∀ j, k ≤ j → ws.getD j 0 = 0) :
    ∀ j, pre W ws (k + j) = pre W ws k * (2^W)^j := by
  intro j
  induction j with
  | zero => simp
  | succ j ih =>
    rw [← Nat.add_assoc, pre, ih, hz (k + j) (Nat.le_add_right _ _), Nat.pow_succ]
    ring

theorem getD_of_length_le (ws : List Nat) (j : Nat) (h : ws.length ≤ j) : ws.getD j 0 = 0 := by
  simp [List.getD, List.getElem?_eq_none h]

/-- splitting a prefix at position `p` -/
theorem pre_drop (W : Nat) (ws : List Nat) (p : Nat) : ∀ k,
    pre W ws (p + k) = pre W ws p * (2^W)^k + pre W (ws.drop p) k := by
  intro k
  induction k with
  | zero => simp [pre]
  | succ k ih =>
    rw [← Nat.add_assoc, pre, ih, pre, Nat.pow_succ]
    have : (ws.drop p).getD k 0 = ws.getD (p + k) 0 := by
      simp [List.getD, List.getElem?_drop]
    rw [this]; ring

theorem pre_cons (W w : Nat) (rest : List Nat) (k : Nat) :
    pre W (w :: rest) (k + 1) = w * (2^W)^k + pre W rest k := by
  have := pre_drop W (w :: rest) 1 k
  rw [Nat.add_comm] at this
  rw [this]
  simp [pre]

theorem pre_lt {c : Cfg} {ws : List Nat} (h : WordsOK c ws) : ∀ k, pre c.W ws k < (2^c.W)^k := by
  intro k
  induction k with
  | zero => simp [pre]
  | succ k ih =>
    rw [pre, Nat.pow_succ]
    have hw : ws.getD k 0 < 2^c.W := by
      unfold List.getD
      cases hk : ws[k]? with
      | none => simp
      | some w => simpa using h w (List.mem_of_getElem? hk)
    have h1 : (pre c.W ws k + 1) * 2^c.W ≤ (2^c.W)^k * 2^c.W := Nat.mul_le_mul_right _ ih
    rw [Nat.add_mul] at h1
    omega

/-! ### the reference's `digits` -/

open RangeSpec in
theorem length_digits (W : Nat) : ∀ k x, (digits W k x).length = k := by
  intro k
  induction k with
  | zero => intro x; rfl
  | succ k ih => intro x; simp [digits, ih]

open RangeSpec in
theorem digits_wordsOK (c : Cfg) : ∀ k x, WordsOK c (digits c.W k x) := by
  intro k
  induction k with
  | zero => intro x; exact WordsOK.nil
  | succ k ih =>
    intro x
    exact (ih (x / 2^c.W)).append
      (WordsOK.cons (Nat.mod_lt _ (two_pow_pos' _)) WordsOK.nil)

open RangeSpec in
theorem val_digits (W : Nat) : ∀ k x, val W (digits W k x) = x % (2^W)^k := by
  intro k
  induction k with
  | zero => intro x; simp [digits, Nat.mod_one]
  | succ k ih =>
    intro x
    rw [digits, val_snoc, ih, Nat.pow_succ, Nat.mul_comm ((2^W)^k) (2^W), Nat.mod_mul]
    ring

open RangeSpec in
theorem digits_val_aux {c : Cfg} : ∀ k (l : List Nat), l.length = k → WordsOK c l →
    digits c.W k (val c.W l) = l := by
  intro k
  induction k with
  | zero =>
    intro l hl _
    rw [List.length_eq_zero_iff.mp hl]; rfl
  | succ k ih =>
    intro l hlen h
    rcases List.eq_nil_or_concat l with hnil | ⟨L, w, rfl⟩
    · rw [hnil] at hlen; simp at hlen
    · have hw : w < 2^c.W := h w (by simp)
      have hL : WordsOK c L := fun x hx => h x (by simp [hx])
      have hLlen : L.length = k := by simpa using hlen
      rw [List.concat_eq_append]
      rw [digits, val_snoc]
      have h1 : (val c.W L * 2^c.W + w) / 2^c.W = val c.W L := by
        rw [Nat.mul_comm, Nat.mul_add_div (two_pow_pos' _), Nat.div_eq_of_lt hw]; simp
      have h2 : (val c.W L * 2^c.W + w) % 2^c.W = w := by
        rw [Nat.mul_comm, Nat.mul_add_mod]; exact Nat.mod_eq_of_lt hw
      rw [h1, h2, ih L hLlen hL]

open RangeSpec in
/-- `digits` inverts `val` on lists of words -/
theorem digits_val {c : Cfg} (l : List Nat) (h : WordsOK c l) :
    digits c.W l.length (val c.W l) = l := digits_val_aux l.length l rfl h

end CV.Range
