import CV.Proofs.HuffBuild
/-!
# Walking the arrays = walking the tree; properties of root-to-leaf paths
-/
namespace CV.Huff

namespace Tree

theorem code_isSome_iff (s : Nat) : ∀ (t : Tree), (t.code s).isSome ↔ s ∈ t.leaves
  | leaf i => by
    simp only [code, leaves, List.mem_singleton]
    split <;> simp_all [eq_comm]
  | node _ l r => by
    have hl := code_isSome_iff s l
    have hr := code_isSome_iff s r
    simp only [code, leaves, List.mem_append]
    cases h1 : code s l with
    | some p => simp [← hl, h1]
    | none =>
      cases h2 : code s r with
      | some p => simp [← hr, h2]
      | none => simp [← hl, ← hr, h1, h2]

theorem code_none_of_not_mem {s : Nat} {t : Tree} (h : s ∉ t.leaves) : t.code s = none := by
  cases e : t.code s with
  | none => rfl
  | some p => exact absurd ((code_isSome_iff s t).mp (by simp [e])) h

theorem mem_of_code {s : Nat} {t : Tree} {p} (h : t.code s = some p) : s ∈ t.leaves :=
  (code_isSome_iff s t).mp (by simp [h])

theorem code_length_le_height (s : Nat) : ∀ (t : Tree) (p : List Bool), t.code s = some p →
    p.length ≤ t.height
  | leaf i, p, h => by
    simp only [code] at h
    split at h <;> simp_all
  | node _ l r, p, h => by
    simp only [code] at h
    simp only [height]
    cases h1 : code s l with
    | some q =>
      simp [h1] at h; subst h
      have := code_length_le_height s l q h1
      simp; omega
    | none =>
      cases h2 : code s r with
      | some q =>
        simp [h1, h2] at h; subst h
        have := code_length_le_height s r q h2
        simp; omega
      | none => simp [h1, h2] at h

/-- paths to different leaves are not prefixes of each other -/
theorem code_prefix_free : ∀ (t : Tree) (s1 s2 : Nat) (p1 p2 : List Bool),
    t.code s1 = some p1 → t.code s2 = some p2 → p1 <+: p2 → s1 = s2
  | leaf i, s1, s2, p1, p2, h1, h2, _ => by
    simp only [code] at h1 h2
    split at h1 <;> split at h2 <;> simp_all
  | node _ l r, s1, s2, p1, p2, h1, h2, hp => by
    simp only [code] at h1 h2
    cases e1 : code s1 l with
    | some q1 =>
      simp [e1] at h1; subst h1
      cases e2 : code s2 l with
      | some q2 =>
        simp [e2] at h2; subst h2
        exact code_prefix_free l s1 s2 q1 q2 e1 e2 (by simpa using hp)
      | none =>
        cases e3 : code s2 r with
        | some q2 => simp [e2, e3] at h2; subst h2; simp at hp
        | none => simp [e2, e3] at h2
    | none =>
      cases e1' : code s1 r with
      | none => simp [e1, e1'] at h1
      | some q1 =>
        simp [e1, e1'] at h1; subst h1
        cases e2 : code s2 l with
        | some q2 => simp [e2] at h2; subst h2; simp at hp
        | none =>
          cases e3 : code s2 r with
          | some q2 =>
            simp [e2, e3] at h2; subst h2
            exact code_prefix_free r s1 s2 q1 q2 e1' e3 (by simpa using hp)
          | none => simp [e2, e3] at h2

end Tree

/-! ## encoder: leaf → root walk -/

theorem walk_step0 {arr : List Nat} {idx i fuel : Nat} {bits : List Bool} (hi : 0 < i)
    (h : arr[idx]? = some (2 * i)) (hw : suffixWalk arr fuel i = .ok bits) :
    suffixWalk arr (fuel + 1) idx = .ok (false :: bits) := by
  have h1 : (2 * i) >>> 1 = i := by rw [Nat.shiftRight_eq_div_pow]; omega
  have h2 : ((2 * i) &&& 1 != 0) = false := by rw [Nat.and_one_is_mod]; simp
  have h3 : ¬ (2 * i = 0) := by omega
  simp only [suffixWalk, h, h3, if_false, h1, hw, h2]

theorem walk_step1 {arr : List Nat} {idx i fuel : Nat} {bits : List Bool}
    (h : arr[idx]? = some (2 * i + 1)) (hw : suffixWalk arr fuel i = .ok bits) :
    suffixWalk arr (fuel + 1) idx = .ok (true :: bits) := by
  have h1 : (2 * i + 1) >>> 1 = i := by rw [Nat.shiftRight_eq_div_pow]; omega
  have h2 : ((2 * i + 1) &&& 1 != 0) = true := by rw [Nat.and_one_is_mod]; simp
  have h3 : ¬ (2 * i + 1 = 0) := by omega
  simp only [suffixWalk, h, h3, if_false, h1, hw, h2]

/-- walking up from leaf `s` emits the reversed root-to-leaf path and arrives at the root -/
theorem walk_up {arr : List Nat} (s : Nat) : ∀ (t : Tree) (p : List Bool),
    EncDesc arr t → (∀ i ∈ t.inner, 0 < i) → t.code s = some p →
    ∀ fuel bits, suffixWalk arr fuel t.rootId = .ok bits →
      suffixWalk arr (fuel + p.length) s = .ok (p.reverse ++ bits)
  | .leaf i, p, _, _, hc, fuel, bits, hw => by
    simp only [Tree.code] at hc
    split at hc
    · next e => simp at hc; subst hc; subst e; simpa [Tree.rootId] using hw
    · simp at hc
  | .node i l r, p, hd, hin, hc, fuel, bits, hw => by
    simp only [EncDesc] at hd
    obtain ⟨hl, hr, hdl, hdr⟩ := hd
    simp only [Tree.rootId] at hw
    have hi : 0 < i := hin i (by simp [Tree.inner])
    have hinl : ∀ j ∈ l.inner, 0 < j := fun j hj => hin j (by simp [Tree.inner, hj])
    have hinr : ∀ j ∈ r.inner, 0 < j := fun j hj => hin j (by simp [Tree.inner, hj])
    simp only [Tree.code] at hc
    cases e1 : Tree.code s l with
    | some q =>
      simp [e1] at hc; subst hc
      have := walk_up s l q hdl hinl e1 (fuel + 1) (false :: bits) (walk_step0 hi hl hw)
      simpa [Nat.add_assoc, Nat.add_comm 1] using this
    | none =>
      cases e2 : Tree.code s r with
      | none => simp [e1, e2] at hc
      | some q =>
        simp [e1, e2] at hc; subst hc
        have := walk_up s r q hdr hinr e2 (fuel + 1) (true :: bits) (walk_step1 hr hw)
        simpa [Nat.add_assoc, Nat.add_comm 1] using this

/-! ## decoder: root → leaf walk -/

theorem decodeLoop_leaf {tab : List (Nat × Nat)} {n s : Nat} (h : s < n) (src : List (Option Bool)) :
    decodeLoop tab n s src = .ok (s, src) := by
  rw [decodeLoop.eq_def]
  simp [Nat.not_le.mpr h]

theorem decodeLoop_step {tab : List (Nat × Nat)} {n i x y : Nat} (hi : n ≤ i)
    (h : tab[i - n]? = some (x, y)) (bit : Bool) (rest : List (Option Bool)) :
    decodeLoop tab n i (some bit :: rest) = decodeLoop tab n (if bit then y else x) rest := by
  simp [decodeLoop, hi, h]

theorem walk_down {tab : List (Nat × Nat)} {n : Nat} (s : Nat) (hs : s < n)
    (rest : List (Option Bool)) : ∀ (t : Tree) (p : List Bool),
    DecDesc tab n t → t.code s = some p →
    decodeLoop tab n t.rootId (p.map some ++ rest) = .ok (s, rest)
  | .leaf i, p, _, hc => by
    simp only [Tree.code] at hc
    split at hc
    · next e => simp at hc; subst hc; subst e; simpa [Tree.rootId] using decodeLoop_leaf hs rest
    · simp at hc
  | .node i l r, p, hd, hc => by
    simp only [DecDesc] at hd
    obtain ⟨hi, htab, hdl, hdr⟩ := hd
    simp only [Tree.code] at hc
    cases e1 : Tree.code s l with
    | some q =>
      simp [e1] at hc; subst hc
      simp only [Tree.rootId, List.map_cons, List.cons_append]
      rw [decodeLoop_step hi htab]
      exact walk_down s hs rest l q hdl e1
    | none =>
      cases e2 : Tree.code s r with
      | none => simp [e1, e2] at hc
      | some q =>
        simp [e1, e2] at hc; subst hc
        simp only [Tree.rootId, List.map_cons, List.cons_append]
        rw [decodeLoop_step hi htab]
        exact walk_down s hs rest r q hdr e2

/-- a source that ends inside a codeword: `OutOfCompressedData` -/
theorem walk_down_truncated {tab : List (Nat × Nat)} {n : Nat} (s : Nat) :
    ∀ (t : Tree) (p q : List Bool),
    DecDesc tab n t → t.code s = some (p ++ q) → q ≠ [] →
    decodeLoop tab n t.rootId (p.map some) = .error .outOfData
  | .leaf i, p, q, _, hc, hq => by
    simp only [Tree.code] at hc
    split at hc
    · simp at hc; exact absurd hc.2 hq
    · simp at hc
  | .node i l r, p, q, hd, hc, hq => by
    simp only [DecDesc] at hd
    obtain ⟨hi, htab, hdl, hdr⟩ := hd
    cases p with
    | nil => simp [decodeLoop, Tree.rootId, hi]
    | cons b p' =>
      simp only [Tree.code] at hc
      simp only [Tree.rootId, List.map_cons]
      rw [decodeLoop_step hi htab]
      cases e1 : Tree.code s l with
      | some w =>
        simp [e1] at hc
        obtain ⟨rfl, rfl⟩ := hc
        exact walk_down_truncated s l p' q hdl e1 hq
      | none =>
        cases e2 : Tree.code s r with
        | none => simp [e1, e2] at hc
        | some w =>
          simp [e1, e2] at hc
          obtain ⟨rfl, rfl⟩ := hc
          exact walk_down_truncated s r p' q hdr e2 hq

theorem stackWriteAll_eq (st bits : List Bool) : stackWriteAll st bits = bits.reverse ++ st := by
  induction bits generalizing st with
  | nil => simp [stackWriteAll]
  | cons b bs ih => simp [stackWriteAll, ih]

end CV.Huff
