import CV.Proofs.HuffSwap
/-!
# Optimality of the tree built by the merge loop

Induction over the loop: if the tree for the heap after one merge is optimal for the merged
alphabet, then splitting the merged leaf gives an optimal tree for the alphabet before the
merge (sibling lemma + `split_cost` + `merge_cost`).
-/
namespace CV.Huff

namespace Tree

/-- one step of the induction (Blanchette's `optimum_splitLeaf`) -/
theorem optimum_split (w : Nat → Nat) {a b z : Nat} {R : List Nat}
    (hnd : (a :: b :: R).Nodup) (hz : z ∉ a :: b :: R)
    (hab : w a ≤ w b) (hminR : ∀ x ∈ R, w b ≤ w x)
    {T' : Tree} (hT' : T'.leaves.Perm (z :: R))
    (hopt : ∀ U' : Tree, U'.leaves.Perm (z :: R) →
      cost (fun x => if x = z then w a + w b else w x) T' ≤
        cost (fun x => if x = z then w a + w b else w x) U')
    (U : Tree) (hU : U.leaves.Perm (a :: b :: R)) :
    cost w (split z a b T') ≤ cost w U := by
  have hndU : U.leaves.Nodup := hU.nodup_iff.mpr hnd
  have hnd' := hnd
  simp only [List.nodup_cons, List.mem_cons, not_or] at hnd'
  obtain ⟨⟨hab', haR⟩, hbR, hRnd⟩ := hnd'
  simp only [List.mem_cons, not_or] at hz
  obtain ⟨hza, hzb, hzR⟩ := hz
  -- make a, b siblings in U
  obtain ⟨U1, hp1, hs1, hc1⟩ := exists_sib_le w hndU (a := a) (b := b)
    (hU.mem_iff.mpr (by simp)) (hU.mem_iff.mpr (by simp)) hab'
    (by
      intro x hx
      rcases List.mem_cons.mp (hU.mem_iff.mp hx) with rfl | hx
      · exact Nat.le_refl _
      · rcases List.mem_cons.mp hx with rfl | hx
        · exact hab
        · exact Nat.le_trans hab (hminR x hx))
    (by
      intro x hx hxa
      rcases List.mem_cons.mp (hU.mem_iff.mp hx) with rfl | hx
      · exact absurd rfl hxa
      · rcases List.mem_cons.mp hx with rfl | hx
        · exact Nat.le_refl _
        · exact hminR x hx)
  -- merge them
  have hzU1 : z ∉ U1.leaves := by
    intro h
    have := (hp1.trans hU).mem_iff.mp h
    simp only [List.mem_cons] at this
    rcases this with h | h | h
    · exact hza h
    · exact hzb h
    · exact hzR h
  obtain ⟨V, R1, hl1, hlV, _, hcV⟩ := merge_cost
    (w := w) (w' := fun x => if x = z then w a + w b else w x) (z := z) (a := a) (b := b)
    (by simp) U1 hs1 hzU1 (by
      intro x hx
      have : x ≠ z := fun e => hzU1 (e ▸ hx)
      simp [this])
  have hRR : R1.Perm R := ((hl1.symm.trans (hp1.trans hU)).cons_inv).cons_inv
  have hV : V.leaves.Perm (z :: R) := hlV.trans (List.Perm.cons _ hRR)
  have h1 := hopt V hV
  -- split cost
  have hndT' : T'.leaves.Nodup := by
    refine hT'.nodup_iff.mpr ?_
    simp only [List.nodup_cons]; exact ⟨hzR, hRnd⟩
  have hsplit := split_cost (w := w) (w' := fun x => if x = z then w a + w b else w x)
    (z := z) (a := a) (b := b) (by simp) T' hndT' (hT'.mem_iff.mpr (by simp))
    (by intro x _ hxz; simp [hxz])
  rw [hsplit.2]
  omega

end Tree

/-- for weights whose sums are exact, the tree of `treeLoop` has minimum weighted path length
among all trees over the heap's alphabet, for the weights stored in the heap -/
theorem treeLoop_optimal : ∀ (fuel : Nat) (heap : List (Nat × Nat)) (next : Nat) (w : Nat → Nat),
    HeapOK heap next → fuel = heap.length → (∀ p ∈ heap, w p.2 = p.1) →
    ∀ T, treeLoop exactOps fuel heap next = some T →
    ∀ U : Tree, U.leaves.Perm (heap.map (·.2)) → Tree.cost w T ≤ Tree.cost w U
  | 0, heap, _, _, _, _, _, T, hT, _, _ => by simp [treeLoop] at hT
  | fuel + 1, heap, next, w, hok, hf, hw, T, hT, U, hU => by
    simp only [treeLoop] at hT
    cases e1 : popMin exactOps heap with
    | none => simp [e1] at hT
    | some ah =>
    obtain ⟨a, h1⟩ := ah
    simp only [e1] at hT
    cases e2 : popMin exactOps h1 with
    | none =>
      simp only [e2] at hT
      injection hT with hT; subst hT
      simp [Tree.cost]
    | some bh =>
      obtain ⟨b, h2⟩ := bh
      have hadd : addPush exactOps a.1 b.1 h2 = .ok (a.1 + b.1) := by simp [addPush, exactOps]
      simp only [e2, hadd, Option.map_eq_some_iff] at hT
      obtain ⟨T', hT', rfl⟩ := hT
      obtain ⟨ha, hb, hab, ha2, hb2, hl, hok'⟩ := pop2_facts hok e1 e2 (a.1 + b.1)
      have hp := pop2_perm e1 e2
      have hpm : (heap.map (·.2)).Perm (a.2 :: b.2 :: h2.map (·.2)) := by
        simpa using hp.map (·.2)
      have hamem : a ∈ heap := hp.mem_iff.mpr (by simp)
      have hbmem : b ∈ heap := hp.mem_iff.mpr (by simp)
      have hwa : w a.2 = a.1 := hw a hamem
      have hwb : w b.2 = b.1 := hw b hbmem
      have hh2 : ∀ p ∈ h2, p ∈ heap := fun p hp' => hp.mem_iff.mpr (by simp [hp'])
      -- the weights of the merged heap
      have hw' : ∀ p ∈ (a.1 + b.1, next) :: h2,
          (fun x => if x = next then w a.2 + w b.2 else w x) p.2 = p.1 := by
        intro p hp'
        rcases List.mem_cons.mp hp' with rfl | hp'
        · simp [hwa, hwb]
        · have := hok.2 p (hh2 p hp')
          have hne' : p.2 ≠ next := by omega
          simp [hne', hw p (hh2 p hp')]
      obtain ⟨hleaves, _⟩ :=
        treeLoop_spec fuel ((a.1 + b.1, next) :: h2) (next + 1) hok' (by simp; omega) T' hT'
      have hopt := treeLoop_optimal fuel ((a.1 + b.1, next) :: h2) (next + 1)
        (fun x => if x = next then w a.2 + w b.2 else w x) hok'
        (by simp; omega) hw' T' hT'
      refine Tree.optimum_split w (R := h2.map (·.2)) ?_ ?_ ?_ ?_ (by simpa using hleaves)
        (fun U' hU' => hopt U' (by simpa using hU')) U (hU.trans hpm)
      · exact hpm.nodup_iff.mp hok.1
      · intro hmem
        have : next ∈ heap.map (·.2) := hpm.mem_iff.mpr hmem
        obtain ⟨p, hp1, hp2⟩ := List.mem_map.mp this
        have := hok.2 p hp1
        omega
      · rw [hwa, hwb]
        have hb1 : b ∈ h1 := (popMin_perm e2).mem_iff.mpr (by simp)
        exact keyLe_weight (popMin_min natOrder_exact e1 b hb1)
      · intro x hx
        obtain ⟨p, hp1, rfl⟩ := List.mem_map.mp hx
        rw [hwb, hw p (hh2 p hp1)]
        exact keyLe_weight (popMin_min natOrder_exact e2 p hp1)

end CV.Huff
