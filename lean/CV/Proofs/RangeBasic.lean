import CV.Model.Range
import Mathlib.Tactic.Ring
import Mathlib.Tactic.Linarith
/-!
# Range coder: basic facts

* the configurations allowed by the static assertions (`RValid`);
* simp lemmas for the checked machine operations;
* the encoder invariant `Inv`;
* a pure (fault-free) description `encPure` of `encode_symbol` and the theorem
  `encodeCP_eq_pure`: under the invariant and for a legal `(cum, p)` the transcription of the
  Rust code returns exactly `encPure` and never faults.
-/
namespace CV.Range

/-- what `generic_static_asserts!` in queue.rs plus the trait bounds allow:
    `PRECISION > 0`, `PRECISION ≤ Probability::BITS ≤ Word::BITS`,
    `State::BITS ≥ 2·Word::BITS`, `State::BITS % Word::BITS = 0` -/
def RValid (c : Cfg) : Prop := c.Valid ∧ c.W ∣ c.S

instance (c : Cfg) : Decidable (RValid c) := by unfold RValid; exact inferInstance

theorem RValid.P_pos {c : Cfg} (h : RValid c) : 1 ≤ c.P := h.1.1
theorem RValid.P_le_W {c : Cfg} (h : RValid c) : c.P ≤ c.W := Nat.le_trans h.1.2.1 h.1.2.2.1
theorem RValid.W_pos {c : Cfg} (h : RValid c) : 1 ≤ c.W := Nat.le_trans h.P_pos h.P_le_W
theorem RValid.two_W_le {c : Cfg} (h : RValid c) : 2 * c.W ≤ c.S := h.1.2.2.2
theorem RValid.W_lt_S {c : Cfg} (h : RValid c) : c.W < c.S := by
  have := h.W_pos; have := h.two_W_le; omega
theorem RValid.P_lt_S {c : Cfg} (h : RValid c) : c.P < c.S := by
  have := h.P_le_W; have := h.W_lt_S; omega

/-- `2^S = 2^(S-W) * 2^W` -/
theorem RValid.pow_S {c : Cfg} (h : RValid c) : 2^c.S = 2^(c.S - c.W) * 2^c.W := by
  rw [← Nat.pow_add]; congr 1; have := h.W_lt_S; omega

/-- `2^(S-W) = 2^(S-2W) * 2^W` -/
theorem RValid.pow_SW {c : Cfg} (h : RValid c) : 2^(c.S - c.W) = 2^(c.S - 2 * c.W) * 2^c.W := by
  rw [← Nat.pow_add]; congr 1; have := h.two_W_le; omega

/-- `2^W = 2^(W-P) * 2^P` -/
theorem RValid.pow_W {c : Cfg} (h : RValid c) : 2^c.W = 2^(c.W - c.P) * 2^c.P := by
  rw [← Nat.pow_add]; congr 1; have := h.P_le_W; omega

/-- `2^(S-W) = 2^(S-W-P) * 2^P` -/
theorem RValid.pow_SW_P {c : Cfg} (h : RValid c) :
    2^(c.S - c.W) = 2^(c.S - c.W - c.P) * 2^c.P := by
  rw [← Nat.pow_add]; congr 1; have := h.P_le_W; have := h.two_W_le; omega

theorem two_pow_pos' (n : Nat) : 0 < 2^n := Nat.pos_of_ne_zero (by simp)

/-! ### the checked operations, when they succeed -/

theorem shl_ok {site : String} {n a k : Nat} (h : k < n) :
    shl site n a k = .ok ((a <<< k) % 2^n) := by simp [shl, h]

theorem shr_ok {site : String} {n a k : Nat} (h : k < n) :
    shr site n a k = .ok (a >>> k) := by simp [shr, h]

theorem cmul_ok {site : String} {n a b : Nat} (h : a * b < 2^n) :
    cmul site n a b = .ok (a * b) := by simp [cmul, h]

theorem cadd_ok {site : String} {n a b : Nat} (h : a + b < 2^n) :
    cadd site n a b = .ok (a + b) := by simp [cadd, h]

theorem csub_ok {site : String} {a b : Nat} (h : b ≤ a) :
    csub site a b = .ok (a - b) := by simp [csub, h]

theorem cdiv_ok {site : String} {a b : Nat} (h : b ≠ 0) :
    cdiv site a b = .ok (a / b) := by simp [cdiv, h]

theorem shl_eq_mul (a k : Nat) : a <<< k = a * 2^k := Nat.shiftLeft_eq a k
theorem shr_eq_div (a k : Nat) : a >>> k = a / 2^k := Nat.shiftRight_eq_div_pow a k

/-- `(x * b) % (U * b) = (x % U) * b` -/
theorem mul_mod_mul (x U b : Nat) : (x * b) % (U * b) = (x % U) * b :=
  Nat.mul_mod_mul_right b x U

theorem mod_two {x T : Nat} (h : x < 2 * T) : x % T = if x < T then x else x - T := by
  split
  · next h1 => exact Nat.mod_eq_of_lt h1
  · next h1 =>
    have h2 : x ≥ T := Nat.le_of_not_lt h1
    have h3 : x - T < T := by omega
    rw [Nat.mod_eq_sub_mod h2]; exact Nat.mod_eq_of_lt h3

/-! ### invariant -/

def WordsOK (c : Cfg) (l : List Nat) : Prop := ∀ w ∈ l, w < 2^c.W

theorem WordsOK.append {c : Cfg} {a b : List Nat} (ha : WordsOK c a) (hb : WordsOK c b) :
    WordsOK c (a ++ b) := by
  intro w hw
  rcases List.mem_append.mp hw with h | h
  · exact ha w h
  · exact hb w h

theorem WordsOK.nil {c : Cfg} : WordsOK c [] := by intro w hw; cases hw

theorem WordsOK.cons {c : Cfg} {a : Nat} {l : List Nat} (ha : a < 2^c.W) (hl : WordsOK c l) :
    WordsOK c (a :: l) := by
  intro w hw
  rcases List.mem_cons.mp hw with h | h
  · exact h ▸ ha
  · exact hl w h

theorem WordsOK.replicate {c : Cfg} {a n : Nat} (ha : a < 2^c.W) :
    WordsOK c (List.replicate n a) := by
  intro w hw
  rw [List.mem_replicate] at hw
  exact hw.2 ▸ ha

/-- situation part of the invariant, as a function of `(lower, range)` -/
def SitInv (c : Cfg) (lower range : Nat) : Situation → Prop
  | .normal => lower + range < 2^c.S
  | .inverted n first => 1 ≤ n ∧ first + 1 < 2^c.W ∧ 2^c.S ≤ lower + range

/-- Representation invariant of `RangeEncoder`:
    the documented `range ≥ 2^(S-W)`, registers within their types, the interval wraps iff
    the situation is `Inverted`, and the first held-back word can still absorb a carry. -/
def Inv (c : Cfg) (e : Encoder) : Prop :=
  WordsOK c e.bulk ∧ e.lower < 2^c.S ∧ 2^(c.S - c.W) ≤ e.range ∧ e.range < 2^c.S ∧
  SitInv c e.lower e.range e.situation

theorem inv_empty {c : Cfg} (h : RValid c) : Inv c (Encoder.empty c) := by
  have hS := two_pow_pos' c.S
  have : 2^(c.S - c.W) < 2^c.S := Nat.pow_lt_pow_right (by omega) (by have := h.W_lt_S; have := h.W_pos; omega)
  refine ⟨WordsOK.nil, hS, ?_, ?_, ?_⟩
  · simp only [Encoder.empty, maxState]; omega
  · simp only [Encoder.empty, maxState]; omega
  · simp only [Encoder.empty, maxState, SitInv]; omega

theorem inv_withBackend {c : Cfg} (h : RValid c) {ws : List Nat} (hw : WordsOK c ws) :
    Inv c (Encoder.withBackend c ws) := by
  have hi := inv_empty h
  exact ⟨hw, hi.2.1, hi.2.2.1, hi.2.2.2.1, hi.2.2.2.2⟩

/-- the `usize` counters have room for `k` more symbols: with `m = bulk.len() + num_inverted`,
    `Word::BITS · (m + k + 2) < 2^usize::BITS` (`+ 2`: the seal words; the factor: `num_bits`) -/
def Fits (c : Cfg) (e : Encoder) (k : Nat) : Prop :=
  c.W * (e.bulk.length + e.situation.held + k + 2) < 2^usizeBits

instance (c : Cfg) (e : Encoder) (k : Nat) : Decidable (Fits c e k) := by
  unfold Fits; exact inferInstance

theorem Fits.held_lt {c : Cfg} (hc : RValid c) {e : Encoder} {k : Nat} (h : Fits c e k) :
    e.bulk.length + e.situation.held + k + 2 < 2^usizeBits := by
  have hW := hc.W_pos
  have : 1 * (e.bulk.length + e.situation.held + k + 2)
      ≤ c.W * (e.bulk.length + e.situation.held + k + 2) := Nat.mul_le_mul_right _ hW
  unfold Fits at h
  omega

theorem Fits.mono {c : Cfg} {e : Encoder} {k j : Nat} (h : Fits c e k) (hj : j ≤ k) :
    Fits c e j := by
  unfold Fits at h ⊢
  have : c.W * (e.bulk.length + e.situation.held + j + 2)
      ≤ c.W * (e.bulk.length + e.situation.held + k + 2) := Nat.mul_le_mul_left _ (by omega)
  omega

/-! ### pure description of `encode_symbol` -/

/-- the held-back words once the carry is known -/
def heldP (c : Cfg) (n first : Nat) (carry : Bool) : List Nat :=
  if carry then (first + 1) :: List.replicate (n - 1) 0
  else first :: List.replicate (n - 1) (2^c.W - 1)

def resolveP (c : Cfg) (e : Encoder) (nl r1 : Nat) : List Nat × Situation :=
  match e.situation with
  | .normal => (e.bulk, .normal)
  | .inverted n first =>
    if (nl + r1) % 2^c.S > nl then (e.bulk ++ heldP c n first (decide (nl < e.lower)), .normal)
    else (e.bulk, .inverted n first)

def renormP (c : Cfg) (bulk : List Nat) (sit : Situation) (lower range : Nat) : Encoder :=
  if range < 2^(c.S - c.W) then
    let range2 := range * 2^c.W
    let lowerWord := lower / 2^(c.S - c.W)
    let lower2 := (lower % 2^(c.S - c.W)) * 2^c.W
    match sit with
    | .inverted n first =>
      { bulk := bulk, lower := lower2, range := range2, situation := .inverted (n + 1) first }
    | .normal =>
      if lower2 + range2 < 2^c.S then
        { bulk := bulk ++ [lowerWord], lower := lower2, range := range2, situation := .normal }
      else
        { bulk := bulk, lower := lower2, range := range2, situation := .inverted 1 lowerWord }
  else { bulk := bulk, lower := lower, range := range, situation := sit }

def encPure (c : Cfg) (e : Encoder) (cum p : Nat) : Encoder :=
  let scale := e.range / 2^c.P
  let r1 := scale * p
  let nl := (e.lower + scale * cum) % 2^c.S
  renormP c (resolveP c e nl r1).1 (resolveP c e nl r1).2 nl r1

/-- the first half of `encode_symbol` never increases `num_inverted` -/
theorem resolveP_held_le (c : Cfg) (e : Encoder) (nl r1 : Nat) :
    (resolveP c e nl r1).2.held ≤ e.situation.held := by
  unfold resolveP
  cases e.situation with
  | normal => exact Nat.le_refl _
  | inverted n first =>
    by_cases h : (nl + r1) % 2^c.S > nl
    · simp only [h, if_true, Situation.held]; exact Nat.zero_le _
    · simp only [h, if_false]; exact Nat.le_refl _

/-- basic facts about `scale = range >> P` under the invariant -/
theorem scale_facts {c : Cfg} (hc : RValid c) {range cum p : Nat}
    (hr : 2^(c.S - c.W) ≤ range) (_hr2 : range < 2^c.S) (hp : 0 < p) (hcp : cum + p ≤ 2^c.P) :
    2^(c.S - c.W - c.P) ≤ range / 2^c.P ∧
    range / 2^c.P * (cum + p) ≤ range ∧
    0 < range / 2^c.P * p := by
  have hP := two_pow_pos' c.P
  have h1 : 2^(c.S - c.W - c.P) ≤ range / 2^c.P := by
    rw [Nat.le_div_iff_mul_le hP, ← hc.pow_SW_P]; exact hr
  have h2 : range / 2^c.P * (cum + p) ≤ range := by
    calc range / 2^c.P * (cum + p) ≤ range / 2^c.P * 2^c.P := Nat.mul_le_mul_left _ hcp
      _ ≤ range := Nat.div_mul_le_self range (2^c.P)
  have h3 : 0 < range / 2^c.P := Nat.lt_of_lt_of_le (two_pow_pos' _) h1
  exact ⟨h1, h2, Nat.mul_pos h3 hp⟩

theorem heldWords_eq {c : Cfg} {n first : Nat} {carry : Bool} (hf : first + 1 < 2^c.W) :
    heldWords c n first carry = .ok (heldP c n first carry) := by
  unfold heldWords heldP
  cases carry
  · simp [maxWord]
  · simp [cadd_ok hf]

theorem wadd_eq (n a b : Nat) : wadd n a b = (a + b) % 2^n := rfl

theorem resolve_eq {c : Cfg} {e : Encoder} {nl r1 : Nat}
    (hs : ∀ n first, e.situation = .inverted n first → first + 1 < 2^c.W) :
    resolve c e nl r1 = .ok (resolveP c e nl r1) := by
  unfold resolve resolveP
  cases hsit : e.situation with
  | normal => rfl
  | inverted n first =>
    simp only [wadd_eq]
    by_cases h : (nl + r1) % 2^c.S > nl
    · simp only [h, if_true, heldWords_eq (hs n first hsit)]
    · simp only [h, if_false]

/-- `renorm` returns `renormP` whenever `0 < range`, `range * 2^W ≥ 1` is representable etc. -/
theorem renorm_eq {c : Cfg} (hc : RValid c) {bulk : List Nat} {sit : Situation} {lower range : Nat}
    (hl : lower < 2^c.S) (hr0 : 0 < range) (hn : sit.held + 1 < 2^usizeBits) :
    renorm c bulk sit lower range = .ok (renormP c bulk sit lower range) := by
  have hWS := hc.W_lt_S
  have hW := hc.W_pos
  have hT := hc.pow_S
  have hU := two_pow_pos' (c.S - c.W)
  have hb := two_pow_pos' c.W
  unfold renorm renormP
  rw [shl_ok (show c.S - c.W < c.S by omega)]
  simp only [shl_eq_mul, Nat.one_mul]
  rw [Nat.mod_eq_of_lt (Nat.pow_lt_pow_right (by omega) (by omega))]
  by_cases hlt : range < 2^(c.S - c.W)
  · simp only [hlt, if_true]
    rw [shl_ok hWS, shr_ok (show c.S - c.W < c.S by omega), shl_ok hWS]
    simp only [shl_eq_mul, shr_eq_div]
    have hr2 : range * 2^c.W < 2^c.S := by
      rw [hT]; exact Nat.mul_lt_mul_of_pos_right hlt hb
    have hr2' : (range * 2^c.W) % 2^c.S = range * 2^c.W := Nat.mod_eq_of_lt hr2
    have hne : range * 2^c.W ≠ 0 := Nat.ne_of_gt (Nat.mul_pos hr0 hb)
    have hlow : (lower * 2^c.W) % 2^c.S = (lower % 2^(c.S - c.W)) * 2^c.W := by
      rw [hT]; exact mul_mod_mul _ _ _
    have hword : narrow c.W (lower / 2^(c.S - c.W)) = lower / 2^(c.S - c.W) := by
      unfold narrow
      apply Nat.mod_eq_of_lt
      rw [Nat.div_lt_iff_lt_mul hU, Nat.mul_comm, ← hT]; exact hl
    rw [hr2', hlow, hword]
    simp only [hne, if_false]
    cases sit with
    | inverted n first =>
      simp only [Situation.held] at hn
      simp only [wadd_eq, Nat.mod_eq_of_lt hn]
      have : n + 1 ≠ 0 := by omega
      simp only [this, if_false]
    | normal =>
      simp only [wadd_eq]
      have hl2 : (lower % 2^(c.S - c.W)) * 2^c.W < 2^c.S := by
        rw [hT]; exact Nat.mul_lt_mul_of_pos_right (Nat.mod_lt _ hU) hb
      by_cases hw : (lower % 2^(c.S - c.W)) * 2^c.W + range * 2^c.W < 2^c.S
      · have : ((lower % 2^(c.S - c.W)) * 2^c.W + range * 2^c.W) % 2^c.S
            > (lower % 2^(c.S - c.W)) * 2^c.W := by
          rw [Nat.mod_eq_of_lt hw]; omega
        simp only [this, hw, if_true]
      · have h2 : (lower % 2^(c.S - c.W)) * 2^c.W + range * 2^c.W < 2 * 2^c.S := by omega
        have : ¬ (((lower % 2^(c.S - c.W)) * 2^c.W + range * 2^c.W) % 2^c.S
            > (lower % 2^(c.S - c.W)) * 2^c.W) := by
          have hsub : ((lower % 2^(c.S - c.W)) * 2^c.W + range * 2^c.W) % 2^c.S
              = (lower % 2^(c.S - c.W)) * 2^c.W + range * 2^c.W - 2^c.S := by
            rw [Nat.mod_eq_sub_mod (by omega)]
            exact Nat.mod_eq_of_lt (by omega)
          rw [hsub]; omega
        simp only [this, hw, if_false]
  · simp only [hlt, if_false]

/-- Under the invariant, for every legal `(cum, p)`, the transcribed `encode_symbol` does not
    fault and computes `encPure`. -/
theorem encodeCP_eq_pure {c : Cfg} (hc : RValid c) {e : Encoder} (hI : Inv c e)
    (hf : Fits c e 1) {cum p : Nat}
    (hp : 0 < p) (hcp : cum + p ≤ 2^c.P) :
    encodeCP c e cum p = .ok (encPure c e cum p) := by
  obtain ⟨_, hl, hr, hr2, hs⟩ := hI
  obtain ⟨_, hsc2, hsc3⟩ := scale_facts hc hr hr2 hp hcp
  have hmulp : e.range / 2^c.P * p < 2^c.S := by
    have : e.range / 2^c.P * p ≤ e.range / 2^c.P * (cum + p) := Nat.mul_le_mul_left _ (by omega)
    omega
  have hmulc : e.range / 2^c.P * cum < 2^c.S := by
    have : e.range / 2^c.P * cum ≤ e.range / 2^c.P * (cum + p) := Nat.mul_le_mul_left _ (by omega)
    omega
  unfold encodeCP encPure
  rw [shr_ok hc.P_lt_S]
  simp only [shr_eq_div]
  rw [cmul_ok hmulp, cmul_ok hmulc]
  simp only [Nat.ne_of_gt hsc3, if_false, wadd_eq]
  rw [resolve_eq (by
    intro n first h
    rw [h] at hs
    exact hs.2.1)]
  simp only []
  rw [renorm_eq hc (Nat.mod_lt _ (two_pow_pos' _)) hsc3]
  have hfl := hf.held_lt hc
  have := resolveP_held_le c e ((e.lower + e.range / 2^c.P * cum) % 2^c.S) (e.range / 2^c.P * p)
  omega

end CV.Range

namespace CV.Range
/-- decidable form of `WordsOK` for concrete lists -/
theorem wordsOK_of_all {c : Cfg} {l : List Nat}
    (h : l.all (fun w => decide (w < 2^c.W)) = true) : WordsOK c l := by
  intro w hw
  have := List.all_eq_true.mp h w hw
  simpa using this
end CV.Range
