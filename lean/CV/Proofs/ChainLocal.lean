import CV.Proofs.ChainStep
/-!
# Chain coder: decoding is local (C14)

`quantiles c n hc comp` is the list of the first `n` chunks that the bit buffer
`(hc, comp)` hands out.  It is defined from `takeChunk` – the compressed half of
`decode_symbol` – alone: no entropy model and no remainders state enter.

`locality`: decoding a list of symbols with models `ms` yields exactly
`zipWith (fun q m => (m.dec q).1) (quantiles …) ms`, and reports `OutOfCompressedData` exactly
when `quantiles` runs out – nothing else ever feeds back.
-/
namespace CV.Chain

/-- the first `n` chunks of the bit buffer `(hc, comp)`; shorter if the data runs out -/
def quantiles (c : Cfg) : Nat → Nat → List Nat → List Nat
  | 0, _, _ => []
  | n + 1, hc, comp =>
    match takeChunk c hc comp with
    | .ok (word, hc', comp') => quantileOf c word :: quantiles c n hc' comp'
    | .error _ => []

theorem quantiles_length_le (c : Cfg) : ∀ n hc comp, (quantiles c n hc comp).length ≤ n := by
  intro n
  induction n with
  | zero => intro hc comp; simp [quantiles]
  | succ n ih =>
    intro hc comp
    simp only [quantiles]
    cases takeChunk c hc comp with
    | error e => simp
    | ok r =>
      obtain ⟨word, hc', comp'⟩ := r
      simp only [List.length_cons]
      have := ih hc' comp'
      omega

/-- **C14.** -/
theorem locality {Sym : Type} {c : Cfg} (hv : CValid c) :
    ∀ (ms : List (Model Sym)) (x : Coder), (∀ m ∈ ms, m.WellFormed c.P) → Inv c x →
      (decodeSymbols c ms x).1 =
        List.zipWith (fun q m => (m.dec q).1)
          (quantiles c ms.length x.heads.compressed x.compressed) ms ∧
      ((decodeSymbols c ms x).2.2 = none ↔
        (quantiles c ms.length x.heads.compressed x.compressed).length = ms.length) ∧
      ((decodeSymbols c ms x).2.2 = none ∨ (decodeSymbols c ms x).2.2 = some .outOfData) ∧
      Inv c (decodeSymbols c ms x).2.1 := by
  intro ms
  induction ms with
  | nil => intro x _ hx; simp [decodeSymbols, quantiles, hx]
  | cons m ms ih =>
    intro x hms hx
    have hm := hms m (List.mem_cons_self)
    have hms' : ∀ m' ∈ ms, m'.WellFormed c.P := fun m' h => hms m' (List.mem_cons_of_mem _ h)
    rcases decode_spec hv hm hx with ⟨herr, _, _, htk⟩ | ⟨s, y, word, hdec, hy, htk, hs, _⟩
    · simp [decodeSymbols, herr, quantiles, htk, hx]
    · obtain ⟨ih1, ih2, ih3, ih4⟩ := ih y hms' hy
      simp only [decodeSymbols, hdec, List.length_cons, quantiles, htk, List.zipWith_cons_cons]
      refine ⟨?_, ?_, ih3, ih4⟩
      · rw [ih1, hs]
      · rw [ih2]; simp

/-- the symbol at position `i` -/
theorem locality_get {Sym : Type} {c : Cfg} (hv : CValid c) (ms : List (Model Sym)) (x : Coder)
    (hms : ∀ m ∈ ms, m.WellFormed c.P) (hx : Inv c x) (i : Nat) :
    (decodeSymbols c ms x).1[i]? =
      match (quantiles c ms.length x.heads.compressed x.compressed)[i]?, ms[i]? with
      | some q, some m => some (m.dec q).1
      | _, _ => none := by
  rw [(locality hv ms x hms hx).1, List.getElem?_zipWith]
  cases (quantiles c ms.length x.heads.compressed x.compressed)[i]? <;> cases ms[i]? <;> rfl

/-- the number of symbols decoded before the data ran out -/
theorem locality_length {Sym : Type} {c : Cfg} (hv : CValid c) (ms : List (Model Sym)) (x : Coder)
    (hms : ∀ m ∈ ms, m.WellFormed c.P) (hx : Inv c x) :
    (decodeSymbols c ms x).1.length =
      (quantiles c ms.length x.heads.compressed x.compressed).length := by
  rw [(locality hv ms x hms hx).1, List.length_zipWith]
  have := quantiles_length_le c ms.length x.heads.compressed x.compressed
  omega

/-- Replacing models (same number of them) on the same data, or changing the data such that
    the chunk lists have the same length: symbols at every position where both the chunk and
    the model agree are equal, the number of decoded symbols is the same and so is the error
    (whether and when the coder runs out of data). -/
theorem locality_compare {Sym : Type} {c : Cfg} (hv : CValid c)
    (ms ms' : List (Model Sym)) (x x' : Coder)
    (hms : ∀ m ∈ ms, m.WellFormed c.P) (hms' : ∀ m ∈ ms', m.WellFormed c.P)
    (hx : Inv c x) (hx' : Inv c x') (hlen : ms.length = ms'.length)
    (hq : (quantiles c ms.length x.heads.compressed x.compressed).length =
          (quantiles c ms.length x'.heads.compressed x'.compressed).length) :
    (decodeSymbols c ms x).1.length = (decodeSymbols c ms' x').1.length ∧
    (decodeSymbols c ms x).2.2 = (decodeSymbols c ms' x').2.2 ∧
    ∀ i : Nat, ms[i]? = ms'[i]? →
      (quantiles c ms.length x.heads.compressed x.compressed)[i]? =
        (quantiles c ms.length x'.heads.compressed x'.compressed)[i]? →
      (decodeSymbols c ms x).1[i]? = (decodeSymbols c ms' x').1[i]? := by
  refine ⟨?_, ?_, ?_⟩
  · rw [locality_length hv ms x hms hx, locality_length hv ms' x' hms' hx', ← hlen, hq]
  · obtain ⟨_, h2, h3, _⟩ := locality hv ms x hms hx
    obtain ⟨_, h2', h3', _⟩ := locality hv ms' x' hms' hx'
    rw [← hlen] at h2'
    by_cases hfull : (quantiles c ms.length x.heads.compressed x.compressed).length = ms.length
    · rw [h2.mpr hfull, h2'.mpr (by rw [← hq, hfull, hlen])]
    · have hn : (decodeSymbols c ms x).2.2 ≠ none := fun h => hfull (h2.mp h)
      have hn' : (decodeSymbols c ms' x').2.2 ≠ none := fun h => hfull (by rw [hq, h2'.mp h, hlen])
      rcases h3 with h | h
      · exact absurd h hn
      · rcases h3' with h' | h'
        · exact absurd h' hn'
        · rw [h, h']
  · intro i hmi hqi
    rw [locality_get hv ms x hms hx, locality_get hv ms' x' hms' hx', ← hlen, hmi, hqi]

/-- when `PRECISION == Word::BITS` the chunks are simply the words of the compressed stack -/
theorem quantiles_word_aligned {c : Cfg} (hv : CValid c) (hPW : c.P = c.W) :
    ∀ (n hc : Nat) (comp : List Nat), Words c.W comp →
      quantiles c n hc comp = comp.take n := by
  intro n
  induction n with
  | zero => intro hc comp _; simp [quantiles]
  | succ n ih =>
    intro hc comp hw
    cases comp with
    | nil => simp [quantiles, takeChunk, hPW]
    | cons w rest =>
      have hq := (quantileOf_lt hv hw.head).2
      simp only [hPW, if_true] at hq
      simp [quantiles, takeChunk, hPW, hq, ih hc rest hw.tail]

end CV.Chain
