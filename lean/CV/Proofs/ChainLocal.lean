import CV.Proofs.ChainStep
/-!
# Chain coder: decoding is local (C14)

`quantiles c n hc comp` is the list of the first `n` chunks that the bit buffer
`(hc, comp)` hands out.  It is defined from `takeChunk` – the compressed half of
`decode_symbol` – alone: no entropy model and no remainders state enter.

`locality`: decoding a list of symbols with models `ms` yields exactly
`zipWith (fun q m => (m.dec q).1) (quantiles …) ms`, and reports `OutOfCompressedData` exactly
when `quantiles` runs out – nothing else ever feeds back.
-/
namespace CV.Chain

/-- the first `n` chunks of the bit buffer `(hc, comp)`; shorter if the data runs out -/
def quantiles (c : Cfg) : Nat → Nat → List Nat → List Nat
  | 0, _, _ => []
  | n + 1, hc, comp =>
    match takeChunk c hc comp with
    | .ok (word, hc', comp') => quantileOf c word :: quantiles c n hc' comp'
    | .error _ => []

theorem quantiles_length_le (c : Cfg) : ∀ n hc comp, (quantiles c n hc comp).length ≤ n := by
  intro n
  induction n with
  | zero => intro hc comp; simp [quantiles]
  | succ n ih =>
    intro hc comp
    simp only [quantiles]
    cases takeChunk c hc comp with
    | error e => simp
    | ok r =>
      obtain ⟨word, hc', comp'⟩ := r
      simp only [List.length_cons]
      have := ih hc' comp'
      omega

/-- **C14.** -/
theorem locality {Sym : Type} {c : Cfg} (hv : CValid c) :
    ∀ (ms : List (Model Sym)) (x : Coder), (∀ m ∈ ms, m.WellFormed c.P) → Inv c x →
      (decodeSymbols c ms x).1 =
        List.zipWith (fun q m => (m.dec q).1)
          (quantiles c ms.length x.heads.compressed x.compressed) ms ∧
      ((decodeSymbols c ms x).2.2 = none ↔
        (quantiles c ms.length x.heads.compressed x.compressed).length = ms.length) ∧
      ((decodeSymbols c ms x).2.2 = none ∨ (decodeSymbols c ms x).2.2 = some .outOfData) ∧
      Inv c (decodeSymbols c ms x).2.1 := by
  intro ms
  induction ms with
  | nil => intro x _ hx; simp [decodeSymbols, quantiles, hx]
  | cons m ms ih =>
    intro x hms hx
    have hm := hms m (List.mem_cons_self)
    have hms' : ∀ m' ∈ ms, m'.WellFormed c.P := fun m' h => hms m' (List.mem_cons_of_mem _ h)
    rcases decode_spec hv hm hx with ⟨herr, _, _, htk⟩ | ⟨s, y, word, hdec, hy, htk, hs, _⟩
    · simp [decodeSymbols, herr, quantiles, htk, hx]
    · obtain ⟨ih1, ih2, ih3, ih4⟩ := ih y hms' hy
      simp only [decodeSymbols, hdec, List.length_cons, quantiles, htk, List.zipWith_cons_cons]
      refine ⟨?_, ?_, ih3, ih4⟩
      · rw [ih1, hs]
      · rw [ih2]; simp

/-- the symbol at position `i` -/
theorem locality_get {Sym : Type} {c : Cfg} (hv : CValid c) (ms : List (Model Sym)) (x : Coder)
    (hms : ∀ m ∈ ms, m.WellFormed c.P) (hx : Inv c x) (i : Nat) :
    (decodeSymbols c ms x).1[i]? =
      match (quantiles c ms.length x.heads.compressed x.compressed)[i]?, ms[i]? with
      | some q, some m => some (m.dec q).1
      | _, _ => none := by
  rw [(locality hv ms x hms hx).1, List.getElem?_zipWith]
  cases (quantiles c ms.length x.heads.compressed x.compressed)[i]? <;> cases ms[i]? <;> rfl

/-- the number of symbols decoded before the data ran out -/
theorem locality_length {Sym : Type} {c : Cfg} (hv : CValid c) (ms : List (Model Sym)) (x : Coder)
    (hms : ∀ m ∈ ms, m.WellFormed c.P) (hx : Inv c x) :
    (decodeSymbols c ms x).1.length =
      (quantiles c ms.length x.heads.compressed x.compressed).length := by
  rw [(locality hv ms x hms hx).1, List.length_zipWith]
  have := quantiles_length_le c ms.length x.heads.compressed x.compressed
  omega

/-- Replacing models (same number of them) on the same data, or changing the data such that
    the chunk lists have the same length: symbols at every position where both the chunk and
    the model agree are equal, the number of decoded symbols is the same and so is the error
    (whether and when the coder runs out of data). -/
theorem locality_compare {Sym : Type} {c : Cfg} (hv : CValid c)
    (ms ms' : List (Model Sym)) (x x' : Coder)
    (hms : ∀ m ∈ ms, m.WellFormed c.P) (hms' : ∀ m ∈ ms', m.WellFormed c.P)
    (hx : Inv c x) (hx' : Inv c x') (hlen : ms.length = ms'.length)
    (hq : (quantiles c ms.length x.heads.compressed x.compressed).length =
          (quantiles c ms.length x'.heads.compressed x'.compressed).length) :
    (decodeSymbols c ms x).1.length = (decodeSymbols c ms' x').1.length ∧
    (decodeSymbols c ms x).2.2 = (decodeSymbols c ms' x').2.2 ∧
    ∀ i : Nat, ms[i]? = ms'[i]? →
      (quantiles c ms.length x.heads.compressed x.compressed)[i]? =
        (quantiles c ms.length x'.heads.compressed x'.compressed)[i]? →
      (decodeSymbols c ms x).1[i]? = (decodeSymbols c ms' x').1[i]? := by
  refine ⟨?_, ?_, ?_⟩
  · rw [locality_length hv ms x hms hx, locality_length hv ms' x' hms' hx', ← hlen, hq]
  · obtain ⟨_, h2, h3, _⟩ := locality hv ms x hms hx
    obtain ⟨_, h2', h3', _⟩ := locality hv ms' x' hms' hx'
    rw [← hlen] at h2'
    by_cases hfull : (quantiles c ms.length x.heads.compressed x.compressed).length = ms.length
    · rw [h2.mpr hfull, h2'.mpr (by rw [← hq, hfull, hlen])]
    · have hn : (decodeSymbols c ms x).2.2 ≠ none := fun h => hfull (h2.mp h)
      have hn' : (decodeSymbols c ms' x').2.2 ≠ none := fun h => hfull (by rw [hq, h2'.mp h, hlen])
      rcases h3 with h | h
      · exact absurd h hn
      · rcases h3' with h' | h'
        · exact absurd h' hn'
        · rw [h, h']
  · intro i hmi hqi
    rw [locality_get hv ms x hms hx, locality_get hv ms' x' hms' hx', ← hlen, hmi, hqi]

/-! ## whether and when the data runs out does not depend on the contents of the data -/

/-- two bit buffers hold the same number of leftover bits -/
def SameShape (a b : Nat) : Prop := ∀ k, a < 2^k ↔ b < 2^k

theorem SameShape.refl (a : Nat) : SameShape a a := fun _ => Iff.rfl

/-- `a * 2^m + r < 2^k ↔ a < 2^(k-m)` for `r < 2^m`, `m ≤ k` -/
theorem shifted_lt_iff {a r m k : Nat} (hr : r < 2^m) (hmk : m ≤ k) :
    a * 2^m + r < 2^k ↔ a < 2^(k - m) := by
  rw [pow_split hmk]
  constructor
  · intro h
    rcases Nat.lt_or_ge a (2^(k - m)) with h' | h'
    · exact h'
    · have : 2^(k - m) * 2^m ≤ a * 2^m := Nat.mul_le_mul_right _ h'
      omega
  · intro h
    have h3 : (a + 1) * 2^m ≤ 2^(k - m) * 2^m := Nat.mul_le_mul_right _ h
    have h4 : (a + 1) * 2^m = a * 2^m + 2^m := by rw [Nat.add_mul, Nat.one_mul]
    omega

/-- One step of the bit buffer on two buffers of the same shape over stacks of the same height:
    both fail or both succeed, and the shapes / heights agree again. -/
theorem takeChunk_shape {c : Cfg} (hv : CValid c) {hc hc' : Nat} {comp comp' : List Nat}
    (h1 : 1 ≤ hc) (h2 : hc < 2^c.W) (h1' : 1 ≤ hc') (h2' : hc' < 2^c.W)
    (hw : Words c.W comp) (hw' : Words c.W comp')
    (hs : SameShape hc hc') (hl : comp.length = comp'.length) :
    (takeChunk c hc comp = .error .outOfData ∧ takeChunk c hc' comp' = .error .outOfData) ∨
    ∃ w a r w' a' r', takeChunk c hc comp = .ok (w, a, r) ∧ takeChunk c hc' comp' = .ok (w', a', r') ∧
      1 ≤ a ∧ a < 2^c.W ∧ 1 ≤ a' ∧ a' < 2^c.W ∧ Words c.W r ∧ Words c.W r' ∧
      SameShape a a' ∧ r.length = r'.length := by
  obtain ⟨hP1, hPB, hBW, hS⟩ := hv
  have hPW : c.P ≤ c.W := by omega
  by_cases hEq : c.P = c.W
  · cases comp with
    | nil =>
      cases comp' with
      | nil => left; simp [takeChunk, hEq]
      | cons _ _ => simp at hl
    | cons w r =>
      cases comp' with
      | nil => simp at hl
      | cons w' r' =>
        right
        refine ⟨w, hc, r, w', hc', r', by simp [takeChunk, hEq], by simp [takeChunk, hEq],
          h1, h2, h1', h2', hw.tail, hw'.tail, hs, by simpa using hl⟩
  · have hlt : c.P < c.W := by omega
    have e1 : shlT c.W 1 c.P = 2^c.P := shlT_one hlt
    have hA : 0 < 2^c.P := pow_pos2 _
    have hB : 0 < 2^(c.W - c.P) := pow_pos2 _
    have hsplit : 2^c.W = 2^(c.W - c.P) * 2^c.P := pow_split hPW
    by_cases hlow : hc < 2^c.P
    · have hlow' : hc' < 2^c.P := (hs c.P).mp hlow
      cases comp with
      | nil =>
        cases comp' with
        | nil => left; simp [takeChunk, hEq, e1, hlow, hlow']
        | cons _ _ => simp at hl
      | cons w r =>
        cases comp' with
        | nil => simp at hl
        | cons w' r' =>
          right
          have step : ∀ (x wd : Nat), 1 ≤ x → x < 2^c.P → wd < 2^c.W →
              wd / 2^c.P < 2^(c.W - c.P) ∧
              shlT c.W x (c.W - c.P) ||| (wd >>> c.P) = x * 2^(c.W - c.P) + wd / 2^c.P ∧
              2^(c.W - c.P) ≤ x * 2^(c.W - c.P) + wd / 2^c.P ∧
              x * 2^(c.W - c.P) + wd / 2^c.P < 2^c.W := by
            intro x wd hx1 hx2 hwd
            have hdiv : wd / 2^c.P < 2^(c.W - c.P) := by
              apply Nat.div_lt_of_lt_mul; rw [Nat.mul_comm, ← hsplit]; exact hwd
            have hnt : x * 2^(c.W - c.P) < 2^c.W := by
              rw [pow_split' hPW]; exact Nat.mul_lt_mul_of_pos_right hx2 hB
            refine ⟨hdiv, by rw [shlT_of_lt hnt, shr_eq, or_eq_add hdiv], ?_, ?_⟩
            · have : 1 * 2^(c.W - c.P) ≤ x * 2^(c.W - c.P) := Nat.mul_le_mul_right _ hx1
              rw [Nat.one_mul] at this
              exact Nat.le_trans this (Nat.le_add_right _ _)
            · exact (shifted_lt_iff hdiv (by omega)).mpr (by
                have : c.W - (c.W - c.P) = c.P := by omega
                rw [this]; exact hx2)
          obtain ⟨hd, ev, hge, hlt2⟩ := step hc w h1 hlow hw.head
          obtain ⟨hd', ev', hge', hlt2'⟩ := step hc' w' h1' hlow' hw'.head
          have hne : hc * 2^(c.W - c.P) + w / 2^c.P ≠ 0 := by omega
          have hne' : hc' * 2^(c.W - c.P) + w' / 2^c.P ≠ 0 := by omega
          refine ⟨w, _, r, w', _, r', ?_, ?_, by omega, hlt2, by omega, hlt2', hw.tail, hw'.tail, ?_,
            by simpa using hl⟩
          · unfold takeChunk
            rw [if_pos (Or.inr (e1 ▸ hlow))]
            simp only [ne_eq, hEq, not_false_eq_true, if_true, ev]
            rw [if_neg hne]
          · unfold takeChunk
            rw [if_pos (Or.inr (e1 ▸ hlow'))]
            simp only [ne_eq, hEq, not_false_eq_true, if_true, ev']
            rw [if_neg hne']
          · intro k
            by_cases hk : c.W - c.P ≤ k
            · rw [shifted_lt_iff hd hk, shifted_lt_iff hd' hk]; exact hs _
            · have : 2^k < 2^(c.W - c.P) := pow_lt2 (by omega)
              constructor <;> intro h <;> omega
    · have hlow' : ¬ hc' < 2^c.P := fun h => hlow ((hs c.P).mpr h)
      right
      have step : ∀ (x : Nat), ¬ x < 2^c.P → x < 2^c.W →
          1 ≤ x / 2^c.P ∧ x / 2^c.P < 2^c.W := by
        intro x hx1 hx2
        refine ⟨(Nat.one_le_div_iff hA).mpr (by omega), ?_⟩
        exact Nat.lt_of_le_of_lt (Nat.div_le_self _ _) hx2
      obtain ⟨ha1, ha2⟩ := step hc hlow h2
      obtain ⟨ha1', ha2'⟩ := step hc' hlow' h2'
      have hne : hc / 2^c.P ≠ 0 := by omega
      have hne' : hc' / 2^c.P ≠ 0 := by omega
      refine ⟨hc, _, comp, hc', _, comp', ?_, ?_, ha1, ha2, ha1', ha2', hw, hw', ?_, hl⟩
      · simp [takeChunk, hEq, e1, hlow, shr_eq, hne]
      · simp [takeChunk, hEq, e1, hlow', shr_eq, hne']
      · intro k
        rw [Nat.div_lt_iff_lt_mul hA, Nat.div_lt_iff_lt_mul hA, ← Nat.pow_add]
        exact hs _

/-- **Whether and when the coder runs out of data depends only on the amount of data**, not on
    its contents: bit buffers of the same shape over stacks of the same height hand out the
    same number of chunks. -/
theorem quantiles_length_shape {c : Cfg} (hv : CValid c) :
    ∀ (n hc hc' : Nat) (comp comp' : List Nat),
      1 ≤ hc → hc < 2^c.W → 1 ≤ hc' → hc' < 2^c.W → Words c.W comp → Words c.W comp' →
      SameShape hc hc' → comp.length = comp'.length →
      (quantiles c n hc comp).length = (quantiles c n hc' comp').length := by
  intro n
  induction n with
  | zero => intros; simp [quantiles]
  | succ n ih =>
    intro hc hc' comp comp' h1 h2 h1' h2' hw hw' hs hl
    rcases takeChunk_shape hv h1 h2 h1' h2' hw hw' hs hl with
      ⟨he, he'⟩ | ⟨w, a, r, w', a', r', ht, ht', ha1, ha2, ha1', ha2', hr, hr', hs2, hl2⟩
    · simp [quantiles, he, he']
    · simp only [quantiles, ht, ht', List.length_cons]
      rw [ih a a' r r' ha1 ha2 ha1' ha2' hr hr' hs2 hl2]

/-- when `PRECISION == Word::BITS` the chunks are simply the words of the compressed stack -/
theorem quantiles_word_aligned {c : Cfg} (hv : CValid c) (hPW : c.P = c.W) :
    ∀ (n hc : Nat) (comp : List Nat), Words c.W comp →
      quantiles c n hc comp = comp.take n := by
  intro n
  induction n with
  | zero => intro hc comp _; simp [quantiles]
  | succ n ih =>
    intro hc comp hw
    cases comp with
    | nil => simp [quantiles, takeChunk, hPW]
    | cons w rest =>
      have hq := (quantileOf_lt hv hw.head).2
      simp only [hPW, if_true] at hq
      simp [quantiles, takeChunk, hPW, hq, ih hc rest hw.tail]

end CV.Chain
