import Mathlib.Analysis.SpecialFunctions.Log.Base
import Mathlib.Tactic.Linarith
import Mathlib.Tactic.Positivity
import Mathlib.Tactic.NormNum
/-!
# From a multiplicative size bound on naturals to the logarithmic bound (shared by ANS and range coder)

A coded symbol is summarised by `(p, P, k)`: its probability in quanta, the precision, and
`k = StateBits - WordBits - P`.
-/
namespace CV.LogBound
open Real

/-- products appearing in the multiplicative bound -/
def prodP : List (ℕ × ℕ × ℕ) → ℕ
  | [] => 1
  | e :: l => e.1 * prodP l
def prodK : List (ℕ × ℕ × ℕ) → ℕ
  | [] => 1
  | e :: l => 2^e.2.2 * prodK l
def prodPrec : List (ℕ × ℕ × ℕ) → ℕ
  | [] => 1
  | e :: l => 2^e.2.1 * prodPrec l
def prodK1 : List (ℕ × ℕ × ℕ) → ℕ
  | [] => 1
  | e :: l => (2^e.2.2 + 1) * prodK1 l

/-- total information content `Σ log2(2^P / p)` in bits -/
noncomputable def info : List (ℕ × ℕ × ℕ) → ℝ
  | [] => 0
  | e :: l => ((e.2.1 : ℝ) - logb 2 e.1) + info l
/-- total rounding term `Σ log2(1 + 2^-k)` -/
noncomputable def rounding : List (ℕ × ℕ × ℕ) → ℝ
  | [] => 0
  | e :: l => logb 2 (1 + (2 : ℝ)^(-(e.2.2 : ℤ))) + rounding l

theorem logb_two_pow (n : ℕ) : logb 2 ((2 : ℝ)^n) = n := by
  rw [logb_pow]; simp

theorem log_prods (l : List (ℕ × ℕ × ℕ)) (hp : ∀ e ∈ l, 0 < e.1) :
    logb 2 (prodPrec l) + logb 2 (prodK1 l) - logb 2 (prodP l) - logb 2 (prodK l)
      = info l + rounding l := by
  induction l with
  | nil => simp [prodPrec, prodK1, prodP, prodK, info, rounding]
  | cons e l ih =>
    obtain ⟨p, P, k⟩ := e
    have hp0 : 0 < p := hp (p, P, k) List.mem_cons_self
    have ih' := ih (fun e he => hp e (List.mem_cons_of_mem _ he))
    have hposP : ∀ l : List (ℕ × ℕ × ℕ), (∀ e ∈ l, 0 < e.1) → 0 < prodP l := by
      intro l; induction l with
      | nil => intro _; simp [prodP]
      | cons e l ih2 =>
        intro h; obtain ⟨p', P', k'⟩ := e
        exact Nat.mul_pos (h _ List.mem_cons_self) (ih2 (fun e he => h e (List.mem_cons_of_mem _ he)))
    have hposK : ∀ l : List (ℕ × ℕ × ℕ), 0 < prodK l := by
      intro l; induction l with
      | nil => simp [prodK]
      | cons e l ih2 => obtain ⟨p', P', k'⟩ := e; exact Nat.mul_pos (Nat.two_pow_pos _) ih2
    have hposPrec : ∀ l : List (ℕ × ℕ × ℕ), 0 < prodPrec l := by
      intro l; induction l with
      | nil => simp [prodPrec]
      | cons e l ih2 => obtain ⟨p', P', k'⟩ := e; exact Nat.mul_pos (Nat.two_pow_pos _) ih2
    have hposK1 : ∀ l : List (ℕ × ℕ × ℕ), 0 < prodK1 l := by
      intro l; induction l with
      | nil => simp [prodK1]
      | cons e l ih2 => obtain ⟨p', P', k'⟩ := e; exact Nat.mul_pos (by positivity) ih2
    have h1 : (0 : ℝ) < prodP l := by exact_mod_cast hposP l (fun e he => hp e (List.mem_cons_of_mem _ he))
    have h2 : (0 : ℝ) < prodK l := by exact_mod_cast hposK l
    have h3 : (0 : ℝ) < prodPrec l := by exact_mod_cast hposPrec l
    have h4 : (0 : ℝ) < prodK1 l := by exact_mod_cast hposK1 l
    have hpr : (0 : ℝ) < p := by exact_mod_cast hp0
    have h2k : (0 : ℝ) < (2 : ℝ)^k := by positivity
    simp only [prodPrec, prodK1, prodP, prodK, info, rounding, Nat.cast_mul, Nat.cast_pow,
      Nat.cast_ofNat, Nat.cast_add, Nat.cast_one]
    rw [logb_mul (by positivity) (ne_of_gt h3), logb_mul (by positivity) (ne_of_gt h4),
      logb_mul (ne_of_gt hpr) (ne_of_gt h1), logb_mul (ne_of_gt h2k) (ne_of_gt h2),
      logb_two_pow, logb_two_pow]
    have hround : logb 2 (1 + (2 : ℝ)^(-(k : ℤ))) = logb 2 ((2 : ℝ)^k + 1) - k := by
      have : (1 + (2 : ℝ)^(-(k : ℤ))) = ((2 : ℝ)^k + 1) / (2 : ℝ)^k := by
        rw [zpow_neg, zpow_natCast]; field_simp
      rw [this, logb_div (by positivity) (ne_of_gt h2k), logb_two_pow]
    rw [hround]
    linarith

/-- **Multiplicative ⇒ logarithmic.** -/
theorem log_bound (N C : ℕ) (l : List (ℕ × ℕ × ℕ)) (hp : ∀ e ∈ l, 0 < e.1) (hN : 0 < N) (hC : 0 < C)
    (h : N * prodP l * prodK l ≤ C * prodPrec l * prodK1 l) :
    logb 2 N ≤ logb 2 C + info l + rounding l := by
  have hposP : ∀ l : List (ℕ × ℕ × ℕ), (∀ e ∈ l, 0 < e.1) → 0 < prodP l := by
    intro l; induction l with
    | nil => intro _; simp [prodP]
    | cons e l ih2 =>
      intro h; obtain ⟨p', P', k'⟩ := e
      exact Nat.mul_pos (h _ List.mem_cons_self) (ih2 (fun e he => h e (List.mem_cons_of_mem _ he)))
  have hposK : ∀ l : List (ℕ × ℕ × ℕ), 0 < prodK l := by
    intro l; induction l with
    | nil => simp [prodK]
    | cons e l ih2 => obtain ⟨p', P', k'⟩ := e; exact Nat.mul_pos (Nat.two_pow_pos _) ih2
  have hposPrec : ∀ l : List (ℕ × ℕ × ℕ), 0 < prodPrec l := by
    intro l; induction l with
    | nil => simp [prodPrec]
    | cons e l ih2 => obtain ⟨p', P', k'⟩ := e; exact Nat.mul_pos (Nat.two_pow_pos _) ih2
  have hposK1 : ∀ l : List (ℕ × ℕ × ℕ), 0 < prodK1 l := by
    intro l; induction l with
    | nil => simp [prodK1]
    | cons e l ih2 => obtain ⟨p', P', k'⟩ := e; exact Nat.mul_pos (by positivity) ih2
  have h1 : (0 : ℝ) < prodP l := by exact_mod_cast hposP l hp
  have h2 : (0 : ℝ) < prodK l := by exact_mod_cast hposK l
  have h3 : (0 : ℝ) < prodPrec l := by exact_mod_cast hposPrec l
  have h4 : (0 : ℝ) < prodK1 l := by exact_mod_cast hposK1 l
  have hNr : (0 : ℝ) < N := by exact_mod_cast hN
  have hCr : (0 : ℝ) < C := by exact_mod_cast hC
  have hr : (N : ℝ) * prodP l * prodK l ≤ (C : ℝ) * prodPrec l * prodK1 l := by exact_mod_cast h
  have hlog := logb_le_logb_of_le (b := 2) (by norm_num) (by positivity) hr
  rw [logb_mul (by positivity) (ne_of_gt h2), logb_mul (ne_of_gt hNr) (ne_of_gt h1),
    logb_mul (by positivity) (ne_of_gt h4), logb_mul (ne_of_gt hCr) (ne_of_gt h3)] at hlog
  have := log_prods l hp
  linarith

theorem pow500 : ((257 : ℝ) / 256) ^ 500 < 8 := by
  set_option exponentiation.threshold 600 in
  rw [div_pow, div_lt_iff₀ (by positivity)]
  set_option exponentiation.threshold 600 in
  norm_num

/-- with the default presets (`k = 8`) the per-symbol rounding term is below 0.006 bit -/
theorem rounding_default_lt : logb 2 (1 + (2 : ℝ)^(-(8 : ℤ))) < 0.006 := by
  rw [logb_lt_iff_lt_rpow (by norm_num) (by positivity)]
  -- (257/256)^500 < 8 = 2^3 = (2^0.006)^500
  have h : ((1 : ℝ) + 2^(-(8 : ℤ)))^(500 : ℕ) < ((2 : ℝ)^(0.006 : ℝ))^(500 : ℕ) := by
    rw [← rpow_natCast ((2 : ℝ)^(0.006 : ℝ)), ← rpow_mul (by norm_num)]
    have : (0.006 : ℝ) * ((500 : ℕ) : ℝ) = 3 := by norm_num
    rw [this]
    have := pow500
    norm_num at this ⊢
    exact this
  exact lt_of_pow_lt_pow_left₀ 500 (by positivity) h

end CV.LogBound
