import CV.Model.Quant
import CV.Proofs.QuantFast
/-!
# `LeakyQuantizer` / `LeakilyQuantizedDistribution`: integer layer

The distribution enters through `g s = toInt (free * cdf (s - 0.5))` only.  From the decidable
hypotheses `GOk`: `g` nondecreasing on the support and bounded by `free` (TB-F1), for every
integer symbol type (signed or unsigned, narrower or wider than `Probability`):

* `slack` is the plain offset `s - min` (the `mask` undoes the sign extension),
* `left s = if s = min then 0 else g s + (s - min)`, `right s = if s = max then 2^P else
  g (s+1) + (s - min) + 1` tile `[0, 2^P)` with non-empty bins, none of probability one,
* the encoder returns `(left s, right s - left s)` on the support, `none` outside, no `Fault`,
* the symbol-table iterator lists exactly the encoder's answers in order (D1).
-/
namespace CV.Quant

/-- what `LeakyQuantizer::new` and the static assertions establish -/
structure LQ.Ok (m : LQ) : Prop where
  hbits : 2 ≤ m.t.bits
  hP1 : 1 ≤ m.P
  hPB : m.P ≤ m.B
  hmin : m.t.inRange m.min
  hmax : m.t.inRange m.max
  hlt : m.min < m.max
  hsize : (m.max - m.min).toNat + 1 ≤ 2 ^ m.P
  hfree : m.free = 2 ^ m.P - 1 - (m.max - m.min).toNat

/-- `Probability::max_value() >> (Probability::BITS - PRECISION)` is `2^P - 1` -/
theorem maxProb_eq {B P : Nat} (hPB : P ≤ B) : (2 ^ B - 1) >>> (B - P) = 2 ^ P - 1 := by
  rw [Nat.shiftRight_eq_div_pow]
  have e : 2 ^ P * 2 ^ (B - P) = 2 ^ B := by rw [← Nat.pow_add]; congr 1; omega
  have hp : 0 < 2 ^ P := Nat.pow_pos (by omega)
  have hq : 0 < 2 ^ (B - P) := Nat.pow_pos (by omega)
  apply Nat.div_eq_of_lt_le
  · have : (2 ^ P - 1) * 2 ^ (B - P) = 2 ^ B - 2 ^ (B - P) := by
      rw [Nat.sub_mul, e, Nat.one_mul]
    rw [this]; omega
  · have : (2 ^ P - 1 + 1) * 2 ^ (B - P) = 2 ^ B := by
      rw [Nat.sub_add_cancel hp, e]
    have hb : 0 < 2 ^ B := Nat.pow_pos (by omega)
    rw [this]; omega

theorem LQ.new_ok {t : SymTy} {B P : Nat} {min max : Int} {m : LQ}
    (hbits : 2 ≤ t.bits) (hP1 : 1 ≤ P) (hPB : P ≤ B) (hmin : t.inRange min) (hmax : t.inRange max)
    (h : LQ.new t B P min max = .ok m) : m.Ok ∧ m.t = t ∧ m.B = B ∧ m.P = P ∧ m.min = min ∧ m.max = max := by
  unfold LQ.new at h
  by_cases hlt : max > min
  · rw [if_neg (by omega)] at h
    simp only [maxProb_eq hPB] at h
    by_cases hs : (max - min).toNat ≤ 2 ^ P - 1
    · rw [if_pos hs] at h
      injection h with h
      subst h
      have hp : 0 < 2 ^ P := Nat.pow_pos (by omega)
      exact ⟨⟨hbits, hP1, hPB, hmin, hmax, hlt, by show (max - min).toNat + 1 ≤ 2 ^ P; omega, rfl⟩,
        rfl, rfl, rfl, rfl, rfl⟩
    · rw [if_neg hs] at h; cases h
  · rw [if_pos hlt] at h; cases h

/-- **C19 / D10**: a support with more than `2^P` elements (in particular, wider than `2^B`) or
    fewer than two elements is rejected — the comparison happens before any narrowing -/
theorem LQ.new_rejects {t : SymTy} {B P : Nat} {min max : Int} (hPB : P ≤ B)
    (h : ¬ (min < max ∧ (max - min).toNat + 1 ≤ 2 ^ P)) :
    ∃ f, LQ.new t B P min max = .error f := by
  unfold LQ.new
  by_cases hlt : max > min
  · rw [if_neg (by omega)]
    simp only [maxProb_eq hPB]
    have hp : 0 < 2 ^ P := Nat.pow_pos (by omega)
    rw [if_neg (by omega)]
    exact ⟨_, rfl⟩
  · rw [if_pos hlt]; exact ⟨_, rfl⟩

/-! ### `slack` -/

theorem two_pow_succ_pred {b : Nat} (h : 1 ≤ b) : 2 ^ b = 2 * 2 ^ (b - 1) := by
  have : b = (b - 1) + 1 := by omega
  rw [this, Nat.pow_succ]; simp; omega

/-- the value of `symbol.wrapping_sub(min)` for an offset `0 ≤ d < 2^bits`: either `d` itself
    or (signed type, offset beyond `Symbol::MAX`) `d - 2^bits` -/
theorem wrap_offset (t : SymTy) (hb : 1 ≤ t.bits) {d : Int} (h0 : 0 ≤ d)
    (hd : d < ((2 ^ t.bits : Nat) : Int)) :
    t.wrap d = d ∨ t.wrap d = d - ((2 ^ t.bits : Nat) : Int) := by
  unfold SymTy.wrap
  by_cases hs : t.signed
  · rw [if_pos hs]
    have hW : ((2 ^ t.bits : Nat) : Int) = 2 * ((2 ^ (t.bits - 1) : Nat) : Int) := by
      have := two_pow_succ_pred hb; omega
    have hH : (0 : Int) < ((2 ^ (t.bits - 1) : Nat) : Int) := by
      have : 0 < 2 ^ (t.bits - 1) := Nat.pow_pos (by omega)
      omega
    by_cases hlt : d < ((2 ^ (t.bits - 1) : Nat) : Int)
    · left
      rw [Int.emod_eq_of_lt (by omega) (by omega)]; omega
    · right
      have e : d + ((2 ^ (t.bits - 1) : Nat) : Int)
          = (d + ((2 ^ (t.bits - 1) : Nat) : Int) - ((2 ^ t.bits : Nat) : Int))
            + 1 * ((2 ^ t.bits : Nat) : Int) := by omega
      rw [e, Int.add_mul_emod_self_right, Int.emod_eq_of_lt (by omega) (by omega)]; omega
  · rw [if_neg hs]
    left
    exact Int.emod_eq_of_lt h0 hd

theorem mask_eq {B b : Nat} (hB : 1 ≤ B) :
    wsub B (wrappingPow2 B b) 1 = 2 ^ (min b B) - 1 := by
  have hB1 : (1 : Nat) < 2 ^ B := Nat.one_lt_two_pow (by omega)
  have h1 : (1 : Nat) % 2 ^ B = 1 := Nat.mod_eq_of_lt hB1
  unfold wsub wrappingPow2
  rw [h1]
  by_cases h : b ≥ B
  · rw [if_pos h, Nat.min_eq_right h, Nat.zero_add, Nat.mod_eq_of_lt (by omega)]
  · have hlt : 2 ^ b < 2 ^ B := Nat.pow_lt_pow_right (by omega) (by omega)
    have hp : 0 < 2 ^ b := Nat.pow_pos (by omega)
    rw [if_neg h, Nat.min_eq_left (by omega)]
    have : 2 ^ b + 2 ^ B - 1 = (2 ^ b - 1) + 2 ^ B := by omega
    rw [this, Nat.add_mod_right, Nat.mod_eq_of_lt (by omega)]

/-- `slack(symbol, min) = symbol - min` for every offset that fits both the symbol type and
    `Probability` — signed or unsigned, narrower or wider than `Probability` -/
theorem slack_eq (t : SymTy) (B : Nat) (hb : 1 ≤ t.bits) (hB : 1 ≤ B) {s mn : Int} {d : Nat}
    (hd : s - mn = (d : Int)) (hdW : d < 2 ^ t.bits) (hdB : d < 2 ^ B) :
    slack t B s mn = d := by
  unfold slack
  simp only
  rw [mask_eq hB, hd, Nat.and_two_pow_sub_one_eq_mod]
  have hdWi : (d : Int) < ((2 ^ t.bits : Nat) : Int) := by exact_mod_cast hdW
  have hdBi : (d : Int) < ((2 ^ B : Nat) : Int) := by exact_mod_cast hdB
  have hmin : d < 2 ^ (min t.bits B) := by
    rcases Nat.le_total t.bits B with h | h
    · rw [Nat.min_eq_left h]; exact hdW
    · rw [Nat.min_eq_right h]; exact hdB
  rcases wrap_offset t hb (d := (d : Int)) (by omega) hdWi with h | h
  · rw [h]; unfold symToProb
    rw [Int.emod_eq_of_lt (by omega) hdBi, Int.toNat_natCast]
    exact Nat.mod_eq_of_lt hmin
  · rw [h]; unfold symToProb
    by_cases hbB : t.bits ≥ B
    · obtain ⟨c, hc⟩ := Nat.pow_dvd_pow 2 hbB
      have hci : ((2 ^ t.bits : Nat) : Int) = ((2 ^ B : Nat) : Int) * (c : Int) := by
        exact_mod_cast hc
      have e : (d : Int) - ((2 ^ t.bits : Nat) : Int)
          = (d : Int) + ((2 ^ B : Nat) : Int) * (-(c : Int)) := by
        rw [hci, Int.mul_neg]; omega
      rw [e, Int.add_mul_emod_self_left, Int.emod_eq_of_lt (by omega) hdBi, Int.toNat_natCast]
      exact Nat.mod_eq_of_lt hmin
    · have hlt : t.bits < B := by omega
      have hWB : 2 ^ t.bits < 2 ^ B := Nat.pow_lt_pow_right (by omega) hlt
      obtain ⟨c, hc⟩ := Nat.pow_dvd_pow 2 (Nat.le_of_lt hlt)
      have hc1 : 1 ≤ c := by
        rcases Nat.eq_zero_or_pos c with h0 | h0
        · subst h0; simp at hc
        · exact h0
      have hsplit : 2 ^ t.bits * c = 2 ^ t.bits * (c - 1) + 2 ^ t.bits := by
        have : c = (c - 1) + 1 := by omega
        rw [this, Nat.mul_add, Nat.mul_one]; simp
      have hN : d + 2 ^ t.bits * (c - 1) + 2 ^ t.bits = d + 2 ^ B := by omega
      have e : ((d : Int) - ((2 ^ t.bits : Nat) : Int)) % ((2 ^ B : Nat) : Int)
          = (((d + 2 ^ t.bits * (c - 1) : Nat)) : Int) := by
        have e1 : (d : Int) - ((2 ^ t.bits : Nat) : Int)
            = ((d + 2 ^ t.bits * (c - 1) : Nat) : Int) + (-1) * ((2 ^ B : Nat) : Int) := by
          omega
        rw [e1, Int.add_mul_emod_self_right]
        apply Int.emod_eq_of_lt (by omega)
        have : d + 2 ^ t.bits * (c - 1) < 2 ^ B := by omega
        exact_mod_cast this
      rw [e, Int.toNat_natCast, Nat.min_eq_left (Nat.le_of_lt hlt), Nat.add_mul_mod_self_left]
      exact Nat.mod_eq_of_lt hdW

/-! ### the tiling -/

/-- hypotheses on the integer sequence `g s = toInt (free * cdf (s - 0.5))`, `min < s ≤ max`
    (TB-F1: `cdf` nondecreasing with values in `[0, 1]`, float `*` and float→int monotone) -/
structure GOk (m : LQ) (g : Int → Nat) : Prop where
  mono : ∀ s, m.min < s → s < m.max → g s ≤ g (s + 1)
  bound : ∀ s, m.min < s → s ≤ m.max → g s ≤ m.free

/-- offset of a symbol in the support -/
def off (m : LQ) (s : Int) : Nat := (s - m.min).toNat

/-- left-sided cumulative of `s` -/
def leftQ (m : LQ) (g : Int → Nat) (s : Int) : Nat :=
  if s = m.min then 0 else g s + off m s

/-- right-sided cumulative of `s` (true value, `2^P` for the last symbol) -/
def rightQ (m : LQ) (g : Int → Nat) (s : Int) : Nat :=
  if s = m.max then 2 ^ m.P else g (s + 1) + off m s + 1

/-- right-sided cumulative as the code holds it: the total is `wrapping_pow2(P)` -/
def rightW (m : LQ) (g : Int → Nat) (s : Int) : Nat :=
  if s = m.max then wrappingPow2 m.B m.P else rightQ m g s

def widthQ (m : LQ) (g : Int → Nat) (s : Int) : Nat := rightQ m g s - leftQ m g s

section
variable {m : LQ} {g : Int → Nat}

theorem LQ.Ok.free_add (ok : m.Ok) : m.free + (m.max - m.min).toNat + 1 = 2 ^ m.P := by
  have := ok.hsize; have := ok.hfree; omega

theorem LQ.Ok.pow_le (ok : m.Ok) : 2 ^ m.P ≤ 2 ^ m.B := two_pow_le ok.hPB

/-- the support is no wider than the symbol type -/
theorem LQ.Ok.span_lt (ok : m.Ok) : (m.max - m.min).toNat < 2 ^ m.t.bits := by
  have h1 := ok.hmin; have h2 := ok.hmax; have hlt := ok.hlt
  unfold SymTy.inRange SymTy.lo SymTy.hi at h1 h2
  have hp := two_pow_succ_pred (b := m.t.bits) (by have := ok.hbits; omega)
  have hpos : 0 < 2 ^ (m.t.bits - 1) := Nat.pow_pos (by omega)
  by_cases hs : m.t.signed
  · rw [if_pos hs, if_pos hs] at h1 h2; omega
  · rw [if_neg hs, if_neg hs] at h1 h2; omega

theorem off_min : off m m.min = 0 := by unfold off; simp

theorem off_succ {s : Int} (hs : m.min ≤ s) : off m (s + 1) = off m s + 1 := by
  unfold off; omega

theorem off_le (_ok : m.Ok) {s : Int} (_h1 : m.min ≤ s) (h2 : s ≤ m.max) :
    off m s ≤ (m.max - m.min).toNat := by unfold off; omega

theorem off_pos {s : Int} (h1 : m.min < s) : 0 < off m s := by unfold off; omega

theorem off_cast {s : Int} (h1 : m.min ≤ s) : s - m.min = ((off m s : Nat) : Int) := by
  unfold off; omega

theorem rightQ_eq_left_succ {s : Int} (h1 : m.min ≤ s) (h2 : s < m.max) :
    rightQ m g s = leftQ m g (s + 1) := by
  unfold rightQ leftQ
  rw [if_neg (by omega), if_neg (by omega), off_succ h1]; omega

theorem leftQ_lt_rightQ (ok : m.Ok) (gk : GOk m g) {s : Int} (h1 : m.min ≤ s) (h2 : s ≤ m.max) :
    leftQ m g s < rightQ m g s := by
  have hfa := ok.free_add
  have hlt := ok.hlt
  unfold leftQ rightQ
  by_cases hmin : s = m.min
  · rw [if_pos hmin, if_neg (by omega)]; omega
  · rw [if_neg hmin]
    have hb := gk.bound s (by omega) h2
    have ho := off_le ok h1 h2
    by_cases hmax : s = m.max
    · rw [if_pos hmax]; omega
    · rw [if_neg hmax]
      have := gk.mono s (by omega) (by omega)
      omega

theorem rightQ_le (ok : m.Ok) (gk : GOk m g) {s : Int} (h1 : m.min ≤ s) (h2 : s ≤ m.max) :
    rightQ m g s ≤ 2 ^ m.P := by
  have hfa := ok.free_add
  unfold rightQ
  by_cases hmax : s = m.max
  · rw [if_pos hmax]; exact Nat.le_refl _
  · rw [if_neg hmax]
    have hb := gk.bound (s + 1) (by omega) (by omega)
    have ho := off_le ok (s := s + 1) (by omega) (by omega)
    rw [off_succ h1] at ho
    omega

/-- inner right ends stay below the total (so the `+ 1` never wraps) -/
theorem rightQ_lt_of_lt_max (ok : m.Ok) (gk : GOk m g) {s : Int} (h1 : m.min ≤ s)
    (h2 : s < m.max) : rightQ m g s + 1 ≤ 2 ^ m.P := by
  have hfa := ok.free_add
  unfold rightQ
  rw [if_neg (by omega)]
  have hb := gk.bound (s + 1) (by omega) (by omega)
  have ho := off_le ok (s := s + 1) (by omega) (by omega)
  rw [off_succ h1] at ho
  omega

theorem leftQ_lt_total (ok : m.Ok) (gk : GOk m g) {s : Int} (h1 : m.min ≤ s) (h2 : s ≤ m.max) :
    leftQ m g s + 1 ≤ 2 ^ m.P := by
  have := leftQ_lt_rightQ ok gk h1 h2
  have := rightQ_le ok gk h1 h2
  omega

/-- monotonicity of the left cumulative over the support, by offsets -/
theorem leftQ_mono_aux (ok : m.Ok) (gk : GOk m g) {s : Int} (h1 : m.min ≤ s) :
    ∀ k : Nat, s + k ≤ m.max → leftQ m g s ≤ leftQ m g (s + k) := by
  intro k
  induction k with
  | zero => intro _; simp
  | succ k ih =>
    intro hk
    have hk' : s + (k : Int) ≤ m.max := by omega
    have h3 := ih hk'
    have h4 := leftQ_lt_rightQ ok gk (s := s + k) (by omega) hk'
    have h5 := rightQ_eq_left_succ (m := m) (g := g) (s := s + k) (by omega) (by omega)
    have e : s + ((k + 1 : Nat) : Int) = s + (k : Int) + 1 := by omega
    rw [e]; omega

theorem leftQ_mono (ok : m.Ok) (gk : GOk m g) {s t : Int} (h1 : m.min ≤ s) (hst : s ≤ t)
    (h2 : t ≤ m.max) : leftQ m g s ≤ leftQ m g t := by
  have := leftQ_mono_aux ok gk h1 (t - s).toNat (by omega)
  have e : s + (((t - s).toNat : Nat) : Int) = t := by omega
  rw [e] at this; exact this

/-- `Bin q a`: the symbol `a` owns the quantile `q` -/
def Bin (m : LQ) (g : Int → Nat) (q : Nat) (a : Int) : Prop :=
  m.min ≤ a ∧ a ≤ m.max ∧ leftQ m g a ≤ q ∧ q < rightQ m g a

theorem bin_exists_aux (_ok : m.Ok) (_gk : GOk m g) {q : Nat} (hq : q < 2 ^ m.P) :
    ∀ k : Nat, ∀ s : Int, m.min ≤ s → s + k = m.max → leftQ m g s ≤ q → ∃ a, s ≤ a ∧ Bin m g q a := by
  intro k
  induction k with
  | zero =>
    intro s h1 hk hl
    have : s = m.max := by omega
    refine ⟨s, by omega, h1, by omega, hl, ?_⟩
    unfold rightQ; rw [if_pos this]; exact hq
  | succ k ih =>
    intro s h1 hk hl
    by_cases hr : q < rightQ m g s
    · exact ⟨s, by omega, h1, by omega, hl, hr⟩
    · have e := rightQ_eq_left_succ (m := m) (g := g) (s := s) h1 (by omega)
      obtain ⟨a, ha, hb⟩ := ih (s + 1) (by omega) (by omega) (by omega)
      exact ⟨a, by omega, hb⟩

/-- every quantile below `2^P` is owned by a symbol of the support … -/
theorem bin_exists (ok : m.Ok) (gk : GOk m g) {q : Nat} (hq : q < 2 ^ m.P) :
    ∃ a, Bin m g q a := by
  have hlt := ok.hlt
  obtain ⟨a, _, h⟩ := bin_exists_aux ok gk hq (m.max - m.min).toNat m.min (by omega) (by omega)
    (by unfold leftQ; rw [if_pos rfl]; omega)
  exact ⟨a, h⟩

/-- `left s ≤ q` exactly for the symbols up to the owner -/
theorem left_le_iff (ok : m.Ok) (gk : GOk m g) {q : Nat} {a s : Int} (ha : Bin m g q a)
    (h1 : m.min ≤ s) (h2 : s ≤ m.max) : leftQ m g s ≤ q ↔ s ≤ a := by
  obtain ⟨a1, a2, a3, a4⟩ := ha
  constructor
  · intro hl
    by_cases h : s ≤ a
    · exact h
    · exfalso
      have e := rightQ_eq_left_succ (m := m) (g := g) (s := a) a1 (by omega)
      have := leftQ_mono ok gk (s := a + 1) (t := s) (by omega) (by omega) h2
      omega
  · intro hsa
    have := leftQ_mono ok gk h1 hsa a2
    omega

/-- `q < right s` exactly for the symbols from the owner on -/
theorem right_gt_iff (ok : m.Ok) (gk : GOk m g) {q : Nat} {a s : Int} (ha : Bin m g q a)
    (h1 : m.min ≤ s) (h2 : s ≤ m.max) : q < rightQ m g s ↔ a ≤ s := by
  have hq : q < 2 ^ m.P := by
    have := rightQ_le ok gk ha.1 ha.2.1; have := ha.2.2.2; omega
  by_cases hmax : s = m.max
  · constructor
    · intro _; have := ha.2.1; omega
    · intro _; unfold rightQ; rw [if_pos hmax]; exact hq
  · rw [rightQ_eq_left_succ h1 (by omega)]
    have := left_le_iff ok gk ha (s := s + 1) (by omega) (by omega)
    omega

/-- … and by exactly one -/
theorem bin_unique_q (ok : m.Ok) (gk : GOk m g) {q : Nat} {a b : Int} (ha : Bin m g q a)
    (hb : Bin m g q b) : a = b := by
  have h1 := (left_le_iff ok gk ha hb.1 hb.2.1).mp hb.2.2.1
  have h2 := (left_le_iff ok gk hb ha.1 ha.2.1).mp ha.2.2.1
  omega

/-- no symbol has probability one, every symbol of the support has a non-empty bin -/
theorem widthQ_bounds (ok : m.Ok) (gk : GOk m g) {s : Int} (h1 : m.min ≤ s) (h2 : s ≤ m.max) :
    0 < widthQ m g s ∧ widthQ m g s < 2 ^ m.P := by
  have hl := leftQ_lt_rightQ ok gk h1 h2
  have hr := rightQ_le ok gk h1 h2
  have hlt := ok.hlt
  unfold widthQ
  refine ⟨by omega, ?_⟩
  by_cases hmin : s = m.min
  · have := rightQ_lt_of_lt_max ok gk h1 (by omega); omega
  · have : 0 < leftQ m g s := by
      unfold leftQ; rw [if_neg hmin]
      have := off_pos (m := m) (s := s) (by omega); omega
    omega

/-! ### the model's encoder and symbol table compute the tiling -/

/-- the external calls as total functions: `gl s = g s`, `gr s = g (s + 1)`
    (`s + 0.5 = (s + 1) - 0.5` exactly in `f64` for every 32-bit symbol) -/
def extL (g : Int → Nat) : Ext := fun s => some (g s)
def extR (g : Int → Nat) : Ext := fun s => some (g (s + 1))

theorem wsub_sub {B a b : Nat} (hab : b ≤ a) (ha : a < 2 ^ B) : wsub B a b = a - b := by
  unfold wsub
  rw [Nat.mod_eq_of_lt (a := b) (by omega)]
  have : a + 2 ^ B - b = (a - b) + 2 ^ B := by omega
  rw [this, Nat.add_mod_right, Nat.mod_eq_of_lt (by omega)]

theorem wsub_wrap_total {B P l : Nat} (hPB : P ≤ B) (hl0 : 0 < l) (hl : l < 2 ^ P) :
    wsub B (wrappingPow2 B P) l = 2 ^ P - l := by
  have hle := two_pow_le hPB
  unfold wrappingPow2
  by_cases h : P ≥ B
  · have : P = B := by omega
    subst this
    rw [if_pos h]; unfold wsub
    rw [Nat.mod_eq_of_lt (a := l) hl, Nat.zero_add, Nat.mod_eq_of_lt (by omega)]
  · rw [if_neg h]
    have : 2 ^ P < 2 ^ B := Nat.pow_lt_pow_right (by omega) (by omega)
    exact wsub_sub (by omega) this

theorem slack_support (ok : m.Ok) {s : Int} (h1 : m.min ≤ s) (h2 : s ≤ m.max) :
    slack m.t m.B s m.min = off m s := by
  have hsp := ok.span_lt
  have hle := ok.pow_le
  have ho := off_le ok h1 h2
  have hsz := ok.hsize
  exact slack_eq m.t m.B (by have := ok.hbits; omega) (by have := ok.hP1; have := ok.hPB; omega) (off_cast h1)
    (by omega) (by omega)

/-- `(free * cdf(s - 0.5)).as_() + slack(s, min)` does not overflow and is the left cumulative -/
theorem leaky_left (ok : m.Ok) (gk : GOk m g) (site : String) {s : Int} (h1 : m.min < s)
    (h2 : s ≤ m.max) : m.leaky (extL g) site s = .ok (leftQ m g s) := by
  have hle := ok.pow_le
  have hl := leftQ_lt_total ok gk (s := s) (by omega) h2
  unfold LQ.leaky extL
  simp only
  rw [slack_support ok (by omega) h2]
  unfold leftQ at hl ⊢
  rw [if_neg (by omega)] at hl ⊢
  unfold cadd; rw [if_pos (by omega)]; rfl

/-- `(free * cdf(s + 0.5)).as_() + slack(s, min)` for `s < max` -/
theorem leaky_right (ok : m.Ok) (gk : GOk m g) (site : String) {s : Int} (h1 : m.min ≤ s)
    (h2 : s < m.max) : m.leaky (extR g) site s = .ok (g (s + 1) + off m s) := by
  have hle := ok.pow_le
  have hl := rightQ_lt_of_lt_max ok gk h1 h2
  unfold LQ.leaky extR
  simp only
  rw [slack_support ok h1 (by omega)]
  unfold rightQ at hl
  rw [if_neg (by omega)] at hl
  unfold cadd; rw [if_pos (by omega)]; rfl

theorem rightOf_eval (ok : m.Ok) (gk : GOk m g) (site : String) {s : Int} (h1 : m.min ≤ s)
    (h2 : s ≤ m.max) : m.rightOf (extR g) site s = .ok (rightW m g s) := by
  have hle := ok.pow_le
  unfold LQ.rightOf rightW
  by_cases hmax : s = m.max
  · rw [if_pos hmax, if_pos hmax]
  · rw [if_neg hmax, if_neg hmax, leaky_right ok gk site h1 (by omega)]
    simp only
    have hl := rightQ_lt_of_lt_max ok gk h1 (by omega)
    unfold rightQ at hl ⊢
    rw [if_neg hmax] at hl ⊢
    unfold wadd; rw [Nat.mod_eq_of_lt (by omega)]

/-- `right.wrapping_sub(left)` is the true width of the bin -/
theorem wsub_rightW (ok : m.Ok) (gk : GOk m g) {s : Int} (h1 : m.min ≤ s) (h2 : s ≤ m.max) :
    wsub m.B (rightW m g s) (leftQ m g s) = widthQ m g s := by
  have hle := ok.pow_le
  have hlr := leftQ_lt_rightQ ok gk h1 h2
  have hlt := ok.hlt
  unfold rightW widthQ
  by_cases hmax : s = m.max
  · rw [if_pos hmax]
    have hl := leftQ_lt_total ok gk h1 h2
    have hpos : 0 < leftQ m g s := by
      unfold leftQ; rw [if_neg (by omega)]
      have := off_pos (m := m) (s := s) (by omega); omega
    rw [wsub_wrap_total ok.hPB hpos (by omega)]
    unfold rightQ; rw [if_pos hmax]
  · rw [if_neg hmax]
    have := rightQ_lt_of_lt_max ok gk h1 (by omega)
    exact wsub_sub (by omega) (by omega)

theorem SymTy.cadd_ok {t : SymTy} {site : String} {a b : Int} (h : t.inRange (a + b)) :
    t.cadd site a b = .ok (a + b) := by unfold SymTy.cadd; rw [if_pos h]

theorem SymTy.csub_ok {t : SymTy} {site : String} {a b : Int} (h : t.inRange (a - b)) :
    t.csub site a b = .ok (a - b) := by unfold SymTy.csub; rw [if_pos h]

/-- symbols of the support are values of the symbol type -/
theorem LQ.Ok.inRange (ok : m.Ok) {x : Int} (h1 : m.min ≤ x) (h2 : x ≤ m.max) : m.t.inRange x := by
  have hlo := ok.hmin; have hhi := ok.hmax
  unfold SymTy.inRange at *
  omega

/-- what `left_cumulative_and_probability` must return -/
def encQ (m : LQ) (g : Int → Nat) (s : Int) : Option (Nat × Nat) :=
  if m.min ≤ s ∧ s ≤ m.max then some (leftQ m g s, widthQ m g s) else none

/-- **C03 / C09** the encoder: `(left s, right s - left s)` on the support, `None` outside
    (for every value of the symbol type; the comparison precedes any narrowing), no `Fault` -/
theorem enc_eq (ok : m.Ok) (gk : GOk m g) (s : Int) :
    m.enc (extL g) (extR g) s = .ok (encQ m g s) := by
  unfold LQ.enc encQ
  by_cases hin : m.min ≤ s ∧ s ≤ m.max
  · obtain ⟨h1, h2⟩ := hin
    have hout : ¬ (s < m.min ∨ s > m.max) := by omega
    have hinn : m.min ≤ s ∧ s ≤ m.max := ⟨h1, h2⟩
    rw [if_neg hout, if_pos hinn]
    have hw := widthQ_bounds ok gk h1 h2
    have eL : (if s = m.min then (Except.ok 0 : SM Nat) else m.leaky (extL g) "quant.enc.left" s)
        = .ok (leftQ m g s) := by
      by_cases hmin : s = m.min
      · rw [if_pos hmin]; unfold leftQ; rw [if_pos hmin]
      · rw [if_neg hmin]; exact leaky_left ok gk _ (by omega) h2
    simp only [eL]
    have hws := wsub_rightW ok gk h1 h2
    unfold rightW at hws
    by_cases hmax : s = m.max
    · rw [if_pos hmax] at hws
      rw [if_pos hmax]
      simp only
      rw [hws, if_neg (by omega)]
    · rw [if_neg hmax] at hws
      rw [if_neg hmax, leaky_right ok gk _ h1 (by omega)]
      simp only
      have hc : cadd "quant.enc.right1" m.B (g (s + 1) + off m s) 1 = .ok (rightQ m g s) := by
        have hle := ok.pow_le
        have hl := rightQ_lt_of_lt_max ok gk h1 (by omega)
        unfold rightQ at hl ⊢
        rw [if_neg hmax] at hl ⊢
        unfold cadd; rw [if_pos (by omega)]
      rw [hc]
      simp only [liftM]
      rw [hws, if_neg (by omega)]
  · have hout : s < m.min ∨ s > m.max := by omega
    rw [if_pos hout, if_neg hin]

/-- what `symbol_table()` must yield from `s` on: `k` consecutive entries -/
def tableSpec (m : LQ) (g : Int → Nat) : (k : Nat) → (s : Int) → List (Int × Nat × Nat)
  | 0, _ => []
  | k + 1, s => (s, leftQ m g s, widthQ m g s) :: tableSpec m g k (s + 1)

theorem table_eq_aux (ok : m.Ok) (gk : GOk m g) :
    ∀ (k fuel : Nat) (s : Int), m.min ≤ s → s + k = m.max → k + 1 ≤ fuel →
      m.table (extL g) fuel s (leftQ m g s) = .ok (tableSpec m g (k + 1) s) := by
  intro k
  induction k with
  | zero =>
    intro fuel s h1 hk hf
    have hmax : s = m.max := by omega
    obtain ⟨f, rfl⟩ : ∃ f, fuel = f + 1 := ⟨fuel - 1, by omega⟩
    have hw := widthQ_bounds ok gk h1 (by omega)
    have hws := wsub_rightW ok gk h1 (show s ≤ m.max by omega)
    unfold rightW at hws; rw [if_pos hmax] at hws
    unfold LQ.table
    rw [if_pos hmax]
    simp only
    rw [hws, if_neg (by omega)]
    rfl
  | succ k ih =>
    intro fuel s h1 hk hf
    have hmax : s ≠ m.max := by omega
    obtain ⟨f, rfl⟩ : ∃ f, fuel = f + 1 := ⟨fuel - 1, by omega⟩
    have hw := widthQ_bounds ok gk h1 (by omega)
    have hws := wsub_rightW ok gk h1 (show s ≤ m.max by omega)
    unfold rightW at hws; rw [if_neg hmax] at hws
    rw [rightQ_eq_left_succ h1 (by omega)] at hws
    have hnext : m.t.cadd "quant.table.next" s 1 = .ok (s + 1) :=
      SymTy.cadd_ok (ok.inRange (by omega) (by omega))
    unfold LQ.table
    rw [if_neg hmax, hnext]
    simp only [liftM]
    rw [leaky_left ok gk _ (by omega) (by omega)]
    simp only
    rw [hws, if_neg (by omega), ih f (s + 1) (by omega) (by omega) (by omega)]
    rfl

/-- **C05 / D1** the symbol-table iterator lists, in order, exactly the triples
    `(s, left s, right s - left s)` the encoder answers for `s = min, …, max` -/
theorem table_eq (ok : m.Ok) (gk : GOk m g) :
    m.table (extL g) ((m.max - m.min).toNat + 1) m.min 0
      = .ok (tableSpec m g ((m.max - m.min).toNat + 1) m.min) := by
  have hlt := ok.hlt
  have := table_eq_aux ok gk (m.max - m.min).toNat ((m.max - m.min).toNat + 1) m.min
    (by omega) (by omega) (by omega)
  unfold leftQ at this; rw [if_pos rfl] at this
  exact this

theorem tableSpec_mem {k : Nat} {s : Int} {e : Int × Nat × Nat} (he : e ∈ tableSpec m g k s) :
    s ≤ e.1 ∧ e.1 < s + k ∧ e.2.1 = leftQ m g e.1 ∧ e.2.2 = widthQ m g e.1 := by
  induction k generalizing s with
  | zero => simp [tableSpec] at he
  | succ k ih =>
    simp only [tableSpec, List.mem_cons] at he
    rcases he with rfl | he
    · simp; omega
    · have := ih he; omega

/-- every table entry is the encoder's answer for its symbol -/
theorem table_entries_enc (ok : m.Ok) (gk : GOk m g) {e : Int × Nat × Nat}
    (he : e ∈ tableSpec m g ((m.max - m.min).toNat + 1) m.min) :
    m.enc (extL g) (extR g) e.1 = .ok (some (e.2.1, e.2.2)) := by
  have hlt := ok.hlt
  obtain ⟨h1, h2, h3, h4⟩ := tableSpec_mem he
  rw [enc_eq ok gk]; unfold encQ
  rw [if_pos (by omega), h3, h4]

end

end CV.Quant
