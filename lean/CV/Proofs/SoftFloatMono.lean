import CV.Proofs.SoftFloatRound
import CV.Proofs.QuantModels
/-!
# TB-F1 for `fast_quantized_cdf`, proved for the software IEEE model

`TBF1Fast h n` ("the integer sequence `h i = (cumulative_float_i * scale) as Probability` starts
at `0` and never decreases") is a *hypothesis* of the general float-layer theorems
(`CV.Proofs.QuantModels`).  Here it is a **theorem** about `fastSetup` run on the software float
model of `CV.Model.SoftFloat`, for every binary format with at least one significand bit, every
table of bit patterns, every optional normalisation, every `B` and `P`:

* the running sum `cumulative_float` is never negative, never NaN and never decreases — each step
  adds an entry that passed the `>= 0` test, and a correctly rounded sum of a representable `c`
  and a non-negative `p` cannot round below `c` (`roundMag_mono` + `roundMag_self`);
* multiplying two such sums by the *same* `scale` (whatever it is: zero, subnormal, huge, infinite,
  negative or NaN) and converting with the saturating `as` keeps their order.

No property of `scale` is needed, so the theorem also covers a caller-supplied normalisation
that is far too small or too large (sums or products overflowing to infinity).
-/
namespace CV.Quant

/-- non-negative, not NaN: what `cumulative_float` can be -/
def SF.NN : SF → Prop
  | .fin false _ => True
  | .inf false => True
  | _ => False

/-- order on `NN` values -/
def SF.nnLe : SF → SF → Prop
  | .fin false a, .fin false b => a ≤ b
  | .fin false _, .inf false => True
  | .inf false, .inf false => True
  | _, _ => False

/-- finite values are values of the format -/
def SF.RepSF (f : Fmt) : SF → Prop
  | .fin _ k => Rep f k
  | _ => True

variable (f : Fmt)

theorem toUInt_le_max (B : Nat) (x : SF) : f.toUInt B x ≤ 2 ^ B - 1 := by
  unfold Fmt.toUInt
  cases x with
  | nan => exact Nat.zero_le _
  | inf neg => cases neg <;> simp
  | fin neg k => cases neg <;> simp <;> exact Nat.min_le_right _ _

theorem roundMag_zero (d : Nat) (hd : 0 < d) : roundMag f 0 d = some 0 := by
  have hv : roundVal f 0 d = 0 := by
    unfold roundVal rneDiv
    simp
  rw [roundMag_eq, hv, if_neg]
  have : 0 < f.limit := by unfold Fmt.limit; exact two_pow_pos' _
  omega

/-- entries that pass the `probability >= 0` test -/
theorem admissible_cases {p : SF} (h : f.le (.fin false 0) p = true) :
    p = .inf false ∨ (∃ k, p = .fin false k) ∨ p = .fin true 0 := by
  cases p with
  | nan => simp [Fmt.le] at h
  | inf b => cases b <;> simp [Fmt.le] at h ⊢
  | fin n k =>
    cases n with
    | false => exact Or.inr (Or.inl ⟨k, rfl⟩)
    | true =>
      have : k = 0 := by simpa [Fmt.le] using h
      subst this; exact Or.inr (Or.inr rfl)

/-- **one step of the running sum**: stays non-negative, representable, and does not decrease -/
theorem add_step (hp : 1 ≤ f.p) {c p : SF} (hc : c.NN) (hr : c.RepSF f)
    (ha : f.le (.fin false 0) p = true) :
    (f.add c p).NN ∧ (f.add c p).RepSF f ∧ SF.nnLe c (f.add c p) := by
  cases c with
  | nan => exact absurd hc (by simp [SF.NN])
  | inf b =>
    cases b with
    | true => exact absurd hc (by simp [SF.NN])
    | false =>
      rcases admissible_cases f ha with h | ⟨k, h⟩ | h <;> subst h <;>
        simp [Fmt.add, SF.NN, SF.RepSF, SF.nnLe]
  | fin n k1 =>
    cases n with
    | true => exact absurd hc (by simp [SF.NN])
    | false =>
      have hr' : Rep f k1 := hr
      rcases admissible_cases f ha with h | ⟨k2, h⟩ | h <;> subst h
      · simp [Fmt.add, SF.NN, SF.RepSF, SF.nnLe]
      · -- finite + finite, same sign
        have hm := roundMag_mono f hp (a := k1) (b := 1) (c := k1 + k2) (d := 1) (by decide)
          (by decide) (by omega)
        rw [roundMag_self f hr'] at hm
        have hadd : f.add (.fin false k1) (.fin false k2) = SF.ofMag false (roundMag f (k1 + k2) 1) := by
          simp [Fmt.add]
        rw [hadd]
        cases hres : roundMag f (k1 + k2) 1 with
        | none => simp [SF.ofMag, SF.NN, SF.RepSF, SF.nnLe]
        | some k =>
          rw [hres] at hm
          refine ⟨by simp [SF.ofMag, SF.NN], ?_, ?_⟩
          · exact roundMag_rep f hp (by decide) hres
          · simpa [SF.ofMag, SF.nnLe, MagLe] using hm
      · -- finite + (-0.0)
        by_cases hk : k1 = 0
        · subst hk
          simp [Fmt.add, SF.NN, SF.RepSF, SF.nnLe]
          exact rep_zero f
        · have h0 : 0 < k1 := Nat.pos_of_ne_zero hk
          have : f.add (.fin false k1) (.fin true 0) = .fin false k1 := by
            unfold Fmt.add
            simp only [Bool.false_eq_true, if_false, hk, h0, if_true, Nat.sub_zero]
            rw [roundMag_self f hr']; rfl
          rw [this]
          exact ⟨by simp [SF.NN], hr', by simp [SF.nnLe]⟩

theorem shiftRight_mono {a b : Nat} (h : a ≤ b) (m : Nat) : a >>> m ≤ b >>> m := by
  rw [Nat.shiftRight_eq_div_pow, Nat.shiftRight_eq_div_pow]
  exact Nat.div_le_div_right h

/-- **scaling by any `scale` and converting keeps the order** -/
theorem mul_toUInt_mono (hp : 1 ≤ f.p) {c c' : SF} (hc : c.NN) (hc' : c'.NN) (hle : SF.nnLe c c')
    (s : SF) (B : Nat) : f.toUInt B (f.mul c s) ≤ f.toUInt B (f.mul c' s) := by
  have hmax := toUInt_le_max f B
  -- normalise the shapes of `c`, `c'`
  cases c with
  | nan => exact absurd hc (by simp [SF.NN])
  | inf b =>
    cases b with
    | true => exact absurd hc (by simp [SF.NN])
    | false =>
      cases c' with
      | nan => exact absurd hc' (by simp [SF.NN])
      | fin n k => cases n <;> simp [SF.nnLe] at hle
      | inf b' =>
        cases b' with
        | true => exact absurd hc' (by simp [SF.NN])
        | false => exact Nat.le_refl _
  | fin n k =>
    cases n with
    | true => exact absurd hc (by simp [SF.NN])
    | false =>
      cases c' with
      | nan => exact absurd hc' (by simp [SF.NN])
      | inf b' =>
        cases b' with
        | true => exact absurd hc' (by simp [SF.NN])
        | false =>
          -- finite ≤ +inf
          cases s with
          | nan => simp [Fmt.mul]
          | inf b =>
            cases b with
            | true =>
              by_cases hk : k = 0 <;> simp [Fmt.mul, Fmt.toUInt, hk]
            | false =>
              by_cases hk : k = 0
              · simp [Fmt.mul, Fmt.toUInt, hk]
              · simpa [Fmt.mul, hk] using hmax (.inf false)
          | fin b ks =>
            cases b with
            | true =>
              have h1 : f.toUInt B (f.mul (.fin false k) (.fin true ks)) = 0 := by
                simp only [Fmt.mul]
                cases roundMag f (k * ks) (2 ^ f.M) <;> simp [SF.ofMag, Fmt.toUInt]
              rw [h1]; exact Nat.zero_le _
            | false =>
              by_cases hks : ks = 0
              · subst hks
                have : f.mul (.fin false k) (.fin false 0) = .fin false 0 := by
                  simp only [Fmt.mul, Nat.mul_zero]
                  rw [roundMag_zero f _ (two_pow_pos' _)]; rfl
                rw [this]
                simp [Fmt.toUInt]
              · have : f.mul (.inf false) (.fin false ks) = .inf false := by
                  simp [Fmt.mul, hks]
                rw [this]
                simpa [Fmt.toUInt] using hmax (f.mul (.fin false k) (.fin false ks))
      | fin n' k' =>
        cases n' with
        | true => exact absurd hc' (by simp [SF.NN])
        | false =>
          have hkk : k ≤ k' := by simpa [SF.nnLe] using hle
          cases s with
          | nan => simp [Fmt.mul]
          | inf b =>
            by_cases hk : k = 0
            · subst hk
              have : f.toUInt B (f.mul (.fin false 0) (.inf b)) = 0 := by simp [Fmt.mul, Fmt.toUInt]
              rw [this]; exact Nat.zero_le _
            · have hk' : k' ≠ 0 := by omega
              simp [Fmt.mul, hk, hk']
          | fin b ks =>
            cases b with
            | true =>
              have h1 : f.toUInt B (f.mul (.fin false k) (.fin true ks)) = 0 := by
                simp only [Fmt.mul]
                cases roundMag f (k * ks) (2 ^ f.M) <;> simp [SF.ofMag, Fmt.toUInt]
              rw [h1]; exact Nat.zero_le _
            | false =>
              have hD := two_pow_pos' f.M
              have hm := roundMag_mono f hp (a := k * ks) (b := 2 ^ f.M) (c := k' * ks)
                (d := 2 ^ f.M) hD hD
                (Nat.mul_le_mul_right _ (Nat.mul_le_mul_right _ hkk))
              simp only [Fmt.mul, bne_self_eq_false]
              cases h1 : roundMag f (k * ks) (2 ^ f.M) with
              | none =>
                cases h2 : roundMag f (k' * ks) (2 ^ f.M) with
                | none => exact Nat.le_refl _
                | some y => rw [h1, h2] at hm; simp [MagLe] at hm
              | some x =>
                cases h2 : roundMag f (k' * ks) (2 ^ f.M) with
                | none => simpa [SF.ofMag, Fmt.toUInt] using hmax (.fin false x)
                | some y =>
                  rw [h1, h2] at hm
                  have hxy : x ≤ y := hm
                  simp only [SF.ofMag, Fmt.toUInt, Bool.false_eq_true, if_false]
                  have := shiftRight_mono hxy f.M
                  omega

theorem mul_zero_toUInt (s : SF) (B : Nat) : f.toUInt B (f.mul (.fin false 0) s) = 0 := by
  cases s with
  | nan => simp [Fmt.mul, Fmt.toUInt]
  | inf b => simp [Fmt.mul, Fmt.toUInt]
  | fin b ks =>
    simp only [Fmt.mul, Nat.zero_mul]
    rw [roundMag_zero f _ (two_pow_pos' _)]
    cases b <;> simp [SF.ofMag, Fmt.toUInt]

/-! ### the running sums as a list -/

/-- `[c, c+x₀, (c+x₀)+x₁, …]` -/
def psList {F : Type} (add : F → F → F) : F → List F → List F
  | c, [] => [c]
  | c, x :: xs => c :: psList add (add c x) xs

theorem psList_length {F : Type} (add : F → F → F) (c : F) (xs : List F) :
    (psList add c xs).length = xs.length + 1 := by
  induction xs generalizing c with
  | nil => rfl
  | cons x xs ih => simp [psList, ih]

theorem psList_head {F : Type} (add : F → F → F) (c d : F) (xs : List F) :
    (psList add c xs).getD 0 d = c := by
  cases xs <;> simp [psList]

theorem prefixSums_fold {F : Type} (o : FOps F) (xs : List F) (arr : Array F) (c : F) :
    (xs.foldl (fun (acc : Array F × F) x => let c := o.add acc.2 x; (acc.1.push c, c)) (arr, c)).1.toList
      = arr.toList ++ (psList o.add c xs).tail := by
  induction xs generalizing arr c with
  | nil => simp [psList]
  | cons x xs ih =>
    simp only [List.foldl_cons]
    rw [ih]
    simp [psList]
    cases xs <;> simp [psList]

theorem prefixSums_toList {F : Type} (o : FOps F) (init : F) (xs : List F) :
    (o.prefixSums init xs).toList = psList o.add init xs := by
  unfold FOps.prefixSums
  rw [prefixSums_fold]
  cases xs <;> simp [psList]

theorem prefixSums_getD {F : Type} (o : FOps F) (init : F) (xs : List F) (i : Nat) (d : F) :
    (o.prefixSums init xs).getD i d = (psList o.add init xs).getD i d := by
  rw [← prefixSums_toList]
  simp [Array.getD, List.getD]
  split <;> simp_all

/-- the scaled, converted running sums never decrease -/
theorem psList_scaled_mono (hp : 1 ≤ f.p) (s : SF) (B : Nat) :
    ∀ (probs : List SF) (c : SF), c.NN → c.RepSF f →
      (∀ p ∈ probs, f.le (.fin false 0) p = true) →
      ∀ i, i < probs.length →
        f.toUInt B (f.mul ((psList f.add c probs).getD i (.fin false 0)) s) ≤
        f.toUInt B (f.mul ((psList f.add c probs).getD (i + 1) (.fin false 0)) s) := by
  intro probs
  induction probs with
  | nil => intro c _ _ _ i hi; simp at hi
  | cons p ps ih =>
    intro c hc hr hall i hi
    have hstep := add_step f hp hc hr (hall p (by simp))
    cases i with
    | zero =>
      simp only [psList, List.getD_cons_zero, Nat.zero_add, List.getD_cons_succ]
      rw [psList_head]
      exact mul_toUInt_mono f hp hc hstep.1 hstep.2.2 s B
    | succ j =>
      simp only [psList, List.getD_cons_succ]
      exact ih (f.add c p) hstep.1 hstep.2.1 (fun q hq => hall q (by simp [hq])) j
        (by simpa using hi)

/-- **TB-F1 is a theorem for the software IEEE model**: whenever the prologue of
    `fast_quantized_cdf` accepts a table, the integer sequence it hands to the fixed-point layer
    starts at `0` and never decreases -/
theorem fastSetup_some {F : Type} (o : FOps F) {B P : Nat} {probs : List F} {norm : Option F}
    {ctx : FastCtx F} (h : fastSetup o B P probs norm = some ctx) :
    probs.all (fun p => o.le o.zero p) = true ∧ ctx.n = probs.length ∧
      ctx.cumE = o.prefixSums o.zero probs := by
  unfold fastSetup at h
  simp only at h
  by_cases h1 : (!lenOk P probs.length) = true
  · rw [if_pos h1] at h; cases h
  · rw [if_neg h1] at h
    by_cases h2 : (!(probs.all (fun p => o.le o.zero p))) = true
    · rw [if_pos h2] at h; cases h
    · rw [if_neg h2] at h
      have hall : probs.all (fun p => o.le o.zero p) = true := by
        cases hb : probs.all (fun p => o.le o.zero p) with
        | true => rfl
        | false => rw [hb] at h2; simp at h2
      cases norm with
      | none =>
        simp only at h
        split at h
        · cases h
        · injection h with h
          subst h
          exact ⟨hall, rfl, rfl⟩
      | some x =>
        simp only at h
        split at h
        · cases h
        · injection h with h
          subst h
          exact ⟨hall, rfl, rfl⟩

/-- **TB-F1 is a theorem for the software IEEE model**: whenever the prologue of
    `fast_quantized_cdf` accepts a table, the integer sequence it hands to the fixed-point layer
    starts at `0` and never decreases -/
theorem soft_tbf1 (hp : 1 ≤ f.p) {B P : Nat} {probs : List SF} {norm : Option SF}
    {ctx : FastCtx SF} (h : fastSetup f.ops B P probs norm = some ctx) :
    TBF1Fast (ctx.hE f.ops B) ctx.n := by
  obtain ⟨hall, hn, hcum⟩ := fastSetup_some f.ops h
  have hall' : ∀ p ∈ probs, f.le (.fin false 0) p = true := by
    intro p hp'
    exact (List.all_eq_true.1 hall) p hp'
  constructor
  · intro i hi
    rw [hn] at hi
    show f.toUInt B (f.mul (ctx.cumE.getD i (.fin false 0)) _) ≤
         f.toUInt B (f.mul (ctx.cumE.getD (i + 1) (.fin false 0)) _)
    rw [hcum, prefixSums_getD, prefixSums_getD]
    exact psList_scaled_mono f hp _ B probs (.fin false 0) (by simp [SF.NN]) (rep_zero f)
      hall' i hi
  · show f.toUInt B (f.mul (ctx.cumE.getD 0 (.fin false 0)) _) = 0
    rw [hcum, prefixSums_getD, psList_head]
    exact mul_zero_toUInt f _ B

/-! ### eager and lazy encoder sum the same table from `+0.0` and from `-0.0`: same integers -/

/-- the two running sums are equal, or still the two zeros -/
def ZPair (c c' : SF) : Prop := c' = c ∨ (c = .fin false 0 ∧ c' = .fin true 0)

theorem zpair_step {c c' p : SF} (hz : ZPair c c') (ha : f.le (.fin false 0) p = true) :
    ZPair (f.add c p) (f.add c' p) := by
  rcases hz with h | ⟨h1, h2⟩
  · subst h; exact Or.inl rfl
  · subst h1; subst h2
    rcases admissible_cases f ha with h | ⟨k, h⟩ | h <;> subst h
    · left; simp [Fmt.add]
    · left
      by_cases hk : k = 0
      · subst hk
        simp [Fmt.add, roundMag_zero f 1 (by decide), SF.ofMag]
      · have hk' : 0 < k := Nat.pos_of_ne_zero hk
        have hne : ¬ (0 = k) := fun h => hk h.symm
        simp [Fmt.add, hne]
    · right
      simp [Fmt.add, roundMag_zero f 1 (by decide), SF.ofMag]

theorem mul_negzero_toUInt (s : SF) (B : Nat) : f.toUInt B (f.mul (.fin true 0) s) = 0 := by
  cases s with
  | nan => simp [Fmt.mul, Fmt.toUInt]
  | inf b => simp [Fmt.mul, Fmt.toUInt]
  | fin b ks =>
    simp only [Fmt.mul, Nat.zero_mul]
    rw [roundMag_zero f _ (two_pow_pos' _)]
    cases b <;> simp [SF.ofMag, Fmt.toUInt]

theorem zpair_scaled (s : SF) (B : Nat) {c c' : SF} (hz : ZPair c c') :
    f.toUInt B (f.mul c s) = f.toUInt B (f.mul c' s) := by
  rcases hz with h | ⟨h1, h2⟩
  · rw [h]
  · rw [h1, h2, mul_zero_toUInt, mul_negzero_toUInt]

theorem psList_zpair (s : SF) (B : Nat) :
    ∀ (probs : List SF) (c c' : SF), ZPair c c' →
      (∀ p ∈ probs, f.le (.fin false 0) p = true) → ∀ i,
        f.toUInt B (f.mul ((psList f.add c probs).getD i (.fin false 0)) s) =
        f.toUInt B (f.mul ((psList f.add c' probs).getD i (.fin false 0)) s) := by
  intro probs
  induction probs with
  | nil =>
    intro c c' hz _ i
    cases i with
    | zero => simpa [psList] using zpair_scaled f s B hz
    | succ j => simp [psList]
  | cons p ps ih =>
    intro c c' hz hall i
    cases i with
    | zero => simpa [psList] using zpair_scaled f s B hz
    | succ j =>
      simp only [psList, List.getD_cons_succ]
      exact ih _ _ (zpair_step f hz (hall p (by simp))) (fun q hq => hall q (by simp [hq])) j

theorem fastSetup_cumL {F : Type} (o : FOps F) {B P : Nat} {probs : List F} {norm : Option F}
    {ctx : FastCtx F} (h : fastSetup o B P probs norm = some ctx) :
    ctx.cumL = o.prefixSums o.negZero probs := by
  unfold fastSetup at h
  simp only at h
  by_cases h1 : (!lenOk P probs.length) = true
  · rw [if_pos h1] at h; cases h
  · rw [if_neg h1] at h
    by_cases h2 : (!(probs.all (fun p => o.le o.zero p))) = true
    · rw [if_pos h2] at h; cases h
    · rw [if_neg h2] at h
      cases norm with
      | none =>
        simp only at h
        split at h
        · cases h
        · injection h with h; subst h; rfl
      | some x =>
        simp only at h
        split at h
        · cases h
        · injection h with h; subst h; rfl

/-- **the lazy encoder's sums (started at `-0.0`) give the same integers as the eager sums
    (started at `+0.0`)**, at every index — what the driver's `mono=` certificate compares -/
theorem soft_hL_eq_hE {B P : Nat} {probs : List SF} {norm : Option SF}
    {ctx : FastCtx SF} (h : fastSetup f.ops B P probs norm = some ctx) (i : Nat) :
    ctx.hL f.ops B i = ctx.hE f.ops B i := by
  obtain ⟨hall, _, hcum⟩ := fastSetup_some f.ops h
  have hcumL := fastSetup_cumL f.ops h
  have hall' : ∀ p ∈ probs, f.le (.fin false 0) p = true := fun p hp' =>
    (List.all_eq_true.1 hall) p hp'
  show f.toUInt B (f.mul (ctx.cumL.getD i (.fin false 0)) _) =
       f.toUInt B (f.mul (ctx.cumE.getD i (.fin false 0)) _)
  rw [hcum, hcumL, prefixSums_getD, prefixSums_getD]
  exact (psList_zpair f _ B probs (.fin false 0) (.fin true 0) (Or.inr ⟨rfl, rfl⟩) hall' i).symm

/-! ### the leaky quantizer: `GOk` from the contract of the caller's `Distribution`

`LeakilyQuantizedDistribution` computes `g s = (free_weight * distribution(s - 0.5)) as Probability`
with `free_weight : F` obtained from a `Probability` by the lossless `Into<F>` (so it is exact).
If the values the caller's `Distribution` returns are in `[0, 1]` and do not decrease — the
documented contract of a cumulative distribution function — then `g` does not decrease and is
bounded by `free`: the hypothesis `GOk` of the integer layer. -/

theorem mul_comm' (a b : SF) : f.mul a b = f.mul b a := by
  have hb : ∀ x y : Bool, (x != y) = (y != x) := by decide
  cases a with
  | nan => cases b <;> simp [Fmt.mul]
  | inf x =>
    cases b with
    | nan => simp [Fmt.mul]
    | inf y => simp only [Fmt.mul]; rw [hb]
    | fin y k => simp only [Fmt.mul]; rw [hb]
  | fin x k =>
    cases b with
    | nan => simp [Fmt.mul]
    | inf y => simp only [Fmt.mul]; rw [hb]
    | fin y k' => simp only [Fmt.mul]; rw [hb, Nat.mul_comm]

/-- a value in `[0, 1]`: finite, non-negative, at most `1.0 = 2^M` units -/
def SF.Unit01 (f : Fmt) : SF → Prop
  | .fin false k => k ≤ 2 ^ f.M
  | _ => False

theorem SF.Unit01.nn {f : Fmt} {c : SF} (h : SF.Unit01 f c) : c.NN := by
  cases c with
  | fin n k => cases n <;> simp_all [SF.Unit01, SF.NN]
  | _ => simp [SF.Unit01] at h

/-- an unsigned integer below `2^p` converts exactly -/
theorem ofNat_exact (hp : 1 ≤ f.p) (hM : f.M ≤ f.expMask - 2) {n : Nat} (hn : n < 2 ^ f.p) :
    f.ofNat n = .fin false (n * 2 ^ f.M) ∧ Rep f (n * 2 ^ f.M) := by
  have hrep : Rep f (n * 2 ^ f.M) := by
    constructor
    · unfold Fmt.limit
      calc n * 2 ^ f.M < 2 ^ f.p * 2 ^ f.M := Nat.mul_lt_mul_of_pos_right hn (two_pow_pos' _)
        _ = 2 ^ (f.p + f.M) := (Nat.pow_add _ _ _).symm
        _ ≤ 2 ^ (f.p + (f.expMask - 2)) := Nat.pow_le_pow_right (by decide) (by omega)
    · by_cases h0 : n = 0
      · subst h0; left; simp; exact two_pow_pos' _
      · right
        rw [log2_mul_two_pow h0]
        have hl : n.log2 < f.p := (Nat.log2_lt h0).2 hn
        have : n.log2 + f.M + 1 - f.p ≤ f.M := by omega
        exact Nat.dvd_trans (Nat.pow_dvd_pow 2 this) (Nat.dvd_mul_left _ _)
  refine ⟨?_, hrep⟩
  unfold Fmt.ofNat
  rw [roundMag_self f hrep]; rfl

/-- **`GOk` from the CDF contract**: values in `[0, 1]` that do not decrease along the support -/
theorem leaky_gok_of_cdf (hp : 1 ≤ f.p) (hM : f.M ≤ f.expMask - 2) {m : LQ} (hfree : m.free < 2 ^ f.p)
    (hB : m.free < 2 ^ m.B) (cdf : Int → SF)
    (h01 : ∀ s, m.min < s → s ≤ m.max + 1 → SF.Unit01 f (cdf s))
    (hmono : ∀ s, m.min < s → s < m.max → SF.nnLe (cdf s) (cdf (s + 1))) :
    GOk m (fun s => f.toUInt m.B (f.mul (f.ofNat m.free) (cdf s))) := by
  obtain ⟨hof, hrep⟩ := ofNat_exact f hp hM hfree
  constructor
  · intro s h1 h2
    show f.toUInt m.B (f.mul (f.ofNat m.free) (cdf s)) ≤ f.toUInt m.B (f.mul (f.ofNat m.free) (cdf (s + 1)))
    rw [mul_comm' f (f.ofNat m.free), mul_comm' f (f.ofNat m.free)]
    exact mul_toUInt_mono f hp (h01 s h1 (by omega)).nn (h01 (s + 1) (by omega) (by omega)).nn
      (hmono s h1 h2) _ _
  · intro s h1 h2
    show f.toUInt m.B (f.mul (f.ofNat m.free) (cdf s)) ≤ m.free
    have hc := h01 s h1 (by omega)
    rw [hof]
    cases hcs : cdf s with
    | nan => rw [hcs] at hc; simp [SF.Unit01] at hc
    | inf b => rw [hcs] at hc; simp [SF.Unit01] at hc
    | fin n k =>
      rw [hcs] at hc
      cases n with
      | true => simp [SF.Unit01] at hc
      | false =>
        have hk : k ≤ 2 ^ f.M := hc
        have hD := two_pow_pos' f.M
        -- the product is at most `free * 1.0`, which is `free` exactly
        have hm := roundMag_mono f hp (a := m.free * 2 ^ f.M * k) (b := 2 ^ f.M)
          (c := m.free * 2 ^ f.M) (d := 1) hD (by decide)
          (by rw [Nat.mul_one]; exact Nat.mul_le_mul_left _ hk)
        rw [roundMag_self f hrep] at hm
        simp only [Fmt.mul, bne_self_eq_false]
        cases hr : roundMag f (m.free * 2 ^ f.M * k) (2 ^ f.M) with
        | none => rw [hr] at hm; simp [MagLe] at hm
        | some x =>
          rw [hr] at hm
          have hx : x ≤ m.free * 2 ^ f.M := hm
          simp only [SF.ofMag, Fmt.toUInt, Bool.false_eq_true, if_false]
          have h1 : x >>> f.M ≤ m.free := by
            rw [Nat.shiftRight_eq_div_pow]
            exact Nat.div_le_of_le_mul (by rw [Nat.mul_comm]; exact hx)
          omega

end CV.Quant
