import CV.Proofs.HuffHeap
/-!
# The binary tree computed by the merge loop

Every vertex of a `Tree` carries the index it has in the Rust arrays: leaves are symbols
`0 … n-1`, the internal node created in the `k`-th loop iteration is `n + k`.  `treeLoop`
replays the heap discipline of the two constructors for an arbitrary weight type (`WeightOps`;
`none` if an addition panics) and returns the tree by *splitting* the leaf that stands for a
merged pair — there is no forest.  Nothing in this file depends on the weight values.
-/
namespace CV.Huff

inductive Tree where
  | leaf (id : Nat)
  | node (id : Nat) (l r : Tree)
  deriving Repr, DecidableEq

namespace Tree

def rootId : Tree → Nat
  | leaf i => i
  | node i _ _ => i

/-- leaf labels, left to right -/
def leaves : Tree → List Nat
  | leaf i => [i]
  | node _ l r => l.leaves ++ r.leaves

/-- labels of internal nodes -/
def inner : Tree → List Nat
  | leaf _ => []
  | node i l r => i :: (l.inner ++ r.inner)

def height : Tree → Nat
  | leaf _ => 0
  | node _ l r => max l.height r.height + 1

/-- replace every leaf `z` by an internal node `z` with children `leaf a`, `leaf b` -/
def split (z a b : Nat) : Tree → Tree
  | leaf x => if x = z then node z (leaf a) (leaf b) else leaf x
  | node i l r => node i (split z a b l) (split z a b r)

/-- root-to-leaf path of the (first) leaf labelled `s`; `false` = child 0 -/
def code (s : Nat) : Tree → Option (List Bool)
  | leaf i => if i = s then some [] else none
  | node _ l r =>
    match code s l with
    | some p => some (false :: p)
    | none =>
      match code s r with
      | some p => some (true :: p)
      | none => none

@[simp] theorem rootId_split (z a b : Nat) (t : Tree) : (split z a b t).rootId = t.rootId := by
  cases t with
  | leaf x => simp only [split]; split <;> simp_all [rootId]
  | node i l r => simp [split, rootId]

theorem split_of_not_mem (z a b : Nat) : ∀ (t : Tree), z ∉ t.leaves → split z a b t = t
  | leaf x, h => by
    simp only [leaves, List.mem_singleton] at h
    simp only [split]; rw [if_neg (fun e => h e.symm)]
  | node i l r, h => by
    simp only [leaves, List.mem_append, not_or] at h
    simp [split, split_of_not_mem z a b l h.1, split_of_not_mem z a b r h.2]

theorem leaves_split (z a b : Nat) : ∀ (t : Tree), z ∈ t.leaves → t.leaves.Nodup →
    (split z a b t).leaves.Perm (a :: b :: t.leaves.erase z)
  | leaf x, hm, _ => by
    simp only [leaves, List.mem_singleton] at hm
    subst hm
    simp [split, leaves]
  | node i l r, hm, hnd => by
    simp only [leaves] at hm hnd ⊢
    rw [List.nodup_append] at hnd
    obtain ⟨hl, hr, hdis⟩ := hnd
    simp only [split, leaves]
    by_cases hzl : z ∈ l.leaves
    · have hzr : z ∉ r.leaves := fun h => hdis z hzl z h rfl
      rw [split_of_not_mem z a b r hzr, List.erase_append_left _ hzl]
      exact (leaves_split z a b l hzl hl).append_right _
    · have hzr : z ∈ r.leaves := by
        rcases List.mem_append.mp hm with h | h
        · exact absurd h hzl
        · exact h
      rw [split_of_not_mem z a b l hzl, List.erase_append_right _ hzl]
      have h1 := (leaves_split z a b r hzr hr).append_left l.leaves
      refine h1.trans ?_
      have := @List.perm_middle _ a l.leaves (b :: r.leaves.erase z)
      refine this.trans (List.Perm.cons _ ?_)
      exact List.perm_middle

theorem inner_split_mem (z a b : Nat) : ∀ (t : Tree) (i : Nat),
    i ∈ (split z a b t).inner → i = z ∨ i ∈ t.inner
  | leaf x, i, h => by
    simp only [split] at h
    split at h
    · simp [inner] at h; exact Or.inl h
    · simp [inner] at h
  | node j l r, i, h => by
    simp only [split, inner, List.mem_cons, List.mem_append] at h ⊢
    rcases h with h | h | h
    · exact Or.inr (Or.inl h)
    · rcases inner_split_mem z a b l i h with h | h
      · exact Or.inl h
      · exact Or.inr (Or.inr (Or.inl h))
    · rcases inner_split_mem z a b r i h with h | h
      · exact Or.inl h
      · exact Or.inr (Or.inr (Or.inr h))

theorem inner_split_length (z a b : Nat) : ∀ (t : Tree), z ∈ t.leaves → t.leaves.Nodup →
    (split z a b t).inner.length = t.inner.length + 1
  | leaf x, hm, _ => by
    simp only [leaves, List.mem_singleton] at hm
    subst hm
    simp [split, inner]
  | node i l r, hm, hnd => by
    simp only [leaves] at hm hnd
    rw [List.nodup_append] at hnd
    obtain ⟨hl, hr, hdis⟩ := hnd
    simp only [split, inner, List.length_cons, List.length_append]
    by_cases hzl : z ∈ l.leaves
    · have hzr : z ∉ r.leaves := fun h => hdis z hzl z h rfl
      rw [split_of_not_mem z a b r hzr, inner_split_length z a b l hzl hl]; omega
    · have hzr : z ∈ r.leaves := by
        rcases List.mem_append.mp hm with h | h
        · exact absurd h hzl
        · exact h
      rw [split_of_not_mem z a b l hzl, inner_split_length z a b r hzr hr]; omega

theorem height_le_inner : ∀ (t : Tree), t.height ≤ t.inner.length
  | leaf _ => by simp [height]
  | node _ l r => by
    have := height_le_inner l
    have := height_le_inner r
    simp only [height, inner, List.length_cons, List.length_append]; omega

end Tree

section
variable {α : Type} (ops : WeightOps α)

/-- the heap holds pairwise distinct indices, all below the next fresh index -/
def HeapOK (heap : List (α × Nat)) (next : Nat) : Prop :=
  (heap.map (·.2)).Nodup ∧ ∀ p ∈ heap, p.2 < next

/-- the tree the two constructors build (`none`: an addition panicked) -/
def treeLoop : Nat → List (α × Nat) → Nat → Option Tree
  | 0, _, _ => none
  | fuel + 1, heap, next =>
    match popMin ops heap with
    | none => none
    | some (a, h1) =>
      match popMin ops h1 with
      | none => some (.leaf a.2)
      | some (b, h2) =>
        match addPush ops a.1 b.1 h2 with
        | .error _ => none
        | .ok w => (treeLoop fuel ((w, next) :: h2) (next + 1)).map (Tree.split next a.2 b.2)

variable {ops}

theorem pop2_perm {heap h1 h2 : List (α × Nat)} {a b : α × Nat}
    (e1 : popMin ops heap = some (a, h1)) (e2 : popMin ops h1 = some (b, h2)) :
    heap.Perm (a :: b :: h2) :=
  (popMin_perm e1).trans (List.Perm.cons _ (popMin_perm e2))

/-- facts about one loop iteration -/
theorem pop2_facts {heap h1 h2 : List (α × Nat)} {a b : α × Nat} {next : Nat}
    (hok : HeapOK heap next)
    (e1 : popMin ops heap = some (a, h1)) (e2 : popMin ops h1 = some (b, h2)) (w : α) :
    a.2 < next ∧ b.2 < next ∧ a.2 ≠ b.2 ∧ a.2 ∉ h2.map (·.2) ∧ b.2 ∉ h2.map (·.2) ∧
    heap.length = h2.length + 2 ∧ HeapOK ((w, next) :: h2) (next + 1) := by
  have hp := pop2_perm e1 e2
  have hpm := hp.map (·.2)
  have hnd : (a.2 :: b.2 :: h2.map (·.2)).Nodup := by
    simpa using hpm.nodup_iff.mp hok.1
  have hlt : ∀ p ∈ a :: b :: h2, p.2 < next := fun p hp' => hok.2 p (hp.mem_iff.mpr hp')
  have ha := hlt a (by simp)
  have hb := hlt b (by simp)
  simp only [List.nodup_cons, List.mem_cons, not_or] at hnd
  refine ⟨ha, hb, hnd.1.1, hnd.1.2, hnd.2.1, by simpa using hp.length_eq, ?_, ?_⟩
  · simp only [List.map_cons, List.nodup_cons]
    refine ⟨?_, hnd.2.2⟩
    intro hmem
    obtain ⟨p, hp1, hp2⟩ := List.mem_map.mp hmem
    have := hlt p (by simp [hp1])
    omega
  · intro p hp'
    rcases List.mem_cons.mp hp' with rfl | h
    · simp
    · have := hlt p (by simp [h]); omega

/-- shape facts about `treeLoop` -/
theorem treeLoop_spec : ∀ (fuel : Nat) (heap : List (α × Nat)) (next : Nat),
    HeapOK heap next → fuel = heap.length → ∀ T, treeLoop ops fuel heap next = some T →
      T.leaves.Perm (heap.map (·.2)) ∧
      (∀ i ∈ T.inner, next ≤ i ∧ i + 1 < next + heap.length) ∧
      T.inner.length + 1 = heap.length ∧
      (2 ≤ heap.length → T.rootId = next + heap.length - 2) ∧
      (∀ p, heap = [p] → T = .leaf p.2)
  | 0, heap, _, _, _, T, hT => by simp [treeLoop] at hT
  | fuel + 1, heap, next, hok, hf, T, hT => by
    simp only [treeLoop] at hT
    cases e1 : popMin ops heap with
    | none => simp [e1] at hT
    | some ah =>
      obtain ⟨a, h1⟩ := ah
      simp only [e1] at hT
      cases e2 : popMin ops h1 with
      | none =>
        simp only [e2] at hT
        injection hT with hT; subst hT
        have h1nil := (popMin_eq_none ops).mp e2
        subst h1nil
        have hp := popMin_perm e1
        have hheap : heap = [a] := List.perm_singleton.mp hp
        subst hheap
        refine ⟨by simp [Tree.leaves], by simp [Tree.inner], by simp [Tree.inner], by simp, ?_⟩
        intro p hp; simp at hp; subst hp; rfl
      | some bh =>
        obtain ⟨b, h2⟩ := bh
        simp only [e2] at hT
        cases hadd : addPush ops a.1 b.1 h2 with
        | error f => simp [hadd] at hT
        | ok w =>
          simp only [hadd, Option.map_eq_some_iff] at hT
          obtain ⟨T', hT', rfl⟩ := hT
          obtain ⟨ha, hb, hab, ha2, hb2, hlen, hok'⟩ := pop2_facts hok e1 e2 w
          have hp := pop2_perm e1 e2
          obtain ⟨hleaves, hinner, hcount, hroot, hsingle⟩ :=
            treeLoop_spec fuel ((w, next) :: h2) (next + 1) hok' (by simp; omega) T' hT'
          have hnd' : T'.leaves.Nodup := hleaves.nodup_iff.mpr hok'.1
          have hz : next ∈ T'.leaves := hleaves.mem_iff.mpr (by simp)
          refine ⟨?_, ?_, ?_, ?_, ?_⟩
          · refine (Tree.leaves_split next a.2 b.2 T' hz hnd').trans ?_
            have h3 : (T'.leaves.erase next).Perm (h2.map (·.2)) := by
              have := hleaves.erase next
              simpa using this
            refine ((h3.cons b.2).cons a.2).trans ?_
            simpa using (hp.map (·.2)).symm
          · intro i hi
            rcases Tree.inner_split_mem next a.2 b.2 T' i hi with rfl | hi'
            · omega
            · have := hinner i hi'
              simp only [List.length_cons] at this
              omega
          · rw [Tree.inner_split_length next a.2 b.2 T' hz hnd']
            simp only [List.length_cons] at hcount
            omega
          · intro _
            rw [Tree.rootId_split]
            by_cases h2e : h2 = []
            · subst h2e
              have := hsingle _ rfl
              subst this
              simp [Tree.rootId] at *; omega
            · have hl2 : 1 ≤ h2.length := by
                cases h2 with
                | nil => exact absurd rfl h2e
                | cons _ _ => simp
              have := hroot (by simp; omega)
              simp only [List.length_cons] at this
              omega
          · intro p hp'
            subst hp'
            simp at hlen

end

end CV.Huff
