import CV.Proofs.HuffOpt
/-!
# Optimality, stated for encoder arrays, code trees and arbitrary prefix-free codes
-/
namespace CV.Huff

theorem zipIdx_eq_map_range (ws : List Nat) :
    ws.zipIdx = (List.range ws.length).map (fun s => (ws.getD s 0, s)) := by
  apply List.ext_getElem
  · simp
  · intro i h1 h2
    have hi : i < ws.length := by simpa using h1
    simp [List.getElem_zipIdx, List.getD_eq_getElem?_getD, hi]

theorem sum_zipIdx (ws : List Nat) (f : Nat → Nat → Nat) :
    (ws.zipIdx.map (fun p => f p.1 p.2)).sum =
      ((List.range ws.length).map (fun s => f (ws.getD s 0) s)).sum := by
  rw [zipIdx_eq_map_range]; simp [List.map_map, Function.comp_def]

theorem sum_map_le {α : Type} {l : List α} {f g : α → Nat} (h : ∀ x ∈ l, f x ≤ g x) :
    (l.map f).sum ≤ (l.map g).sum := by
  induction l with
  | nil => simp
  | cons x xs ih =>
    have := h x (by simp)
    have := ih (fun y hy => h y (by simp [hy]))
    simp only [List.map_cons, List.sum_cons]; omega

/-- the two ways of writing the cost of a code tree coincide -/
theorem Tree.wcost_eq_cost (ws : List Nat) {U : Tree} (hU : U.IsCodeTree ws.length) :
    U.wcost ws = Tree.cost (fun s => ws.getD s 0) U := by
  have hnd : U.leaves.Nodup := hU.nodup_iff.mpr List.nodup_range
  rw [Tree.cost_eq_sum _ U hnd, Tree.wcost, sum_zipIdx ws (fun w s => w * U.depth s)]
  exact ((hU.map _).sum_nat).symm

theorem Built.codeCost_eq {ws : List Nat} {en : List Nat} {dn : List (Nat × Nat)} {T : Tree}
    (B : Built ws.length en dn T) : codeCost ws en = T.wcost ws := by
  simp only [codeCost, Tree.wcost]
  congr 1
  apply List.map_congr_left
  intro p hp
  obtain ⟨x, i⟩ := p
  have := List.mem_zipIdx hp
  rw [B.wordLen_eq (by simp; omega)]

/-- optimality among code trees (exact sums) -/
theorem huffTree_optimal {ws : List Nat} {T : Tree}
    (hT : huffTree exactOps ws = some T) {U : Tree} (hU : U.IsCodeTree ws.length) :
    T.wcost ws ≤ U.wcost ws := by
  have hlen : ws.zipIdx.length = ws.length := by simp
  have hok := heapOK_zipIdx ws
  unfold huffTree at hT
  obtain ⟨hleaves, _⟩ := treeLoop_spec ws.length ws.zipIdx ws.length hok hlen.symm T hT
  have hids : ws.zipIdx.map (·.2) = List.range ws.length := by
    have := List.zipIdx_map_snd 0 ws
    simp [List.range_eq_range', this]
  have hTc : T.IsCodeTree ws.length := by
    unfold Tree.IsCodeTree; rw [← hids]; exact hleaves
  rw [Tree.wcost_eq_cost ws hTc, Tree.wcost_eq_cost ws hU]
  refine treeLoop_optimal ws.length ws.zipIdx ws.length _ hok hlen.symm ?_ T hT U
    (by rw [hids]; exact hU)
  intro p hp
  obtain ⟨x, i⟩ := p
  have := List.mem_zipIdx hp
  simp only [List.getD_eq_getElem?_getD]
  have hi : i < ws.length := by omega
  simp [hi, this.2.2]

/-! ## from a prefix-free assignment of bit strings to a code tree that is at least as good -/

theorem exists_tree_of_prefix_free : ∀ (D : Nat) (S : List Nat) (c : Nat → List Bool),
    S ≠ [] → S.Nodup → (∀ s ∈ S, (c s).length ≤ D) →
    (∀ s1 ∈ S, ∀ s2 ∈ S, c s1 <+: c s2 → s1 = s2) →
    ∃ U : Tree, U.leaves.Perm S ∧ ∀ s ∈ S, U.depth s ≤ (c s).length := by
  intro D
  induction D with
  | zero =>
    intro S c hne hnd hD hpf
    match S, hne with
    | [s], _ => exact ⟨.leaf s, by simp [Tree.leaves], by simp [Tree.depth, Tree.code]⟩
    | s1 :: s2 :: rest, _ =>
      have h1 : c s1 = [] := List.eq_nil_of_length_eq_zero (Nat.le_zero.mp (hD s1 (by simp)))
      have := hpf s1 (by simp) s2 (by simp) (by rw [h1]; exact List.nil_prefix)
      simp only [List.nodup_cons, List.mem_cons, not_or] at hnd
      exact absurd this hnd.1.1
  | succ D ih =>
    intro S c hne hnd hD hpf
    match S, hne with
    | [s], _ => exact ⟨.leaf s, by simp [Tree.leaves], by simp [Tree.depth, Tree.code]⟩
    | s1 :: s2 :: rest, _ =>
      -- no codeword is empty
      have hnonempty : ∀ s ∈ s1 :: s2 :: rest, c s ≠ [] := by
        intro s hs he
        have hnd' := hnd
        simp only [List.nodup_cons, List.mem_cons, not_or] at hnd'
        by_cases hs1 : s = s1
        · have := hpf s hs s2 (by simp) (by rw [he]; exact List.nil_prefix)
          exact hnd'.1.1 (hs1 ▸ this)
        · have := hpf s hs s1 (by simp) (by rw [he]; exact List.nil_prefix)
          exact hs1 this
      let S' := s1 :: s2 :: rest
      let p : Nat → Bool := fun s => (c s).head? == some false
      let S0 := S'.filter p
      let S1 := S'.filter (fun s => !p s)
      let c' : Nat → List Bool := fun s => (c s).tail
      have hperm : (S0 ++ S1).Perm S' := List.filter_append_perm p S'
      have hnd01 : (S0 ++ S1).Nodup := hperm.nodup_iff.mpr hnd
      rw [List.nodup_append] at hnd01
      obtain ⟨hnd0, hnd1, hdis⟩ := hnd01
      have hc0 : ∀ s ∈ S0, c s = false :: c' s := by
        intro s hs
        have := (List.mem_filter.mp hs)
        have hne' := hnonempty s this.1
        have hp : p s = true := this.2
        match hcs : c s with
        | [] => exact absurd hcs hne'
        | true :: t => simp [p, hcs] at hp
        | false :: t => simp [c', hcs]
      have hc1 : ∀ s ∈ S1, c s = true :: c' s := by
        intro s hs
        have := (List.mem_filter.mp hs)
        have hne' := hnonempty s this.1
        have hp : (!p s) = true := this.2
        match hcs : c s with
        | [] => exact absurd hcs hne'
        | false :: t => simp [p, hcs] at hp
        | true :: t => simp [c', hcs]
      have hlen0 : ∀ s ∈ S0, (c' s).length ≤ D := by
        intro s hs
        have := hD s (List.mem_filter.mp hs).1
        rw [hc0 s hs] at this; simpa using this
      have hlen1 : ∀ s ∈ S1, (c' s).length ≤ D := by
        intro s hs
        have := hD s (List.mem_filter.mp hs).1
        rw [hc1 s hs] at this; simpa using this
      have hpf0 : ∀ s ∈ S0, ∀ t ∈ S0, c' s <+: c' t → s = t := by
        intro s hs t ht hst
        refine hpf s (List.mem_filter.mp hs).1 t (List.mem_filter.mp ht).1 ?_
        rw [hc0 s hs, hc0 t ht]; exact (List.prefix_cons_inj _).mpr hst
      have hpf1 : ∀ s ∈ S1, ∀ t ∈ S1, c' s <+: c' t → s = t := by
        intro s hs t ht hst
        refine hpf s (List.mem_filter.mp hs).1 t (List.mem_filter.mp ht).1 ?_
        rw [hc1 s hs, hc1 t ht]; exact (List.prefix_cons_inj _).mpr hst
      by_cases h0 : S0 = []
      · -- everything starts with `true`: drop the first bit
        have hS1 : S1.Perm S' := by simpa [h0] using hperm
        have hne1 : S1 ≠ [] := by
          intro h; have := hS1.length_eq; simp [h, S'] at this
        obtain ⟨U, hU, hdep⟩ := ih S1 c' hne1 hnd1 hlen1 hpf1
        refine ⟨U, hU.trans hS1, ?_⟩
        intro s hs
        have hs1 : s ∈ S1 := hS1.mem_iff.mpr hs
        have := hdep s hs1
        rw [hc1 s hs1]; simp; omega
      · by_cases h1 : S1 = []
        · have hS0 : S0.Perm S' := by simpa [h1] using hperm
          obtain ⟨U, hU, hdep⟩ := ih S0 c' h0 hnd0 hlen0 hpf0
          refine ⟨U, hU.trans hS0, ?_⟩
          intro s hs
          have hs0 : s ∈ S0 := hS0.mem_iff.mpr hs
          have := hdep s hs0
          rw [hc0 s hs0]; simp; omega
        · obtain ⟨U0, hU0, hdep0⟩ := ih S0 c' h0 hnd0 hlen0 hpf0
          obtain ⟨U1, hU1, hdep1⟩ := ih S1 c' h1 hnd1 hlen1 hpf1
          refine ⟨.node 0 U0 U1, ?_, ?_⟩
          · simp only [Tree.leaves]
            exact (hU0.append hU1).trans hperm
          · intro s hs
            rcases List.mem_append.mp (hperm.mem_iff.mpr hs) with hs0 | hs1
            · rw [Tree.depth_node_left (hU0.mem_iff.mpr hs0), hc0 s hs0]
              have := hdep0 s hs0
              simp; omega
            · have hnl : s ∉ U0.leaves := fun h =>
                hdis s (hU0.mem_iff.mp h) s hs1 rfl
              rw [Tree.depth_node_right hnl (hU1.mem_iff.mpr hs1), hc1 s hs1]
              have := hdep1 s hs1
              simp; omega

/-- optimality among all prefix-free codes -/
theorem huffTree_optimal_codes {ws : List Nat} (hn : 0 < ws.length) {T : Tree}
    (hT : huffTree exactOps ws = some T) {c : Nat → List Bool} (hc : PrefixFree ws.length c) :
    T.wcost ws ≤ assignCost ws c := by
  -- a bound on all codeword lengths
  let D := ((List.range ws.length).map (fun s => (c s).length)).sum
  have hD : ∀ s ∈ List.range ws.length, (c s).length ≤ D := by
    intro s hs
    have := List.perm_cons_erase hs
    have h2 := (this.map (fun s => (c s).length)).sum_nat
    simp only [List.map_cons, List.sum_cons] at h2
    show (c s).length ≤ ((List.range ws.length).map (fun s => (c s).length)).sum
    omega
  obtain ⟨U, hU, hdep⟩ := exists_tree_of_prefix_free D (List.range ws.length) c
    (by
      intro h
      have : (List.range ws.length).length = 0 := by rw [h]; rfl
      rw [List.length_range] at this; omega) List.nodup_range hD
    (fun s1 h1 s2 h2 hp => hc s1 s2 (by simpa using h1) (by simpa using h2) hp)
  refine Nat.le_trans (huffTree_optimal hT (U := U) hU) ?_
  simp only [Tree.wcost, assignCost]
  apply sum_map_le
  intro p hp
  obtain ⟨x, i⟩ := p
  have := List.mem_zipIdx hp
  exact Nat.mul_le_mul_left _ (hdep i (by simp; omega))

end CV.Huff
