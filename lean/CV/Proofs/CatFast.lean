import CV.Proofs.CatUniform
/-!
# The symbol/cdf glue of the `…_fast` constructors (D13)

`fast_quantized_cdf` (component `quant`) yields one left cumulative per weight.  After the
repair, none of the three non-contiguous `…_fast` constructors returns a model if the number
of symbols differs from the number of weights.
-/
namespace CV.Cat
open CV

theorem NcDec.fromSymbolsAndCdf_mismatch {Sym : Type} {B P : Nat} {syms : List Sym} {cdf : List Nat}
    (h : syms.length ≠ cdf.length) : NcDec.fromSymbolsAndCdf B P syms cdf = .ok none := by
  unfold NcDec.fromSymbolsAndCdf
  simp only [List.length_zip]
  rw [if_pos]
  rcases Nat.lt_or_gt_of_ne h with h | h
  · left; omega
  · right; omega

theorem NcDec.fromSymbolsAndCdf_match {Sym : Type} {B P : Nat} {syms : List Sym} {cdf : List Nat}
    (h : syms.length = cdf.length) (hne : cdf ≠ []) :
    ∃ last, NcDec.fromSymbolsAndCdf B P syms cdf =
      .ok (some { cdf := cdf.zip syms ++ [(wrappingPow2 B P, last)] }) := by
  unfold NcDec.fromSymbolsAndCdf
  simp only [List.length_zip]
  rw [if_neg (by omega)]
  cases hl : (cdf.zip syms).getLast? with
  | none =>
    exfalso
    have := List.getLast?_eq_none_iff.mp hl
    have hz : (cdf.zip syms).length = 0 := by rw [this]; rfl
    rw [List.length_zip, h, Nat.min_self] at hz
    exact hne (List.length_eq_zero_iff.mp hz)
  | some x => obtain ⟨c, last⟩ := x; exact ⟨last, rfl⟩

/-- the loop consumes exactly one symbol per right cumulative -/
theorem NcEnc.fromCdfLoop_some {Sym : Type} [DecidableEq Sym] {left : Nat} {cdf : List Nat}
    {syms rest : List Sym} {t t' : List (Sym × Nat × Nat)} {left' : Nat}
    (h : NcEnc.fromCdfLoop left cdf syms t = .ok (some (left', rest, t'))) :
    syms.length = cdf.length + rest.length := by
  induction cdf generalizing left syms t with
  | nil => simp [NcEnc.fromCdfLoop] at h; simp [h.2.1]
  | cons r cdf ih =>
    cases syms with
    | nil => simp [NcEnc.fromCdfLoop] at h
    | cons s syms =>
      simp only [NcEnc.fromCdfLoop] at h
      cases hg : NcEnc.get t s with
      | some v => simp [hg] at h
      | none =>
        simp only [hg] at h
        unfold csub at h
        by_cases hle : left ≤ r
        · rw [if_pos hle] at h
          simp only at h
          by_cases hp : r - left = 0
          · simp [hp] at h
          · rw [if_neg hp] at h
            have := ih h
            simp only [List.length_cons]; omega
        · rw [if_neg hle] at h; simp at h

theorem NcEnc.fromSymbolsAndCdf_mismatch {Sym : Type} [DecidableEq Sym] {B P : Nat}
    {syms : List Sym} {cdf : List Nat} {m : NcEnc Sym}
    (h : NcEnc.fromSymbolsAndCdf B P syms cdf = .ok (some m)) : syms.length = cdf.length := by
  unfold NcEnc.fromSymbolsAndCdf at h
  cases cdf with
  | nil => simp at h
  | cons left cdf =>
    simp only at h
    cases hl : NcEnc.fromCdfLoop left cdf syms [] with
    | error f => simp [hl] at h
    | ok o =>
      cases o with
      | none => simp [hl] at h
      | some x =>
        obtain ⟨left', rest, t⟩ := x
        simp only [hl] at h
        have hlen := NcEnc.fromCdfLoop_some hl
        cases rest with
        | nil => simp at h
        | cons s rest =>
          simp only at h
          cases hi : NcEnc.insertNew t s left' (wsub B (wrappingPow2 B P) left') with
          | none => simp [hi] at h
          | some t' =>
            simp only [hi] at h
            cases rest with
            | nil => simp only [List.length_cons, List.length_nil] at hlen ⊢; omega
            | cons x rest => simp at h

theorem NcLookup.fastLoop_some {Sym : Type} {B left : Nat} {cdf : List Nat}
    {syms rest : List Sym} {t t' : List (Sym × Nat × Nat)}
    (h : NcLookup.fastLoop B left cdf syms t = .ok (some (rest, t'))) :
    syms.length = cdf.length + rest.length := by
  induction cdf generalizing left syms t with
  | nil => simp [NcLookup.fastLoop] at h; simp [h.1]
  | cons r cdf ih =>
    cases syms with
    | nil => simp [NcLookup.fastLoop] at h
    | cons s syms =>
      simp only [NcLookup.fastLoop] at h
      by_cases hp : wsub B r left = 0
      · simp [hp] at h
      · rw [if_neg hp] at h
        have := ih h
        simp only [List.length_cons]; omega

theorem NcLookup.fromSymbolsAndCdf_mismatch {Sym : Type} {B P : Nat}
    {syms : List Sym} {cdf : List Nat} {m : NcLookup Sym}
    (h : NcLookup.fromSymbolsAndCdf B P syms cdf = .ok (some m)) : syms.length = cdf.length := by
  unfold NcLookup.fromSymbolsAndCdf at h
  cases cdf with
  | nil => simp at h
  | cons left cdf =>
    simp only at h
    cases hl : NcLookup.fastLoop B left (cdf ++ [wrappingPow2 B P]) syms [] with
    | error f => simp [hl] at h
    | ok o =>
      cases o with
      | none => simp [hl] at h
      | some x =>
        obtain ⟨rest, t⟩ := x
        simp only [hl] at h
        have hlen := NcLookup.fastLoop_some hl
        cases rest with
        | nil => simp only [List.length_append, List.length_cons, List.length_nil] at hlen ⊢; omega
        | cons s rest => simp at h

end CV.Cat
