import CV.Model.Machine
/-!
# Arithmetic helper lemmas (core Lean only)

Bit operations are converted to `* / % +` once, here; everything else is `omega` plus a few
nonlinear facts about `/` and `%`.
-/
namespace CV

theorem two_pow_pos' (n : Nat) : 0 < 2^n := Nat.two_pow_pos n

theorem pow_split {a b : Nat} (h : b ≤ a) : 2^a = 2^(a-b) * 2^b := by
  rw [← Nat.pow_add]; congr 1; omega

theorem pow_le_pow2 {a b : Nat} (h : a ≤ b) : 2^a ≤ 2^b := Nat.pow_le_pow_right (by omega) h

/-- `(a << k) | b = a * 2^k + b` when `b < 2^k` -/
theorem shl_or_eq {a b k : Nat} (hb : b < 2^k) : (a <<< k) ||| b = a * 2^k + b := by
  rw [← Nat.shiftLeft_add_eq_or_of_lt hb, Nat.shiftLeft_eq]

theorem shr_eq (a k : Nat) : a >>> k = a / 2^k := Nat.shiftRight_eq_div_pow a k

theorem mul_add_mod_of_lt {a b q : Nat} (h : b < q) : (a * q + b) % q = b := by
  rw [Nat.add_comm, Nat.add_mul_mod_self_right, Nat.mod_eq_of_lt h]

theorem mul_add_div_of_lt {a b q : Nat} (h : b < q) : (a * q + b) / q = a := by
  have hq : 0 < q := by omega
  rw [Nat.add_comm, Nat.add_mul_div_right _ _ hq, Nat.div_eq_of_lt h, Nat.zero_add]

theorem div_lt_of_lt_mul' {a b c : Nat} (h : a < b * c) : a / b < c :=
  Nat.div_lt_of_lt_mul h

theorem div_mul_le' (a b : Nat) : a / b * b ≤ a := Nat.div_mul_le_self a b

theorem lt_mul_div_succ' (a : Nat) {b : Nat} (hb : 0 < b) : a < (a / b + 1) * b := by
  have := Nat.div_add_mod a b
  have h2 := Nat.mod_lt a hb
  rw [Nat.add_mul, Nat.one_mul]
  rw [Nat.mul_comm] at this
  omega

end CV
