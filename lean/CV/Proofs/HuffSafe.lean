import CV.Proofs.HuffKraft
/-!
# The unsafe-block obligations of `huffman.rs` (C20) and totality of decoding on arbitrary bits
-/
namespace CV.Huff

section
variable {α : Type} (ops : WeightOps α)

/-- `get_unchecked_mut(index0 / index1)` in the encoder constructor is in bounds for every
input and every weight type, also when an addition panics (then the loop stops before indexing) -/
theorem encLoop_no_ub : ∀ (fuel : Nat) (heap : List (α × Nat)) (arr : List Nat)
    (next : Nat), HeapOK heap next → fuel = heap.length → next + heap.length ≤ arr.length + 1 →
    ∀ site, encLoop ops fuel heap arr next ≠ .error (.ub site)
  | 0, _, _, _, _, _, _, site => by simp [encLoop]
  | fuel + 1, heap, arr, next, hok, hf, hlen, site => by
    cases e1 : popMin ops heap with
    | none => simp [encLoop, e1]
    | some ah =>
      obtain ⟨a, h1⟩ := ah
      cases e2 : popMin ops h1 with
      | none => simp [encLoop, e1, e2]
      | some bh =>
        obtain ⟨b, h2⟩ := bh
        cases hadd : addPush ops a.1 b.1 h2 with
        | error f =>
          simp only [encLoop, e1, e2, hadd]
          intro h; injection h with h; exact addPush_error ops hadd site h
        | ok w =>
          obtain ⟨ha, hb, hab, ha2, hb2, hl, hok'⟩ := pop2_facts hok e1 e2 w
          have haL : a.2 < arr.length := by omega
          have hbL : b.2 < (arr.set a.2 ((next <<< 1) % 2^64)).length := by simp; omega
          rcases cadd_cases "huff.enc.next" 64 next 1 with hc | hc
          · simp only [encLoop, e1, e2, hadd, haL, hbL, if_true, hc]
            exact encLoop_no_ub fuel ((w, next) :: h2) _ (next + 1) hok'
              (by simp; omega) (by simp; omega) site
          · have hbL' : b.2 < arr.length := by omega
            simp [encLoop, e1, e2, hadd, haL, hbL', hc]

theorem encTree_no_ub (ws : List α) (site : String) :
    encTree ops ws ≠ .error (.ub site) := by
  simp only [encTree]
  split
  · simp
  · next h =>
    have hlen : ws.zipIdx.length = ws.length := by simp
    exact encLoop_no_ub ops _ _ _ _ (by rw [hlen]; exact heapOK_zipIdx ws) rfl
      (by simp; omega) site

/-- the decoder constructor has no unsafe block; it never returns a `ub` fault -/
theorem decLoop_no_ub : ∀ (fuel : Nat) (heap : List (α × Nat)) (acc : List (Nat × Nat))
    (next : Nat) (site : String), decLoop ops fuel heap acc next ≠ .error (.ub site)
  | 0, _, _, _, site => by simp [decLoop]
  | fuel + 1, heap, acc, next, site => by
    cases e1 : popMin ops heap with
    | none => simp [decLoop, e1]
    | some ah =>
      obtain ⟨a, h1⟩ := ah
      cases e2 : popMin ops h1 with
      | none => simp [decLoop, e1, e2]
      | some bh =>
        obtain ⟨b, h2⟩ := bh
        cases hadd : addPush ops a.1 b.1 h2 with
        | error f =>
          simp only [decLoop, e1, e2, hadd]
          intro h; injection h with h; exact addPush_error ops hadd site h
        | ok w =>
          rcases cadd_cases "huff.dec.next" 64 next 1 with hc | hc
          · simp only [decLoop, e1, e2, hadd, hc]
            exact decLoop_no_ub fuel _ _ _ site
          · simp [decLoop, e1, e2, hadd, hc]

theorem decTree_no_ub (ws : List α) (site : String) :
    decTree ops ws ≠ .error (.ub site) := by
  simp only [decTree]
  split
  · simp
  · exact decLoop_no_ub ops _ _ _ _ site

end

/-- decoding an arbitrary source from any vertex of the tree: a leaf of that subtree and the
unconsumed rest, or the source ran out / failed.  Never an unchecked index out of bounds. -/
theorem decodeLoop_total {tab : List (Nat × Nat)} {n : Nat} : ∀ (t : Tree),
    DecDesc tab n t → (∀ s ∈ t.leaves, s < n) → t.leaves.Nodup → ∀ (src : List (Option Bool)),
    (∃ s p rest, decodeLoop tab n t.rootId src = .ok (s, rest) ∧ t.code s = some p ∧
        src = p.map some ++ rest) ∨
      decodeLoop tab n t.rootId src = .error .outOfData ∨
      decodeLoop tab n t.rootId src = .error .backend
  | .leaf i, _, hl, _, src => by
    left
    have hi : i < n := hl i (by simp [Tree.leaves])
    exact ⟨i, [], src, decodeLoop_leaf hi src, by simp [Tree.code], by simp⟩
  | .node i l r, hd, hl, hnd, src => by
    simp only [DecDesc] at hd
    obtain ⟨hi, htab, hdl, hdr⟩ := hd
    simp only [Tree.leaves] at hnd
    rw [List.nodup_append] at hnd
    obtain ⟨hndl, hndr, hdis⟩ := hnd
    have hll : ∀ s ∈ l.leaves, s < n := fun s hs => hl s (by simp [Tree.leaves, hs])
    have hlr : ∀ s ∈ r.leaves, s < n := fun s hs => hl s (by simp [Tree.leaves, hs])
    simp only [Tree.rootId]
    match src with
    | [] => right; left; simp [decodeLoop, hi]
    | none :: _ => right; right; simp [decodeLoop, hi]
    | some false :: rest =>
      rw [decodeLoop_step hi htab]
      rcases decodeLoop_total l hdl hll hndl rest with ⟨s, p, rest', h1, h2, h3⟩ | h | h
      · left
        refine ⟨s, false :: p, rest', by simpa using h1, by simp [Tree.code, h2], by simp [h3]⟩
      · right; left; simpa using h
      · right; right; simpa using h
    | some true :: rest =>
      rw [decodeLoop_step hi htab]
      rcases decodeLoop_total r hdr hlr hndr rest with ⟨s, p, rest', h1, h2, h3⟩ | h | h
      · left
        have hsl : s ∉ l.leaves := fun h => hdis s h s (Tree.mem_of_code h2) rfl
        refine ⟨s, true :: p, rest', by simpa using h1, ?_, by simp [h3]⟩
        simp [Tree.code, Tree.code_none_of_not_mem hsl, h2]
      · right; left; simpa using h
      · right; right; simpa using h

theorem Built.decode_total {n : Nat} {en : List Nat} {dn : List (Nat × Nat)} {T : Tree}
    (B : Built n en dn T) (src : List (Option Bool)) :
    (∃ s p rest, CV.Huff.decode dn src = .ok (s, rest) ∧ s < n ∧ encodePrefix en s = .ok p ∧
        src = p.map some ++ rest) ∨
      CV.Huff.decode dn src = .error .outOfData ∨ CV.Huff.decode dn src = .error .backend := by
  rw [B.decode_start]
  have hlt : ∀ s ∈ T.leaves, s < n := fun s hs => by simpa using B.leaves.mem_iff.mp hs
  have hnd : T.leaves.Nodup := B.leaves.nodup_iff.mpr List.nodup_range
  rcases decodeLoop_total T B.decDesc hlt hnd src with ⟨s, p, rest, h1, h2, h3⟩ | h | h
  · exact Or.inl ⟨s, p, rest, h1, B.code_lt h2, B.prefix h2, h3⟩
  · exact Or.inr (Or.inl h)
  · exact Or.inr (Or.inr h)

end CV.Huff
