import CV.Model.Backend
/-!
# `Vec`, `SmallVec`, iterator adapters, callback adapters

Stated over `Backend.step` / `Backend.run`, the same functions the driver executes.
-/
namespace CV.Backend

theorem Backend.run_append (a : List Op) : ∀ (b : Backend) (c : List Op),
    Backend.run b (a ++ c) =
      match (Backend.run b a).2 with
      | .ok b' => ((Backend.run b a).1 ++ (Backend.run b' c).1, (Backend.run b' c).2)
      | .error f => ((Backend.run b a).1, .error f) := by
  induction a with
  | nil => intro b c; simp [Backend.run]
  | cons op a ih =>
    intro b c
    simp only [List.cons_append, Backend.run]
    cases hstep : Backend.step b op with
    | error f => simp
    | ok p =>
      obtain ⟨o, b'⟩ := p
      simp only [ih b' c]
      cases h2 : (Backend.run b' a).2 <;> simp

/-- the driver's machine on a cursor kind is `Cur.run` -/
theorem Backend.run_cur (wr : Bool) (ops : List Op) : ∀ s : Cur,
    Backend.run (.cur wr s) ops =
      ((Cur.run wr s ops).1,
        match (Cur.run wr s ops).2 with
        | .ok s' => .ok (.cur wr s')
        | .error f => .error f) := by
  induction ops with
  | nil => intro s; simp [Backend.run, Cur.run]
  | cons op ops ih =>
    intro s
    cases h : Cur.step wr s op with
    | error f => simp [Backend.run, Backend.step, Cur.run, h]
    | ok p =>
      obtain ⟨o, s'⟩ := p
      simp [Backend.run, Backend.step, Cur.run, h, ih s']

/-! ## `Vec` -/

/-- LIFO, one step: reading after a write returns the word and restores the vector exactly -/
theorem VecB.read_write (v : VecB) (w : Nat) : (v.write w).read = (some w, v) := by
  simp [VecB.write, VecB.read]

theorem VecB.read_nil : (VecB.mk []).read = (none, ⟨[]⟩) := by
  simp [VecB.read]

theorem VecB.read_snoc (d : List Nat) (w : Nat) : (VecB.mk (d ++ [w])).read = (some w, ⟨d⟩) := by
  simp [VecB.read]

theorem Backend.run_vec_writes (ws : List Nat) : ∀ d : List Nat,
    Backend.run (.vec ⟨d⟩) (ws.map Op.write) =
      (List.replicate ws.length Out.ok, .ok (.vec ⟨d ++ ws⟩)) := by
  induction ws with
  | nil => intro d; simp [Backend.run]
  | cons w ws ih =>
    intro d
    simp [Backend.run, Backend.step, VecB.write, ih, List.replicate_succ]

/-- stack reads pop the words from the end -/
theorem Backend.run_vec_reads (ys : List Nat) : ∀ d : List Nat,
    Backend.run (.vec ⟨d ++ ys.reverse⟩) (List.replicate ys.length Op.readS) =
      (ys.map (fun w => Out.word (some w)), .ok (.vec ⟨d⟩)) := by
  induction ys with
  | nil => intro d; simp [Backend.run]
  | cons y ys ih =>
    intro d
    have h : d ++ (y :: ys).reverse = (d ++ ys.reverse) ++ [y] := by simp
    rw [h]
    simp only [List.length_cons, List.replicate_succ, Backend.run, Backend.step, VecB.read_snoc]
    simp [ih d]

/-- fused: an empty vector stays empty -/
theorem Backend.run_vec_empty (m : Nat) :
    Backend.run (.vec ⟨[]⟩) (List.replicate m Op.readS) =
      (List.replicate m (Out.word none), .ok (.vec ⟨[]⟩)) := by
  induction m with
  | zero => simp [Backend.run]
  | succ m ih => simp [List.replicate_succ, Backend.run, Backend.step, VecB.read_nil, ih]

/-- **LIFO** for `Vec`: any `k` writes (a `Vec` never refuses one) followed by `k` stack reads
    return the words in reverse and restore the vector exactly. -/
theorem Backend.vec_lifo (v : VecB) (ws : List Nat) :
    Backend.run (.vec v) (ws.map Op.write ++ List.replicate ws.length Op.readS) =
      (List.replicate ws.length Out.ok ++ ws.reverse.map (fun w => Out.word (some w)),
        .ok (.vec v)) := by
  cases v with
  | mk d =>
    rw [Backend.run_append, Backend.run_vec_writes]
    have := Backend.run_vec_reads ws.reverse d
    simp only [List.reverse_reverse, List.length_reverse] at this
    simp [this]

/-- **`remaining` is exact and reads are fused** for `Vec` -/
theorem Backend.vec_remaining_exact (v : VecB) (m : Nat) :
    Backend.run (.vec v) (List.replicate (v.remaining + m) Op.readS) =
      (v.data.reverse.map (fun w => Out.word (some w)) ++ List.replicate m (Out.word none),
        .ok (.vec ⟨[]⟩)) := by
  cases v with
  | mk d =>
    have h := Backend.run_vec_reads d.reverse []
    simp only [List.reverse_reverse, List.length_reverse, List.nil_append] at h
    rw [← List.replicate_append_replicate, Backend.run_append]
    simp [VecB.remaining, h, Backend.run_vec_empty]

/-- after the first `None` the vector is empty and unchanged -/
theorem VecB.read_none (v : VecB) (h : (v.read).1 = none) : (v.read).2 = v ∧ v.data = [] := by
  cases v with
  | mk d =>
    cases hd : d.getLast? with
    | none => simp [VecB.read, hd]; simpa using hd
    | some w => simp [VecB.read, hd] at h

theorem VecB.seek_pos (v : VecB) : v.seek v.pos = some v := by
  simp [VecB.seek, VecB.pos]

theorem VecB.seek_none_iff (v : VecB) (p : Nat) : v.seek p = none ↔ p > v.data.length := by
  unfold VecB.seek
  by_cases h : p ≤ v.data.length <;> simp [h]; omega

theorem VecB.seek_some (v : VecB) (p : Nat) (h : p ≤ v.data.length) :
    v.seek p = some ⟨v.data.take p⟩ ∧ (VecB.mk (v.data.take p)).pos = p := by
  simp [VecB.seek, h, VecB.pos, Nat.min_eq_left h]

theorem VecB.is_exhausted_iff (v : VecB) :
    v.isExhausted = true ↔ v.remaining = 0 := by
  simp [VecB.isExhausted]

theorem VecB.maybe_exhausted_iff (v : VecB) : v.maybeExhausted = v.isExhausted := by
  cases v with
  | mk d => cases d <;> simp [VecB.maybeExhausted, VecB.isExhausted, VecB.remaining]

/-! ## `SmallVec` behaves as `Vec` (the `spilled` flag is only visible in `raw`) -/

theorem SmallVecB.step_refines_vec (v : SmallVecB) (op : Op) (hraw : op ≠ .raw) :
    ∃ o v', Backend.step (.smallvec v) op = .ok (o, .smallvec v') ∧
      Backend.step (.vec v.toVec) op = .ok (o, .vec v'.toVec) := by
  cases op with
  | raw => exact absurd rfl hraw
  | readS =>
    cases hd : v.data.getLast? <;>
      exact ⟨_, _, rfl, by simp [Backend.step, SmallVecB.read, VecB.read, SmallVecB.toVec, hd]⟩
  | write w => exact ⟨_, _, rfl, by simp [Backend.step, SmallVecB.write, VecB.write, SmallVecB.toVec]⟩
  | extend ws =>
    exact ⟨_, _, rfl, by simp [Backend.step, SmallVecB.extendFromIter, VecB.extendFromIter, SmallVecB.toVec]⟩
  | remS => exact ⟨_, _, rfl, by simp [Backend.step, SmallVecB.remaining, VecB.remaining, SmallVecB.toVec]⟩
  | exhS =>
    exact ⟨_, _, rfl, by
      simp [Backend.step, SmallVecB.isExhausted, VecB.isExhausted, SmallVecB.remaining, VecB.remaining,
        SmallVecB.maybeExhausted, VecB.maybeExhausted, SmallVecB.toVec]⟩
  | full => exact ⟨_, _, rfl, by simp [Backend.step, SmallVecB.maybeFull, VecB.maybeFull, SmallVecB.toVec]⟩
  | pos => exact ⟨_, _, rfl, by simp [Backend.step, SmallVecB.pos, VecB.pos, SmallVecB.toVec]⟩
  | seek p =>
    by_cases h : p ≤ v.data.length
    · exact ⟨.ok, { v with data := v.data.take p }, by simp [Backend.step, SmallVecB.seek, h],
        by simp [Backend.step, VecB.seek, SmallVecB.toVec, h]⟩
    · exact ⟨.err, v, by simp [Backend.step, SmallVecB.seek, h],
        by simp [Backend.step, VecB.seek, SmallVecB.toVec, h]⟩
  | readQ => exact ⟨_, _, rfl, rfl⟩
  | remQ => exact ⟨_, _, rfl, rfl⟩
  | exhQ => exact ⟨_, _, rfl, rfl⟩
  | spaceLeft => exact ⟨_, _, rfl, rfl⟩
  | intoReversed => exact ⟨_, _, rfl, rfl⟩
  | roundtrip => exact ⟨_, _, rfl, rfl⟩
  | bmSet ws => exact ⟨_, _, rfl, rfl⟩

theorem SmallVecB.run_refines_vec (ops : List Op) : ∀ (v : SmallVecB), (∀ op ∈ ops, op ≠ .raw) →
    ∃ v', Backend.run (.smallvec v) ops = ((Backend.run (.vec v.toVec) ops).1, .ok (.smallvec v')) ∧
      (Backend.run (.vec v.toVec) ops).2 = .ok (.vec v'.toVec) := by
  induction ops with
  | nil => intro v _; exact ⟨v, rfl, rfl⟩
  | cons op ops ih =>
    intro v h
    obtain ⟨o, v1, h1, h2⟩ := SmallVecB.step_refines_vec v op (h op (by simp))
    obtain ⟨v2, h3, h4⟩ := ih v1 (fun o ho => h o (by simp [ho]))
    exact ⟨v2, by simp [Backend.run, h1, h2, h3], by simp [Backend.run, h2, h4]⟩

/-! ## iterator adapters -/

/-- what a `FallibleIteratorReadWords` read shows for an item -/
def itemOutF : Item → Out
  | .word w => .word (some w)
  | .err => .readErr

/-- what an `InfallibleIteratorReadWords` read shows for an item -/
def itemOutI (i : Item) : Out := .item (some i)

/-- the adapters implement `ReadWords` for every `Semantics` by the same code -/
theorem Backend.iterF_readS_eq_readQ (r : FallibleIter) :
    Backend.step (.iterF r) .readS = Backend.step (.iterF r) .readQ := rfl
theorem Backend.iterI_readS_eq_readQ (r : InfallibleIter) :
    Backend.step (.iterI r) .readS = Backend.step (.iterI r) .readQ := rfl

theorem Fuse.honestLen_eq_pending {α : Type} (s : List (Option α)) :
    Fuse.honestLen s = (Fuse.pending s).length := by
  induction s with
  | nil => rfl
  | cons a s ih => cases a <;> simp [Fuse.honestLen, Fuse.pending, ih]

/-- **`remaining`** of a live adapter = number of items before the wrapped iterator's next `None` -/
theorem FallibleIter.remaining_live (s : List (Option Item)) :
    (FallibleIter.mk ⟨s, false⟩).remaining = (Fuse.pending s).length := by
  simp [FallibleIter.remaining, Fuse.len, Fuse.honestLen_eq_pending]

theorem FallibleIter.remaining_done (s : List (Option Item)) :
    (FallibleIter.mk ⟨s, true⟩).remaining = 0 := by
  simp [FallibleIter.remaining, Fuse.len]

/-- once the `Fuse` is done, whatever the wrapped (non-fused) iterator would still yield is
    never looked at again -/
theorem Backend.iterF_done_outs (s : List (Option Item)) (m : Nat) :
    (Backend.run (.iterF ⟨⟨s, true⟩⟩) (List.replicate m Op.readQ)).1 =
      List.replicate m (Out.word none) := by
  induction m with
  | zero => simp [Backend.run]
  | succ m ih =>
    simp [List.replicate_succ, Backend.run, Backend.step, FallibleIter.read, Fuse.next, ih]

/-- **FIFO + fusedness + exactness of `remaining`** for `FallibleIteratorReadWords`: the
    reads return the items up to the wrapped iterator's first `None`, in order (an `Err` item
    as a read error, after which reading continues), and `Ok(None)` forever after — even if
    the wrapped iterator would yield more (`s` may contain holes). -/
theorem Backend.iterF_outs (s : List (Option Item)) (m : Nat) :
    (Backend.run (.iterF ⟨⟨s, false⟩⟩)
        (List.replicate ((Fuse.pending s).length + m) Op.readQ)).1 =
      (Fuse.pending s).map itemOutF ++ List.replicate m (Out.word none) := by
  induction s with
  | nil =>
    cases m with
    | zero => simp [Fuse.pending, Backend.run]
    | succ m =>
      have := Backend.iterF_done_outs [] m
      simp [Fuse.pending, List.replicate_succ, Backend.run, Backend.step, FallibleIter.read,
        Fuse.next, this]
  | cons a s ih =>
    cases a with
    | none =>
      cases m with
      | zero => simp [Fuse.pending, Backend.run]
      | succ m =>
        have := Backend.iterF_done_outs s m
        simp [Fuse.pending, List.replicate_succ, Backend.run, Backend.step, FallibleIter.read,
          Fuse.next, this]
    | some i =>
      have h : (Fuse.pending (some i :: s)).length + m = ((Fuse.pending s).length + m) + 1 := by
        simp [Fuse.pending]; omega
      rw [h, List.replicate_succ]
      cases i <;>
        simp [Fuse.pending, Backend.run, Backend.step, FallibleIter.read, Fuse.next, ih, itemOutF]

theorem Backend.iterI_done_outs (s : List (Option Item)) (m : Nat) :
    (Backend.run (.iterI ⟨⟨s, true⟩⟩) (List.replicate m Op.readQ)).1 =
      List.replicate m (Out.item none) := by
  induction m with
  | zero => simp [Backend.run]
  | succ m ih =>
    simp [List.replicate_succ, Backend.run, Backend.step, InfallibleIter.read, Fuse.next, ih]

theorem Backend.iterI_outs (s : List (Option Item)) (m : Nat) :
    (Backend.run (.iterI ⟨⟨s, false⟩⟩)
        (List.replicate ((Fuse.pending s).length + m) Op.readQ)).1 =
      (Fuse.pending s).map itemOutI ++ List.replicate m (Out.item none) := by
  induction s with
  | nil =>
    cases m with
    | zero => simp [Fuse.pending, Backend.run]
    | succ m =>
      have := Backend.iterI_done_outs [] m
      simp [Fuse.pending, List.replicate_succ, Backend.run, Backend.step, InfallibleIter.read,
        Fuse.next, this]
  | cons a s ih =>
    cases a with
    | none =>
      cases m with
      | zero => simp [Fuse.pending, Backend.run]
      | succ m =>
        have := Backend.iterI_done_outs s m
        simp [Fuse.pending, List.replicate_succ, Backend.run, Backend.step, InfallibleIter.read,
          Fuse.next, this]
    | some i =>
      have h : (Fuse.pending (some i :: s)).length + m = ((Fuse.pending s).length + m) + 1 := by
        simp [Fuse.pending]; omega
      rw [h, List.replicate_succ]
      simp [Fuse.pending, Backend.run, Backend.step, InfallibleIter.read, Fuse.next, ih, itemOutI]

/-- the first `Ok(None)` marks the `Fuse` as done (so `iterF_done_outs` applies) -/
theorem FallibleIter.read_none_done (r : FallibleIter) (h : (r.read).1 = .ok none) :
    (r.read).2.inner.done = true := by
  cases r with
  | mk f =>
    cases f with
    | mk s d =>
      cases d with
      | true => simp [FallibleIter.read, Fuse.next]
      | false =>
        cases s with
        | nil => simp [FallibleIter.read, Fuse.next]
        | cons a s =>
          cases a with
          | none => simp [FallibleIter.read, Fuse.next]
          | some i => cases i <;> simp [FallibleIter.read, Fuse.next] at h

/-! ## callback adapters -/

theorem Callback.write_ok_iff (cb : Callback) (w : Nat) :
    (cb.write w).1 = true ↔ cb.failAt.contains cb.calls = false := by
  unfold Callback.write
  cases h : cb.failAt.contains cb.calls <;> simp

theorem Callback.write_ok (cb : Callback) (w : Nat) (h : cb.failAt.contains cb.calls = false) :
    cb.write w = (true, { cb with log := cb.log ++ [w], calls := cb.calls + 1 }) := by
  unfold Callback.write; rw [h]; simp

theorem Callback.write_fail (cb : Callback) (w : Nat) (h : cb.failAt.contains cb.calls = true) :
    cb.write w = (false, { cb with calls := cb.calls + 1 }) := by
  unfold Callback.write; rw [h]; simp

/-- every word reaches the callback exactly once, in order, as long as it does not fail -/
theorem Backend.cbF_writes (ws : List Nat) : ∀ (cb : Callback),
    (∀ i, i < ws.length → cb.failAt.contains (cb.calls + i) = false) →
    Backend.run (.cbF cb) (ws.map Op.write) =
      (List.replicate ws.length Out.ok,
        .ok (.cbF { cb with log := cb.log ++ ws, calls := cb.calls + ws.length })) := by
  induction ws with
  | nil => intro cb _; simp [Backend.run]
  | cons w ws ih =>
    intro cb h
    have h0 : cb.failAt.contains cb.calls = false := by simpa using h 0 (by simp)
    have h' : ∀ i, i < ws.length →
        ({ cb with log := cb.log ++ [w], calls := cb.calls + 1 } : Callback).failAt.contains
          (({ cb with log := cb.log ++ [w], calls := cb.calls + 1 } : Callback).calls + i) = false := by
      intro i hi
      have := h (i + 1) (by simp; omega)
      simpa [Nat.add_assoc, Nat.add_comm 1 i] using this
    simp [Backend.run, Backend.step, Callback.write_ok cb w h0, ih _ h', List.replicate_succ,
      Nat.add_assoc, Nat.add_comm 1 ws.length]

/-- `extend_from_iter` = the writes, when none fails -/
theorem Callback.extend_ok (ws : List Nat) : ∀ (cb : Callback),
    (∀ i, i < ws.length → cb.failAt.contains (cb.calls + i) = false) →
    cb.extend ws = (.ok, { cb with log := cb.log ++ ws, calls := cb.calls + ws.length }) := by
  induction ws with
  | nil => intro cb _; simp [Callback.extend]
  | cons w ws ih =>
    intro cb h
    have h0 : cb.failAt.contains cb.calls = false := by simpa using h 0 (by simp)
    have h' : ∀ i, i < ws.length →
        ({ cb with log := cb.log ++ [w], calls := cb.calls + 1 } : Callback).failAt.contains
          (({ cb with log := cb.log ++ [w], calls := cb.calls + 1 } : Callback).calls + i) = false := by
      intro i hi
      have := h (i + 1) (by simp; omega)
      simpa [Nat.add_assoc, Nat.add_comm 1 i] using this
    simp [Callback.extend, Callback.write_ok cb w h0, ih _ h', Nat.add_assoc,
      Nat.add_comm 1 ws.length]

/-- `extend_from_iter` short-circuits at the first failing call: the failing word is consumed
    from the iterator and lost, the rest is left in it -/
theorem Callback.extend_fail_first (cb : Callback) (w : Nat) (ws : List Nat)
    (h : cb.failAt.contains cb.calls = true) :
    cb.extend (w :: ws) = (.extCbErr ws.length, { cb with calls := cb.calls + 1 }) := by
  simp [Callback.extend, Callback.write_fail cb w h]

/-! ## `Vec`: seeking back after appends restores; seeking forward is refused -/

/-- a position taken before appending can be sought back to, and that restores the vector -/
theorem VecB.seek_back_after_writes (v : VecB) (ws : List Nat) :
    (VecB.mk (v.data ++ ws)).seek v.pos = some v := by
  cases v with
  | mk d => simp [VecB.seek, VecB.pos]

theorem Backend.vec_seek_back (v : VecB) (ws : List Nat) :
    Backend.run (.vec v) (ws.map Op.write ++ [Op.seek v.pos]) =
      (List.replicate ws.length Out.ok ++ [Out.ok], .ok (.vec v)) := by
  cases v with
  | mk d =>
    rw [Backend.run_append, Backend.run_vec_writes]
    simp [Backend.run, Backend.step, VecB.pos, VecB.seek]

/-- by design (`Vec::seek` truncates, reads pop): after a successful read the old position is
    *beyond* the end and `seek` refuses it -/
theorem VecB.seek_forward_refused (v : VecB) (h : v.data ≠ []) :
    ((v.read).2).seek v.pos = none := by
  cases v with
  | mk d =>
    rcases List.eq_nil_or_concat d with rfl | ⟨d', w, rfl⟩
    · exact absurd rfl h
    · simp [VecB.read, VecB.seek, VecB.pos]

/-! ## callbacks, continued -/

/-- `InfallibleCallbackWriteWords`: every word reaches the callback once, in order, and the
    write cannot fail -/
theorem Backend.cbI_writes (ws : List Nat) : ∀ (cb : Callback), cb.failAt = [] →
    Backend.run (.cbI cb) (ws.map Op.write) =
      (List.replicate ws.length Out.ok,
        .ok (.cbI { cb with log := cb.log ++ ws, calls := cb.calls + ws.length })) := by
  induction ws with
  | nil => intro cb _; simp [Backend.run]
  | cons w ws ih =>
    intro cb h
    have h0 : cb.failAt.contains cb.calls = false := by simp [h]
    have h' : ({ cb with log := cb.log ++ [w], calls := cb.calls + 1 } : Callback).failAt = [] := h
    simp [Backend.run, Backend.step, Callback.write_ok cb w h0, ih _ h', List.replicate_succ,
      Nat.add_assoc, Nat.add_comm 1 ws.length]

theorem Backend.cbI_extend (cb : Callback) (h : cb.failAt = []) (ws : List Nat) :
    Backend.step (.cbI cb) (.extend ws) =
      .ok (.ok, .cbI { cb with log := cb.log ++ ws, calls := cb.calls + ws.length }) := by
  have := Callback.extend_ok ws cb (by intro i _; simp [h])
  simp [Backend.step, this]

/-- `extend_from_iter` stops at the **k-th** call when that is the first one to fail: the
    words before it are delivered, the failing word is consumed and lost, the rest stays in
    the iterator -/
theorem Callback.extend_fail_kth (pre : List Nat) : ∀ (cb : Callback) (w : Nat) (post : List Nat),
    (∀ i, i < pre.length → cb.failAt.contains (cb.calls + i) = false) →
    cb.failAt.contains (cb.calls + pre.length) = true →
    cb.extend (pre ++ w :: post) =
      (.extCbErr post.length,
        { cb with log := cb.log ++ pre, calls := cb.calls + pre.length + 1 }) := by
  induction pre with
  | nil =>
    intro cb w post _ hk
    have hk' : cb.failAt.contains cb.calls = true := by simpa using hk
    simp [Callback.extend, Callback.write_fail cb w hk']
  | cons a pre ih =>
    intro cb w post hpre hk
    have h0 : cb.failAt.contains cb.calls = false := by simpa using hpre 0 (by simp)
    have hpre' : ∀ i, i < pre.length →
        ({ cb with log := cb.log ++ [a], calls := cb.calls + 1 } : Callback).failAt.contains
          (({ cb with log := cb.log ++ [a], calls := cb.calls + 1 } : Callback).calls + i) = false := by
      intro i hi
      have := hpre (i + 1) (by simp; omega)
      simpa [Nat.add_assoc, Nat.add_comm 1 i] using this
    have hk' : ({ cb with log := cb.log ++ [a], calls := cb.calls + 1 } : Callback).failAt.contains
          (({ cb with log := cb.log ++ [a], calls := cb.calls + 1 } : Callback).calls + pre.length) = true := by
      simpa [Nat.add_assoc, Nat.add_comm 1 pre.length] using hk
    have := ih _ w post hpre' hk'
    simp [Callback.extend, Callback.write_ok cb a h0, this, Nat.add_assoc, Nat.add_comm 1 pre.length]

end CV.Backend
