import CV.Proofs.CatModels
/-!
# Completeness: valid input is accepted by every fixed-point constructor

(the converse of the C19 soundness theorems; with `infer_last_probability` at every
`1 ≤ P ≤ B`, which is what D8 broke at `P = B`)
-/
namespace CV.Cat
open CV

/-- converse of `accLoop_some` -/
theorem accLoop_of {σ Sym : Type} {B : Nat} {op : σ → Sym → Nat → Nat → Option σ}
    {ps : List Nat} {a : Acc σ Sym} {ss : List Sym} {rest : SymIter Sym} {st' : σ}
    (h1 : takeSyms a.syms ps.length = some (ss, rest))
    (h2 : foldOp op a.st (ss.zip ((leftsW B a.accum ps).zip ps)) = some st') :
    accLoop B op ps a = some { accum := sumW B a.accum ps, laps := a.laps + lapsOf B a.accum ps,
                               num := a.num + ps.length, syms := rest, st := st' } := by
  induction ps generalizing a ss with
  | nil =>
    simp only [List.length_nil, takeSyms, Option.some.injEq, Prod.mk.injEq] at h1
    obtain ⟨rfl, rfl⟩ := h1
    simp only [leftsW, List.zip_nil_right, foldOp, Option.some.injEq] at h2
    subst h2
    simp [accLoop, sumW, lapsOf]
  | cons p ps ih =>
    obtain ⟨s, it', ss', hn, ht, rfl⟩ := takeSyms_succ_inv h1
    simp only [leftsW, List.zip_cons_cons, foldOp] at h2
    cases hop : op a.st s a.accum p with
    | none => simp [hop] at h2
    | some st1 =>
      simp only [hop] at h2
      rw [accLoop, hn]
      simp only [hop]
      rw [ih (a := { accum := wadd B a.accum p, laps := a.laps + (if wadd B a.accum p ≤ a.accum then 1 else 0),
                     num := a.num + 1, syms := it', st := st1 }) ht h2]
      simp only [sumW, lapsOf, List.length_cons, Option.some.injEq, Acc.mk.injEq, true_and, and_true]
      omega

/-- **completeness of the validator** (no inference): a valid table is accepted whenever the
    symbol iterator is long enough and the closure accepts every row -/
theorem accumulate_of_valid {σ Sym : Type} {B P : Nat} {op : σ → Sym → Nat → Nat → Option σ}
    {syms rest : SymIter Sym} {qs : List Nat} {ss : List Sym} {st st' : σ}
    (hP : P ≤ B) (hv : ValidProbs P qs)
    (h1 : takeSyms syms qs.length = some (ss, rest))
    (h2 : foldOp op st (triples ss qs) = some st') :
    accumulate B P op syms qs st false = some (rest, st') := by
  have hlen := hv.1
  rcases List.eq_nil_or_concat qs with hnil | ⟨init, last, hcat⟩
  · subst hnil; simp at hlen
  · rw [List.concat_eq_append] at hcat
    subst hcat
    obtain ⟨a1, a2, a3, a4, a5, a6, a7⟩ := valid_init hP hv
    have hPB := pow_le_pow_of_le hP
    have h2P := two_pow_pos' P
    have hlastB : last < 2 ^ B := by omega
    have hw := wadd_eq (B := B) (a := init.sum) (b := last) (by omega) hlastB
    -- wrapped lefts are the true ones
    have hlefts : leftsW B 0 (init ++ [last]) = psums 0 (init ++ [last]) := by
      rw [leftsW_append, psums_append, a3, a2]; simp [leftsW, psums]
    unfold triples at h2
    rw [← hlefts] at h2
    unfold accumulate
    rw [accLoop_of (a := { accum := 0, laps := 0, num := 0, syms := syms, st := st }) h1 h2]
    simp only [Bool.false_eq_true, if_false, Nat.zero_add, Nat.add_zero]
    rw [if_neg (by omega)]
    rw [sumW_append, lapsOf_append, a1, a2]
    simp only [sumW, lapsOf, Nat.zero_add, Nat.add_zero]
    have hcond : ¬ (wadd B init.sum last ≠ wrappingPow2 B P ∨
        (if wadd B init.sum last ≤ init.sum then 1 else 0) ≠ (if P = B then 1 else 0)) := by
      rcases Nat.lt_or_ge P B with hlt | hge
      · have := pow_lt_pow_of_lt hlt
        rw [if_pos (by omega)] at hw
        rw [hw, wrappingPow2_of_lt hlt, if_neg (by omega), if_neg (by omega)]
        omega
      · have : P = B := by omega
        subst this
        rw [if_neg (by omega)] at hw
        rw [hw, wrappingPow2_self, if_pos (by omega), if_pos rfl]
        omega
    rw [if_neg hcond]

/-- **completeness with `infer_last_probability`** at every `1 ≤ P ≤ B` (D8) -/
theorem accumulate_infer_of_valid {σ Sym : Type} {B P : Nat} {op : σ → Sym → Nat → Nat → Option σ}
    {syms rest : SymIter Sym} {init : List Nat} {last : Nat} {ss : List Sym} {st st' : σ}
    (hP1 : 1 ≤ P) (hP : P ≤ B) (hv : ValidProbs P (init ++ [last]))
    (h1 : takeSyms syms (init.length + 1) = some (ss, rest))
    (h2 : foldOp op st (triples ss (init ++ [last])) = some st') :
    accumulate B P op syms init st true = some (rest, st') := by
  obtain ⟨a1, a2, a3, a4, a5, a6, a7⟩ := valid_init hP hv
  have hPB := pow_le_pow_of_le hP
  have h2P := two_pow_pos' P
  have hnum : 1 ≤ init.length := by
    have := List.length_pos_iff.mpr a7; omega
  -- split the symbols and the closure's run at the last row
  have hslen := takeSyms_length h1
  rcases List.eq_nil_or_concat ss with hnil | ⟨ss0, s, hcat⟩
  · subst hnil; simp at hslen
  · rw [List.concat_eq_append] at hcat
    subst hcat
    have hl0 : ss0.length = init.length := by simpa using hslen
    -- the first `init.length` symbols
    have hts : ∃ mid, takeSyms syms init.length = some (ss0, mid) ∧ mid.next = some (s, rest) := by
      cases ht : takeSyms syms init.length with
      | none =>
        exfalso
        -- `takeSyms (n+1)` fails if `takeSyms n` fails
        have : ∀ (n : Nat) (it : SymIter Sym), takeSyms it n = none → takeSyms it (n + 1) = none := by
          intro n
          induction n with
          | zero => intro it h; simp [takeSyms] at h
          | succ n ih =>
            intro it h
            rw [takeSyms] at h ⊢
            cases hn : it.next with
            | none => rfl
            | some x =>
              obtain ⟨s', it'⟩ := x
              simp only [hn] at h ⊢
              cases hh : takeSyms it' n with
              | none => rw [ih it' hh]
              | some y => simp [hh] at h
        rw [this _ _ ht] at h1; simp at h1
      | some x =>
        obtain ⟨ss1, mid⟩ := x
        have := takeSyms_succ ht
        rw [h1] at this
        cases hn : mid.next with
        | none => simp [hn] at this
        | some y =>
          obtain ⟨s', r'⟩ := y
          simp only [hn, Option.some.injEq, Prod.mk.injEq] at this
          obtain ⟨e1, e2⟩ := this
          have hl1 := takeSyms_length ht
          have : ss0 = ss1 ∧ s = s' := by
            have := List.append_inj e1 (by omega)
            exact ⟨this.1, by simpa using this.2⟩
          obtain ⟨rfl, rfl⟩ := this
          exact ⟨mid, rfl, by rw [e2]; exact hn⟩
    obtain ⟨mid, ht0, hnext⟩ := hts
    unfold triples at h2
    rw [psums_append] at h2
    simp only [psums, Nat.zero_add] at h2
    rw [List.zip_append (by simp), List.zip_append (by simp [hl0]), foldOp_append] at h2
    cases hf : foldOp op st (ss0.zip ((psums 0 init).zip init)) with
    | none => simp [hf] at h2
    | some st1 =>
      simp only [hf, Option.bind_some, List.zip_cons_cons, List.zip_nil_right, foldOp] at h2
      cases hop : op st1 s init.sum last with
      | none => simp [hop] at h2
      | some st2 =>
        simp only [hop, Option.some.injEq] at h2
        subst h2
        rw [← a3] at hf
        unfold accumulate
        rw [accLoop_of (a := { accum := 0, laps := 0, num := 0, syms := syms, st := st }) ht0 hf]
        simp only [if_true, Nat.zero_add, a1, a2]
        rw [if_neg (by omega)]
        have hc : ¬ (wsub B init.sum 1 ≥ wsub B (wrappingPow2 B P) 1 ∨ 0 ≠ 0) := by
          rw [wsub_total_one hP1 hP, wsub_of_le (by omega) (by omega)]
          omega
        rw [if_neg hc, hnext]
        simp only
        rw [wsub_total hP a4 (by omega)]
        have : 2 ^ P - init.sum = last := by omega
        rw [this, hop]


theorem takeSyms_list_all {Sym : Type} (l : List Sym) :
    takeSyms (.list l) l.length = some (l, .list []) := by
  induction l with
  | nil => rfl
  | cons x l ih => simp [takeSyms, SymIter.next, ih]

theorem triples_pos {Sym : Type} {ss : List Sym} {qs : List Nat} (hpos : ∀ q ∈ qs, 0 < q) :
    ∀ x ∈ triples ss qs, x.2.2 ≠ 0 := by
  intro x hx
  unfold triples at hx
  obtain ⟨s, l, p⟩ := x
  have h1 := (List.of_mem_zip hx).2
  have h2 := (List.of_mem_zip h1).2
  have := hpos p h2
  simp only; omega

/-- which full table a call describes -/
def fullTable (P : Nat) (probs : List Nat) (infer : Bool) : List Nat :=
  if infer then probs ++ [2 ^ P - probs.sum] else probs

/-- generic completeness in one statement -/
theorem accumulate_complete {σ Sym : Type} {B P : Nat} {op : σ → Sym → Nat → Nat → Option σ}
    {syms rest : SymIter Sym} {probs : List Nat} {infer : Bool} {ss : List Sym} {st st' : σ}
    (hP1 : 1 ≤ P) (hP : P ≤ B) (hv : ValidProbs P (fullTable P probs infer))
    (h1 : takeSyms syms (fullTable P probs infer).length = some (ss, rest))
    (h2 : foldOp op st (triples ss (fullTable P probs infer)) = some st') :
    accumulate B P op syms probs st infer = some (rest, st') := by
  cases infer with
  | false => exact accumulate_of_valid hP hv h1 h2
  | true =>
    simp only [fullTable, if_true] at hv h1 h2
    exact accumulate_infer_of_valid hP1 hP hv (by simpa using h1) h2

/-- **hash-table encoder model: accepted iff** the full table is valid, the counts match and
    the symbols are pairwise distinct -/
theorem NcEnc.fromFixed_iff {Sym : Type} [DecidableEq Sym] [Inhabited Sym] {B P : Nat}
    {syms : List Sym} {probs : List Nat} {infer : Bool}
    (hP1 : 1 ≤ P) (hP : P ≤ B) (hprobs : ∀ p ∈ probs, p < 2 ^ B) :
    (∃ m, NcEnc.fromSymbolsAndNonzeroFixedPoint B P syms probs infer = some m) ↔
      ValidProbs P (fullTable P probs infer) ∧ syms.length = (fullTable P probs infer).length ∧
        syms.Nodup := by
  constructor
  · rintro ⟨m, h⟩
    obtain ⟨qs, hv, hqs, hlen, hnd, _⟩ := NcEnc.fromFixed_some hP1 hP hprobs h
    have : qs = fullTable P probs infer := hqs
    subst this
    exact ⟨hv, hlen, hnd⟩
  · rintro ⟨hv, hlen, hnd⟩
    have hfold : foldOp NcEnc.insertNew [] (triples syms (fullTable P probs infer)) =
        some ([] ++ triples syms (fullTable P probs infer)) :=
      NcEnc.foldOp_insertNew_of_nodup _ [] (by simpa [triples_syms hlen] using hnd)
        (triples_pos hv.2.1)
    have hacc := accumulate_complete (B := B) hP1 hP hv (by rw [← hlen]; exact takeSyms_list_all syms) hfold
    refine ⟨{ tbl := [] ++ triples syms (fullTable P probs infer) }, ?_⟩
    unfold NcEnc.fromSymbolsAndNonzeroFixedPoint
    rw [hacc]
    simp [SymIter.next]

/-- **non-contiguous decoder model: accepted iff** the full table is valid and the counts match -/
theorem NcDec.fromFixed_iff {Sym : Type} {B P : Nat} {syms : List Sym} {probs : List Nat}
    {infer : Bool} (hP1 : 1 ≤ P) (hP : P ≤ B) (hprobs : ∀ p ∈ probs, p < 2 ^ B) :
    (∃ m, NcDec.fromSymbolsAndNonzeroFixedPoint B P syms probs infer = .ok (some m)) ↔
      ValidProbs P (fullTable P probs infer) ∧ syms.length = (fullTable P probs infer).length := by
  constructor
  · rintro ⟨m, h⟩
    rcases NcDec.fromFixed_some (syms := syms) (infer := infer) hP1 hP hprobs with h0 | ⟨m', qs, last, h1, hv, hqs, hlen, _⟩
    · rw [h0] at h; simp at h
    · have : qs = fullTable P probs infer := hqs
      subst this
      exact ⟨hv, hlen⟩
  · rintro ⟨hv, hlen⟩
    have hfold := foldOp_pushPair (triples syms (fullTable P probs infer)) ([] : List (Nat × Sym))
    have hacc := accumulate_complete (B := B) hP1 hP hv (by rw [← hlen]; exact takeSyms_list_all syms) hfold
    unfold NcDec.fromSymbolsAndNonzeroFixedPoint
    rw [hacc]
    simp only [List.nil_append]
    cases hl : (List.map (fun t => (t.2.1, t.1)) (triples syms (fullTable P probs infer))).getLast? with
    | none =>
      exfalso
      have := List.getLast?_eq_none_iff.mp hl
      have hz : (triples syms (fullTable P probs infer)).length = 0 := by
        have := congrArg List.length this
        simpa using this
      unfold triples at hz
      rw [List.length_zip, List.length_zip, psums_length, Nat.min_self, hlen, Nat.min_self] at hz
      have := hv.1; omega
    | some x =>
      obtain ⟨c, last⟩ := x
      simp [SymIter.next]

/-- **contiguous lookup model: accepted iff** the full table is valid -/
theorem Lookup.fromFixed_iff {B P : Nat} {probs : List Nat} {infer : Bool}
    (hP1 : 1 ≤ P) (hP : P ≤ B) (hprobs : ∀ p ∈ probs, p < 2 ^ B) :
    (∃ m, Lookup.fromNonzeroFixedPoint B P probs infer = some m) ↔
      ValidProbs P (fullTable P probs infer) := by
  constructor
  · rintro ⟨m, h⟩
    obtain ⟨qs, hv, hqs, _⟩ := Lookup.fromNonzeroFixedPoint_some hP1 hP hprobs h
    have : qs = fullTable P probs infer := hqs
    subst this
    exact hv
  · intro hv
    have hext := extOf_valid hv
    have hss : takeSyms (SymIter.rep ()) (fullTable P probs infer).length =
        some (List.replicate (fullTable P probs infer).length (), SymIter.rep ()) := by
      generalize (fullTable P probs infer).length = n
      induction n with
      | zero => rfl
      | succ n ih => simp [takeSyms, SymIter.next, ih, List.replicate_succ]
    obtain ⟨tbl', e1, _⟩ := foldOp_pushOp_inv hext hP
      (fun i => (List.replicate (fullTable P probs infer).length ()).getD i default)
      ((extOf (fullTable P probs infer)).length - 1) 0 [] #[] (by have := hext.1; omega) rfl
      (LookupInv.zero hext)
    simp only [List.drop_zero, List.nil_append] at e1
    rw [← triples_eq_specTable (by simp)] at e1
    have hacc := accumulate_complete (B := B) hP1 hP hv hss e1
    refine ⟨{ tbl := tbl', cdf := (extOf (fullTable P probs infer)).dropLast ++ [wrappingPow2 B P] }, ?_⟩
    unfold Lookup.fromNonzeroFixedPoint
    rw [hacc]

end CV.Cat
