import CV.Proofs.RangeReject
/-!
# Encoders started on a non-empty sink, and sealed messages stored back to back (C11, 2nd clause)
-/
namespace CV.Range

/-- the same encoder on a sink that already holds `pre` -/
def prepend (pre : List Nat) (e : Encoder) : Encoder := { e with bulk := pre ++ e.bulk }

theorem withBackend_eq_prepend (c : Cfg) (pre : List Nat) :
    Encoder.withBackend c pre = prepend pre (Encoder.empty c) := by
  simp [Encoder.withBackend, prepend, Encoder.empty]

theorem inv_prepend {c : Cfg} {pre : List Nat} {e : Encoder} (hp : WordsOK c pre) (hI : Inv c e) :
    Inv c (prepend pre e) :=
  ⟨hp.append hI.1, hI.2.1, hI.2.2.1, hI.2.2.2.1, hI.2.2.2.2⟩

theorem fits_of_prepend {c : Cfg} {pre : List Nat} {e : Encoder} {k : Nat}
    (h : Fits c (prepend pre e) k) : Fits c e k := by
  unfold Fits prepend at *
  simp only [List.length_append] at h
  have : c.W * (e.bulk.length + e.situation.held + k + 2)
      ≤ c.W * (pre.length + e.bulk.length + e.situation.held + k + 2) :=
    Nat.mul_le_mul_left _ (by omega)
  omega

theorem resolveP_prepend (c : Cfg) (pre : List Nat) (e : Encoder) (nl r1 : Nat) :
    resolveP c (prepend pre e) nl r1
      = (pre ++ (resolveP c e nl r1).1, (resolveP c e nl r1).2) := by
  unfold resolveP prepend
  cases e.situation with
  | normal => rfl
  | inverted n first =>
    by_cases h : (nl + r1) % 2^c.S > nl
    · simp only [h, if_true, List.append_assoc]
    · simp only [h, if_false]

theorem renormP_prepend (c : Cfg) (pre bulk : List Nat) (sit : Situation) (lower range : Nat) :
    renormP c (pre ++ bulk) sit lower range = prepend pre (renormP c bulk sit lower range) := by
  unfold renormP prepend
  by_cases h : range < 2^(c.S - c.W)
  · simp only [h, if_true]
    cases sit with
    | inverted n first => rfl
    | normal =>
      by_cases h2 : lower % 2^(c.S - c.W) * 2^c.W + range * 2^c.W < 2^c.S
      · simp only [h2, if_true, List.append_assoc]
      · simp only [h2, if_false]
  · simp only [h, if_false]

/-- `encode_symbol` only ever appends to the sink -/
theorem encPure_prepend (c : Cfg) (pre : List Nat) (e : Encoder) (cum p : Nat) :
    encPure c (prepend pre e) cum p = prepend pre (encPure c e cum p) := by
  have h1 : (prepend pre e).range = e.range := rfl
  have h2 : (prepend pre e).lower = e.lower := rfl
  simp only [encPure, h1, h2, resolveP_prepend, renormP_prepend]

theorem sealP_prepend (c : Cfg) (pre : List Nat) (e : Encoder) :
    sealP c (prepend pre e) = sealP c e := rfl

theorem encodeMsg_prepend {Sym : Type} {c : Cfg} (pre : List Nat) (hpre : WordsOK c pre) :
    ∀ (msg : List (MStep Sym)) (e e' : Encoder), Inv c e →
    Fits c (prepend pre e) msg.length → (∀ x ∈ msg, x.Valid c) →
    encodeMsg c e msg = .ok e' → encodeMsg c (prepend pre e) msg = .ok (prepend pre e') := by
  intro msg
  induction msg with
  | nil =>
    intro e e' _ _ _ h
    simp only [encodeMsg] at h ⊢
    cases h; rfl
  | cons x xs ih =>
    intro e e' hI hf hv h
    have hx : x.Valid c := hv x (by simp)
    obtain ⟨hp, hcp⟩ := hx.cp_ok
    have hI' : Inv (cfgAt c x.B x.P) e := hI
    have hIp : Inv (cfgAt c x.B x.P) (prepend pre e) := inv_prepend (c := c) hpre hI
    have hfp : Fits (cfgAt c x.B x.P) (prepend pre e) (xs.length + 1) := hf
    have hfe : Fits (cfgAt c x.B x.P) e (xs.length + 1) := fits_of_prepend hfp
    have henc : encode (cfgAt c x.B x.P) x.model x.sym e
        = .ok (encPure (cfgAt c x.B x.P) e x.cp.1 x.cp.2) := by
      unfold encode; rw [hx.enc_eq]
      exact encodeCP_eq_pure hx.1 hI' (hfe.mono (by omega)) hp hcp
    have hencp : encode (cfgAt c x.B x.P) x.model x.sym (prepend pre e)
        = .ok (prepend pre (encPure (cfgAt c x.B x.P) e x.cp.1 x.cp.2)) := by
      unfold encode; rw [hx.enc_eq, ← encPure_prepend]
      exact encodeCP_eq_pure hx.1 hIp (hfp.mono (by omega)) hp hcp
    simp only [encodeMsg, henc] at h
    simp only [encodeMsg, hencp]
    have hI2 : Inv c (encPure (cfgAt c x.B x.P) e x.cp.1 x.cp.2) := encPure_inv hx.1 hI' hp hcp
    have hf2 : Fits c (prepend pre (encPure (cfgAt c x.B x.P) e x.cp.1 x.cp.2)) xs.length := by
      rw [← encPure_prepend]
      exact encPure_fits (c := cfgAt c x.B x.P) hx.1 hIp hp hcp hfp
    exact ih _ _ hI2 hf2 (fun y hy => hv y (by simp [hy])) h

/-- **an encoder started on a sink that already holds data**: the result of sealing is the old
    data followed by exactly the words the message has on its own -/
theorem with_backend_words {Sym : Type} {c : Cfg} (hc : RValid c) {pre : List Nat}
    (hpre : WordsOK c pre) (msg : List (MStep Sym)) (hn : MsgFits c (pre.length + msg.length))
    (hv : ∀ x ∈ msg, x.Valid c) :
    ∃ e, encodeMsg c (Encoder.withBackend c pre) msg = .ok e ∧ Inv c e ∧
      intoCompressed c e = .ok (pre ++ RangeSpec.words c.W c.S (msg.map MStep.spec)) := by
  obtain ⟨e0, he0, hI0, _, hws0⟩ := words_eq_spec hc msg (hn.mono (by omega)) hv
  have hf : Fits c (prepend pre (Encoder.empty c)) msg.length := by
    rw [← withBackend_eq_prepend]; exact fits_withBackend hn
  have he := encodeMsg_prepend pre hpre msg _ _ (inv_empty hc) hf hv he0
  have hI : Inv c (prepend pre e0) := inv_prepend hpre hI0
  refine ⟨prepend pre e0, by rw [withBackend_eq_prepend]; exact he, hI, ?_⟩
  rw [intoCompressed_eq hc hI0] at hws0
  rw [intoCompressed_eq hc hI, sealP_prepend]
  have := Except.ok.inj hws0
  simp only [prepend, List.append_assoc, this]

/-! ### decoders positioned inside a buffer -/

/-- the same decoder seen from `k` words further into the buffer -/
def shiftDec (k : Nat) (d : Decoder) : Decoder :=
  { d with data := d.data.drop k, pos := d.pos - k }

theorem dreg_shift {c : Cfg} {d : Decoder} (k : Nat) (h : DReg c d) : DReg c (shiftDec k d) :=
  ⟨h.1, h.2.1, h.2.2.1, h.2.2.2.1, fun w hw => h.2.2.2.2 w (List.mem_of_mem_drop hw)⟩

theorem decPure_shift {Sym : Type} (c : Cfg) (m : Model Sym) (d : Decoder) (k : Nat)
    (hk : k ≤ d.pos) :
    decPure c m (shiftDec k d) = ((decPure c m d).1, shiftDec k (decPure c m d).2) ∧
    k ≤ (decPure c m d).2.pos := by
  have hget : (d.data.drop k)[d.pos - k]? = d.data[d.pos]? := by
    rw [List.getElem?_drop]; congr 1; omega
  unfold decPure shiftDec
  simp only [hget]
  split
  · cases d.data[d.pos]? with
    | none => exact ⟨rfl, hk⟩
    | some w =>
      refine ⟨?_, by simp only; omega⟩
      simp only
      congr 2
      omega
  · exact ⟨rfl, hk⟩

theorem decodeMsg_shift {Sym : Type} {c : Cfg} : ∀ (msg : List (MStep Sym)) (d : Decoder) (k : Nat),
    DReg c d → k ≤ d.pos → (∀ x ∈ msg, x.DecValid c) →
    ∀ ss d', decodeMsg c (shiftDec k d) msg = .ok (ss, d') →
      ∃ d'', decodeMsg c d msg = .ok (ss, d'') := by
  intro msg
  induction msg with
  | nil =>
    intro d k _ _ _ ss d' h
    simp only [decodeMsg] at h
    cases h
    exact ⟨d, rfl⟩
  | cons x xs ih =>
    intro d k hreg hk hv ss d' h
    have hx := hv x (by simp)
    have hreg' : DReg (cfgAt c x.B x.P) d := hreg
    have hregs : DReg (cfgAt c x.B x.P) (shiftDec k d) := dreg_shift k hreg
    have hq : quantileOf (cfgAt c x.B x.P) (shiftDec k d) = quantileOf (cfgAt c x.B x.P) d := rfl
    simp only [decodeMsg, decode_eq_pure hx.1 hx.2 hregs, hq] at h
    simp only [decodeMsg, decode_eq_pure hx.1 hx.2 hreg']
    by_cases hqq : quantileOf (cfgAt c x.B x.P) d ≥ 2^(cfgAt c x.B x.P).P
    · simp only [hqq, if_true] at h; cases h
    · simp only [hqq, if_false] at h ⊢
      obtain ⟨hsh, hk'⟩ := decPure_shift (cfgAt c x.B x.P) x.model d k hk
      rw [hsh] at h
      simp only at h
      have hinv := decPure_inv hx.1 hx.2 hreg' (Nat.lt_of_not_le hqq)
      cases hrest : decodeMsg c (shiftDec k (decPure (cfgAt c x.B x.P) x.model d).2) xs with
      | error err => rw [hrest] at h; cases h
      | ok r =>
        obtain ⟨ss', dd⟩ := r
        rw [hrest] at h
        simp only at h
        obtain ⟨d'', hd''⟩ := ih _ k hinv.1 hk' (fun y hy => hv y (by simp [hy])) ss' dd hrest
        have hpair : decPure (cfgAt c x.B x.P) x.model d
            = ((decPure (cfgAt c x.B x.P) x.model d).1, (decPure (cfgAt c x.B x.P) x.model d).2) := rfl
        rw [hpair]
        simp only [hd'']
        injection h with h
        injection h with h1 h2
        exact ⟨d'', by rw [← h1]⟩

/-- seeking a decoder over `pre ++ ws` to position `|pre|` with the initial coder state gives,
    seen from `|pre|`, the decoder `from_compressed(ws)` -/
theorem seek_after_prefix {c : Cfg} (hc : RValid c) {pre ws : List Nat} (hp : WordsOK c pre)
    (hw : WordsOK c ws) {d : Decoder} (hd : d.data = pre ++ ws) :
    ∃ d', d.seek c pre.length 0 (maxState c) = .ok d' ∧ pre.length ≤ d'.pos ∧
      DReg c d' ∧ Decoder.fromCompressed c ws = .ok (shiftDec pre.length d') := by
  have hall : WordsOK c (pre ++ ws) := hp.append hw
  unfold Decoder.seek Decoder.fromCompressed
  rw [hd]
  have : ¬ (pre.length > (pre ++ ws).length) := by simp
  simp only [this, if_false]
  rw [readPoint_eq hc hall pre.length, readPoint_eq hc hw 0]
  have hdrop : (pre ++ ws).drop pre.length = ws := List.drop_left
  refine ⟨_, rfl, by simp only; omega, ?_, ?_⟩
  · have hT := two_pow_pos' c.S
    have hlt : 2^(c.S - c.W) < 2^c.S :=
      Nat.pow_lt_pow_right (by omega) (by have := hc.W_lt_S; have := hc.W_pos; omega)
    refine ⟨hT, ?_, ?_, ?_, hall⟩
    · simp only [maxState]; omega
    · simp only [maxState]; omega
    · simp only [hdrop]; exact pre_window_lt hc hw
  · simp only [shiftDec, hdrop, List.drop_zero, Nat.zero_add, Nat.sub_zero, List.length_append]
    congr 2
    omega

/-- **two sealed messages stored back to back**, conditional form for every width: if the first
    message's final state is `D3Safe`, the first message decodes from the concatenation, and a
    decoder sought to the end of the first message's words decodes the second. -/
theorem back_to_back_of_safe {Sym : Type} {c : Cfg} (hc : RValid c)
    (msg1 msg2 : List (MStep Sym)) (hn1 : MsgFits c msg1.length) (hn2 : MsgFits c msg2.length)
    (hv1 : ∀ x ∈ msg1, x.Valid c) (hv2 : ∀ x ∈ msg2, x.Valid c)
    (hsafe : D3Safe c (RangeSpec.run c.W c.S (RangeSpec.init c.S) (msg1.map MStep.spec))) :
    ∃ ws1 ws2, ws1 = RangeSpec.words c.W c.S (msg1.map MStep.spec) ∧
      ws2 = RangeSpec.words c.W c.S (msg2.map MStep.spec) ∧
      (∃ d0 d, Decoder.fromCompressed c (ws1 ++ ws2) = .ok d0 ∧
        decodeMsg c d0 msg1 = .ok (msg1.map (·.sym), d)) ∧
      (∀ dd : Decoder, dd.data = ws1 ++ ws2 →
        ∃ d' d'', dd.seek c ws1.length 0 (maxState c) = .ok d' ∧
          decodeMsg c d' msg2 = .ok (msg2.map (·.sym), d'')) := by
  have hw1 := words_spec_wordsOK c (msg1.map MStep.spec)
  have hw2 := words_spec_wordsOK c (msg2.map MStep.spec)
  refine ⟨_, _, rfl, rfl, ?_, ?_⟩
  · obtain ⟨e, ws, d0, d, he, hws, hd0, hd⟩ :=
      suffix_immune_of_safe hc msg1 hn1 hv1 hsafe _ hw2
    obtain ⟨e', he', _, _, hws'⟩ := words_eq_spec hc msg1 hn1 hv1
    rw [he] at he'; cases he'
    rw [hws] at hws'; cases hws'
    exact ⟨d0, d, hd0, hd⟩
  · intro dd hdd
    obtain ⟨d', hd', hk, hreg, hfrom⟩ := seek_after_prefix hc hw1 hw2 hdd
    obtain ⟨e2, ws2, d0, d, he2, hws2, hd0, hdec, _, _⟩ := roundtrip hc msg2 hn2 hv2
    obtain ⟨e2', he2', _, _, hws2'⟩ := words_eq_spec hc msg2 hn2 hv2
    rw [he2] at he2'; cases he2'
    rw [hws2] at hws2'; cases hws2'
    rw [hfrom] at hd0; cases hd0
    obtain ⟨d'', hd''⟩ := decodeMsg_shift msg2 d' _ hreg hk
      (fun x hx => ⟨(hv2 x hx).1, (hv2 x hx).2.1⟩) _ _ hdec
    exact ⟨d', d'', hd', hd''⟩

/-- … unconditional for `State = 2·Word` -/
theorem back_to_back_2W {Sym : Type} {c : Cfg} (hc : RValid c) (h2 : c.S = 2 * c.W)
    (msg1 msg2 : List (MStep Sym)) (hn1 : MsgFits c msg1.length) (hn2 : MsgFits c msg2.length)
    (hv1 : ∀ x ∈ msg1, x.Valid c) (hv2 : ∀ x ∈ msg2, x.Valid c) :
    ∃ ws1 ws2, ws1 = RangeSpec.words c.W c.S (msg1.map MStep.spec) ∧
      ws2 = RangeSpec.words c.W c.S (msg2.map MStep.spec) ∧
      (∃ d0 d, Decoder.fromCompressed c (ws1 ++ ws2) = .ok d0 ∧
        decodeMsg c d0 msg1 = .ok (msg1.map (·.sym), d)) ∧
      (∀ dd : Decoder, dd.data = ws1 ++ ws2 →
        ∃ d' d'', dd.seek c ws1.length 0 (maxState c) = .ok d' ∧
          decodeMsg c d' msg2 = .ok (msg2.map (·.sym), d'')) :=
  back_to_back_of_safe hc msg1 msg2 hn1 hn2 hv1 hv2
    (d3Safe_of_2W hc h2 (specInv_run _ _ (specInv_init hc) hv1))

end CV.Range
