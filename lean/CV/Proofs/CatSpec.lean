import CV.Proofs.CatValidate
/-!
# The specification every integer entropy model is compared with

`ext = [0 = c₀ < c₁ < … < cₙ = 2^P]` is the *unwrapped* extended cdf (true cumulatives, the
last one is `2^P` even if `P = B`).  `specModel ext` is the tiling of `[0, 2^P)` by the bins
`[cᵢ, cᵢ₊₁)`; `specModel_wellFormed` is property C03 for it.  Every representation in the
crate is shown (in `CatContiguous`, `CatLookup`, `CatUniform`) to compute exactly
`specModel ext` (up to relabelling of the symbols), which gives C03 and C05 at once.
-/
namespace CV.Cat
open CV

/-- strictly increasing from `0` to `2^P`, at least two bins -/
def ValidExt (P : Nat) (ext : List Nat) : Prop :=
  3 ≤ ext.length ∧ ext.getD 0 0 = 0 ∧ ext.getD (ext.length - 1) 0 = 2 ^ P ∧
    ext.Pairwise (· < ·)

def specEnc (ext : List Nat) (s : Nat) : Option (Nat × Nat) :=
  if s + 1 < ext.length then some (ext.getD s 0, ext.getD (s + 1) 0 - ext.getD s 0) else none

/-- index of the bin that contains `q`: one before the first boundary above `q` -/
def specIdx (ext : List Nat) (q : Nat) : Nat := ext.findIdx (fun x => decide (q < x)) - 1

def specDec (ext : List Nat) (q : Nat) : Nat × Nat × Nat :=
  (specIdx ext q, ext.getD (specIdx ext q) 0,
    ext.getD (specIdx ext q + 1) 0 - ext.getD (specIdx ext q) 0)

def specModel (ext : List Nat) : Model Nat := { enc := specEnc ext, dec := specDec ext }

/-- `q` lies in bin `i` -/
def InBin (ext : List Nat) (i q : Nat) : Prop :=
  i + 1 < ext.length ∧ ext.getD i 0 ≤ q ∧ q < ext.getD (i + 1) 0

theorem pairwise_getD {l : List Nat} (h : l.Pairwise (· < ·)) {i j : Nat} (hij : i < j)
    (hj : j < l.length) : l.getD i 0 < l.getD j 0 := by
  have hi : i < l.length := by omega
  rw [getD_of_lt hi, getD_of_lt hj]
  exact List.pairwise_iff_getElem.mp h i j hi hj hij

theorem pairwise_getD_le {l : List Nat} (h : l.Pairwise (· < ·)) {i j : Nat} (hij : i ≤ j)
    (hj : j < l.length) : l.getD i 0 ≤ l.getD j 0 := by
  rcases Nat.lt_or_ge i j with hlt | hge
  · exact Nat.le_of_lt (pairwise_getD h hlt hj)
  · have : i = j := by omega
    subst this; exact Nat.le_refl _

/-- a quantile is in at most one bin -/
theorem InBin.unique {ext : List Nat} (h : ext.Pairwise (· < ·)) {i j q : Nat}
    (hi : InBin ext i q) (hj : InBin ext j q) : i = j := by
  obtain ⟨hi1, hi2, hi3⟩ := hi
  obtain ⟨hj1, hj2, hj3⟩ := hj
  rcases Nat.lt_trichotomy i j with hlt | heq | hgt
  · have := pairwise_getD_le h (i := i + 1) (j := j) (by omega) (by omega); omega
  · exact heq
  · have := pairwise_getD_le h (i := j + 1) (j := i) (by omega) (by omega); omega

/-- every quantile below `2^P` is in the bin `specIdx` -/
theorem specIdx_inBin {P : Nat} {ext : List Nat} (h : ValidExt P ext) {q : Nat} (hq : q < 2 ^ P) :
    InBin ext (specIdx ext q) q := by
  obtain ⟨hlen, h0, hlast, hpw⟩ := h
  have hex : ext.findIdx (fun x => decide (q < x)) < ext.length := by
    rw [List.findIdx_lt_length]
    refine ⟨ext.getD (ext.length - 1) 0, ?_, ?_⟩
    · rw [getD_of_lt (by omega)]; exact List.getElem_mem _
    · simp only [decide_eq_true_eq]; omega
  have hk := List.findIdx_getElem (w := hex)
  simp only [decide_eq_true_eq] at hk
  have hkpos : 0 < ext.findIdx (fun x => decide (q < x)) := by
    rcases Nat.eq_zero_or_pos (ext.findIdx (fun x => decide (q < x))) with hz | hp
    · exfalso
      have h00 : ext[0]'(by omega) = 0 := by
        rw [← getD_of_lt (d := 0) (by omega)]; exact h0
      simp only [hz] at hk
      omega
    · exact hp
  have hbelow := List.not_of_lt_findIdx (p := fun x => decide (q < x)) (xs := ext)
    (i := ext.findIdx (fun x => decide (q < x)) - 1) (by omega)
  simp only [decide_eq_false_iff_not, Nat.not_lt] at hbelow
  unfold specIdx
  refine ⟨by omega, ?_, ?_⟩
  · rw [getD_of_lt (by omega)]; exact hbelow
  · have : ext.findIdx (fun x => decide (q < x)) - 1 + 1 = ext.findIdx (fun x => decide (q < x)) := by
      omega
    rw [this, getD_of_lt hex]; exact hk

theorem ValidExt.le_total {P : Nat} {ext : List Nat} (h : ValidExt P ext) {i : Nat}
    (hi : i < ext.length) : ext.getD i 0 ≤ 2 ^ P := by
  obtain ⟨hlen, h0, hlast, hpw⟩ := h
  rw [← hlast]
  exact pairwise_getD_le hpw (by omega) (by omega)

theorem ValidExt.inner_lt {P : Nat} {ext : List Nat} (h : ValidExt P ext) {i : Nat}
    (hi : i + 1 < ext.length) : ext.getD i 0 < 2 ^ P := by
  obtain ⟨hlen, h0, hlast, hpw⟩ := h
  rw [← hlast]
  exact pairwise_getD hpw (by omega) (by omega)

/-- the facts about bin `s` of a valid table -/
theorem ValidExt.bin {P : Nat} {ext : List Nat} (h : ValidExt P ext) {s : Nat}
    (hs : s + 1 < ext.length) :
    ext.getD s 0 < ext.getD (s + 1) 0 ∧ ext.getD (s + 1) 0 ≤ 2 ^ P ∧
      ext.getD (s + 1) 0 - ext.getD s 0 < 2 ^ P := by
  have hle := h.le_total (i := s + 1) hs
  obtain ⟨hlen, h0, hlast, hpw⟩ := h
  have hlt := pairwise_getD hpw (i := s) (j := s + 1) (by omega) hs
  refine ⟨hlt, hle, ?_⟩
  rcases Nat.eq_zero_or_pos s with hz | hp
  · subst hz
    have : ext.getD 1 0 < ext.getD (ext.length - 1) 0 := pairwise_getD hpw (by omega) (by omega)
    simp only [Nat.zero_add] at hlt ⊢
    omega
  · have : ext.getD 0 0 < ext.getD s 0 := pairwise_getD hpw hp (by omega)
    omega

/-- **C03 for the specification**: the bins tile `[0, 2^P)`, none is empty, none is everything,
    and the quantile function is the exact inverse of the encoder lookup. -/
theorem specModel_wellFormed {P : Nat} {ext : List Nat} (h : ValidExt P ext) :
    (specModel ext).WellFormed P := by
  have hpw := h.2.2.2
  constructor
  · intro s c p henc
    simp only [specModel, specEnc] at henc
    split at henc
    · rename_i hs
      simp only [Option.some.injEq, Prod.mk.injEq] at henc
      obtain ⟨rfl, rfl⟩ := henc
      obtain ⟨b1, b2, b3⟩ := h.bin hs
      refine ⟨by omega, by omega, b3, ?_⟩
      intro q hq1 hq2
      have hin : InBin ext s q := ⟨hs, hq1, by omega⟩
      have hq : q < 2 ^ P := by omega
      have := InBin.unique hpw (specIdx_inBin h hq) hin
      simp only [specModel, specDec, this]
    · simp at henc
  · intro q hq
    obtain ⟨i1, i2, i3⟩ := specIdx_inBin h hq
    simp only [specModel, specDec, specEnc, if_pos i1]
    exact ⟨trivial, i2, by omega⟩

/-- probability zero outside the support `0 .. n-1` -/
theorem specEnc_none {ext : List Nat} {s : Nat} (hs : ext.length ≤ s + 1) : specEnc ext s = none := by
  simp [specEnc]; omega

/-! ## relabelled models (non-contiguous) -/

/-- the model with bin `i` labelled `labels[i]` -/
def labelledModel {Sym : Type} [DecidableEq Sym] [Inhabited Sym] (labels : List Sym)
    (ext : List Nat) : Model Sym where
  enc s := if s ∈ labels then specEnc ext (labels.idxOf s) else none
  dec q := (labels.getD (specIdx ext q) default, (specDec ext q).2.1, (specDec ext q).2.2)

theorem labelledModel_wellFormed {Sym : Type} [DecidableEq Sym] [Inhabited Sym] {P : Nat}
    {labels : List Sym} {ext : List Nat} (h : ValidExt P ext) (hlen : labels.length + 1 = ext.length)
    (hnd : labels.Nodup) : (labelledModel labels ext).WellFormed P := by
  have hw := specModel_wellFormed h
  constructor
  · intro s c p henc
    simp only [labelledModel] at henc
    split at henc
    · rename_i hmem
      obtain ⟨a1, a2, a3, a4⟩ := hw.1 _ c p henc
      refine ⟨a1, a2, a3, ?_⟩
      intro q hq1 hq2
      have := a4 q hq1 hq2
      simp only [specModel, specDec, Prod.mk.injEq] at this
      simp only [labelledModel, specDec, Prod.mk.injEq]
      refine ⟨?_, this.2.1, this.2.2⟩
      rw [this.1]
      have hi : labels.idxOf s < labels.length := List.idxOf_lt_length_of_mem hmem
      rw [getD_of_lt hi]
      exact List.getElem_idxOf hi
    · simp at henc
  · intro q hq
    obtain ⟨b1, b2, b3⟩ := hw.2 q hq
    obtain ⟨i1, _, _⟩ := specIdx_inBin h hq
    have hi : specIdx ext q < labels.length := by omega
    simp only [labelledModel]
    have hmem : labels.getD (specIdx ext q) default ∈ labels := by
      rw [getD_of_lt hi]; exact List.getElem_mem _
    rw [if_pos hmem]
    have hidx : labels.idxOf (labels.getD (specIdx ext q) default) = specIdx ext q := by
      rw [getD_of_lt hi]
      exact hnd.idxOf_getElem _ hi
    rw [hidx]
    exact ⟨b1, b2, b3⟩

end CV.Cat
