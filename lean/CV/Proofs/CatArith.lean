import CV.Model.Cat
/-! Arithmetic helper lemmas for component `cat` (wrapping add/sub at width `B`). -/
namespace CV.Cat
open CV

theorem two_pow_pos' (n : Nat) : 0 < 2 ^ n := Nat.pos_of_ne_zero (by simp)

theorem pow_le_pow_of_le {P B : Nat} (h : P ≤ B) : 2 ^ P ≤ 2 ^ B :=
  Nat.pow_le_pow_right (by omega) h

theorem pow_lt_pow_of_lt {P B : Nat} (h : P < B) : 2 ^ P < 2 ^ B :=
  Nat.pow_lt_pow_right (by omega) h

theorem mod_add_cases {a b N : Nat} (ha : a < N) (hb : b < N) :
    (a + b) % N = if a + b < N then a + b else a + b - N := by
  split
  · exact Nat.mod_eq_of_lt ‹_›
  · rw [Nat.mod_eq_sub_mod (by omega)]; exact Nat.mod_eq_of_lt (by omega)

theorem wadd_eq {B a b : Nat} (ha : a < 2 ^ B) (hb : b < 2 ^ B) :
    wadd B a b = if a + b < 2 ^ B then a + b else a + b - 2 ^ B := by
  unfold wadd; exact mod_add_cases ha hb

theorem wadd_lt {B a b : Nat} : wadd B a b < 2 ^ B := Nat.mod_lt _ (two_pow_pos' B)

/-- `wsub` on typed arguments -/
theorem wsub_eq {B a b : Nat} (ha : a < 2 ^ B) (hb : b < 2 ^ B) :
    wsub B a b = if b ≤ a then a - b else a + 2 ^ B - b := by
  unfold wsub
  rw [Nat.mod_eq_of_lt hb]
  split
  · have : a + 2 ^ B - b = (a - b) + 2 ^ B := by omega
    rw [this, Nat.add_mod_right]; exact Nat.mod_eq_of_lt (by omega)
  · exact Nat.mod_eq_of_lt (by omega)

theorem wrappingPow2_lt {B P : Nat} : wrappingPow2 B P < 2 ^ B := by
  unfold wrappingPow2
  split
  · exact two_pow_pos' B
  · exact pow_lt_pow_of_lt (by omega)

theorem wrappingPow2_of_lt {B P : Nat} (h : P < B) : wrappingPow2 B P = 2 ^ P := by
  unfold wrappingPow2; rw [if_neg (by omega)]

theorem wrappingPow2_self {B : Nat} : wrappingPow2 B B = 0 := by
  unfold wrappingPow2; simp

/-- the probability of the last symbol: `total.wrapping_sub(left)` is the true `2^P - left`
    whenever `0 < left < 2^P` -/
theorem wsub_total {B P left : Nat} (hP : P ≤ B) (h0 : 0 < left) (h1 : left < 2 ^ P) :
    wsub B (wrappingPow2 B P) left = 2 ^ P - left := by
  have hle := pow_le_pow_of_le hP
  rw [wsub_eq wrappingPow2_lt (by omega)]
  rcases Nat.lt_or_ge P B with h | h
  · rw [wrappingPow2_of_lt h, if_pos (by omega)]
  · have : P = B := by omega
    subst this
    rw [wrappingPow2_self, if_neg (by omega)]; omega

/-- also for `left = 0` if `P < B` -/
theorem wsub_total_lt {B P left : Nat} (hP : P < B) (h1 : left ≤ 2 ^ P) :
    wsub B (wrappingPow2 B P) left = 2 ^ P - left := by
  have hlt := pow_lt_pow_of_lt hP
  rw [wsub_eq wrappingPow2_lt (by omega), wrappingPow2_of_lt hP, if_pos h1]

theorem wsub_of_le {B a b : Nat} (hab : b ≤ a) (ha : a < 2 ^ B) : wsub B a b = a - b := by
  rw [wsub_eq ha (by omega), if_pos hab]

theorem getD_of_lt {α : Type} {l : List α} {i : Nat} {d : α} (h : i < l.length) :
    l.getD i d = l[i] := by
  simp [List.getD, h]

theorem getElem?_of_lt {α : Type} {l : List α} {i : Nat} {d : α} (h : i < l.length) :
    l[i]? = some (l.getD i d) := by
  simp [List.getD, h]

end CV.Cat
