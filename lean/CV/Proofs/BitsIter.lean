import CV.Proofs.BitsInspect
/-!
# The consuming iterators: `StackCoder::into_iterator`, `QueueEncoder::into_overshooting_iter`
-/

set_option linter.unusedSimpArgs false
set_option linter.unusedVariables false
set_option linter.unnecessarySimpa false
namespace CV.Bits

theorem Stack.intoIterator_spec {W : Nat} (hW : 1 ≤ W) {c : Coder} (hI : Inv W c) :
    Stack.intoIterator W c = .ok (bits W c).reverse := by
  unfold Stack.intoIterator Stack.intoDecoder
  exact iter_spec hW hI

theorem Queue.intoOvershootingIter_spec {W : Nat} (hW : 1 ≤ W) {c : Coder} (hI : Inv W c) :
    ∃ d', Queue.intoOvershootingIter W c = .ok (padTo W (bits W c), d') ∧ QDecoder.Inv W d' ∧
      QDecoder.bits W d' = [] := by
  have hd := queue_intoDecoder_padTo hW hI
  obtain ⟨d', hit, hI', hn⟩ := QDecoder.iter_spec hW hd.1
  refine ⟨d', ?_, hI', hn⟩
  unfold Queue.intoOvershootingIter
  rw [hit, hd.2]

/-- `|l|` reads on the list Spec of a stack return the list in reverse and empty it -/
theorem stack_spec_reads (W : Nat) : ∀ (n : Nat) (l : List Bool), l.length = n →
    run (Stack.spec W) (List.replicate n SOp.read) l =
      (l.reverse.map (fun b => Out.bit (some b)), [])
  | 0, l, h => by
    have : l = [] := List.length_eq_zero_iff.mp h
    subst this; rfl
  | n + 1, l, h => by
    rcases List.eq_nil_or_concat l with rfl | ⟨l', b, rfl⟩
    · simp at h
    · have hl' : l'.length = n := by simpa using h
      have ih := stack_spec_reads W n l' hl'
      simp only [List.replicate_succ, run, Stack.spec, List.getLast?_concat, List.dropLast_concat,
        Out.isFault, Bool.false_eq_true, if_false, ih]
      simp [ih]

/-- `|l|` reads on the list Spec of a queue decoder return the list in order and empty it -/
theorem qdecoder_spec_reads : ∀ (l : List Bool),
    run QDecoder.spec (List.replicate l.length DOp.read) l =
      (l.map (fun b => Out.bit (some b)), [])
  | [] => rfl
  | b :: t => by
    have ih := qdecoder_spec_reads t
    simp only [List.length_cons, List.replicate_succ, run, QDecoder.spec, List.head?_cons,
      List.tail_cons, Out.isFault, Bool.false_eq_true, if_false, ih, List.map_cons]

theorem SOp.read_lawful (n : Nat) : ∀ op ∈ List.replicate n SOp.read, op.Lawful := by
  intro op h
  rw [(List.mem_replicate.mp h).2]
  trivial

theorem DOp.read_lawful (n : Nat) : ∀ op ∈ List.replicate n DOp.read, op.Lawful := by
  intro op h
  rw [(List.mem_replicate.mp h).2]
  trivial

end CV.Bits
