import CV.Model.Machine
import CV.Proofs.Arith
/-!
# `bit_array_to_chunks_truncated`: facts about `bitlen`, `chunksLE`, `chunksBE`
-/
namespace CV

theorem bitlen_zero : bitlen 0 = 0 := by simp [bitlen]

theorem bitlen_pos {x : Nat} (h : 0 < x) : 0 < bitlen x := by
  unfold bitlen; split <;> omega

theorem lt_two_pow_bitlen (x : Nat) : x < 2^(bitlen x) := by
  unfold bitlen
  split
  · subst_vars; simp
  · exact Nat.lt_log2_self

theorem two_pow_bitlen_le {x : Nat} (h : 0 < x) : 2^(bitlen x - 1) ≤ x := by
  unfold bitlen
  have hx : x ≠ 0 := by omega
  simp only [hx, if_false, Nat.add_sub_cancel]
  exact Nat.log2_self_le hx

theorem bitlen_le_of_lt {x k : Nat} (h : x < 2^k) : bitlen x ≤ k := by
  unfold bitlen
  split
  · omega
  · rename_i hx
    have := (Nat.log2_lt hx).mpr h
    omega

/-- number of chunks of width `C` -/
def nchunks (C x : Nat) : Nat := (bitlen x + C - 1) / C

theorem chunksLE_length (C x : Nat) : (chunksLE C x).length = nchunks C x := by
  simp [chunksLE, nchunks]

theorem nchunks_zero (C : Nat) (hC : 0 < C) : nchunks C 0 = 0 := by
  unfold nchunks
  rw [bitlen_zero]
  exact Nat.div_eq_of_lt (by omega)

theorem nchunks_bounds {C x : Nat} (hC : 0 < C) (hx : 0 < x) :
    0 < nchunks C x ∧ (nchunks C x - 1) * C < bitlen x ∧ bitlen x ≤ nchunks C x * C := by
  have hb := bitlen_pos hx
  unfold nchunks
  have h1 := Nat.div_add_mod (bitlen x + C - 1) C
  have h2 := Nat.mod_lt (bitlen x + C - 1) hC
  generalize (bitlen x + C - 1) / C = n at *
  generalize (bitlen x + C - 1) % C = r at *
  rw [Nat.mul_comm] at h1
  have hn : 0 < n := by
    rcases Nat.eq_zero_or_pos n with h | h
    · subst h; omega
    · exact h
  refine ⟨hn, ?_, ?_⟩
  · have : (n - 1) * C + C = n * C := by
      rw [← Nat.succ_mul]; congr 1; omega
    omega
  · omega

theorem lt_pow_nchunks {C x : Nat} (hC : 0 < C) : x < 2^(nchunks C x * C) := by
  rcases Nat.eq_zero_or_pos x with h | h
  · subst h; exact Nat.two_pow_pos _
  · exact Nat.lt_of_lt_of_le (lt_two_pow_bitlen x) (pow_le_pow2 (nchunks_bounds hC h).2.2)

theorem pow_nchunks_le {C x : Nat} (hC : 0 < C) (hx : 0 < x) : 2^((nchunks C x - 1) * C) ≤ x := by
  have := (nchunks_bounds hC hx).2.1
  exact Nat.le_trans (pow_le_pow2 (by omega)) (two_pow_bitlen_le hx)

/-- `n` base-`2^C` digits of `x`, most significant first -/
def digitsBE (C x n : Nat) : List Nat :=
  (List.range n).reverse.map (fun i => (x >>> (i * C)) % 2^C)

theorem chunksBE_eq (C x : Nat) : chunksBE C x = digitsBE C x (nchunks C x) := by
  simp [chunksBE, chunksLE, digitsBE, nchunks, List.map_reverse]

theorem digitsBE_succ (C x n : Nat) :
    digitsBE C x (n + 1) = ((x >>> (n * C)) % 2^C) :: digitsBE C x n := by
  simp [digitsBE, List.range_succ]

theorem digitsBE_zero (C x : Nat) : digitsBE C x 0 = [] := rfl

theorem digitsBE_lt (C x n : Nat) : ∀ w ∈ digitsBE C x n, w < 2^C := by
  intro w hw
  simp only [digitsBE, List.mem_map] at hw
  obtain ⟨i, _, rfl⟩ := hw
  exact Nat.mod_lt _ (Nat.two_pow_pos _)

/-- consuming one more digit: `(x / 2^((n+1)C)) * 2^C + digit n = x / 2^(nC)` -/
theorem digit_step (C x n : Nat) :
    (x / 2^((n + 1) * C)) * 2^C + (x / 2^(n * C)) % 2^C = x / 2^(n * C) := by
  have : 2^((n + 1) * C) = 2^(n * C) * 2^C := by
    rw [← Nat.pow_add]; congr 1; rw [Nat.succ_mul]
  rw [this, ← Nat.div_div_eq_div_mul]
  have := Nat.div_add_mod (x / 2^(n * C)) (2^C)
  rw [Nat.mul_comm] at this
  exact this

end CV
