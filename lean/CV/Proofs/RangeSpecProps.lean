import CV.Proofs.RangeDigits
/-!
# Properties of the big-number reference coder (no reference to the implementation)

* `SpecInv`: `2^(S-W) ≤ R < 2^S` and `Lo + R ≤ (2^W)^m · 2^S` (the interval stays inside
  `[0, 1)`), preserved by `step`;
* `Contains st ws`: the stream `ws` (zero padded), truncated to the scale of `st`, lies in
  the interval of `st`;
* `step_back`: if a stream is in the interval after a step, it was in the chosen
  sub-interval before the step (intervals are nested, truncation preserves membership);
* `seal_contains`: the sealed words lie in the final interval, within `2^(S-W) − 1` of `Lo`.
-/
namespace CV.Range
open RangeSpec

/-- number of words per state: `S / W` -/
def nW (c : Cfg) : Nat := c.S / c.W

theorem RValid.S_eq {c : Cfg} (hc : RValid c) : c.S = nW c * c.W :=
  (Nat.div_mul_cancel hc.2).symm

theorem RValid.two_le_nW {c : Cfg} (hc : RValid c) : 2 ≤ nW c := by
  unfold nW
  rw [Nat.le_div_iff_mul_le hc.W_pos]
  exact hc.two_W_le

theorem RValid.pow_nW {c : Cfg} (hc : RValid c) : (2^c.W)^(nW c) = 2^c.S := by
  rw [← Nat.pow_mul, Nat.mul_comm, ← hc.S_eq]

theorem RValid.pow_nW_pred {c : Cfg} (hc : RValid c) : (2^c.W)^(nW c - 1) = 2^(c.S - c.W) := by
  rw [← Nat.pow_mul]
  congr 1
  have h := hc.S_eq
  have h2 := hc.two_le_nW
  rw [Nat.mul_sub, Nat.mul_one, Nat.mul_comm, ← h]

def SpecInv (c : Cfg) (st : St) : Prop :=
  2^(c.S - c.W) ≤ st.R ∧ st.R < 2^c.S ∧ st.Lo + st.R ≤ (2^c.W)^st.m * 2^c.S

theorem specInv_init {c : Cfg} (hc : RValid c) : SpecInv c (init c.S) := by
  have hS := two_pow_pos' c.S
  have : 2^(c.S - c.W) < 2^c.S :=
    Nat.pow_lt_pow_right (by omega) (by have := hc.W_lt_S; have := hc.W_pos; omega)
  refine ⟨?_, ?_, ?_⟩ <;> simp only [init, Nat.pow_zero, Nat.one_mul] <;> omega

/-- `c.P` is the precision of this step -/
theorem specInv_step {c : Cfg} (hc : RValid c) {st : St} (hI : SpecInv c st) {cum p : Nat}
    (hp : 0 < p) (hcp : cum + p ≤ 2^c.P) : SpecInv c (step c.W c.S st c.P cum p) := by
  obtain ⟨hr, hr2, hle⟩ := hI
  obtain ⟨hsc1, hsc2, hsc3⟩ := scale_facts hc hr hr2 hp hcp
  have hsplit : st.R / 2^c.P * (cum + p) = st.R / 2^c.P * cum + st.R / 2^c.P * p :=
    Nat.mul_add _ _ _
  have hb := two_pow_pos' c.W
  unfold step
  by_cases hlt : st.R / 2^c.P * p < 2^(c.S - c.W)
  · simp only [hlt, if_true]
    refine ⟨?_, ?_, ?_⟩
    · have h1 : 2^(c.S - c.W - c.P) ≤ st.R / 2^c.P * p :=
        Nat.le_trans hsc1 (Nat.le_mul_of_pos_right _ hp)
      have h2 : 2^(c.S - c.W) ≤ 2^(c.S - c.W - c.P) * 2^c.W := by
        rw [← Nat.pow_add]
        have := hc.P_le_W
        have := hc.two_W_le
        exact Nat.pow_le_pow_right (by omega) (by omega)
      exact Nat.le_trans h2 (Nat.mul_le_mul_right _ h1)
    · rw [hc.pow_S]; exact Nat.mul_lt_mul_of_pos_right hlt hb
    · rw [← Nat.add_mul, Nat.pow_succ]
      have h1 : st.Lo + st.R / 2^c.P * cum + st.R / 2^c.P * p ≤ (2^c.W)^st.m * 2^c.S := by omega
      calc (st.Lo + st.R / 2^c.P * cum + st.R / 2^c.P * p) * 2^c.W
          ≤ ((2^c.W)^st.m * 2^c.S) * 2^c.W := Nat.mul_le_mul_right _ h1
        _ = (2^c.W)^st.m * 2^c.W * 2^c.S := by ring
  · simp only [hlt, if_false]
    refine ⟨Nat.le_of_not_lt hlt, ?_, ?_⟩ <;> dsimp only <;> omega

/-- the stream `ws`, truncated to the scale of `st`, lies in the interval of `st` -/
def Contains (c : Cfg) (st : St) (ws : List Nat) : Prop :=
  st.Lo ≤ pre c.W ws (st.m + nW c) ∧ pre c.W ws (st.m + nW c) < st.Lo + st.R

theorem getD_lt {c : Cfg} {ws : List Nat} (h : WordsOK c ws) (k : Nat) : ws.getD k 0 < 2^c.W := by
  unfold List.getD
  cases hk : ws[k]? with
  | none => simp
  | some w => simpa using h w (List.mem_of_getElem? hk)

/-- **nested intervals**: membership after a step implies membership in the chosen
    sub-interval before the step. -/
theorem step_back {c : Cfg} {st : St} {cum p : Nat} {ws : List Nat} (hw : WordsOK c ws)
    (h : Contains c (step c.W c.S st c.P cum p) ws) :
    st.Lo + st.R / 2^c.P * cum ≤ pre c.W ws (st.m + nW c) ∧
    pre c.W ws (st.m + nW c) < st.Lo + st.R / 2^c.P * cum + st.R / 2^c.P * p := by
  unfold Contains step at h
  by_cases hlt : st.R / 2^c.P * p < 2^(c.S - c.W)
  · simp only [hlt, if_true] at h
    have hm : st.m + 1 + nW c = (st.m + nW c) + 1 := by omega
    rw [hm, pre] at h
    have hd := getD_lt hw (st.m + nW c)
    have hb := two_pow_pos' c.W
    generalize pre c.W ws (st.m + nW c) = x at *
    generalize ws.getD (st.m + nW c) 0 = d at *
    generalize st.Lo + st.R / 2^c.P * cum = lo at *
    generalize st.R / 2^c.P * p = r at *
    obtain ⟨h1, h2⟩ := h
    rw [← Nat.add_mul] at h2
    constructor
    · -- lo * b ≤ x * b + d < (x + 1) * b
      have h3 : lo * 2^c.W < (x + 1) * 2^c.W := by rw [Nat.add_mul]; omega
      have := Nat.lt_of_mul_lt_mul_right h3
      omega
    · have h3 : x * 2^c.W < (lo + r) * 2^c.W := by omega
      exact Nat.lt_of_mul_lt_mul_right h3
  · simp only [hlt, if_false] at h
    omega

/-- the point chosen by sealing: `⌊(Lo + 2^(S-W) − 1) / 2^(S-W)⌋ · 2^(S-W)` -/
theorem seal_pre {c : Cfg} (hc : RValid c) {st : St} (hI : SpecInv c st) :
    pre c.W (RangeSpec.sealWords c.W c.S st) (st.m + nW c)
      = (st.Lo + 2^(c.S - c.W) - 1) / 2^(c.S - c.W) * 2^(c.S - c.W) := by
  obtain ⟨hr, hr2, hle⟩ := hI
  have hU := two_pow_pos' (c.S - c.W)
  have hN := hc.two_le_nW
  unfold RangeSpec.sealWords
  simp only []
  generalize hY : (st.Lo + 2^(c.S - c.W) - 1) / 2^(c.S - c.W) = Y
  -- `Y < (2^W)^(m+1)`
  have hYlt : Y < (2^c.W)^(st.m + 1) := by
    rw [← hY, Nat.div_lt_iff_lt_mul hU, Nat.pow_succ, Nat.mul_assoc,
      Nat.mul_comm (2^c.W), ← hc.pow_S]
    omega
  have hlen := length_digits c.W (st.m + 1) Y
  -- everything after the first `m + 1` words is zero
  have hz : ∀ j, st.m + 1 ≤ j →
      (digits c.W (st.m + 1) Y ++ (if (st.Lo + st.R) / 2^(c.S - c.W) % 2^c.W = Y % 2^c.W
        then [0] else [])).getD j 0 = 0 := by
    intro j hj
    unfold List.getD
    rw [List.getElem?_append_right (by omega)]
    split
    · cases hjj : j - (digits c.W (st.m + 1) Y).length with
      | zero => simp
      | succ k => simp
    · simp
  have hsplit : st.m + nW c = (st.m + 1) + (nW c - 1) := by omega
  rw [hsplit, pre_pad _ _ _ hz, pre_append_left _ _ _ _ (by omega)]
  have : pre c.W (digits c.W (st.m + 1) Y) (st.m + 1) = Y := by
    have h1 := pre_length c.W (digits c.W (st.m + 1) Y)
    rw [hlen] at h1
    rw [h1, val_digits, Nat.mod_eq_of_lt hYlt]
  rw [this, hc.pow_nW_pred]

/-- **the sealed words identify the interval**, and lie within `2^(S-W) − 1` of its lower end -/
theorem seal_contains {c : Cfg} (hc : RValid c) {st : St} (hI : SpecInv c st) :
    Contains c st (RangeSpec.sealWords c.W c.S st) ∧
    pre c.W (RangeSpec.sealWords c.W c.S st) (st.m + nW c) - st.Lo < 2^(c.S - c.W) := by
  have hp := seal_pre hc hI
  obtain ⟨hr, hr2, hle⟩ := hI
  have hU := two_pow_pos' (c.S - c.W)
  unfold Contains
  rw [hp]
  have hdm := Nat.div_add_mod (st.Lo + 2^(c.S - c.W) - 1) (2^(c.S - c.W))
  have hmod := Nat.mod_lt (st.Lo + 2^(c.S - c.W) - 1) hU
  rw [Nat.mul_comm] at hdm
  generalize (st.Lo + 2^(c.S - c.W) - 1) / 2^(c.S - c.W) * 2^(c.S - c.W) = Z at *
  omega

end CV.Range
