import CV.Proofs.BitsHistory
/-!
# Inspection is a no-op on the bit coders (C08), codebook round trips through the coders (C16)
-/
set_option linter.unusedSimpArgs false
set_option linter.unusedVariables false
set_option linter.unnecessarySimpa false
namespace CV.Bits

/-- the inspections of a stack coder: `len`, `is_empty`, `get_compressed()` (guard), `iter()` -/
def SOp.isInspection : SOp → Bool
  | .len => true
  | .isEmpty => true
  | .getCompressed => true
  | .iter => true
  | _ => false

/-- an inspection leaves the abstraction unchanged (the representation may change: a full
    current word can move to the backend when a `StackCoderGuard` is dropped) -/
theorem Stack.inspection_bits {W : Nat} (hW : 1 ≤ W) (op : SOp) (h : op.isInspection = true)
    {c : Coder} (hI : Inv W c) :
    Inv W (Stack.step W op c).2 ∧ bits W (Stack.step W op c).2 = bits W c := by
  have hop : op.Lawful := by cases op <;> simp [SOp.isInspection] at h <;> trivial
  have hr := Stack.step_refines hW op hop hI
  refine ⟨hr.2.1, ?_⟩
  rw [hr.2.2]
  cases op <;> simp [SOp.isInspection] at h <;> rfl

/-- like `run`, but the outputs of inspections are not recorded (a fault still ends the run) -/
def runObs (W : Nat) : List SOp → Coder → List Out × Coder
  | [], c => ([], c)
  | op :: ops, c =>
    let r := Stack.step W op c
    if r.1.isFault then ([r.1], r.2)
    else if op.isInspection then runObs W ops r.2
    else (r.1 :: (runObs W ops r.2).1, (runObs W ops r.2).2)

/-- does a run contain a fault? -/
def noFault (outs : List Out) : Prop := ∀ o ∈ outs, o.isFault = false

/-- two coders with the same bits are indistinguishable by any single operation -/
theorem Stack.step_congr {W : Nat} (hW : 1 ≤ W) (op : SOp) (hop : op.Lawful) {c₁ c₂ : Coder}
    (h₁ : Inv W c₁) (h₂ : Inv W c₂) (h : bits W c₁ = bits W c₂) :
    (Stack.step W op c₁).1 = (Stack.step W op c₂).1 ∧
      bits W (Stack.step W op c₁).2 = bits W (Stack.step W op c₂).2 := by
  have r₁ := Stack.step_refines hW op hop h₁
  have r₂ := Stack.step_refines hW op hop h₂
  rw [r₁.1, r₂.1, r₁.2.2, r₂.2.2, h]
  exact ⟨rfl, rfl⟩

/-- C08 `inspect_erasure`: deleting every inspection from a history changes neither the outputs
    of the remaining operations nor the bits the coder ends up with.  Stated for two start
    states with the same bits, which is what the induction needs (after an inspection the
    representations may differ). -/
theorem inspect_erasure_aux {W : Nat} (hW : 1 ≤ W) : ∀ (ops : List SOp), (∀ op ∈ ops, op.Lawful) →
    ∀ (c c' : Coder), Inv W c → Inv W c' → bits W c = bits W c' →
    noFault (run (Stack.step W) ops c).1 →
    (run (Stack.step W) (ops.filter (fun o => !o.isInspection)) c').1 = (runObs W ops c).1 ∧
      bits W (run (Stack.step W) (ops.filter (fun o => !o.isInspection)) c').2 =
        bits W (runObs W ops c).2 ∧
      bits W (runObs W ops c).2 = bits W (run (Stack.step W) ops c).2
  | [], _, c, c', _, _, hb, _ => ⟨rfl, hb.symm, rfl⟩
  | op :: ops, hops, c, c', hI, hI', hb, hnf => by
    have hop : op.Lawful := hops op (by simp)
    have hops' : ∀ o ∈ ops, o.Lawful := fun o ho => hops o (by simp [ho])
    have hr := Stack.step_refines hW op hop hI
    have hnof : (Stack.step W op c).1.isFault = false := by
      apply hnf
      simp only [run]
      cases hf : (Stack.step W op c).1.isFault <;> simp
    have hnf' : noFault (run (Stack.step W) ops (Stack.step W op c).2).1 := by
      intro o ho
      apply hnf
      simp only [run, hnof, Bool.false_eq_true, if_false]
      exact List.mem_cons_of_mem _ ho
    cases hinsp : op.isInspection
    · -- a real operation: executed on both sides, same output, same bits afterwards
      have hc := Stack.step_congr hW op hop hI' hI hb.symm
      have hr' := Stack.step_refines hW op hop hI'
      have ih := inspect_erasure_aux hW ops hops' (Stack.step W op c).2 (Stack.step W op c').2
        hr.2.1 hr'.2.1 hc.2.symm hnf'
      have hnof' : (Stack.step W op c').1.isFault = false := by rw [hc.1]; exact hnof
      simp only [List.filter_cons, hinsp, Bool.not_false, if_true, run, runObs, hnof, hnof',
        Bool.false_eq_true, if_false]
      exact ⟨by rw [ih.1, hc.1], ih.2.1, ih.2.2⟩
    · -- an inspection: skipped on the left, a no-op on the bits on the right
      have hi := Stack.inspection_bits hW op hinsp hI
      have ih := inspect_erasure_aux hW ops hops' (Stack.step W op c).2 c' hi.1 hI'
        (by rw [hi.2, hb]) hnf'
      simp only [List.filter_cons, hinsp, Bool.not_true, Bool.false_eq_true, if_false, run, runObs,
        hnof, if_true]
      exact ih

/-! ## symbol codes through the coders -/

theorem viaSmallBitStack_spec (bs : List Bool) : viaSmallBitStack bs = .ok bs.reverse := by
  have h := writeBits_spec (W := 64) (by decide) bs (inv_empty 64)
  unfold viaSmallBitStack
  rw [iter_spec (by decide) h.1, h.2]
  simp

/-- the default trait methods produce the mirror image of the method they are derived from -/
theorem encBook_ofSuffix_prefix {Sym : Type} (sfx : Sym → M (List Bool)) (s : Sym) (bs : List Bool)
    (h : sfx s = .ok bs) : (EncBook.ofSuffix sfx).prefixBits s = .ok bs.reverse := by
  simp [EncBook.ofSuffix, h, viaSmallBitStack_spec]

theorem encBook_ofPrefix_suffix {Sym : Type} (pfx : Sym → M (List Bool)) (s : Sym) (bs : List Bool)
    (h : pfx s = .ok bs) : (EncBook.ofPrefix pfx).suffixBits s = .ok bs.reverse := by
  simp [EncBook.ofPrefix, h, viaSmallBitStack_spec]

theorem log2_lt_length_code (v : Nat) : Nat.log2 (v+1) < (EG.code v).length := by
  simp [EG.code]

/-- Exp-Golomb on a stack: `encode_symbol` pushes the mirrored codeword, `decode_symbol` returns
    the symbol and restores the bits below it — for every `v < 2^N` including `2^N - 1` -/
theorem stack_expgolomb_roundtrip {W N v : Nat} (hW : 1 ≤ W) (hN : EG.ValidN N) (hv : v < 2^N)
    {c : Coder} (hI : Inv W c) :
    ∃ c₁ c₂, Stack.encodeSymbol W (EG.encBook N) v c = .ok c₁ ∧
      bits W c₁ = bits W c ++ (EG.code v).reverse ∧
      Stack.decodeSymbol W (EG.decBook N) c₁ = .ok (c₂, .ok v) ∧ Inv W c₂ ∧
      bits W c₂ = bits W c := by
  have hw := writeBits_spec hW (EG.code v).reverse hI
  refine ⟨writeBits W c (EG.code v).reverse, ?_⟩
  have henc : Stack.encodeSymbol W (EG.encBook N) v c = .ok (writeBits W c (EG.code v).reverse) := by
    simp [Stack.encodeSymbol, EG.encBook, EG.suffixBits_spec hN hv]
  generalize hc1 : writeBits W c (EG.code v).reverse = c₁ at *
  have hview : (bits W c₁).reverse = EG.code v ++ (bits W c).reverse := by
    rw [hw.2]; simp
  have hR := EG.decode_refines (stackSrc_refines hW) N (Stack.fuel W c₁) c₁ hw.1
  have hfuel : Nat.log2 (v+1) < Stack.fuel W c₁ := by
    have h1 := fuel_gt hw.1
    have h2 := log2_lt_length_code v
    have h3 : (EG.code v).length ≤ (bits W c₁).length := by rw [hw.2]; simp
    omega
  have hdec := EG.decode_code hN hv (bits W c).reverse (Stack.fuel W c₁) hfuel
  have h1 := hR.1
  rw [hview, hdec] at h1
  cases hd : EG.decode N (stackSrc W) (Stack.fuel W c₁) c₁ with
  | error e => rw [hd] at h1; simp [viewRes] at h1
  | ok p =>
    obtain ⟨c₂, r⟩ := p
    have hI2 := hR.2 c₂ r hd
    rw [hd] at h1
    simp only [viewRes, Except.ok.injEq, Prod.mk.injEq] at h1
    refine ⟨c₂, henc, hw.2, ?_, hI2, ?_⟩
    · simp [Stack.decodeSymbol, EG.decBook, hd, h1.2]
    · have := congrArg List.reverse h1.1
      simpa using this

/-- Exp-Golomb on a queue: `encode_symbol` appends the codeword … -/
theorem queue_expgolomb_encode {W N v : Nat} (hW : 1 ≤ W) (hN : EG.ValidN N) (hv : v < 2^N)
    {c : Coder} (hI : Inv W c) :
    ∃ c₁, Queue.encodeSymbol W (EG.encBook N) v c = .ok c₁ ∧ Inv W c₁ ∧
      bits W c₁ = bits W c ++ EG.code v := by
  have hw := writeBits_spec hW (EG.code v) hI
  exact ⟨_, by simp [Queue.encodeSymbol, EG.encBook, EG.prefixBits_spec hN hv], hw.1, hw.2⟩

/-- … and a queue decoder positioned at a codeword returns the symbol and stops right behind it -/
theorem qdecoder_expgolomb_decode {W N v : Nat} (hW : 1 ≤ W) (hN : EG.ValidN N) (hv : v < 2^N)
    {d : QDecoder} (hI : QDecoder.Inv W d) (rest : List Bool)
    (hb : QDecoder.bits W d = EG.code v ++ rest) :
    ∃ d', QDecoder.decodeSymbol W (EG.decBook N) d = .ok (d', .ok v) ∧ QDecoder.Inv W d' ∧
      QDecoder.bits W d' = rest := by
  have hR := EG.decode_refines (queueSrc_refines hW) N (QDecoder.fuel W d) d hI
  have hfuel : Nat.log2 (v+1) < QDecoder.fuel W d := by
    have h1 := QDecoder.bits_length_le (W := W) d
    have h2 := log2_lt_length_code v
    have h3 : (EG.code v).length ≤ (QDecoder.bits W d).length := by rw [hb]; simp
    unfold QDecoder.fuel; omega
  have hdec := EG.decode_code hN hv rest (QDecoder.fuel W d) hfuel
  have h1 := hR.1
  rw [hb, hdec] at h1
  cases hd : EG.decode N (queueSrc W) (QDecoder.fuel W d) d with
  | error e => rw [hd] at h1; simp [viewRes] at h1
  | ok p =>
    obtain ⟨d', r⟩ := p
    have hI2 := hR.2 d' r hd
    rw [hd] at h1
    simp only [viewRes, Except.ok.injEq, Prod.mk.injEq] at h1
    exact ⟨d', by simp [QDecoder.decodeSymbol, EG.decBook, hd, h1.2], hI2, h1.1⟩

/-- after draining a queue decoder `maybe_exhausted` answers `true` -/
theorem maybeExhausted_of_bits_nil {W : Nat} (hW : 1 ≤ W) {d : QDecoder} (hI : QDecoder.Inv W d)
    (h : QDecoder.bits W d = []) : QDecoder.maybeExhausted W d = true := by
  rcases hI with hm | ⟨j, hj, hm⟩
  · have hr : d.rest = [] := by
      cases hr : d.rest with
      | nil => rfl
      | cons w rest =>
        have := congrArg List.length h
        simp [QDecoder.bits, hr] at this
        omega
    have hpos := Nat.two_pow_pos W
    have h1 : 1 % 2^W = 1 := Nat.mod_eq_of_lt (by
      calc 1 < 2^1 := by simp
        _ ≤ 2^W := Nat.pow_le_pow_right (by omega) hW)
    have hws : wsub W 0 1 = 2^W - 1 := by
      simp only [wsub, h1, Nat.zero_add]
      rw [Nat.mod_eq_of_lt (by omega)]
    simp [QDecoder.maybeExhausted, hm, hr, hws]
  · have := congrArg List.length h
    simp [QDecoder.bits, QDecoder.pos_pow hj hm] at this
    omega

/-- a decoder with whole words left never claims to be exhausted -/
theorem maybeExhausted_false_of_rest {W : Nat} {d : QDecoder} (h : d.rest ≠ []) :
    QDecoder.maybeExhausted W d = false := by
  cases hr : d.rest with
  | nil => exact absurd hr h
  | cons w r => simp [QDecoder.maybeExhausted, hr]

theorem testBit_pow_sub_pow {W j i : Nat} (hj : j ≤ W) (h : i < j ∨ W ≤ i) :
    (2^W - 2^j).testBit i = false := by
  rcases h with h | h
  · have e : 2^W - 2^j = 2^j * (2^(W-j) - 1) := by
      rw [Nat.mul_sub, ← Nat.pow_add, Nat.mul_one]; congr 2; omega
    rw [e, Nat.testBit_two_pow_mul]
    simp; omega
  · apply Nat.testBit_lt_two_pow
    have h1 : 2^W - 2^j < 2^W := Nat.sub_lt (Nat.two_pow_pos W) (Nat.two_pow_pos j)
    exact Nat.lt_of_lt_of_le h1 (Nat.pow_le_pow_right (by omega) h)

/-- C18: a queue decoder that has nothing but zero padding of the current word left reports that
    it may be exhausted -/
theorem maybeExhausted_of_zero_tail {W : Nat} (hW : 1 ≤ W) {d : QDecoder} (hI : QDecoder.Inv W d)
    (hr : d.rest = []) (hz : ∀ b ∈ QDecoder.bits W d, b = false) :
    QDecoder.maybeExhausted W d = true := by
  have hpos := Nat.two_pow_pos W
  have h1 : 1 % 2^W = 1 := Nat.mod_eq_of_lt (by
    calc 1 < 2^1 := by simp
      _ ≤ 2^W := Nat.pow_le_pow_right (by omega) hW)
  rcases hI with hm | ⟨j, hj, hm⟩
  · have hws : wsub W 0 1 = 2^W - 1 := by
      simp only [wsub, h1, Nat.zero_add]
      rw [Nat.mod_eq_of_lt (by omega)]
    simp [QDecoder.maybeExhausted, hm, hr, hws]
  · have hjpos := Nat.two_pow_pos j
    have hjlt : 2^j < 2^W := Nat.pow_lt_pow_right (by omega) hj
    have hws : wsub W (2^j) 1 = 2^j - 1 := by
      simp only [wsub, h1]
      have : 2^j + 2^W - 1 = (2^j - 1) + 2^W := by omega
      rw [this, Nat.add_mod_right, Nat.mod_eq_of_lt (by omega)]
    have hmr : 2^W - 1 - (2^j - 1) = 2^W - 2^j := by omega
    have hand : d.cw &&& (2^W - 2^j) = 0 := by
      apply Nat.eq_of_testBit_eq
      intro i
      rw [Nat.testBit_and, Nat.zero_testBit]
      by_cases hi : i < j ∨ W ≤ i
      · rw [testBit_pow_sub_pow (by omega) hi]; simp
      · have hji : j ≤ i := by omega
        have hiW : i < W := by omega
        have hmem : d.cw.testBit i ∈ QDecoder.bits W d := by
          simp only [QDecoder.bits, QDecoder.pos_pow hj hm, hr, List.flatMap_nil, List.append_nil]
          have hlen : i - j < ((lowBits W d.cw).drop j).length := by simp; omega
          have hget : ((lowBits W d.cw).drop j)[i - j] = d.cw.testBit i := by
            simp [lowBits, Nat.add_sub_cancel' hji]
          rw [← hget]
          exact List.getElem_mem hlen
        rw [hz _ hmem]; simp
    simp [QDecoder.maybeExhausted, hm, hr, hws, hmr, hand]

end CV.Bits
