import CV.Proofs.QuantSearch
/-!
# The float-derived models as `Model`s, and their `WellFormed`-ness

Trusted-base assumptions are *hypotheses* here (never axioms):

* `TBF1Fast h n`   — TB-F1 for `fast_quantized_cdf` / the lazy model: the integer sequence
  `h i = toInt (c_i * scale)` is nondecreasing and starts at `0`;
* `TBF2 …  k0`     — TB-F2: the float-only skip phase of the lazy decoder never skips the owner;
* `GOk m g`        — TB-F1 for the leaky quantizer: `g s = toInt (free * cdf (s - 0.5))` is
  nondecreasing on the support and bounded by `free`.

All three are decidable on a concrete instance and are evaluated by the driver on every sampled
instance (`mono=`, `tbf2=`, `bound=` in the protocol outputs).
-/
namespace CV.Quant

/-- TB-F1 (fast / lazy): IEEE `+`, `* scale` (scale ≥ 0) and float→int conversion are monotone,
    and `0.0 * scale` converts to `0` -/
structure TBF1Fast (h : Nat → Nat) (n : Nat) : Prop where
  mono : Mono h n
  zero : h 0 = 0

/-- TB-F2: for every quantile the skip phase consumed `1 ≤ k0 q ≤ n` items and the first symbol
    it did not skip starts at or below `q` -/
def TBF2 (P n free : Nat) (h : Nat → Nat) (k0 : Nat → Nat) : Prop :=
  ∀ q, q < 2 ^ P → 1 ≤ k0 q ∧ k0 q ≤ n ∧ cumF P n free h (k0 q - 1) ≤ q

/-! ### lazy categorical model -/

/-- the lazy model as an abstract entropy model (`k0` = skip counts of the decoder) -/
def lazyModel (B P n free : Nat) (h : Nat → Nat) (k0 : Nat → Nat) : Model Nat where
  enc s := match lazyEnc B P n free h s with
    | .ok r => r
    | .error _ => none
  dec q := match lazyDec B P n free h (k0 q) q with
    | .ok r => r
    | .error _ => (0, 0, 0)

section lazy
variable {B P n free : Nat} {h : Nat → Nat} {k0 : Nat → Nat}

theorem lazyModel_enc (ok : FastOk B P n) (hf : free = 2 ^ P - n) (tb : TBF1Fast h n) (s : Nat) :
    (lazyModel B P n free h k0).enc s = encF P n free h s := by
  unfold lazyModel; simp only; rw [lazyEnc_eq ok hf tb.mono]

theorem lazyModel_dec (ok : FastOk B P n) (hB : B ≤ 64) (hf : free = 2 ^ P - n)
    (tb : TBF1Fast h n) (t2 : TBF2 P n free h k0) {q : Nat} (hq : q < 2 ^ P) :
    ∃ s, IsBin P n free h q s ∧
      (lazyModel B P n free h k0).dec q = (s, cumF P n free h s, widthF P n free h s) := by
  obtain ⟨h1, h2, h3⟩ := t2 q hq
  obtain ⟨s, hs, hd⟩ := lazyDec_spec ok hB hf tb.mono hq h1 h2 h3
  exact ⟨s, hs, by unfold lazyModel; simp only; rw [hd]⟩

/-- **C03 (lazy model)** valid and exactly invertible, from TB-F1 and TB-F2 -/
theorem lazyModel_wellFormed (ok : FastOk B P n) (hB : B ≤ 64) (hf : free = 2 ^ P - n)
    (tb : TBF1Fast h n) (t2 : TBF2 P n free h k0) :
    (lazyModel B P n free h k0).WellFormed P := by
  constructor
  · intro s c p henc
    rw [lazyModel_enc ok hf tb] at henc
    unfold encF at henc
    by_cases hs : s < n
    · rw [if_pos hs] at henc
      injection henc with henc
      injection henc with hc hp
      subst hc; subst hp
      have hpos := width_pos ok hf tb.mono hs
      have hlt := width_lt ok hf tb.mono hs
      have hle : cumF P n free h (s + 1) ≤ 2 ^ P := by
        have := cumF_mono ok hf tb.mono (i := s + 1) (j := n) (by omega) (Nat.le_refl _)
        rw [cumF_last] at this; exact this
      have hst := cumF_step ok hf tb.mono hs
      refine ⟨hpos, by unfold widthF; omega, hlt, ?_⟩
      intro q hq1 hq2
      have hq : q < 2 ^ P := by unfold widthF at hq2; omega
      obtain ⟨s', hs', hd⟩ := lazyModel_dec (k0 := k0) ok hB hf tb t2 hq
      have : s = s' := IsBin.unique ok hf tb.mono ⟨hs, hq1, by unfold widthF at hq2; omega⟩ hs'
      subst this; exact hd
    · rw [if_neg hs] at henc; cases henc
  · intro q hq
    obtain ⟨s, hs, hd⟩ := lazyModel_dec (k0 := k0) ok hB hf tb t2 hq
    rw [hd]
    refine ⟨?_, hs.2.1, ?_⟩
    · show (lazyModel B P n free h k0).enc s = _
      rw [lazyModel_enc ok hf tb]; unfold encF; rw [if_pos hs.1]
    · have := hs.2.2; have := cumF_step ok hf tb.mono hs.1
      show q < cumF P n free h s + widthF P n free h s
      unfold widthF; omega

/-- **C09 (lazy / eager)** symbols outside `0..n` are impossible (`usize` compare, no narrowing) -/
theorem lazyModel_enc_none (ok : FastOk B P n) (hf : free = 2 ^ P - n) (tb : TBF1Fast h n)
    {s : Nat} (hs : n ≤ s) : (lazyModel B P n free h k0).enc s = none := by
  rw [lazyModel_enc ok hf tb]; unfold encF; rw [if_neg (by omega)]

end lazy

/-! ### leakily quantised distribution -/

/-- the quantised model as an abstract entropy model; `hint q` = what `Inverse::inverse`
    returned for the quantile `q`, converted to `Symbol` — an arbitrary function -/
def leakyModel (m : LQ) (g : Int → Nat) (hint : Nat → Int) : Model Int where
  enc s := match m.enc (extL g) (extR g) s with
    | .ok r => r
    | .error _ => none
  dec q := match m.dec (extL g) (extR g) (searchFuel m.t) (hint q) q with
    | .ok r => r
    | .error _ => (0, 0, 0)

section leaky
variable {m : LQ} {g : Int → Nat} {hint : Nat → Int}

theorem leakyModel_enc (ok : m.Ok) (gk : GOk m g) (s : Int) :
    (leakyModel m g hint).enc s = encQ m g s := by
  unfold leakyModel; simp only; rw [enc_eq ok gk]

theorem leakyModel_dec (ok : m.Ok) (gk : GOk m g) {q : Nat} (hq : q < 2 ^ m.P) :
    ∃ a, Bin m g q a ∧ (leakyModel m g hint).dec q = (a, leftQ m g a, widthQ m g a) := by
  obtain ⟨a, ha, hd⟩ := dec_correct ok gk hq (hint q) (Nat.le_refl _)
  exact ⟨a, ha, by unfold leakyModel; simp only; rw [hd]⟩

/-- **C03 (leaky quantizer)** for every hint function: valid (tiling by non-empty bins, none of
    probability one) and exactly invertible, from `GOk` (TB-F1) alone -/
theorem leakyModel_wellFormed (ok : m.Ok) (gk : GOk m g) :
    (leakyModel m g hint).WellFormed m.P := by
  constructor
  · intro s c p henc
    rw [leakyModel_enc ok gk] at henc
    unfold encQ at henc
    by_cases hs : m.min ≤ s ∧ s ≤ m.max
    · rw [if_pos hs] at henc
      injection henc with henc
      injection henc with hc hp
      subst hc; subst hp
      obtain ⟨h1, h2⟩ := hs
      have hw := widthQ_bounds ok gk h1 h2
      have hlr := leftQ_lt_rightQ ok gk h1 h2
      have hr := rightQ_le ok gk h1 h2
      refine ⟨hw.1, by unfold widthQ; omega, hw.2, ?_⟩
      intro q hq1 hq2
      have hq : q < 2 ^ m.P := by unfold widthQ at hq2; omega
      have := enc_dec_consistent ok gk h1 h2 hq1 hq2 (hint q) (Nat.le_refl (searchFuel m.t))
      unfold leakyModel; simp only; rw [this]
    · rw [if_neg hs] at henc; cases henc
  · intro q hq
    obtain ⟨a, ha, hd⟩ := leakyModel_dec (hint := hint) ok gk hq
    rw [hd]
    refine ⟨?_, ha.2.2.1, ?_⟩
    · show (leakyModel m g hint).enc a = _
      rw [leakyModel_enc ok gk]; unfold encQ; rw [if_pos ⟨ha.1, ha.2.1⟩]
    · have := leftQ_lt_rightQ ok gk ha.1 ha.2.1
      have := ha.2.2.2
      show q < leftQ m g a + widthQ m g a
      unfold widthQ; omega

/-- the decoder does not depend on the hint at all -/
theorem leakyModel_dec_hint_irrelevant (ok : m.Ok) (gk : GOk m g) (hint hint' : Nat → Int)
    {q : Nat} (hq : q < 2 ^ m.P) : (leakyModel m g hint).dec q = (leakyModel m g hint').dec q := by
  obtain ⟨a, ha, hd⟩ := leakyModel_dec (hint := hint) ok gk hq
  obtain ⟨b, hb, hd'⟩ := leakyModel_dec (hint := hint') ok gk hq
  rw [hd, hd', bin_unique_q ok gk ha hb]

/-- **C09 (leaky quantizer)** zero probability outside `[min, max]`, for every value of the
    symbol type (indeed every integer): the comparison is made in `Symbol`, before narrowing -/
theorem leakyModel_enc_none (ok : m.Ok) (gk : GOk m g) {s : Int} (hs : s < m.min ∨ m.max < s) :
    (leakyModel m g hint).enc s = none := by
  rw [leakyModel_enc ok gk]; unfold encQ; rw [if_neg (by omega)]

end leaky

end CV.Quant
