import CV.Proofs.AnsExport
/-!
# ANS coder: raw binary import / export (`from_binary`, `get_binary`, `into_binary`, `num_valid_bits`)
-/
namespace CV.Ans
open CV

variable {c : Cfg}

theorem xor_marker {n v : Nat} (hv : v < 2^n) : (2^n + v) ^^^ (1 <<< n) = v := by
  rw [Nat.shiftLeft_eq, Nat.one_mul]
  have h := Nat.two_pow_add_eq_or_of_lt hv 1
  rw [Nat.mul_one] at h
  rw [h]
  apply Nat.eq_of_testBit_eq
  intro j
  simp only [Nat.testBit_xor, Nat.testBit_or, Nat.testBit_two_pow]
  by_cases hj : n = j
  · subst hj; simp [Nat.testBit_lt_two_pow hv]
  · simp [hj]

theorem bitlen_marker {n v : Nat} (hv : v < 2^n) : bitlen (2^n + v) = n + 1 := by
  have h1 : bitlen (2^n + v) ≤ n + 1 := bitlen_le_of_lt (by rw [Nat.pow_succ]; omega)
  have hpos : 0 < 2^n + v := by have := Nat.two_pow_pos n; omega
  have h2 := lt_two_pow_bitlen (2^n + v)
  have h3 : ¬ bitlen (2^n + v) ≤ n := by
    intro h
    have := pow_le_pow2 h
    omega
  omega

theorem nchunks_marker {W k v : Nat} (hW : 0 < W) (hv : v < 2^(k * W)) :
    nchunks W (2^(k * W) + v) = k + 1 := by
  unfold nchunks
  rw [bitlen_marker hv]
  have : k * W + 1 + W - 1 = W * (k + 1) := by rw [Nat.mul_succ, Nat.mul_comm]; omega
  rw [this, Nat.mul_div_cancel_left _ hW]

/-- appending a least significant digit -/
theorem digitsBE_shift {W v w : Nat} (hw : w < 2^W) (j : Nat) :
    digitsBE W (v * 2^W + w) (j + 1) = digitsBE W v j ++ [w] := by
  induction j with
  | zero =>
    simp only [digitsBE_succ, digitsBE_zero, Nat.zero_mul, Nat.shiftRight_zero, List.nil_append]
    rw [mul_add_mod_of_lt hw]
  | succ j ih =>
    rw [digitsBE_succ, ih, digitsBE_succ]
    simp only [List.cons_append, List.cons.injEq, and_true]
    rw [shr_eq, shr_eq]
    have : 2^((j + 1) * W) = 2^W * 2^(j * W) := by
      rw [← Nat.pow_add]; congr 1; rw [Nat.succ_mul]; omega
    rw [this, ← Nat.div_div_eq_div_mul, mul_add_div_of_lt hw]

/-- digits of a number above its width are its own digits with the marker on top -/
theorem digitsBE_marker {W k v : Nat} (hv : v < 2^(k * W)) (j : Nat) (hj : j ≤ k) :
    digitsBE W (2^(k * W) + v) j = digitsBE W v j := by
  induction j with
  | zero => rfl
  | succ j ih =>
    rw [digitsBE_succ, digitsBE_succ, ih (by omega)]
    congr 1
    rw [shr_eq, shr_eq]
    -- (2^(kW) + v) / 2^(jW) = 2^((k-j)W) + v / 2^(jW); and 2^((k-j)W) % 2^W = 0 as k - j ≥ 1
    have hsplit : 2^(k * W) = 2^(j * W) * (2^W * 2^((k - j - 1) * W)) := by
      rw [← Nat.pow_add, ← Nat.pow_add]; congr 1
      have : k = j + 1 + (k - j - 1) := by omega
      conv => lhs; rw [this]
      rw [Nat.add_mul, Nat.add_mul, Nat.one_mul]; omega
    rw [hsplit, Nat.mul_add_div (Nat.two_pow_pos _), Nat.mul_add_mod]

/-- the `from_binary` loop: starting from a marker state, it keeps a marker state -/
theorem fromBinaryLoop_spec (hc : c.Valid) (ws : List Nat) (hws : ∀ w ∈ ws, w < 2^c.W) :
    ∀ (k v : Nat), v < 2^(k * c.W) → 2^(k * c.W) + v < 2^c.S →
    ∃ k' v' rest, fromBinaryLoop c (2^(k * c.W) + v) ws = (2^(k' * c.W) + v', rest) ∧
      v' < 2^(k' * c.W) ∧ 2^(k' * c.W) + v' < 2^c.S ∧
      (rest ≠ [] → 2^(c.S - c.W) ≤ 2^(k' * c.W) + v') ∧
      digitsBE c.W v' k' ++ rest = digitsBE c.W v k ++ ws ∧
      k' + rest.length = k + ws.length := by
  obtain ⟨f1, f2, f3, f4, f5, f6⟩ := Valid.facts hc
  obtain ⟨e1, e2, e3, e4, l1, l2, l3⟩ := pows hc
  induction ws with
  | nil =>
    intro k v hv hs
    exact ⟨k, v, [], rfl, hv, hs, fun h => absurd rfl h, rfl, rfl⟩
  | cons w ws ih =>
    intro k v hv hs
    have hw : w < 2^c.W := hws w List.mem_cons_self
    by_cases hlt : 2^(k * c.W) + v < 2^(c.S - c.W)
    · simp only [fromBinaryLoop, hlt, if_true]
      have hnt : (2^(k * c.W) + v) <<< c.W < 2^c.S := by
        rw [Nat.shiftLeft_eq, e2]
        exact Nat.mul_lt_mul_of_pos_right hlt (Nat.two_pow_pos _)
      rw [Nat.mod_eq_of_lt hnt, shl_or_eq hw]
      have hk : 2^((k + 1) * c.W) = 2^(k * c.W) * 2^c.W := by
        rw [← Nat.pow_add]; congr 1; rw [Nat.succ_mul]
      have hst : (2^(k * c.W) + v) * 2^c.W + w = 2^((k + 1) * c.W) + (v * 2^c.W + w) := by
        rw [hk, Nat.add_mul]; omega
      rw [hst]
      have hv' : v * 2^c.W + w < 2^((k + 1) * c.W) := by
        rw [hk]
        have : (v + 1) * 2^c.W ≤ 2^(k * c.W) * 2^c.W := Nat.mul_le_mul_right _ hv
        rw [Nat.add_mul, Nat.one_mul] at this
        omega
      have hs' : 2^((k + 1) * c.W) + (v * 2^c.W + w) < 2^c.S := by
        rw [← hst, e2]
        have : (2^(k * c.W) + v + 1) * 2^c.W ≤ 2^(c.S - c.W) * 2^c.W := Nat.mul_le_mul_right _ hlt
        rw [Nat.add_mul, Nat.one_mul] at this
        omega
      obtain ⟨k', v', rest, h1, h2, h3, h4, h5, h6⟩ :=
        ih (fun w' hw' => hws w' (List.mem_cons_of_mem _ hw')) (k + 1) (v * 2^c.W + w) hv' hs'
      refine ⟨k', v', rest, h1, h2, h3, h4, ?_, ?_⟩
      · rw [h5, digitsBE_shift hw, List.append_assoc]; rfl
      · rw [h6]; simp only [List.length_cons]; omega
    · simp only [fromBinaryLoop, hlt, if_false]
      exact ⟨k, v, w :: ws, rfl, hv, hs, fun _ => by omega, rfl, rfl⟩

/-- everything `from_binary` promises, in one statement -/
theorem fromBinary_spec (hc : c.Valid) (ws : List Nat) (hws : ∀ w ∈ ws, w < 2^c.W) :
    ∃ k v, (fromBinary c ws).state = 2^(k * c.W) + v ∧ v < 2^(k * c.W) ∧
      Inv c (fromBinary c ws) ∧ (fromBinary c ws).cap = none ∧
      digitsBE c.W v k ++ (fromBinary c ws).bulk = ws ∧
      k + (fromBinary c ws).bulk.length = ws.length := by
  obtain ⟨f1, f2, f3, f4, f5, f6⟩ := Valid.facts hc
  have h1S : 2^(0 * c.W) + 0 < 2^c.S := by
    simp only [Nat.zero_mul, Nat.pow_zero, Nat.add_zero]
    exact Nat.one_lt_two_pow (by omega)
  obtain ⟨k', v', rest, h1, h2, h3, h4, h5, h6⟩ :=
    fromBinaryLoop_spec hc ws hws 0 0 (by simp) h1S
  simp only [Nat.zero_mul, Nat.pow_zero, Nat.add_zero] at h1
  refine ⟨k', v', ?_, h2, ?_, ?_, ?_, ?_⟩
  · simp only [fromBinary, h1]
  · simp only [fromBinary, h1]
    refine ⟨h3, ?_, h4⟩
    intro w hw
    have : w ∈ digitsBE c.W v' k' ++ rest := List.mem_append_right _ hw
    rw [h5] at this
    simp only [digitsBE_zero, List.nil_append] at this
    exact hws w this
  · simp only [fromBinary, h1]
  · simp only [fromBinary, h1]
    simpa [digitsBE_zero] using h5
  · simp only [fromBinary, h1]
    simpa using h6

/-- `num_valid_bits` of a coder created by `from_binary` is exactly the size of the data -/
theorem numValidBits_fromBinary (hc : c.Valid) (ws : List Nat) (hws : ∀ w ∈ ws, w < 2^c.W) :
    numValidBits c (fromBinary c ws) = c.W * ws.length := by
  obtain ⟨k, v, hst, hv, _, _, _, hlen⟩ := fromBinary_spec hc ws hws
  unfold numValidBits
  rw [hst, bitlen_marker hv, ← hlen, Nat.mul_add, Nat.mul_comm c.W k]
  omega

/-- what the borrowing accessor shows for a marker state -/
theorem getBinary_marker (hc : c.Valid) {x : Coder} (hcap : x.cap = none) {k v : Nat}
    (hst : x.state = 2^(k * c.W) + v) (hv : v < 2^(k * c.W)) :
    getBinary c x = .ok (digitsBE c.W v k ++ x.bulk) := by
  obtain ⟨f1, f2, f3, f4, f5, f6⟩ := Valid.facts hc
  have hW : 0 < c.W := by omega
  unfold getBinary
  rw [chunksBE_eq, hst, nchunks_marker hW hv, digitsBE_succ, digitsBE_marker hv k (Nat.le_refl _)]
  have htop : ((2^(k * c.W) + v) >>> (k * c.W)) % 2^c.W = 1 := by
    rw [shr_eq]
    have : (2^(k * c.W) + v) / 2^(k * c.W) = 1 := by
      rw [Nat.add_comm, Nat.add_div_right _ (Nat.two_pow_pos _), Nat.div_eq_of_lt hv]
    rw [this]
    exact Nat.mod_eq_of_lt (Nat.one_lt_two_pow (by omega))
  simp only [htop, ne_eq, not_true_eq_false, if_false]
  rw [pushAll_none hcap]
  simp

/-- the consuming accessor (after the D2 repair) returns the same words -/
theorem intoBinary_marker (hc : c.Valid) {x : Coder} (hcap : x.cap = none) {k v : Nat}
    (hst : x.state = 2^(k * c.W) + v) (hv : v < 2^(k * c.W)) :
    intoBinary c x = .ok (digitsBE c.W v k ++ x.bulk) := by
  obtain ⟨f1, f2, f3, f4, f5, f6⟩ := Valid.facts hc
  have hW : 0 < c.W := by omega
  unfold intoBinary
  have hne : x.state ≠ 0 := by have := Nat.two_pow_pos (k * c.W); omega
  simp only [hne, if_false]
  rw [hst, bitlen_marker hv, Nat.add_sub_cancel]
  have hmod : k * c.W % c.W = 0 := Nat.mul_mod_left k c.W
  simp only [hmod, ne_eq, not_true_eq_false, if_false]
  rw [xor_marker hv, Nat.mul_div_cancel _ hW, pushAll_none hcap]
  simp [digitsBE, List.map_reverse]

/-- **C04**: both raw-binary accessors return the original data word for word -/
theorem binary_roundtrip (hc : c.Valid) (ws : List Nat) (hws : ∀ w ∈ ws, w < 2^c.W) :
    getBinary c (fromBinary c ws) = .ok ws ∧ intoBinary c (fromBinary c ws) = .ok ws := by
  obtain ⟨k, v, hst, hv, _, hcap, hdig, _⟩ := fromBinary_spec hc ws hws
  rw [getBinary_marker hc hcap hst hv, intoBinary_marker hc hcap hst hv, hdig]
  exact ⟨rfl, rfl⟩

end CV.Ans
