import CV.Proofs.ChainTotal
/-!
# Chain coder: the unsafe sites are unreachable (C20)

The four `NonZero::new_unchecked` / `into_nonzero_unchecked` sites of `decode_symbol` /
`encode_symbol` are modelled as `Fault.ub` in `takeChunk` / `putChunk`.  They are unreachable
as soon as the compressed head is a valid `Word::NonZero` (`1 ≤ hc < 2^W`) – whatever the
remainders head, the stacks, the entropy model or the quantile are.  Under the full invariant
with well-formed models no `Fault` of any kind is reachable (`ChainStep`, `ChainPrecision`,
`ChainTotal`); `Reachable` packages that for everything the public API can produce.
-/
namespace CV.Chain

theorem takeChunk_no_ub {c : Cfg} (hP : PrecOk c.W c.S c.P) {hc : Nat}
    (h1 : 1 ≤ hc) (_h2 : hc < 2^c.W) (comp : List Nat) :
    takeChunk c hc comp = .error .outOfData ∨ ∃ r, takeChunk c hc comp = .ok r := by
  obtain ⟨hP1, hPW, _⟩ := hP
  by_cases hEq : c.P = c.W
  · cases comp with
    | nil => left; simp [takeChunk, hEq]
    | cons w r => right; exact ⟨(w, hc, r), by simp [takeChunk, hEq]⟩
  · have hlt : c.P < c.W := by omega
    have e1 : shlT c.W 1 c.P = 2^c.P := shlT_one hlt
    have hA : 0 < 2^c.P := pow_pos2 _
    have hB : 0 < 2^(c.W - c.P) := pow_pos2 _
    by_cases hlow : hc < 2^c.P
    · cases comp with
      | nil => left; simp [takeChunk, hEq, e1, hlow]
      | cons w r =>
        right
        have hnt : hc * 2^(c.W - c.P) < 2^c.W := by
          rw [pow_split' hPW]; exact Nat.mul_lt_mul_of_pos_right hlow hB
        have hne : shlT c.W hc (c.W - c.P) ||| (w >>> c.P) ≠ 0 := by
          intro h0
          have := (Nat.or_eq_zero_iff.mp h0).1
          rw [shlT_of_lt hnt] at this
          have : 1 * 2^(c.W - c.P) ≤ hc * 2^(c.W - c.P) := Nat.mul_le_mul_right _ h1
          omega
        refine ⟨(w, shlT c.W hc (c.W - c.P) ||| (w >>> c.P), r), ?_⟩
        unfold takeChunk
        rw [if_pos (Or.inr (e1 ▸ hlow))]
        simp only [ne_eq, hEq, not_false_eq_true, if_true]
        rw [if_neg hne]
    · right
      have hv1 : 1 ≤ hc / 2^c.P := (Nat.one_le_div_iff hA).mpr (by omega)
      have hne : hc / 2^c.P ≠ 0 := by omega
      exact ⟨(hc, hc / 2^c.P, comp), by simp [takeChunk, hEq, e1, hlow, shr_eq, hne]⟩

theorem putChunk_no_ub {c : Cfg} (hP : PrecOk c.W c.S c.P) {hc : Nat}
    (h1 : 1 ≤ hc) (_h2 : hc < 2^c.W) (comp : List Nat) (q : Nat) :
    ∃ r, putChunk c hc comp q = .ok r := by
  obtain ⟨hP1, hPW, _⟩ := hP
  by_cases hEq : c.P = c.W
  · exact ⟨(hc, q :: comp), by simp [putChunk, hEq]⟩
  · have e2 : shlT c.W 1 (c.W - c.P) = 2^(c.W - c.P) := shlT_one (by omega)
    have hA : 0 < 2^c.P := pow_pos2 _
    have hB : 0 < 2^(c.W - c.P) := pow_pos2 _
    by_cases hsmall : hc < 2^(c.W - c.P)
    · have hnt : hc * 2^c.P < 2^c.W := by
        rw [pow_split hPW]; exact Nat.mul_lt_mul_of_pos_right hsmall hA
      have hne : shlT c.W hc c.P ||| q ≠ 0 := by
        intro h0
        have := (Nat.or_eq_zero_iff.mp h0).1
        rw [shlT_of_lt hnt] at this
        have : 1 * 2^c.P ≤ hc * 2^c.P := Nat.mul_le_mul_right _ h1
        omega
      refine ⟨(shlT c.W hc c.P ||| q, comp), ?_⟩
      unfold putChunk
      rw [if_pos ⟨hEq, e2 ▸ hsmall⟩]
      simp only
      rw [if_neg hne]
    · have hv1 : 1 ≤ hc / 2^(c.W - c.P) := (Nat.one_le_div_iff hB).mpr (by omega)
      have hne : hc / 2^(c.W - c.P) ≠ 0 := by omega
      refine ⟨(hc / 2^(c.W - c.P), (shlT c.W hc c.P ||| q) :: comp), ?_⟩
      unfold putChunk
      rw [if_neg (by rw [e2]; intro h; exact hsmall h.2), if_neg hEq]
      simp only [shr_eq]
      rw [if_neg hne]

/-- `decode_symbol` never reaches a `new_unchecked(0)`: only a valid `NonZero` compressed head
    is needed – any model (well-formed or not), any remainders head, any stacks. -/
theorem decode_never_ub {Sym : Type} {c : Cfg} (hP : PrecOk c.W c.S c.P) (m : Model Sym)
    {x : Coder} (h1 : 1 ≤ x.heads.compressed) (h2 : x.heads.compressed < 2^c.W) (site : String) :
    decode c m x ≠ .error (.fault (.ub site)) := by
  intro h
  rcases takeChunk_no_ub hP h1 h2 x.compressed with he | ⟨⟨word, hc', comp'⟩, hok⟩
  · simp [decode, he] at h
  · rcases hd : m.dec (quantileOf c word) with ⟨s, cum, p⟩
    simp only [decode, hok, hd] at h
    by_cases hp : p = 0
    · simp [hp] at h
    · simp only [hp, if_false] at h
      unfold csub at h
      by_cases hle : cum ≤ quantileOf c word
      · simp only [hle, if_true] at h
        unfold absorb cmul at h
        by_cases hm : x.heads.remainders * p < 2^c.S
        · simp only [hm, if_true] at h
          unfold cadd at h
          by_cases ha : x.heads.remainders * p + (quantileOf c word - cum) < 2^c.S
          · simp only [ha, if_true] at h
            by_cases hf : x.heads.remainders * p + (quantileOf c word - cum) ≥ shlT c.S 1 (c.S - c.P)
            · simp [hf] at h
            · simp [hf] at h
          · simp [ha] at h
        · simp [hm] at h
      · simp [hle] at h

/-- `encode_symbol` never reaches an `into_nonzero_unchecked(0)`: only a valid `NonZero`
    compressed head is needed – any model, any symbol, any remainders head, any stacks. -/
theorem encode_never_ub {Sym : Type} {c : Cfg} (hP : PrecOk c.W c.S c.P) (m : Model Sym) (s : Sym)
    {x : Coder} (h1 : 1 ≤ x.heads.compressed) (h2 : x.heads.compressed < 2^c.W) (site : String) :
    encode c m s x ≠ .error (.fault (.ub site)) := by
  intro h
  unfold encode at h
  cases hs : m.enc s with
  | none => simp [hs] at h
  | some cp =>
    obtain ⟨cum, p⟩ := cp
    simp only [hs, encodeCP] at h
    by_cases hp : p = 0
    · simp [hp] at h
    · simp only [hp, if_false] at h
      cases hrel : release c x.heads.remainders x.remainders p with
      | error e =>
        have : e = .outOfRemainders := by
          unfold release at hrel
          by_cases hlt : x.heads.remainders < shlT c.S p (c.S - c.W - c.P)
          · simp only [hlt, if_true] at hrel
            cases hrf : refillHead c x.heads.remainders x.remainders with
            | none => simp [hrf] at hrel; exact hrel.symm
            | some r => simp [hrf] at hrel
          · simp [hlt] at hrel
        subst this
        simp [hrel] at h
      | ok r =>
        obtain ⟨rmd, hr, rems⟩ := r
        simp only [hrel] at h
        unfold cadd at h
        by_cases hq : cum + narrow c.B (narrow c.W rmd) < 2^c.B
        · simp only [hq, if_true] at h
          obtain ⟨r2, hput⟩ := putChunk_no_ub hP h1 h2 x.compressed (cum + narrow c.B (narrow c.W rmd))
          simp [hput] at h
        · simp [hq] at h

end CV.Chain
