import CV.Proofs.ChainTotal
/-!
# Chain coder: the unsafe sites are unreachable (C20)

The four `NonZero::new_unchecked` / `into_nonzero_unchecked` sites of `decode_symbol` /
`encode_symbol` are modelled as `Fault.ub` in `takeChunk` / `putChunk`.  They are unreachable
as soon as the compressed head is a valid `Word::NonZero` (`1 ≤ hc < 2^W`) – whatever the
remainders head, the stacks, the entropy model or the quantile are.  Under the full invariant
with well-formed models no `Fault` of any kind is reachable (`ChainStep`, `ChainPrecision`,
`ChainTotal`); `Reachable` packages that for everything the public API can produce.
-/
namespace CV.Chain

theorem takeChunk_no_ub {c : Cfg} (hP : PrecOk c.W c.S c.P) {hc : Nat}
    (h1 : 1 ≤ hc) (_h2 : hc < 2^c.W) (comp : List Nat) :
    takeChunk c hc comp = .error .outOfData ∨ ∃ r, takeChunk c hc comp = .ok r := by
  obtain ⟨hP1, hPW, _⟩ := hP
  by_cases hEq : c.P = c.W
  · cases comp with
    | nil => left; simp [takeChunk, hEq]
    | cons w r => right; exact ⟨(w, hc, r), by simp [takeChunk, hEq]⟩
  · have hlt : c.P < c.W := by omega
    have e1 : shlT c.W 1 c.P = 2^c.P := shlT_one hlt
    have hA : 0 < 2^c.P := pow_pos2 _
    have hB : 0 < 2^(c.W - c.P) := pow_pos2 _
    by_cases hlow : hc < 2^c.P
    · cases comp with
      | nil => left; simp [takeChunk, hEq, e1, hlow]
      | cons w r =>
        right
        have hnt : hc * 2^(c.W - c.P) < 2^c.W := by
          rw [pow_split' hPW]; exact Nat.mul_lt_mul_of_pos_right hlow hB
        have hne : shlT c.W hc (c.W - c.P) ||| (w >>> c.P) ≠ 0 := by
          intro h0
          have := (Nat.or_eq_zero_iff.mp h0).1
          rw [shlT_of_lt hnt] at this
          have : 1 * 2^(c.W - c.P) ≤ hc * 2^(c.W - c.P) := Nat.mul_le_mul_right _ h1
          omega
        refine ⟨(w, shlT c.W hc (c.W - c.P) ||| (w >>> c.P), r), ?_⟩
        unfold takeChunk
        rw [if_pos (Or.inr (e1 ▸ hlow))]
        simp only [ne_eq, hEq, not_false_eq_true, if_true]
        rw [if_neg hne]
    · right
      have hv1 : 1 ≤ hc / 2^c.P := (Nat.one_le_div_iff hA).mpr (by omega)
      have hne : hc / 2^c.P ≠ 0 := by omega
      exact ⟨(hc, hc / 2^c.P, comp), by simp [takeChunk, hEq, e1, hlow, shr_eq, hne]⟩

theorem putChunk_no_ub {c : Cfg} (hP : PrecOk c.W c.S c.P) {hc : Nat}
    (h1 : 1 ≤ hc) (_h2 : hc < 2^c.W) (comp : List Nat) (q : Nat) :
    ∃ r, putChunk c hc comp q = .ok r := by
  obtain ⟨hP1, hPW, _⟩ := hP
  by_cases hEq : c.P = c.W
  · exact ⟨(hc, q :: comp), by simp [putChunk, hEq]⟩
  · have e2 : shlT c.W 1 (c.W - c.P) = 2^(c.W - c.P) := shlT_one (by omega)
    have hA : 0 < 2^c.P := pow_pos2 _
    have hB : 0 < 2^(c.W - c.P) := pow_pos2 _
    by_cases hsmall : hc < 2^(c.W - c.P)
    · have hnt : hc * 2^c.P < 2^c.W := by
        rw [pow_split hPW]; exact Nat.mul_lt_mul_of_pos_right hsmall hA
      have hne : shlT c.W hc c.P ||| q ≠ 0 := by
        intro h0
        have := (Nat.or_eq_zero_iff.mp h0).1
        rw [shlT_of_lt hnt] at this
        have : 1 * 2^c.P ≤ hc * 2^c.P := Nat.mul_le_mul_right _ h1
        omega
      refine ⟨(shlT c.W hc c.P ||| q, comp), ?_⟩
      unfold putChunk
      rw [if_pos ⟨hEq, e2 ▸ hsmall⟩]
      simp only
      rw [if_neg hne]
    · have hv1 : 1 ≤ hc / 2^(c.W - c.P) := (Nat.one_le_div_iff hB).mpr (by omega)
      have hne : hc / 2^(c.W - c.P) ≠ 0 := by omega
      refine ⟨(hc / 2^(c.W - c.P), (shlT c.W hc c.P ||| q) :: comp), ?_⟩
      unfold putChunk
      rw [if_neg (by rw [e2]; intro h; exact hsmall h.2), if_neg hEq]
      simp only [shr_eq]
      rw [if_neg hne]

/-- `decode_symbol` never reaches a `new_unchecked(0)`: only a valid `NonZero` compressed head
    is needed – any model (well-formed or not), any remainders head, any stacks. -/
theorem decode_never_ub {Sym : Type} {c : Cfg} (hP : PrecOk c.W c.S c.P) (m : Model Sym)
    {x : Coder} (h1 : 1 ≤ x.heads.compressed) (h2 : x.heads.compressed < 2^c.W) (site : String) :
    decode c m x ≠ .error (.fault (.ub site)) := by
  intro h
  rcases takeChunk_no_ub hP h1 h2 x.compressed with he | ⟨⟨word, hc', comp'⟩, hok⟩
  · simp [decode, he] at h
  · rcases hd : m.dec (quantileOf c word) with ⟨s, cum, p⟩
    simp only [decode, hok, hd] at h
    by_cases hp : p = 0
    · simp [hp] at h
    · simp only [hp, if_false] at h
      unfold csub at h
      by_cases hle : cum ≤ quantileOf c word
      · simp only [hle, if_true] at h
        unfold absorb cmul at h
        by_cases hm : x.heads.remainders * p < 2^c.S
        · simp only [hm, if_true] at h
          unfold cadd at h
          by_cases ha : x.heads.remainders * p + (quantileOf c word - cum) < 2^c.S
          · simp only [ha, if_true] at h
            by_cases hf : x.heads.remainders * p + (quantileOf c word - cum) ≥ shlT c.S 1 (c.S - c.P)
            · simp [hf] at h
            · simp [hf] at h
          · simp [ha] at h
        · simp [hm] at h
      · simp [hle] at h

/-- `encode_symbol` never reaches an `into_nonzero_unchecked(0)`: only a valid `NonZero`
    compressed head is needed – any model, any symbol, any remainders head, any stacks. -/
theorem encode_never_ub {Sym : Type} {c : Cfg} (hP : PrecOk c.W c.S c.P) (m : Model Sym) (s : Sym)
    {x : Coder} (h1 : 1 ≤ x.heads.compressed) (h2 : x.heads.compressed < 2^c.W) (site : String) :
    encode c m s x ≠ .error (.fault (.ub site)) := by
  intro h
  unfold encode at h
  cases hs : m.enc s with
  | none => simp [hs] at h
  | some cp =>
    obtain ⟨cum, p⟩ := cp
    simp only [hs, encodeCP] at h
    by_cases hp : p = 0
    · simp [hp] at h
    · simp only [hp, if_false] at h
      cases hrel : release c x.heads.remainders x.remainders p with
      | error e =>
        have : e = .outOfRemainders := by
          unfold release at hrel
          by_cases hlt : x.heads.remainders < shlT c.S p (c.S - c.W - c.P)
          · simp only [hlt, if_true] at hrel
            cases hrf : refillHead c x.heads.remainders x.remainders with
            | none => simp [hrf] at hrel; exact hrel.symm
            | some r => simp [hrf] at hrel
          · simp [hlt] at hrel
        subst this
        simp [hrel] at h
      | ok r =>
        obtain ⟨rmd, hr, rems⟩ := r
        simp only [hrel] at h
        unfold cadd at h
        by_cases hq : cum + narrow c.B (narrow c.W rmd) < 2^c.B
        · simp only [hq, if_true] at h
          obtain ⟨r2, hput⟩ := putChunk_no_ub hP h1 h2 x.compressed (cum + narrow c.B (narrow c.W rmd))
          simp [hput] at h
        · simp [hq] at h

/-! ## the `NonZero` head bound survives every successful step – for arbitrary models -/

/-- what the unsafe sites need: the compressed head is a valid `Word::NonZero` and the
    compressed stack holds `Word`s.  No condition on the remainders side. -/
def WInv (c : Cfg) (x : Coder) : Prop :=
  1 ≤ x.heads.compressed ∧ x.heads.compressed < 2^c.W ∧ Words c.W x.compressed

theorem Inv.winv {c : Cfg} {x : Coder} (h : Inv c x) : WInv c x := ⟨h.1.1, h.1.2.1, h.2.1⟩

theorem Words.drop {W : Nat} {l : List Nat} (h : Words W l) (n : Nat) : Words W (l.drop n) :=
  fun w hw => h w (List.mem_of_mem_drop hw)

theorem or_lt_two_pow {a b n : Nat} (ha : a < 2^n) (hb : b < 2^n) : a ||| b < 2^n :=
  Nat.or_lt_two_pow ha hb

/-- a successful `decode` exposes the result of `takeChunk` -/
theorem decode_ok_fields {Sym : Type} {c : Cfg} {m : Model Sym} {x y : Coder} {s : Sym}
    (h : decode c m x = .ok (s, y)) :
    ∃ word, takeChunk c x.heads.compressed x.compressed = .ok (word, y.heads.compressed, y.compressed) := by
  unfold decode at h
  cases htk : takeChunk c x.heads.compressed x.compressed with
  | error e => simp [htk] at h
  | ok r =>
    obtain ⟨word, hc', comp'⟩ := r
    refine ⟨word, ?_⟩
    rcases hd : m.dec (quantileOf c word) with ⟨s', cum, p⟩
    simp only [htk, hd] at h
    by_cases hp : p = 0
    · simp [hp] at h
    · simp only [hp, if_false] at h
      cases hcs : csub "chain.dec.remainder" (quantileOf c word) cum with
      | error f => simp [hcs] at h
      | ok r =>
        simp only [hcs] at h
        cases hab : absorb c x.heads.remainders x.remainders p r with
        | error f => simp [hab] at h
        | ok r2 =>
          obtain ⟨hr, rems⟩ := r2
          simp only [hab, Except.ok.injEq, Prod.mk.injEq] at h
          rw [← h.2]

/-- `decode` preserves `WInv` – any model -/
theorem decode_winv {Sym : Type} {c : Cfg} (hP : PrecOk c.W c.S c.P) {m : Model Sym} {x y : Coder}
    {s : Sym} (hx : WInv c x) (h : decode c m x = .ok (s, y)) : WInv c y := by
  obtain ⟨h1, h2, hw⟩ := hx
  obtain ⟨word, htk⟩ := decode_ok_fields h
  obtain ⟨hP1, hPW, hS⟩ := hP
  -- `takeChunk_ok` only uses `1 ≤ P ≤ W` of the configuration; instantiate it with `B := W`
  have hv : CValid { c with B := c.W } := ⟨hP1, hPW, Nat.le_refl _, hS⟩
  have htk' : takeChunk { c with B := c.W } x.heads.compressed x.compressed
      = .ok (word, y.heads.compressed, y.compressed) := by
    rw [← htk]; simp [takeChunk]
  rcases takeChunk_ok hv h1 h2 hw with ⟨he, _⟩ | ⟨w', a, b, hok, ha1, ha2, _, hb, _⟩
  · rw [he] at htk'; cases htk'
  · rw [hok] at htk'
    simp only [Except.ok.injEq, Prod.mk.injEq] at htk'
    obtain ⟨_, rfl, rfl⟩ := htk'
    exact ⟨ha1, ha2, hb⟩

/-- `putChunk` keeps the head a valid `NonZero` word and the stack made of words, for any
    quantile that fits a word -/
theorem putChunk_bounds {c : Cfg} (hP : PrecOk c.W c.S c.P) {hc q hc' : Nat} {comp comp' : List Nat}
    (h1 : 1 ≤ hc) (h2 : hc < 2^c.W) (hq : q < 2^c.W) (hw : Words c.W comp)
    (h : putChunk c hc comp q = .ok (hc', comp')) :
    1 ≤ hc' ∧ hc' < 2^c.W ∧ Words c.W comp' := by
  obtain ⟨hP1, hPW, _⟩ := hP
  have hsl : shlT c.W hc c.P < 2^c.W := by rw [shlT_eq]; exact Nat.mod_lt _ (pow_pos2 _)
  unfold putChunk at h
  split at h
  · dsimp only at h
    split at h
    · cases h
    · rename_i hne
      simp only [Except.ok.injEq, Prod.mk.injEq] at h
      obtain ⟨rfl, rfl⟩ := h
      exact ⟨Nat.pos_of_ne_zero hne, or_lt_two_pow hsl hq, hw⟩
  · split at h
    · simp only [Except.ok.injEq, Prod.mk.injEq] at h
      obtain ⟨rfl, rfl⟩ := h
      exact ⟨h1, h2, Words.cons hq hw⟩
    · dsimp only at h
      split at h
      · cases h
      · rename_i hne
        simp only [Except.ok.injEq, Prod.mk.injEq] at h
        obtain ⟨rfl, rfl⟩ := h
        refine ⟨Nat.pos_of_ne_zero hne, ?_, Words.cons (or_lt_two_pow hsl hq) hw⟩
        rw [shr_eq]; exact Nat.lt_of_le_of_lt (Nat.div_le_self _ _) h2

/-- `encode` preserves `WInv` – any model, any symbol (only `Probability: Into<Word>`, i.e.
    `B ≤ W`, is used) -/
theorem encode_winv {Sym : Type} {c : Cfg} (hP : PrecOk c.W c.S c.P) (hBW : c.B ≤ c.W)
    {m : Model Sym} {s : Sym} {x y : Coder} (hx : WInv c x) (h : encode c m s x = .ok y) :
    WInv c y := by
  obtain ⟨h1, h2, hw⟩ := hx
  unfold encode at h
  cases hs : m.enc s with
  | none => simp [hs] at h
  | some cp =>
    obtain ⟨cum, p⟩ := cp
    simp only [hs, encodeCP] at h
    by_cases hp : p = 0
    · simp [hp] at h
    · simp only [hp, if_false] at h
      cases hrel : release c x.heads.remainders x.remainders p with
      | error e => simp [hrel] at h
      | ok r =>
        obtain ⟨rmd, hr, rems⟩ := r
        simp only [hrel] at h
        unfold cadd at h
        by_cases hq : cum + narrow c.B (narrow c.W rmd) < 2^c.B
        · simp only [hq, if_true] at h
          cases hput : putChunk c x.heads.compressed x.compressed (cum + narrow c.B (narrow c.W rmd)) with
          | error f => simp [hput] at h
          | ok r2 =>
            obtain ⟨hc', comp'⟩ := r2
            simp only [hput, Except.ok.injEq] at h
            subst h
            exact putChunk_bounds hP h1 h2 (Nat.lt_of_lt_of_le hq (pow_mono2 hBW)) hw hput
        · simp [hq] at h

/-- `change_precision` does not touch the compressed side -/
theorem changePrecision_winv {c : Cfg} {q : Nat} {x y : Coder} (hx : WInv c x)
    (h : changePrecision c q x = .ok y) : WInv (withP c q) y := by
  have hsame : y.heads.compressed = x.heads.compressed ∧ y.compressed = x.compressed := by
    unfold changePrecision at h
    split at h
    · simp only [Except.ok.injEq] at h
      subst h
      unfold increasePrecision
      split <;> simp
    · unfold decreasePrecision at h
      split at h
      · split at h
        · cases h
        · simp only [Except.ok.injEq] at h; subst h; simp
      · simp only [Except.ok.injEq] at h; subst h; simp
  obtain ⟨e1, e2⟩ := hsame
  obtain ⟨h1, h2, hw⟩ := hx
  exact ⟨by rw [e1]; exact h1, by rw [e1]; exact h2, by rw [e2]; exact hw⟩

/-- what `Seek::seek` can do to a coder: heads replaced by the given ones or kept, both
    stacks truncated or kept – also when it fails half-way -/
theorem seek_spec (x : Coder) (p : Nat × Nat × Heads) :
    ((seek x p).1.heads = p.2.2 ∨ (seek x p).1.heads = x.heads) ∧
    (∃ n, (seek x p).1.compressed = x.compressed.drop n) ∧
    (∃ n, (seek x p).1.remainders = x.remainders.drop n) := by
  by_cases h1 : p.1 ≤ x.compressed.length
  · by_cases h2 : p.2.1 ≤ x.remainders.length
    · have e : seek x p = (Coder.mk (x.compressed.drop (x.compressed.length - p.1))
          (x.remainders.drop (x.remainders.length - p.2.1)) p.2.2, true) := by
        simp [seek, seekStack, h1, h2]
      rw [e]; exact ⟨Or.inl rfl, ⟨_, rfl⟩, ⟨_, rfl⟩⟩
    · have e : seek x p = (Coder.mk (x.compressed.drop (x.compressed.length - p.1))
          x.remainders x.heads, false) := by
        simp [seek, seekStack, h1, h2]
      rw [e]; exact ⟨Or.inr rfl, ⟨_, rfl⟩, ⟨0, rfl⟩⟩
  · have e : seek x p = (x, false) := by simp [seek, seekStack, h1]
    rw [e]; exact ⟨Or.inr rfl, ⟨0, rfl⟩, ⟨0, rfl⟩⟩

/-- `seek` to the position of a coder satisfying `WInv` / `Inv` -/
theorem seek_winv {c : Cfg} {x x' : Coder} (hx : WInv c x) (hx' : WInv c x') :
    WInv c (seek x (pos x')).1 := by
  obtain ⟨hh, ⟨n, hc⟩, _⟩ := seek_spec x (pos x')
  refine ⟨?_, ?_, by rw [hc]; exact hx.2.2.drop n⟩
  · rcases hh with h | h <;> rw [h]
    · exact hx'.1
    · exact hx.1
  · rcases hh with h | h <;> rw [h]
    · exact hx'.2.1
    · exact hx.2.1

theorem seek_inv {c : Cfg} {x x' : Coder} (hx : Inv c x) (hx' : Inv c x') :
    Inv c (seek x (pos x')).1 := by
  obtain ⟨hh, ⟨n, hc⟩, ⟨n', hr⟩⟩ := seek_spec x (pos x')
  refine ⟨?_, by rw [hc]; exact hx.2.1.drop n, by rw [hr]; exact hx.2.2.drop n'⟩
  rcases hh with h | h <;> rw [h]
  · exact hx'.1
  · exact hx.1

end CV.Chain
