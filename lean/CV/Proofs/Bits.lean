import CV.Model.Bits
/-!
# Bit-level coders: refinement of the Impl model to "a list of bits"

`bits W c` (Model/Bits.lean) is the abstraction.  This file proves, for every `W ≥ 1` and every
state satisfying `Inv`:

* `writeBit` appends a bit, `readBit` removes the last one (`getLast?` / `dropLast`);
* `len = |bits|`, `isEmpty ↔ bits = []`;
* draining yields the reverse of `bits`;
* the stack export ends in a non-zero word and re-imports to the same bits (after the D5 repair);
* the queue export is `bits` zero padded to whole words and the queue decoder hands out exactly
  the bits of the words, first written first.
-/
set_option linter.unusedSimpArgs false
set_option linter.unusedVariables false
set_option linter.unnecessarySimpa false
namespace CV.Bits

/-- decidable equality of results, so that concrete instances can be checked by `decide` -/
scoped instance instDecidableEqExcept {ε α : Type} [DecidableEq ε] [DecidableEq α] :
    DecidableEq (Except ε α) := fun a b =>
  match a, b with
  | .ok x, .ok y => if h : x = y then isTrue (by rw [h]) else isFalse (by intro h'; cases h'; exact h rfl)
  | .error x, .error y =>
    if h : x = y then isTrue (by rw [h]) else isFalse (by intro h'; cases h'; exact h rfl)
  | .ok _, .error _ => isFalse (by intro h; cases h)
  | .error _, .ok _ => isFalse (by intro h; cases h)

/-! ## `tz`, `lowBits` -/

theorem tz_two_pow : ∀ (W j : Nat), j < W → tz W (2^j) = j
  | 0, _, h => by omega
  | W + 1, 0, _ => by simp [tz]
  | W + 1, j + 1, h => by
    have h2 : (2:Nat)^(j+1) % 2 = 0 := by rw [Nat.pow_succ]; omega
    have h3 : (2:Nat)^(j+1) / 2 = 2^j := by rw [Nat.pow_succ]; omega
    simp [tz, h2, h3, tz_two_pow W j (by omega)]

@[simp] theorem lowBits_length (k w : Nat) : (lowBits k w).length = k := by
  simp [lowBits]

@[simp] theorem lowBits_zero (w : Nat) : lowBits 0 w = [] := rfl

theorem lowBits_succ (k w : Nat) : lowBits (k+1) w = lowBits k w ++ [w.testBit k] := by
  simp [lowBits, List.range_succ]

theorem lowBits_congr {k a b : Nat} (h : ∀ i, i < k → a.testBit i = b.testBit i) :
    lowBits k a = lowBits k b := by
  unfold lowBits
  apply List.map_congr_left
  intro i hi
  exact h i (List.mem_range.mp hi)

theorem lowBits_succ_left (k w : Nat) :
    lowBits (k+1) w = w.testBit 0 :: lowBits k (w / 2) := by
  induction k with
  | zero => simp [lowBits]
  | succ k ih =>
    rw [lowBits_succ, ih, lowBits_succ (w := w / 2), Nat.testBit_succ]
    rfl

theorem lowBits_mod (k w : Nat) : lowBits k (w % 2^k) = lowBits k w := by
  apply lowBits_congr
  intro i hi
  simp [Nat.testBit_mod_two_pow, hi]

theorem lowBits_zero_word (k : Nat) : lowBits k 0 = List.replicate k false := by
  induction k with
  | zero => rfl
  | succ k ih => rw [lowBits_succ, ih]; simp [List.replicate_succ']

/-- two words below `2^k` with the same low `k` bits are equal -/
theorem eq_of_lowBits_eq {k a b : Nat} (ha : a < 2^k) (hb : b < 2^k)
    (h : lowBits k a = lowBits k b) : a = b := by
  apply Nat.eq_of_testBit_eq
  intro i
  by_cases hi : i < k
  · have := congrArg (fun l => l[i]?) h
    simpa [lowBits, hi] using this
  · have hle : k ≤ i := Nat.le_of_not_lt hi
    have h1 : a < 2^i := Nat.lt_of_lt_of_le ha (Nat.pow_le_pow_right (by omega) hle)
    have h2 : b < 2^i := Nat.lt_of_lt_of_le hb (Nat.pow_le_pow_right (by omega) hle)
    rw [Nat.testBit_lt_two_pow h1, Nat.testBit_lt_two_pow h2]

/-! ## `wordBits` -/

@[simp] theorem wordBits_nil (W : Nat) : wordBits W [] = [] := rfl

theorem wordBits_cons (W w : Nat) (ws : List Nat) :
    wordBits W (w :: ws) = wordBits W ws ++ lowBits W w := by
  simp [wordBits, List.flatMap_append]

theorem wordBits_length (W : Nat) (ws : List Nat) : (wordBits W ws).length = ws.length * W := by
  induction ws with
  | nil => simp
  | cons w ws ih => rw [wordBits_cons, List.length_append, ih, lowBits_length, List.length_cons, Nat.succ_mul]

/-! ## the invariant -/

theorem inv_empty (W : Nat) : Inv W empty := by
  refine ⟨?_, Or.inl ⟨rfl, rfl⟩⟩
  intro w hw; cases hw

@[simp] theorem bits_empty (W : Nat) : bits W empty = [] := by
  simp [bits, empty, fill]

theorem two_pow_ne_zero (j : Nat) : (2:Nat)^j ≠ 0 := Nat.ne_of_gt (Nat.two_pow_pos j)

theorem fill_zero {W : Nat} {c : Coder} (h : c.mask = 0) : fill W c = 0 := by
  simp [fill, h]

theorem fill_pow {W j : Nat} {c : Coder} (hj : j < W) (h : c.mask = 2^j) : fill W c = j + 1 := by
  simp [fill, h, tz_two_pow W j hj]

theorem fill_le {W : Nat} {c : Coder} (hI : Inv W c) : fill W c ≤ W := by
  rcases hI.2 with ⟨hm, _⟩ | ⟨j, hj, hm, _⟩
  · rw [fill_zero hm]; omega
  · rw [fill_pow hj hm]; omega

theorem bits_length {W : Nat} (c : Coder) :
    (bits W c).length = c.backend.length * W + fill W c := by
  simp [bits, wordBits_length]

/-! ## `writeBit` -/

theorem shl1_pow (j : Nat) : (2:Nat)^j <<< 1 = 2^(j+1) := by
  rw [Nat.shiftLeft_eq, Nat.pow_one, Nat.pow_succ]

theorem writeBit_spec {W : Nat} (hW : 1 ≤ W) {c : Coder} (hI : Inv W c) (b : Bool) :
    Inv W (writeBit W c b) ∧ bits W (writeBit W c b) = bits W c ++ [b] := by
  obtain ⟨hB, hS⟩ := hI
  rcases hS with ⟨hm, hc⟩ | ⟨j, hj, hm, hc⟩
  · -- nothing in the current word
    have hw : writeBit W c b = { backend := c.backend, cw := if b then 1 else 0, mask := 1 } := by
      simp [writeBit, hm]
    rw [hw]
    refine ⟨⟨hB, Or.inr ⟨0, by omega, rfl, ?_⟩⟩, ?_⟩
    · cases b <;> simp
    · have hf : fill W ({ backend := c.backend, cw := if b then 1 else 0, mask := 1 } : Coder) = 1 :=
        fill_pow (j := 0) (by omega) rfl
      simp only [bits, hf, fill_zero hm, hc, lowBits_zero, List.append_nil]
      cases b <;> simp [lowBits]
  · by_cases hlast : j + 1 < W
    · -- room for one more bit
      have hlt : (2:Nat)^(j+1) < 2^W := Nat.pow_lt_pow_right (by omega) hlast
      have hwm : (c.mask <<< 1) % 2^W = 2^(j+1) := by
        rw [hm, shl1_pow, Nat.mod_eq_of_lt hlt]
      have hw : writeBit W c b =
          { backend := c.backend, cw := c.cw ||| (if b then 2^(j+1) else 0), mask := 2^(j+1) } := by
        simp [writeBit, hwm, two_pow_ne_zero]
      rw [hw]
      have hcw : (c.cw ||| (if b then 2^(j+1) else 0)) < 2^(j+1+1) := by
        apply Nat.or_lt_two_pow
        · exact Nat.lt_of_lt_of_le hc (Nat.pow_le_pow_right (by omega) (by omega))
        · cases b
          · simp [Nat.two_pow_pos]
          · simp; exact Nat.pow_lt_pow_right (by omega) (by omega)
      refine ⟨⟨hB, Or.inr ⟨j+1, hlast, rfl, hcw⟩⟩, ?_⟩
      have hf : fill W ({ backend := c.backend, cw := c.cw ||| (if b then 2^(j+1) else 0), mask := 2^(j+1) } : Coder) = j + 1 + 1 := fill_pow hlast rfl
      simp only [bits, hf, fill_pow hj hm]
      rw [lowBits_succ (k := j+1), List.append_assoc]
      congr 2
      · apply lowBits_congr
        intro i hi
        rw [Nat.testBit_or]
        cases b
        · simp
        · simp [Nat.testBit_two_pow]; omega
      · rw [Nat.testBit_or, Nat.testBit_lt_two_pow hc]
        cases b <;> simp [Nat.testBit_two_pow]
    · -- the current word is full: it moves to the backend
      have hjW : j + 1 = W := by omega
      have hwm : ((2:Nat)^j <<< 1) % 2^W = 0 := by
        rw [shl1_pow, hjW, Nat.mod_self]
      have hw : writeBit W c b =
          { backend := c.cw :: c.backend, cw := if b then 1 else 0, mask := 1 } := by
        simp [writeBit, hm, hwm, two_pow_ne_zero]
      rw [hw]
      refine ⟨⟨?_, Or.inr ⟨0, by omega, rfl, ?_⟩⟩, ?_⟩
      · intro w hw'
        rcases List.mem_cons.mp hw' with rfl | h
        · rw [← hjW]; exact hc
        · exact hB w h
      · cases b <;> simp
      · have hf : fill W ({ backend := c.cw :: c.backend, cw := if b then 1 else 0, mask := 1 } : Coder)
            = 1 := fill_pow (j := 0) (by omega) rfl
        simp only [bits, hf, fill_pow hj hm, wordBits_cons, hjW]
        cases b <;> simp [lowBits]

theorem writeBit_inv {W : Nat} (hW : 1 ≤ W) {c : Coder} (hI : Inv W c) (b : Bool) :
    Inv W (writeBit W c b) := (writeBit_spec hW hI b).1

theorem writeBit_bits {W : Nat} (hW : 1 ≤ W) {c : Coder} (hI : Inv W c) (b : Bool) :
    bits W (writeBit W c b) = bits W c ++ [b] := (writeBit_spec hW hI b).2

/-- after a write the current word is never empty (`mask_last_written ≠ 0`) -/
theorem writeBit_mask_ne_zero (W : Nat) (c : Coder) (b : Bool) : (writeBit W c b).mask ≠ 0 := by
  unfold writeBit
  by_cases h : (c.mask <<< 1) % 2^W = 0
  · simp [h]
  · simp [h]

theorem writeBits_spec {W : Nat} (hW : 1 ≤ W) (bs : List Bool) : ∀ {c : Coder}, Inv W c →
    Inv W (writeBits W c bs) ∧ bits W (writeBits W c bs) = bits W c ++ bs := by
  induction bs with
  | nil => intro c hI; simp [writeBits, hI]
  | cons b bs ih =>
    intro c hI
    have h1 := writeBit_spec hW hI b
    have h2 := ih h1.1
    simp only [writeBits]
    refine ⟨h2.1, ?_⟩
    rw [h2.2, h1.2, List.append_assoc]; rfl

/-! ## `readBit` -/

theorem and_two_pow (x j : Nat) : x &&& 2^j = if x.testBit j then 2^j else 0 := by
  apply Nat.eq_of_testBit_eq
  intro i
  rw [Nat.testBit_and, Nat.testBit_two_pow]
  by_cases hji : j = i
  · subst hji
    cases h : x.testBit j <;> simp [h]
  · cases h : x.testBit j <;> simp [hji, Nat.testBit_two_pow]

theorem xor_top_bit {x j : Nat} (hx : x < 2^(j+1)) :
    x ^^^ (x &&& 2^j) = x % 2^j := by
  apply Nat.eq_of_testBit_eq
  intro i
  rw [Nat.testBit_xor, Nat.testBit_and, Nat.testBit_two_pow, Nat.testBit_mod_two_pow]
  by_cases h1 : i < j
  · have : ¬ j = i := by omega
    simp [h1, this]
  · by_cases h2 : j = i
    · subst h2; simp
    · have hlt : x < 2^i := Nat.lt_of_lt_of_le hx (Nat.pow_le_pow_right (by omega) (by omega))
      simp [h1, h2, Nat.testBit_lt_two_pow hlt]

theorem shr1_pow_succ (k : Nat) : (2:Nat)^(k+1) >>> 1 = 2^k := by
  rw [Nat.shiftRight_eq_div_pow, Nat.pow_succ]; omega

/-- one `read_bit` when the current word holds `j+1` bits -/
theorem readStep_spec {W j : Nat} {c : Coder} (hB : ∀ w ∈ c.backend, w < 2^W) (hj : j < W)
    (hm : c.mask = 2^j) (hc : c.cw < 2^(j+1)) :
    (readStep c).1 = some (c.cw.testBit j) ∧ Inv W (readStep c).2 ∧
      bits W c = bits W (readStep c).2 ++ [c.cw.testBit j] := by
  have hlt : c.cw % 2^j < 2^j := Nat.mod_lt _ (Nat.two_pow_pos j)
  have hstep : readStep c =
      (some (c.cw.testBit j), { backend := c.backend, cw := c.cw % 2^j, mask := 2^j >>> 1 }) := by
    unfold readStep
    simp only [hm]
    rw [xor_top_bit hc, and_two_pow]
    cases h : c.cw.testBit j <;> simp [two_pow_ne_zero]
  rw [hstep]
  refine ⟨rfl, ?_, ?_⟩
  · refine ⟨hB, ?_⟩
    cases j with
    | zero =>
      left
      refine ⟨by simp, ?_⟩
      simp [Nat.mod_one]
    | succ k =>
      right
      exact ⟨k, by omega, shr1_pow_succ k, hlt⟩
  · have hf' : fill W ({ backend := c.backend, cw := c.cw % 2^j, mask := 2^j >>> 1 } : Coder) = j := by
      cases j with
      | zero => exact fill_zero (by simp)
      | succ k => exact fill_pow (j := k) (by omega) (shr1_pow_succ k)
    simp only [bits, hf', fill_pow hj hm]
    rw [lowBits_succ, lowBits_mod, List.append_assoc]

theorem readBit_spec {W : Nat} (hW : 1 ≤ W) {c : Coder} (hI : Inv W c) :
    (readBit W c).1 = (bits W c).getLast? ∧ Inv W (readBit W c).2 ∧
      bits W (readBit W c).2 = (bits W c).dropLast := by
  obtain ⟨hB, hS⟩ := hI
  rcases hS with ⟨hm, hc⟩ | ⟨j, hj, hm, hc⟩
  · cases hb : c.backend with
    | nil =>
      have hr : readBit W c = (none, c) := by simp [readBit, hm, hb]
      have hbits : bits W c = [] := by simp [bits, hb, fill_zero hm]
      rw [hr, hbits]
      exact ⟨rfl, ⟨hB, Or.inl ⟨hm, hc⟩⟩, rfl⟩
    | cons w rest =>
      have h1 : (1 <<< (W - 1)) % 2^W = 2^(W-1) := by
        rw [Nat.one_shiftLeft, Nat.mod_eq_of_lt (Nat.pow_lt_pow_right (by omega) (by omega))]
      have hr : readBit W c = readStep { backend := rest, cw := w, mask := 2^(W-1) } := by
        simp [readBit, hm, hb, h1]
      have hwlt : w < 2^W := hB w (by simp [hb])
      have hB' : ∀ x ∈ rest, x < 2^W := fun x hx => hB x (by simp [hb, hx])
      have hs := readStep_spec (W := W) (j := W - 1)
        (c := { backend := rest, cw := w, mask := 2^(W-1) }) hB' (by omega) rfl
        (by simpa [Nat.sub_add_cancel hW] using hwlt)
      have hbits : bits W c = bits W ({ backend := rest, cw := w, mask := 2^(W-1) } : Coder) := by
        have hf : fill W ({ backend := rest, cw := w, mask := 2^(W-1) } : Coder) = W - 1 + 1 :=
          fill_pow (by omega) rfl
        simp [bits, hb, fill_zero hm, hc, wordBits_cons, hf, Nat.sub_add_cancel hW]
      rw [hr, hbits, hs.2.2]
      exact ⟨by rw [hs.1]; simp, hs.2.1, by simp⟩
  · have hr : readBit W c = readStep c := by simp [readBit, hm, two_pow_ne_zero]
    have hs := readStep_spec hB hj hm hc
    rw [hr, hs.2.2]
    exact ⟨by rw [hs.1]; simp, hs.2.1, by simp⟩

theorem readBit_fst {W : Nat} (hW : 1 ≤ W) {c : Coder} (hI : Inv W c) :
    (readBit W c).1 = (bits W c).getLast? := (readBit_spec hW hI).1

theorem readBit_inv {W : Nat} (hW : 1 ≤ W) {c : Coder} (hI : Inv W c) :
    Inv W (readBit W c).2 := (readBit_spec hW hI).2.1

theorem readBit_bits {W : Nat} (hW : 1 ≤ W) {c : Coder} (hI : Inv W c) :
    bits W (readBit W c).2 = (bits W c).dropLast := (readBit_spec hW hI).2.2

/-- reading from an empty coder leaves it untouched -/
theorem readBit_none {W : Nat} (hW : 1 ≤ W) {c : Coder} (hI : Inv W c) (h : bits W c = []) :
    readBit W c = (none, c) := by
  obtain ⟨hB, hS⟩ := hI
  have hlen := bits_length (W := W) c
  rw [h] at hlen
  simp only [List.length_nil] at hlen
  rcases hS with ⟨hm, hc⟩ | ⟨j, hj, hm, hc⟩
  · cases hb : c.backend with
    | nil => simp [readBit, hm, hb]
    | cons w rest =>
      rw [hb] at hlen
      simp only [List.length_cons] at hlen
      have : 0 < (rest.length + 1) * W := Nat.mul_pos (by omega) (by omega)
      omega
  · rw [fill_pow hj hm] at hlen; omega

/-! ## `len`, `is_empty` -/

theorem len_spec {W : Nat} (c : Coder) (h : (bits W c).length < 2^64) :
    len W c = .ok (bits W c).length := by
  rw [bits_length] at h
  have hfill : (if c.mask = 0 then 0 else tz W c.mask + 1) = fill W c := rfl
  unfold len
  simp only [hfill]
  have h1 : c.backend.length * W < 2^64 := by omega
  simp [h1, h, bits_length]

theorem len_overflow {W : Nat} (c : Coder) (h : ¬ (bits W c).length < 2^64) :
    ∃ f, len W c = .error f := by
  rw [bits_length] at h
  have hfill : (if c.mask = 0 then 0 else tz W c.mask + 1) = fill W c := rfl
  unfold len
  simp only [hfill]
  by_cases h1 : c.backend.length * W < 2^64
  · exact ⟨.panic "bits.len.add", by simp [h1, h]⟩
  · exact ⟨.panic "bits.len.mul", by simp [h1]⟩

theorem isEmpty_iff {W : Nat} (hW : 1 ≤ W) {c : Coder} (hI : Inv W c) :
    isEmpty c = true ↔ bits W c = [] := by
  have hlen := bits_length (W := W) c
  obtain ⟨_, hS⟩ := hI
  constructor
  · intro h
    simp only [isEmpty, Bool.and_eq_true, beq_iff_eq, List.isEmpty_iff] at h
    simp [bits, h.1, h.2, fill_zero]
  · intro h
    rw [h] at hlen
    simp only [List.length_nil] at hlen
    rcases hS with ⟨hm, _⟩ | ⟨j, hj, hm, _⟩
    · have hb : c.backend = [] := by
        cases hb : c.backend with
        | nil => rfl
        | cons w rest =>
          rw [hb] at hlen
          simp only [List.length_cons] at hlen
          have : 0 < (rest.length + 1) * W := Nat.mul_pos (by omega) (by omega)
          omega
      simp [isEmpty, hm, hb]
    · rw [fill_pow hj hm] at hlen; omega

/-! ## draining (the `Iterator` impl) -/

theorem drain_spec {W : Nat} (hW : 1 ≤ W) : ∀ (f : Nat) {c : Coder}, Inv W c →
    (bits W c).length < f →
    ∃ c', Stack.drain W f c = some ((bits W c).reverse, c') ∧ Inv W c' ∧ bits W c' = [] := by
  intro f
  induction f with
  | zero => intro c _ h; omega
  | succ f ih =>
    intro c hI hlen
    have hs := readBit_spec hW hI
    cases hl : (bits W c).reverse with
    | nil =>
      have hnil : bits W c = [] := by simpa using hl
      refine ⟨c, ?_, hI, hnil⟩
      simp [Stack.drain, readBit_none hW hI hnil, hnil]
    | cons b l =>
      have hb : bits W c = l.reverse ++ [b] := by
        have := congrArg List.reverse hl
        simpa using this
      have h1 : (readBit W c).1 = some b := by rw [hs.1, hb]; simp
      have h2 : bits W (readBit W c).2 = l.reverse := by rw [hs.2.2, hb]; simp
      have hlen' : (bits W (readBit W c).2).length < f := by
        rw [h2]; rw [hb] at hlen; simp at hlen ⊢; omega
      obtain ⟨c', hd, hI', hn'⟩ := ih hs.2.1 hlen'
      refine ⟨c', ?_, hI', hn'⟩
      cases hr : readBit W c with
      | mk o c1 =>
        rw [hr] at h1 h2 hd
        simp only at h1 h2 hd
        subst h1
        simp [Stack.drain, hr, hd, h2]

theorem fuel_gt {W : Nat} {c : Coder} (hI : Inv W c) : (bits W c).length < Stack.fuel W c := by
  have := fill_le hI
  rw [bits_length]; unfold Stack.fuel; omega

theorem iter_spec {W : Nat} (hW : 1 ≤ W) {c : Coder} (hI : Inv W c) :
    Stack.iter W c = .ok (bits W c).reverse := by
  obtain ⟨c', hd, _, _⟩ := drain_spec hW (Stack.fuel W c) hI (fuel_gt hI)
  simp [Stack.iter, hd]

end CV.Bits
