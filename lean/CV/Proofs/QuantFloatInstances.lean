import CV.Model.QuantFloatReplica
import CV.Proofs.QuantModels
import CV.Proofs.QuantCatLink
/-!
# Kernel-checked *realistic* instances of the float-layer hypotheses

Lean 4.33's kernel reduces closed `Float`/`Float32` terms (IEEE `+ * /`, comparisons, conversions),
so on a concrete table the decidable hypotheses `TBF1Fast`, `TBF2`, `GOk` are *proved* by
`decide` from the native-float replica itself (kernel reduction only, no compiled evaluation), axioms
`propext`/`Classical.choice`/`Quot.sound` only.  This is per-instance evidence that the
hypotheses are what the float pipeline actually produces (the general statement "for all
inputs" remains TB-F1/TB-F2); the same evaluation is what the driver prints as `mono=`,
`tbf2=`, `bound=` for every sampled instance.

Instances: the D4 `f32` table at `u32`/`P = 24` (the clamp binds), a lazy `f32` model at
`u8`/`P = 6` whose skip phase really skips (`k0 q > 1`), and the quantised standard Gaussian on
`-5..=5` (`i32`, `u32`, `P = 24`) with the values of `probability::distribution::Gaussian`
recorded by the harness.
-/
namespace CV.Quant
open CV

instance (h : Nat → Nat) (n : Nat) : Decidable (TBF1Fast h n) :=
  decidable_of_iff (Mono h n ∧ h 0 = 0) ⟨fun ⟨a, b⟩ => ⟨a, b⟩, fun ⟨a, b⟩ => ⟨a, b⟩⟩

instance (P n free : Nat) (h k0 : Nat → Nat) : Decidable (TBF2 P n free h k0) := by
  unfold TBF2; exact Nat.decidableBallLT (2 ^ P) (fun q _ => 1 ≤ k0 q ∧ k0 q ≤ n ∧ cumF P n free h (k0 q - 1) ≤ q)

/-! ### the D4 table (`f32`, `u32`, `P = 24`): `[70.591324, 0.4555307, 49.606285, 0.45611787, 0.0]` -/

def d4tbl : List Float32 :=
  [Float32.ofBits 0x428d2ec2, Float32.ofBits 0x3ee93b54, Float32.ofBits 0x42466cd6,
   Float32.ofBits 0x3ee98848, Float32.ofBits 0]

def d4opt : Option (FastCtx Float32) := fastSetup f32Ops 32 24 d4tbl none
theorem d4_accepted : d4opt.isSome = true := by decide
/-- what the constructor computed -/
def d4 : FastCtx Float32 := d4opt.get d4_accepted
theorem d4_setup : fastSetup f32Ops 32 24 d4tbl none = some d4 := by
  show d4opt = some (d4opt.get d4_accepted); simp
theorem d4_n : d4.n = 5 := by decide

/-- **TB-F1 holds on the D4 table** (kernel-evaluated `f32` arithmetic) … -/
theorem d4_tbf1 : TBF1Fast (d4.hE f32Ops 32) d4.n := by decide
/-- … although the non-leaky part exceeds `free` (the pre-repair hypothesis fails: D4) -/
theorem d4_unclamped_exceeds : d4.hE f32Ops 32 4 = d4.free + 1 := by decide
/-- the lazy encoder's sums (started from `-0.0`) give the same integers -/
theorem d4_hL_eq_hE : ∀ i, i < 6 → d4.hL f32Ops 32 i = d4.hE f32Ops 32 i := by decide

/-! ### a lazy `f32` model at `u8` / `P = 6` with a skip phase that skips -/

def lzTbl : List Float32 :=
  [Float32.ofBits 0x3e99999a, Float32.ofBits 0x3dcccccd, Float32.ofBits 0x3ecccccd,
   Float32.ofBits 0x3e4ccccd, Float32.ofBits 0x3d4ccccd, Float32.ofBits 0x3e800000]  -- .3 .1 .4 .2 .05 .25

def lzOpt : Option (FastCtx Float32) := fastSetup f32Ops 8 6 lzTbl none
theorem lz_accepted : lzOpt.isSome = true := by decide
def lz : FastCtx Float32 := lzOpt.get lz_accepted
theorem lz_n : lz.n = 6 := by decide
theorem lz_free : lz.free = freeWeight 8 6 6 := by decide
set_option maxRecDepth 20000 in
theorem lz_tbf1 : TBF1Fast (lz.hE f32Ops 8) 6 := by decide
set_option maxRecDepth 20000 in
/-- **TB-F2 holds for every quantile** of this model, with the skip counts the `f32` skip phase
    really computes … -/
theorem lz_tbf2 : TBF2 6 6 (freeWeight 8 6 6) (lz.hE f32Ops 8) (lz.k0 f32Ops 8) := by decide
/-- … and the skip phase does skip: for the last quantile it consumes all six items, for
    quantile 128 three of them -/
theorem lz_skips : lz.k0 f32Ops 8 63 = 6 ∧ lz.k0 f32Ops 8 32 = 3 ∧ lz.k0 f32Ops 8 0 = 1 := by decide

/-! ### the quantised standard Gaussian on `-5..=5` (`i32`, `u32`, `P = 24`) -/

/-- `Gaussian::new(0.0, 1.0).distribution(x)` at the half-integers, as recorded by the harness
    (`corpus/quant/repro.txt`), sorted by key bits -/
def gaussRec : Array (UInt64 × UInt64) := #[
  (0x3fe0000000000000, 0x3fe62075e232ac77), (0x3ff8000000000000, 0x3feddcb724ed3702),
  (0x4004000000000000, 0x3fefcd21635036c6), (0x400c000000000000, 0x3feffe182436d488),
  (0x4012000000000000, 0x3feffff8dfe35c8b), (0xbfe0000000000000, 0x3fd3bf143b9aa712),
  (0xbff8000000000000, 0x3fb11a46d89647f0), (0xc004000000000000, 0x3f796f4e57e49d00),
  (0xc00c000000000000, 0x3f2e7dbc92b78000), (0xc012000000000000, 0x3ecc80728dd40000)]

def gaussLQ : LQ := { t := ⟨32, true⟩, B := 32, P := 24, min := -5, max := 5, free := 2 ^ 24 - 11 }

theorem gaussLQ_new : LQ.new ⟨32, true⟩ 32 24 (-5) 5 = .ok gaussLQ := by rfl

theorem gaussLQ_ok : gaussLQ.Ok :=
  ⟨by decide, by decide, by decide, by decide, by decide, by decide, by decide, by decide⟩

/-- `g s = (free * cdf(s - 0.5)) as u32`, computed in `f64` from the recorded values -/
def gaussG : Int → Nat := fun s => (leakyExt 32 gaussLQ.free gaussRec (-0.5) s).getD 0

/-- boolean certificate for `GOk` over a bounded support -/
def gokCheck (m : LQ) (g : Int → Nat) : Bool :=
  (List.range (m.max - m.min).toNat).all fun k =>
    let s := m.min + 1 + (k : Int)
    decide (g s ≤ m.free) && (decide (s + 1 > m.max) || decide (g s ≤ g (s + 1)))

theorem GOk.of_check {m : LQ} {g : Int → Nat} (h : gokCheck m g = true) : GOk m g := by
  unfold gokCheck at h
  rw [List.all_eq_true] at h
  have key : ∀ s, m.min < s → s ≤ m.max → g s ≤ m.free ∧ (s < m.max → g s ≤ g (s + 1)) := by
    intro s h1 h2
    have := h (s - m.min - 1).toNat (by rw [List.mem_range]; omega)
    have e : m.min + 1 + (((s - m.min - 1).toNat : Nat) : Int) = s := by omega
    simp only [e, Bool.and_eq_true, Bool.or_eq_true, decide_eq_true_eq] at this
    refine ⟨this.1, fun hlt => ?_⟩
    rcases this.2 with h3 | h3
    · omega
    · exact h3
  exact ⟨fun s h1 h2 => (key s h1 (by omega)).2 h2, fun s h1 h2 => (key s h1 h2).1⟩

/-- **`GOk` holds for the real quantised Gaussian** (kernel-evaluated `f64` arithmetic on the
    recorded CDF values) -/
theorem gauss_gok : GOk gaussLQ gaussG := GOk.of_check (by decide)

/-- the values are the ones the protocol shows for this model: `left(-4) = 58`, `p(-4) = 3846` -/
theorem gauss_enc : gaussLQ.enc (extL gaussG) (extR gaussG) (-4) = .ok (some (58, 3846)) := by
  rw [enc_eq gaussLQ_ok gauss_gok]
  exact congrArg Except.ok (by decide)

end CV.Quant
