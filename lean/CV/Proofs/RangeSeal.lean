import CV.Proofs.RangeRefine
/-!
# Sealing: pure description, `num_seal_words`, `unseal`, and conformance with the reference
-/
namespace CV.Range

/-- `point = lower ⊕ (2^(S-W) − 1)` -/
def pointP (c : Cfg) (e : Encoder) : Nat := (e.lower + (2^(c.S - c.W) - 1)) % 2^c.S

/-- the held-back words as `seal` writes them -/
def sealHeld (c : Cfg) (e : Encoder) : List Nat :=
  match e.situation with
  | .normal => []
  | .inverted n first => heldP c n first (decide (pointP c e < e.lower))

def pointWordP (c : Cfg) (e : Encoder) : Nat := pointP c e / 2^(c.S - c.W)
def upperWordP (c : Cfg) (e : Encoder) : Nat := ((e.lower + e.range) % 2^c.S) / 2^(c.S - c.W)

/-- pure description of the words `seal` appends -/
def sealP (c : Cfg) (e : Encoder) : List Nat :=
  if e.range = maxState c then [] else
  sealHeld c e ++ [pointWordP c e] ++ (if upperWordP c e = pointWordP c e then [0] else [])

theorem top_word_lt {c : Cfg} (hc : RValid c) {x : Nat} (hx : x < 2^c.S) :
    x / 2^(c.S - c.W) < 2^c.W := by
  rw [Nat.div_lt_iff_lt_mul (two_pow_pos' _), Nat.mul_comm, ← hc.pow_S]; exact hx

theorem narrow_top {c : Cfg} (hc : RValid c) {x : Nat} (hx : x < 2^c.S) :
    narrow c.W (x / 2^(c.S - c.W)) = x / 2^(c.S - c.W) :=
  Nat.mod_eq_of_lt (top_word_lt hc hx)

theorem sealPoint_eq {c : Cfg} (hc : RValid c) (e : Encoder) :
    sealPoint c e = .ok (pointP c e) := by
  have hWS := hc.W_lt_S
  have hW := hc.W_pos
  unfold sealPoint pointP
  rw [shl_ok (show c.S - c.W < c.S by omega)]
  simp only [shl_eq_mul, Nat.one_mul]
  rw [Nat.mod_eq_of_lt (Nat.pow_lt_pow_right (by omega) (show c.S - c.W < c.S by omega))]
  rw [csub_ok (two_pow_pos' _)]
  rfl

/-- `seal` never faults under the invariant and appends `sealP` -/
theorem sealWords_eq {c : Cfg} (hc : RValid c) {e : Encoder} (hI : Inv c e) :
    sealWords c e = .ok (sealP c e) := by
  obtain ⟨_, hl, hr, hr2, hs⟩ := hI
  have hWS := hc.W_lt_S
  have hW := hc.W_pos
  have hT := two_pow_pos' c.S
  unfold sealWords sealP
  by_cases hmax : e.range = maxState c
  · simp only [hmax, if_true]
  · simp only [hmax, if_false]
    rw [sealPoint_eq hc]
    simp only []
    have hheld : sealHeldM c e (pointP c e) = .ok (sealHeld c e) := by
      unfold sealHeldM sealHeld
      cases hsit : e.situation with
      | normal => rfl
      | inverted n first =>
        rw [hsit] at hs
        exact heldWords_eq hs.2.1
    rw [hheld]
    simp only []
    rw [shr_ok (show c.S - c.W < c.S by omega), shr_ok (show c.S - c.W < c.S by omega)]
    simp only [shr_eq_div, wadd_eq]
    rw [narrow_top hc (show pointP c e < 2^c.S from Nat.mod_lt _ hT),
        narrow_top hc (Nat.mod_lt _ hT)]
    rfl

theorem sealEnc_eq {c : Cfg} (hc : RValid c) {e : Encoder} (hI : Inv c e) :
    sealEnc c e = .ok { e with bulk := e.bulk ++ sealP c e } := by
  unfold sealEnc; rw [sealWords_eq hc hI]

theorem intoCompressed_eq {c : Cfg} (hc : RValid c) {e : Encoder} (hI : Inv c e) :
    intoCompressed c e = .ok (e.bulk ++ sealP c e) := by
  unfold intoCompressed; rw [sealEnc_eq hc hI]

theorem heldP_length (c : Cfg) (n first : Nat) (carry : Bool) (hn : 1 ≤ n) :
    (heldP c n first carry).length = n := by
  unfold heldP
  cases carry <;> simp <;> omega

theorem sealHeld_length {c : Cfg} {e : Encoder} (hI : Inv c e) :
    (sealHeld c e).length = heldCount e.situation := by
  obtain ⟨_, _, _, _, hs⟩ := hI
  unfold sealHeld
  cases hsit : e.situation with
  | normal => rfl
  | inverted n first =>
    rw [hsit] at hs
    exact heldP_length c n first _ hs.1

/-- **`num_seal_words` is the number of words `seal` appends** -/
theorem numSealWords_eq {c : Cfg} (hc : RValid c) {e : Encoder} (hI : Inv c e)
    (hf : Fits c e 0) :
    numSealWords c e = .ok (sealP c e).length := by
  have hfl := hf.held_lt hc
  have hlen := sealHeld_length hI
  obtain ⟨_, hl, hr, hr2, hs⟩ := hI
  have hWS := hc.W_lt_S
  have hW := hc.W_pos
  have hT := two_pow_pos' c.S
  unfold numSealWords sealP
  by_cases hmax : e.range = maxState c
  · simp only [hmax, if_true, List.length_nil]
  · simp only [hmax, if_false]
    rw [sealPoint_eq hc]
    simp only []
    rw [shr_ok (show c.S - c.W < c.S by omega), shr_ok (show c.S - c.W < c.S by omega)]
    simp only [shr_eq_div, wadd_eq]
    rw [narrow_top hc (show pointP c e < 2^c.S from Nat.mod_lt _ hT),
        narrow_top hc (Nat.mod_lt _ hT)]
    simp only [List.length_append, List.length_singleton, hlen]
    unfold upperWordP pointWordP
    simp only [heldCount]
    split
    · rw [cadd_ok (by omega)]; congr 1; simp; omega
    · rw [cadd_ok (by omega)]; congr 1; simp; omega

/-- at most `num_inverted + 2` words are appended -/
theorem sealP_length_le {c : Cfg} {e : Encoder} (hI : Inv c e) :
    (sealP c e).length ≤ e.situation.held + 2 := by
  have hlen := sealHeld_length hI
  unfold sealP
  split
  · simp
  · simp only [List.length_append, List.length_singleton, hlen, heldCount]
    split <;> simp

theorem numWords_eq {c : Cfg} (hc : RValid c) {e : Encoder} (hI : Inv c e) (hf : Fits c e 0) :
    numWords c e = .ok (e.bulk ++ sealP c e).length := by
  have hfl := hf.held_lt hc
  have hle := sealP_length_le hI
  unfold numWords
  rw [numSealWords_eq hc hI hf, List.length_append]
  simp only []
  rw [cadd_ok (by omega)]

theorem numBits_eq {c : Cfg} (hc : RValid c) {e : Encoder} (hI : Inv c e) (hf : Fits c e 0) :
    numBits c e = .ok (c.W * (e.bulk ++ sealP c e).length) := by
  have hle := sealP_length_le hI
  unfold numBits
  rw [numWords_eq hc hI hf]
  simp only []
  have h1 : c.W * (e.bulk ++ sealP c e).length
      ≤ c.W * (e.bulk.length + e.situation.held + 0 + 2) := by
    apply Nat.mul_le_mul_left
    rw [List.length_append]; omega
  unfold Fits at hf
  rw [cmul_ok (by omega)]

/-- `unseal ∘ seal = id` -/
theorem unseal_seal {c : Cfg} (hc : RValid c) {e : Encoder} (hI : Inv c e) (hf : Fits c e 0) :
    unsealEnc c { e with bulk := e.bulk ++ sealP c e } = .ok e := by
  have hI' : Inv c { e with bulk := e.bulk } := hI
  have hk : numSealWords c { e with bulk := e.bulk ++ sealP c e } = .ok (sealP c e).length := by
    have h1 : numSealWords c { e with bulk := e.bulk ++ sealP c e } = numSealWords c e := rfl
    rw [h1, numSealWords_eq hc hI hf]
  unfold unsealEnc
  rw [hk]
  simp only [List.length_append, Nat.le_add_left, if_true, Nat.add_sub_cancel,
    List.take_left']


theorem sealHeld_wordsOK {c : Cfg} {e : Encoder} (hI : Inv c e) : WordsOK c (sealHeld c e) := by
  obtain ⟨_, _, _, _, hs⟩ := hI
  unfold sealHeld
  cases hsit : e.situation with
  | normal => exact WordsOK.nil
  | inverted n first =>
    rw [hsit] at hs
    exact heldP_wordsOK hs.2.1

/-- the words in front of the point word, read as a number, account for the carry of
    `lower + 2^(S-W) − 1` -/
theorem seal_value {c : Cfg} (hc : RValid c) {e : Encoder} (hI : Inv c e) :
    val c.W (e.bulk ++ sealHeld c e) * 2^c.W + pointWordP c e
      = (absLo c e + (2^(c.S - c.W) - 1)) / 2^(c.S - c.W) := by
  obtain ⟨_, hl, hr, hr2, hs⟩ := hI
  have hU := two_pow_pos' (c.S - c.W)
  have hT := hc.pow_S
  -- right-hand side
  have hrhs : (absLo c e + (2^(c.S - c.W) - 1)) / 2^(c.S - c.W)
      = val c.W (digitsOf c e) * 2^c.W + (e.lower + (2^(c.S - c.W) - 1)) / 2^(c.S - c.W) := by
    unfold absLo
    have : val c.W (digitsOf c e) * 2^c.S + e.lower + (2^(c.S - c.W) - 1)
        = 2^(c.S - c.W) * (val c.W (digitsOf c e) * 2^c.W) + (e.lower + (2^(c.S - c.W) - 1)) := by
      rw [hT]; ring
    rw [this, Nat.mul_add_div hU]
  rw [hrhs]
  unfold pointWordP pointP sealHeld digitsOf
  have h2 : e.lower + (2^(c.S - c.W) - 1) < 2 * 2^c.S := by
    have : 2^(c.S - c.W) ≤ 2^c.S := Nat.pow_le_pow_right (by omega) (by omega)
    omega
  by_cases hA : e.lower + (2^(c.S - c.W) - 1) < 2^c.S
  · rw [Nat.mod_eq_of_lt hA]
    have hnc : ¬ (e.lower + (2^(c.S - c.W) - 1) < e.lower) := by omega
    cases hsit : e.situation with
    | normal => simp [heldDigits]
    | inverted n first =>
      simp only [pointP, Nat.mod_eq_of_lt hA, hnc, decide_false, heldP, heldDigits,
        Bool.false_eq_true, if_false]
  · have hmod : (e.lower + (2^(c.S - c.W) - 1)) % 2^c.S = e.lower + (2^(c.S - c.W) - 1) - 2^c.S := by
      rw [mod_two h2]; simp [hA]
    cases hsit : e.situation with
    | normal =>
      rw [hsit] at hs
      simp only [SitInv] at hs
      omega
    | inverted n first =>
      have hcarry : e.lower + (2^(c.S - c.W) - 1) - 2^c.S < e.lower := by omega
      simp only [pointP, hmod, hcarry, decide_true, heldP, heldDigits, if_true]
      rw [val_carry]
      have hdiv : (e.lower + (2^(c.S - c.W) - 1)) / 2^(c.S - c.W)
          = (e.lower + (2^(c.S - c.W) - 1) - 2^c.S) / 2^(c.S - c.W) + 2^c.W := by
        have : e.lower + (2^(c.S - c.W) - 1)
            = (e.lower + (2^(c.S - c.W) - 1) - 2^c.S) + 2^(c.S - c.W) * 2^c.W := by
          rw [← hT]; omega
        rw [this, Nat.add_mul_div_left _ _ hU]
        congr 2
        omega
      rw [hdiv]; ring

/-- **conformance of sealing**: what `into_compressed` returns is what the reference
    prescribes for the abstract state (for a coder that has encoded something). -/
theorem seal_conforms {c : Cfg} (hc : RValid c) {e : Encoder} (hI : Inv c e)
    (hne : e.range ≠ maxState c) :
    e.bulk ++ sealP c e = RangeSpec.sealWords c.W c.S (absE c e) := by
  have hval := seal_value hc hI
  have hlen := sealHeld_length hI
  have hok : WordsOK c (e.bulk ++ sealHeld c e ++ [pointWordP c e]) :=
    (hI.1.append (sealHeld_wordsOK hI)).append
      (WordsOK.cons (top_word_lt hc (Nat.mod_lt _ (two_pow_pos' _))) WordsOK.nil)
  obtain ⟨_, hl, hr, hr2, hs⟩ := hI
  have hU := two_pow_pos' (c.S - c.W)
  have hT := hc.pow_S
  unfold RangeSpec.sealWords sealP
  simp only [hne, if_false]
  have hX : (absE c e).Lo + 2^(c.S - c.W) - 1 = absLo c e + (2^(c.S - c.W) - 1) := by
    simp only [absE]; omega
  rw [hX, ← hval, ← val_snoc]
  -- the point digits
  have hdig : RangeSpec.digits c.W ((absE c e).m + 1)
      (val c.W (e.bulk ++ sealHeld c e ++ [pointWordP c e]))
      = e.bulk ++ sealHeld c e ++ [pointWordP c e] := by
    have hl' : (e.bulk ++ sealHeld c e ++ [pointWordP c e]).length = (absE c e).m + 1 := by
      simp only [List.length_append, List.length_singleton, hlen, absE]
    rw [← hl']; exact digits_val _ hok
  rw [hdig]
  -- the point word
  have hpw : val c.W (e.bulk ++ sealHeld c e ++ [pointWordP c e]) % 2^c.W = pointWordP c e := by
    rw [val_snoc, Nat.mul_comm, Nat.mul_add_mod]
    exact Nat.mod_eq_of_lt (top_word_lt hc (Nat.mod_lt _ (two_pow_pos' _)))
  -- the upper word
  have huw : ((absE c e).Lo + (absE c e).R) / 2^(c.S - c.W) % 2^c.W = upperWordP c e := by
    simp only [absE, absLo]
    have : val c.W (digitsOf c e) * 2^c.S + e.lower + e.range
        = 2^(c.S - c.W) * (val c.W (digitsOf c e) * 2^c.W) + (e.lower + e.range) := by
      rw [hT]; ring
    rw [this, Nat.mul_add_div hU, Nat.mul_comm (val c.W (digitsOf c e)), Nat.mul_add_mod]
    unfold upperWordP
    rw [hT, Nat.mod_mul_right_div_self]
  rw [hpw, huw]
  simp only [List.append_assoc]

end CV.Range
