import CV.Model.SoftFloat
/-!
# Round-to-nearest-even on the software float model: monotone, and the identity on representables

`roundMag f num den` rounds the rational `num / den`.  Rationals are compared by
cross-multiplication (`a / b ≤ c / d ⇔ a * d ≤ c * b`), so everything stays in `Nat`.

* `rneDiv_mono`   — rounding to the nearest integer (ties to even) is monotone;
* `roundMag_mono` — rounding to the format is monotone, overflow (`none`) being the top element;
* `roundMag_self` — a representable magnitude rounds to itself;
* `roundMag_rep`  — every result is representable.

These are the facts the IEEE standard promises of a correctly rounded operation; here they are
theorems about the executable definition that the correspondence run compares with the hardware.
-/
namespace CV.Quant

/-! ### nearest integer, ties to even -/

theorem rneDiv_exact {b : Nat} (hb : 0 < b) (q : Nat) : rneDiv (q * b) b = q := by
  unfold rneDiv
  simp only [Nat.mul_mod_left, Nat.mul_zero]
  rw [if_pos hb, Nat.mul_div_cancel _ hb]

theorem rneDiv_ge_floor (a b : Nat) : a / b ≤ rneDiv a b := by
  unfold rneDiv; simp only; split
  · exact Nat.le_refl _
  · split
    · exact Nat.le_succ _
    · split
      · exact Nat.le_refl _
      · exact Nat.le_succ _

theorem rneDiv_le_floor_succ (a b : Nat) : rneDiv a b ≤ a / b + 1 := by
  unfold rneDiv; simp only; split
  · exact Nat.le_succ _
  · split
    · exact Nat.le_refl _
    · split
      · exact Nat.le_succ _
      · exact Nat.le_refl _

/-- cross-multiplied comparison of two fractions gives comparison of their floors -/
theorem div_le_div_of_cross {a b c d : Nat} (hb : 0 < b) (hd : 0 < d) (h : a * d ≤ c * b) :
    a / b ≤ c / d := by
  rw [Nat.le_div_iff_mul_le hd]
  have h1 : a / b * b ≤ a := Nat.div_mul_le_self a b
  have h2 : a / b * d * b ≤ c * b := by
    calc a / b * d * b = a / b * b * d := by rw [Nat.mul_right_comm]
      _ ≤ a * d := Nat.mul_le_mul_right d h1
      _ ≤ c * b := h
  exact Nat.le_of_mul_le_mul_right h2 hb

/-- **rounding to the nearest integer is monotone** -/
theorem rneDiv_mono {a b c d : Nat} (hb : 0 < b) (hd : 0 < d) (h : a * d ≤ c * b) :
    rneDiv a b ≤ rneDiv c d := by
  have hq := div_le_div_of_cross hb hd h
  rcases Nat.lt_or_ge (a / b) (c / d) with hlt | hge
  · exact Nat.le_trans (rneDiv_le_floor_succ a b) (Nat.le_trans hlt (rneDiv_ge_floor c d))
  · have heq : a / b = c / d := Nat.le_antisymm hq hge
    -- same floor `q`: compare the remainders
    have ha : a = b * (a / b) + a % b := (Nat.div_add_mod a b).symm
    have hc : c = d * (c / d) + c % d := (Nat.div_add_mod c d).symm
    -- `ra * d ≤ rc * b`
    have hr : a % b * d ≤ c % d * b := by
      have e1 : a * d = b * d * (a / b) + a % b * d := by
        conv => lhs; rw [ha]
        rw [Nat.add_mul, Nat.mul_right_comm]
      have e2 : c * b = b * d * (a / b) + c % d * b := by
        conv => lhs; rw [hc]
        rw [Nat.add_mul, heq, Nat.mul_right_comm d, Nat.mul_comm d b]
      rw [e1, e2] at h
      exact Nat.le_of_add_le_add_left h
    unfold rneDiv
    simp only
    rw [← heq]
    have hbb : 0 < b := hb
    -- case analysis on the two remainders
    by_cases h1 : 2 * (a % b) < b
    · rw [if_pos h1]
      split
      · exact Nat.le_refl _
      · split
        · exact Nat.le_succ _
        · split
          · exact Nat.le_refl _
          · exact Nat.le_succ _
    · rw [if_neg h1]
      by_cases h2 : b < 2 * (a % b)
      · rw [if_pos h2]
        -- then `d < 2 * rc`
        have : d < 2 * (c % d) := by
          have h3 : b * d < 2 * (c % d) * b := by
            calc b * d < 2 * (a % b) * d := Nat.mul_lt_mul_of_pos_right h2 hd
              _ = 2 * (a % b * d) := Nat.mul_assoc _ _ _
              _ ≤ 2 * (c % d * b) := Nat.mul_le_mul_left 2 hr
              _ = 2 * (c % d) * b := (Nat.mul_assoc _ _ _).symm
          rw [Nat.mul_comm b d] at h3
          exact Nat.lt_of_mul_lt_mul_right h3
        have hn : ¬ 2 * (c % d) < d := by omega
        rw [if_neg hn, if_pos this]
        exact Nat.le_refl _
      · rw [if_neg h2]
        -- tie on the left: `2 * ra = b`; on the right `2 * rc ≥ d`
        have hge2 : d ≤ 2 * (c % d) := by
          have h3 : d * b ≤ 2 * (c % d) * b := by
            have hb2 : b = 2 * (a % b) := by omega
            calc d * b = b * d := Nat.mul_comm _ _
              _ = 2 * (a % b) * d := by rw [← hb2]
              _ = 2 * (a % b * d) := Nat.mul_assoc _ _ _
              _ ≤ 2 * (c % d * b) := Nat.mul_le_mul_left 2 hr
              _ = 2 * (c % d) * b := (Nat.mul_assoc _ _ _).symm
          exact Nat.le_of_mul_le_mul_right h3 hb
        have hn : ¬ 2 * (c % d) < d := by omega
        rw [if_neg hn]
        by_cases h4 : d < 2 * (c % d)
        · rw [if_pos h4]
          split
          · exact Nat.le_succ _
          · exact Nat.le_refl _
        · rw [if_neg h4]
          exact Nat.le_refl _

theorem rneDiv_ge_of_le {L a b : Nat} (hb : 0 < b) (h : L * b ≤ a) : L ≤ rneDiv a b := by
  have := rneDiv_mono (a := L * b) (b := b) (c := a) (d := b) hb hb (Nat.mul_le_mul_right b h)
  rwa [rneDiv_exact hb] at this

theorem rneDiv_le_of_le {U a b : Nat} (hb : 0 < b) (h : a ≤ U * b) : rneDiv a b ≤ U := by
  have := rneDiv_mono (a := a) (b := b) (c := U * b) (d := b) hb hb (Nat.mul_le_mul_right b h)
  rwa [rneDiv_exact hb] at this

/-! ### rounding to the format -/

/-- order on rounded magnitudes: overflow is the top element -/
def MagLe : Option Nat → Option Nat → Prop
  | some x, some y => x ≤ y
  | _, none => True
  | none, some _ => False

theorem MagLe.refl (a : Option Nat) : MagLe a a := by
  cases a <;> simp [MagLe]

/-- the rounded magnitude before the overflow test -/
def roundVal (f : Fmt) (num den : Nat) : Nat :=
  rneDiv num (den * 2 ^ roundShift f num den) * 2 ^ roundShift f num den

theorem roundMag_eq (f : Fmt) (num den : Nat) :
    roundMag f num den = if roundVal f num den ≥ f.limit then none else some (roundVal f num den) := rfl

theorem two_pow_pos' (n : Nat) : 0 < 2 ^ n := Nat.pos_of_ne_zero (by exact Nat.ne_of_gt (Nat.two_pow_pos n))

theorem log2_mono {a b : Nat} (h : a ≤ b) : a.log2 ≤ b.log2 := by
  by_cases ha : a = 0
  · subst ha; simp
  · have hb : b ≠ 0 := by omega
    have h1 : 2 ^ a.log2 ≤ a := Nat.log2_self_le ha
    have h2 : 2 ^ a.log2 ≤ b := Nat.le_trans h1 h
    exact (Nat.le_log2 hb).2 h2

theorem roundShift_mono (f : Fmt) {a b c d : Nat} (hb : 0 < b) (hd : 0 < d) (h : a * d ≤ c * b) :
    roundShift f a b ≤ roundShift f c d := by
  have hq := div_le_div_of_cross hb hd h
  unfold roundShift
  simp only
  by_cases h1 : a / b < 2 ^ f.p
  · rw [if_pos h1]; exact Nat.zero_le _
  · rw [if_neg h1, if_neg (by omega)]
    have := log2_mono hq
    omega

/-- upper bound: the value rounded at shift `e` is at most `2^(p+e)` -/
theorem roundVal_le (f : Fmt) {a b : Nat} (hb : 0 < b) :
    roundVal f a b ≤ 2 ^ (f.p + roundShift f a b) := by
  unfold roundVal
  have hlt : a / b < 2 ^ (f.p + roundShift f a b) := by
    unfold roundShift; simp only
    by_cases h1 : a / b < 2 ^ f.p
    · rw [if_pos h1]; simpa using h1
    · rw [if_neg h1]
      have h2 : a / b < 2 ^ ((a / b).log2 + 1) := Nat.lt_log2_self
      have h3 : f.p ≤ (a / b).log2 := by
        have hne : a / b ≠ 0 := by
          have := two_pow_pos' f.p; omega
        exact (Nat.le_log2 hne).2 (by omega)
      have : f.p + ((a / b).log2 + 1 - f.p) = (a / b).log2 + 1 := by omega
      rw [this]; exact h2
  have ha : a < 2 ^ (f.p + roundShift f a b) * b := (Nat.div_lt_iff_lt_mul hb).1 hlt
  have hpos : 0 < b * 2 ^ roundShift f a b := Nat.mul_pos hb (two_pow_pos' _)
  have hU : rneDiv a (b * 2 ^ roundShift f a b) ≤ 2 ^ f.p := by
    apply rneDiv_le_of_le hpos
    rw [Nat.pow_add] at ha
    have : 2 ^ f.p * 2 ^ roundShift f a b * b = 2 ^ f.p * (b * 2 ^ roundShift f a b) := by
      rw [Nat.mul_assoc, Nat.mul_comm (2 ^ roundShift f a b) b]
    omega
  calc rneDiv a (b * 2 ^ roundShift f a b) * 2 ^ roundShift f a b
      ≤ 2 ^ f.p * 2 ^ roundShift f a b := Nat.mul_le_mul_right _ hU
    _ = 2 ^ (f.p + roundShift f a b) := (Nat.pow_add _ _ _).symm

/-- lower bound at a positive shift: the rounded value is at least `2^(p-1+e)` -/
theorem roundVal_ge (f : Fmt) (hp : 1 ≤ f.p) {c d : Nat} (hd : 0 < d) (he : 0 < roundShift f c d) :
    2 ^ (f.p - 1 + roundShift f c d) ≤ roundVal f c d := by
  have hq : ¬ c / d < 2 ^ f.p := by
    intro h; unfold roundShift at he; simp only at he; rw [if_pos h] at he; omega
  have hs : roundShift f c d = (c / d).log2 + 1 - f.p := by
    unfold roundShift; simp only; rw [if_neg hq]
  have hne : c / d ≠ 0 := by have := two_pow_pos' f.p; omega
  have h3 : f.p ≤ (c / d).log2 := (Nat.le_log2 hne).2 (by omega)
  have h4 : 2 ^ (c / d).log2 ≤ c / d := Nat.log2_self_le hne
  have h5 : f.p - 1 + roundShift f c d = (c / d).log2 := by omega
  have h6 : 2 ^ (f.p - 1 + roundShift f c d) * d ≤ c := by
    rw [h5]; exact (Nat.le_div_iff_mul_le hd).1 h4
  have hpos : 0 < d * 2 ^ roundShift f c d := Nat.mul_pos hd (two_pow_pos' _)
  have hL : 2 ^ (f.p - 1) ≤ rneDiv c (d * 2 ^ roundShift f c d) := by
    apply rneDiv_ge_of_le hpos
    rw [Nat.pow_add] at h6
    have : 2 ^ (f.p - 1) * (d * 2 ^ roundShift f c d) = 2 ^ (f.p - 1) * 2 ^ roundShift f c d * d := by
      rw [Nat.mul_assoc, Nat.mul_comm d]
    omega
  unfold roundVal
  calc 2 ^ (f.p - 1 + roundShift f c d) = 2 ^ (f.p - 1) * 2 ^ roundShift f c d := Nat.pow_add _ _ _
    _ ≤ rneDiv c (d * 2 ^ roundShift f c d) * 2 ^ roundShift f c d := Nat.mul_le_mul_right _ hL

/-- **rounding to the format is monotone** (before the overflow test) -/
theorem roundVal_mono (f : Fmt) (hp : 1 ≤ f.p) {a b c d : Nat} (hb : 0 < b) (hd : 0 < d)
    (h : a * d ≤ c * b) : roundVal f a b ≤ roundVal f c d := by
  have hs := roundShift_mono f hb hd h
  rcases Nat.lt_or_ge (roundShift f a b) (roundShift f c d) with hlt | hge
  · have h1 := roundVal_le f (a := a) hb
    have h2 := roundVal_ge f hp (c := c) hd (by omega)
    have h3 : 2 ^ (f.p + roundShift f a b) ≤ 2 ^ (f.p - 1 + roundShift f c d) :=
      Nat.pow_le_pow_right (by decide) (by omega)
    omega
  · have he : roundShift f a b = roundShift f c d := Nat.le_antisymm hs hge
    unfold roundVal
    rw [he]
    apply Nat.mul_le_mul_right
    apply rneDiv_mono (Nat.mul_pos hb (two_pow_pos' _)) (Nat.mul_pos hd (two_pow_pos' _))
    calc a * (d * 2 ^ roundShift f c d) = a * d * 2 ^ roundShift f c d := (Nat.mul_assoc _ _ _).symm
      _ ≤ c * b * 2 ^ roundShift f c d := Nat.mul_le_mul_right _ h
      _ = c * (b * 2 ^ roundShift f c d) := Nat.mul_assoc _ _ _

/-- **`roundMag` is monotone**, overflow being the top element -/
theorem roundMag_mono (f : Fmt) (hp : 1 ≤ f.p) {a b c d : Nat} (hb : 0 < b) (hd : 0 < d)
    (h : a * d ≤ c * b) : MagLe (roundMag f a b) (roundMag f c d) := by
  have hv := roundVal_mono f hp hb hd h
  rw [roundMag_eq, roundMag_eq]
  by_cases h2 : roundVal f c d ≥ f.limit
  · rw [if_pos h2]; cases (if roundVal f a b ≥ f.limit then none else some (roundVal f a b)) <;> simp [MagLe]
  · rw [if_neg h2, if_neg (by omega)]; exact hv

/-! ### representable magnitudes -/

/-- `k` (in units of `2^-M`) is a finite value of the format -/
def Rep (f : Fmt) (k : Nat) : Prop :=
  k < f.limit ∧ (k < 2 ^ f.p ∨ 2 ^ (k.log2 + 1 - f.p) ∣ k)

theorem rep_zero (f : Fmt) : Rep f 0 := by
  refine ⟨?_, Or.inl (two_pow_pos' _)⟩
  unfold Fmt.limit; exact two_pow_pos' _

/-- **a representable magnitude rounds to itself** -/
theorem roundMag_self (f : Fmt) {k : Nat} (hk : Rep f k) : roundMag f k 1 = some k := by
  obtain ⟨hlim, hrep⟩ := hk
  have hv : roundVal f k 1 = k := by
    unfold roundVal roundShift
    simp only [Nat.div_one, Nat.one_mul]
    by_cases h1 : k < 2 ^ f.p
    · rw [if_pos h1]
      simp only [Nat.pow_zero, Nat.mul_one]
      have := rneDiv_exact (b := 1) (by decide) k
      simpa using this
    · rw [if_neg h1]
      rcases hrep with h | ⟨m, hm⟩
      · exact absurd h h1
      · have hpos := two_pow_pos' (k.log2 + 1 - f.p)
        have : rneDiv k (2 ^ (k.log2 + 1 - f.p)) = m := by
          conv => lhs; arg 1; rw [hm, Nat.mul_comm]
          exact rneDiv_exact hpos m
        rw [this, Nat.mul_comm]; exact hm.symm
  rw [roundMag_eq, hv, if_neg (by omega)]

theorem log2_mul_two_pow {r : Nat} (hr : r ≠ 0) (e : Nat) : (r * 2 ^ e).log2 = r.log2 + e := by
  have hne : r * 2 ^ e ≠ 0 := Nat.mul_ne_zero hr (Nat.ne_of_gt (two_pow_pos' e))
  rw [Nat.log2_eq_iff hne]
  constructor
  · rw [Nat.pow_add]; exact Nat.mul_le_mul_right _ (Nat.log2_self_le hr)
  · have : r < 2 ^ (r.log2 + 1) := Nat.lt_log2_self
    calc r * 2 ^ e < 2 ^ (r.log2 + 1) * 2 ^ e := Nat.mul_lt_mul_of_pos_right this (two_pow_pos' e)
      _ = 2 ^ (r.log2 + e + 1) := by rw [← Nat.pow_add]; congr 1; omega

/-- **every rounded result is representable** -/
theorem roundMag_rep (f : Fmt) (hp : 1 ≤ f.p) {a b k : Nat} (hb : 0 < b)
    (h : roundMag f a b = some k) : Rep f k := by
  rw [roundMag_eq] at h
  by_cases hl : roundVal f a b ≥ f.limit
  · rw [if_pos hl] at h; cases h
  · rw [if_neg hl] at h
    injection h with h
    subst h
    refine ⟨by omega, ?_⟩
    have hup := roundVal_le f (a := a) hb
    by_cases he : roundShift f a b = 0
    · -- spacing one unit: the value is at most `2^p`
      rw [he] at hup
      simp only [Nat.add_zero] at hup
      rcases Nat.lt_or_ge (roundVal f a b) (2 ^ f.p) with hlt | hge
      · exact Or.inl hlt
      · right
        have : roundVal f a b = 2 ^ f.p := Nat.le_antisymm hup hge
        rw [this, Nat.log2_two_pow]
        exact Nat.pow_dvd_pow 2 (by omega)
    · have hlo := roundVal_ge f hp (c := a) hb (by omega)
      right
      -- write the value as `r * 2^e` with `2^(p-1) ≤ r ≤ 2^p`
      have hr : roundVal f a b = rneDiv a (b * 2 ^ roundShift f a b) * 2 ^ roundShift f a b := rfl
      have hpe := two_pow_pos' (roundShift f a b)
      have hr1 : 2 ^ (f.p - 1) ≤ rneDiv a (b * 2 ^ roundShift f a b) := by
        rw [hr, Nat.pow_add] at hlo
        exact Nat.le_of_mul_le_mul_right hlo hpe
      have hr2 : rneDiv a (b * 2 ^ roundShift f a b) ≤ 2 ^ f.p := by
        rw [hr, Nat.pow_add] at hup
        exact Nat.le_of_mul_le_mul_right hup hpe
      have hrne : rneDiv a (b * 2 ^ roundShift f a b) ≠ 0 := by
        have := two_pow_pos' (f.p - 1); omega
      rw [hr, log2_mul_two_pow hrne]
      rcases Nat.lt_or_ge (rneDiv a (b * 2 ^ roundShift f a b)) (2 ^ f.p) with hlt | hge
      · have hlog : (rneDiv a (b * 2 ^ roundShift f a b)).log2 = f.p - 1 := by
          rw [Nat.log2_eq_iff hrne]
          refine ⟨hr1, ?_⟩
          have : f.p - 1 + 1 = f.p := by omega
          rw [this]; exact hlt
        rw [hlog]
        have : f.p - 1 + roundShift f a b + 1 - f.p = roundShift f a b := by omega
        rw [this]
        exact Nat.dvd_mul_left _ _
      · have heq : rneDiv a (b * 2 ^ roundShift f a b) = 2 ^ f.p := Nat.le_antisymm hr2 hge
        rw [heq, Nat.log2_two_pow, ← Nat.pow_add]
        exact Nat.pow_dvd_pow 2 (by omega)

end CV.Quant
