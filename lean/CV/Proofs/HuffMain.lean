import CV.Proofs.HuffCode
/-!
# Both arrays describe `huffTree ops ws`, for every weight type; consequences for
`encode_symbol_suffix`, `encode_symbol_prefix`, `decode_symbol`
-/
namespace CV.Huff

/-- `en` and `dn` are the encoder array and decoder table of the tree `T` on `n` symbols -/
structure Built (n : Nat) (en : List Nat) (dn : List (Nat × Nat)) (T : Tree) : Prop where
  n_pos : 0 < n
  n_max : n ≤ usizeMax / 4
  en_len : en.length = 2 * n - 1
  dn_len : dn.length + 1 = n
  encDesc : EncDesc en T
  root0 : en[T.rootId]? = some 0
  decDesc : DecDesc dn n T
  leaves : T.leaves.Perm (List.range n)
  inner_ge : ∀ i ∈ T.inner, n ≤ i ∧ i < 2 * n - 1
  inner_len : T.inner.length + 1 = n
  root : T.rootId = 2 * n - 2

theorem usizeMax_div4 : usizeMax / 4 < 2^62 := by decide

section
variable {α : Type} (ops : WeightOps α)

/-- the Huffman tree of a weight list, vertices labelled with their array indices
(`none`: an addition panicked) -/
def huffTree (ws : List α) : Option Tree := treeLoop ops ws.length ws.zipIdx ws.length

theorem heapOK_zipIdx (ws : List α) : HeapOK ws.zipIdx ws.length := by
  constructor
  · have := List.zipIdx_map_snd 0 ws
    rw [this]
    exact List.nodup_range'
  · intro p hp
    obtain ⟨x, i⟩ := p
    have := List.mem_zipIdx hp
    simp; omega

variable {ops}

/-- whenever the abstract merge loop succeeds on an admissible number of symbols, both
constructors succeed and their arrays describe its tree -/
theorem build_of_tree {ws : List α} (hn : 0 < ws.length) (hmax : ws.length ≤ usizeMax / 4)
    {T : Tree} (hT : huffTree ops ws = some T) :
    ∃ en dn, encTree ops ws = .ok en ∧ decTree ops ws = .ok dn ∧ Built ws.length en dn T := by
  have h62 := usizeMax_div4
  have hlen : ws.zipIdx.length = ws.length := by simp
  have hok := heapOK_zipIdx ws
  unfold huffTree at hT
  obtain ⟨hleaves, hinner, hcount, hroot, hsingle⟩ :=
    treeLoop_spec ws.length ws.zipIdx ws.length hok hlen.symm T hT
  obtain ⟨en, hen, henlen, hkeep, hdescE⟩ :=
    encLoop_spec ops ws.length ws.zipIdx (List.replicate (ws.length * 2 - 1) 0) ws.length hok
      hlen.symm (by simp; omega) (by simp; omega) T hT
  obtain ⟨dn, hdn, hdnlen, _, hdescD⟩ :=
    decLoop_spec ops ws.length ws.length ws.zipIdx [] ws.length hok hlen.symm
      (by simp) (by simp; omega) T hT
  have hrootId : T.rootId = 2 * ws.length - 2 := by
    by_cases h2 : 2 ≤ ws.length
    · have := hroot (by omega); omega
    · have h1 : ws.length = 1 := by omega
      match hws : ws.zipIdx, hlen with
      | [p], _ =>
        have := hsingle p hws
        subst this
        have hp := hok.2 p (by simp [hws])
        simp [Tree.rootId]; omega
      | [], h => simp at h; omega
      | _ :: _ :: _, h => simp at h; omega
  refine ⟨en, dn, ?_, ?_, ?_⟩
  · simp only [encTree, hlen]
    rw [if_neg (by omega)]
    exact hen
  · simp only [decTree, hlen]
    have : usizeMax / 4 ≤ usizeMax / 2 := by decide
    rw [if_neg (by omega)]
    exact hdn
  · refine
      { n_pos := hn, n_max := hmax, en_len := by simp at henlen; omega,
        dn_len := by simp at hdnlen; omega,
        encDesc := hdescE, root0 := ?_, decDesc := hdescD, leaves := ?_,
        inner_ge := ?_, inner_len := by omega, root := hrootId }
    · rw [hkeep, hrootId]
      · rw [List.getElem?_replicate, if_pos (by omega)]
      · by_cases h1 : ws.length = 1
        · left; omega
        · right
          rw [hrootId]
          refine ⟨?_, by omega⟩
          intro hmem
          obtain ⟨p, hp1, hp2⟩ := List.mem_map.mp hmem
          have := hok.2 p hp1
          omega
    · have := List.zipIdx_map_snd 0 ws
      rw [this] at hleaves
      simpa [List.range_eq_range'] using hleaves
    · intro i hi
      have := hinner i hi
      omega

/-- if the encoder constructor returns an array, the merge loop succeeded (and the number of
symbols passed the constructor's guard) -/
theorem encTree_ok {ws : List α} {en : List Nat} (h : encTree ops ws = .ok en) :
    0 < ws.length ∧ ws.length ≤ usizeMax / 4 ∧ ∃ T, huffTree ops ws = some T := by
  simp only [encTree, List.length_zipIdx] at h
  split at h
  · simp at h
  · next hg =>
    have hne : ws.zipIdx ≠ [] := by
      intro e
      have : ws.zipIdx.length = 0 := by rw [e]; rfl
      rw [List.length_zipIdx] at this; omega
    exact ⟨by omega, by omega, encLoop_ok_tree ops _ _ _ _ en hne h⟩

theorem decTree_ok {ws : List α} {dn : List (Nat × Nat)} (h : decTree ops ws = .ok dn) :
    0 < ws.length ∧ ws.length ≤ usizeMax / 2 ∧ ∃ T, huffTree ops ws = some T := by
  simp only [decTree, List.length_zipIdx] at h
  split at h
  · simp at h
  · next hg =>
    have hne : ws.zipIdx ≠ [] := by
      intro e
      have : ws.zipIdx.length = 0 := by rw [e]; rfl
      rw [List.length_zipIdx] at this; omega
    exact ⟨by omega, by omega, decLoop_ok_tree ops _ _ _ _ dn hne h⟩

/-- the central fact: whatever the weight type, an encoder array returned by the constructor
comes with the decoder table of the same tree -/
theorem built_of_enc {ws : List α} {en : List Nat} (h : encTree ops ws = .ok en) :
    ∃ dn T, decTree ops ws = .ok dn ∧ huffTree ops ws = some T ∧ Built ws.length en dn T := by
  obtain ⟨hn, hmax, T, hT⟩ := encTree_ok h
  obtain ⟨en', dn, he, hd, B⟩ := build_of_tree hn hmax hT
  rw [h] at he; injection he with he; subst he
  exact ⟨dn, T, hd, hT, B⟩

theorem built_of_dec {ws : List α} {dn : List (Nat × Nat)} (h : decTree ops ws = .ok dn)
    (hmax : ws.length ≤ usizeMax / 4) :
    ∃ en T, encTree ops ws = .ok en ∧ huffTree ops ws = some T ∧ Built ws.length en dn T := by
  obtain ⟨hn, _, T, hT⟩ := decTree_ok h
  obtain ⟨en, dn', he, hd, B⟩ := build_of_tree hn hmax hT
  rw [h] at hd; injection hd with hd; subst hd
  exact ⟨en, T, he, hT, B⟩

end

variable {n : Nat} {en : List Nat} {dn : List (Nat × Nat)} {T : Tree}

theorem Built.code_of_lt (B : Built n en dn T) {s : Nat} (hs : s < n) : ∃ p, T.code s = some p := by
  have : s ∈ T.leaves := B.leaves.mem_iff.mpr (by simp [hs])
  have := (Tree.code_isSome_iff s T).mpr this
  exact Option.isSome_iff_exists.mp this

theorem Built.code_lt (B : Built n en dn T) {s : Nat} {p} (h : T.code s = some p) : s < n := by
  have := B.leaves.mem_iff.mp (Tree.mem_of_code h)
  simpa using this

theorem Built.code_len (B : Built n en dn T) {s : Nat} {p} (h : T.code s = some p) :
    p.length + 1 ≤ n := by
  have h1 := Tree.code_length_le_height s T p h
  have h2 := Tree.height_le_inner T
  have := B.inner_len
  omega

theorem Built.suffix (B : Built n en dn T) {s : Nat} {p} (h : T.code s = some p) :
    encodeSuffix en s = .ok p.reverse := by
  have hs := B.code_lt h
  have hl := B.code_len h
  have hnot : ¬ (s > en.length / 2) := by rw [B.en_len]; omega
  simp only [encodeSuffix, if_neg hnot]
  obtain ⟨k, hk⟩ : ∃ k, en.length = (k + 1) + p.length := ⟨en.length - p.length - 1, by
    rw [B.en_len]; omega⟩
  have hroot : suffixWalk en (k + 1) T.rootId = .ok [] := by
    simp [suffixWalk, B.root0]
  have hin : ∀ i ∈ T.inner, 0 < i := fun i hi => by
    have := B.inner_ge i hi; have := B.n_pos; omega
  have := walk_up s T p B.encDesc hin h (k + 1) [] hroot
  rw [hk, this]; simp

theorem Built.prefix (B : Built n en dn T) {s : Nat} {p} (h : T.code s = some p) :
    encodePrefix en s = .ok p := by
  simp [encodePrefix, B.suffix h, stackWriteAll_eq]

theorem Built.suffix_reject (B : Built n en dn T) {s : Nat} (hs : n ≤ s) :
    encodeSuffix en s = .error .impossible := by
  have : s > en.length / 2 := by rw [B.en_len]; have := B.n_pos; omega
  simp [encodeSuffix, this]

theorem Built.prefix_reject (B : Built n en dn T) {s : Nat} (hs : n ≤ s) :
    encodePrefix en s = .error .impossible := by
  simp [encodePrefix, B.suffix_reject hs]

theorem Built.decode_start (B : Built n en dn T) (src : List (Option Bool)) :
    CV.Huff.decode dn src = decodeLoop dn n T.rootId src := by
  have h62 := usizeMax_div4
  have := B.n_max
  have hdl := B.dn_len
  have h1 : dn.length + 1 < 2^64 := by omega
  have h2 : 2 * dn.length < 2^64 := by omega
  simp only [decode, cadd, cmul, h1, h2, if_true]
  rw [B.root]
  congr 1
  · omega

theorem Built.dec_word (B : Built n en dn T) {s : Nat} {p} (h : T.code s = some p)
    (rest : List (Option Bool)) : CV.Huff.decode dn (p.map some ++ rest) = .ok (s, rest) := by
  rw [B.decode_start]
  exact walk_down s (B.code_lt h) rest T p B.decDesc h

theorem Built.dec_truncated (B : Built n en dn T) {s : Nat} {p q} (h : T.code s = some (p ++ q))
    (hq : q ≠ []) : CV.Huff.decode dn (p.map some) = .error .outOfData := by
  rw [B.decode_start]
  exact walk_down_truncated s T p q B.decDesc h hq

end CV.Huff
