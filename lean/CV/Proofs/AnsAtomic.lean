import CV.Model.Ans
/-!
# `encode_symbol` is atomic: on both documented failures the coder is left exactly as it was
-/
namespace CV.Ans
open CV

variable {Sym : Type}

/-- what the statement-by-statement transcription must return, given the result of `encode`:
    the new coder on success; the ORIGINAL coder for `ImpossibleSymbol` and for a refused backend
    write (the model lookup and `bulk.write(..)?` precede every mutation of `state`); for a fault
    (a panic in a checked build, which `Proofs/AnsStep.lean` shows unreachable from invariant
    states) only the error is pinned: a panic after the flush would leave the coder mutated. -/
def AtomicSpec (x : Coder) (r : Except EncErr Coder) (out : Coder × Except EncErr Unit) : Prop :=
  match r with
  | .ok y => out = (y, .ok ())
  | .error .impossible => out = (x, .error .impossible)
  | .error .backendFull => out = (x, .error .backendFull)
  | .error (.fault f) => out.2 = .error (.fault f)

theorem encodeSymbolM_spec (c : Cfg) (m : Model Sym) (s : Sym) (x : Coder) :
    AtomicSpec x (encode c m s x) (encodeSymbolM c m s x) := by
  unfold encodeSymbolM encode
  cases henc : m.enc s with
  | none => simp [AtomicSpec]
  | some cp =>
    obtain ⟨cum, p⟩ := cp
    simp only
    unfold encodeCP
    cases hshr : shr "ans.enc.hi" c.S x.state (c.S - c.P) with
    | error f => simp [AtomicSpec]
    | ok hi =>
      simp only
      by_cases hge : hi ≥ p
      · by_cases hw : canWrite x = true
        · simp only [hge, hw, if_true]
          by_cases hp0 : p = 0
          · simp [hp0, AtomicSpec]
          · simp only [hp0, if_false]
            cases cadd "ans.enc.quantile" c.B cum
                (narrow c.B (narrow c.W (x.state >>> c.W % p))) with
            | error f => simp [AtomicSpec]
            | ok q =>
              simp only
              cases shl "ans.enc.prefix" c.S (x.state >>> c.W / p) c.P with
              | error f => simp [AtomicSpec]
              | ok hiPart => simp [AtomicSpec]
        · simp [hge, hw, AtomicSpec]
      · simp only [hge, if_false]
        by_cases hp0 : p = 0
        · simp [hp0, AtomicSpec]
        · simp only [hp0, if_false]
          cases cadd "ans.enc.quantile" c.B cum (narrow c.B (narrow c.W (x.state % p))) with
          | error f => simp [AtomicSpec]
          | ok q =>
            simp only
            cases shl "ans.enc.prefix" c.S (x.state / p) c.P with
            | error f => simp [AtomicSpec]
            | ok hiPart => simp [AtomicSpec]

/-- success: the transcription yields exactly the coder of `encode` -/
theorem encodeSymbolM_ok (c : Cfg) (m : Model Sym) (s : Sym) (x y : Coder)
    (h : encode c m s x = .ok y) : encodeSymbolM c m s x = (y, .ok ()) := by
  have := encodeSymbolM_spec c m s x
  rw [h] at this; exact this

/-- an impossible symbol leaves the coder intact -/
theorem encodeSymbolM_impossible (c : Cfg) (m : Model Sym) (s : Sym) (x : Coder)
    (h : m.enc s = none) : encodeSymbolM c m s x = (x, .error .impossible) := by
  have := encodeSymbolM_spec c m s x
  have he : encode c m s x = .error .impossible := by simp [encode, h]
  rw [he] at this; exact this

/-- a refused backend write leaves the coder intact -/
theorem encodeSymbolM_full (c : Cfg) (m : Model Sym) (s : Sym) (x : Coder)
    (h : encode c m s x = .error .backendFull) :
    encodeSymbolM c m s x = (x, .error .backendFull) := by
  have := encodeSymbolM_spec c m s x
  rw [h] at this; exact this

/-- the batch loop continues with the coder of the successful item … -/
theorem encodeSymbols_cons_ok (c : Cfg) (x y : Coder) (s : Sym) (m : Model Sym)
    (rest : List (Option (Sym × Model Sym))) (h : encode c m s x = .ok y) :
    encodeSymbols c x (some (s, m) :: rest) = encodeSymbols c y rest := by
  simp only [encodeSymbols, encodeSymbolM_ok c m s x y h]

/-- … and stops at the first impossible symbol with the coder as the successful prefix left it -/
theorem encodeSymbols_cons_impossible (c : Cfg) (x : Coder) (s : Sym) (m : Model Sym)
    (rest : List (Option (Sym × Model Sym))) (h : m.enc s = none) :
    encodeSymbols c x (some (s, m) :: rest) = (x, .error (.coding .impossible)) := by
  simp only [encodeSymbols, encodeSymbolM_impossible c m s x h]

theorem encodeSymbols_cons_modelerr (c : Cfg) (x : Coder)
    (rest : List (Option (Sym × Model Sym))) :
    encodeSymbols c x (none :: rest) = (x, .error .model) := rfl

end CV.Ans
