import CV.Proofs.RangeExamples
import CV.Proofs.RangeSize
/-!
# Decoding any number of symbols from arbitrary words (C10)
-/
namespace CV.Range

/-- every decoded symbol belongs to the support of the model it was decoded with -/
def InSupport {Sym : Type} : List Sym → List (MStep Sym) → Prop
  | [], [] => True
  | s :: ss, x :: xs => (x.model.enc s).isSome ∧ InSupport ss xs
  | _, _ => False

/-- what a decoding step needs: allowed type parameters and a model honouring its contract
    (no assumption on the symbol: nothing was encoded) -/
def MStep.DecValid {Sym : Type} (c : Cfg) (x : MStep Sym) : Prop :=
  RValid (cfgAt c x.B x.P) ∧ x.model.WellFormed x.P

/-- one step on arbitrary data -/
theorem decode_total {Sym : Type} {c : Cfg} (hc : RValid c) {m : Model Sym}
    (hm : m.WellFormed c.P) {d : Decoder} (hI : DReg c d) :
    (decode c m d = .error .invalidData ∧ quantileOf c d ≥ 2^c.P) ∨
    (∃ s d', decode c m d = .ok (s, d') ∧ DInv c d' ∧ (m.enc s).isSome ∧
      quantileOf c d < 2^c.P) := by
  rw [decode_eq_pure hc hm hI]
  by_cases hq : quantileOf c d ≥ 2^c.P
  · left; simp [hq]
  · right
    have hq' : quantileOf c d < 2^c.P := Nat.lt_of_not_le hq
    obtain ⟨cum, p, hs, _⟩ := decPure_support hm (d := d) hq'
    refine ⟨(decPure c m d).1, (decPure c m d).2, by simp [hq], decPure_inv hc hm hI hq', ?_, hq'⟩
    rw [hs]; rfl

/-- any number of steps on arbitrary data: the result is a list of in-support symbols or
    `InvalidData`; a `Fault` (panic, overflow, UB precondition) is impossible. -/
theorem decodeMsg_total {Sym : Type} {c : Cfg} : ∀ (msg : List (MStep Sym)) (d : Decoder),
    DReg c d → (∀ x ∈ msg, x.DecValid c) →
    (∃ ss d', decodeMsg c d msg = .ok (ss, d') ∧ DReg c d' ∧ InSupport ss msg) ∨
    decodeMsg c d msg = .error .invalidData := by
  intro msg
  induction msg with
  | nil => intro d hI _; left; exact ⟨[], d, rfl, hI, trivial⟩
  | cons x xs ih =>
    intro d hI hv
    have hx := hv x (by simp)
    have hI' : DReg (cfgAt c x.B x.P) d := hI
    rcases decode_total (c := cfgAt c x.B x.P) hx.1 hx.2 hI' with ⟨herr, _⟩ | ⟨s, d', hok, hinv, hsup, _⟩
    · right; simp only [decodeMsg, herr]
    · have hreg : DReg c d' := hinv.1
      rcases ih d' hreg (fun y hy => hv y (by simp [hy])) with ⟨ss, d'', hok2, hreg2, hsup2⟩ | herr2
      · left
        refine ⟨s :: ss, d'', ?_, hreg2, hsup, hsup2⟩
        simp only [decodeMsg, hok, hok2]
      · right; simp only [decodeMsg, hok, herr2]

/-- a decoder can be constructed over any words, and is then in a state `decode` accepts -/
theorem fromCompressed_total {c : Cfg} (hc : RValid c) {ws : List Nat} (hw : WordsOK c ws) :
    ∃ d, Decoder.fromCompressed c ws = .ok d ∧ DReg c d := by
  obtain ⟨d, hd, hrel⟩ := fromCompressed_eq hc hw
  exact ⟨d, hd, hrel.reg (specInv_init hc) hw⟩

end CV.Range
