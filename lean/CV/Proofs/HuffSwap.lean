import CV.Proofs.HuffCost
/-!
# The sibling lemma: two minimum-weight symbols can be made sibling leaves at no cost
-/
namespace CV.Huff

/-- the transposition of `x` and `y` -/
def swp (x y s : Nat) : Nat := if s = x then y else if s = y then x else s

theorem swp_swp (x y s : Nat) : swp x y (swp x y s) = s := by
  unfold swp; split <;> (try split) <;> (try split) <;> (try split) <;> omega

theorem swp_inj {x y s t : Nat} (h : swp x y s = swp x y t) : s = t := by
  have := congrArg (swp x y) h
  rwa [swp_swp, swp_swp] at this

@[simp] theorem swp_left (x y : Nat) : swp x y x = y := by simp [swp]
@[simp] theorem swp_right (x y : Nat) : swp x y y = x := by
  unfold swp; split <;> simp_all
theorem swp_other {x y s : Nat} (h1 : s ≠ x) (h2 : s ≠ y) : swp x y s = s := by simp [swp, h1, h2]

theorem rearrange {a b c d : Nat} (h1 : a ≤ b) (h2 : c ≤ d) : b * c + a * d ≤ a * c + b * d := by
  obtain ⟨k, rfl⟩ := Nat.exists_eq_add_of_le h1
  obtain ⟨m, rfl⟩ := Nat.exists_eq_add_of_le h2
  simp only [Nat.add_mul, Nat.mul_add]
  omega

theorem nodup_split2 {L : List Nat} (hnd : L.Nodup) {x y : Nat} (hx : x ∈ L) (hy : y ∈ L)
    (hxy : x ≠ y) : ∃ L', L.Perm (x :: y :: L') ∧ x ∉ L' ∧ y ∉ L' := by
  have h1 := List.perm_cons_erase hx
  have hy' : y ∈ L.erase x := (List.mem_erase_of_ne (Ne.symm hxy)).mpr hy
  have h2 := List.perm_cons_erase hy'
  refine ⟨(L.erase x).erase y, h1.trans (List.Perm.cons _ h2), ?_, ?_⟩
  · intro h
    have := (List.Nodup.mem_erase_iff (hnd.erase x)).mp h
    have := (List.Nodup.mem_erase_iff hnd).mp this.2
    exact this.1 rfl
  · intro h
    have := (List.Nodup.mem_erase_iff (hnd.erase x)).mp h
    exact this.1 rfl

namespace Tree

/-- relabel the leaves -/
def map (σ : Nat → Nat) : Tree → Tree
  | leaf a => leaf (σ a)
  | node i l r => node i (map σ l) (map σ r)

theorem leaves_map (σ : Nat → Nat) : ∀ (t : Tree), (map σ t).leaves = t.leaves.map σ
  | leaf a => by simp [map, leaves]
  | node _ l r => by simp [map, leaves, leaves_map σ l, leaves_map σ r]

theorem height_map (σ : Nat → Nat) : ∀ (t : Tree), (map σ t).height = t.height
  | leaf a => by simp [map, height]
  | node _ l r => by simp [map, height, height_map σ l, height_map σ r]

theorem weight_cost_map (w σ : Nat → Nat) : ∀ (t : Tree),
    weight w (map σ t) = weight (fun s => w (σ s)) t ∧ cost w (map σ t) = cost (fun s => w (σ s)) t
  | leaf a => by simp [map, weight, cost]
  | node _ l r => by
    have hl := weight_cost_map w σ l
    have hr := weight_cost_map w σ r
    simp [map, weight, cost, hl.1, hl.2, hr.1, hr.2]

theorem code_map {σ : Nat → Nat} (hσ : ∀ s t, σ s = σ t → s = t) (s : Nat) :
    ∀ (t : Tree), (map σ t).code (σ s) = t.code s
  | leaf a => by
    simp only [map, code]
    by_cases h : a = s
    · simp [h]
    · have : σ a ≠ σ s := fun e => h (hσ _ _ e)
      simp [h, this]
  | node _ l r => by simp [map, code, code_map hσ s l, code_map hσ s r]

theorem depth_map {σ : Nat → Nat} (hσ : ∀ s t, σ s = σ t → s = t) (s : Nat) (t : Tree) :
    (map σ t).depth (σ s) = t.depth s := by
  simp [depth, code_map hσ s t]

theorem sib_map (σ : Nat → Nat) {a b : Nat} : ∀ (t : Tree), sib a b t → sib (σ a) (σ b) (map σ t)
  | leaf _, h => by simp [sib] at h
  | node _ l r, h => by
    simp only [sib] at h
    simp only [map, sib]
    rcases h with ⟨rfl, rfl⟩ | ⟨rfl, rfl⟩ | h | h
    · left; simp [map]
    · right; left; simp [map]
    · right; right; left; exact sib_map σ l h
    · right; right; right; exact sib_map σ r h

theorem sib_symm {a b : Nat} : ∀ (t : Tree), sib a b t → sib b a t
  | leaf _, h => by simp [sib] at h
  | node _ l r, h => by
    simp only [sib] at h ⊢
    rcases h with h | h | h | h
    · right; left; exact h
    · left; exact h
    · right; right; left; exact sib_symm l h
    · right; right; right; exact sib_symm r h

theorem sib_perm {a b : Nat} : ∀ (t : Tree), sib a b t → ∃ R, t.leaves.Perm (a :: b :: R)
  | leaf _, h => by simp [sib] at h
  | node _ l r, h => by
    simp only [sib] at h
    rcases h with ⟨rfl, rfl⟩ | ⟨rfl, rfl⟩ | h | h
    · exact ⟨[], by simp [leaves]⟩
    · exact ⟨[], by simpa [leaves] using List.Perm.swap _ _ _⟩
    · obtain ⟨R, hR⟩ := sib_perm l h
      exact ⟨R ++ r.leaves, by simpa [leaves] using hR.append_right r.leaves⟩
    · obtain ⟨R, hR⟩ := sib_perm r h
      refine ⟨l.leaves ++ R, ?_⟩
      simp only [leaves]
      refine (hR.append_left l.leaves).trans ?_
      exact List.perm_middle.trans (List.Perm.cons _ List.perm_middle)

theorem sib_facts {a b : Nat} {t : Tree} (h : sib a b t) (hnd : t.leaves.Nodup) :
    a ∈ t.leaves ∧ b ∈ t.leaves ∧ a ≠ b := by
  obtain ⟨R, hR⟩ := sib_perm t h
  have hnd' := hR.nodup_iff.mp hnd
  refine ⟨hR.mem_iff.mpr (by simp), hR.mem_iff.mpr (by simp), ?_⟩
  simp only [List.nodup_cons, List.mem_cons, not_or] at hnd'
  exact hnd'.1.1

theorem height_eq_zero : ∀ (t : Tree), t.height = 0 → ∃ a, t = leaf a
  | leaf a, _ => ⟨a, rfl⟩
  | node _ l r, h => by simp [height] at h

/-- there is a pair of sibling leaves on the deepest level -/
theorem exists_deepest_sib : ∀ (t : Tree), t.leaves.Nodup → 1 ≤ t.height →
    ∃ c d, sib c d t ∧ t.depth c = t.height ∧ t.depth d = t.height
  | leaf a, _, h => by simp [height] at h
  | node i l r, hnd, _ => by
    have hnd0 := hnd
    simp only [leaves] at hnd
    rw [List.nodup_append] at hnd
    obtain ⟨hl, hr, hdis⟩ := hnd
    by_cases h0 : l.height = 0 ∧ r.height = 0
    · obtain ⟨c, rfl⟩ := height_eq_zero l h0.1
      obtain ⟨d, rfl⟩ := height_eq_zero r h0.2
      have hcd : d ∉ (leaf c).leaves := fun h => hdis d h d (by simp [leaves]) rfl
      refine ⟨c, d, by simp [sib], ?_, ?_⟩
      · rw [depth_node_left (by simp [leaves])]; simp [depth, code, height]
      · rw [depth_node_right hcd (by simp [leaves])]; simp [depth, code, height]
    · by_cases hlr : r.height ≤ l.height
      · obtain ⟨c, d, hs, hc, hd⟩ := exists_deepest_sib l hl (by omega)
        obtain ⟨hcm, hdm, _⟩ := sib_facts hs hl
        refine ⟨c, d, by simp [sib, hs], ?_, ?_⟩
        · rw [depth_node_left hcm, hc]; simp [height]; omega
        · rw [depth_node_left hdm, hd]; simp [height]; omega
      · obtain ⟨c, d, hs, hc, hd⟩ := exists_deepest_sib r hr (by omega)
        obtain ⟨hcm, hdm, _⟩ := sib_facts hs hr
        have hcl : c ∉ l.leaves := fun h => hdis c h c hcm rfl
        have hdl : d ∉ l.leaves := fun h => hdis d h d hdm rfl
        refine ⟨c, d, by simp [sib, hs], ?_, ?_⟩
        · rw [depth_node_right hcl hcm, hc]; simp [height]; omega
        · rw [depth_node_right hdl hdm, hd]; simp [height]; omega

/-- relabelling by a transposition of two leaves permutes the leaves -/
theorem leaves_map_swp {t : Tree} (hnd : t.leaves.Nodup) {x y : Nat} (hx : x ∈ t.leaves)
    (hy : y ∈ t.leaves) : (map (swp x y) t).leaves.Perm t.leaves := by
  rw [leaves_map]
  have hnd' : (t.leaves.map (swp x y)).Nodup :=
    List.Pairwise.map (swp x y) (fun a b hab e => hab (swp_inj e)) hnd
  rw [List.perm_ext_iff_of_nodup hnd' hnd]
  intro s
  simp only [List.mem_map]
  constructor
  · rintro ⟨u, hu, rfl⟩
    unfold swp; split
    · exact hy
    · split
      · exact hx
      · exact hu
  · intro hs
    refine ⟨swp x y s, ?_, swp_swp x y s⟩
    unfold swp; split
    · exact hy
    · split
      · exact hx
      · exact hs

/-- exchanging a light shallow leaf with a heavy deep one does not increase the cost -/
theorem cost_swp_le (w : Nat → Nat) {t : Tree} (hnd : t.leaves.Nodup) {x y : Nat}
    (hx : x ∈ t.leaves) (hy : y ∈ t.leaves) (hw : w x ≤ w y) (hd : t.depth x ≤ t.depth y) :
    cost w (map (swp x y) t) ≤ cost w t := by
  rw [(weight_cost_map w (swp x y) t).2]
  by_cases hxy : x = y
  · subst hxy
    have : (fun s => w (swp x x s)) = w := by
      funext s; unfold swp; split <;> simp_all
    rw [this]; exact Nat.le_refl _
  · rw [cost_eq_sum _ t hnd, cost_eq_sum _ t hnd]
    obtain ⟨L', hp, hx', hy'⟩ := nodup_split2 hnd hx hy hxy
    rw [(hp.map _).sum_nat, (hp.map _).sum_nat]
    simp only [List.map_cons, List.sum_cons, swp_left, swp_right]
    have : L'.map (fun s => w (swp x y s) * t.depth s) = L'.map (fun s => w s * t.depth s) := by
      apply List.map_congr_left
      intro s hs
      rw [swp_other (fun e : s = x => hx' (by rw [← e]; exact hs))
        (fun e : s = y => hy' (by rw [← e]; exact hs))]
    rw [this]
    have := rearrange hw hd
    omega

/-- **sibling lemma** -/
theorem exists_sib_le (w : Nat → Nat) {t : Tree} (hnd : t.leaves.Nodup) {a b : Nat}
    (ha : a ∈ t.leaves) (hb : b ∈ t.leaves) (hab : a ≠ b)
    (hmina : ∀ x ∈ t.leaves, w a ≤ w x) (hminb : ∀ x ∈ t.leaves, x ≠ a → w b ≤ w x) :
    ∃ t', t'.leaves.Perm t.leaves ∧ sib a b t' ∧ cost w t' ≤ cost w t := by
  have hh : 1 ≤ t.height := by
    cases hz : t.height with
    | zero =>
      obtain ⟨c, rfl⟩ := height_eq_zero t hz
      simp [leaves] at ha hb
      omega
    | succ k => omega
  -- step 1: bring `a` into a deepest sibling pair
  have step1 : ∃ t1 d1, t1.leaves.Perm t.leaves ∧ sib a d1 t1 ∧ cost w t1 ≤ cost w t ∧
      t1.depth d1 = t1.height := by
    obtain ⟨c, d, hs, hc, hd⟩ := exists_deepest_sib t hnd hh
    obtain ⟨hcm, hdm, hcd⟩ := sib_facts hs hnd
    by_cases hac : a = c
    · subst hac; exact ⟨t, d, List.Perm.refl _, hs, Nat.le_refl _, hd⟩
    · by_cases had : a = d
      · subst had; exact ⟨t, c, List.Perm.refl _, sib_symm t hs, Nat.le_refl _, hc⟩
      · refine ⟨map (swp a c) t, d, leaves_map_swp hnd ha hcm, ?_, ?_, ?_⟩
        · have := sib_map (swp a c) t hs
          rwa [swp_right, swp_other (Ne.symm had) (Ne.symm hcd)] at this
        · exact cost_swp_le w hnd ha hcm (hmina c hcm) (by
            rw [hc]; exact depth_le_height t a)
        · have := depth_map (σ := swp a c) (fun s t => swp_inj) d t
          rw [swp_other (Ne.symm had) (Ne.symm hcd)] at this
          rw [this, height_map, hd]
  obtain ⟨t1, d1, hp1, hs1, hc1, hd1⟩ := step1
  have hnd1 : t1.leaves.Nodup := hp1.nodup_iff.mpr hnd
  obtain ⟨ha1, hd1m, had1⟩ := sib_facts hs1 hnd1
  -- step 2: bring `b` next to `a`
  by_cases hbd : b = d1
  · subst hbd; exact ⟨t1, hp1, hs1, hc1⟩
  · have hb1 : b ∈ t1.leaves := hp1.mem_iff.mpr hb
    refine ⟨map (swp b d1) t1, (leaves_map_swp hnd1 hb1 hd1m).trans hp1, ?_, ?_⟩
    · have := sib_map (swp b d1) t1 hs1
      rwa [swp_right, swp_other hab had1] at this
    · refine Nat.le_trans (cost_swp_le w hnd1 hb1 hd1m ?_ ?_) hc1
      · exact hminb d1 (hp1.mem_iff.mp hd1m) (Ne.symm had1)
      · rw [hd1]; exact depth_le_height t1 b

end Tree

end CV.Huff
