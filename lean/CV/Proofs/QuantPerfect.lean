import CV.Model.QuantFloatReplica
import CV.Proofs.QuantFast
/-!
# First pass of `perfectly_quantized_probabilities` never faults (tables of at most `2^P` entries)

The only arithmetic of the first pass that could overflow is `weight = current_free_weight + 1`
and `remaining_free_weight - current_free_weight`; both are guarded by the *integer* clamp
`min(.., remaining_free_weight)`, so the statement holds whatever the floating point operations
return (it is proved for the native-float replica without a single fact about floats).  For
tables longer than `2^P` the free weight wraps and later phases of the real code panic; those
inputs are rejected or fail cleanly, which C19 permits.
-/
namespace CV.Quant

/-- the first pass of `perfectly_quantized_probabilities` (`perfectPre.go`) cannot fault while the
    remaining free weight is at most `2^B - 2` -/
theorem perfectPre_go_no_fault {F : Type} (toF64 : F → Float) (B : Nat) (scale : Float) :
    ∀ (probs : List F) (remaining : Nat), remaining + 2 ≤ 2 ^ B →
      perfectPre.go toF64 B scale remaining probs = .proceeds := by
  intro probs
  induction probs with
  | nil => intro r _; rfl
  | cons p rest ih =>
    intro r hr
    unfold perfectPre.go
    simp only
    have hle : min (f64Ops.toUInt B (toF64 p * scale)) r ≤ r := Nat.min_le_right _ _
    rw [if_neg (by omega)]
    exact ih _ (by omega)


theorem freeWeight_le {B P n : Nat} (hPB : P ≤ B) (h2 : 2 ≤ n) (hn : n ≤ 2 ^ P) (hnB : n < 2 ^ B) :
    freeWeight B P n + 2 ≤ 2 ^ B := by
  unfold freeWeight wsub wrappingPow2 narrow
  have hpow : 2 ^ P ≤ 2 ^ B := Nat.pow_le_pow_right (by decide) hPB
  have hmod : n % 2 ^ B = n := Nat.mod_eq_of_lt hnB
  rw [hmod, hmod]
  by_cases hP : P ≥ B
  · rw [if_pos hP]
    have : (0 + 2 ^ B - n) % 2 ^ B = 2 ^ B - n := by
      rw [Nat.zero_add]; exact Nat.mod_eq_of_lt (by omega)
    rw [this]; omega
  · rw [if_neg hP]
    have hlt : 2 ^ P < 2 ^ B := Nat.pow_lt_pow_right (by decide) (by omega)
    have : (2 ^ P + 2 ^ B - n) % 2 ^ B = 2 ^ P - n := by
      have e : 2 ^ P + 2 ^ B - n = (2 ^ P - n) + 2 ^ B := by omega
      rw [e, Nat.add_mod_right]; exact Nat.mod_eq_of_lt (by omega)
    rw [this]; omega

/-- **the first pass of `…_perfect` never faults for tables of at most `2^P` entries** (whatever
    the floats do: the clamp to the remaining free weight is an integer operation) -/
theorem perfectPre_no_fault {F : Type} (o : FOps F) (toF64 : F → Float) {B P : Nat} (hPB : P ≤ B)
    (probs : List F) (hn : probs.length ≤ 2 ^ P) :
    perfectPre o toF64 B P probs = .rejected ∨ perfectPre o toF64 B P probs = .proceeds := by
  unfold perfectPre
  simp only
  split
  · exact Or.inl rfl
  · rename_i h1
    split
    · exact Or.inl rfl
    · split
      · exact Or.inl rfl
      · split
        · exact Or.inl rfl
        · right
          have h2 : 2 ≤ probs.length ∧ probs.length ≤ 2 ^ B - 1 := by
            simp only [Bool.or_eq_true, decide_eq_true_eq, not_or, Nat.not_lt, Nat.not_lt] at h1
            omega
          have hB := Nat.two_pow_pos B
          exact perfectPre_go_no_fault toF64 B _ probs _ (freeWeight_le hPB h2.1 hn (by omega))

end CV.Quant
