import CV.Proofs.BitsExpGolomb
/-!
# Histories: the coders refine "a list of bits" under arbitrary interleavings of operations

* `Src.Refines`: a bit source (what a `DecoderCodebook` sees) behaves like a list;
  the stack coder, the queue decoder and lists are instances.
* `DecBook.Lawful`: a decoder codebook that only uses its source through `next`; the
  Exp-Golomb codebook is lawful.
* `Stack.step` / `Stack.spec`, `Queue.step` / `Queue.spec`, `QDecoder.step` / `QDecoder.spec`:
  one operation on the Impl model / on the list Spec; `run_refines`: any operation sequence
  produces the same outputs on both (induction over the operation list).
-/
set_option linter.unusedSimpArgs false
set_option linter.unusedVariables false
set_option linter.unnecessarySimpa false
namespace CV.Bits

/-! ## bit sources -/

structure Src.Refines {σ : Type} (src : Src σ) (I : σ → Prop) (view : σ → List Bool) : Prop where
  inv : ∀ s, I s → I (src.next s).2
  out : ∀ s, I s → (src.next s).1 = (view s).head?
  view : ∀ s, I s → view (src.next s).2 = (view s).tail

theorem listSrc_refines : Src.Refines listSrc (fun _ => True) id where
  inv := fun _ _ => trivial
  out := fun s _ => by cases s <;> rfl
  view := fun s _ => by cases s <;> rfl

/-- the stack coder as a source: the bits in pop order -/
theorem stackSrc_refines {W : Nat} (hW : 1 ≤ W) :
    Src.Refines (stackSrc W) (Inv W) (fun c => (bits W c).reverse) where
  inv := fun _ hI => readBit_inv hW hI
  out := fun c hI => by
    show (readBit W c).1 = _
    rw [readBit_fst hW hI, List.head?_reverse]
  view := fun c hI => by
    show (bits W (readBit W c).2).reverse = _
    rw [readBit_bits hW hI, List.tail_reverse]

theorem queueSrc_refines {W : Nat} (hW : 1 ≤ W) :
    Src.Refines (queueSrc W) (QDecoder.Inv W) (QDecoder.bits W) where
  inv := fun _ hI => (QDecoder.readBit_spec hW hI).2.1
  out := fun _ hI => (QDecoder.readBit_spec hW hI).1
  view := fun _ hI => (QDecoder.readBit_spec hW hI).2.2

/-- result of a decoder run, seen through the abstraction -/
def viewRes {σ α : Type} (view : σ → List Bool) (r : M (σ × α)) : M (List Bool × α) :=
  match r with
  | .error e => .error e
  | .ok (s, a) => .ok (view s, a)

/-- a decoder codebook that uses its source only through `next`, whose result does not depend
    on surplus fuel -/
structure DecBook.Lawful {Sym : Type} (bk : DecBook Sym) : Prop where
  refines : ∀ {σ : Type} (src : Src σ) (I : σ → Prop) (view : σ → List Bool),
    Src.Refines src I view → ∀ (f : Nat) (s : σ), I s →
      viewRes view (bk.decode src f s) = bk.decode listSrc f (view s) ∧
      (∀ s' r, bk.decode src f s = .ok (s', r) → I s')
  fuel : ∀ (l : List Bool) (f f' : Nat), l.length < f → l.length < f' →
    bk.decode listSrc f l = bk.decode listSrc f' l

namespace EG

theorem countZeros_refines {σ : Type} {src : Src σ} {I : σ → Prop} {view : σ → List Bool}
    (R : Src.Refines src I view) : ∀ (f : Nat) (s : σ) (n : Nat), I s →
      viewRes view (countZeros src f s n) = countZeros listSrc f (view s) n ∧
      (∀ s' r, countZeros src f s n = .ok (s', r) → I s')
  | 0, s, n, _ => by simp [countZeros, viewRes]
  | f + 1, s, n, hI => by
    have ho := R.out s hI
    have hv := R.view s hI
    have hi := R.inv s hI
    cases hnx : src.next s with
    | mk o s1 =>
      rw [hnx] at ho hv hi
      simp only at ho hv hi
      cases hvs : view s with
      | nil =>
        rw [hvs] at ho hv
        simp only [List.head?_nil, List.tail_nil] at ho hv
        subst ho
        simp only [countZeros, hnx, listSrc_next_nil, viewRes, hv]
        refine ⟨trivial, ?_⟩
        intro s' r h
        simp only [Except.ok.injEq, Prod.mk.injEq] at h
        rw [← h.1]; exact hi
      | cons b t =>
        rw [hvs] at ho hv
        simp only [List.head?_cons, List.tail_cons] at ho hv
        subst ho
        cases b with
        | true =>
          simp only [countZeros, hnx, listSrc_next_cons, viewRes, hv]
          refine ⟨trivial, ?_⟩
          intro s' r h
          simp only [Except.ok.injEq, Prod.mk.injEq] at h
          rw [← h.1]; exact hi
        | false =>
          simp only [countZeros, hnx, listSrc_next_cons]
          cases hc : cadd "eg.dec.len" 32 n 1 with
          | error e => simp [viewRes]
          | ok n' =>
            have ih := countZeros_refines R f s1 n' hi
            simp only []
            rw [← hv]
            exact ih

theorem readBits_refines {σ : Type} {src : Src σ} {I : σ → Prop} {view : σ → List Bool}
    (R : Src.Refines src I view) (N : Nat) : ∀ (k : Nat) (s : σ) (a : Nat), I s →
      I (readBits src N k s a).1 ∧
      readBits listSrc N k (view s) a = (view (readBits src N k s a).1, (readBits src N k s a).2)
  | 0, s, a, hI => by simp [readBits, hI]
  | k + 1, s, a, hI => by
    have ho := R.out s hI
    have hv := R.view s hI
    have hi := R.inv s hI
    cases hnx : src.next s with
    | mk o s1 =>
      rw [hnx] at ho hv hi
      simp only at ho hv hi
      cases hvs : view s with
      | nil =>
        rw [hvs] at ho hv
        simp only [List.head?_nil, List.tail_nil] at ho hv
        subst ho
        simp only [readBits, hnx, listSrc_next_nil, hv]
        exact ⟨hi, trivial⟩
      | cons b t =>
        rw [hvs] at ho hv
        simp only [List.head?_cons, List.tail_cons] at ho hv
        subst ho
        simp only [readBits, hnx, listSrc_next_cons]
        have ih := readBits_refines R N k s1 (((a <<< 1) % 2^N) ||| (if b then 1 else 0)) hi
        rw [← hv]
        exact ih

theorem decode_refines {σ : Type} {src : Src σ} {I : σ → Prop} {view : σ → List Bool}
    (R : Src.Refines src I view) (N f : Nat) (s : σ) (hI : I s) :
      viewRes view (decode N src f s) = decode N listSrc f (view s) ∧
      (∀ s' r, decode N src f s = .ok (s', r) → I s') := by
  have hc := countZeros_refines R f s 0 hI
  unfold decode
  cases hcz : countZeros src f s 0 with
  | error e =>
    rw [hcz] at hc
    simp only [viewRes] at hc
    simp [← hc.1, viewRes]
  | ok p =>
    obtain ⟨s1, o⟩ := p
    rw [hcz] at hc
    simp only [viewRes] at hc
    have hI1 : I s1 := hc.2 s1 o rfl
    rw [← hc.1]
    cases o with
    | none =>
      simp only [viewRes]
      refine ⟨trivial, ?_⟩
      intro s' r h
      simp only [Except.ok.injEq, Prod.mk.injEq] at h
      rw [← h.1]; exact hI1
    | some len =>
      simp only []
      by_cases hgt : len > N
      · simp only [hgt, if_true, viewRes]
        refine ⟨trivial, ?_⟩
        intro s' r h
        simp only [Except.ok.injEq, Prod.mk.injEq] at h
        rw [← h.1]; exact hI1
      · simp only [hgt, if_false]
        have hr := readBits_refines R N len s1 1 hI1
        rw [hr.2]
        cases hrb : readBits src N len s1 1 with
        | mk s2 o2 =>
          rw [hrb] at hr
          simp only at hr
          cases o2 with
          | none =>
            simp only [viewRes]
            refine ⟨trivial, ?_⟩
            intro s' r h
            simp only [Except.ok.injEq, Prod.mk.injEq] at h
            rw [← h.1]; exact hr.1
          | some np1 =>
            simp only []
            by_cases hbad : len = N ∧ np1 ≠ 0
            · rw [if_pos hbad, if_pos hbad]
              simp only [viewRes]
              refine ⟨trivial, ?_⟩
              intro s' r h
              simp only [Except.ok.injEq, Prod.mk.injEq] at h
              rw [← h.1]; exact hr.1
            · rw [if_neg hbad, if_neg hbad]
              simp only [viewRes]
              refine ⟨trivial, ?_⟩
              intro s' r h
              simp only [Except.ok.injEq, Prod.mk.injEq] at h
              rw [← h.1]; exact hr.1

theorem countZeros_fuel : ∀ (l : List Bool) (f f' n : Nat), l.length < f → l.length < f' →
    countZeros listSrc f l n = countZeros listSrc f' l n
  | [], f + 1, f' + 1, n, _, _ => by simp [countZeros, listSrc_next_nil]
  | true :: t, f + 1, f' + 1, n, _, _ => by simp [countZeros, listSrc_next_cons]
  | false :: t, f + 1, f' + 1, n, h, h' => by
    simp only [countZeros, listSrc_next_cons]
    cases cadd "eg.dec.len" 32 n 1 with
    | error e => rfl
    | ok n' =>
      exact countZeros_fuel t f f' n' (by simpa using h) (by simpa using h')

theorem decode_fuel (N : Nat) (l : List Bool) (f f' : Nat) (h : l.length < f) (h' : l.length < f') :
    decode N listSrc f l = decode N listSrc f' l := by
  unfold decode
  rw [countZeros_fuel l f f' 0 h h']

/-- the Exp-Golomb decoder codebook is lawful -/
theorem decBook_lawful (N : Nat) : (decBook N).Lawful where
  refines := fun _ _ _ R f s hI => decode_refines R N f s hI
  fuel := fun l f f' h h' => decode_fuel N l f f' h h'

end EG

/-! ## operations and histories -/

inductive Out where
  | unit
  | bit (o : Option Bool)
  | nat (n : Nat)
  | bool (b : Bool)
  | words (ws : List Nat)
  | bitList (l : List Bool)
  | sym (r : Except SymErr Nat)
  | fault
  deriving DecidableEq

def Out.isFault : Out → Bool
  | .fault => true
  | _ => false

universe u

/-- run a history; a fault (panic) ends it -/
def run {σ : Type} {Op : Type u} (step : Op → σ → Out × σ) : List Op → σ → List Out × σ
  | [], s => ([], s)
  | op :: ops, s =>
    let r := step op s
    if r.1.isFault then ([r.1], r.2) else ((r.1 :: (run step ops r.2).1), (run step ops r.2).2)

/-- the canonical coder holding the bits `l` -/
def canon (W : Nat) (l : List Bool) : Coder := writeBits W empty l

theorem canon_spec {W : Nat} (hW : 1 ≤ W) (l : List Bool) :
    Inv W (canon W l) ∧ bits W (canon W l) = l := by
  have := writeBits_spec hW l (inv_empty W)
  simpa [canon] using this

/-- operations on a `StackCoder` -/
inductive SOp where
  | write (b : Bool)
  | read
  | len
  | isEmpty
  | getCompressed
  | iter
  | reimport
  /-- `encode_symbol` with a codebook whose `encode_symbol_suffix` emits `r` -/
  | encode (r : M (List Bool))
  | decode (bk : DecBook Nat)

def SOp.Lawful : SOp → Prop
  | .decode bk => bk.Lawful
  | _ => True

def Stack.step (W : Nat) : SOp → Coder → Out × Coder
  | .write b, c => (.unit, writeBit W c b)
  | .read, c => (.bit (readBit W c).1, (readBit W c).2)
  | .len, c => match len W c with
    | .ok n => (.nat n, c)
    | .error _ => (.fault, c)
  | .isEmpty, c => (.bool (isEmpty c), c)
  | .getCompressed, c => match Stack.getCompressed W c with
    | .ok (ws, c') => (.words ws, c')
    | .error _ => (.fault, c)
  | .iter, c => match Stack.iter W c with
    | .ok l => (.bitList l, c)
    | .error _ => (.fault, c)
  | .reimport, c => match Stack.fromCompressed W (Stack.intoCompressed W c) with
    | .ok c' => (.words (Stack.intoCompressed W c), c')
    | .error _ => (.fault, c)
  | .encode r, c => match r with
    | .ok bs => (.unit, writeBits W c bs)
    | .error _ => (.fault, c)
  | .decode bk, c => match Stack.decodeSymbol W bk c with
    | .ok (c', r) => (.sym r, c')
    | .error _ => (.fault, c)

/-- the Spec: a list used as a stack (top = last element).  The words shown by the guard / by
    the export are those of the canonical coder for the same bits; their format is pinned down
    separately by `stack_export_format`. -/
def Stack.spec (W : Nat) : SOp → List Bool → Out × List Bool
  | .write b, l => (.unit, l ++ [b])
  | .read, l => (.bit l.getLast?, l.dropLast)
  | .len, l => (if l.length < 2^64 then .nat l.length else .fault, l)
  | .isEmpty, l => (.bool l.isEmpty, l)
  | .getCompressed, l => (.words (Stack.intoCompressed W (canon W l)), l)
  | .iter, l => (.bitList l.reverse, l)
  | .reimport, l => (.words (Stack.intoCompressed W (canon W l)), l)
  | .encode r, l => match r with
    | .ok bs => (.unit, l ++ bs)
    | .error _ => (.fault, l)
  | .decode bk, l => match bk.decode listSrc (l.length + 1) l.reverse with
    | .ok (rest, r) => (.sym r, rest.reverse)
    | .error _ => (.fault, l)

/-- the exported words depend only on the bits -/
theorem stack_export_factors {W : Nat} (hW : 1 ≤ W) {c₁ c₂ : Coder} (h₁ : Inv W c₁) (h₂ : Inv W c₂)
    (h : bits W c₁ = bits W c₂) : Stack.intoCompressed W c₁ = Stack.intoCompressed W c₂ := by
  obtain ⟨p₁, _, hf₁, hw₁, _, _, hl₁⟩ := stack_export_format hW h₁
  obtain ⟨p₂, _, hf₂, hw₂, _, _, hl₂⟩ := stack_export_format hW h₂
  have hlen : (Stack.intoCompressed W c₁).length = (Stack.intoCompressed W c₂).length := by
    rw [hl₁, hl₂, h]
  have hp : p₁ = p₂ := by
    have e₁ := congrArg List.length hf₁
    have e₂ := congrArg List.length hf₂
    rw [wordBits_length] at e₁ e₂
    simp only [List.length_append, List.length_cons, List.length_nil, List.length_replicate] at e₁ e₂
    rw [h] at e₁
    rw [hlen] at e₁
    omega
  apply wordBits_injective hlen hw₁ hw₂
  rw [hf₁, hf₂, h, hp]

theorem queue_export_factors {W : Nat} (hW : 1 ≤ W) {c₁ c₂ : Coder} (h₁ : Inv W c₁) (h₂ : Inv W c₂)
    (h : bits W c₁ = bits W c₂) : Queue.intoCompressed c₁ = Queue.intoCompressed c₂ := by
  obtain ⟨p₁, _, hf₁, hw₁, hl₁⟩ := queue_export_format hW h₁
  obtain ⟨p₂, _, hf₂, hw₂, hl₂⟩ := queue_export_format hW h₂
  have hlen : (Queue.intoCompressed c₁).length = (Queue.intoCompressed c₂).length := by
    rw [hl₁, hl₂, h]
  have hp : p₁ = p₂ := by
    have e₁ := congrArg List.length hf₁
    have e₂ := congrArg List.length hf₂
    rw [wordBits_length] at e₁ e₂
    simp only [List.length_append, List.length_replicate] at e₁ e₂
    rw [h] at e₁
    rw [hlen] at e₁
    omega
  apply wordBits_injective hlen hw₁ hw₂
  rw [hf₁, hf₂, h, hp]

theorem Stack.step_refines {W : Nat} (hW : 1 ≤ W) (op : SOp) (hop : op.Lawful) {c : Coder}
    (hI : Inv W c) :
    (Stack.step W op c).1 = (Stack.spec W op (bits W c)).1 ∧ Inv W (Stack.step W op c).2 ∧
      bits W (Stack.step W op c).2 = (Stack.spec W op (bits W c)).2 := by
  cases op with
  | write b => exact ⟨rfl, writeBit_inv hW hI b, writeBit_bits hW hI b⟩
  | read =>
    have h := readBit_spec hW hI
    exact ⟨by simp [Stack.step, Stack.spec, h.1], h.2.1, h.2.2⟩
  | len =>
    by_cases h : (bits W c).length < 2^64
    · simp [Stack.step, Stack.spec, len_spec c h, h, hI]
    · obtain ⟨f, hf⟩ := len_overflow c h
      simp [Stack.step, Stack.spec, hf, h, hI]
  | isEmpty =>
    refine ⟨?_, hI, rfl⟩
    simp only [Stack.step, Stack.spec, Out.bool.injEq]
    have := isEmpty_iff hW hI
    cases h1 : isEmpty c <;> cases h2 : (bits W c).isEmpty <;> simp_all
  | getCompressed =>
    obtain ⟨c', hg, hI', hb'⟩ := stack_guard_noop hW hI
    have hc := canon_spec hW (bits W c)
    simp only [Stack.step, Stack.spec, hg]
    exact ⟨by rw [stack_export_factors hW hI hc.1 hc.2.symm], hI', hb'⟩
  | iter =>
    simp [Stack.step, Stack.spec, iter_spec hW hI, hI]
  | reimport =>
    obtain ⟨c', hg, hI', hb'⟩ := stack_export_import_bits hW hI
    have hc := canon_spec hW (bits W c)
    simp only [Stack.step, Stack.spec, hg]
    exact ⟨by rw [stack_export_factors hW hI hc.1 hc.2.symm], hI', hb'⟩
  | encode r =>
    cases r with
    | error e => exact ⟨rfl, hI, rfl⟩
    | ok bs =>
      have h := writeBits_spec hW bs hI
      exact ⟨rfl, h.1, h.2⟩
  | decode bk =>
    have hL : bk.Lawful := hop
    have hR := hL.refines (stackSrc W) (Inv W) (fun c => (bits W c).reverse)
      (stackSrc_refines hW) (Stack.fuel W c) c hI
    have hfuel := hL.fuel (bits W c).reverse (Stack.fuel W c) ((bits W c).length + 1)
      (by simpa using fuel_gt hI) (by simp)
    simp only [Stack.step, Stack.spec, Stack.decodeSymbol]
    rw [← hfuel, ← hR.1]
    cases hd : bk.decode (stackSrc W) (Stack.fuel W c) c with
    | error e => simp [viewRes, hI]
    | ok p =>
      obtain ⟨c', r⟩ := p
      simp only [viewRes, List.reverse_reverse]
      exact ⟨trivial, hR.2 c' r hd, trivial⟩

theorem run_refines {σ τ : Type} {Op : Type u} (stepI : Op → σ → Out × σ) (stepS : Op → τ → Out × τ)
    (I : σ → Prop) (abs : σ → τ) (P : Op → Prop)
    (hstep : ∀ op, P op → ∀ s, I s →
      (stepI op s).1 = (stepS op (abs s)).1 ∧ I (stepI op s).2 ∧ abs (stepI op s).2 = (stepS op (abs s)).2) :
    ∀ (ops : List Op), (∀ op ∈ ops, P op) → ∀ s, I s →
      (run stepI ops s).1 = (run stepS ops (abs s)).1 ∧ I (run stepI ops s).2 ∧
        abs (run stepI ops s).2 = (run stepS ops (abs s)).2
  | [], _, s, hI => ⟨rfl, hI, rfl⟩
  | op :: ops, hP, s, hI => by
    have h := hstep op (hP op (by simp)) s hI
    have ih := run_refines stepI stepS I abs P hstep ops (fun o ho => hP o (by simp [ho]))
      (stepI op s).2 h.2.1
    simp only [run]
    rw [← h.1, ← h.2.2]
    cases hf : (stepI op s).1.isFault
    · simp only [Bool.false_eq_true, if_false]
      exact ⟨by rw [ih.1], ih.2.1, ih.2.2⟩
    · simp only [if_true]
      exact ⟨trivial, h.2.1, trivial⟩

/-- C16 `stack_lifo`, history form: every sequence of operations on a stack coder gives the
    outputs of the same sequence on a plain list of bits -/
theorem stack_run_refines {W : Nat} (hW : 1 ≤ W) (ops : List SOp) (hops : ∀ op ∈ ops, op.Lawful)
    {c : Coder} (hI : Inv W c) :
    (run (Stack.step W) ops c).1 = (run (Stack.spec W) ops (bits W c)).1 ∧
      Inv W (run (Stack.step W) ops c).2 ∧
      bits W (run (Stack.step W) ops c).2 = (run (Stack.spec W) ops (bits W c)).2 :=
  run_refines (Stack.step W) (Stack.spec W) (Inv W) (bits W) SOp.Lawful
    (fun op hop _ hI => Stack.step_refines hW op hop hI) ops hops c hI

/-! ## queue encoder -/

inductive QOp where
  | write (b : Bool)
  | len
  | isEmpty
  | getCompressed
  /-- `into_compressed` followed by `QueueEncoder::from_compressed` on the result -/
  | reexport
  /-- `encode_symbol` with a codebook whose `encode_symbol_prefix` emits `r` -/
  | encode (r : M (List Bool))

def Queue.step (W : Nat) : QOp → Coder → Out × Coder
  | .write b, c => (.unit, writeBit W c b)
  | .len, c => match len W c with
    | .ok n => (.nat n, c)
    | .error _ => (.fault, c)
  | .isEmpty, c => (.bool (isEmpty c), c)
  | .getCompressed, c => (.words (Queue.getCompressed c).1, (Queue.getCompressed c).2)
  | .reexport, c => (.words (Queue.intoCompressed c), Queue.fromCompressed (Queue.intoCompressed c))
  | .encode r, c => match r with
    | .ok bs => (.unit, writeBits W c bs)
    | .error _ => (.fault, c)

/-- zero padding up to the next multiple of `W` -/
def padTo (W : Nat) (l : List Bool) : List Bool := l ++ List.replicate ((W - l.length % W) % W) false

def Queue.spec (W : Nat) : QOp → List Bool → Out × List Bool
  | .write b, l => (.unit, l ++ [b])
  | .len, l => (if l.length < 2^64 then .nat l.length else .fault, l)
  | .isEmpty, l => (.bool l.isEmpty, l)
  | .getCompressed, l => (.words (Queue.intoCompressed (canon W l)), l)
  | .reexport, l => (.words (Queue.intoCompressed (canon W l)), padTo W l)
  | .encode r, l => match r with
    | .ok bs => (.unit, l ++ bs)
    | .error _ => (.fault, l)

/-- the padding of the queue export is the padding to the next word boundary -/
theorem queue_export_padTo {W : Nat} (hW : 1 ≤ W) {c : Coder} (hI : Inv W c) :
    wordBits W (Queue.intoCompressed c) = padTo W (bits W c) := by
  obtain ⟨p, hp, hf, _, _⟩ := queue_export_format hW hI
  rw [hf]
  unfold padTo
  congr 2
  have e := congrArg List.length hf
  rw [wordBits_length] at e
  simp only [List.length_append, List.length_replicate] at e
  generalize (bits W c).length = n at *
  generalize (Queue.intoCompressed c).length = q at *
  -- q * W = n + p with p < W
  have hmod : (n + p) % W = 0 := by rw [← e]; exact Nat.mul_mod_left _ _
  have hnm : n % W < W := Nat.mod_lt _ (by omega)
  rw [Nat.add_mod] at hmod
  have hpm : p % W = p := Nat.mod_eq_of_lt hp
  rw [hpm] at hmod
  by_cases h0 : n % W = 0
  · rw [h0, Nat.zero_add, hpm] at hmod
    simp [h0, hmod]
  · have hs : n % W + p = W := by
      have hlt : n % W + p < 2 * W := by omega
      rcases Nat.lt_or_ge (n % W + p) W with h | h
      · rw [Nat.mod_eq_of_lt h] at hmod; omega
      · have : (n % W + p) % W = n % W + p - W := by
          rw [Nat.mod_eq_sub_mod h, Nat.mod_eq_of_lt (by omega)]
        omega
    have : W - n % W = p := by omega
    rw [this, hpm]

theorem Queue.step_refines {W : Nat} (hW : 1 ≤ W) (op : QOp) {c : Coder} (hI : Inv W c) :
    (Queue.step W op c).1 = (Queue.spec W op (bits W c)).1 ∧ Inv W (Queue.step W op c).2 ∧
      bits W (Queue.step W op c).2 = (Queue.spec W op (bits W c)).2 := by
  cases op with
  | write b => exact ⟨rfl, writeBit_inv hW hI b, writeBit_bits hW hI b⟩
  | len =>
    by_cases h : (bits W c).length < 2^64
    · simp [Queue.step, Queue.spec, len_spec c h, h, hI]
    · obtain ⟨f, hf⟩ := len_overflow c h
      simp [Queue.step, Queue.spec, hf, h, hI]
  | isEmpty =>
    refine ⟨?_, hI, rfl⟩
    simp only [Queue.step, Queue.spec, Out.bool.injEq]
    have := isEmpty_iff hW hI
    cases h1 : isEmpty c <;> cases h2 : (bits W c).isEmpty <;> simp_all
  | getCompressed =>
    have hc := canon_spec hW (bits W c)
    simp only [Queue.step, Queue.spec, queue_guard_noop]
    exact ⟨by rw [queue_export_factors hW hI hc.1 hc.2.symm], hI, trivial⟩
  | reexport =>
    have hc := canon_spec hW (bits W c)
    obtain ⟨_, _, _, hw, _⟩ := queue_export_format hW hI
    have hq := queue_fromCompressed_inv hw
    simp only [Queue.step, Queue.spec]
    exact ⟨by rw [queue_export_factors hW hI hc.1 hc.2.symm], hq.1,
      by rw [hq.2, queue_export_padTo hW hI]⟩
  | encode r =>
    cases r with
    | error e => exact ⟨rfl, hI, rfl⟩
    | ok bs =>
      have h := writeBits_spec hW bs hI
      exact ⟨rfl, h.1, h.2⟩

theorem queue_run_refines {W : Nat} (hW : 1 ≤ W) (ops : List QOp) {c : Coder} (hI : Inv W c) :
    (run (Queue.step W) ops c).1 = (run (Queue.spec W) ops (bits W c)).1 ∧
      Inv W (run (Queue.step W) ops c).2 ∧
      bits W (run (Queue.step W) ops c).2 = (run (Queue.spec W) ops (bits W c)).2 :=
  run_refines (Queue.step W) (Queue.spec W) (Inv W) (bits W) (fun _ => True)
    (fun op _ _ hI => Queue.step_refines hW op hI) ops (fun _ _ => trivial) c hI

/-! ## queue decoder -/

inductive DOp where
  | read
  | decode (bk : DecBook Nat)
  /-- the `Iterator` impl run to the end -/
  | drain
  | clone

def DOp.Lawful : DOp → Prop
  | .decode bk => bk.Lawful
  | _ => True

def QDecoder.step (W : Nat) : DOp → QDecoder → Out × QDecoder
  | .read, d => (.bit (QDecoder.readBit W d).1, (QDecoder.readBit W d).2)
  | .decode bk, d => match QDecoder.decodeSymbol W bk d with
    | .ok (d', r) => (.sym r, d')
    | .error _ => (.fault, d)
  | .drain, d => match QDecoder.iter W d with
    | .ok (l, d') => (.bitList l, d')
    | .error _ => (.fault, d)
  | .clone, d => (.unit, d)

/-- the Spec: a list used as a queue (front = head) -/
def QDecoder.spec : DOp → List Bool → Out × List Bool
  | .read, l => (.bit l.head?, l.tail)
  | .decode bk, l => match bk.decode listSrc (l.length + 1) l with
    | .ok (rest, r) => (.sym r, rest)
    | .error _ => (.fault, l)
  | .drain, l => (.bitList l, [])
  | .clone, l => (.unit, l)

theorem QDecoder.step_refines {W : Nat} (hW : 1 ≤ W) (op : DOp) (hop : op.Lawful) {d : QDecoder}
    (hI : QDecoder.Inv W d) :
    (QDecoder.step W op d).1 = (QDecoder.spec op (QDecoder.bits W d)).1 ∧
      QDecoder.Inv W (QDecoder.step W op d).2 ∧
      QDecoder.bits W (QDecoder.step W op d).2 = (QDecoder.spec op (QDecoder.bits W d)).2 := by
  cases op with
  | read =>
    have h := QDecoder.readBit_spec hW hI
    exact ⟨by simp [QDecoder.step, QDecoder.spec, h.1], h.2.1, h.2.2⟩
  | decode bk =>
    have hL : bk.Lawful := hop
    have hR := hL.refines (queueSrc W) (QDecoder.Inv W) (QDecoder.bits W)
      (queueSrc_refines hW) (QDecoder.fuel W d) d hI
    have hlt : (QDecoder.bits W d).length < QDecoder.fuel W d := by
      have := QDecoder.bits_length_le (W := W) d
      unfold QDecoder.fuel; omega
    have hfuel := hL.fuel (QDecoder.bits W d) (QDecoder.fuel W d) ((QDecoder.bits W d).length + 1)
      hlt (by simp)
    simp only [QDecoder.step, QDecoder.spec, QDecoder.decodeSymbol]
    rw [← hfuel, ← hR.1]
    cases hd : bk.decode (queueSrc W) (QDecoder.fuel W d) d with
    | error e => simp [viewRes, hI]
    | ok p =>
      obtain ⟨d', r⟩ := p
      simp only [viewRes]
      exact ⟨trivial, hR.2 d' r hd, trivial⟩
  | drain =>
    obtain ⟨d', hd, hI', hn⟩ := QDecoder.iter_spec hW hI
    simp only [QDecoder.step, QDecoder.spec, hd]
    exact ⟨trivial, hI', hn⟩
  | clone => exact ⟨rfl, hI, rfl⟩

theorem qdecoder_run_refines {W : Nat} (hW : 1 ≤ W) (ops : List DOp) (hops : ∀ op ∈ ops, op.Lawful)
    {d : QDecoder} (hI : QDecoder.Inv W d) :
    (run (QDecoder.step W) ops d).1 = (run QDecoder.spec ops (QDecoder.bits W d)).1 ∧
      QDecoder.Inv W (run (QDecoder.step W) ops d).2 ∧
      QDecoder.bits W (run (QDecoder.step W) ops d).2 =
        (run QDecoder.spec ops (QDecoder.bits W d)).2 :=
  run_refines (QDecoder.step W) QDecoder.spec (QDecoder.Inv W) (QDecoder.bits W) DOp.Lawful
    (fun op hop _ hI => QDecoder.step_refines hW op hop hI) ops hops d hI

/-- `into_decoder` hands the decoder exactly the padded bits -/
theorem queue_intoDecoder_padTo {W : Nat} (hW : 1 ≤ W) {c : Coder} (hI : Inv W c) :
    QDecoder.Inv W (Queue.intoDecoder c) ∧
      QDecoder.bits W (Queue.intoDecoder c) = padTo W (bits W c) := by
  have hs := QDecoder.fromCompressed_spec W (Queue.intoCompressed c).reverse
  refine ⟨hs.1, ?_⟩
  unfold Queue.intoDecoder
  rw [hs.2, ← queue_export_padTo hW hI]
  rfl

end CV.Bits
