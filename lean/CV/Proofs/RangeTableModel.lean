import CV.Model.TableModel
import CV.Model.RangeTable
import CV.Proofs.RangeMsg
/-!
# The table model handed to the real coders by the harness is well-formed

`CV.tableModel cdf` (Lean twin of `harness/src/rawmodel.rs::TableModel`) satisfies the
coder/model contract `Model.WellFormed P` whenever `cdf` is a strictly increasing list from `0`
to `2^P` with at least two symbols.  `strictCdfB` is the executable check; every table the
range-coder generators emit passes it, so the hypotheses of the coder theorems hold for the
inputs of the correspondence runs.
-/
namespace CV

/-- strictly increasing from `0` to `2^P`, at least two symbols -/
def StrictCdf (P : Nat) (cdf : List Nat) : Prop :=
  3 ≤ cdf.length ∧ cdf.getD 0 0 = 0 ∧ cdf.getD (cdf.length - 1) 0 = 2^P ∧
  ∀ i, i + 1 < cdf.length → cdf.getD i 0 < cdf.getD (i + 1) 0

theorem strictCdf_of_check {P : Nat} {cdf : List Nat} (h : strictCdfB P cdf = true) :
    StrictCdf P cdf := by
  unfold strictCdfB at h
  simp only [Bool.and_eq_true, decide_eq_true_eq, List.all_eq_true, List.mem_range] at h
  obtain ⟨⟨⟨h1, h2⟩, h3⟩, h4⟩ := h
  exact ⟨h1, h2, h3, fun i hi => h4 i (by omega)⟩

theorem StrictCdf.mono {P : Nat} {cdf : List Nat} (h : StrictCdf P cdf) :
    ∀ d i, i + d < cdf.length → cdf.getD i 0 ≤ cdf.getD (i + d) 0 := by
  intro d
  induction d with
  | zero => intro i _; exact Nat.le_refl _
  | succ d ih =>
    intro i hi
    have h1 := ih i (by omega)
    have h2 := h.2.2.2 (i + d) (by omega)
    rw [← Nat.add_assoc]; omega

theorem StrictCdf.le_of_le {P : Nat} {cdf : List Nat} (h : StrictCdf P cdf) {i j : Nat}
    (hij : i ≤ j) (hj : j < cdf.length) : cdf.getD i 0 ≤ cdf.getD j 0 := by
  have := h.mono (j - i) i (by omega)
  rwa [Nat.add_sub_cancel' hij] at this

theorem takeWhile_length {p : Nat → Bool} : ∀ (l : List Nat) (k : Nat), k ≤ l.length →
    (∀ j, j < k → p (l.getD j 0) = true) → (k < l.length → p (l.getD k 0) = false) →
    (l.takeWhile p).length = k := by
  intro l
  induction l with
  | nil => intro k hk _ _; simp at hk; simp [hk]
  | cons a l ih =>
    intro k hk h1 h2
    cases k with
    | zero =>
      have : p a = false := by simpa using h2 (by simp)
      simp [List.takeWhile, this]
    | succ k =>
      have ha : p a = true := by simpa using h1 0 (by omega)
      simp only [List.takeWhile, ha, List.length_cons]
      congr 1
      apply ih k (by simpa using hk)
      · intro j hj
        have := h1 (j + 1) (by omega)
        simpa using this
      · intro hk'
        have := h2 (by simpa using hk')
        simpa using this

theorem tail_getD (cdf : List Nat) (j : Nat) : cdf.tail.getD j 0 = cdf.getD (j + 1) 0 := by
  cases cdf with
  | nil => simp
  | cons a l => simp

/-- for `cdf[s] ≤ q < cdf[s+1]` the search finds `s` -/
theorem tableFind_eq {P : Nat} {cdf : List Nat} (h : StrictCdf P cdf) {s q : Nat}
    (hs : s + 1 < cdf.length) (h1 : cdf.getD s 0 ≤ q) (h2 : q < cdf.getD (s + 1) 0) :
    tableFind cdf q = s := by
  have hlen := h.1
  unfold tableFind
  cases hc : cdf with
  | nil => rw [hc] at hlen; simp at hlen
  | cons a rest =>
    have hrest : rest = cdf.tail := by rw [hc]; rfl
    simp only
    rw [hrest]
    apply takeWhile_length
    · simp only [List.length_tail]; omega
    · intro j hj
      rw [tail_getD]
      have := h.le_of_le (i := j + 1) (j := s) (by omega) (by omega)
      simp only [decide_eq_true_eq]; omega
    · intro _
      rw [tail_getD]
      simp only [decide_eq_false_iff_not]; omega

/-- every `q < 2^P` lies in some symbol's interval -/
theorem exists_interval {P : Nat} {cdf : List Nat} (h : StrictCdf P cdf) {q : Nat} (hq : q < 2^P) :
    ∃ s, s + 1 < cdf.length ∧ cdf.getD s 0 ≤ q ∧ q < cdf.getD (s + 1) 0 := by
  -- the largest index `s` with `cdf[s] ≤ q`, found by induction on a bound
  have key : ∀ n, n + 1 < cdf.length → cdf.getD (n + 1) 0 > q →
      ∃ s, s + 1 < cdf.length ∧ cdf.getD s 0 ≤ q ∧ q < cdf.getD (s + 1) 0 := by
    intro n
    induction n with
    | zero =>
      intro hn hgt
      exact ⟨0, hn, by rw [h.2.1]; omega, hgt⟩
    | succ n ih =>
      intro hn hgt
      by_cases hle : cdf.getD (n + 1) 0 ≤ q
      · exact ⟨n + 1, hn, hle, hgt⟩
      · exact ih (by omega) (by omega)
  have hlen := h.1
  have hlast := h.2.2.1
  have := key (cdf.length - 2) (by omega) (by
    have : cdf.length - 2 + 1 = cdf.length - 1 := by omega
    rw [this, hlast]; exact hq)
  exact this

/-- **the harness's table model honours the coder/model contract** -/
theorem tableModel_wf {P : Nat} {cdf : List Nat} (h : StrictCdf P cdf) :
    (tableModel cdf).WellFormed P := by
  have hlen := h.1
  have hfirst := h.2.1
  have hlast := h.2.2.1
  -- facts about one symbol
  have sym : ∀ s, s + 1 < cdf.length →
      cdf.getD s 0 < cdf.getD (s + 1) 0 ∧ cdf.getD (s + 1) 0 ≤ 2^P ∧
      cdf.getD (s + 1) 0 - cdf.getD s 0 < 2^P := by
    intro s hs
    have h1 := h.2.2.2 s hs
    have h2 : cdf.getD (s + 1) 0 ≤ 2^P := by
      rw [← hlast]; exact h.le_of_le (by omega) (by omega)
    refine ⟨h1, h2, ?_⟩
    by_cases hs0 : s = 0
    · -- the first symbol: `cdf[1] < cdf[2] ≤ 2^P`
      subst hs0
      have h3 : cdf.getD 1 0 < cdf.getD 2 0 := h.2.2.2 1 (by omega)
      have h4 : cdf.getD 2 0 ≤ 2^P := by
        rw [← hlast]; exact h.le_of_le (by omega) (by omega)
      show cdf.getD 1 0 - cdf.getD 0 0 < 2^P
      omega
    · have h3 : cdf.getD 0 0 < cdf.getD s 0 := by
        have h5 : cdf.getD 0 0 < cdf.getD 1 0 := h.2.2.2 0 (by omega)
        have h6 := h.le_of_le (i := 1) (j := s) (by omega) (by omega)
        omega
      omega
  constructor
  · intro s c p henc
    simp only [tableModel] at henc
    split at henc
    · next hs =>
      split at henc
      · next hcd =>
        cases henc
        obtain ⟨h1, h2, h3⟩ := sym s hs
        refine ⟨by omega, by omega, h3, ?_⟩
        intro q hq1 hq2
        have hfind := tableFind_eq h hs hq1 (by omega)
        simp only [tableModel, hfind]
      · cases henc
    · cases henc
  · intro q hq
    obtain ⟨s, hs, h1, h2⟩ := exists_interval h hq
    have hfind := tableFind_eq h hs h1 h2
    obtain ⟨h3, _, _⟩ := sym s hs
    simp only [tableModel, hfind, hs, if_true, h3]
    refine ⟨trivial, h1, by omega⟩

/-- a step of the correspondence protocol (`enc B P cum p` with `(cum, p)` taken from a table,
    later `dec B P cdf`) is a valid step of the coder theorems -/
theorem Range.MStep.valid_of_table {c : Cfg} {B P : Nat} {cdf : List Nat} {s : Nat}
    (hc : Range.RValid (Range.cfgAt c B P)) (h : StrictCdf P cdf) (hs : s + 1 < cdf.length) :
    Range.MStep.Valid c { B := B, P := P, model := tableModel cdf, sym := s } := by
  refine ⟨hc, tableModel_wf h, ?_⟩
  have := h.2.2.2 s hs
  simp only [tableModel, hs, if_true, this]
  rfl

example : (tableModel [0, 3, 0x26, 0x82, 0xff, 0x100]).WellFormed 8 :=
  tableModel_wf (strictCdf_of_check (by decide))

end CV
