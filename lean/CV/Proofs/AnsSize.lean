import CV.Proofs.AnsMisc
import Mathlib.Tactic.Ring
/-!
# ANS coder: compressed size (multiplicative potential argument)

`Q x = max state 2^(S-W) · (2^W)^|bulk|`.  One encode step with probability `p` at precision
`P` satisfies `Q' · p · 2^k ≤ Q · 2^P · (2^k + 1)` with `k = S - W - P`.
-/
namespace CV.Ans
open CV

theorem step_core (x p cum P2 K : Nat) (hp : 0 < p) (hcum : cum + p ≤ P2)
    (M : Nat) (hM1 : x ≤ M) (h4 : p * K ≤ M) :
    ((x / p) * P2 + (cum + x % p)) * p * K ≤ M * P2 * (K + 1) := by
  have h1 : x / p * p + x % p = x := by
    have := Nat.div_add_mod x p; rw [Nat.mul_comm] at this; exact this
  have h2 : x % p < p := Nat.mod_lt _ hp
  have h3 : ((x / p) * P2 + (cum + x % p)) * p ≤ (x + p) * P2 := by
    have hq : cum + x % p ≤ P2 := by omega
    have ha : (x / p) * P2 * p = (x / p * p) * P2 := by ring
    have hb : (cum + x % p) * p ≤ P2 * p := Nat.mul_le_mul_right p hq
    have hc : (x / p * p) * P2 ≤ x * P2 := Nat.mul_le_mul_right P2 (by omega)
    have hd : ((x / p) * P2 + (cum + x % p)) * p = (x / p) * P2 * p + (cum + x % p) * p := by ring
    have he : (x + p) * P2 = x * P2 + P2 * p := by ring
    omega
  have h5 := Nat.mul_le_mul_right K h3
  have h6 : x * P2 * K ≤ M * P2 * K := Nat.mul_le_mul_right K (Nat.mul_le_mul_right P2 hM1)
  have h7 : p * K * P2 ≤ M * P2 := Nat.mul_le_mul_right P2 h4
  have e1 : (x + p) * P2 * K = x * P2 * K + p * K * P2 := by ring
  have e2 : M * P2 * (K + 1) = M * P2 * K + M * P2 := by ring
  omega

/-- the potential -/
def Q (c : Cfg) (x : Coder) : Nat := max x.state (2^(c.S - c.W)) * (2^c.W)^x.bulk.length

theorem potential_step {c : Cfg} (hc : c.Valid) {x : Coder} (hx : Inv c x) {cum p : Nat}
    (hcp : CPok c.P cum p) :
    Q c (encArith c x cum p) * p * 2^(c.S - c.W - c.P)
      ≤ Q c x * 2^c.P * (2^(c.S - c.W - c.P) + 1) := by
  obtain ⟨hp, hsum, hp1⟩ := hcp
  obtain ⟨f1, f2, f3, f4, f5, f6⟩ := Valid.facts hc
  obtain ⟨e1, e2, e3, e4, l1, l2, l3⟩ := pows hc
  generalize hK : 2^(c.S - c.W - c.P) = K at *
  generalize hP2 : 2^c.P = P2 at *
  generalize hβ : 2^c.W = β at *
  generalize hL : 2^(c.S - c.W) = L at *
  have hKpos : 0 < K := by rw [← hK]; exact Nat.two_pow_pos _
  have hβpos : 0 < β := by rw [← hβ]; exact Nat.two_pow_pos _
  have hpK : p * K ≤ L := by
    rw [e4, Nat.mul_comm K P2]; exact Nat.mul_le_mul_right K (by omega)
  unfold Q
  rw [hβ, hL]
  by_cases hf : flushCond c x p
  · -- flush
    have hfl : encArith c x cum p =
        { bulk := (x.state % β) :: x.bulk,
          state := (x.state / β / p) * P2 + (cum + x.state / β % p), cap := x.cap } := by
      simp only [encArith, afterFlush, hf, if_true, hβ, hP2]
    rw [hfl]
    simp only [List.length_cons, Nat.pow_succ]
    unfold flushCond at hf
    rw [e3] at hf
    -- x1 := state / β ≥ p * K
    have hx1 : p * K ≤ x.state / β := by
      rw [Nat.le_div_iff_mul_le hβpos, Nat.mul_assoc]; exact hf
    have hx1β : x.state / β * β ≤ x.state := Nat.div_mul_le_self _ _
    generalize x.state / β = x1 at *
    generalize hn : β ^ x.bulk.length = Bn
    -- bound max(x', L) * p * K ≤ x1 * P2 * (K+1)
    have hmain : max ((x1 / p) * P2 + (cum + x1 % p)) L * p * K ≤ x1 * P2 * (K + 1) := by
      rcases Nat.le_total ((x1 / p) * P2 + (cum + x1 % p)) L with h | h
      · rw [Nat.max_eq_right h, e4]
        have : K * P2 * p * K = (p * K) * P2 * K := by ring
        rw [this]
        have h1 : (p * K) * P2 * K ≤ x1 * P2 * K :=
          Nat.mul_le_mul_right K (Nat.mul_le_mul_right P2 hx1)
        have h2 : x1 * P2 * (K + 1) = x1 * P2 * K + x1 * P2 := by ring
        omega
      · rw [Nat.max_eq_left h]
        exact step_core x1 p cum P2 K hp hsum x1 (Nat.le_refl _) hx1
    have hmax : x1 * β ≤ max x.state L := Nat.le_trans hx1β (Nat.le_max_left _ _)
    calc max ((x1 / p) * P2 + (cum + x1 % p)) L * (Bn * β) * p * K
        = (max ((x1 / p) * P2 + (cum + x1 % p)) L * p * K) * (Bn * β) := by ring
      _ ≤ (x1 * P2 * (K + 1)) * (Bn * β) := Nat.mul_le_mul_right _ hmain
      _ = (x1 * β) * Bn * P2 * (K + 1) := by ring
      _ ≤ max x.state L * Bn * P2 * (K + 1) :=
          Nat.mul_le_mul_right _ (Nat.mul_le_mul_right _ (Nat.mul_le_mul_right _ hmax))
  · -- no flush
    have hnf : encArith c x cum p =
        { bulk := x.bulk, state := (x.state / p) * P2 + (cum + x.state % p), cap := x.cap } := by
      simp only [encArith, afterFlush, hf, if_false, hP2]
    rw [hnf]
    simp only
    generalize hn : β ^ x.bulk.length = Bn
    have hmain : max ((x.state / p) * P2 + (cum + x.state % p)) L * p * K
        ≤ max x.state L * P2 * (K + 1) := by
      rcases Nat.le_total ((x.state / p) * P2 + (cum + x.state % p)) L with h | h
      · rw [Nat.max_eq_right h]
        have h1 : L * p * K ≤ max x.state L * P2 * K :=
          Nat.mul_le_mul_right K (Nat.mul_le_mul (Nat.le_max_right _ _) (by omega))
        have h2 : max x.state L * P2 * (K + 1) = max x.state L * P2 * K + max x.state L * P2 := by ring
        omega
      · rw [Nat.max_eq_left h]
        exact step_core x.state p cum P2 K hp hsum _ (Nat.le_max_left _ _)
          (Nat.le_trans hpK (Nat.le_max_right _ _))
    calc max ((x.state / p) * P2 + (cum + x.state % p)) L * Bn * p * K
        = (max ((x.state / p) * P2 + (cum + x.state % p)) L * p * K) * Bn := by ring
      _ ≤ (max x.state L * P2 * (K + 1)) * Bn := Nat.mul_le_mul_right _ hmain
      _ = max x.state L * Bn * P2 * (K + 1) := by ring

/-- the reported size in bits is bounded by the potential -/
theorem two_pow_numBits_le {c : Cfg} (hc : c.Valid) {x : Coder} (hx : Inv c x) :
    2^(numBits c x) ≤ Q c x * 2^c.W := by
  obtain ⟨f1, f2, f3, f4, f5, f6⟩ := Valid.facts hc
  have hW : 0 < c.W := by omega
  unfold numBits numWords Q
  rw [chunksLE_length]
  rcases Nat.eq_zero_or_pos x.state with h0 | h0
  · have hb : x.bulk = [] := by
      cases hbk : x.bulk with
      | nil => rfl
      | cons a l =>
        have := hx.2.2 (by rw [hbk]; exact List.cons_ne_nil _ _)
        have := Nat.two_pow_pos (c.S - c.W)
        omega
    rw [h0, nchunks_zero _ hW, hb]
    simp only [List.length_nil, Nat.add_zero, Nat.mul_zero, Nat.pow_zero, Nat.mul_one]
    have h1 := Nat.two_pow_pos c.W
    have h2 : 0 < max 0 (2^(c.S - c.W)) := by
      have := Nat.two_pow_pos (c.S - c.W); omega
    exact Nat.mul_pos h2 h1
  · obtain ⟨hn, hlo, _⟩ := nchunks_bounds hW h0
    have hbl := two_pow_bitlen_le h0
    -- nchunks * W ≤ bitlen - 1 + W
    have hnw : nchunks c.W x.state * c.W ≤ (bitlen x.state - 1) + c.W := by
      have : (nchunks c.W x.state - 1) * c.W + c.W = nchunks c.W x.state * c.W := by
        rw [← Nat.succ_mul]; congr 1; omega
      omega
    have e : c.W * (x.bulk.length + nchunks c.W x.state)
        = c.W * x.bulk.length + nchunks c.W x.state * c.W := by ring
    rw [e, Nat.pow_add, Nat.pow_mul]
    have h1 : 2^(nchunks c.W x.state * c.W) ≤ 2^((bitlen x.state - 1) + c.W) := pow_le_pow2 hnw
    rw [Nat.pow_add] at h1
    have h2 : 2^(bitlen x.state - 1) * 2^c.W ≤ max x.state (2^(c.S - c.W)) * 2^c.W :=
      Nat.mul_le_mul_right _ (Nat.le_trans hbl (Nat.le_max_left _ _))
    calc (2^c.W)^x.bulk.length * 2^(nchunks c.W x.state * c.W)
        ≤ (2^c.W)^x.bulk.length * (max x.state (2^(c.S - c.W)) * 2^c.W) :=
          Nat.mul_le_mul_left _ (Nat.le_trans h1 h2)
      _ = max x.state (2^(c.S - c.W)) * (2^c.W)^x.bulk.length * 2^c.W := by ring

theorem numWords_step {c : Cfg} (x : Coder) (cum p : Nat) :
    (encArith c x cum p).bulk.length ≤ x.bulk.length + 1 := by
  simp only [encArith, afterFlush]
  split <;> simp

theorem nchunks_le_of_lt {W S x : Nat} (hW : 0 < W) (hx : x < 2^S) : nchunks W x ≤ (S + W - 1) / W := by
  unfold nchunks
  apply Nat.div_le_div_right
  have := bitlen_le_of_lt hx
  omega

end CV.Ans
