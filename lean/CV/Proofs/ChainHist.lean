import CV.Proofs.ChainPrecision
import CV.Proofs.ChainIO
/-!
# Chain coder: histories

A *schedule* is a list of steps, each either "decode one symbol with model `m` (whose
`Probability` type has `B` bits)" or "`change_precision::<q>()`".  `runDec` executes it and
logs what has to be undone; `runUndo` re-encodes the logged symbols / reverts the logged
precision changes, newest first.

`undo_restores`: after any schedule, `runUndo` on the reversed log restores the heads, pushes
exactly the consumed words back onto the compressed stack and pops exactly the flushed words
off the remainders stack – for *every* content `K`, `T` of the two stacks below.  With
`K = T = []` resp. `T = unused prefix` this covers the coders produced by `from_remainders`.

`restore_binary` / `restore_compressed`: the three documented ways of continuing all
reproduce the original data.
-/
namespace CV.Chain

@[simp] theorem withB_W (c : Cfg) (B : Nat) : (withB c B).W = c.W := rfl
@[simp] theorem withB_S (c : Cfg) (B : Nat) : (withB c B).S = c.S := rfl
@[simp] theorem withB_P (c : Cfg) (B : Nat) : (withB c B).P = c.P := rfl
@[simp] theorem withB_B (c : Cfg) (B : Nat) : (withB c B).B = B := rfl

/-- every step of the schedule is allowed by the crate's static assertions, and every model
    is well-formed at the precision it is used with -/
def StepsOk {Sym : Type} (c : Cfg) : List (Step Sym) → Prop
  | [] => True
  | .dec B m :: rest => CValid (withB c B) ∧ m.WellFormed c.P ∧ StepsOk c rest
  | .prec q :: rest => PrecOk c.W c.S q ∧ StepsOk (withP c q) rest

theorem runUndo_append {Sym : Type} (c : Cfg) (a b : List (Done Sym)) (y : Coder) :
    runUndo c (a ++ b) y =
      match runUndo c a y with
      | some (c1, z) => runUndo c1 b z
      | none => none := by
  induction a generalizing c y with
  | nil => simp [runUndo]
  | cons e a ih =>
    cases e with
    | dec B m s =>
      simp only [List.cons_append, runUndo]
      cases encode (withB c B) m s y with
      | ok z => exact ih c z
      | error _ => rfl
    | prec old =>
      simp only [List.cons_append, runUndo]
      cases changePrecision c old y with
      | ok z => exact ih _ z
      | error _ => rfl

/-- the function the driver executes agrees with the subject of the theorems -/
theorem runDec_eq_runDecE {Sym : Type} :
    ∀ (steps : List (Step Sym)) (c : Cfg) (x : Coder),
      runDec c steps x =
        match (runDecE c steps x).2.2.2 with
        | none => some ((runDecE c steps x).1, (runDecE c steps x).2.1, (runDecE c steps x).2.2.1)
        | some _ => none := by
  intro steps
  induction steps with
  | nil => intro c x; simp [runDec, runDecE]
  | cons st rest ih =>
    intro c x
    cases st with
    | dec B m =>
      simp only [runDec, runDecE]
      cases decode (withB c B) m x with
      | error e => rfl
      | ok r =>
        obtain ⟨s, y⟩ := r
        simp only [ih c y]
        cases (runDecE c rest y).2.2.2 <;> rfl
    | prec q =>
      simp only [runDec, runDecE]
      cases changePrecision c q x with
      | error e => rfl
      | ok y =>
        simp only [ih (withP c q) y]
        cases (runDecE (withP c q) rest y).2.2.2 <;> rfl

theorem runUndo_eq_runUndoE {Sym : Type} :
    ∀ (l : List (Done Sym)) (c : Cfg) (y : Coder),
      runUndo c l y =
        match (runUndoE c l y).2.2.2 with
        | none => some ((runUndoE c l y).2.1, (runUndoE c l y).2.2.1)
        | some _ => none := by
  intro l
  induction l with
  | nil => intro c y; simp [runUndo, runUndoE]
  | cons e rest ih =>
    intro c y
    cases e with
    | dec B m s =>
      simp only [runUndo, runUndoE]
      cases encode (withB c B) m s y with
      | error e => rfl
      | ok z => simp only [ih c z]
    | prec old =>
      simp only [runUndo, runUndoE]
      cases changePrecision c old y with
      | error e => rfl
      | ok z => simp only [ih (withP c old) z]

/-- a completed `runUndoE` has undone every entry -/
theorem runUndoE_count {Sym : Type} :
    ∀ (l : List (Done Sym)) (c : Cfg) (y : Coder),
      (runUndoE c l y).2.2.2 = none → (runUndoE c l y).1 = l.length := by
  intro l
  induction l with
  | nil => intro c y _; rfl
  | cons e rest ih =>
    intro c y h
    cases e with
    | dec B m s =>
      simp only [runUndoE] at h ⊢
      cases hd : encode (withB c B) m s y with
      | error e => simp [hd] at h
      | ok z => simp only [hd] at h ⊢; simp [ih c z h]
    | prec old =>
      simp only [runUndoE] at h ⊢
      cases hd : changePrecision c old y with
      | error e => simp [hd] at h
      | ok z => simp only [hd] at h ⊢; simp [ih _ z h]

theorem inv_withB {c : Cfg} {B : Nat} {x : Coder} : Inv (withB c B) x ↔ Inv c x := Iff.rfl

/-- History-level inverse (C13): whatever was decoded / whatever precision changes were made,
    undoing the log in reverse restores the heads; the compressed stack gets back exactly the
    words `D` that were consumed and the remainders stack loses exactly what was flushed, for
    every content `K`, `T` below. -/
theorem undo_restores {Sym : Type} :
    ∀ (steps : List (Step Sym)) (c : Cfg) (x : Coder),
      PrecOk c.W c.S c.P → StepsOk c steps → Inv c x →
      ∀ log c' y, runDec c steps x = some (log, c', y) →
        Inv c' y ∧ PrecOk c'.W c'.S c'.P ∧ c' = withP c c'.P ∧
        ∃ D, x.compressed = D ++ y.compressed ∧
          ∀ K T, runUndo c' log.reverse
              { compressed := K, remainders := y.remainders ++ T, heads := y.heads }
            = some (c, { compressed := D ++ K, remainders := x.remainders ++ T, heads := x.heads }) := by
  intro steps
  induction steps with
  | nil =>
    intro c x hP _ hx log c' y hrun
    simp only [runDec, Option.some.injEq, Prod.mk.injEq] at hrun
    obtain ⟨rfl, rfl, rfl⟩ := hrun
    exact ⟨hx, hP, rfl, [], rfl, fun K T => by simp [runUndo]⟩
  | cons st rest ih =>
    intro c x hP hok hx log c' y hrun
    cases st with
    | dec B m =>
      obtain ⟨hv, hm, hrest⟩ := hok
      simp only [runDec] at hrun
      rcases decode_spec hv hm (inv_withB.mpr hx) with ⟨herr, _, _⟩ | ⟨s, y1, word, hdec, hy1, _, _, _, D1, hD1, henc⟩
      · simp [herr] at hrun
      · simp only [hdec] at hrun
        rcases hrd : runDec c rest y1 with _ | ⟨l, c1, z⟩
        · simp [hrd] at hrun
        · simp only [hrd, Option.some.injEq, Prod.mk.injEq] at hrun
          obtain ⟨rfl, rfl, rfl⟩ := hrun
          obtain ⟨hyI, hP', hc', D2, hD2, hundo⟩ := ih c y1 hP hrest (inv_withB.mp hy1) l c1 z hrd
          refine ⟨hyI, hP', hc', D1 ++ D2, by rw [hD1, hD2, List.append_assoc], ?_⟩
          intro K T
          rw [List.reverse_cons, runUndo_append, hundo K T]
          simp only [runUndo, henc (D2 ++ K) T, List.append_assoc]
    | prec q =>
      obtain ⟨hq, hrest⟩ := hok
      simp only [runDec] at hrun
      rcases changePrecision_spec hP hq hx with ⟨herr, _, _, _⟩ | ⟨y1, hcp, hy1, hcomp, _, hback⟩
      · simp [herr] at hrun
      · simp only [hcp] at hrun
        rcases hrd : runDec (withP c q) rest y1 with _ | ⟨l, c1, z⟩
        · simp [hrd] at hrun
        · simp only [hrd, Option.some.injEq, Prod.mk.injEq] at hrun
          obtain ⟨rfl, rfl, rfl⟩ := hrun
          obtain ⟨hyI, hP', hc', D2, hD2, hundo⟩ :=
            ih (withP c q) y1 hq hrest hy1 l c1 z hrd
          refine ⟨hyI, hP', ?_, D2, by rw [← hcomp, hD2], ?_⟩
          · rw [hc']; rfl
          · intro K T
            rw [List.reverse_cons, runUndo_append, hundo K T]
            simp only [runUndo, hback (D2 ++ K) T]
            rfl

end CV.Chain

namespace CV.Chain

/-- what the three documented ways of continuing after `into_remainders()` produce, given the
    finishing function `fin` (`intoBinary` or `intoCompressed`); all lists top-of-stack first,
    so `s2 ++ p2 ++ stash` is the `Vec` concatenation `stash ++ prefix2 ++ suffix2`. -/
def RestoresAll {Sym : Type} (fin : Cfg → Coder → Except ExpErr (List Nat × List Nat))
    (c c' : Cfg) (log : List (Done Sym)) (y : Coder) (data : List Nat) : Prop :=
  ∃ pre suf, intoRemainders c' y = .ok (pre, suf) ∧
    -- the exported prefix is an unaltered part of the original data (its bottom)
    (∃ top, data = top ++ pre) ∧
    -- (a) keep using the same coder
    (∃ z p2 s2, runUndo c' log.reverse y = some (c, z) ∧ fin c z = .ok (p2, s2) ∧
        s2 ++ p2 = data) ∧
    -- (b) `from_remainders(suffix)`, the prefix is put away and prepended at the end
    (∃ y1 z p2 s2, fromRemainders c' suf = some y1 ∧ runUndo c' log.reverse y1 = some (c, z) ∧
        fin c z = .ok (p2, s2) ∧ s2 ++ p2 ++ pre = data) ∧
    -- (c) `from_remainders(prefix ++ suffix)` (concatenated as `Vec`s)
    (∃ y2 z p2 s2, fromRemainders c' (suf ++ pre) = some y2 ∧
        runUndo c' log.reverse y2 = some (c, z) ∧ fin c z = .ok (p2, s2) ∧ s2 ++ p2 = data)

/-- shared part of `restore_binary` / `restore_compressed` -/
theorem restores_of_ctor {Sym : Type}
    {fin : Cfg → Coder → Except ExpErr (List Nat × List Nat)}
    {c : Cfg} (hP : PrecOk c.W c.S c.P) {data : List Nat} {x0 : Coder}
    (hx0 : Inv c x0) (hrem : x0.remainders = [])
    {D0 : List Nat} (hD0 : data = D0 ++ x0.compressed)
    (hfin : ∀ K R, fin c { compressed := K, remainders := R, heads := x0.heads } = .ok (R, D0 ++ K))
    {steps : List (Step Sym)} (hs : StepsOk c steps) {log : List (Done Sym)} {c' : Cfg} {y : Coder}
    (hrun : runDec c steps x0 = some (log, c', y)) :
    RestoresAll fin c c' log y data := by
  obtain ⟨hyI, hP', _, D, hD, hundo⟩ := undo_restores steps c x0 hP hs hx0 log c' y hrun
  obtain ⟨F, _, hir, hfr⟩ := intoRemainders_spec hP' hyI
  refine ⟨y.compressed, y.heads.compressed :: (F ++ y.remainders), hir,
    ⟨D0 ++ D, by rw [hD0, hD, List.append_assoc]⟩, ?_, ?_, ?_⟩
  · -- (a)
    have h := hundo y.compressed []
    simp only [List.append_nil] at h
    refine ⟨_, _, _, h, hfin _ _, ?_⟩
    simp [hrem, hD0, hD]
  · -- (b)
    have hf := hfr []
    simp only [List.append_nil] at hf
    have h := hundo [] []
    simp only [List.append_nil] at h
    refine ⟨_, _, _, _, hf, h, hfin _ _, ?_⟩
    simp [hrem, hD0, hD]
  · -- (c)
    have hf := hfr y.compressed
    have h := hundo [] y.compressed
    simp only [List.append_nil] at h
    refine ⟨_, _, _, _, by simpa using hf, h, hfin _ _, ?_⟩
    simp [hrem, hD0, hD]

/-- **C13, raw binary data.**  For every word list `data` (zero words included) on which
    `from_binary` succeeds, every schedule of decode steps (arbitrary well-formed models,
    arbitrary probability widths) and precision changes that runs without an error: exporting
    the remainders and continuing in any of the three documented ways, undoing the schedule in
    reverse and calling `into_binary` reproduces `data` exactly. -/
theorem restore_binary {Sym : Type} {c : Cfg} (hP : PrecOk c.W c.S c.P) {data : List Nat}
    (hd : Words c.W data) {x0 : Coder} (h0 : fromBinary c data = some x0)
    {steps : List (Step Sym)} (hs : StepsOk c steps) {log : List (Done Sym)} {c' : Cfg} {y : Coder}
    (hrun : runDec c steps x0 = some (log, c', y)) :
    RestoresAll intoBinary c c' log y data := by
  obtain ⟨hx0, hrem, D0, hD0, hfin⟩ := fromBinary_spec hP hd h0
  exact restores_of_ctor hP hx0 hrem hD0 hfin hs hrun

/-- **C13, data ending in a non-zero word** (`from_compressed` … `into_compressed`). -/
theorem restore_compressed {Sym : Type} {c : Cfg} (hP : PrecOk c.W c.S c.P) {data : List Nat}
    (hd : Words c.W data) {x0 : Coder} (h0 : fromCompressed c data = some x0)
    {steps : List (Step Sym)} (hs : StepsOk c steps) {log : List (Done Sym)} {c' : Cfg} {y : Coder}
    (hrun : runDec c steps x0 = some (log, c', y)) :
    RestoresAll intoCompressed c c' log y data := by
  obtain ⟨hx0, hrem, D0, hD0, hfin⟩ := fromCompressed_spec hP hd h0
  exact restores_of_ctor hP hx0 hrem hD0 hfin hs hrun

end CV.Chain

namespace CV.Chain

/-- **Errors, not garbage** (history level).  If a schedule does not run to completion from a
    coder satisfying the invariant, then some prefix of it ran correctly (so everything proved
    about successful runs applies to it: the state reached satisfies the invariant), and the
    next step reported one of the two documented errors – `OutOfCompressedData` with the
    compressed stack empty, or `OutOfRemainders` with the remainders stack empty while
    decreasing the precision – and never a fault. -/
theorem runDec_error {Sym : Type} :
    ∀ (steps : List (Step Sym)) (c : Cfg) (x : Coder),
      PrecOk c.W c.S c.P → StepsOk c steps → Inv c x → runDec c steps x = none →
      ∃ pre st post log c1 y1, steps = pre ++ st :: post ∧
        runDec c pre x = some (log, c1, y1) ∧ Inv c1 y1 ∧
        ((∃ B m, st = .dec B m ∧ decode (withB c1 B) m y1 = .error .outOfData ∧
            y1.compressed = []) ∨
         (∃ q, st = .prec q ∧ changePrecision c1 q y1 = .error .outOfRemainders ∧
            y1.remainders = [] ∧ q < c1.P)) := by
  intro steps
  induction steps with
  | nil => intro c x _ _ _ h; simp [runDec] at h
  | cons st rest ih =>
    intro c x hP hok hx hrun
    cases st with
    | dec B m =>
      obtain ⟨hv, hm, hrest⟩ := hok
      rcases decode_spec hv hm (inv_withB.mpr hx) with ⟨herr, hnil, _⟩ | ⟨s, y1, word, hdec, hy1, _⟩
      · exact ⟨[], .dec B m, rest, [], c, x, rfl, rfl, hx, Or.inl ⟨B, m, rfl, herr, hnil⟩⟩
      · simp only [runDec, hdec] at hrun
        rcases hrd : runDec c rest y1 with _ | ⟨l, c1, z⟩
        · obtain ⟨pre, st, post, log, c1, z, hsplit, hpre, hI, hcase⟩ :=
            ih c y1 hP hrest (inv_withB.mp hy1) hrd
          refine ⟨.dec B m :: pre, st, post, .dec B m s :: log, c1, z, by rw [hsplit]; rfl, ?_, hI, hcase⟩
          simp [runDec, hdec, hpre]
        · simp [hrd] at hrun
    | prec q =>
      obtain ⟨hq, hrest⟩ := hok
      rcases changePrecision_spec hP hq hx with ⟨herr, hnil, hlt, _⟩ | ⟨y1, hcp, hy1, _⟩
      · exact ⟨[], .prec q, rest, [], c, x, rfl, rfl, hx, Or.inr ⟨q, rfl, herr, hnil, hlt⟩⟩
      · simp only [runDec, hcp] at hrun
        rcases hrd : runDec (withP c q) rest y1 with _ | ⟨l, c1, z⟩
        · obtain ⟨pre, st, post, log, c1, z, hsplit, hpre, hI, hcase⟩ :=
            ih (withP c q) y1 hq hrest hy1 hrd
          refine ⟨.prec q :: pre, st, post, .prec c.P :: log, c1, z, by rw [hsplit]; rfl, ?_, hI, hcase⟩
          simp [runDec, hcp, hpre]
        · simp [hrd] at hrun

end CV.Chain
