import CV.Proofs.ChainHist
import CV.Proofs.ChainLocal
import CV.Model.TableModel
/-!
# Chain coder: concrete instances (non-vacuity of the hypotheses of the property theorems)
-/
namespace CV.Chain

/-- a two-symbol table model `[0, a, 2^P]` is well-formed; with `a = 1` it has a symbol of one
    quantum and one of `2^P - 1` quanta -/
theorem wf_two {P a : Nat} (h1 : 0 < a) (h2 : a < 2^P) : (tableModel [0, a, 2^P]).WellFormed P := by
  have find_lo : ∀ q, q < a → tableFind [0, a, 2^P] q = 0 := by
    intro q hq
    have : ¬ a ≤ q := by omega
    simp [tableFind, List.takeWhile, this]
  have find_hi : ∀ q, a ≤ q → q < 2^P → tableFind [0, a, 2^P] q = 1 := by
    intro q hq hq2
    have : ¬ 2^P ≤ q := by omega
    simp [tableFind, List.takeWhile, hq, this]
  constructor
  · intro s cum p hs
    match s with
    | 0 =>
      simp [tableModel, h1] at hs
      obtain ⟨rfl, rfl⟩ := hs
      refine ⟨h1, by omega, h2, ?_⟩
      intro q _ hq
      simp [tableModel, find_lo q (by omega)]
    | 1 =>
      simp [tableModel, h2] at hs
      obtain ⟨rfl, rfl⟩ := hs
      refine ⟨by omega, by omega, by omega, ?_⟩
      intro q hq1 hq2
      simp [tableModel, find_hi q hq1 (by omega)]
    | n + 2 => simp [tableModel] at hs
  · intro q hq
    by_cases hlo : q < a
    · simp [tableModel, find_lo q hlo, h1]; omega
    · simp [tableModel, find_hi q (by omega) hq, h2]; omega

def exCfg : Cfg := { W := 8, S := 16, P := 3, B := 8 }
/-- top of stack first; contains a zero word -/
def exData : List Nat := [0xa5, 0x00, 0x3c, 0xff, 0x00, 0x81, 0x17]
def exSteps : List (Step Nat) :=
  [.dec 8 (tableModel [0, 1, 8]), .dec 8 (tableModel [0, 1, 8]), .prec 5,
   .dec 8 (tableModel [0, 31, 32]), .dec 8 (tableModel [0, 31, 32]), .prec 2,
   .dec 8 (tableModel [0, 1, 4]), .dec 8 (tableModel [0, 3, 4]), .prec 8,
   .dec 8 (tableModel [0, 255, 256])]

theorem exCfg_valid : exCfg.Valid := by decide
theorem exCfg_prec : PrecOk exCfg.W exCfg.S exCfg.P := by decide
theorem exData_words : Words exCfg.W exData := by
  intro w hw; simp [exData] at hw; rcases hw with rfl | rfl | rfl | rfl | rfl | rfl | rfl <;> decide

theorem exSteps_ok : StepsOk exCfg exSteps := by
  refine ⟨by decide, wf_two (by decide) (by decide), by decide, wf_two (by decide) (by decide),
    by decide, by decide, wf_two (P := 5) (by decide) (by decide), by decide,
    wf_two (P := 5) (by decide) (by decide), by decide, by decide,
    wf_two (P := 2) (by decide) (by decide), by decide, wf_two (P := 2) (by decide) (by decide),
    by decide, by decide, wf_two (P := 8) (by decide) (by decide), trivial⟩

/-- the example schedule runs to completion on the example data (precision 3 → 5 → 2 → 8) -/
theorem exRun_binary : ∃ x0 log c' y, fromBinary exCfg exData = some x0 ∧
    runDec exCfg exSteps x0 = some (log, c', y) ∧ c'.P = 8 ∧ log.length = 10 :=
  ⟨_, _, _, _, rfl, rfl, rfl, rfl⟩

theorem exRun_compressed : ∃ x0 log c' y, fromCompressed exCfg exData = some x0 ∧
    runDec exCfg exSteps x0 = some (log, c', y) ∧ c'.P = 8 :=
  ⟨_, _, _, _, rfl, rfl, rfl⟩

/-- a coder on both thresholds: compressed head exactly `2^P`, remainders head exactly
    `2^(S-W-P)` -/
def exCoder : Coder :=
  { compressed := [0x12, 0x00], remainders := [0x34], heads := { compressed := 8, remainders := 32 } }

theorem exCoder_inv : Inv exCfg exCoder := by
  refine ⟨⟨by decide, by decide, by decide, by decide⟩, ?_, ?_⟩
  · intro w hw; simp [exCoder] at hw; rcases hw with rfl | rfl <;> decide
  · intro w hw; simp [exCoder] at hw; subst hw; decide

end CV.Chain
