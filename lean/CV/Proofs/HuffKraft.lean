import CV.Proofs.HuffMain
/-!
# Kraft equality for the root-to-leaf paths of a (full) binary tree
-/
namespace CV.Huff

namespace Tree

/-- length of the root-to-leaf path of `s` (0 if `s` is not a leaf) -/
def depth (t : Tree) (s : Nat) : Nat :=
  match t.code s with
  | some p => p.length
  | none => 0

theorem depth_node_left {i : Nat} {l r : Tree} {s : Nat} (h : s ∈ l.leaves) :
    (node i l r).depth s = l.depth s + 1 := by
  obtain ⟨p, hp⟩ := Option.isSome_iff_exists.mp ((code_isSome_iff s l).mpr h)
  simp [depth, code, hp]

theorem depth_node_right {i : Nat} {l r : Tree} {s : Nat} (hl : s ∉ l.leaves) (h : s ∈ r.leaves) :
    (node i l r).depth s = r.depth s + 1 := by
  obtain ⟨p, hp⟩ := Option.isSome_iff_exists.mp ((code_isSome_iff s r).mpr h)
  simp [depth, code, hp, code_none_of_not_mem hl]

theorem depth_le_height (t : Tree) (s : Nat) : t.depth s ≤ t.height := by
  unfold depth
  cases h : t.code s with
  | none => simp
  | some p => exact code_length_le_height s t p h

/-- `Σ_leaves 2^(D - depth) = 2^D` whenever `D` is at least the height -/
theorem kraft_sum : ∀ (t : Tree) (D : Nat), t.leaves.Nodup → t.height ≤ D →
    (t.leaves.map (fun s => 2^(D - t.depth s))).sum = 2^D
  | leaf i, D, _, _ => by simp [leaves, depth, code]
  | node i l r, D, hnd, hD => by
    simp only [leaves] at hnd
    rw [List.nodup_append] at hnd
    obtain ⟨hl, hr, hdis⟩ := hnd
    simp only [height] at hD
    obtain ⟨D', rfl⟩ : ∃ D', D = D' + 1 := ⟨D - 1, by omega⟩
    simp only [leaves, List.map_append, List.sum_append]
    have e1 : l.leaves.map (fun s => 2^(D' + 1 - (node i l r).depth s)) =
        l.leaves.map (fun s => 2^(D' - l.depth s)) := by
      apply List.map_congr_left
      intro s hs
      rw [depth_node_left hs]
      congr 1; omega
    have e2 : r.leaves.map (fun s => 2^(D' + 1 - (node i l r).depth s)) =
        r.leaves.map (fun s => 2^(D' - r.depth s)) := by
      apply List.map_congr_left
      intro s hs
      have : s ∉ l.leaves := fun h => hdis s h s hs rfl
      rw [depth_node_right this hs]
      congr 1; omega
    rw [e1, e2, kraft_sum l D' hl (by omega), kraft_sum r D' hr (by omega)]
    rw [Nat.pow_succ]; omega

end Tree

theorem Built.kraft {n : Nat} {en : List Nat} {dn : List (Nat × Nat)} {T : Tree}
    (B : Built n en dn T) : ((List.range n).map (fun s => 2^(n - T.depth s))).sum = 2^n := by
  have hnd : T.leaves.Nodup := B.leaves.nodup_iff.mpr List.nodup_range
  have hh : T.height ≤ n := by
    have := Tree.height_le_inner T; have := B.inner_len; omega
  rw [← Tree.kraft_sum T n hnd hh]
  exact ((B.leaves.map _).sum_nat).symm

end CV.Huff
