import CV.Proofs.ChainHist
import CV.Proofs.ChainLocal
/-!
# Chain coder: totality / no-fault lemmas (C10, C09) beyond the single step

* `fromRemainders_inv` – the third constructor establishes the invariant on any word list.
* `decodeSymbols_support` – every symbol returned lies in the support of its model.
* `intoRemainders_no_fault`, `intoCompressed_no_fault`, `intoBinary_no_fault` – the exporters'
  loops never run out of fuel, `into_binary`'s subtraction and `debug_assert!` never fire.
* `encodeSymbols_decodeSymbols` – what has been encoded decodes again (in reverse).
-/
namespace CV.Chain

theorem fromRemainders_inv {c : Cfg} (hv : PrecOk c.W c.S c.P) {rems : List Nat}
    (hd : Words c.W rems) {x : Coder} (h : fromRemainders c rems = some x) :
    Inv c x ∧ x.compressed = [] := by
  cases rems with
  | nil => simp [fromRemainders] at h
  | cons w rest =>
    by_cases hw : w = 0
    · simp [fromRemainders, hw] at h
    · simp only [fromRemainders, hw, if_false] at h
      rcases hn : headsNew c rest false with _ | ⟨hd', rest'⟩
      · simp [hn] at h
      · simp only [hn, Option.some.injEq] at h
        subst h
        have hfc : fromCompressed c rest = some { compressed := rest', remainders := [], heads := hd' } := by
          simp [fromCompressed, hn]
        obtain ⟨⟨⟨_, _, h3, h4⟩, hwc, _⟩, _, _⟩ := fromCompressed_spec hv hd.tail hfc
        exact ⟨⟨⟨by simp only; omega, hd.head, h3, h4⟩, Words.nil, hwc⟩, rfl⟩

theorem decodeSymbols_support {Sym : Type} {c : Cfg} (hv : CValid c) :
    ∀ (ms : List (Model Sym)) (x : Coder), (∀ m ∈ ms, m.WellFormed c.P) → Inv c x →
      ∀ (i : Nat) (s : Sym), (decodeSymbols c ms x).1[i]? = some s →
        ∃ m cum p, ms[i]? = some m ∧ m.enc s = some (cum, p) ∧ 0 < p := by
  intro ms
  induction ms with
  | nil => intro x _ _ i s h; simp [decodeSymbols] at h
  | cons m ms ih =>
    intro x hms hx i s h
    have hm := hms m (List.mem_cons_self)
    have hms' : ∀ m' ∈ ms, m'.WellFormed c.P := fun m' h => hms m' (List.mem_cons_of_mem _ h)
    rcases decode_spec hv hm hx with ⟨herr, _⟩ | ⟨s0, y, word, hdec, hy, _, _, ⟨⟨cum, p⟩, hcp⟩, _⟩
    · simp [decodeSymbols, herr] at h
    · simp only [decodeSymbols, hdec] at h
      cases i with
      | zero =>
        simp only [List.getElem?_cons_zero, Option.some.injEq] at h
        subst h
        exact ⟨m, cum, p, rfl, hcp, (hm.1 _ _ _ hcp).1⟩
      | succ i =>
        simp only [List.getElem?_cons_succ] at h
        obtain ⟨m', cum', p', h1, h2, h3⟩ := ih y hms' hy i s h
        exact ⟨m', cum', p', by simpa using h1, h2, h3⟩

theorem intoRemainders_no_fault {c : Cfg} (hW : 1 ≤ c.W) (x : Coder) :
    ∃ r, intoRemainders c x = .ok r := by
  obtain ⟨z, F, _, _, _, hd⟩ := drain_ok hW 0 x.heads.remainders
  exact ⟨(x.compressed, x.heads.compressed :: (F ++ x.remainders)), by simp [intoRemainders, hd]⟩

theorem intoCompressed_no_fault {c : Cfg} (hW : 1 ≤ c.W) (x : Coder) :
    (intoCompressed c x = .error .notWhole ∧ x.heads.compressed ≠ 1) ∨
    ∃ r, intoCompressed c x = .ok r := by
  obtain ⟨z, F, _, _, _, hd⟩ := drain_ok hW 0 x.heads.remainders
  by_cases h1 : x.heads.compressed = 1
  · right; exact ⟨(x.remainders, F ++ x.compressed), by simp [intoCompressed, h1, hd]⟩
  · left; exact ⟨by simp [intoCompressed, h1], h1⟩

/-- draining a value whose top bit sits on a word boundary ends with exactly that bit -/
theorem drain_one {W : Nat} (hW : 1 ≤ W) :
    ∀ (k r : Nat), 2^(k * W) ≤ r → r < 2^(k * W + 1) →
      ∃ F, ∀ st, drain W 1 r st = .ok (1, F ++ st) := by
  intro k
  induction k with
  | zero =>
    intro r h1 h2
    simp at h1 h2
    have : r = 1 := by omega
    subst this
    exact ⟨[], fun st => by rw [drain_unfold hW, if_pos (Nat.le_refl 1)]; rfl⟩
  | succ k ih =>
    intro r h1 h2
    have e1 : 2^((k + 1) * W) = 2^(k * W) * 2^W := by rw [← Nat.pow_add]; congr 1; rw [Nat.succ_mul]
    have e2 : 2^((k + 1) * W + 1) = 2^(k * W + 1) * 2^W := by
      rw [← Nat.pow_add]; congr 1; rw [Nat.succ_mul]; omega
    have hW2 : 2 ≤ 2^W := by
      calc 2 = 2^1 := by decide
        _ ≤ 2^W := pow_mono2 hW
    have hbig : ¬ r ≤ 1 := by
      have : 2^W ≤ 2^(k * W) * 2^W := Nat.le_mul_of_pos_left _ (pow_pos2 _)
      omega
    have hlo : 2^(k * W) ≤ r >>> W := by
      rw [shr_eq, Nat.le_div_iff_mul_le (pow_pos2 _), ← e1]; exact h1
    have hhi : r >>> W < 2^(k * W + 1) := by
      rw [shr_eq]; apply Nat.div_lt_of_lt_mul; rw [Nat.mul_comm, ← e2]; exact h2
    obtain ⟨F, hF⟩ := ih _ hlo hhi
    refine ⟨F ++ [narrow W r], fun st => ?_⟩
    rw [drain_unfold hW, if_neg hbig, hF]
    simp

theorem intoBinary_no_fault {c : Cfg} (hW : 1 ≤ c.W) {x : Coder} (hr : x.heads.remainders ≠ 0) :
    intoBinary c x = .error .notWhole ∨ ∃ r, intoBinary c x = .ok r := by
  by_cases h1 : x.heads.compressed = 1
  · have hbl : bitlen x.heads.remainders = Nat.log2 x.heads.remainders + 1 := by
      simp [bitlen, hr]
    by_cases hmod : Nat.log2 x.heads.remainders % c.W = 0
    · right
      obtain ⟨k, hk⟩ : ∃ k, Nat.log2 x.heads.remainders = k * c.W :=
        ⟨_, (Nat.div_mul_cancel (Nat.dvd_of_mod_eq_zero hmod)).symm⟩
      have hb := (Nat.log2_eq_iff hr).mp hk
      obtain ⟨F, hF⟩ := drain_one hW k _ hb.1 hb.2
      exact ⟨(x.remainders, F ++ x.compressed), by simp [intoBinary, h1, hbl, csub, hmod, hF]⟩
    · left
      simp [intoBinary, h1, hbl, csub, hmod]
  · left; simp [intoBinary, h1]

/-- what `encode_symbols` pushed, `decode_symbols` pops again (models in reverse order) -/
theorem encodeSymbols_decodeSymbols {Sym : Type} {c : Cfg} (hv : CValid c) :
    ∀ (l : List (Sym × Model Sym)) (x y : Coder),
      (∀ e ∈ l, e.2.WellFormed c.P ∧ ∃ cp, e.2.enc e.1 = some cp) → Inv c x →
      encodeSymbols c l x = (y, none) →
      Inv c y ∧ decodeSymbols c (l.reverse.map (·.2)) y = (l.reverse.map (·.1), x, none) := by
  intro l
  induction l with
  | nil =>
    intro x y _ hx h
    simp only [encodeSymbols, Prod.mk.injEq, and_true] at h
    subst h
    exact ⟨hx, by simp [decodeSymbols]⟩
  | cons e l ih =>
    intro x y hl hx h
    obtain ⟨s, m⟩ := e
    obtain ⟨hm, ⟨cum, p⟩, hcp⟩ := hl (s, m) (List.mem_cons_self)
    have hl' : ∀ e ∈ l, e.2.WellFormed c.P ∧ ∃ cp, e.2.enc e.1 = some cp :=
      fun e he => hl e (List.mem_cons_of_mem _ he)
    simp only at hm hcp
    rcases encode_spec hv hm hx hcp with ⟨herr, _⟩ | ⟨x1, henc, hx1, hdec⟩
    · simp [encodeSymbols, herr] at h
    · simp only [encodeSymbols, henc] at h
      obtain ⟨hy, hds⟩ := ih x1 y hl' hx1 h
      refine ⟨hy, ?_⟩
      simp only [List.reverse_cons, List.map_append, List.map_cons, List.map_nil]
      -- decode the later symbols first, then the one encoded first
      have happ : ∀ (ms1 ms2 : List (Model Sym)) (a : Coder) (ss : List Sym) (b : Coder),
          decodeSymbols c ms1 a = (ss, b, none) →
          decodeSymbols c (ms1 ++ ms2) a =
            (ss ++ (decodeSymbols c ms2 b).1, (decodeSymbols c ms2 b).2.1, (decodeSymbols c ms2 b).2.2) := by
        intro ms1
        induction ms1 with
        | nil =>
          intro ms2 a ss b h
          simp only [decodeSymbols, Prod.mk.injEq] at h
          obtain ⟨rfl, rfl, _⟩ := h
          simp
        | cons m1 ms1 ih1 =>
          intro ms2 a ss b h
          simp only [List.cons_append, decodeSymbols] at h ⊢
          cases hd : decode c m1 a with
          | error e => simp [hd] at h
          | ok r =>
            obtain ⟨s1, a1⟩ := r
            simp only [hd] at h ⊢
            rcases hrec : decodeSymbols c ms1 a1 with ⟨ss1, b1, e1⟩
            simp only [hrec, Prod.mk.injEq] at h
            obtain ⟨rfl, rfl, rfl⟩ := h
            rw [ih1 ms2 a1 ss1 b1 hrec]
            simp
      rw [happ _ [m] y _ x1 hds]
      simp [decodeSymbols, hdec]

end CV.Chain
