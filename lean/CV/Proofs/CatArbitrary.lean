import CV.Proofs.CatComplete
/-!
# `from_iterable_entropy_model` on an ARBITRARY symbol table (D31, D32)

`IterableEntropyModel` is a safe trait: the table handed to the non-contiguous constructors
may be anything of the right *type* (`Typed`: probabilities are `NonZero`, all values
`< 2^B`).  After the repairs the constructors either panic cleanly or return a model whose
`quantile_function` never reaches an unsafe precondition.
-/
namespace CV.Cat
open CV

/-- what the types guarantee about a symbol table -/
def Typed {Sym : Type} (B : Nat) (t : List (Sym × Nat × Nat)) : Prop :=
  ∀ e ∈ t, 0 < e.2.2 ∧ e.2.2 < 2 ^ B ∧ e.2.1 < 2 ^ B

theorem Typed.tail {Sym : Type} {B : Nat} {x : Sym × Nat × Nat} {t : List (Sym × Nat × Nat)}
    (h : Typed B (x :: t)) : Typed B t := fun e he => h e (by simp [he])

/-! ## decoder model -/

theorem fromTableCheck_complete {Sym : Type} {B T1 e : Nat} {t : List (Sym × Nat × Nat)}
    {cdf : List (Nat × Sym)} {r : Bool × List (Nat × Sym)}
    (h : NcDec.fromTableCheck B T1 t e true cdf = .ok r) : t = [] ∧ r = (true, cdf) := by
  cases t with
  | nil => simp [NcDec.fromTableCheck] at h; exact ⟨rfl, h.symm⟩
  | cons x t => obtain ⟨s, l, p⟩ := x; simp [NcDec.fromTableCheck] at h

/-- errors of the validating loop are clean panics -/
theorem fromTableCheck_error {Sym : Type} {B T1 : Nat} {t : List (Sym × Nat × Nat)} (ht : Typed B t)
    {e : Nat} {c : Bool} {cdf : List (Nat × Sym)} {f : Fault}
    (h : NcDec.fromTableCheck B T1 t e c cdf = .error f) : ∃ site, f = .panic site := by
  induction t generalizing e c cdf with
  | nil => simp [NcDec.fromTableCheck] at h
  | cons x t ih =>
    obtain ⟨s, l, p⟩ := x
    have hp : 0 < p := (ht (s, l, p) (by simp)).1
    simp only [NcDec.fromTableCheck] at h
    by_cases h1 : c = true ∨ l ≠ e
    · rw [if_pos h1] at h
      simp only [Except.error.injEq] at h
      exact ⟨_, h.symm⟩
    · rw [if_neg h1] at h
      unfold csub at h
      rw [if_pos (by omega)] at h
      simp only at h
      by_cases h2 : ¬ (p - 1 ≤ wsub B T1 l)
      · rw [if_pos h2] at h
        simp only [Except.error.injEq] at h
        exact ⟨_, h.symm⟩
      · rw [if_neg h2] at h
        exact ih ht.tail h

/-- what a successful run of the validating loop (started incomplete, below `2^P`) proves -/
theorem fromTableCheck_ok {Sym : Type} {B P : Nat} (hP : P ≤ B)
    {t : List (Sym × Nat × Nat)} (ht : Typed B t) :
    ∀ {e : Nat} {cdf0 cdf : List (Nat × Sym)} {c : Bool}, e < 2 ^ P →
      NcDec.fromTableCheck B (2 ^ P - 1) t e false cdf0 = .ok (c, cdf) →
      cdf = cdf0 ++ t.map (fun x => (x.2.1, x.1)) ∧
      t.map (fun x => x.2.1) = psums e (t.map (fun x => x.2.2)) ∧
      (c = true → t ≠ [] ∧ e + (t.map (fun x => x.2.2)).sum = 2 ^ P) := by
  have hPB := pow_le_pow_of_le hP
  induction t with
  | nil =>
    intro e cdf0 cdf c he h
    simp only [NcDec.fromTableCheck, Except.ok.injEq, Prod.mk.injEq] at h
    refine ⟨by simp [h.2], by simp [psums], ?_⟩
    intro hc; rw [← h.1] at hc; simp at hc
  | cons x t ih =>
    intro e cdf0 cdf c he h
    obtain ⟨s, l, p⟩ := x
    obtain ⟨hp0, hpB, hlB⟩ := ht (s, l, p) (by simp)
    simp only at hp0 hpB hlB
    simp only [NcDec.fromTableCheck] at h
    by_cases h1 : false = true ∨ l ≠ e
    · rw [if_pos h1] at h; simp at h
    · rw [if_neg h1] at h
      have hle : l = e := by
        rcases Nat.decEq l e with hne | heq
        · exact absurd (Or.inr hne) h1
        · exact heq
      subst hle
      unfold csub at h
      rw [if_pos (by omega)] at h
      simp only at h
      rw [wsub_of_le (by omega) (by omega)] at h
      by_cases h2 : ¬ (p - 1 ≤ 2 ^ P - 1 - l)
      · rw [if_pos h2] at h; simp at h
      · rw [if_neg h2] at h
        have hsum : l + p ≤ 2 ^ P := by omega
        by_cases hc : (p - 1 == 2 ^ P - 1 - l) = true
        · rw [hc] at h
          obtain ⟨ht0, hr⟩ := fromTableCheck_complete h
          subst ht0
          simp only [Prod.mk.injEq] at hr
          rw [beq_iff_eq] at hc
          refine ⟨by rw [hr.2]; simp, by simp [psums], ?_⟩
          intro _
          refine ⟨by simp, ?_⟩
          simp only [List.map_cons, List.map_nil, List.sum_cons, List.sum_nil]
          omega
        · have hc' : (p - 1 == 2 ^ P - 1 - l) = false := by simpa using hc
          rw [beq_eq_false_iff_ne] at hc'
          have hw : wadd B l p = l + p := by
            unfold wadd; exact Nat.mod_eq_of_lt (by omega)
          rw [(by simpa using hc : (p - 1 == 2 ^ P - 1 - l) = false), hw] at h
          obtain ⟨a1, a2, a3⟩ := ih ht.tail (e := l + p) (by omega) h
          refine ⟨by rw [a1]; simp, by simp [psums, a2], ?_⟩
          intro hct
          obtain ⟨_, b2⟩ := a3 hct
          refine ⟨by simp, ?_⟩
          simp only [List.map_cons, List.sum_cons]
          omega


/-- a single symbol that carries the whole mass (only a lying source can present it, and only
    if `P < B`): the searched decoder still answers without reaching unsafe code -/
theorem NcDec.dec_single {Sym : Type} {B P : Nat} (hlt : P < B) (s last : Sym) (q : Nat) :
    ∃ r, NcDec.dec B { cdf := [(0, s), (wrappingPow2 B P, last)] } q = .ok r := by
  have h2P := two_pow_pos' P
  have hPB := pow_lt_pow_of_lt hlt
  rw [wrappingPow2_of_lt hlt]
  have hmono : MonoIdx [0] := by
    intro i j hij hj
    simp only [List.length_cons, List.length_nil] at hj
    have hi0 : i = 0 := by omega
    have hj0 : j = 0 := by omega
    subst hi0; subst hj0; exact Nat.le_refl _
  obtain ⟨k, hk, hkle, hlo, hhi⟩ := bsearch_spec q hmono
  have hk1 : k = 1 := by
    simp only [List.length_cons, List.length_nil] at hkle
    rcases Nat.eq_zero_or_pos k with h0 | h0
    · have := hhi 0 (by omega) (by simp)
      simp at this
    · omega
  subst hk1
  have hw : wsub B (2 ^ P) 0 = 2 ^ P := by
    rw [wsub_of_le (by omega) hPB]; omega
  simp only [NcDec.dec, cdfQuantile, csub, List.map_cons, List.map_nil, List.length_cons,
    List.length_nil]
  rw [if_pos (by omega)]
  simp only [Nat.add_sub_cancel, List.take_succ_cons, List.take_zero, hk]
  rw [if_pos (by omega)]
  simp only [Nat.sub_self, List.getElem?_cons_succ, List.getElem?_cons_zero, hw]
  rw [if_neg (by omega)]
  exact ⟨_, rfl⟩

/-- **D32**: `NonContiguousCategoricalDecoderModel::from_iterable_entropy_model` on an arbitrary
    typed table either panics cleanly or returns a model whose `quantile_function` returns
    normally for every `Probability` value -/
theorem NcDec.fromTable_arbitrary {Sym : Type} {B P : Nat} (hP1 : 1 ≤ P) (hP : P ≤ B)
    {t : List (Sym × Nat × Nat)} (ht : Typed B t) :
    (∃ site, NcDec.fromTable B P t = .error (.panic site)) ∨
    (∃ m, NcDec.fromTable B P t = .ok m ∧ ∀ q, ∃ r, m.dec B q = .ok r) := by
  have h2P := two_pow_pos' P
  unfold NcDec.fromTable
  rw [wsub_total_one hP1 hP]
  cases hck : NcDec.fromTableCheck B (2 ^ P - 1) t 0 false [] with
  | error f =>
    obtain ⟨site, rfl⟩ := fromTableCheck_error ht hck
    exact Or.inl ⟨site, rfl⟩
  | ok r =>
    obtain ⟨c, cdf⟩ := r
    simp only
    cases c with
    | false => exact Or.inl ⟨_, rfl⟩
    | true =>
      obtain ⟨a1, a2, a3⟩ := fromTableCheck_ok hP ht (e := 0) h2P hck
      obtain ⟨hne, hsum⟩ := a3 rfl
      simp only [List.nil_append, Nat.zero_add] at a1 hsum
      rw [if_neg (by simp)]
      cases hl : cdf.getLast? with
      | none =>
        exfalso
        have := List.getLast?_eq_none_iff.mp hl
        rw [a1] at this
        exact hne (List.map_eq_nil_iff.mp this)
      | some x =>
        obtain ⟨cl, last⟩ := x
        right
        refine ⟨_, rfl, ?_⟩
        have hpos : ∀ q ∈ t.map (fun x => x.2.2), 0 < q := by
          intro q hq
          obtain ⟨e, he, rfl⟩ := List.mem_map.mp hq
          exact (ht e he).1
        have hfst : (cdf ++ [(wrappingPow2 B P, last)]).map (·.1) =
            wrapCdf B P (extOf (t.map (fun x => x.2.2))) := by
          rw [wrapCdf_extOf, List.map_append, a1, List.map_map]
          simp only [List.map_cons, List.map_nil]
          rw [← a2]
          simp [Function.comp_def]
        rcases Nat.lt_or_ge (t.map (fun x => x.2.2)).length 2 with hshort | hlong
        · -- exactly one entry
          match t, hne, hshort, a1, a2, hsum, ht with
          | [(s, l, p)], _, _, a1, a2, hsum, ht =>
            simp only [List.map_cons, List.map_nil, psums, List.cons.injEq, and_true] at a2
            simp only [List.map_cons, List.map_nil, List.sum_cons, List.sum_nil, Nat.add_zero] at hsum
            have hpB := (ht (s, l, p) (by simp)).2.1
            simp only at hpB
            have hlt : P < B := by
              rcases Nat.lt_or_ge P B with h | h
              · exact h
              · have : P = B := by omega
                subst this; omega
            intro q
            rw [a1]
            simp only [List.map_cons, List.map_nil, List.cons_append, List.nil_append, a2]
            exact NcDec.dec_single hlt s last q
        · have hv : ValidProbs P (t.map (fun x => x.2.2)) := ⟨hlong, hpos, hsum⟩
          have hvalid : ValidCdf B P ((cdf ++ [(wrappingPow2 B P, last)]).map (·.1)) := by
            rw [hfst]; exact wrapCdf_valid (extOf_valid hv)
          intro q
          exact NcDec.dec_total (m := { cdf := cdf ++ [(wrappingPow2 B P, last)] }) hvalid hP q


/-! ## lookup decoder model -/

theorem fromTableLoop_error {Sym : Type} {B : Nat} {dbg : Bool} {t : List (Sym × Nat × Nat)}
    {cdf : List (Nat × Sym)} {tbl : Array Nat} {f : Fault}
    (h : NcLookup.fromTableLoop B dbg t cdf tbl = .error f) : ∃ site, f = .panic site := by
  induction t generalizing cdf tbl with
  | nil => simp [NcLookup.fromTableLoop] at h
  | cons x t ih =>
    obtain ⟨s, l, p⟩ := x
    simp only [NcLookup.fromTableLoop] at h
    split at h
    · simp only [Except.error.injEq] at h; exact ⟨_, h.symm⟩
    · exact ih h

/-- the debug assertion only adds panics -/
theorem fromTableLoop_dbg {Sym : Type} {B : Nat} {dbg : Bool} {t : List (Sym × Nat × Nat)}
    {cdf : List (Nat × Sym)} {tbl : Array Nat} {r : List (Nat × Sym) × Array Nat}
    (h : NcLookup.fromTableLoop B dbg t cdf tbl = .ok r) :
    NcLookup.fromTableLoop B false t cdf tbl = .ok r := by
  induction t generalizing cdf tbl with
  | nil => simpa [NcLookup.fromTableLoop] using h
  | cons x t ih =>
    obtain ⟨s, l, p⟩ := x
    simp only [NcLookup.fromTableLoop] at h ⊢
    split at h
    · simp at h
    · rw [if_neg (by simp)]; exact ih h

/-- without the debug assertion the claimed left cumulatives are ignored -/
theorem fromTableLoop_false_congr {Sym : Type} {B : Nat} (t t' : List (Sym × Nat × Nat))
    (h : t.map (fun x => (x.1, x.2.2)) = t'.map (fun x => (x.1, x.2.2)))
    (cdf : List (Nat × Sym)) (tbl : Array Nat) :
    NcLookup.fromTableLoop B false t cdf tbl = NcLookup.fromTableLoop B false t' cdf tbl := by
  induction t generalizing t' cdf tbl with
  | nil =>
    cases t' with
    | nil => rfl
    | cons y t' => simp at h
  | cons x t ih =>
    cases t' with
    | nil => simp at h
    | cons y t' =>
      obtain ⟨s, l, p⟩ := x
      obtain ⟨s', l', p'⟩ := y
      simp only [List.map_cons, List.cons.injEq, Prod.mk.injEq] at h
      obtain ⟨⟨rfl, rfl⟩, ht⟩ := h
      simp only [NcLookup.fromTableLoop]
      rw [if_neg (by simp), if_neg (by simp)]
      exact ih t' ht _ _

theorem vecResize_size (v : Array Nat) (p x : Nat) : (vecResize v (v.size + p) x).size = v.size + p := by
  unfold vecResize
  by_cases h : v.size + p ≤ v.size
  · rw [if_pos h]
    have : p = 0 := by omega
    subst this; simp
  · rw [if_neg h]; simp

theorem fromTableLoop_size {Sym : Type} {B : Nat} {t : List (Sym × Nat × Nat)}
    {cdf cdf' : List (Nat × Sym)} {tbl tbl' : Array Nat}
    (h : NcLookup.fromTableLoop B false t cdf tbl = .ok (cdf', tbl')) :
    tbl'.size = tbl.size + (t.map (fun x => x.2.2)).sum ∧ (t ≠ [] → cdf' ≠ []) := by
  induction t generalizing cdf tbl with
  | nil =>
    simp only [NcLookup.fromTableLoop, Except.ok.injEq, Prod.mk.injEq] at h
    simp [h.2]
  | cons x t ih =>
    obtain ⟨s, l, p⟩ := x
    simp only [NcLookup.fromTableLoop] at h
    rw [if_neg (by simp)] at h
    obtain ⟨a1, _⟩ := ih h
    rw [vecResize_size] at a1
    refine ⟨by simp only [List.map_cons, List.sum_cons]; first | omega | rfl, fun _ => ?_⟩
    -- the accumulated cdf only grows
    have grow : ∀ (t : List (Sym × Nat × Nat)) (c c' : List (Nat × Sym)) (b b' : Array Nat),
        NcLookup.fromTableLoop B false t c b = .ok (c', b') → c ≠ [] → c' ≠ [] := by
      intro t
      induction t with
      | nil =>
        intro c c' b b' hh hc
        simp only [NcLookup.fromTableLoop, Except.ok.injEq, Prod.mk.injEq] at hh
        rw [← hh.1]; exact hc
      | cons y t ih2 =>
        intro c c' b b' hh hc
        obtain ⟨s2, l2, p2⟩ := y
        simp only [NcLookup.fromTableLoop] at hh
        rw [if_neg (by simp)] at hh
        exact ih2 _ _ _ _ hh (by simp)
    exact grow t _ _ _ _ h (by simp)

theorem zip3_proj {Sym : Type} (ss : List Sym) (ls qs : List Nat) (h : ss.length = qs.length)
    (hl : ls.length = qs.length) :
    (ss.zip (ls.zip qs)).map (fun x => (x.1, x.2.2)) = ss.zip qs := by
  induction ss generalizing qs ls with
  | nil => simp
  | cons a ss ih =>
    cases qs with
    | nil => simp at h
    | cons q qs =>
      cases ls with
      | nil => simp at hl
      | cons l ls => simp [ih ls qs (by simpa using h) (by simpa using hl)]

theorem triples_proj {Sym : Type} {ss : List Sym} {qs : List Nat} (h : ss.length = qs.length) :
    (triples ss qs).map (fun x => (x.1, x.2.2)) = ss.zip qs :=
  zip3_proj ss (psums 0 qs) qs h (by simp)

theorem map_proj_zip {Sym : Type} (t : List (Sym × Nat × Nat)) :
    t.map (fun x => (x.1, x.2.2)) = (t.map (fun x => x.1)).zip (t.map (fun x => x.2.2)) := by
  induction t with
  | nil => rfl
  | cons x t ih => simp [ih]

/-- a single symbol of probability one (`P < B`) presented by a lying source -/
theorem NcLookup.dec_single {Sym : Type} {B P : Nat} (hlt : P < B) (s last : Sym) {q : Nat}
    (hq : q < 2 ^ P) :
    ∃ r, NcLookup.dec B P { tbl := vecResize #[] (0 + 2 ^ P) (narrow B 0),
                            cdf := [(narrow B 0, s), (wrappingPow2 B P, last)] } q = .ok r := by
  have h2P := two_pow_pos' P
  have hPB := pow_lt_pow_of_lt hlt
  have hn : narrow B 0 = 0 := by simp [narrow]
  have hw : wsub B (2 ^ P) 0 = 2 ^ P := by
    rw [wsub_of_le (by omega) hPB]; omega
  have htbl : (vecResize #[] (0 + 2 ^ P) 0)[q]? = some 0 := by
    unfold vecResize
    rw [if_neg (by simp)]
    rw [Array.getElem?_append, if_neg (by simp), Array.getElem?_replicate, if_pos (by simp; omega)]
  rw [wrappingPow2_of_lt hlt, hn]
  simp only [NcLookup.dec, lookupQuantile, List.map_cons, List.map_nil]
  rw [if_neg (by omega), htbl]
  simp only [List.getElem?_cons_zero, List.getElem?_cons_succ, Nat.zero_add, hw]
  rw [if_neg (by omega)]
  exact ⟨_, rfl⟩

/-- **D31**: `NonContiguousLookupDecoderModel::from_iterable_entropy_model` (with or without debug
    assertions) on an arbitrary typed table either panics cleanly or returns a model whose
    `quantile_function` returns normally for every quantile below `2^P` -/
theorem NcLookup.fromTableWith_arbitrary {Sym : Type} [DecidableEq Sym] [Inhabited Sym] {B P : Nat}
    (hP : P ≤ B) (dbg : Bool) {t : List (Sym × Nat × Nat)} (ht : Typed B t) :
    (∃ site, NcLookup.fromTableWith B P dbg t = .error (.panic site)) ∨
    (∃ m, NcLookup.fromTableWith B P dbg t = .ok m ∧ ∀ q, q < 2 ^ P → ∃ r, m.dec B P q = .ok r) := by
  have h2P := two_pow_pos' P
  unfold NcLookup.fromTableWith
  cases hloop : NcLookup.fromTableLoop B dbg t [] #[] with
  | error f =>
    obtain ⟨site, rfl⟩ := fromTableLoop_error hloop
    exact Or.inl ⟨site, rfl⟩
  | ok r =>
    obtain ⟨cdf, tbl⟩ := r
    simp only
    cases hl : cdf.getLast? with
    | none => exact Or.inl ⟨_, rfl⟩
    | some x =>
      obtain ⟨cl, last⟩ := x
      simp only
      by_cases hsz : tbl.size ≠ 2 ^ P
      · rw [if_pos hsz]; exact Or.inl ⟨_, rfl⟩
      · rw [if_neg hsz]
        right
        refine ⟨_, rfl, ?_⟩
        have hsz' : tbl.size = 2 ^ P := by omega
        have hfalse := fromTableLoop_dbg hloop
        obtain ⟨hsum, _⟩ := fromTableLoop_size hfalse
        simp only [Array.size_empty, Nat.zero_add] at hsum
        rw [hsz'] at hsum
        have hpos : ∀ q ∈ t.map (fun x => x.2.2), 0 < q := by
          intro q hq
          obtain ⟨e, he, rfl⟩ := List.mem_map.mp hq
          exact (ht e he).1
        rcases Nat.lt_or_ge (t.map (fun x => x.2.2)).length 2 with hshort | hlong
        · match t, hshort, hsum, ht, hfalse with
          | [], _, hsum, _, _ => exfalso; simp at hsum
          | [(s, l, p)], _, hsum, ht, hfalse =>
            simp only [List.map_cons, List.map_nil, List.sum_cons, List.sum_nil, Nat.add_zero] at hsum
            have hpB := (ht (s, l, p) (by simp)).2.1
            simp only at hpB
            have hlt : P < B := by
              rcases Nat.lt_or_ge P B with h | h
              · exact h
              · have : P = B := by omega
                subst this; omega
            simp only [NcLookup.fromTableLoop] at hfalse
            rw [if_neg (by simp)] at hfalse
            simp only [List.nil_append, List.length_nil, Array.size_empty, Except.ok.injEq,
              Prod.mk.injEq] at hfalse
            obtain ⟨rfl, rfl⟩ := hfalse
            subst hsum
            intro q hq
            simp only [List.cons_append, List.nil_append]
            exact NcLookup.dec_single (B := B) hlt s last hq
        · -- at least two entries: a valid table; the loop is the one on the specification's table
          have hv : ValidProbs P (t.map (fun x => x.2.2)) := ⟨hlong, hpos, hsum.symm⟩
          have hext := extOf_valid hv
          have hlen : (t.map (fun x => x.1)).length = (t.map (fun x => x.2.2)).length := by simp
          have hcongr := fromTableLoop_false_congr (B := B) t
            (triples (t.map (fun x => x.1)) (t.map (fun x => x.2.2)))
            (by rw [triples_proj hlen, map_proj_zip]) [] #[]
          rw [hcongr, triples_eq_specTable hlen] at hfalse
          obtain ⟨tbl', f1, f2⟩ := fromTableLoop_inv hext hP
            (fun i => (t.map (fun x => x.1)).getD i default) false
            ((extOf (t.map (fun x => x.2.2))).length - 1) 0 [] #[] (by have := hext.1; omega) rfl
            (LookupInv.zero hext)
          simp only [List.drop_zero, List.nil_append] at f1
          rw [f1] at hfalse
          simp only [Except.ok.injEq, Prod.mk.injEq] at hfalse
          obtain ⟨hc, htb⟩ := hfalse
          have hok := LookupInv.final hext f2
          have hll : (labelsOf (fun i => (t.map (fun x => x.1)).getD i default)
              ((extOf (t.map (fun x => x.2.2))).length - 1)).length + 1 =
              (extOf (t.map (fun x => x.2.2))).length := by
            rw [labelsOf_length]; have := hext.1; omega
          intro q hq
          have := NcLookup.dec_canon (B := B) (last := last) (tbl := tbl') hext hll hP hok hq
          rw [← hc, ← htb, cdfRows_all]
          exact ⟨_, this⟩

end CV.Cat
