import CV.Proofs.RangeSuffix
/-!
# Concrete models and messages (non-vacuity witnesses, the tiny-width D3 counterexample)
-/
namespace CV.Range

/-- three-symbol model with boundaries `0 ≤ a ≤ b ≤ T`: symbol 0 owns `[0,a)`, symbol 1 owns
    `[a,b)`, symbol 2 owns `[b,T)`; empty regions are impossible symbols -/
def cutModel (a b T : Nat) : Model Nat where
  enc s :=
    match s with
    | 0 => if 0 < a then some (0, a) else none
    | 1 => if a < b then some (a, b - a) else none
    | 2 => if b < T then some (b, T - b) else none
    | _ => none
  dec q :=
    if q < a then (0, 0, a)
    else if q < b then (1, a, b - a)
    else (2, b, T - b)

theorem cutModel_wf {P a b : Nat} (hab : a ≤ b) (hb : b ≤ 2^P)
    (h0 : a < 2^P) (h1 : b - a < 2^P) (h2 : 0 < b) :
    (cutModel a b (2^P)).WellFormed P := by
  constructor
  · intro s c p h
    match s with
    | 0 =>
      simp only [cutModel] at h
      split at h
      · cases h
        refine ⟨by omega, by omega, by omega, ?_⟩
        intro q _ hq
        simp only [cutModel]
        have : q < a := by omega
        simp [this]
      · cases h
    | 1 =>
      simp only [cutModel] at h
      split at h
      · cases h
        refine ⟨by omega, by omega, by omega, ?_⟩
        intro q hq1 hq2
        simp only [cutModel]
        have h1 : ¬ q < a := by omega
        have h2 : q < b := by omega
        simp [h1, h2]
      · cases h
    | 2 =>
      simp only [cutModel] at h
      split at h
      · cases h
        refine ⟨by omega, by omega, by omega, ?_⟩
        intro q hq1 hq2
        simp only [cutModel]
        have h1 : ¬ q < a := by omega
        have h2 : ¬ q < b := by omega
        simp [h1, h2]
      · cases h
    | n + 3 => simp [cutModel] at h
  · intro q hq
    simp only [cutModel]
    by_cases hqa : q < a
    · simp only [hqa, if_true]
      have : 0 < a := by omega
      simp [this]
      omega
    · by_cases hqb : q < b
      · simp only [hqa, hqb, if_true, if_false]
        have : a < b := by omega
        simp [this]
        omega
      · simp only [hqa, hqb, if_false]
        have : b < 2^P := by omega
        simp [this]
        omega

/-- `RangeEncoder<u8, u16>` with `u8` probabilities at `PRECISION = 8` (so `P = B = W`) -/
def exCfg : Cfg := { W := 8, S := 16, P := 8, B := 8 }

theorem exCfg_valid : RValid exCfg := by decide

/-- a message that sends the encoder through the inverted situation -/
def exMsg : List (MStep Nat) :=
  [ { B := 8, P := 8, model := cutModel 127 129 256, sym := 1 },
    { B := 8, P := 8, model := cutModel 100 200 256, sym := 1 },
    { B := 8, P := 4, model := cutModel 3 9 16, sym := 2 },
    { B := 8, P := 8, model := cutModel 1 255 256, sym := 0 },
    { B := 8, P := 1, model := cutModel 1 2 2, sym := 1 } ]

theorem exMsg_valid : ∀ x ∈ exMsg, x.Valid exCfg := by
  intro x hx
  simp only [exMsg, List.mem_cons, List.mem_nil_iff, or_false] at hx
  rcases hx with rfl | rfl | rfl | rfl | rfl
  · exact ⟨by decide, cutModel_wf (P := 8) (by omega) (by omega) (by omega) (by omega) (by omega), by decide⟩
  · exact ⟨by decide, cutModel_wf (P := 8) (by omega) (by omega) (by omega) (by omega) (by omega), by decide⟩
  · exact ⟨by decide, cutModel_wf (P := 4) (by omega) (by omega) (by omega) (by omega) (by omega), by decide⟩
  · exact ⟨by decide, cutModel_wf (P := 8) (by omega) (by omega) (by omega) (by omega) (by omega), by decide⟩
  · exact ⟨by decide, cutModel_wf (P := 1) (by omega) (by omega) (by omega) (by omega) (by omega), by decide⟩

/-- the encoder after the first two symbols of `exMsg`: one word is held back -/
def exInverted : Encoder :=
  { bulk := [], lower := 58624, range := 25600, situation := .inverted 1 126 }

theorem exInverted_inv : Inv exCfg exInverted := by
  refine ⟨?_, by decide, by decide, by decide, ?_⟩
  · intro w hw; cases hw
  · show 1 ≤ 1 ∧ 126 + 1 < 2^8 ∧ 2^16 ≤ 58624 + 25600
    decide

/-! ### the tiny-width counterexample for `State > 2·Word` (defect D3) -/

/-- `Word` = 2 bits, `State` = 6 bits, `PRECISION` = 2 -/
def d3Cfg : Cfg := { W := 2, S := 6, P := 2, B := 2 }

theorem d3Cfg_valid : RValid d3Cfg := by decide

def d3Msg : List (MStep Nat) :=
  [ { B := 2, P := 2, model := cutModel 0 3 4, sym := 1 },
    { B := 2, P := 2, model := cutModel 1 4 4, sym := 1 },
    { B := 2, P := 2, model := cutModel 1 3 4, sym := 1 } ]

theorem d3Msg_valid : ∀ x ∈ d3Msg, x.Valid d3Cfg := by
  intro x hx
  simp only [d3Msg, List.mem_cons, List.mem_nil_iff, or_false] at hx
  rcases hx with rfl | rfl | rfl
  · exact ⟨by decide, cutModel_wf (P := 2) (by omega) (by omega) (by omega) (by omega) (by omega), by decide⟩
  · exact ⟨by decide, cutModel_wf (P := 2) (by omega) (by omega) (by omega) (by omega) (by omega), by decide⟩
  · exact ⟨by decide, cutModel_wf (P := 2) (by omega) (by omega) (by omega) (by omega) (by omega), by decide⟩

/-- symbols a decoder returns for a message, if it gets through -/
def decodedSyms {Sym : Type} (c : Cfg) (ws : List Nat) (msg : List (MStep Sym)) :
    Option (List Sym) :=
  match Decoder.fromCompressed c ws with
  | .error _ => none
  | .ok d0 =>
    match decodeMsg c d0 msg with
    | .error _ => none
    | .ok (ss, _) => some ss

/-- what sealing returns for a message, if it gets through -/
def sealedWords {Sym : Type} (c : Cfg) (msg : List (MStep Sym)) : Option (List Nat) :=
  match encodeMsg c (Encoder.empty c) msg with
  | .error _ => none
  | .ok e =>
    match intoCompressed c e with
    | .error _ => none
    | .ok ws => some ws

theorem d3_sealed : sealedWords d3Cfg d3Msg = some [2, 0] := by decide

theorem d3_plain : decodedSyms d3Cfg [2, 0] d3Msg = some [1, 1, 1] := by decide

/-- with an all-ones suffix the last symbol comes out wrong -/
theorem d3_suffix : decodedSyms d3Cfg ([2, 0] ++ [3, 3, 3]) d3Msg = some [1, 1, 2] := by decide


theorem ex_prefix : encodeMsg exCfg (Encoder.empty exCfg) (exMsg.take 2) = .ok exInverted := by
  decide

/-- the held-back word 126 is resolved with a carry: the stream starts with 127 -/
theorem ex_sealed : sealedWords exCfg exMsg = some [127, 29, 86] := by decide

theorem ex_decoded : decodedSyms exCfg [127, 29, 86] exMsg = some [1, 1, 2, 0, 1] := by decide

end CV.Range
