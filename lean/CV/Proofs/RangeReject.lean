import CV.Proofs.RangeDecTotal
/-!
# Impossible symbols (C09) and absence of faults (C20) for the range coder
-/
namespace CV.Range

/-- a history of encode *attempts*: a symbol the model gives probability zero is rejected with
    `ImpossibleSymbol`, the caller keeps the (untouched) encoder and goes on -/
def encodeAttempts {Sym : Type} (c : Cfg) : Encoder → List (MStep Sym) → Except EncErr Encoder
  | e, [] => .ok e
  | e, x :: xs =>
    match encode (cfgAt c x.B x.P) x.model x.sym e with
    | .ok e' => encodeAttempts c e' xs
    | .error .impossible => encodeAttempts c e xs
    | .error (.fault f) => .error (.fault f)

/-- the model gives the symbol non-zero probability -/
def MStep.possible {Sym : Type} (x : MStep Sym) : Bool := (x.model.enc x.sym).isSome

theorem MStep.valid_of_possible {Sym : Type} {c : Cfg} {x : MStep Sym} (h : x.DecValid c)
    (hp : x.possible = true) : x.Valid c := ⟨h.1, h.2, hp⟩

/-- under the invariant, `ImpossibleSymbol` is returned *only* for symbols the model rejects
    (the second `ImpossibleSymbol` exit of the code, `scale · p = 0`, is dead) -/
theorem encode_impossible_iff {Sym : Type} {c : Cfg} (hc : RValid c) {m : Model Sym}
    (hm : m.WellFormed c.P) {e : Encoder} (hI : Inv c e) (hf : Fits c e 1) (s : Sym) :
    encode c m s e = .error .impossible ↔ m.enc s = none := by
  constructor
  · intro h
    cases hs : m.enc s with
    | none => rfl
    | some cp =>
      obtain ⟨cum, p⟩ := cp
      obtain ⟨e', he', _⟩ := encode_ok hc hm hI hf hs
      rw [he'] at h; cases h
  · exact encode_impossible

/-- rejected attempts can be erased from a history -/
theorem attempts_erasure {Sym : Type} {c : Cfg} : ∀ (xs : List (MStep Sym)) (e : Encoder),
    Inv c e → Fits c e (xs.filter MStep.possible).length → (∀ x ∈ xs, x.DecValid c) →
    encodeAttempts c e xs = encodeMsg c e (xs.filter MStep.possible) := by
  intro xs
  induction xs with
  | nil => intro e _ _ _; rfl
  | cons x xs ih =>
    intro e hI hf hv
    have hx := hv x (by simp)
    have hv' : ∀ y ∈ xs, y.DecValid c := fun y hy => hv y (by simp [hy])
    by_cases hp : x.possible = true
    · have hxv := MStep.valid_of_possible hx hp
      obtain ⟨hpp, hcp⟩ := hxv.cp_ok
      have hI' : Inv (cfgAt c x.B x.P) e := hI
      have hf' : Fits (cfgAt c x.B x.P) e ((xs.filter MStep.possible).length + 1) := by
        have : ((x :: xs).filter MStep.possible).length
            = (xs.filter MStep.possible).length + 1 := by simp [List.filter_cons, hp]
        rw [this] at hf; exact hf
      have henc : encode (cfgAt c x.B x.P) x.model x.sym e
          = .ok (encPure (cfgAt c x.B x.P) e x.cp.1 x.cp.2) := by
        unfold encode
        rw [hxv.enc_eq]
        exact encodeCP_eq_pure hx.1 hI' (hf'.mono (by omega)) hpp hcp
      have hI2 : Inv c (encPure (cfgAt c x.B x.P) e x.cp.1 x.cp.2) :=
        encPure_inv hx.1 hI' hpp hcp
      have hf2 : Fits c (encPure (cfgAt c x.B x.P) e x.cp.1 x.cp.2)
          (xs.filter MStep.possible).length :=
        encPure_fits (c := cfgAt c x.B x.P) hx.1 hI' hpp hcp hf'
      simp only [encodeAttempts, henc, List.filter_cons, hp, if_true, encodeMsg]
      exact ih _ hI2 hf2 hv'
    · have hnone : x.model.enc x.sym = none := by
        unfold MStep.possible at hp
        cases h : x.model.enc x.sym with
        | none => rfl
        | some v => rw [h] at hp; simp at hp
      have henc : encode (cfgAt c x.B x.P) x.model x.sym e = .error .impossible :=
        encode_impossible hnone
      have hf2 : Fits c e (xs.filter MStep.possible).length := by
        have : ((x :: xs).filter MStep.possible).length
            = (xs.filter MStep.possible).length := by simp [List.filter_cons, hp]
        rw [this] at hf; exact hf
      simp only [encodeAttempts, henc, List.filter_cons, hp]
      exact ih e hI hf2 hv'

/-- everything encoded around rejected attempts still round-trips -/
theorem roundtrip_after_rejections {Sym : Type} {c : Cfg} (hc : RValid c)
    (xs : List (MStep Sym)) (hn : MsgFits c (xs.filter MStep.possible).length)
    (hv : ∀ x ∈ xs, x.DecValid c) :
    ∃ e ws d0 d, encodeAttempts c (Encoder.empty c) xs = .ok e ∧
      intoCompressed c e = .ok ws ∧
      Decoder.fromCompressed c ws = .ok d0 ∧
      decodeMsg c d0 (xs.filter MStep.possible)
        = .ok ((xs.filter MStep.possible).map (·.sym), d) ∧
      d.maybeExhausted c = .ok true := by
  have hvalid : ∀ x ∈ xs.filter MStep.possible, x.Valid c := by
    intro x hx
    obtain ⟨h1, h2⟩ := List.mem_filter.mp hx
    exact MStep.valid_of_possible (hv x h1) h2
  obtain ⟨e, ws, d0, d, h1, h2, h3, h4, h5, _⟩ := roundtrip hc _ hn hvalid
  refine ⟨e, ws, d0, d, ?_, h2, h3, h4, h5⟩
  rw [attempts_erasure xs _ (inv_empty hc) (fits_empty hn) hv]; exact h1

/-! ### no fault of any kind -/

/-- `encode_symbol` under the invariant with a well-formed model: `Ok` or `ImpossibleSymbol` -/
theorem encode_no_fault {Sym : Type} {c : Cfg} (hc : RValid c) {m : Model Sym}
    (hm : m.WellFormed c.P) {e : Encoder} (hI : Inv c e) (hf : Fits c e 1) (s : Sym) :
    (∃ e', encode c m s e = .ok e' ∧ Inv c e') ∨ encode c m s e = .error .impossible := by
  cases hs : m.enc s with
  | none => right; exact encode_impossible hs
  | some cp =>
    obtain ⟨cum, p⟩ := cp
    left; exact encode_ok hc hm hI hf hs

/-- `decode_symbol` on arbitrary data: `Ok` or `InvalidData` -/
theorem decode_no_fault {Sym : Type} {c : Cfg} (hc : RValid c) {m : Model Sym}
    (hm : m.WellFormed c.P) {d : Decoder} (hI : DReg c d) :
    (∃ s d', decode c m d = .ok (s, d') ∧ DInv c d') ∨ decode c m d = .error .invalidData := by
  rcases decode_total hc hm hI with ⟨h, _⟩ | ⟨s, d', h, hinv, _, _⟩
  · right; exact h
  · left; exact ⟨s, d', h, hinv⟩

/-- `seek` on a decoder over words: `Ok` or rejected -/
theorem seek_no_fault {c : Cfg} (hc : RValid c) {d : Decoder} (hw : WordsOK c d.data)
    (pos lower range : Nat) :
    (∃ d', d.seek c pos lower range = .ok d') ∨ d.seek c pos lower range = .error .rejected := by
  unfold Decoder.seek
  by_cases h : pos > d.data.length
  · right; simp [h]
  · left
    simp only [h, if_false]
    rw [readPoint_eq hc hw pos]
    exact ⟨_, rfl⟩

end CV.Range
