import CV.Proofs.BitsExport
import CV.Model.BitsExpGolomb
/-!
# Exp-Golomb: the codebook on plain bit lists

Spec: `code v` = `k` zeros followed by the `k+1` binary digits of `v+1`, most significant first,
with `k = ⌊log2 (v+1)⌋` and `v+1` computed in ℕ (no wrap-around; for `v = 2^N - 1` this is `N`
zeros, a one, `N` zeros).
-/
set_option linter.unusedSimpArgs false
set_option linter.unusedVariables false
set_option linter.unnecessarySimpa false
namespace CV.Bits.EG

/-- the Exp-Golomb codeword of `v` -/
def code (v : Nat) : List Bool :=
  List.replicate (Nat.log2 (v+1)) false ++ (lowBits (Nat.log2 (v+1) + 1) (v+1)).reverse

theorem and_pow_ne_zero (x j : Nat) : (x &&& 2^j ≠ 0) = (x.testBit j = true) := by
  rw [and_two_pow]
  cases h : x.testBit j <;> simp [two_pow_ne_zero]

theorem and_one_ne_zero (x : Nat) : (x &&& 1 ≠ 0) = (x.testBit 0 = true) := by
  have := and_pow_ne_zero x 0
  simpa using this

/-! ## the encoder loops -/

theorem maskLoop_zero (x f : Nat) : maskLoop x f 0 = .ok [] := by
  cases f <;> simp [maskLoop]

theorem maskLoop_spec (x : Nat) : ∀ (k f : Nat), k + 1 ≤ f →
    maskLoop x f (2^k) = .ok (lowBits (k+1) x).reverse
  | 0, f, h => by
    obtain ⟨f', rfl⟩ : ∃ f', f = f' + 1 := ⟨f - 1, by omega⟩
    have h1 : (1:Nat) >>> 1 = 0 := by decide
    simp [maskLoop, h1, maskLoop_zero, and_one_ne_zero, lowBits]
  | k + 1, f, h => by
    obtain ⟨f', rfl⟩ : ∃ f', f = f' + 1 := ⟨f - 1, by omega⟩
    have ih := maskLoop_spec x k f' (by omega)
    rw [maskLoop]
    simp only [two_pow_ne_zero, if_false, shr1_pow_succ, ih]
    rw [lowBits_succ (k := k + 1), List.reverse_append]
    simp [and_pow_ne_zero]

theorem lsbLoop_spec : ∀ (f x : Nat), x ≠ 0 → Nat.log2 x + 1 ≤ f →
    lsbLoop f x = .ok (lowBits (Nat.log2 x + 1) x)
  | 0, _, _, h => by omega
  | f + 1, x, hx, h => by
    rw [lsbLoop]
    simp only [Nat.shiftRight_eq_div_pow, Nat.pow_one]
    by_cases h2 : x / 2 = 0
    · have hx1 : x = 1 := by omega
      subst hx1
      have hl1 : Nat.log2 1 = 0 := by rw [Nat.log2_def]; simp
      simp [lowBits, hl1]
    · have hge : 2 ≤ x := by omega
      have hlog : Nat.log2 x = Nat.log2 (x / 2) + 1 := by
        rw [Nat.log2_def x]; simp [hge]
      have ih := lsbLoop_spec f (x / 2) h2 (by omega)
      simp only [h2, if_false, ih]
      rw [hlog, lowBits_succ_left (k := Nat.log2 (x / 2) + 1) (w := x)]
      simp [and_one_ne_zero]

theorem codeLen_spec {N x : Nat} (hx : x ≠ 0) (hlt : x < 2^N) :
    codeLen N x = .ok (Nat.log2 x) := by
  have hlog : Nat.log2 x < N := (Nat.log2_lt hx).mpr hlt
  have hlz : lz N x = N - (Nat.log2 x + 1) := by simp [lz, bitlen, hx]
  have h1 : N - (Nat.log2 x + 1) ≤ N := by omega
  have h2 : N - (N - (Nat.log2 x + 1)) = Nat.log2 x + 1 := by omega
  simp [codeLen, csub, hlz, h1, h2]

theorem lowBits_two_pow (N : Nat) : lowBits (N+1) (2^N) = List.replicate N false ++ [true] := by
  rw [lowBits_succ, Nat.testBit_two_pow_self]
  congr 1
  rw [← lowBits_zero_word]
  apply lowBits_congr
  intro i hi
  rw [Nat.testBit_two_pow]
  simp; omega

theorem code_max (N : Nat) :
    code (2^N - 1) = List.replicate N false ++ [true] ++ List.replicate N false := by
  have h : 2^N - 1 + 1 = 2^N := by have := Nat.two_pow_pos N; omega
  simp [code, h, Nat.log2_two_pow, lowBits_two_pow]

/-- `encode_symbol_prefix` emits the codeword (including the `n+1` wrap for the maximum value) -/
theorem prefixBits_spec {N v : Nat} (hN : ValidN N) (hv : v < 2^N) :
    prefixBits N v = .ok (code v) := by
  unfold prefixBits
  by_cases hmax : v + 1 = 2^N
  · have hw : wadd N v 1 = 0 := by simp [wadd, hmax]
    have hv' : v = 2^N - 1 := by omega
    simp only [hw, if_true]
    rw [hv', code_max]
  · have hlt : v + 1 < 2^N := by omega
    have hw : wadd N v 1 = v + 1 := by simp [wadd, Nat.mod_eq_of_lt hlt]
    have hlog : Nat.log2 (v+1) < N := (Nat.log2_lt (by omega)).mpr hlt
    have hshl : (1 <<< Nat.log2 (v+1)) % 2^N = 2^(Nat.log2 (v+1)) := by
      rw [Nat.one_shiftLeft, Nat.mod_eq_of_lt (Nat.pow_lt_pow_right (by omega) hlog)]
    simp only [hw, Nat.succ_ne_zero, if_false, codeLen_spec (Nat.succ_ne_zero v) hlt, shl, hlog,
      if_true, hshl, maskLoop_spec (v+1) (Nat.log2 (v+1)) (N+1) (by omega)]
    rfl

/-- `encode_symbol_suffix` emits the reverse of the codeword -/
theorem suffixBits_spec {N v : Nat} (hN : ValidN N) (hv : v < 2^N) :
    suffixBits N v = .ok (code v).reverse := by
  unfold suffixBits
  by_cases hmax : v + 1 = 2^N
  · have hw : wadd N v 1 = 0 := by simp [wadd, hmax]
    have hv' : v = 2^N - 1 := by omega
    simp only [hw, if_true]
    rw [hv', code_max]
    simp
  · have hlt : v + 1 < 2^N := by omega
    have hw : wadd N v 1 = v + 1 := by simp [wadd, Nat.mod_eq_of_lt hlt]
    have hlog : Nat.log2 (v+1) < N := (Nat.log2_lt (by omega)).mpr hlt
    simp only [hw, Nat.succ_ne_zero, if_false, codeLen_spec (Nat.succ_ne_zero v) hlt,
      lsbLoop_spec N (v+1) (Nat.succ_ne_zero v) (by omega)]
    simp [code]

/-- prefix and suffix form are mirror images -/
theorem suffix_eq_reverse_prefix {N v : Nat} (hN : ValidN N) (hv : v < 2^N) :
    ∃ p, prefixBits N v = .ok p ∧ suffixBits N v = .ok p.reverse :=
  ⟨code v, prefixBits_spec hN hv, suffixBits_spec hN hv⟩

/-! ## digits, most significant first -/

/-- value of a digit string, most significant first -/
def valMSB : List Bool → Nat
  | [] => 0
  | b :: t => b.toNat * 2^t.length + valMSB t

theorem valMSB_lt : ∀ (ds : List Bool), valMSB ds < 2^ds.length
  | [] => by simp [valMSB]
  | b :: t => by
    have ih := valMSB_lt t
    have hb : b.toNat ≤ 1 := by cases b <;> simp
    simp only [valMSB, List.length_cons, Nat.pow_succ]
    have : b.toNat * 2^t.length ≤ 1 * 2^t.length := Nat.mul_le_mul_right _ hb
    omega

theorem testBit_top {b : Bool} {n r : Nat} (hr : r < 2^n) : (b.toNat * 2^n + r).testBit n = b := by
  rw [Nat.testBit_eq_decide_div_mod_eq]
  have hpos := Nat.two_pow_pos n
  have : (b.toNat * 2^n + r) / 2^n = b.toNat := by
    rw [Nat.add_comm, Nat.add_mul_div_right _ _ hpos, Nat.div_eq_of_lt hr]; simp
  rw [this]
  cases b <;> simp

theorem lowBits_top {b : Bool} {n r : Nat} : lowBits n (b.toNat * 2^n + r) = lowBits n r := by
  rw [← lowBits_mod n (b.toNat * 2^n + r), ← lowBits_mod n r]
  congr 1
  rw [Nat.add_comm, Nat.add_mul_mod_self_right]

/-- every digit string is the digit string of its value -/
theorem lowBits_valMSB : ∀ (ds : List Bool), (lowBits ds.length (valMSB ds)).reverse = ds
  | [] => rfl
  | b :: t => by
    have ih := lowBits_valMSB t
    simp only [List.length_cons, valMSB]
    rw [lowBits_succ, List.reverse_append, testBit_top (valMSB_lt t), lowBits_top, ih]
    rfl

theorem valMSB_lowBits (k x : Nat) : valMSB (lowBits k x).reverse = x % 2^k := by
  induction k with
  | zero => simp [valMSB, Nat.mod_one]
  | succ k ih =>
    rw [lowBits_succ, List.reverse_append]
    simp only [List.reverse_cons, List.reverse_nil, List.nil_append, List.singleton_append, valMSB,
      List.length_reverse, lowBits_length, ih]
    rw [Nat.mod_pow_succ, Nat.testBit_eq_decide_div_mod_eq]
    have h2 : x / 2^k % 2 < 2 := Nat.mod_lt _ (by omega)
    rcases Nat.lt_or_ge (x / 2^k % 2) 1 with h | h
    · have h0 : x / 2^k % 2 = 0 := by omega
      simp [h0]
    · have h1 : x / 2^k % 2 = 1 := by omega
      simp [h1]; omega

/-- one iteration of the decoder's second loop -/
def stepN (N : Nat) (a : Nat) (b : Bool) : Nat := ((a <<< 1) % 2^N) ||| (if b then 1 else 0)

theorem stepN_eq {N : Nat} (hN : 1 ≤ N) (a : Nat) (b : Bool) :
    stepN N a b = (2 * a + b.toNat) % 2^N := by
  unfold stepN
  rw [Nat.shiftLeft_eq, Nat.pow_one]
  have hdvd : 2 ∣ 2^N := ⟨2^(N-1), by rw [← Nat.pow_succ']; congr 1; omega⟩
  have heven : (a * 2 % 2^N) % 2 = 0 := by
    rw [Nat.mod_mod_of_dvd _ hdvd]; omega
  have hlt : a * 2 % 2^N < 2^N := Nat.mod_lt _ (Nat.two_pow_pos N)
  have h2N : 2^N % 2 = 0 := Nat.mod_eq_zero_of_dvd hdvd
  have hor : (a * 2 % 2^N) ||| (if b then 1 else 0) = a * 2 % 2^N + b.toNat := by
    cases b
    · simp
    · have h := Nat.shiftLeft_add_eq_or_of_lt (i := 1) (b := 1) (by decide) ((a * 2 % 2^N) / 2)
      rw [Nat.shiftLeft_eq, Nat.pow_one] at h
      have h3 : (a * 2 % 2^N) / 2 * 2 = a * 2 % 2^N := by omega
      rw [h3] at h
      simpa using h.symm
  rw [hor]
  have hb : b.toNat ≤ 1 := by cases b <;> simp
  have hsum : a * 2 % 2^N + b.toNat < 2^N := by omega
  rw [Nat.add_mod, Nat.mul_comm 2 a]
  have hbm : b.toNat % 2^N = b.toNat := Nat.mod_eq_of_lt (by
    have : 2 ≤ 2^N := by
      calc 2 = 2^1 := by simp
        _ ≤ 2^N := Nat.pow_le_pow_right (by omega) hN
    omega)
  rw [hbm, Nat.mod_eq_of_lt hsum]

theorem foldl_stepN {N : Nat} (hN : 1 ≤ N) : ∀ (ds : List Bool) (a : Nat), a < 2^N →
    ds.foldl (stepN N) a = (a * 2^ds.length + valMSB ds) % 2^N
  | [], a, ha => by
    simp [valMSB, Nat.mod_eq_of_lt ha]
  | b :: t, a, _ => by
    have hlt : stepN N a b < 2^N := by
      rw [stepN_eq hN]; exact Nat.mod_lt _ (Nat.two_pow_pos N)
    rw [List.foldl_cons, foldl_stepN hN t (stepN N a b) hlt, stepN_eq hN]
    simp only [valMSB, List.length_cons]
    have e : a * 2^(t.length + 1) + (b.toNat * 2^t.length + valMSB t)
        = (2 * a + b.toNat) * 2^t.length + valMSB t := by
      rw [Nat.pow_succ, Nat.add_mul, ← Nat.add_assoc]
      congr 2
      rw [Nat.mul_comm (2^t.length) 2, ← Nat.mul_assoc, Nat.mul_comm a 2]
    rw [e, Nat.add_mod, Nat.mul_mod, Nat.mod_mod, ← Nat.mul_mod, ← Nat.add_mod]

/-! ## the decoder on plain bit lists -/

theorem listSrc_next_nil : listSrc.next [] = (none, []) := rfl
theorem listSrc_next_cons (b : Bool) (r : List Bool) : listSrc.next (b :: r) = (some b, r) := rfl

theorem countZeros_true : ∀ (z f n : Nat) (r : List Bool), z < f → n + z < 2^32 →
    countZeros listSrc f (List.replicate z false ++ true :: r) n = .ok (r, some (n + z))
  | 0, f + 1, n, r, _, _ => by simp [countZeros, listSrc_next_cons]
  | z + 1, f + 1, n, r, hf, hn => by
    have ih := countZeros_true z f (n+1) r (by omega) (by omega)
    have h1 : n + 1 < 2^32 := by omega
    have h2 : n + 1 + z = n + (z + 1) := by omega
    simp only [List.replicate_succ, List.cons_append, countZeros, listSrc_next_cons, cadd, h1,
      if_true, ih, h2]

theorem countZeros_end : ∀ (z f n : Nat), z < f → n + z < 2^32 →
    countZeros listSrc f (List.replicate z false) n = .ok ([], none)
  | 0, f + 1, n, _, _ => by simp [countZeros, listSrc_next_nil]
  | z + 1, f + 1, n, hf, hn => by
    have ih := countZeros_end z f (n+1) (by omega) (by omega)
    have h1 : n + 1 < 2^32 := by omega
    simp only [List.replicate_succ, countZeros, listSrc_next_cons, cadd, h1, if_true, ih]

theorem countZeros_inv : ∀ (f : Nat) (l : List Bool) (n : Nat) (s : List Bool) (k : Nat),
    countZeros listSrc f l n = .ok (s, some k) →
    ∃ z, k = n + z ∧ l = List.replicate z false ++ true :: s
  | 0, _, _, _, _, h => by simp [countZeros] at h
  | f + 1, [], n, s, k, h => by simp [countZeros, listSrc] at h
  | f + 1, true :: r, n, s, k, h => by
    simp only [countZeros, listSrc, Except.ok.injEq, Prod.mk.injEq, Option.some.injEq] at h
    exact ⟨0, by omega, by simp [h.1]⟩
  | f + 1, false :: r, n, s, k, h => by
    simp only [countZeros, listSrc, cadd] at h
    by_cases h1 : n + 1 < 2^32
    · simp only [h1, if_true] at h
      obtain ⟨z, hk, hl⟩ := countZeros_inv f r (n+1) s k h
      exact ⟨z + 1, by omega, by simp [List.replicate_succ, hl]⟩
    · simp [h1] at h

theorem readBits_list (N : Nat) : ∀ (k : Nat) (l : List Bool) (a : Nat),
    readBits listSrc N k l a =
      if k ≤ l.length then (l.drop k, some ((l.take k).foldl (stepN N) a)) else ([], none)
  | 0, l, a => by simp [readBits]
  | k + 1, [], a => by simp [readBits, listSrc]
  | k + 1, b :: r, a => by
    have ih := readBits_list N k r (stepN N a b)
    simp only [readBits, listSrc, List.length_cons, Nat.add_le_add_iff_right, List.drop_succ_cons,
      List.take_succ_cons, List.foldl_cons]
    exact ih

theorem code_eq (v : Nat) :
    code v = List.replicate (Nat.log2 (v+1)) false ++
      true :: (lowBits (Nat.log2 (v+1)) (v+1)).reverse := by
  unfold code
  rw [lowBits_succ, List.reverse_append, Nat.testBit_log2 (Nat.succ_ne_zero v)]
  rfl

theorem wsub_one {N x : Nat} (hN : 1 ≤ N) : wsub N x 1 = (x + 2^N - 1) % 2^N := by
  have h2 : 2 ≤ 2^N := by
    calc 2 = 2^1 := by simp
      _ ≤ 2^N := Nat.pow_le_pow_right (by omega) hN
  simp [wsub, Nat.mod_eq_of_lt (by omega : 1 < 2^N)]

theorem mod_top {x k : Nat} (h1 : 2^k ≤ x) (h2 : x < 2^(k+1)) : 2^k + x % 2^k = x := by
  rw [Nat.pow_succ] at h2
  have : x % 2^k = (x - 2^k) % 2^k := Nat.mod_eq_sub_mod h1
  rw [this, Nat.mod_eq_of_lt (by omega)]
  omega

/-- C16: decoding `code v` followed by arbitrary bits returns `v` and leaves exactly the trailing
    bits — for every `v < 2^N`, including `2^N - 1` -/
theorem decode_code {N v : Nat} (hN : ValidN N) (hv : v < 2^N) (rest : List Bool) (fuel : Nat)
    (hf : Nat.log2 (v+1) < fuel) :
    decode N listSrc fuel (code v ++ rest) = .ok (rest, .ok v) := by
  obtain ⟨hN1, hN32⟩ := hN
  have hx0 : v + 1 ≠ 0 := Nat.succ_ne_zero v
  have hlo : 2^(Nat.log2 (v+1)) ≤ v + 1 := Nat.log2_self_le hx0
  have hhi : v + 1 < 2^(Nat.log2 (v+1) + 1) := Nat.lt_log2_self
  have hkN : Nat.log2 (v+1) ≤ N := by
    rcases Nat.lt_or_ge N (Nat.log2 (v+1)) with h | h
    · have : 2^(N+1) ≤ 2^(Nat.log2 (v+1)) := Nat.pow_le_pow_right (by omega) h
      rw [Nat.pow_succ] at this; omega
    · exact h
  generalize hk : Nat.log2 (v+1) = k at *
  have hcz := countZeros_true k fuel 0 ((lowBits k (v+1)).reverse ++ rest) hf (by omega)
  have hcode : code v ++ rest =
      List.replicate k false ++ true :: ((lowBits k (v+1)).reverse ++ rest) := by
    rw [code_eq, hk]; simp
  have hrb := readBits_list N k ((lowBits k (v+1)).reverse ++ rest) 1
  have hlen : k ≤ ((lowBits k (v+1)).reverse ++ rest).length := by simp
  have h1lt : 1 < 2^N := by
    calc 1 < 2^1 := by simp
      _ ≤ 2^N := Nat.pow_le_pow_right (by omega) hN1
  have hfold : ((lowBits k (v+1)).reverse).foldl (stepN N) 1 = (v + 1) % 2^N := by
    rw [foldl_stepN hN1 _ 1 h1lt, valMSB_lowBits]
    simp only [List.length_reverse, lowBits_length, Nat.one_mul]
    rw [mod_top hlo hhi]
  simp only [hlen, if_true, List.drop_left' (by simp : ((lowBits k (v+1)).reverse).length = k),
    List.take_left' (by simp : ((lowBits k (v+1)).reverse).length = k), hfold] at hrb
  unfold decode
  rw [hcode, hcz]
  simp only [Nat.zero_add, Nat.not_lt.mpr hkN, if_false, hrb]
  by_cases hmax : v + 1 = 2^N
  · have hnp : (v + 1) % 2^N = 0 := by rw [hmax, Nat.mod_self]
    have hvv : v = 2^N - 1 := by omega
    simp only [hnp, ne_eq, not_true_eq_false, and_false, if_false, wsub_one hN1]
    rw [Nat.zero_add, Nat.mod_eq_of_lt (by omega), hvv]
  · have hlt : v + 1 < 2^N := by omega
    have hnp : (v + 1) % 2^N = v + 1 := Nat.mod_eq_of_lt hlt
    have hkne : ¬ k = N := by
      intro h; rw [h] at hlo; omega
    simp only [hnp, hkne, false_and, if_false, wsub_one hN1]
    have : v + 1 + 2^N - 1 = v + 2^N := by omega
    rw [this, Nat.add_mod_right, Nat.mod_eq_of_lt hv]

/-- C16: whatever the decoder accepts is a codeword of an `N`-bit symbol followed by the bits it
    left — so every bit string that does not start with a codeword is rejected -/
theorem decode_sound {N : Nat} (hN : ValidN N) {fuel : Nat} {l rest : List Bool} {v : Nat}
    (h : decode N listSrc fuel l = .ok (rest, .ok v)) : v < 2^N ∧ l = code v ++ rest := by
  obtain ⟨hN1, hN32⟩ := hN
  have hpos := Nat.two_pow_pos N
  unfold decode at h
  cases hcz : countZeros listSrc fuel l 0 with
  | error e => simp [hcz] at h
  | ok p =>
    obtain ⟨s, o⟩ := p
    cases o with
    | none => simp [hcz] at h
    | some k =>
      obtain ⟨z, hkz, hl⟩ := countZeros_inv fuel l 0 s k hcz
      have hkz' : z = k := by omega
      subst hkz'
      simp only [hcz] at h
      by_cases hkN : z > N
      · simp [hkN] at h
      · simp only [hkN, if_false, readBits_list] at h
        by_cases hlen : z ≤ s.length
        · simp only [hlen, if_true] at h
          have h1lt : 1 < 2^N := by
            calc 1 < 2^1 := by simp
              _ ≤ 2^N := Nat.pow_le_pow_right (by omega) hN1
          have htl : (s.take z).length = z := by simp [hlen]
          have hfold := foldl_stepN hN1 (s.take z) 1 h1lt
          rw [htl, Nat.one_mul] at hfold
          have hval := valMSB_lt (s.take z)
          rw [htl] at hval
          have hds := lowBits_valMSB (s.take z)
          rw [htl] at hds
          by_cases hbad : z = N ∧ (s.take z).foldl (stepN N) 1 ≠ 0
          · rw [if_pos hbad] at h
            simp at h
          · rw [if_neg hbad] at h
            simp only [Except.ok.injEq, Prod.mk.injEq] at h
            obtain ⟨hrest, hv⟩ := h
            have hs : s = s.take z ++ rest := by rw [← hrest, List.take_append_drop]
            have hl' : l = List.replicate z false ++ true :: (s.take z ++ rest) := by
              rw [hl]; congr 2
            clear hl hs hrest hcz
            generalize s.take z = ds at *
            by_cases hzN : z = N
            · -- the wrap: N zeros, a one, N zeros
              have hz0 : ds.foldl (stepN N) 1 = 0 := by
                by_cases h0 : ds.foldl (stepN N) 1 = 0
                · exact h0
                · exact absurd ⟨hzN, h0⟩ hbad
              have hv0 : valMSB ds = 0 := by
                rw [hfold, hzN, Nat.add_mod_left, Nat.mod_eq_of_lt (by rw [← hzN]; exact hval)] at hz0
                exact hz0
              rw [hz0, wsub_one hN1, Nat.zero_add, Nat.mod_eq_of_lt (by omega)] at hv
              have hvv : v = 2^N - 1 := by omega
              refine ⟨by omega, ?_⟩
              rw [hvv, code_max, hl', ← hds, hv0, hzN, lowBits_zero_word]
              simp
            · have hzlt : z < N := by omega
              have hsum : 2^z + valMSB ds < 2^N := by
                have : 2^(z+1) ≤ 2^N := Nat.pow_le_pow_right (by omega) hzlt
                rw [Nat.pow_succ] at this; omega
              rw [hfold, Nat.mod_eq_of_lt hsum, wsub_one hN1] at hv
              have hzpos := Nat.two_pow_pos z
              have hv1 : v + 1 = 2^z + valMSB ds := by
                have : 2^z + valMSB ds + 2^N - 1 = (2^z + valMSB ds - 1) + 2^N := by omega
                rw [this, Nat.add_mod_right, Nat.mod_eq_of_lt (by omega)] at hv
                omega
              have hlog : Nat.log2 (v+1) = z := by
                apply log2_eq_of_bounds
                · omega
                · rw [Nat.pow_succ]; omega
              refine ⟨by omega, ?_⟩
              have hlb : lowBits z (2^z + valMSB ds) = lowBits z (valMSB ds) := by
                have := lowBits_top (b := true) (n := z) (r := valMSB ds)
                simpa using this
              rw [code_eq, hlog, hv1, hl', hlb, hds]
              simp
        · simp [hlen] at h

/-- the decoder never panics on fewer than `2^32` bits and reports only `InvalidCodeword` -/
theorem decode_total {N : Nat} {fuel : Nat} {l : List Bool} (hf : l.length < fuel)
    (h32 : l.length < 2^32) :
    ∃ rest r, decode N listSrc fuel l = .ok (rest, r) ∧ r ≠ .error .outOfCompressedData := by
  have hshape : ∀ (l : List Bool), (∃ z r, l = List.replicate z false ++ true :: r) ∨
      (∃ z, l = List.replicate z false) := by
    intro l
    induction l with
    | nil => exact Or.inr ⟨0, rfl⟩
    | cons b t ih =>
      cases b with
      | true => exact Or.inl ⟨0, t, rfl⟩
      | false =>
        rcases ih with ⟨z, r, h⟩ | ⟨z, h⟩
        · exact Or.inl ⟨z + 1, r, by simp [List.replicate_succ, h]⟩
        · exact Or.inr ⟨z + 1, by simp [List.replicate_succ, h]⟩
  unfold decode
  rcases hshape l with ⟨z, r, hl⟩ | ⟨z, hl⟩
  · have hz : z < l.length := by rw [hl]; simp
    rw [hl, countZeros_true z fuel 0 r (by omega) (by omega)]
    simp only [Nat.zero_add]
    by_cases h1 : z > N
    · rw [if_pos h1]; exact ⟨_, _, rfl, by simp⟩
    · rw [if_neg h1, readBits_list]
      by_cases h2 : z ≤ r.length
      · rw [if_pos h2]
        by_cases h3 : z = N ∧ (r.take z).foldl (stepN N) 1 ≠ 0
        · simp only []; rw [if_pos h3]; exact ⟨_, _, rfl, by simp⟩
        · simp only []; rw [if_neg h3]; exact ⟨_, _, rfl, by simp⟩
      · rw [if_neg h2]; exact ⟨_, _, rfl, by simp⟩
  · have hz : z = l.length := by rw [hl]; simp
    rw [hl, countZeros_end z fuel 0 (by omega) (by omega)]
    exact ⟨_, _, rfl, by simp⟩

end CV.Bits.EG
